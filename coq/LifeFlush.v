(* LifeFlush.v -- tickit_window_flush: the queued restack requests are applied (raise, lower,
   raise to front, lower to back re-order the children of one window), then the tree is walked
   for the expose and for the cursor.  While the queue is being consumed the root's head pointer
   is stale; the invariant is stated about the heap with the head pointer moved to the request
   that is applied next. *)
From Coq Require Import ZArith List Bool PArith FMapPositive Lia.
From Tickit Require Import LifeDefs LifeLemmas LifeChains LifeInv LifePure LifeWalks LifeRelink LifeRemove LifeClose
  LifeQueue LifeDestroy LifeAttach LifeOps.
Import ListNotations.
Local Open Scope Z_scope.

(* ---- list segments ------------------------------------------------------------------------------------ *)
Inductive seg (h : heap) : ptr -> list positive -> ptr -> Prop :=
| seg_nil : forall v, seg h v [] v
| seg_cons : forall a c l e, findw h a = Some c -> seg h (w_next c) l e -> seg h (Some a) (a :: l) e.

Lemma chain_seg_app : forall h l0 v rest, chain h v (l0 ++ rest) -> exists e, seg h v l0 e /\ chain h e rest.
Proof.
  intros h l0; induction l0 as [|x l0 IH]; intros v rest Hc; cbn in *.
  - exists v. split; [constructor|exact Hc].
  - inversion Hc as [|x' cx l' Hfx Hcx]; subst. destruct (IH _ _ Hcx) as [e [Hs He]].
    exists e. split; auto. econstructor; eauto.
Qed.

Lemma seg_chain_app : forall h v l0 e rest, seg h v l0 e -> chain h e rest -> chain h v (l0 ++ rest).
Proof.
  intros h v l0 e rest Hs; induction Hs; intros Hc; cbn; auto. econstructor; eauto.
Qed.

Lemma seg_app : forall h v l1 e1 l2 e2, seg h v l1 e1 -> seg h e1 l2 e2 -> seg h v (l1 ++ l2) e2.
Proof. intros h v l1 e1 l2 e2 Hs; induction Hs; intros H2; cbn; auto. econstructor; eauto. Qed.

Lemma seg_one : forall h a c, findw h a = Some c -> seg h (Some a) [a] (w_next c).
Proof. intros. econstructor; eauto. constructor. Qed.

(* a segment only depends on the [next] fields of its elements *)
Lemma seg_ext : forall h h' v l e, seg h v l e ->
  (forall a, In a l -> exists c c', findw h a = Some c /\ findw h' a = Some c' /\ w_next c' = w_next c) ->
  seg h' v l e.
Proof.
  intros h h' v l e Hs; induction Hs as [|a c l e Hf Hs IH]; intros Hext; [constructor|].
  destruct (Hext a (or_introl eq_refl)) as [c1 [c' [H1 [H2 H3]]]]. rewrite Hf in H1. inversion H1; subst c1.
  econstructor; eauto. rewrite H3. apply IH. intros x Hx. apply Hext. right. exact Hx.
Qed.

Lemma chain_ext' : forall h h' v l, chain h v l ->
  (forall a, In a l -> exists c c', findw h a = Some c /\ findw h' a = Some c' /\ w_next c' = w_next c) ->
  chain h' v l.
Proof. intros. eapply chain_ext; eauto. Qed.

(* a segment whose last element gets a new successor *)
Lemma seg_snoc : forall h' v l0 z cz' e0,
  seg h' v l0 e0 -> e0 = Some z -> findw h' z = Some cz' -> seg h' v (l0 ++ [z]) (w_next cz').
Proof.
  intros h' v l0 z cz' e0 Hs E Hz. subst e0. eapply seg_app; eauto. apply seg_one. exact Hz.
Qed.

Lemma seg_live : forall h v l e, seg h v l e -> forall a, In a l -> findw h a <> None.
Proof.
  intros h v l e Hs; induction Hs as [|a c l e Hf Hs IH]; intros x Hin; inversion Hin; subst; [congruence|auto].
Qed.

(* ---- the heap with the queue head moved ---------------------------------------------------------------- *)
Definition vq (h : heap) (qh : ptr) : heap := with_rx h (set_rqueue (rx h) qh).

Lemma findw_vq : forall h qh a, findw (vq h qh) a = findw h a.
Proof. reflexivity. Qed.
Lemma findq_vq : forall h qh a, findq (vq h qh) a = findq h a.
Proof. reflexivity. Qed.
Lemma chain_vq : forall h qh v l, chain (vq h qh) v l <-> chain h v l.
Proof. intros. split; intro H; (eapply chain_same_wins; [|exact H]); reflexivity. Qed.
Lemma anc_vq : forall h qh a b, anc (vq h qh) a b <-> anc h a b.
Proof. intros. split; intro H; (eapply anc_same_wins; [|exact H]); reflexivity. Qed.

Lemma cells_by_vq : forall h h' F qh, cells_by h h' F -> cells_by (vq h qh) (vq h' qh) F.
Proof.
  intros h h' F qh [W R Q Dg N M]. constructor; auto.
Qed.

Lemma rx_only_vq : forall h h' qh, rx_only h h' -> rx_only (vq h qh) (vq h' qh).
Proof.
  intros h h' qh [Hw [Hq [H1 [H2 [H3 H4]]]]]. repeat split; auto.
Qed.

Lemma stable_vq_l : forall h h' qh, stable h h' -> stable (vq h qh) (vq h' qh).
Proof. intros h h' qh [W N]. constructor; auto. Qed.

(* ---- expose only needs the parents of live windows to be live ----------------------------------------------- *)
Lemma expose_spec_gen : forall fuel a h0,
  (forall k ck p, findw h0 k = Some ck -> w_parent ck = Some p -> findw h0 p <> None) ->
  findw h0 a <> None ->
  hoare (fun h => h = h0) (expose fuel a) (fun _ h' => rx_only h0 h').
Proof.
  induction fuel as [|f IH]; intros a h0 Hcl Hl; cbn; [apply hoare_nofuel|].
  intros h E. subst h. destruct (live_some h0 a Hl) as [c Hf].
  unfold bind at 1. rewrite (getw_run h0 a c Hf).
  destruct (w_visible c); cbn; [|apply rx_only_refl].
  destruct (w_isroot c) eqn:Hr; cbn.
  - apply (expose_root_spec a c h0 Hf Hr h0 eq_refl).
  - destruct (w_parent c) as [p|] eqn:Hp; cbn; [|apply rx_only_refl].
    apply (IH p h0 Hcl (Hcl a c p Hf Hp) h0 eq_refl).
Qed.

Lemma hinv_vq_closed : forall D h qh, hinv D (vq h qh) ->
  forall k ck p, findw h k = Some ck -> w_parent ck = Some p -> findw h p <> None.
Proof. intros D h qh HI k ck p Hf Hp. exact (hi_parent D (vq h qh) HI k ck p Hf Hp). Qed.

(* ---- re-linking the children of [p]: only [p]'s first_child and the next pointers of its children change ---- *)
Record relinked (p : positive) (l : list positive) (h h' : heap) : Prop := mk_relinked {
  rl_wins : forall a, match findw h a, findw h' a with
                      | Some c, Some c' =>
                        w_parent c' = w_parent c /\ w_focus c' = w_focus c /\ w_closed c' = w_closed c /\
                        w_isroot c' = w_isroot c /\ w_ref c' = w_ref c /\ w_visible c' = w_visible c /\
                        (a <> p -> w_first c' = w_first c) /\ (~ In a l -> w_next c' = w_next c)
                      | None, None => True
                      | _, _ => False
                      end;
  rl_reqs : reqs h' = reqs h;
  rl_rx : rx h' = rx h;
  rl_nextw : nextw h' = nextw h;
  rl_nextq : nextq h' = nextq h
}.

Lemma relinked_refl : forall p l h, relinked p l h h.
Proof. intros p l h. constructor; auto. intro a. destruct (findw h a); auto 10. Qed.

Lemma relinked_trans : forall p l h1 h2 h3, relinked p l h1 h2 -> relinked p l h2 h3 -> relinked p l h1 h3.
Proof.
  intros p l h1 h2 h3 [W1 Q1 R1 N1 M1] [W2 Q2 R2 N2 M2]. constructor; try congruence.
  intro a. specialize (W1 a). specialize (W2 a).
  destruct (findw h1 a), (findw h2 a), (findw h3 a); try contradiction; auto.
  destruct W1 as [A1 [A2 [A3 [A4 [A5 [A6 [A7 A8]]]]]]]. destruct W2 as [B1 [B2 [B3 [B4 [B5 [B6 [B7 B8]]]]]]].
  repeat split; try congruence.
  - intro Ha. rewrite (B7 Ha). apply A7. exact Ha.
  - intro Ha. rewrite (B8 Ha). apply A8. exact Ha.
Qed.

Lemma relinked_set_next : forall p l h a v, In a l -> relinked p l h (upd_cell h a (fun c => set_next c v)).
Proof.
  intros p l h a v Hin. constructor.
  - intro b. rewrite findw_upd_cell. destruct (Pos.eqb a b) eqn:E.
    + apply Pos.eqb_eq in E. subst b. destruct (findw h a); cbn; auto. repeat split; auto. intro Hn. contradiction.
    + destruct (findw h b); auto 10.
  - apply reqs_upd_cell.
  - apply rx_upd_cell.
  - apply nextw_upd_cell.
  - apply nextq_upd_cell.
Qed.

Lemma relinked_set_first : forall p l h v, relinked p l h (upd_cell h p (fun c => set_first c v)).
Proof.
  intros p l h v. constructor.
  - intro b. rewrite findw_upd_cell. destruct (Pos.eqb p b) eqn:E.
    + apply Pos.eqb_eq in E. subst b. destruct (findw h p); cbn; auto. repeat split; auto. intro Hn. congruence.
    + destruct (findw h b); auto 10.
  - apply reqs_upd_cell.
  - apply rx_upd_cell.
  - apply nextw_upd_cell.
  - apply nextq_upd_cell.
Qed.

Lemma relinked_slot_upd : forall p l l1 s h v, slot_at p l1 s -> (forall x, In x l1 -> In x l) ->
  relinked p l h (slot_upd h s v).
Proof.
  intros p l l1 s h v [[E1 E2]|[l0 [z [E1 E2]]]] Hsub; subst s; cbn.
  - apply relinked_set_first.
  - apply relinked_set_next. apply Hsub. subst l1. apply in_or_app. right. left. reflexivity.
Qed.

Lemma relinked_vq : forall p l h h' qh, relinked p l h h' -> relinked p l (vq h qh) (vq h' qh).
Proof.
  intros p l h h' qh [W Q R N M]. constructor; auto. unfold vq, with_rx. cbn. rewrite R. reflexivity.
Qed.

Lemma relinked_stable : forall p l h h', relinked p l h h' -> stable h h'.
Proof.
  intros p l h h' [W Q R N M]. constructor; auto. intro a. specialize (W a).
  destruct (findw h a), (findw h' a); auto. tauto.
Qed.

Lemma relinked_find : forall p l h h' a c, relinked p l h h' -> findw h a = Some c ->
  exists c', findw h' a = Some c' /\ w_visible c' = w_visible c /\ w_parent c' = w_parent c.
Proof.
  intros p l h h' a c RL Hf. pose proof (rl_wins p l h h' RL a) as H. rewrite Hf in H.
  destruct (findw h' a) as [c'|]; [|contradiction]. exists c'. tauto.
Qed.

Lemma hinv_relinked : forall D p l l' h h' cp cp',
  hinv D h -> relinked p l h h' -> findw h p = Some cp -> chain h (w_first cp) l ->
  findw h' p = Some cp' -> chain h' (w_first cp') l' -> (forall k, In k l' <-> In k l) ->
  hinv D h'.
Proof.
  intros D p l l' h h' cp cp' HI RL Hp Hc Hp' Hc' Hperm.
  set (F := fun a (c : wcell) => match findw h' a with Some c' => c' | None => c end).
  assert (CB : cells_by h h' F).
  { apply cells_by_intro.
    - intro a. unfold F. pose proof (rl_wins p l h h' RL a) as H.
      destruct (findw h a), (findw h' a); cbn; auto; contradiction.
    - apply (rl_reqs p l h h' RL).
    - apply (rl_rx p l h h' RL).
    - apply (rl_nextw p l h h' RL).
    - apply (rl_nextq p l h h' RL). }
  eapply (hinv_rechain D h h' F p cp l l' HI CB Hp Hc); auto.
  - intros a c Hf. unfold F. pose proof (rl_wins p l h h' RL a) as H. rewrite Hf in H.
    destruct (findw h' a) as [c'|]; [|contradiction]. tauto.
  - unfold F. rewrite Hp'. exact Hc'.
Qed.

(* ---- single field writes and segments ---------------------------------------------------------------------- *)
Lemma seg_upd_next_notin : forall h v l e a x, seg h v l e -> ~ In a l ->
  seg (upd_cell h a (fun c => set_next c x)) v l e.
Proof.
  intros h v l e a x Hs Hn. eapply seg_ext; eauto. intros b Hb.
  pose proof (seg_live h v l e Hs b Hb) as Hl. destruct (findw h b) as [cb|] eqn:Hf; [|congruence].
  exists cb, cb. rewrite findw_upd_cell_other; auto. intro E. subst b. contradiction.
Qed.

Lemma chain_upd_next_notin : forall h v l a x, chain h v l -> ~ In a l ->
  chain (upd_cell h a (fun c => set_next c x)) v l.
Proof.
  intros h v l a x Hc Hn. eapply chain_ext; eauto. intros b Hb.
  pose proof (chain_live h v l Hc b Hb) as Hl. destruct (findw h b) as [cb|] eqn:Hf; [|congruence].
  exists cb, cb. rewrite findw_upd_cell_other; auto. intro E. subst b. contradiction.
Qed.

Lemma seg_upd_first : forall h v l e a x, seg h v l e -> seg (upd_cell h a (fun c => set_first c x)) v l e.
Proof.
  intros h v l e a x Hs. eapply seg_ext; eauto. intros b Hb.
  pose proof (seg_live h v l e Hs b Hb) as Hl. destruct (findw h b) as [cb|] eqn:Hf; [|congruence].
  rewrite findw_upd_cell. destruct (Pos.eqb a b) eqn:E.
  - apply Pos.eqb_eq in E. subst b. rewrite Hf. cbn. exists cb, (set_first cb x). auto.
  - exists cb, cb. auto.
Qed.

Lemma chain_upd_first : forall h v l a x, chain h v l -> chain (upd_cell h a (fun c => set_first c x)) v l.
Proof.
  intros h v l a x Hc. eapply chain_ext; eauto. intros b Hb.
  pose proof (chain_live h v l Hc b Hb) as Hl. destruct (findw h b) as [cb|] eqn:Hf; [|congruence].
  rewrite findw_upd_cell. destruct (Pos.eqb a b) eqn:E.
  - apply Pos.eqb_eq in E. subst b. rewrite Hf. cbn. exists cb, (set_first cb x). auto.
  - exists cb, cb. auto.
Qed.

Lemma seg_split_last : forall h v l0 z e, seg h v (l0 ++ [z]) e ->
  exists cz, seg h v l0 (Some z) /\ findw h z = Some cz /\ w_next cz = e.
Proof.
  intros h v l0; revert v; induction l0 as [|x l0 IH]; intros v z e Hs; cbn in *.
  - inversion Hs as [|a c l e' Hf Hs']; subst. inversion Hs'; subst. exists c. split; [constructor|auto].
  - inversion Hs as [|a c l e' Hf Hs']; subst. destruct (IH _ _ _ Hs') as [cz [H1 [H2 H3]]].
    exists cz. split; auto. econstructor; eauto.
Qed.

Lemma seg_upd_next_last : forall h v l0 a e x, seg h v (l0 ++ [a]) e -> ~ In a l0 ->
  seg (upd_cell h a (fun c => set_next c x)) v (l0 ++ [a]) x.
Proof.
  intros h v l0 a e x Hs Hn. destruct (seg_split_last h v l0 a e Hs) as [ca [H1 [H2 H3]]].
  eapply seg_app.
  - apply seg_upd_next_notin; eauto.
  - assert (Hf : findw (upd_cell h a (fun c => set_next c x)) a = Some (set_next ca x)).
    { rewrite findw_upd_cell_same. rewrite H2. reflexivity. }
    pose proof (seg_one _ a _ Hf) as Hone. cbn in Hone. exact Hone.
Qed.

(* writing through the slot that follows the children [l1] of [p] *)
Lemma seg_slot_upd : forall h p cp l1 s e x,
  findw h p = Some cp -> seg h (w_first cp) l1 e -> slot_at p l1 s -> NoDup l1 -> ~ In p l1 ->
  exists cp', findw (slot_upd h s x) p = Some cp' /\ seg (slot_upd h s x) (w_first cp') l1 x.
Proof.
  intros h p cp l1 s e x Hp Hs [[E1 E2]|[l0 [z [E1 E2]]]] Hnd Hnp; subst s l1; cbn.
  - exists (set_first cp x). rewrite findw_upd_cell_same. rewrite Hp. split; [reflexivity|]. cbn. constructor.
  - exists cp. split.
    + rewrite findw_upd_cell_other; auto. intro E. subst z. apply Hnp. apply in_or_app. right. left. reflexivity.
    + apply NoDup_remove_2 in Hnd. rewrite app_nil_r in Hnd. eapply seg_upd_next_last; eauto.
Qed.

Lemma slot_upd_other : forall h s x a, a <> slot_owner s -> findw (slot_upd h s x) a = findw h a.
Proof. intros h s x a Ha. destruct s; cbn in *; apply findw_upd_cell_other; congruence. Qed.

Lemma chain_slot_upd_notin : forall h s x v l, chain h v l -> (forall z, s = SNext z -> ~ In z l) ->
  chain (slot_upd h s x) v l.
Proof.
  intros h s x v l Hc Hn. destruct s as [q|z]; cbn.
  - apply chain_upd_first. exact Hc.
  - apply chain_upd_next_notin; auto.
Qed.

(* ---- the four restacking operations ---------------------------------------------------------------------------- *)
Definition restack_post (D : list positive) (qh : ptr) (h0 : heap) (h' : heap) : Prop :=
  hinv D (vq h' qh) /\ stable h0 h' /\ reqs h' = reqs h0 /\ rx h' = rx h0.

Lemma restack_finish : forall D qh p l l' h0 h' cp cp',
  hinv D (vq h0 qh) -> relinked p l h0 h' -> findw h0 p = Some cp -> chain h0 (w_first cp) l ->
  findw h' p = Some cp' -> chain h' (w_first cp') l' -> (forall k, In k l' <-> In k l) ->
  restack_post D qh h0 h'.
Proof.
  intros D qh p l l' h0 h' cp cp' HIv RL Hp Hc Hp' Hc' Hperm. split; [|split; [|split]].
  - eapply (hinv_relinked D p l l' (vq h0 qh) (vq h' qh) cp cp'); eauto.
    + apply relinked_vq. exact RL.
    + apply chain_vq. exact Hc.
    + apply chain_vq. exact Hc'.
  - eapply relinked_stable; eauto.
  - apply (rl_reqs p l h0 h' RL).
  - apply (rl_rx p l h0 h' RL).
Qed.

Lemma restack_refl : forall D qh h0, hinv D (vq h0 qh) -> restack_post D qh h0 h0.
Proof. intros. split; [auto|split; [apply stable_refl|auto]]. Qed.

(* the setting of a queued request: [w] is a child of [p] *)
Lemma restack_setting : forall D qh h0 w cw p,
  hinv D (vq h0 qh) -> findw h0 w = Some cw -> w_parent cw = Some p ->
  exists cp l1 l3, findw h0 p = Some cp /\ chain h0 (w_first cp) (l1 ++ w :: l3) /\
    (forall k, In k (l1 ++ w :: l3) <-> exists ck, findw h0 k = Some ck /\ w_parent ck = Some p) /\ p <> w.
Proof.
  intros D qh h0 w cw p HIv Hw Hwp.
  destruct (hinv_in_parent_chain D (vq h0 qh) w cw p HIv Hw Hwp) as [cp [l [Hp [Hc [Hin Hl]]]]].
  apply in_split in Hin. destruct Hin as [l1 [l3 El]]. subst l.
  exists cp, l1, l3. split; [exact Hp|]. split; [apply chain_vq in Hc; exact Hc|]. split; [exact Hl|].
  pose proof (hi_parent_lt D (vq h0 qh) HIv w cw p Hw Hwp). lia.
Qed.

Lemma nodup_app_disj : forall (l1 l2 : list positive) x, NoDup (l1 ++ l2) -> In x l1 -> In x l2 -> False.
Proof.
  induction l1 as [|a l1 IH]; intros l2 x Hnd H1 H2; [contradiction|].
  cbn in Hnd. inversion Hnd; subst. destruct H1 as [E|H1].
  - subst a. apply H3. apply in_or_app. right. exact H2.
  - eapply IH; eauto.
Qed.

Lemma nodup_app_l : forall (l1 l2 : list positive), NoDup (l1 ++ l2) -> NoDup l1.
Proof.
  induction l1 as [|a l1 IH]; intros l2 Hnd; [constructor|].
  cbn in Hnd. inversion Hnd; subst. constructor; [|eapply IH; eauto].
  intro Hin. apply H1. apply in_or_app. left. exact Hin.
Qed.

Lemma hlower_spec : forall D fuel p w cw qh h0,
  hinv D (vq h0 qh) -> findw h0 w = Some cw -> w_parent cw = Some p ->
  hoare (fun h => h = h0) (hlower fuel p w) (fun _ h' => restack_post D qh h0 h').
Proof.
  intros D fuel p w cw qh h0 HIv Hw Hwp h E. subst h.
  destruct (restack_setting D qh h0 w cw p HIv Hw Hwp) as [cp [l1 [l3 [Hp [Hc [Hl Hpw]]]]]].
  unfold hlower, find_child. unfold bind at 1.
  pose proof (find_child_from_spec fuel p cp w [] (l1 ++ w :: l3) (SFirst p) h0) as Hfc.
  assert (Hpre : findw h0 p = Some cp /\ chain h0 (w_first cp) ([] ++ l1 ++ w :: l3) /\ slot_at p [] (SFirst p) /\ ~ In w []).
  { split; [exact Hp|]. split; [exact Hc|]. split; [left; auto|]. intros []. }
  specialize (Hfc Hpre).
  destruct (find_child_from fuel (SFirst p) w h0) as [s h1| |]; [|contradiction|exact I].
  destruct Hfc as [Eh [l1' [l2' [Heq [Hs [Hn1 Hl2]]]]]]. subst h1. cbn in Heq.
  destruct (chain_prefix_notin h0 _ l1 w l3 Hc) as [Hnw1 Hnw3].
  (* the slot found is the one in front of w *)
  assert (El : l1' = l1 /\ l2' = w :: l3).
  { destruct Hl2 as [E2|[l4 E2]]; subst l2'.
    - exfalso. rewrite app_nil_r in Heq. apply Hn1. rewrite <- Heq. apply in_or_app. right. left. reflexivity.
    - assert (Hnd : NoDup (l1 ++ w :: l3)) by (eapply chain_NoDup; eauto).
      clear - Heq Hn1 Hnw1 Hnd. revert l1' Heq Hn1. induction l1 as [|x l1 IH]; intros l1' Heq Hn1; cbn in *.
      + destruct l1' as [|y l1']; cbn in Heq; inversion Heq; subst; auto. exfalso. apply Hn1. left. reflexivity.
      + destruct l1' as [|y l1']; cbn in Heq; inversion Heq; subst.
        * exfalso. apply Hnw1. left. reflexivity.
        * inversion Hnd; subst. destruct (IH (fun H => Hnw1 (or_intror H)) H3 l1' H1 (fun H => Hn1 (or_intror H))) as [E1 E2].
          subst. auto. }
  destruct El as [E1 E2]. subst l1' l2'. clear Heq Hl2.
  unfold bind at 1. rewrite (getw_run h0 w cw Hw).
  destruct (chain_seg_app h0 l1 _ _ Hc) as [e1 [Hseg1 Hcw]].
  inversion Hcw as [|w' cw' lw Hfw Hc3]; subst. rewrite Hw in Hfw. inversion Hfw; subst cw'.
  destruct (w_next cw) as [y|] eqn:Hnw.
  - (* swap w with the sibling behind it *)
    inversion Hc3 as [|y' cy l4 Hfy Hc4]; subst.
    unfold bind at 1. rewrite (getw_run h0 y cy Hfy).
    unfold bind at 1. rewrite (upd_run h0 w _ cw Hw).
    set (h1 := upd_cell h0 w (fun c => set_next c (w_next cy))).
    assert (Hnd : NoDup (l1 ++ w :: y :: l4)) by (eapply chain_NoDup; eauto).
    assert (Hwy : w <> y).
    { intro Ey. subst y. pose proof (chain_NoDup h0 _ _ Hc3) as Hnd3. inversion Hnd3; subst.
      pose proof (chain_NoDup h0 _ _ Hcw) as Hndw. inversion Hndw; subst. apply H3. left. reflexivity. }
    assert (Hy1 : ~ In y l1).
    { intro Hin. apply (nodup_app_disj l1 (w :: y :: l4) y Hnd Hin). right. left. reflexivity. }
    assert (Hy4 : ~ In y l4).
    { pose proof (chain_NoDup h0 _ _ Hc3) as Hnd3. inversion Hnd3; auto. }
    assert (Hw4 : ~ In w l4) by (intro Hin; apply Hnw3; right; exact Hin).
    assert (Hpl : ~ In p (l1 ++ w :: y :: l4)).
    { intro Hin. apply Hl in Hin. destruct Hin as [ck [G1 G2]]. pose proof (hi_parent_lt D (vq h0 qh) HIv p ck p G1 G2). lia. }
    (* step 1: w.next := y.next *)
    assert (Hs1 : seg h1 (w_first cp) l1 (Some w)) by (apply seg_upd_next_notin; auto).
    assert (Hc41 : chain h1 (w_next cy) l4) by (apply chain_upd_next_notin; auto).
    assert (Hp1 : findw h1 p = Some cp) by (unfold h1; rewrite findw_upd_cell_other; auto).
    assert (Hw1 : findw h1 w = Some (set_next cw (w_next cy))) by (unfold h1; rewrite findw_upd_cell_same; rewrite Hw; reflexivity).
    assert (Hy1' : findw h1 y = Some cy) by (unfold h1; rewrite findw_upd_cell_other; auto).
    (* step 2: the slot in front of w now holds y *)
    assert (Hv1 : exists v, slot_val h1 s = Some v).
    { destruct Hs as [[E1 E2]|[l0 [z [E1 E2]]]]; subst s; cbn.
      - rewrite Hp1. cbn. eauto.
      - assert (Hinz : In z l1) by (subst l1; apply in_or_app; right; left; reflexivity).
        pose proof (seg_live h1 _ _ _ Hs1 z Hinz) as Hlz. destruct (findw h1 z); [cbn; eauto|congruence]. }
    destruct Hv1 as [v1 Hv1].
    unfold bind at 1. rewrite (write_slot_run h1 s (Some y) v1 Hv1).
    set (h2 := slot_upd h1 s (Some y)).
    assert (Hnd1 : NoDup l1) by (eapply nodup_app_l; exact Hnd).
    assert (Hpl1 : ~ In p l1) by (intro Hin; apply Hpl; apply in_or_app; left; exact Hin).
    destruct (seg_slot_upd h1 p cp l1 s (Some w) (Some y) Hp1 Hs1 Hs Hnd1 Hpl1) as [cp2 [Hp2 Hs2]]. fold h2 in Hp2, Hs2.
    assert (Hown : slot_owner s <> w /\ slot_owner s <> y /\ (forall z, s = SNext z -> ~ In z l4)).
    { destruct Hs as [[E1 E2]|[l0 [z [E1 E2]]]]; subst s; cbn.
      - split; [congruence|]. split; [|intros z Ez; discriminate].
        intro Ey. subst y. apply Hpl. apply in_or_app. right. right. left. reflexivity.
      - assert (Hinz : In z l1) by (subst l1; apply in_or_app; right; left; reflexivity).
        split; [intro Ez; subst z; contradiction|]. split; [intro Ez; subst z; contradiction|].
        intros z' Ez'. inversion Ez'; subst z'. intro Hin4.
        apply (nodup_app_disj l1 (w :: y :: l4) z Hnd Hinz). right. right. exact Hin4. }
    destruct Hown as [Hown_w [Hown_y Hown4]].
    assert (Hw2 : findw h2 w = Some (set_next cw (w_next cy))) by (unfold h2; rewrite slot_upd_other; auto).
    assert (Hy2 : findw h2 y = Some cy) by (unfold h2; rewrite slot_upd_other; auto).
    assert (Hc42 : chain h2 (w_next cy) l4) by (apply chain_slot_upd_notin; auto).
    (* step 3: y.next := w *)
    rewrite (upd_run h2 y _ cy Hy2).
    set (h3 := upd_cell h2 y (fun c => set_next c (Some w))).
    assert (Hs3 : seg h3 (w_first cp2) l1 (Some y)) by (apply seg_upd_next_notin; auto).
    assert (Hc43 : chain h3 (w_next cy) l4) by (apply chain_upd_next_notin; auto).
    assert (Hw3 : findw h3 w = Some (set_next cw (w_next cy))) by (unfold h3; rewrite findw_upd_cell_other; auto).
    assert (Hy3 : findw h3 y = Some (set_next cy (Some w))) by (unfold h3; rewrite findw_upd_cell_same; rewrite Hy2; reflexivity).
    assert (Hp3 : findw h3 p = Some cp2).
    { unfold h3. rewrite findw_upd_cell_other; auto. intro Ey. subst y. apply Hpl. apply in_or_app. right. right. left. reflexivity. }
    assert (Hc3' : chain h3 (w_first cp2) (l1 ++ y :: w :: l4)).
    { eapply seg_chain_app; [exact Hs3|]. econstructor; [exact Hy3|]. cbn. econstructor; [exact Hw3|]. cbn. exact Hc43. }
    assert (RL : relinked p (l1 ++ w :: y :: l4) h0 h3).
    { eapply relinked_trans; [apply relinked_set_next; apply in_or_app; right; left; reflexivity|].
      eapply relinked_trans; [apply (relinked_slot_upd p _ l1 s h1 (Some y) Hs); intros x Hx; apply in_or_app; left; exact Hx|].
      apply relinked_set_next. apply in_or_app. right. right. left. reflexivity. }
    eapply (restack_finish D qh p (l1 ++ w :: y :: l4) (l1 ++ y :: w :: l4) h0 h3 cp cp2); eauto.
    intro k. split; intro Hin; apply in_app_or in Hin; apply in_or_app; destruct Hin as [Hin|[Hin|[Hin|Hin]]]; auto;
      right; cbn; auto.
  - (* already last *)
    cbn. apply restack_refl. exact HIv.
Qed.

(* the search for w's slot among the children of p *)
Lemma find_child_w : forall fuel p cp w l1 l3 h0,
  findw h0 p = Some cp -> chain h0 (w_first cp) (l1 ++ w :: l3) ->
  match find_child fuel p w h0 with
  | Ok s h1 => h1 = h0 /\ slot_at p l1 s
  | Fault _ _ => False
  | NoFuel => True
  end.
Proof.
  intros fuel p cp w l1 l3 h0 Hp Hc. unfold find_child.
  pose proof (find_child_from_spec fuel p cp w [] (l1 ++ w :: l3) (SFirst p) h0) as Hfc.
  assert (Hpre : findw h0 p = Some cp /\ chain h0 (w_first cp) ([] ++ l1 ++ w :: l3) /\ slot_at p [] (SFirst p) /\ ~ In w []).
  { split; [exact Hp|]. split; [exact Hc|]. split; [left; auto|]. intros []. }
  specialize (Hfc Hpre).
  destruct (find_child_from fuel (SFirst p) w h0) as [s h1| |]; auto.
  destruct Hfc as [Eh [l1' [l2' [Heq [Hs [Hn1 Hl2]]]]]]. split; auto. cbn in Heq.
  destruct (chain_prefix_notin h0 _ l1 w l3 Hc) as [Hnw1 Hnw3].
  assert (El : l1' = l1).
  { destruct Hl2 as [E2|[l4 E2]]; subst l2'.
    - exfalso. rewrite app_nil_r in Heq. apply Hn1. rewrite <- Heq. apply in_or_app. right. left. reflexivity.
    - assert (Hnd : NoDup (l1 ++ w :: l3)) by (eapply chain_NoDup; eauto).
      clear - Heq Hn1 Hnw1 Hnd. revert l1' Heq Hn1. induction l1 as [|x l1 IH]; intros l1' Heq Hn1; cbn in *.
      + destruct l1' as [|y l1']; cbn in Heq; inversion Heq; subst; auto. exfalso. apply Hn1. left. reflexivity.
      + destruct l1' as [|y l1']; cbn in Heq; inversion Heq; subst.
        * exfalso. apply Hnw1. left. reflexivity.
        * inversion Hnd; subst. f_equal. apply (IH (fun H => Hnw1 (or_intror H)) H3 l1' H1 (fun H => Hn1 (or_intror H))). }
  subst l1'. exact Hs.
Qed.

(* _do_hierarchy_remove alone: w is spliced out and keeps its parent *)
Lemma hremove_ptr_spec : forall D fuel p w cw cp l1 l3 qh h0,
  hinv D (vq h0 qh) -> findw h0 w = Some cw -> findw h0 p = Some cp -> p <> w ->
  chain h0 (w_first cp) (l1 ++ w :: l3) ->
  (forall k, In k (l1 ++ w :: l3) <-> exists ck, findw h0 k = Some ck /\ w_parent ck = Some p) ->
  hoare (fun h => h = h0) (hremove fuel p w)
        (fun _ h2 => relinked p (l1 ++ w :: l3) h0 h2 /\
                     exists cp2, findw h2 p = Some cp2 /\ chain h2 (w_first cp2) (l1 ++ l3) /\
                                 findw h2 w = Some (set_next cw None)).
Proof.
  intros D fuel p w cw cp l1 l3 qh h0 HIv Hw Hp Hpw Hc Hl h E. subst h.
  unfold hremove. unfold bind at 1.
  pose proof (find_child_w fuel p cp w l1 l3 h0 Hp Hc) as Hfc.
  destruct (find_child fuel p w h0) as [s h1| |]; [|contradiction|exact I].
  destruct Hfc as [Eh Hs]. subst h1.
  destruct (slot_at_val h0 p cp l1 (w :: l3) s Hp Hc Hs) as [v [Hv Hcv]].
  inversion Hcv as [|w' cw' l' Hfw Hc3]; subst. rewrite Hw in Hfw. inversion Hfw; subst cw'.
  unfold bind at 1. rewrite (read_slot_run h0 s (Some w) Hv).
  unfold bind at 1. cbn [deref ret]. unfold bind at 1. rewrite (getw_run h0 w cw Hw).
  unfold bind at 1. rewrite (write_slot_run h0 s (w_next cw) (Some w) Hv).
  set (h1 := slot_upd h0 s (w_next cw)).
  destruct (chain_seg_app h0 l1 _ _ Hc) as [e1 [Hseg1 Hcw]].
  assert (Hnd : NoDup (l1 ++ w :: l3)) by (eapply chain_NoDup; eauto).
  assert (Hnd1 : NoDup l1) by (eapply nodup_app_l; exact Hnd).
  destruct (chain_prefix_notin h0 _ l1 w l3 Hc) as [Hnw1 Hnw3].
  assert (Hpl : ~ In p (l1 ++ w :: l3)).
  { intro Hin. apply Hl in Hin. destruct Hin as [ck [G1 G2]]. pose proof (hi_parent_lt D (vq h0 qh) HIv p ck p G1 G2). lia. }
  assert (Hpl1 : ~ In p l1) by (intro Hin; apply Hpl; apply in_or_app; left; exact Hin).
  destruct (seg_slot_upd h0 p cp l1 s e1 (w_next cw) Hp Hseg1 Hs Hnd1 Hpl1) as [cp1 [Hp1 Hs1]]. fold h1 in Hp1, Hs1.
  assert (Hown : slot_owner s <> w /\ (forall z, s = SNext z -> ~ In z l3)).
  { destruct Hs as [[E1 E2]|[l0 [z [E1 E2]]]]; subst s; cbn.
    - split; [congruence|intros z Ez; discriminate].
    - assert (Hinz : In z l1) by (subst l1; apply in_or_app; right; left; reflexivity).
      split; [intro Ez; subst z; contradiction|].
      intros z' Ez'. inversion Ez'; subst z'. intro Hin3.
      apply (nodup_app_disj l1 (w :: l3) z Hnd Hinz). right. exact Hin3. }
  destruct Hown as [Hown_w Hown3].
  assert (Hc31 : chain h1 (w_next cw) l3) by (apply chain_slot_upd_notin; auto).
  assert (Hw1 : findw h1 w = Some cw) by (unfold h1; rewrite slot_upd_other; auto).
  rewrite (upd_run h1 w _ cw Hw1).
  set (h2 := upd_cell h1 w (fun c => set_next c None)).
  split.
  - eapply relinked_trans; [apply (relinked_slot_upd p _ l1 s h0 (w_next cw) Hs); intros x Hx; apply in_or_app; left; exact Hx|].
    apply relinked_set_next. apply in_or_app. right. left. reflexivity.
  - exists cp1. split; [unfold h2; rewrite findw_upd_cell_other; auto|]. split.
    + apply chain_upd_next_notin.
      * eapply seg_chain_app; eauto.
      * intro Hin. apply in_app_or in Hin. destruct Hin; contradiction.
    + unfold h2. rewrite findw_upd_cell_same. rewrite Hw1. reflexivity.
Qed.

Lemma raise_front_spec : forall D fuel p w cw qh h0,
  hinv D (vq h0 qh) -> findw h0 w = Some cw -> w_parent cw = Some p ->
  hoare (fun h => h = h0) (hremove fuel p w ;;; insert_first p w) (fun _ h' => restack_post D qh h0 h').
Proof.
  intros D fuel p w cw qh h0 HIv Hw Hwp h E. subst h.
  destruct (restack_setting D qh h0 w cw p HIv Hw Hwp) as [cp [l1 [l3 [Hp [Hc [Hl Hpw]]]]]].
  unfold bind at 1.
  pose proof (hremove_ptr_spec D fuel p w cw cp l1 l3 qh h0 HIv Hw Hp Hpw Hc Hl h0 eq_refl) as Hrm.
  destruct (hremove fuel p w h0) as [u h2| |]; [|contradiction|exact I].
  destruct Hrm as [RL2 [cp2 [Hp2 [Hc2 Hw2]]]].
  destruct (chain_prefix_notin h0 _ l1 w l3 Hc) as [Hnw1 Hnw3].
  unfold insert_first. unfold bind at 1. rewrite (getw_run h2 p cp2 Hp2).
  unfold bind at 1. rewrite (upd_run h2 w _ _ Hw2).
  set (h3 := upd_cell h2 w (fun c => set_next c (w_first cp2))).
  assert (Hp3 : findw h3 p = Some cp2) by (unfold h3; rewrite findw_upd_cell_other; auto).
  rewrite (upd_run h3 p _ cp2 Hp3).
  set (h4 := upd_cell h3 p (fun c => set_first c (Some w))).
  assert (Hw3 : findw h3 w = Some (set_next (set_next cw None) (w_first cp2))).
  { unfold h3. rewrite findw_upd_cell_same. rewrite Hw2. reflexivity. }
  assert (Hc3 : chain h3 (w_first cp2) (l1 ++ l3)).
  { apply chain_upd_next_notin; auto. intro Hin. apply in_app_or in Hin. destruct Hin; contradiction. }
  assert (Hp4 : findw h4 p = Some (set_first cp2 (Some w))) by (unfold h4; rewrite findw_upd_cell_same; rewrite Hp3; reflexivity).
  assert (Hc4 : chain h4 (Some w) (w :: l1 ++ l3)).
  { econstructor.
    - unfold h4. rewrite findw_upd_cell_other; auto. exact Hw3.
    - cbn. apply chain_upd_first. exact Hc3. }
  eapply (restack_finish D qh p (l1 ++ w :: l3) (w :: l1 ++ l3) h0 h4 cp); eauto.
  - eapply relinked_trans; [exact RL2|].
    eapply relinked_trans; [apply relinked_set_next; apply in_or_app; right; left; reflexivity|apply relinked_set_first].
  - intro k. split; intro Hin.
    + destruct Hin as [Ek|Hin]; [subst k; apply in_or_app; right; left; reflexivity|].
      apply in_app_or in Hin. apply in_or_app. destruct Hin; [left|right; right]; auto.
    + apply in_app_or in Hin. destruct Hin as [Hin|[Ek|Hin]]; [right; apply in_or_app; left; auto|left; auto|right; apply in_or_app; right; auto].
Qed.

Lemma lower_back_spec : forall D fuel p w cw qh h0,
  hinv D (vq h0 qh) -> findw h0 w = Some cw -> w_parent cw = Some p ->
  hoare (fun h => h = h0) (hremove fuel p w ;;; insert_last fuel p w) (fun _ h' => restack_post D qh h0 h').
Proof.
  intros D fuel p w cw qh h0 HIv Hw Hwp h E. subst h.
  destruct (restack_setting D qh h0 w cw p HIv Hw Hwp) as [cp [l1 [l3 [Hp [Hc [Hl Hpw]]]]]].
  unfold bind at 1.
  pose proof (hremove_ptr_spec D fuel p w cw cp l1 l3 qh h0 HIv Hw Hp Hpw Hc Hl h0 eq_refl) as Hrm.
  destruct (hremove fuel p w h0) as [u h2| |]; [|contradiction|exact I].
  destruct Hrm as [RL2 [cp2 [Hp2 [Hc2 Hw2]]]].
  destruct (chain_prefix_notin h0 _ l1 w l3 Hc) as [Hnw1 Hnw3].
  assert (Hnw : ~ In w (l1 ++ l3)) by (intro Hin; apply in_app_or in Hin; destruct Hin; contradiction).
  assert (Hsub : forall x, In x (l1 ++ l3) -> In x (l1 ++ w :: l3)).
  { intros x Hx. apply in_app_or in Hx. apply in_or_app. destruct Hx; [left|right; right]; auto. }
  assert (Hpl : ~ In p (l1 ++ l3)).
  { intro Hin. apply Hsub in Hin. apply Hl in Hin. destruct Hin as [ck [G1 G2]].
    pose proof (hi_parent_lt D (vq h0 qh) HIv p ck p G1 G2). lia. }
  unfold insert_last. unfold bind at 1.
  pose proof (last_slot_spec fuel p cp2 [] (l1 ++ l3) (SFirst p) h2) as Hls.
  assert (Hpre : findw h2 p = Some cp2 /\ chain h2 (w_first cp2) ([] ++ l1 ++ l3) /\ slot_at p [] (SFirst p)).
  { split; [exact Hp2|]. split; [exact Hc2|]. left. auto. }
  specialize (Hls Hpre).
  destruct (last_slot fuel (SFirst p) h2) as [s h2'| |]; [|contradiction|exact I].
  destruct Hls as [Eh Hs]. subst h2'. cbn in Hs.
  destruct (slot_at_val h2 p cp2 (l1 ++ l3) [] s Hp2) as [v [Hv Hcv]]; [rewrite app_nil_r; exact Hc2|exact Hs|].
  unfold bind at 1. rewrite (write_slot_run h2 s (Some w) v Hv).
  set (h3 := slot_upd h2 s (Some w)).
  assert (Hc2' : chain h2 (w_first cp2) ((l1 ++ l3) ++ [])) by (rewrite app_nil_r; exact Hc2).
  destruct (chain_seg_app h2 (l1 ++ l3) (w_first cp2) [] Hc2') as [e2 [Hseg2 _]].
  assert (Hnd2 : NoDup (l1 ++ l3)) by (eapply chain_NoDup; eauto).
  destruct (seg_slot_upd h2 p cp2 (l1 ++ l3) s e2 (Some w) Hp2 Hseg2 Hs Hnd2 Hpl) as [cp3 [Hp3 Hs3]]. fold h3 in Hp3, Hs3.
  assert (Hown_w : slot_owner s <> w).
  { destruct Hs as [[E1 E2]|[l0 [z [E1 E2]]]]; subst s; cbn; [congruence|].
    intro Ez. subst z. apply Hnw. rewrite E1. apply in_or_app. right. left. reflexivity. }
  assert (Hw3 : findw h3 w = Some (set_next cw None)) by (unfold h3; rewrite slot_upd_other; auto).
  rewrite (upd_run h3 w _ _ Hw3).
  set (h4 := upd_cell h3 w (fun c => set_next c None)).
  assert (Hp4 : findw h4 p = Some cp3) by (unfold h4; rewrite findw_upd_cell_other; auto).
  assert (Hw4 : findw h4 w = Some (set_next (set_next cw None) None)).
  { unfold h4. rewrite findw_upd_cell_same. rewrite Hw3. reflexivity. }
  assert (Hc4 : chain h4 (w_first cp3) ((l1 ++ l3) ++ [w])).
  { eapply seg_chain_app.
    - apply seg_upd_next_notin; eauto.
    - econstructor; [exact Hw4|]. cbn. constructor. }
  eapply (restack_finish D qh p (l1 ++ w :: l3) ((l1 ++ l3) ++ [w]) h0 h4 cp); eauto.
  - eapply relinked_trans; [exact RL2|].
    eapply relinked_trans; [apply (relinked_slot_upd p _ (l1 ++ l3) s h2 (Some w) Hs Hsub)|].
    apply relinked_set_next. apply in_or_app. right. left. reflexivity.
  - intro k. split; intro Hin.
    + apply in_app_or in Hin. destruct Hin as [Hin|[Ek|[]]]; [apply Hsub; exact Hin|subst k; apply in_or_app; right; left; reflexivity].
    + apply in_app_or in Hin. apply in_or_app. destruct Hin as [Hin|[Ek|Hin]].
      * left. apply in_or_app. left. exact Hin.
      * right. left. exact Ek.
      * left. apply in_or_app. right. exact Hin.
Qed.

(* ---- _do_hierarchy_raise --------------------------------------------------------------------------------------- *)
Lemma nodup_split_unique : forall (w : positive) a1 b1 a2 b2,
  NoDup (a1 ++ w :: b1) -> a1 ++ w :: b1 = a2 ++ w :: b2 -> a1 = a2 /\ b1 = b2.
Proof.
  induction a1 as [|x a1 IH]; intros b1 a2 b2 Hnd Heq; cbn in *.
  - destruct a2 as [|y a2]; cbn in Heq; inversion Heq; subst; auto.
    exfalso. inversion Hnd as [|? ? Hni Hnd2]; subst. apply Hni. apply in_or_app. right. left. reflexivity.
  - destruct a2 as [|y a2]; cbn in Heq; inversion Heq as [[Ex Et]]; subst.
    + exfalso. inversion Hnd as [|? ? Hni Hnd2]; subst. apply Hni. apply in_or_app. right. left. reflexivity.
    + inversion Hnd as [|? ? Hni Hnd2]; subst. destruct (IH b1 a2 b2 Hnd2 Et) as [E1 E2]. subst. auto.
Qed.

Lemma raise_slot_spec : forall fuel p cp w l1 l2 s,
  hoare_ro (fun h => findw h p = Some cp /\ chain h (w_first cp) (l1 ++ l2) /\ slot_at p l1 s /\
                     (forall x cx, In x l1 -> findw h x = Some cx -> w_next cx <> Some w))
           (raise_slot fuel s w)
           (fun h s' => exists l1' l2', l1 ++ l2 = l1' ++ l2' /\ slot_at p l1' s' /\
                          (forall x cx, In x l1' -> findw h x = Some cx -> w_next cx <> Some w) /\
                          (l2' = [] \/ exists z cz rest, l2' = z :: rest /\ findw h z = Some cz /\ w_next cz = Some w)).
Proof.
  induction fuel as [|f IH]; intros p cp w l1 l2 s h [Hf [Hc [Hs Hn]]]; cbn; [exact I|].
  destruct (slot_at_val h p cp l1 l2 s Hf Hc Hs) as [v [Hv Hcv]].
  unfold bind at 1. rewrite (read_slot_run h s v Hv).
  destruct v as [a|].
  - inversion Hcv as [|a' ca l' Hfa Hca]; subst.
    unfold bind at 1. rewrite (getw_run h a ca Hfa).
    destruct (ptr_eqb (w_next ca) (Some w)) eqn:E.
    + apply ptr_eqb_eq in E. cbn. split; auto. exists l1, (a :: l'). split; auto. split; auto. split; auto.
      right. exists a, ca, l'. auto.
    + apply ptr_eqb_neq in E.
      specialize (IH p cp w (l1 ++ [a]) l' (SNext a) h).
      assert (Hpre : findw h p = Some cp /\ chain h (w_first cp) ((l1 ++ [a]) ++ l') /\ slot_at p (l1 ++ [a]) (SNext a) /\
                     (forall x cx, In x (l1 ++ [a]) -> findw h x = Some cx -> w_next cx <> Some w)).
      { split; [exact Hf|]. split; [rewrite <- app_assoc; exact Hc|]. split; [right; exists l1, a; auto|].
        intros x cx Hin Hfx. apply in_app_or in Hin. destruct Hin as [Hin|[Ex|[]]]; [eapply Hn; eauto|].
        subst x. rewrite Hfa in Hfx. inversion Hfx; subst cx. exact E. }
      specialize (IH Hpre). destruct (raise_slot f (SNext a) w h); auto.
      destruct IH as [Eh [l1' [l2' [Heq Hrest]]]]. split; auto. exists l1', l2'. split; auto.
      rewrite <- Heq. rewrite <- app_assoc. reflexivity.
  - inversion Hcv; subst. cbn. split; auto. exists l1, []. split; auto.
Qed.

Lemma hraise_spec : forall D fuel p w cw qh h0,
  hinv D (vq h0 qh) -> findw h0 w = Some cw -> w_parent cw = Some p ->
  hoare (fun h => h = h0) (hraise fuel p w) (fun _ h' => restack_post D qh h0 h').
Proof.
  intros D fuel p w cw qh h0 HIv Hw Hwp h E. subst h.
  destruct (restack_setting D qh h0 w cw p HIv Hw Hwp) as [cp [l1 [l3 [Hp [Hc [Hl Hpw]]]]]].
  unfold hraise. unfold bind at 1. rewrite (getw_run h0 p cp Hp).
  destruct (ptr_eqb (w_first cp) (Some w)) eqn:Efirst; [cbn; apply restack_refl; exact HIv|].
  apply ptr_eqb_neq in Efirst.
  (* w is not the first child: it has a predecessor z *)
  destruct (exists_last (l := l1)) as [l0 [z El1]].
  { intro El. subst l1. cbn in Hc. inversion Hc; subst. congruence. }
  assert (Hnd : NoDup (l1 ++ w :: l3)) by (eapply chain_NoDup; eauto).
  subst l1.
  assert (Hc' : chain h0 (w_first cp) (l0 ++ z :: w :: l3)) by (rewrite <- app_assoc in Hc; exact Hc).
  assert (Hnd' : NoDup (l0 ++ z :: w :: l3)) by (eapply chain_NoDup; eauto).
  destruct (chain_seg_app h0 l0 _ _ Hc') as [e0 [Hseg0 Hcz]].
  inversion Hcz as [|z' cz lz Hfz Hcw]; subst.
  inversion Hcw as [|w' cw' lw Hfw Hc3]; subst. rewrite Hw in Hfw. inversion Hfw; subst cw'.
  (* the search *)
  unfold bind at 1.
  pose proof (raise_slot_spec fuel p cp w [] (l0 ++ z :: w :: l3) (SFirst p) h0) as Hrs.
  assert (Hpre : findw h0 p = Some cp /\ chain h0 (w_first cp) ([] ++ l0 ++ z :: w :: l3) /\ slot_at p [] (SFirst p) /\
                 (forall x cx, In x [] -> findw h0 x = Some cx -> w_next cx <> Some w)).
  { split; [exact Hp|]. split; [exact Hc'|]. split; [left; auto|]. intros x cx []. }
  specialize (Hrs Hpre).
  destruct (raise_slot fuel (SFirst p) w h0) as [s h1| |]; [|contradiction|exact I].
  destruct Hrs as [Eh [l1' [l2' [Heq [Hs [Hnone Hfound]]]]]]. subst h1. cbn in Heq.
  assert (El : l1' = l0).
  { destruct Hfound as [E2|[z' [cz' [rest [E2 [Hfz' Hnz']]]]]]; subst l2'.
    - exfalso. rewrite app_nil_r in Heq. apply (Hnone z cz); auto. rewrite <- Heq. apply in_or_app. right. left. reflexivity.
    - rewrite Heq in Hc'. destruct (chain_app h0 _ l1' z' rest Hc') as [cz'' [Hfz'' Hcrest]].
      rewrite Hfz' in Hfz''. inversion Hfz''; subst cz''. rewrite Hnz' in Hcrest.
      inversion Hcrest as [|w' cw' rest' Hfw' Hcr']; subst.
      assert (Heq' : (l0 ++ [z]) ++ w :: l3 = (l1' ++ [z']) ++ w :: rest') by (rewrite <- !app_assoc; exact Heq).
      assert (Hnd'' : NoDup ((l0 ++ [z]) ++ w :: l3)) by (rewrite <- app_assoc; exact Hnd').
      destruct (nodup_split_unique w _ _ _ _ Hnd'' Heq') as [E1 _].
      apply app_inj_tail in E1. destruct E1; auto. }
  subst l1'.
  assert (Hv : slot_val h0 s = Some (Some z)).
  { destruct (slot_at_val h0 p cp l0 (z :: w :: l3) s Hp Hc' Hs) as [v [Hv Hcv]]. inversion Hcv; subst. exact Hv. }
  unfold bind at 1. rewrite (getw_run h0 w cw Hw).
  unfold bind at 1. rewrite (read_slot_run h0 s (Some z) Hv).
  (* the facts about positions *)
  assert (Hzw : z <> w).
  { intro Ez. subst z. apply NoDup_remove_2 in Hnd'. apply Hnd'. apply in_or_app. right. left. reflexivity. }
  assert (Hw0 : ~ In w l0) by (intro Hin; apply (nodup_app_disj l0 (z :: w :: l3) w Hnd' Hin); right; left; reflexivity).
  assert (Hz0 : ~ In z l0) by (intro Hin; apply (nodup_app_disj l0 (z :: w :: l3) z Hnd' Hin); left; reflexivity).
  assert (Hw3 : ~ In w l3).
  { pose proof (chain_NoDup h0 _ _ Hcw) as Hn. inversion Hn as [|? ? Hni Hn2]; subst. exact Hni. }
  assert (Hz3 : ~ In z l3).
  { pose proof (chain_NoDup h0 _ _ Hcz) as Hn. inversion Hn as [|? ? Hni Hn2]; subst. intro Hin. apply Hni. right. exact Hin. }
  assert (Hpl : ~ In p (l0 ++ z :: w :: l3)).
  { intro Hin. rewrite <- app_assoc in Hl. cbn in Hl. apply Hl in Hin. destruct Hin as [ck [G1 G2]].
    pose proof (hi_parent_lt D (vq h0 qh) HIv p ck p G1 G2). lia. }
  assert (Hpz : p <> z) by (intro Ep; subst z; apply Hpl; apply in_or_app; right; left; reflexivity).
  (* step 1: w points to its old predecessor *)
  unfold bind at 1. rewrite (upd_run h0 w _ cw Hw).
  set (h1 := upd_cell h0 w (fun c => set_next c (Some z))).
  assert (Hz1 : findw h1 z = Some cz) by (unfold h1; rewrite findw_upd_cell_other; auto).
  unfold bind at 1. cbn [deref ret].
  (* step 2: the old predecessor now points behind w *)
  unfold bind at 1. rewrite (upd_run h1 z _ cz Hz1).
  set (h2 := upd_cell h1 z (fun c => set_next c (w_next cw))).
  assert (Hs2 : seg h2 (w_first cp) l0 (Some z)).
  { apply seg_upd_next_notin; auto. apply seg_upd_next_notin; auto. }
  assert (Hc32 : chain h2 (w_next cw) l3).
  { apply chain_upd_next_notin; auto. apply chain_upd_next_notin; auto. }
  assert (Hp2 : findw h2 p = Some cp).
  { unfold h2. rewrite findw_upd_cell_other; auto. unfold h1. rewrite findw_upd_cell_other; auto. }
  assert (Hw2 : findw h2 w = Some (set_next cw (Some z))).
  { unfold h2. rewrite findw_upd_cell_other; auto. unfold h1. rewrite findw_upd_cell_same. rewrite Hw. reflexivity. }
  assert (Hz2 : findw h2 z = Some (set_next cz (w_next cw))).
  { unfold h2. rewrite findw_upd_cell_same. rewrite Hz1. reflexivity. }
  (* step 3: the slot in front now holds w *)
  assert (Hv2 : exists v, slot_val h2 s = Some v).
  { destruct Hs as [[E1 E2]|[l00 [z0 [E1 E2]]]]; subst s; cbn.
    - rewrite Hp2. cbn. eauto.
    - assert (Hinz : In z0 l0) by (subst l0; apply in_or_app; right; left; reflexivity).
      pose proof (seg_live h2 _ _ _ Hs2 z0 Hinz) as Hlz. destruct (findw h2 z0); [cbn; eauto|congruence]. }
  destruct Hv2 as [v2 Hv2].
  rewrite (write_slot_run h2 s (Some w) v2 Hv2).
  set (h3 := slot_upd h2 s (Some w)).
  assert (Hnd0 : NoDup l0) by (eapply nodup_app_l; exact Hnd').
  assert (Hpl0 : ~ In p l0) by (intro Hin; apply Hpl; apply in_or_app; left; exact Hin).
  destruct (seg_slot_upd h2 p cp l0 s (Some z) (Some w) Hp2 Hs2 Hs Hnd0 Hpl0) as [cp3 [Hp3 Hs3]]. fold h3 in Hp3, Hs3.
  assert (Hown : slot_owner s <> w /\ slot_owner s <> z /\ (forall z', s = SNext z' -> ~ In z' l3)).
  { destruct Hs as [[E1 E2]|[l00 [z0 [E1 E2]]]]; subst s; cbn.
    - split; [congruence|]. split; [exact Hpz|intros z' Ez; discriminate].
    - assert (Hinz : In z0 l0) by (subst l0; apply in_or_app; right; left; reflexivity).
      split; [intro Ez; subst z0; contradiction|]. split; [intro Ez; subst z0; contradiction|].
      intros z' Ez'. inversion Ez'; subst z'. intro Hin3.
      apply (nodup_app_disj l0 (z :: w :: l3) z0 Hnd' Hinz). right. right. exact Hin3. }
  destruct Hown as [Hown_w [Hown_z Hown3]].
  assert (Hw3' : findw h3 w = Some (set_next cw (Some z))) by (unfold h3; rewrite slot_upd_other; auto).
  assert (Hz3' : findw h3 z = Some (set_next cz (w_next cw))) by (unfold h3; rewrite slot_upd_other; auto).
  assert (Hc33 : chain h3 (w_next cw) l3) by (apply chain_slot_upd_notin; auto).
  assert (Hcfin : chain h3 (w_first cp3) (l0 ++ w :: z :: l3)).
  { eapply seg_chain_app; [exact Hs3|]. econstructor; [exact Hw3'|]. cbn. econstructor; [exact Hz3'|]. cbn. exact Hc33. }
  assert (Hsub0 : forall x, In x l0 -> In x ((l0 ++ [z]) ++ w :: l3)).
  { intros x Hx. rewrite <- app_assoc. apply in_or_app. left. exact Hx. }
  eapply (restack_finish D qh p ((l0 ++ [z]) ++ w :: l3) (l0 ++ w :: z :: l3) h0 h3 cp cp3); eauto.
  - eapply relinked_trans; [apply relinked_set_next; apply in_or_app; right; left; reflexivity|].
    eapply relinked_trans; [apply relinked_set_next; rewrite <- app_assoc; apply in_or_app; right; left; reflexivity|].
    apply (relinked_slot_upd p _ l0 s h2 (Some w) Hs Hsub0).
  - intro k. rewrite <- app_assoc. cbn.
    split; intro Hin; apply in_app_or in Hin; apply in_or_app; destruct Hin as [Hin|[Hin|[Hin|Hin]]]; auto; right; cbn; auto.
Qed.

(* ---- one queued request is applied --------------------------------------------------------------------------- *)
Lemma do_restack_spec : forall D fuel ch p w cw qh h0,
  hinv D (vq h0 qh) -> is_restack ch = true -> findw h0 w = Some cw -> w_parent cw = Some p ->
  hoare (fun h => h = h0) (do_change fuel ch p w)
        (fun _ h' => hinv D (vq h' qh) /\ stable h0 h' /\ reqs h' = reqs h0).
Proof.
  intros D fuel ch p w cw qh h0 HIv Hrs Hw Hwp h E. subst h. unfold do_change. unfold bind at 1.
  assert (H1 : match (match ch with
                      | ChInsertFirst => insert_first p w
                      | ChInsertLast => insert_last fuel p w
                      | ChRemove => hremove fuel p w ;;; upd w (fun c => set_parent c None) ;;;
                                    cp <- getw p ;; (if ptr_eqb (w_focus cp) (Some w)
                                                     then setw p (set_focus cp None) ;;; focus_chain_changed fuel (Some p) else ret tt)
                      | ChRaise => hraise fuel p w
                      | ChRaiseFront => hremove fuel p w ;;; insert_first p w
                      | ChLower => hlower fuel p w
                      | ChLowerBack => hremove fuel p w ;;; insert_last fuel p w
                      end) h0 with
               | Ok _ h1 => restack_post D qh h0 h1 | Fault _ _ => False | NoFuel => True end).
  { destruct ch; try discriminate.
    - exact (hraise_spec D fuel p w cw qh h0 HIv Hw Hwp h0 eq_refl).
    - exact (raise_front_spec D fuel p w cw qh h0 HIv Hw Hwp h0 eq_refl).
    - exact (hlower_spec D fuel p w cw qh h0 HIv Hw Hwp h0 eq_refl).
    - exact (lower_back_spec D fuel p w cw qh h0 HIv Hw Hwp h0 eq_refl). }
  match goal with |- match match ?m h0 with _ => _ end with _ => _ end => destruct (m h0) as [u1 h1| |] end; [|contradiction|exact I].
  destruct H1 as [HI1 [S1 [Q1 R1]]].
  pose proof (st_wins h0 h1 S1 w) as Hsw. rewrite Hw in Hsw.
  destruct (findw h1 w) as [cw1|] eqn:Hw1; [|contradiction].
  unfold bind at 1. rewrite (getw_run h1 w cw1 Hw1).
  destruct (w_visible cw1).
  - assert (Hlp : findw h1 p <> None).
    { destruct Hsw as [Hp1 _]. rewrite Hwp in Hp1. exact (hinv_vq_closed D h1 qh HI1 w cw1 p Hw1 Hp1). }
    pose proof (expose_spec_gen fuel p h1 (hinv_vq_closed D h1 qh HI1) Hlp h1 eq_refl) as He.
    destruct (expose fuel p h1) as [u2 h2| |]; [|contradiction|exact I].
    split; [eapply hinv_rx_only; [exact HI1|apply rx_only_vq; exact He]|].
    split; [eapply stable_trans; [exact S1|apply rx_only_stable; exact He]|].
    destruct He as [_ [Hq _]]. congruence.
  - cbn. auto.
Qed.

Lemma hinv_vq_self : forall D h, hinv D h -> hinv D (vq h (r_queue (rx h))).
Proof.
  intros D h HI. eapply hinv_same; eauto. unfold vq, with_rx. cbn. destruct (rx h); reflexivity.
Qed.

Lemma apply_queue_spec : forall D fuel req h,
  hinv D (vq h req) ->
  hoare (fun h1 => h1 = h) (apply_queue fuel req)
        (fun _ h' => hinv D (vq h' None) /\ stable h h').
Proof.
  intros D. induction fuel as [|f IH]; intros req h HIv h0 E; subst h0; cbn [apply_queue]; [exact I|].
  destruct req as [q|]; [|cbn; split; [exact HIv|apply stable_refl]].
  destruct (hi_queue D (vq h (Some q)) HIv) as [ql [Hq1 [Hq2 Hq3]]].
  change (r_queue (rx (vq h (Some q)))) with (Some q) in Hq1.
  inversion Hq1 as [|q' c rest Hfq Hcrest]; subst.
  change (findq h q = Some c) in Hfq.
  unfold bind at 1. rewrite (getq_run h q c Hfq).
  destruct (Hq3 q c Hfq) as [x [p [cx [G1 [G2 [G3 [G4 G5]]]]]]].
  rewrite G2, G1. unfold bind at 1. cbn [deref ret]. unfold bind at 1. cbn [deref ret]. unfold bind at 1.
  pose proof (do_restack_spec D (S f) (q_change c) p x cx (Some q) h HIv (hi_qkind D (vq h (Some q)) HIv q c Hfq) G3 G4 h eq_refl) as Hdo.
  destruct (do_change (S f) (q_change c) p x h) as [u1 h1| |]; [|contradiction|exact I].
  destruct Hdo as [HI1 [S1 Q1]].
  assert (Hfq1 : findq h1 q = Some c) by (unfold findq; rewrite Q1; exact Hfq).
  unfold bind at 1. rewrite (getq_run h1 q c Hfq1).
  unfold bind at 1. unfold freeq. unfold findq in Hfq1. rewrite Hfq1.
  set (h2 := mkHeap (wins h1) (PM.remove q (reqs h1)) (rx h1) (nextw h1) (nextq h1) (dlog h1) (uninit_seen h1) (tr h1)).
  assert (Hc1 : qchain (vq h1 (Some q)) (r_queue (rx (vq h1 (Some q)))) ([] ++ q :: rest)).
  { destruct (hi_queue D (vq h1 (Some q)) HI1) as [ql1 [Hc1 _]]. cbn.
    change (r_queue (rx (vq h1 (Some q)))) with (Some q) in Hc1.
    inversion Hc1 as [|q'' c1 rest1 Hfq'' Hcr1]; subst.
    change (findq h1 q = Some c1) in Hfq''. unfold findq in Hfq''. rewrite Hfq1 in Hfq''. inversion Hfq''; subst c1.
    econstructor; [exact Hfq1|].
    (* the rest of the chain is determined by q's next pointer, which did not change *)
    eapply qchain_same; [exact Hcrest|]. intros a Ha. unfold findq, vq, with_rx. cbn. rewrite Q1. reflexivity. }
  destruct (hinv_qunlink D (vq h1 (Some q)) [] q rest c None HI1 Hc1 Hfq1 (or_introl (conj eq_refl eq_refl))) as [HI2 _].
  assert (E2 : qunlink (vq h1 (Some q)) None q (q_next c) = vq h2 (q_next c)) by reflexivity.
  rewrite E2 in HI2.
  specialize (IH (q_next c) h2 HI2 h2 eq_refl).
  destruct (apply_queue f (q_next c) h2) as [u3 h3| |]; [|contradiction|exact I].
  destruct IH as [HI3 S3]. split; [exact HI3|].
  eapply stable_trans; [exact S1|]. eapply stable_trans; [|exact S3].
  apply same_wins_stable; reflexivity.
Qed.

(* ---- the read-only walks of flush ------------------------------------------------------------------------------ *)
Lemma cell_visible_kids_ok : forall D f k prev h, hinv D h -> (forall a, k = Some a -> findw h a <> None) ->
  match cell_visible_kids f k prev h with Ok _ h' => h' = h | Fault _ _ => False | NoFuel => True end.
Proof.
  intros D. induction f as [|f IH]; intros k prev h HI Hl; cbn; [exact I|].
  destruct k as [a|]; [|cbn; reflexivity].
  destruct (ptr_eqb prev (Some a)); [cbn; reflexivity|].
  destruct (live_some h a (Hl a eq_refl)) as [c Ha]. unfold bind. rewrite (getw_run h a c Ha).
  destruct (w_visible c); [cbn; reflexivity|]. apply IH; auto.
  intros n En. destruct (hinv_next_live D h a c n HI Ha En) as [cn [Hfn _]]. congruence.
Qed.

Lemma cell_visible_ok : forall D f w prev h, hinv D h -> (forall a, w = Some a -> findw h a <> None) ->
  match cell_visible f w prev h with Ok _ h' => h' = h | Fault _ _ => False | NoFuel => True end.
Proof.
  intros D. induction f as [|f IH]; intros w prev h HI Hl; cbn; [exact I|].
  destruct w as [a|]; [|cbn; reflexivity].
  destruct (live_some h a (Hl a eq_refl)) as [c Ha]. unfold bind at 1. rewrite (getw_run h a c Ha).
  unfold bind at 1.
  assert (Hk : forall x, w_first c = Some x -> findw h x <> None).
  { intros x Ex. destruct (hinv_first_live D h a c x HI Ha Ex) as [cx [Hfx _]]. congruence. }
  pose proof (cell_visible_kids_ok D f (w_first c) prev h HI Hk) as H1.
  destruct (cell_visible_kids f (w_first c) prev h) as [ok h1| |]; [|contradiction|exact I].
  subst h1. destruct ok; [|cbn; reflexivity].
  unfold bind. rewrite (getw_run h a c Ha). apply IH; auto.
  intros p Ep. destruct (hinv_parent_live D h a c p HI Ha Ep) as [cp Hfp]. congruence.
Qed.

Lemma restore_walk_ok : forall f w h, hinv [] h -> findw h w <> None ->
  match restore_walk f w h with Ok r h' => h' = h /\ findw h r <> None | Fault _ _ => False | NoFuel => True end.
Proof.
  induction f as [|f IH]; intros w h HI Hl; cbn; [exact I|].
  destruct (live_some h w Hl) as [c Hw]. unfold bind. rewrite (getw_run h w c Hw).
  destruct (w_visible c); cbn; [|auto].
  destruct (w_focus c) as [fc|] eqn:Hfo; cbn; [|auto].
  destruct (hi_focus [] h HI w c fc Hw (fun x => x) Hfo) as [cf [Hfc _]]. apply IH; auto. congruence.
Qed.

Lemma do_restore_ok : forall f h, hinv [] h -> findw h root <> None ->
  match do_restore f root h with Ok _ h' => h' = h | Fault _ _ => False | NoFuel => True end.
Proof.
  intros f h HI Hl. unfold do_restore. unfold bind at 1.
  pose proof (restore_walk_ok f root h HI Hl) as Hw.
  destruct (restore_walk f root h) as [w h1| |]; [|contradiction|exact I].
  destruct Hw as [Eh Hlw]. subst h1. destruct (live_some h w Hlw) as [c Hfw].
  unfold bind at 1. rewrite (getw_run h w c Hfw).
  destruct (w_focused c); [|cbn; reflexivity].
  unfold bind at 1.
  assert (Hk : forall a, Some w = Some a -> findw h a <> None) by (intros a Ea; inversion Ea; subst; exact Hlw).
  pose proof (cell_visible_ok [] f (Some w) None h HI Hk) as Hcv.
  destruct (cell_visible f (Some w) None h) as [vis h1| |]; [|contradiction|exact I].
  subst h1. destruct vis; [|cbn; reflexivity].
  pose proof (abs_geometry_spec [] f w h (conj HI Hlw)) as Hag.
  destruct (abs_geometry f w h) as [u h1| |]; [|contradiction|exact I]. destruct Hag; auto.
Qed.

(* ---- tickit_window_flush on the root ------------------------------------------------------------------------------- *)
Lemma rx_flags_hinv : forall D h r, hinv D h -> r_queue r = r_queue (rx h) -> r_drag r = r_drag (rx h) ->
  hinv D (with_rx h r) /\ stable h (with_rx h r).
Proof.
  intros D h r HI Hq Hd. assert (R : rx_only h (with_rx h r)) by (apply rx_only_with_rx; auto).
  split; [eapply hinv_rx_only; eauto|apply rx_only_stable; exact R].
Qed.

Lemma setr_run : forall h a c r, findw h a = Some c -> w_isroot c = true -> setr a r h = Ok tt (with_rx h r).
Proof. intros h a c r Hf Hr. unfold setr, bind. rewrite (getw_run h a c Hf). rewrite Hr. reflexivity. Qed.

Lemma updr_run : forall h a c f, findw h a = Some c -> w_isroot c = true -> updr a f h = Ok tt (with_rx h (f (rx h))).
Proof.
  intros h a c f Hf Hr. unfold updr, bind. rewrite (getr_run h a c Hf Hr).
  rewrite (setr_run h a c _ Hf Hr). reflexivity.
Qed.

(* tickit_window_flush on the root, up to the redraw: the queued restacking requests *)
Lemma flush_begin_spec : forall fuel h,
  hinv [] h -> findw h root <> None ->
  hoare (fun h1 => h1 = h) (flush_begin fuel root) (fun _ h' => hinv [] h' /\ stable h h').
Proof.
  intros fuel h HI Hl h0 E. subst h0. destruct (live_some h root Hl) as [cr Hr].
  assert (Hir : w_isroot cr = true) by (rewrite (hi_isroot [] h HI root cr Hr); apply Pos.eqb_refl).
  unfold flush_begin. unfold bind at 1. rewrite (getw_run h root cr Hr).
  rewrite (hi_root_parent [] h HI cr Hr).
  unfold bind at 1. rewrite (getr_run h root cr Hr Hir).
  destruct (r_later (rx h)); cbn [negb]; [|cbn; split; [exact HI|apply stable_refl]].
  unfold bind at 1. rewrite (setr_run h root cr _ Hr Hir).
  destruct (rx_flags_hinv [] h (set_rlater (rx h) false) HI eq_refl eq_refl) as [HI1 S1].
  set (h1 := with_rx h (set_rlater (rx h) false)) in *.
  assert (Hr1 : findw h1 root = Some cr) by exact Hr.
  unfold bind at 1. rewrite (getr_run h1 root cr Hr1 Hir).
  unfold bind at 1.
  assert (Hq : match (match r_queue (rx h1) with
                      | Some _ => apply_queue fuel (r_queue (rx h1)) ;;; updr root (fun r => set_rqueue r None)
                      | None => ret tt end) h1 with
               | Ok _ h2 => hinv [] h2 /\ stable h1 h2 | Fault _ _ => False | NoFuel => True end).
  { destruct (r_queue (rx h1)) as [q0|] eqn:Hq0; [|cbn; split; [exact HI1|apply stable_refl]].
    unfold bind at 1.
    assert (HIv : hinv [] (vq h1 (Some q0))) by (rewrite <- Hq0; apply hinv_vq_self; exact HI1).
    pose proof (apply_queue_spec [] fuel (Some q0) h1 HIv h1 eq_refl) as Haq.
    destruct (apply_queue fuel (Some q0) h1) as [u h2| |]; [|contradiction|exact I].
    destruct Haq as [HI2 S2].
    pose proof (st_wins h1 h2 S2 root) as Hsr. rewrite Hr1 in Hsr.
    destruct (findw h2 root) as [cr2|] eqn:Hr2; [|contradiction].
    assert (Hir2 : w_isroot cr2 = true) by (rewrite (hi_isroot [] (vq h2 None) HI2 root cr2 Hr2); apply Pos.eqb_refl).
    rewrite (updr_run h2 root cr2 _ Hr2 Hir2).
    split; [exact HI2|]. eapply stable_trans; [exact S2|]. apply same_wins_stable; reflexivity. }
  match goal with |- match match ?m h1 with _ => _ end with _ => _ end => destruct (m h1) as [u2 h2| |] end; [|contradiction|exact I].
  destruct Hq as [HI2 S2]. cbn [ret]. split; [exact HI2|eapply stable_trans; eauto].
Qed.

(* ... and after it: the cursor *)
Lemma flush_end_spec : forall fuel h,
  hinv [] h -> findw h root <> None ->
  hoare (fun h1 => h1 = h) (flush_end fuel root) (fun _ h' => hinv [] h' /\ stable h h').
Proof.
  intros fuel h3 HI3 Hl3 h0 E. subst h0. destruct (live_some h3 root Hl3) as [cr3 Hr3].
  assert (Hir3 : w_isroot cr3 = true) by (rewrite (hi_isroot [] h3 HI3 root cr3 Hr3); apply Pos.eqb_refl).
  unfold flush_end. unfold bind at 1. rewrite (getr_run h3 root cr3 Hr3 Hir3).
  destruct (r_restore (rx h3)); [|cbn; split; [exact HI3|apply stable_refl]].
  unfold bind at 1. rewrite (setr_run h3 root cr3 _ Hr3 Hir3).
  destruct (rx_flags_hinv [] h3 (set_rrestore (rx h3) false) HI3 eq_refl eq_refl) as [HI4 S4].
  set (h4 := with_rx h3 (set_rrestore (rx h3) false)) in *.
  assert (Hl4 : findw h4 root <> None) by (apply (stable_live h3 h4 root S4); exact Hl3).
  pose proof (do_restore_ok fuel h4 HI4 Hl4) as Hdr.
  destruct (do_restore fuel root h4) as [u h5| |]; [|contradiction|exact I]. subst h5.
  split; [exact HI4|exact S4].
Qed.
