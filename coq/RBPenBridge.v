(* RBPenBridge.v -- composition with property C19: the pens of the render-buffer model are the
   attribute maps (PenSpec.lookup) of TickitPens; merging and equivalence in RBDefs are what
   the C19 model of tickit_pen_copy / tickit_pen_equiv does to those maps.  Interface used: the
   theorems C19_copy (copy_spec), C19_equiv_iff (equiv_iff), C19_clear (clear_spec). *)
From Coq Require Import ZArith List Bool Lia.
From Tickit Require Import Gen_Colours PenDefs PenSpec PenProofs.
From Tickit Require RectDefs RBDefs RBPenLemmas.
Import ListNotations.
Local Open Scope Z_scope.

(* the map a TickitPen denotes, as a render-buffer pen *)
Definition denote (p : PenDefs.pen) : RBDefs.pen := RBDefs.pen_build (lookup p).

Lemma pget_denote : forall p a, RBDefs.pget (denote p) a = lookup p a.
Proof. intros p a. destruct a; reflexivity. Qed.

Lemma preads_denote : forall p a, RBDefs.preads (denote p) a = reads p a.
Proof. intros p a. unfold RBDefs.preads, reads. rewrite pget_denote. reflexivity. Qed.

(* tickit_pen_copy *)
Theorem rb_pen_copy_is_C19 : forall dst src ow, wf src ->
  denote (copy dst src ow) = RBDefs.pen_copy (denote dst) (denote src) ow.
Proof.
  intros dst src ow W. unfold denote at 1, RBDefs.pen_copy, RBDefs.pen_build.
  rewrite !pget_denote. rewrite !(copy_spec dst src ow _ W). reflexivity.
Qed.

(* tickit_pen_equiv *)
Theorem rb_pen_equiv_is_C19 : forall x y, equiv x y = RBDefs.pen_equiv (denote x) (denote y).
Proof.
  intros x y.
  assert (H : equiv x y = true <-> RBDefs.pen_equiv (denote x) (denote y) = true).
  { rewrite equiv_iff. unfold RBDefs.pen_equiv. rewrite forallb_forall. split.
    - intros H a Ha. rewrite !preads_denote. apply value_eqb_eq. apply H. apply all_attrs_real. exact Ha.
    - intros H a Ha. apply value_eqb_eq. rewrite <- !preads_denote. apply H. apply all_attrs_real. exact Ha. }
  destruct (equiv x y), (RBDefs.pen_equiv (denote x) (denote y)); try reflexivity.
  - symmetry. apply H. reflexivity.
  - apply H. reflexivity.
Qed.

(* tickit_pen_new (and tickit_pen_clear): the empty pen *)
Theorem rb_pen_new_is_C19 : forall g p, denote (pen_new g) = RBDefs.pen_empty /\ denote (clear p) = RBDefs.pen_empty.
Proof.
  intros g p. unfold denote, RBDefs.pen_build, RBDefs.pen_empty.
  split; [rewrite !(proj2 (clear_spec p g _))|rewrite !(proj1 (clear_spec p g _))]; reflexivity.
Qed.

(* tickit_pen_clone denotes the same map *)
Theorem rb_pen_clone_is_C19 : forall orig g, wf orig -> denote (clone orig g) = denote orig.
Proof.
  intros orig g W. unfold denote, RBDefs.pen_build. destruct (clone_spec orig g W) as (_ & H). now rewrite !H.
Qed.
