(* LoopRefine.v -- C17_refines: the model of the repaired timer / deferred-callback machinery
   (LoopDefs, io_mask_bug = false) produces, for every callback environment and every script,
   exactly the log of the priority-queue specification (LoopSpec, queue formulation). *)
From Coq Require Import ZArith List Bool Lia.
From Tickit Require Import LoopDefs LoopSpec LoopProofs.
Import ListNotations.
Local Open Scope Z_scope.

(* ------------------------------------------------------------------ counting identities *)

Definition cnt (id : Z) (l : list watch) : nat := length (filter (fun w => w_id w =? id) l).
Definition hit (w : watch) (id : Z) : nat := if w_id w =? id then 1%nat else 0%nat.

Lemma cnt_app : forall id l1 l2, cnt id (l1 ++ l2) = (cnt id l1 + cnt id l2)%nat.
Proof. intros. unfold cnt. rewrite filter_app, app_length. reflexivity. Qed.

Lemma cnt_cons : forall id w l, cnt id (w :: l) = (hit w id + cnt id l)%nat.
Proof. intros. unfold cnt, hit. cbn [filter]. destruct (w_id w =? id); reflexivity. Qed.

Lemma cnt_below : forall id n l, Forall (fun w => w_id w < n) l -> n <= id -> cnt id l = O.
Proof.
  induction l as [|h t IH]; intros HF Hn; [reflexivity|].
  inversion HF; subst. rewrite cnt_cons, IH by assumption. unfold hit.
  destruct (w_id h =? id) eqn:E; [apply Z.eqb_eq in E; lia|reflexivity].
Qed.

Lemma find_remove_cnt : forall id l w l', find_remove id l = Some (w, l') ->
  forall i, cnt i l = (hit w i + cnt i l')%nat.
Proof.
  induction l as [|h t IH]; intros w l' H i; [discriminate|].
  cbn [find_remove] in H. destruct (w_id h =? id) eqn:E.
  - inversion H; subst. apply cnt_cons.
  - destruct (find_remove id t) as [[w0 t']|] eqn:Ef; [|discriminate].
    inversion H; subst. rewrite !cnt_cons, (IH w t' eq_refl i). lia.
Qed.

Lemma find_remove_some_cnt : forall id l w l', find_remove id l = Some (w, l') -> (1 <= cnt id l)%nat.
Proof.
  intros id l w l' H. rewrite (find_remove_cnt _ _ _ _ H id).
  destruct (find_remove_some _ _ _ _ H) as [Hid _]. unfold hit. rewrite Hid, Z.eqb_refl. lia.
Qed.

Lemma find_remove_none_cnt : forall id l, find_remove id l = None <-> cnt id l = O.
Proof.
  induction l as [|h t IH]; [split; reflexivity|].
  cbn [find_remove]. rewrite cnt_cons. unfold hit. destruct (w_id h =? id) eqn:E.
  - split; [discriminate|intros H; lia].
  - destruct (find_remove id t) as [[w t']|].
    + split; [discriminate|]. intros H. cbn in H. apply IH in H. discriminate.
    + split; [intros _; apply IH; reflexivity|reflexivity].
Qed.

Lemma find_remove_app : forall id l1 l2,
  find_remove id (l1 ++ l2) =
  match find_remove id l1 with
  | Some (w, l1') => Some (w, l1' ++ l2)
  | None => match find_remove id l2 with Some (w, l2') => Some (w, l1 ++ l2') | None => None end
  end.
Proof.
  induction l1 as [|h t IH]; intros l2.
  - cbn. destruct (find_remove id l2) as [[w l]|]; reflexivity.
  - cbn [app find_remove]. destruct (w_id h =? id); [reflexivity|].
    rewrite IH. destruct (find_remove id t) as [[w t']|]; [reflexivity|].
    destruct (find_remove id l2) as [[w l]|]; reflexivity.
Qed.

Lemma cnt_timer_insert : forall id l w, cnt id (timer_insert l w) = (hit w id + cnt id l)%nat.
Proof.
  induction l as [|h t IH]; intros w; cbn [timer_insert]; [apply cnt_cons|].
  destruct (w_x h <=? w_x w); [|apply cnt_cons].
  rewrite !cnt_cons, IH. lia.
Qed.

Lemma cnt_insert_watch : forall id f l w, cnt id (insert_watch f l w) = (hit w id + cnt id l)%nat.
Proof.
  intros id f l w. unfold insert_watch. destruct f; [apply cnt_cons|].
  rewrite cnt_app, cnt_cons. change (cnt id []) with O. lia.
Qed.

(* ------------------------------------------------------------------ queue insertion and the due split *)

Lemma timer_insert_pq : forall l w, Forall (fun v => w_id v < w_id w) l -> timer_insert l w = pq_insert w l.
Proof.
  induction l as [|h t IH]; intros w HF; [reflexivity|].
  inversion HF as [|? ? Hh Ht]; subst. cbn [timer_insert pq_insert]. unfold key_le.
  destruct (w_x h <=? w_x w) eqn:E.
  - apply Z.leb_le in E.
    assert (K : (w_x h <? w_x w) || (w_x h =? w_x w) && (w_id h <=? w_id w) = true).
    { destruct (w_x h <? w_x w) eqn:E1; [reflexivity|]. apply Z.ltb_ge in E1. cbn.
      apply andb_true_iff. split; [apply Z.eqb_eq; lia|apply Z.leb_le; lia]. }
    rewrite K, IH by assumption. reflexivity.
  - apply Z.leb_gt in E.
    assert (K : (w_x h <? w_x w) || (w_x h =? w_x w) && (w_id h <=? w_id w) = false).
    { destruct (w_x h <? w_x w) eqn:E1; [apply Z.ltb_lt in E1; lia|]. cbn.
      destruct (w_x h =? w_x w) eqn:E2; [apply Z.eqb_eq in E2; lia|reflexivity]. }
    rewrite K. reflexivity.
Qed.

Inductive xsorted : list watch -> Prop :=
| xs_nil : xsorted []
| xs_cons : forall h t, Forall (fun v => w_x h <= w_x v) t -> xsorted t -> xsorted (h :: t).

Lemma xsorted_timer_insert : forall l w, xsorted l -> xsorted (timer_insert l w).
Proof.
  induction l as [|h t IH]; intros w Hs; cbn [timer_insert].
  - constructor; constructor.
  - inversion Hs as [|? ? Hh Ht]; subst. destruct (w_x h <=? w_x w) eqn:E.
    + apply Z.leb_le in E. constructor; [|apply IH; exact Ht].
      apply timer_insert_forall; assumption.
    + apply Z.leb_gt in E. constructor; [|exact Hs].
      constructor; [lia|]. eapply Forall_impl; [|exact Hh]. cbn. intros; lia.
Qed.

Lemma xsorted_find_remove : forall id l w l', find_remove id l = Some (w, l') -> xsorted l -> xsorted l'.
Proof.
  induction l as [|h t IH]; intros w l' H Hs; [discriminate|].
  cbn [find_remove] in H. inversion Hs as [|? ? Hh Ht]; subst. destruct (w_id h =? id).
  - inversion H; subst. exact Ht.
  - destruct (find_remove id t) as [[w0 t']|] eqn:Ef; [|discriminate]. inversion H; subst.
    constructor; [|eapply IH; [reflexivity|exact Ht]].
    destruct (find_remove_some _ _ _ _ Ef) as [_ [_ [Hsub _]]].
    rewrite Forall_forall in *. auto.
Qed.

Lemma split_due_filter : forall nw l, xsorted l ->
  split_due nw l = (filter (fun w => w_x w <=? nw) l, filter (fun w => negb (w_x w <=? nw)) l).
Proof.
  induction l as [|h t IH]; intros Hs; [reflexivity|].
  inversion Hs as [|? ? Hh Ht]; subst. cbn [split_due filter].
  destruct (w_x h <=? nw) eqn:E.
  - rewrite (IH Ht). reflexivity.
  - cbn [negb]. apply Z.leb_gt in E.
    assert (F : forall v, In v t -> (w_x v <=? nw) = false).
    { intros v Hv. rewrite Forall_forall in Hh. specialize (Hh v Hv). apply Z.leb_gt. lia. }
    assert (F1 : filter (fun w => w_x w <=? nw) t = []).
    { clear -F. induction t as [|a t IH]; [reflexivity|]. cbn [filter]. rewrite (F a (in_eq _ _)).
      apply IH. intros v Hv. apply F. right. exact Hv. }
    assert (F2 : filter (fun w => negb (w_x w <=? nw)) t = t).
    { clear -F. induction t as [|a t IH]; [reflexivity|]. cbn [filter]. rewrite (F a (in_eq _ _)). cbn [negb].
      f_equal. apply IH. intros v Hv. apply F. right. exact Hv. }
    rewrite F1, F2. reflexivity.
Qed.

Lemma xsorted_filter : forall (f : watch -> bool) l, xsorted l -> xsorted (filter f l).
Proof.
  induction l as [|h t IH]; intros Hs; [constructor|].
  inversion Hs as [|? ? Hh Ht]; subst. cbn [filter]. destruct (f h); [|apply IH; exact Ht].
  constructor; [|apply IH; exact Ht].
  apply Forall_forall. intros v Hv. apply filter_In in Hv. destruct Hv as [Hv _].
  rewrite Forall_forall in Hh. auto.
Qed.

(* ------------------------------------------------------------------ well-formed model states *)

Definition cnt_all (s : st) (id : Z) : nat :=
  (cnt id (timers s) + cnt id (run_timers s) + cnt id (laters s) + cnt id (run_laters s) +
   cnt id (ios s) + cnt id (sigs s) + cnt id (procs s))%nat.

Record WF (s : st) : Prop := mkWF {
  wf_uniq : forall id, (cnt_all s id <= 1)%nat;
  wf_below : Below s;
  wf_sorted : xsorted (timers s) }.

(* the abstraction: what the specification's state is for a model state *)
Definition abs (s : st) : qst :=
  mkQ (timers s) (laters s) (run_timers s ++ run_laters s) (ios s) (sigs s) (procs s)
      (next_id s) (now s) (iter s) (log s).

Lemma Below_parts : forall s, Below s ->
  Forall (fun w => w_id w < next_id s) (timers s) /\ Forall (fun w => w_id w < next_id s) (run_timers s) /\
  Forall (fun w => w_id w < next_id s) (laters s) /\ Forall (fun w => w_id w < next_id s) (run_laters s) /\
  Forall (fun w => w_id w < next_id s) (ios s) /\ Forall (fun w => w_id w < next_id s) (sigs s) /\
  Forall (fun w => w_id w < next_id s) (procs s).
Proof. intros s H. unfold Below, all_lists in H. rewrite !Forall_app in H. tauto. Qed.

Section Refine.
Variable env : Z -> list action.
Variable uenv : Z -> list action.

(* ---- registrations *)
Lemma abs_reg : forall s a, WF s -> abs (do_reg false s a) = q_reg (abs s) a.
Proof.
  intros s a H. destruct a as [d fl cb|fl cb|k x fl cb|id| |]; cbn [do_reg q_reg]; try reflexivity.
  - unfold abs. cbn [timers laters run_timers run_laters ios sigs procs next_id now iter log set_next set_timers q_pq q_next q_now].
    rewrite timer_insert_pq; [reflexivity|].
    destruct (Below_parts s (wf_below s H)) as [Ht _]. exact Ht.
  - destruct k; reflexivity.
Qed.

Lemma WF_reg : forall s a, WF s -> WF (do_reg false s a).
Proof.
  intros s a H. destruct a as [d fl cb|fl cb|k x fl cb|id| |]; cbn [do_reg]; try exact H.
  - destruct H as [Hu Hb Hs]. destruct (Below_parts s Hb) as [B1 [B2 [B3 [B4 [B5 [B6 B7]]]]]].
    constructor.
    + intros i. specialize (Hu i). unfold cnt_all in *.
      cbn [timers run_timers laters run_laters ios sigs procs set_next set_timers].
      rewrite cnt_timer_insert. unfold hit. cbn [w_id]. destruct (next_id s =? i) eqn:E; [|lia].
      apply Z.eqb_eq in E. subst i.
      rewrite (cnt_below _ _ _ B1), (cnt_below _ _ _ B2), (cnt_below _ _ _ B3), (cnt_below _ _ _ B4),
              (cnt_below _ _ _ B5), (cnt_below _ _ _ B6), (cnt_below _ _ _ B7) by lia. lia.
    + exact (proj1 (Below_reg false s (ATimer d fl cb) Hb)).
    + cbn [timers set_next set_timers]. apply xsorted_timer_insert. exact Hs.
  - destruct H as [Hu Hb Hs]. destruct (Below_parts s Hb) as [B1 [B2 [B3 [B4 [B5 [B6 B7]]]]]].
    constructor; [|exact (proj1 (Below_reg false s (ALater fl cb) Hb))|exact Hs].
    intros i. specialize (Hu i). unfold cnt_all in *.
    cbn [timers run_timers laters run_laters ios sigs procs set_next set_laters].
    rewrite cnt_insert_watch. unfold hit. cbn [w_id]. destruct (next_id s =? i) eqn:E; [|lia].
    apply Z.eqb_eq in E. subst i.
    rewrite (cnt_below _ _ _ B1), (cnt_below _ _ _ B2), (cnt_below _ _ _ B3), (cnt_below _ _ _ B4),
            (cnt_below _ _ _ B5), (cnt_below _ _ _ B6), (cnt_below _ _ _ B7) by lia. lia.
  - destruct k; try exact H;
      destruct H as [Hu Hb Hs]; destruct (Below_parts s Hb) as [B1 [B2 [B3 [B4 [B5 [B6 B7]]]]]];
      (constructor; [|match goal with |- Below (?f _ ?n) => idtac end|exact Hs]);
      try (intros i; specialize (Hu i); unfold cnt_all in *;
           cbn [timers run_timers laters run_laters ios sigs procs set_next set_ios set_sigs set_procs];
           rewrite cnt_insert_watch; unfold hit; cbn [w_id]; destruct (next_id s =? i) eqn:E; [|lia];
           apply Z.eqb_eq in E; subst i;
           rewrite (cnt_below _ _ _ B1), (cnt_below _ _ _ B2), (cnt_below _ _ _ B3), (cnt_below _ _ _ B4),
                   (cnt_below _ _ _ B5), (cnt_below _ _ _ B6), (cnt_below _ _ _ B7) by lia; lia).
    + exact (proj1 (Below_reg false s (AWatch KIo x fl cb) Hb)).
    + exact (proj1 (Below_reg false s (AWatch KSig x fl cb) Hb)).
    + exact (proj1 (Below_reg false s (AWatch KProc x fl cb) Hb)).
  - destruct H as [Hu Hb Hs]. constructor; assumption.
Qed.

Lemma sim_regs : forall l s, WF s -> abs (do_regs false s l) = q_regs (abs s) l /\ WF (do_regs false s l).
Proof.
  induction l as [|a l IH]; intros s H; [split; [reflexivity|exact H]|].
  unfold do_regs, q_regs in *. cbn [fold_left]. rewrite <- (abs_reg s a H). apply IH. apply WF_reg. exact H.
Qed.

(* ---- the UNBIND notification *)
Lemma WF_emit : forall s w f, WF s -> WF (emit s w f).
Proof. intros s w f [Hu Hb Hs]. constructor; assumption. Qed.

Lemma sim_notify : forall s w, WF s ->
  abs (notify_unbind false uenv s w) = q_notify uenv (abs s) w /\ WF (notify_unbind false uenv s w).
Proof.
  intros s w H. unfold notify_unbind, q_notify. destruct (w_unbind w); [|split; [reflexivity|exact H]].
  destruct (sim_regs (uenv (w_cb w)) (emit s w EV_UNBIND) (WF_emit s w EV_UNBIND H)) as [A1 A2].
  split; [rewrite A1; reflexivity|exact A2].
Qed.

(* removing a watch from one of the queues keeps the state well-formed *)
Ltac wf_removed E :=
  match goal with H : WF ?s |- WF _ =>
    let Hu := fresh "Hu" in let Hb := fresh "Hb" in let Hs := fresh "Hs" in
    destruct H as [Hu Hb Hs];
    let B1 := fresh in let B2 := fresh in let B3 := fresh in let B4 := fresh in let B5 := fresh in let B6 := fresh in let B7 := fresh in
    destruct (Below_parts s Hb) as [B1 [B2 [B3 [B4 [B5 [B6 B7]]]]]];
    constructor;
    [ let i := fresh "i" in intros i; specialize (Hu i); unfold cnt_all in *;
      cbn [timers run_timers laters run_laters ios sigs procs set_ios set_timers set_run_timers set_laters set_run_laters set_sigs set_procs];
      pose proof (find_remove_cnt _ _ _ _ E i); lia
    | unfold Below, all_lists;
      cbn [timers run_timers laters run_laters ios sigs procs next_id set_ios set_timers set_run_timers set_laters set_run_laters set_sigs set_procs];
      rewrite !Forall_app;
      repeat split; try assumption;
      match goal with |- Forall _ ?l => eapply (proj2 (find_remove_forall _ _ _ _ _ E _)) end
    | cbn [timers set_ios set_timers set_run_timers set_laters set_run_laters set_sigs set_procs];
      first [exact Hs | eapply xsorted_find_remove; eassumption] ]
  end.

Lemma WF_rm_ios : forall s id w l, WF s -> find_remove id (ios s) = Some (w, l) -> WF (set_ios s l).
Proof. intros s id w l H E. wf_removed E. Unshelve. all: eassumption. Qed.
Lemma WF_rm_timers : forall s id w l, WF s -> find_remove id (timers s) = Some (w, l) -> WF (set_timers s l).
Proof. intros s id w l H E. wf_removed E. Unshelve. all: eassumption. Qed.
Lemma WF_rm_run_timers : forall s id w l, WF s -> find_remove id (run_timers s) = Some (w, l) -> WF (set_run_timers s l).
Proof. intros s id w l H E. wf_removed E. Unshelve. all: eassumption. Qed.
Lemma WF_rm_laters : forall s id w l, WF s -> find_remove id (laters s) = Some (w, l) -> WF (set_laters s l).
Proof. intros s id w l H E. wf_removed E. Unshelve. all: eassumption. Qed.
Lemma WF_rm_run_laters : forall s id w l, WF s -> find_remove id (run_laters s) = Some (w, l) -> WF (set_run_laters s l).
Proof. intros s id w l H E. wf_removed E. Unshelve. all: eassumption. Qed.
Lemma WF_rm_sigs : forall s id w l, WF s -> find_remove id (sigs s) = Some (w, l) -> WF (set_sigs s l).
Proof. intros s id w l H E. wf_removed E. Unshelve. all: eassumption. Qed.
Lemma WF_rm_procs : forall s id w l, WF s -> find_remove id (procs s) = Some (w, l) -> WF (set_procs s l).
Proof. intros s id w l H E. wf_removed E. Unshelve. all: eassumption. Qed.

(* ---- cancel *)
Lemma sim_cancel : forall s id, WF s ->
  abs (watch_cancel false uenv s id) = q_cancel uenv (abs s) id /\ WF (watch_cancel false uenv s id).
Proof.
  intros s id H. pose proof (wf_uniq _ H id) as Hu. unfold cnt_all in Hu.
  unfold watch_cancel, q_cancel. cbn [abs q_pq q_def q_snap q_ios q_sigs q_procs].
  rewrite find_remove_app.
  destruct (find_remove id (ios s)) as [[w l]|] eqn:E1.
  { pose proof (find_remove_some_cnt _ _ _ _ E1) as C.
    assert (N1 : find_remove id (timers s) = None) by (apply find_remove_none_cnt; lia).
    assert (N2 : find_remove id (laters s) = None) by (apply find_remove_none_cnt; lia).
    assert (N3 : find_remove id (run_timers s) = None) by (apply find_remove_none_cnt; lia).
    assert (N4 : find_remove id (run_laters s) = None) by (apply find_remove_none_cnt; lia).
    rewrite N1, N2, N3, N4.
    destruct (sim_notify (set_ios s l) w (WF_rm_ios s id w l H E1)) as [A1 A2]. split; [rewrite A1; reflexivity|exact A2]. }
  destruct (find_remove id (timers s)) as [[w l]|] eqn:E2.
  { destruct (sim_notify (set_timers s l) w (WF_rm_timers s id w l H E2)) as [A1 A2]. split; [rewrite A1; reflexivity|exact A2]. }
  destruct (find_remove id (run_timers s)) as [[w l]|] eqn:E3.
  { pose proof (find_remove_some_cnt _ _ _ _ E3) as C.
    assert (N2 : find_remove id (laters s) = None) by (apply find_remove_none_cnt; lia).
    rewrite N2.
    destruct (sim_notify (set_run_timers s l) w (WF_rm_run_timers s id w l H E3)) as [A1 A2]. split; [rewrite A1; reflexivity|exact A2]. }
  destruct (find_remove id (laters s)) as [[w l]|] eqn:E4.
  { destruct (sim_notify (set_laters s l) w (WF_rm_laters s id w l H E4)) as [A1 A2]. split; [rewrite A1; reflexivity|exact A2]. }
  destruct (find_remove id (run_laters s)) as [[w l]|] eqn:E5.
  { destruct (sim_notify (set_run_laters s l) w (WF_rm_run_laters s id w l H E5)) as [A1 A2]. split; [rewrite A1; reflexivity|exact A2]. }
  destruct (find_remove id (sigs s)) as [[w l]|] eqn:E6.
  { destruct (sim_notify (set_sigs s l) w (WF_rm_sigs s id w l H E6)) as [A1 A2]. split; [rewrite A1; reflexivity|exact A2]. }
  destruct (find_remove id (procs s)) as [[w l]|] eqn:E7.
  { destruct (sim_notify (set_procs s l) w (WF_rm_procs s id w l H E7)) as [A1 A2]. split; [rewrite A1; reflexivity|exact A2]. }
  split; [reflexivity|exact H].
Qed.

Lemma WF_cancel : forall s id, WF s -> WF (watch_cancel false uenv s id).
Proof. intros s id H. exact (proj2 (sim_cancel s id H)). Qed.

(* ---- actions *)
Lemma abs_action : forall s a, WF s -> abs (do_action false uenv s a) = q_action uenv (abs s) a.
Proof.
  intros s a H. destruct a as [d fl cb|fl cb|k x fl cb|id| |]; cbn [do_action q_action];
    try (apply abs_reg; exact H).
  exact (proj1 (sim_cancel s id H)).
Qed.

Lemma WF_action : forall s a, WF s -> WF (do_action false uenv s a).
Proof.
  intros s a H. destruct a as [d fl cb|fl cb|k x fl cb|id| |]; cbn [do_action];
    try (apply WF_reg; exact H).
  apply WF_cancel. exact H.
Qed.

Lemma sim_actions : forall l s, WF s ->
  abs (do_actions false uenv s l) = q_actions uenv (abs s) l /\ WF (do_actions false uenv s l).
Proof.
  induction l as [|a l IH]; intros s H; [split; [reflexivity|exact H]|].
  unfold do_actions, q_actions in *. cbn [fold_left].
  rewrite <- (abs_action s a H). apply IH. apply WF_action. exact H.
Qed.

(* ---- the two loops of the model do not depend on their fuel once it covers the queue *)
Lemma run_timers_loop_fuel : forall n n' s,
  (length (run_timers s) <= n)%nat -> (length (run_timers s) <= n')%nat ->
  run_timers_loop false env uenv n s = run_timers_loop false env uenv n' s.
Proof.
  induction n as [|n IH]; intros n' s Hn Hn'.
  - destruct (run_timers s) as [|w r] eqn:Er; [|cbn in Hn; lia].
    destruct n'; cbn [run_timers_loop]; rewrite ?Er; reflexivity.
  - destruct n' as [|n'].
    + destruct (run_timers s) as [|w r] eqn:Er; [|cbn in Hn'; lia].
      cbn [run_timers_loop]. rewrite Er. reflexivity.
    + cbn [run_timers_loop]. destruct (run_timers s) as [|w r] eqn:Er; [reflexivity|].
      destruct (actions_run_len false uenv (env (w_cb w)) (emit (set_run_timers s r) w (EV_FIRE + EV_UNBIND))) as [L1 _].
      cbn [run_timers emit set_log set_run_timers] in L1. cbn in Hn, Hn'.
      apply IH; (eapply Nat.le_trans; [exact L1|]); lia.
Qed.

Lemma run_laters_loop_fuel : forall n n' s,
  (length (run_laters s) <= n)%nat -> (length (run_laters s) <= n')%nat ->
  run_laters_loop false env uenv n s = run_laters_loop false env uenv n' s.
Proof.
  induction n as [|n IH]; intros n' s Hn Hn'.
  - destruct (run_laters s) as [|w r] eqn:Er; [|cbn in Hn; lia].
    destruct n'; cbn [run_laters_loop]; rewrite ?Er; reflexivity.
  - destruct n' as [|n'].
    + destruct (run_laters s) as [|w r] eqn:Er; [|cbn in Hn'; lia].
      cbn [run_laters_loop]. rewrite Er. reflexivity.
    + cbn [run_laters_loop]. destruct (run_laters s) as [|w r] eqn:Er; [reflexivity|].
      destruct (actions_run_len false uenv (env (w_cb w)) (emit (set_run_laters s r) w (EV_FIRE + EV_UNBIND))) as [_ L2].
      cbn [run_laters emit set_log set_run_laters] in L2. cbn in Hn, Hn'.
      apply IH; (eapply Nat.le_trans; [exact L2|]); lia.
Qed.

(* what tickit_evloop_invoke_timers does once the queues are detached *)
Definition finish (s : st) : st :=
  let s1 := run_timers_loop false env uenv (length (run_timers s)) s in
  run_laters_loop false env uenv (length (run_laters s1)) s1.

Definition pop_timer (s : st) (w : watch) (r : list watch) : st :=
  do_actions false uenv (emit (set_run_timers s r) w (EV_FIRE + EV_UNBIND)) (env (w_cb w)).
Definition pop_later (s : st) (w : watch) (r : list watch) : st :=
  do_actions false uenv (emit (set_run_laters s r) w (EV_FIRE + EV_UNBIND)) (env (w_cb w)).

Lemma finish_step_timer : forall s w r, run_timers s = w :: r -> finish s = finish (pop_timer s w r).
Proof.
  intros s w r Er. unfold finish. rewrite Er. cbn [length run_timers_loop]. rewrite Er.
  fold (pop_timer s w r).
  destruct (actions_run_len false uenv (env (w_cb w)) (emit (set_run_timers s r) w (EV_FIRE + EV_UNBIND))) as [L1 _].
  cbn [run_timers emit set_log set_run_timers] in L1. fold (pop_timer s w r) in L1.
  rewrite (run_timers_loop_fuel (length r) (length (run_timers (pop_timer s w r))) (pop_timer s w r) L1 (le_n _)).
  reflexivity.
Qed.

Lemma finish_step_later : forall s w r, run_timers s = [] -> run_laters s = w :: r -> finish s = finish (pop_later s w r).
Proof.
  intros s w r Et Er. unfold finish. rewrite Et. cbn [length run_timers_loop]. rewrite Er.
  cbn [length run_laters_loop]. rewrite Er. fold (pop_later s w r).
  destruct (actions_run_len false uenv (env (w_cb w)) (emit (set_run_laters s r) w (EV_FIRE + EV_UNBIND))) as [L1 L2].
  cbn [run_timers run_laters emit set_log set_run_laters] in L1, L2. fold (pop_later s w r) in L1, L2.
  rewrite Et in L1. cbn in L1.
  assert (Et2 : run_timers (pop_later s w r) = []) by (destruct (run_timers (pop_later s w r)); [reflexivity|cbn in L1; lia]).
  rewrite Et2. cbn [length run_timers_loop].
  apply run_laters_loop_fuel; [exact L2|apply le_n].
Qed.

Lemma finish_done : forall s, run_timers s = [] -> run_laters s = [] -> finish s = s.
Proof. intros s Et Er. unfold finish. rewrite Et. cbn [length run_timers_loop]. rewrite Er. reflexivity. Qed.

(* popping keeps the state well-formed *)
Lemma WF_pop_timer_pre : forall s w r, WF s -> run_timers s = w :: r -> WF (emit (set_run_timers s r) w (EV_FIRE + EV_UNBIND)).
Proof.
  intros s w r [Hu Hb Hs] Er. constructor.
  - intros i. specialize (Hu i). unfold cnt_all in *. rewrite Er, cnt_cons in Hu.
    cbn [timers run_timers laters run_laters ios sigs procs emit set_log set_run_timers]. lia.
  - unfold Below, all_lists in *. rewrite Er in Hb.
    cbn [timers run_timers laters run_laters ios sigs procs next_id emit set_log set_run_timers].
    rewrite !Forall_app in *. destruct Hb as [H1 [H2 H3]]. inversion H2; subst. auto.
  - exact Hs.
Qed.

Lemma WF_pop_later_pre : forall s w r, WF s -> run_laters s = w :: r -> WF (emit (set_run_laters s r) w (EV_FIRE + EV_UNBIND)).
Proof.
  intros s w r [Hu Hb Hs] Er. constructor.
  - intros i. specialize (Hu i). unfold cnt_all in *. rewrite Er, cnt_cons in Hu.
    cbn [timers run_timers laters run_laters ios sigs procs emit set_log set_run_laters]. lia.
  - unfold Below, all_lists in *. rewrite Er in Hb.
    cbn [timers run_timers laters run_laters ios sigs procs next_id emit set_log set_run_laters].
    rewrite !Forall_app in *. destruct Hb as [H1 [H2 [H3 [H4 H5]]]]. inversion H4; subst. auto 8.
  - exact Hs.
Qed.

(* the iteration proper: model and specification pop and invoke the same watches *)
Definition q_popped (q : qst) (r : list watch) : qst :=
  mkQ (q_pq q) (q_def q) r (q_ios q) (q_sigs q) (q_procs q) (q_next q) (q_now q) (q_iter q) (q_log q).

Lemma q_loop_step : forall k q w r, q_snap q = w :: r ->
  q_loop env uenv (S k) q = q_loop env uenv k (q_actions uenv (q_emit (q_popped q r) w (EV_FIRE + EV_UNBIND)) (env (w_cb w))).
Proof. intros k q w r H. cbn [q_loop]. rewrite H. reflexivity. Qed.

Lemma abs_pop_later : forall s w r f, run_timers s = [] ->
  abs (emit (set_run_laters s r) w f) = q_emit (q_popped (abs s) r) w f.
Proof.
  intros s w r f Et. unfold abs, q_emit, q_popped.
  cbn [timers laters run_timers run_laters ios sigs procs next_id now iter log emit set_log set_run_laters
       q_pq q_def q_snap q_ios q_sigs q_procs q_next q_now q_iter q_log].
  rewrite Et. reflexivity.
Qed.

Lemma abs_pop_timer : forall s w r f,
  abs (emit (set_run_timers s r) w f) = q_emit (q_popped (abs s) (r ++ run_laters s)) w f.
Proof. reflexivity. Qed.

Lemma sim_finish : forall k s, WF s -> (length (run_timers s) + length (run_laters s) <= k)%nat ->
  abs (finish s) = q_loop env uenv k (abs s) /\ WF (finish s).
Proof.
  induction k as [|k IH]; intros s H Hk.
  - assert (Et : run_timers s = []) by (destruct (run_timers s); [reflexivity|cbn in Hk; lia]).
    assert (Er : run_laters s = []) by (destruct (run_laters s); [reflexivity|rewrite Et in Hk; cbn in Hk; lia]).
    rewrite finish_done by assumption. split; [reflexivity|exact H].
  - destruct (run_timers s) as [|w r] eqn:Et.
    + destruct (run_laters s) as [|w r] eqn:Er.
      * rewrite finish_done by assumption. split; [|exact H].
        cbn [q_loop abs q_snap]. rewrite Et, Er. reflexivity.
      * rewrite (finish_step_later s w r Et Er).
        pose proof (WF_pop_later_pre s w r H Er) as H1.
        destruct (sim_actions (env (w_cb w)) _ H1) as [A1 A2]. fold (pop_later s w r) in A1, A2.
        destruct (actions_run_len false uenv (env (w_cb w)) (emit (set_run_laters s r) w (EV_FIRE + EV_UNBIND))) as [L1 L2].
        cbn [run_timers run_laters emit set_log set_run_laters] in L1, L2. fold (pop_later s w r) in L1, L2.
        rewrite Et in L1. cbn [length] in Hk, L1.
        destruct (IH (pop_later s w r) A2) as [I1 I2]; [lia|].
        split; [|exact I2].
        rewrite (q_loop_step k (abs s) w r) by (cbn [abs q_snap]; rewrite Et, Er; reflexivity).
        rewrite I1, A1, (abs_pop_later s w r _ Et). reflexivity.
    + rewrite (finish_step_timer s w r Et).
      pose proof (WF_pop_timer_pre s w r H Et) as H1.
      destruct (sim_actions (env (w_cb w)) _ H1) as [A1 A2]. fold (pop_timer s w r) in A1, A2.
      destruct (actions_run_len false uenv (env (w_cb w)) (emit (set_run_timers s r) w (EV_FIRE + EV_UNBIND))) as [L1 L2].
      cbn [run_timers run_laters emit set_log set_run_timers] in L1, L2. fold (pop_timer s w r) in L1, L2.
      cbn [length] in Hk.
      destruct (IH (pop_timer s w r) A2) as [I1 I2]; [lia|].
      split; [|exact I2].
      rewrite (q_loop_step k (abs s) w (r ++ run_laters s)) by (cbn [abs q_snap]; rewrite Et; reflexivity).
      rewrite I1, A1, abs_pop_timer. reflexivity.
Qed.

(* ---- one tickit_tick *)
Lemma cnt_filter_split : forall id (f : watch -> bool) l,
  (cnt id (filter f l) + cnt id (filter (fun w => negb (f w)) l))%nat = cnt id l.
Proof.
  induction l as [|h t IH]; [reflexivity|]. cbn [filter]. destruct (f h); cbn [negb]; rewrite !cnt_cons; lia.
Qed.

(* tickit_evloop_invoke_timers = detach (due prefix = the due timers, by sortedness), then finish *)
Definition detached (s : st) : st :=
  mkSt (filter (fun w => negb (w_x w <=? now s)) (timers s)) [] (ios s) (sigs s) (procs s)
       (filter (fun w => w_x w <=? now s) (timers s)) (laters s) (next_id s) (now s) (iter s) (log s) (dropped s).

Lemma invoke_timers_finish : forall s, run_timers s = [] -> run_laters s = [] -> xsorted (timers s) ->
  invoke_timers false env uenv s = finish (detached s).
Proof.
  intros s Et Er Hs. destruct s as [ts ls io sg pr rt rl nx nw it lg]. cbn in Et, Er, Hs. subst rt rl.
  unfold invoke_timers, finish, detached.
  cbn [timers laters ios sigs procs run_timers run_laters next_id now iter log set_laters set_run_laters app].
  destruct ts as [|h t] eqn:Eh.
  - reflexivity.
  - rewrite <- Eh in *. rewrite (split_due_filter nw ts Hs).
    cbn [timers laters ios sigs procs run_timers run_laters next_id now iter log set_timers set_run_timers app].
    reflexivity.
Qed.

Lemma WF_detached : forall s, WF s -> run_timers s = [] -> run_laters s = [] -> WF (detached s).
Proof.
  intros s [Hu Hb Hs] Et Er. constructor.
  - intros i. specialize (Hu i). unfold cnt_all, detached in *.
    cbn [timers laters ios sigs procs run_timers run_laters].
    rewrite Et, Er in Hu.
    pose proof (cnt_filter_split i (fun w => w_x w <=? now s) (timers s)). change (cnt i []) with O in *. lia.
  - unfold Below, all_lists, detached in *.
    cbn [timers laters ios sigs procs run_timers run_laters next_id]. rewrite Et, Er in Hb.
    rewrite !Forall_app in *. destruct Hb as [B1 [_ [B3 [_ [B5 [B6 B7]]]]]].
    assert (Bd : forall f, Forall (fun w => w_id w < next_id s) (filter f (timers s))).
    { intros f. apply Forall_forall. intros v Hv. apply filter_In in Hv. rewrite Forall_forall in B1. apply B1. tauto. }
    repeat split; auto.
  - unfold detached. cbn [timers]. apply xsorted_filter. exact Hs.
Qed.

Lemma sim_tick : forall sleep dt s, WF s -> run_timers s = [] -> run_laters s = [] ->
  abs (tick false env uenv sleep dt s) = q_tick env uenv sleep dt (abs s) /\ WF (tick false env uenv sleep dt s).
Proof.
  intros sleep dt s H Et Er. unfold tick.
  set (s1 := set_iter (set_now s (now s + dt)) (iter s + 1)).
  set (msec := if sleep then next_timer_msec s1 else 0).
  set (s2 := set_log s1 (OPoll msec :: log s1)).
  set (s3 := if sleep && (0 <? msec) then set_now s2 (now s2 + msec * 1000) else s2).
  assert (H3 : WF s3 /\ run_timers s3 = [] /\ run_laters s3 = []).
  { destruct H as [Hu Hb Hs]. unfold s3. destruct (sleep && (0 <? msec)); (split; [constructor; assumption|split; assumption]). }
  destruct H3 as [H3 [Et3 Er3]].
  rewrite (invoke_timers_finish s3 Et3 Er3 (wf_sorted _ H3)).
  pose proof (WF_detached s3 H3 Et3 Er3) as H4.
  destruct (sim_finish (length (run_timers (detached s3)) + length (run_laters (detached s3))) (detached s3) H4 (le_n _)) as [A1 A2].
  split; [|exact A2]. rewrite A1.
  unfold q_tick.
  assert (Em : (if sleep then q_msec (mkQ (q_pq (abs s)) (q_def (abs s)) (q_snap (abs s)) (q_ios (abs s)) (q_sigs (abs s))
                   (q_procs (abs s)) (q_next (abs s)) (q_now (abs s) + dt) (q_iter (abs s) + 1) (q_log (abs s))) else 0) = msec).
  { unfold msec. destruct sleep; reflexivity. }
  rewrite Em.
  unfold s3. destruct (sleep && (0 <? msec));
    unfold abs, detached;
    cbn [timers laters ios sigs procs run_timers run_laters next_id now iter log s2 s1 set_log set_iter set_now
         q_pq q_def q_snap q_ios q_sigs q_procs q_next q_now q_iter q_log];
    rewrite Et, Er; cbn [app]; rewrite app_length; reflexivity.
Qed.

(* ---- whole scripts *)
Lemma sim_op : forall s o, WF s -> run_timers s = [] -> run_laters s = [] ->
  abs (do_op false env uenv s o) = q_op env uenv (abs s) o /\ WF (do_op false env uenv s o).
Proof.
  intros s o H Et Er. destruct o as [a|dt|]; cbn [do_op q_op].
  - split; [apply abs_action; exact H|apply WF_action; exact H].
  - apply sim_tick; assumption.
  - apply sim_tick; assumption.
Qed.

Lemma WF_st0 : WF st0.
Proof. constructor; [intros id; cbn; lia|apply Below_st0|constructor]. Qed.

Lemma sim_run_ops : forall ops, abs (run_ops false env uenv ops) = q_run_ops env uenv ops /\ WF (run_ops false env uenv ops).
Proof.
  intros ops. unfold run_ops, q_run_ops.
  assert (G : forall ops s, WF s -> Quiet s ->
              abs (fold_left (do_op false env uenv) ops s) = fold_left (q_op env uenv) ops (abs s) /\
              WF (fold_left (do_op false env uenv) ops s)).
  { induction ops0 as [|o r IH]; intros s H Q; [split; [reflexivity|exact H]|].
    cbn [fold_left]. destruct Q as [QI [Et Er]].
    destruct (sim_op s o H Et Er) as [A1 A2]. rewrite <- A1. apply IH; [exact A2|].
    destruct o as [a|dt|]; cbn [do_op].
    - apply Quiet_action. split; [exact QI|split; assumption].
    - apply Quiet_tick. split; [exact QI|split; assumption].
    - apply Quiet_tick. split; [exact QI|split; assumption]. }
  apply G; [exact WF_st0|apply Quiet_st0].
Qed.

(* ---- destruction *)
Lemma abs_destroy_list : forall l s,
  abs (destroy_list s l) = fold_left (fun q w => if asked w then q_emit q w (EV_UNBIND + EV_DESTROY) else q) l (abs s).
Proof.
  induction l as [|w l IH]; intros s; [reflexivity|].
  unfold destroy_list in *. cbn [fold_left]. destruct (asked w); [|apply IH].
  rewrite IH. reflexivity.
Qed.

Lemma destroy_list_lists : forall l s,
  timers (destroy_list s l) = timers s /\ laters (destroy_list s l) = laters s /\ ios (destroy_list s l) = ios s /\
  sigs (destroy_list s l) = sigs s /\ procs (destroy_list s l) = procs s.
Proof.
  induction l as [|w l IH]; intros s; [repeat split; reflexivity|].
  unfold destroy_list in *. cbn [fold_left]. destruct (asked w); [|apply IH].
  destruct (IH (emit s w (EV_UNBIND + EV_DESTROY))) as [H1 [H2 [H3 [H4 H5]]]]. repeat split; assumption.
Qed.

Lemma sim_destroy : forall s, log (destroy s) = q_log (q_destroy (abs s)).
Proof.
  intros s. unfold destroy, q_destroy.
  cbn [log set_procs set_sigs set_laters set_timers set_ios q_log].
  set (s0 := set_iter s (-1)).
  change (q_log (fold_left (fun q w => if asked w then q_emit q w (EV_UNBIND + EV_DESTROY) else q)
                   (ios s0 ++ timers s0 ++ laters s0 ++ sigs s0 ++ procs s0) (abs s0)) = _ ) || idtac.
  replace (log (destroy_list (destroy_list (destroy_list (destroy_list (destroy_list s0 (ios s0)) (timers s0)) (laters s0)) (sigs s0)) (procs s0)))
    with (q_log (abs (destroy_list (destroy_list (destroy_list (destroy_list (destroy_list s0 (ios s0)) (timers s0)) (laters s0)) (sigs s0)) (procs s0))))
    by reflexivity.
  rewrite !abs_destroy_list. rewrite <- !fold_left_app. reflexivity.
Qed.

(* C17_refines *)
Theorem refines : forall ops, run false env uenv ops = qspec_run env uenv ops.
Proof.
  intros ops. unfold run, qspec_run. f_equal.
  destruct (sim_run_ops ops) as [A _]. rewrite <- A. apply sim_destroy.
Qed.

End Refine.
