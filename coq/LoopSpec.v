(* LoopSpec.v -- what C17 demands, as a small executable specification, and the boolean
   checker the oracle applies to the implementation's own observation.

   The pending timers form a priority queue keyed by (deadline, registration number); the
   deferred callbacks a queue; the other watches are kept per kind.  One iteration at time [now]:
     take the SNAPSHOT of the identities of the timers with deadline <= now, in key order,
     followed by the identities of the deferred callbacks, in queue order;
     for each identity of the snapshot that is STILL pending when its turn comes:
       remove it, invoke it with FIRE|UNBIND, perform what its callback does.
   Whatever a callback registers has a fresh identity, is not in the snapshot and so waits
   for a later iteration, whatever its deadline.  Cancelling removes the watch wherever it
   is and delivers UNBIND alone iff it was asked for.  Destruction delivers
   UNBIND|DESTROY once to every remaining watch that asked for either.
   The specification never detaches anything and has no running queues. *)
From Coq Require Import ZArith List Bool.
From Tickit Require Import LoopDefs.
Import ListNotations.
Local Open Scope Z_scope.

Record sst := mkS {
  s_pq : list watch; s_def : list watch; s_ios : list watch; s_sigs : list watch; s_procs : list watch;
  s_next : Z; s_now : Z; s_iter : Z; s_log : list obs }.

Definition sst0 : sst := mkS [] [] [] [] [] 0 0 0 [].

(* (deadline, seq) lexicographic *)
Definition key_le (a b : watch) : bool :=
  (w_x a <? w_x b) || ((w_x a =? w_x b) && (w_id a <=? w_id b)).

Fixpoint pq_insert (w : watch) (l : list watch) : list watch :=
  match l with
  | [] => [w]
  | h :: t => if key_le h w then h :: pq_insert w t else w :: l
  end.

Definition s_emit (s : sst) (w : watch) (flags : Z) : sst :=
  mkS (s_pq s) (s_def s) (s_ios s) (s_sigs s) (s_procs s) (s_next s) (s_now s) (s_iter s)
      (OEv (mkE (w_id w) (w_kind w) flags (s_iter s) (s_now s) (w_x w)) :: s_log s).


(* only timers and deferred callbacks are ever run by the iteration *)
Definition s_take_runnable (s : sst) (id : Z) : option (watch * sst) :=
  match find_remove id (s_pq s) with
  | Some (w, l) => Some (w, mkS l (s_def s) (s_ios s) (s_sigs s) (s_procs s) (s_next s) (s_now s) (s_iter s) (s_log s))
  | None =>
  match find_remove id (s_def s) with
  | Some (w, l) => Some (w, mkS (s_pq s) l (s_ios s) (s_sigs s) (s_procs s) (s_next s) (s_now s) (s_iter s) (s_log s))
  | None => None
  end end.

(* remove a pending watch, wherever it is *)
Definition s_take (s : sst) (id : Z) : option (watch * sst) :=
  match s_take_runnable s id with
  | Some r => Some r
  | None =>
  match find_remove id (s_ios s) with
  | Some (w, l) => Some (w, mkS (s_pq s) (s_def s) l (s_sigs s) (s_procs s) (s_next s) (s_now s) (s_iter s) (s_log s))
  | None =>
  match find_remove id (s_sigs s) with
  | Some (w, l) => Some (w, mkS (s_pq s) (s_def s) (s_ios s) l (s_procs s) (s_next s) (s_now s) (s_iter s) (s_log s))
  | None =>
  match find_remove id (s_procs s) with
  | Some (w, l) => Some (w, mkS (s_pq s) (s_def s) (s_ios s) (s_sigs s) l (s_next s) (s_now s) (s_iter s) (s_log s))
  | None => None
  end end end end.

Section WithEnv.
Variable env : Z -> list action.
Variable uenv : Z -> list action.   (* what a callback registers when it is notified of its cancellation *)

Definition s_reg (s : sst) (a : action) : sst :=
  let fresh k fl cb x := mkW (s_next s) k (f_unbind fl) (f_destroy fl) cb x in
  match a with
  | ATimer d fl cb =>
      mkS (pq_insert (fresh KTimer fl cb (s_now s + d)) (s_pq s)) (s_def s) (s_ios s) (s_sigs s) (s_procs s)
          (s_next s + 1) (s_now s) (s_iter s) (s_log s)
  | ALater fl cb =>
      mkS (s_pq s) (insert_watch (f_first fl) (s_def s) (fresh KLater fl cb 0)) (s_ios s) (s_sigs s) (s_procs s)
          (s_next s + 1) (s_now s) (s_iter s) (s_log s)
  | AWatch KIo _ fl cb =>
      mkS (s_pq s) (s_def s) (insert_watch (f_first fl) (s_ios s) (fresh KIo fl cb 0)) (s_sigs s) (s_procs s)
          (s_next s + 1) (s_now s) (s_iter s) (s_log s)
  | AWatch KSig x fl cb =>
      mkS (s_pq s) (s_def s) (s_ios s) (insert_watch (f_first fl) (s_sigs s) (fresh KSig fl cb x)) (s_procs s)
          (s_next s + 1) (s_now s) (s_iter s) (s_log s)
  | AWatch KProc _ fl cb =>
      mkS (s_pq s) (s_def s) (s_ios s) (s_sigs s) (insert_watch (f_first fl) (s_procs s) (fresh KProc fl cb 0))
          (s_next s + 1) (s_now s) (s_iter s) (s_log s)
  | AWatch _ _ _ _ => s
  | ACancel _ => s
  | ANop => s
  | ADrop => s
  end.

(* the UNBIND notification: the callback may register new watches (fresh identities) *)
Definition s_notify (s : sst) (w : watch) : sst :=
  if w_unbind w then fold_left s_reg (uenv (w_cb w)) (s_emit s w EV_UNBIND) else s.

Definition s_action (s : sst) (a : action) : sst :=
  match a with
  | ACancel id => match s_take s id with Some (w, s') => s_notify s' w | None => s end
  | _ => s_reg s a
  end.

Definition s_actions (s : sst) (l : list action) : sst := fold_left s_action l s.

Fixpoint s_run_ids (ids : list Z) (s : sst) : sst :=
  match ids with
  | [] => s
  | i :: r =>
      match s_take_runnable s i with
      | None => s_run_ids r s                      (* cancelled in the meantime *)
      | Some (w, s1) => s_run_ids r (s_actions (s_emit s1 w (EV_FIRE + EV_UNBIND)) (env (w_cb w)))
      end
  end.

(* how long the loop may sleep: until the earliest deadline (whole milliseconds, never
   longer than that), not at all when something is deferred, indefinitely when idle *)
Definition s_msec (s : sst) : Z :=
  match s_def s with
  | _ :: _ => 0
  | [] => match s_pq s with
          | [] => -1
          | h :: _ => Z.max 0 ((w_x h - s_now s) / 1000)
          end
  end.

Definition s_tick (sleep : bool) (dt : Z) (s : sst) : sst :=
  let s1 := mkS (s_pq s) (s_def s) (s_ios s) (s_sigs s) (s_procs s) (s_next s) (s_now s + dt) (s_iter s + 1) (s_log s) in
  let msec := if sleep then s_msec s1 else 0 in
  let nw := if sleep && (0 <? msec) then s_now s1 + msec * 1000 else s_now s1 in
  let s2 := mkS (s_pq s1) (s_def s1) (s_ios s1) (s_sigs s1) (s_procs s1) (s_next s1) nw (s_iter s1) (OPoll msec :: s_log s1) in
  let snapshot := map w_id (filter (fun w => w_x w <=? nw) (s_pq s2)) ++ map w_id (s_def s2) in
  s_run_ids snapshot s2.

(* the visiting order of destruction is not part of the property (the oracle compares this
   part as a bag); the order written here is the implementation's *)
Definition s_destroy (s : sst) : sst :=
  let s0 := mkS (s_pq s) (s_def s) (s_ios s) (s_sigs s) (s_procs s) (s_next s) (s_now s) (-1) (s_log s) in
  let s1 := fold_left (fun s w => if asked w then s_emit s w (EV_UNBIND + EV_DESTROY) else s)
                      (s_ios s0 ++ s_pq s0 ++ s_def s0 ++ s_sigs s0 ++ s_procs s0) s0 in
  mkS [] [] [] [] [] (s_next s1) (s_now s1) (s_iter s1) (s_log s1).

Definition s_op (s : sst) (o : op) : sst :=
  match o with
  | OAct a => s_action s a
  | ORun dt => s_tick false dt s
  | OOnce => s_tick true 0 s
  end.

Definition spec_run (ops : list op) : list obs := rev (s_log (s_destroy (fold_left s_op ops sst0))).

End WithEnv.

(* ---------------------------------------------------------------- second formulation *)
(* The same demands with the snapshot kept as a queue: at the start of an iteration the due
   timers (those with deadline <= now, in key order) followed by the deferred callbacks are
   taken out of the pending structures into [q_snap]; the iteration pops and invokes them one
   by one; cancel removes a watch wherever it is, the snapshot included.  This is the
   formulation C17_refines is proved against (LoopRefine.v); the oracle demands in addition
   that both formulations give the same log on every case. *)
Record qst := mkQ {
  q_pq : list watch; q_def : list watch; q_snap : list watch;
  q_ios : list watch; q_sigs : list watch; q_procs : list watch;
  q_next : Z; q_now : Z; q_iter : Z; q_log : list obs }.

Definition qst0 : qst := mkQ [] [] [] [] [] [] 0 0 0 [].

Definition q_emit (s : qst) (w : watch) (flags : Z) : qst :=
  mkQ (q_pq s) (q_def s) (q_snap s) (q_ios s) (q_sigs s) (q_procs s) (q_next s) (q_now s) (q_iter s)
      (OEv (mkE (w_id w) (w_kind w) flags (q_iter s) (q_now s) (w_x w)) :: q_log s).

Section Queue.
Variable env : Z -> list action.
Variable uenv : Z -> list action.

Definition q_reg (s : qst) (a : action) : qst :=
  let fresh k fl cb x := mkW (q_next s) k (f_unbind fl) (f_destroy fl) cb x in
  match a with
  | ATimer d fl cb =>
      mkQ (pq_insert (fresh KTimer fl cb (q_now s + d)) (q_pq s)) (q_def s) (q_snap s) (q_ios s) (q_sigs s) (q_procs s)
          (q_next s + 1) (q_now s) (q_iter s) (q_log s)
  | ALater fl cb =>
      mkQ (q_pq s) (insert_watch (f_first fl) (q_def s) (fresh KLater fl cb 0)) (q_snap s) (q_ios s) (q_sigs s) (q_procs s)
          (q_next s + 1) (q_now s) (q_iter s) (q_log s)
  | AWatch KIo _ fl cb =>
      mkQ (q_pq s) (q_def s) (q_snap s) (insert_watch (f_first fl) (q_ios s) (fresh KIo fl cb 0)) (q_sigs s) (q_procs s)
          (q_next s + 1) (q_now s) (q_iter s) (q_log s)
  | AWatch KSig x fl cb =>
      mkQ (q_pq s) (q_def s) (q_snap s) (q_ios s) (insert_watch (f_first fl) (q_sigs s) (fresh KSig fl cb x)) (q_procs s)
          (q_next s + 1) (q_now s) (q_iter s) (q_log s)
  | AWatch KProc _ fl cb =>
      mkQ (q_pq s) (q_def s) (q_snap s) (q_ios s) (q_sigs s) (insert_watch (f_first fl) (q_procs s) (fresh KProc fl cb 0))
          (q_next s + 1) (q_now s) (q_iter s) (q_log s)
  | AWatch _ _ _ _ => s
  | ACancel _ => s
  | ANop => s
  | ADrop => s
  end.

Definition q_regs (s : qst) (l : list action) : qst := fold_left q_reg l s.

Definition q_notify (s : qst) (w : watch) : qst :=
  if w_unbind w then q_regs (q_emit s w EV_UNBIND) (uenv (w_cb w)) else s.

Definition q_cancel (s : qst) (id : Z) : qst :=
  match find_remove id (q_pq s) with
  | Some (w, l) => q_notify (mkQ l (q_def s) (q_snap s) (q_ios s) (q_sigs s) (q_procs s) (q_next s) (q_now s) (q_iter s) (q_log s)) w
  | None =>
  match find_remove id (q_def s) with
  | Some (w, l) => q_notify (mkQ (q_pq s) l (q_snap s) (q_ios s) (q_sigs s) (q_procs s) (q_next s) (q_now s) (q_iter s) (q_log s)) w
  | None =>
  match find_remove id (q_snap s) with
  | Some (w, l) => q_notify (mkQ (q_pq s) (q_def s) l (q_ios s) (q_sigs s) (q_procs s) (q_next s) (q_now s) (q_iter s) (q_log s)) w
  | None =>
  match find_remove id (q_ios s) with
  | Some (w, l) => q_notify (mkQ (q_pq s) (q_def s) (q_snap s) l (q_sigs s) (q_procs s) (q_next s) (q_now s) (q_iter s) (q_log s)) w
  | None =>
  match find_remove id (q_sigs s) with
  | Some (w, l) => q_notify (mkQ (q_pq s) (q_def s) (q_snap s) (q_ios s) l (q_procs s) (q_next s) (q_now s) (q_iter s) (q_log s)) w
  | None =>
  match find_remove id (q_procs s) with
  | Some (w, l) => q_notify (mkQ (q_pq s) (q_def s) (q_snap s) (q_ios s) (q_sigs s) l (q_next s) (q_now s) (q_iter s) (q_log s)) w
  | None => s
  end end end end end end.

Definition q_action (s : qst) (a : action) : qst :=
  match a with
  | ACancel id => q_cancel s id
  | _ => q_reg s a
  end.

Definition q_actions (s : qst) (l : list action) : qst := fold_left q_action l s.

(* pop and invoke until the snapshot is empty; the snapshot only shrinks, so its length on
   entry bounds the number of rounds *)
Fixpoint q_loop (n : nat) (s : qst) : qst :=
  match n with
  | O => s
  | S n' =>
      match q_snap s with
      | [] => s
      | w :: r =>
          let s1 := mkQ (q_pq s) (q_def s) r (q_ios s) (q_sigs s) (q_procs s) (q_next s) (q_now s) (q_iter s) (q_log s) in
          q_loop n' (q_actions (q_emit s1 w (EV_FIRE + EV_UNBIND)) (env (w_cb w)))
      end
  end.

Definition q_msec (s : qst) : Z :=
  match q_def s with
  | _ :: _ => 0
  | [] => match q_pq s with
          | [] => -1
          | h :: _ => Z.max 0 ((w_x h - q_now s) / 1000)
          end
  end.

Definition q_tick (sleep : bool) (dt : Z) (s : qst) : qst :=
  let s1 := mkQ (q_pq s) (q_def s) (q_snap s) (q_ios s) (q_sigs s) (q_procs s) (q_next s) (q_now s + dt) (q_iter s + 1) (q_log s) in
  let msec := if sleep then q_msec s1 else 0 in
  let nw := if sleep && (0 <? msec) then q_now s1 + msec * 1000 else q_now s1 in
  let due := filter (fun w => w_x w <=? nw) (q_pq s1) in
  let rest := filter (fun w => negb (w_x w <=? nw)) (q_pq s1) in
  let s2 := mkQ rest [] (q_snap s1 ++ due ++ q_def s1) (q_ios s1) (q_sigs s1) (q_procs s1) (q_next s1) nw (q_iter s1)
                (OPoll msec :: q_log s1) in
  q_loop (length (q_snap s2)) s2.

Definition q_destroy (s : qst) : qst :=
  let s0 := mkQ (q_pq s) (q_def s) (q_snap s) (q_ios s) (q_sigs s) (q_procs s) (q_next s) (q_now s) (-1) (q_log s) in
  let s1 := fold_left (fun s w => if asked w then q_emit s w (EV_UNBIND + EV_DESTROY) else s)
                      (q_ios s0 ++ q_pq s0 ++ q_def s0 ++ q_sigs s0 ++ q_procs s0) s0 in
  mkQ [] [] (q_snap s1) [] [] [] (q_next s1) (q_now s1) (q_iter s1) (q_log s1).

Definition q_op (s : qst) (o : op) : qst :=
  match o with
  | OAct a => q_action s a
  | ORun dt => q_tick false dt s
  | OOnce => q_tick true 0 s
  end.

Definition q_run_ops (ops : list op) : qst := fold_left q_op ops qst0.
Definition qspec_run (ops : list op) : list obs := rev (q_log (q_destroy (q_run_ops ops))).

End Queue.

(* ---------------------------------------------------------------- the oracle *)

Definition kind_eqb (a b : kind) : bool := kind_code a =? kind_code b.

Definition event_eqb (a b : event) : bool :=
  (e_id a =? e_id b) && kind_eqb (e_kind a) (e_kind b) && (e_flags a =? e_flags b) &&
  (e_iter a =? e_iter b) && (e_now a =? e_now b) && (e_x a =? e_x b).

Definition obs_eqb (a b : obs) : bool :=
  match a, b with
  | OPoll x, OPoll y => x =? y
  | OEv x, OEv y => event_eqb x y
  | _, _ => false
  end.

Fixpoint list_eqb {A} (eqb : A -> A -> bool) (l1 l2 : list A) : bool :=
  match l1, l2 with
  | [], [] => true
  | a :: r1, b :: r2 => eqb a b && list_eqb eqb r1 r2
  | _, _ => false
  end.

Definition in_destroy (o : obs) : bool :=
  match o with OEv e => e_iter e =? -1 | OPoll _ => false end.

Definition count_obs (o : obs) (l : list obs) : nat := length (filter (obs_eqb o) l).

(* same bag *)
Definition bag_eqb (l1 l2 : list obs) : bool :=
  Nat.eqb (length l1) (length l2) &&
  forallb (fun o => Nat.eqb (count_obs o l1) (count_obs o l2)) l1.

(* The property fixes the order of everything that happens while the loop runs, but not
   the order in which destruction visits the remaining watches: the part of the
   observation that belongs to destruction is compared as a bag. *)
Definition spec_checkb (env uenv : Z -> list action) (ops : list op) (o : list obs) : bool :=
  let sp := spec_run env uenv ops in
  list_eqb obs_eqb sp (qspec_run env uenv ops) &&     (* the two formulations agree on this case *)
  list_eqb obs_eqb (filter (fun x => negb (in_destroy x)) sp) (filter (fun x => negb (in_destroy x)) o) &&
  list_eqb (fun a b => Bool.eqb (in_destroy a) (in_destroy b)) sp o &&
  bag_eqb (filter in_destroy sp) (filter in_destroy o).
