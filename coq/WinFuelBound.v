(* WinFuelBound.v -- an explicit fuel bound for the first step: on an EMPTY damage set one
   unit of fuel is enough for root_damage / win_expose (the scan of tickit_rectset_contains
   and the loop of tickit_rectset_add end at once), hence the initial state m_init_f does not
   fault for any fuel >= 1 and is the same state for every such fuel. *)
From Coq Require Import ZArith List Bool Lia ZifyBool.
From Tickit Require Import RectDefs RectProofs WinRectSet WinRectSetProofs WinDefs WinSpec WinHist
  WinExposeProofs WinLogDisjoint WinFlushProofs WinScreenInv WinLocA WinLocTree WinPreserve WinTermResize
  WinHistory WinScrollRegion WinScrollInv WinHistoryFull WinFuelMono WinFuelTotal.
From Tickit Require RectSetDefs.
Import ListNotations.
Local Open Scope Z_scope.

Lemma rs_contains_nil_S f d : rs_contains (S f) [] d = Some false.
Proof. reflexivity. Qed.

Lemma rs_add_nil_S f d :
  rs_add (S f) [] d = Some [init_bounded (top d) (left d) (bottom d) (right d)].
Proof. reflexivity. Qed.

(* any rectangle d, even an empty one *)
Lemma root_damage_empty_bound st d f :
  r_damage st = [] -> r_fault st = false -> (1 <= f)%nat ->
  r_fault (root_damage (with_fuel f st) d) = false.
Proof.
  intros Hd Hf Hle. destruct f as [|f]; [lia|].
  unfold root_damage. cbn [r_fuel r_damage with_fuel]. rewrite Hd.
  rewrite rs_contains_nil_S, rs_add_nil_S. exact Hf.
Qed.

Lemma win_expose_empty_bound st y ex f :
  r_damage st = [] -> r_fault st = false -> (1 <= f)%nat ->
  r_fault (win_expose (with_fuel f st) y ex) = false.
Proof.
  intros Hd Hf Hle. unfold win_expose. cbn [r_tree with_fuel].
  destruct (t_chain y (r_tree st)) as [chain|]; [|exact Hf].
  destruct (expose_up chain ex) as [dd|]; [|exact Hf].
  apply root_damage_empty_bound; assumption.
Qed.

(* init_ev with the explicit bound f0 = 1, whatever the size of the terminal *)
Theorem init_bound nl nc orc : forall f, (1 <= f)%nat ->
  r_fault (m_root (m_init_f f nl nc orc)) = false /\
  m_init_f f nl nc orc = m_with_fuel f (m_init_f 1 nl nc orc).
Proof.
  intros f Hle.
  assert (H : forall g, (1 <= g)%nat -> r_fault (win_expose (root_new_f g nl nc) 0 None) = false).
  { intros g Hg. exact (win_expose_empty_bound (root_new_f 0 nl nc) 0 None g eq_refl eq_refl Hg). }
  split; [exact (H f Hle)|].
  unfold m_init_f, m_with_fuel, m_set_root. cbn [m_root m_term m_app m_gen m_xlog m_fevs m_srecs].
  f_equal. exact (win_expose_wf (root_new_f 1 nl nc) 0 None f (H 1%nat (le_n _)) Hle).
Qed.

(* ... and with it the invariant of C01 holds initially for every fuel >= 1 *)
Corollary init_bound_inv3 nl nc orc : 0 < nl -> 0 < nc -> forall f, (1 <= f)%nat ->
  r_fault (m_root (m_init_f f nl nc orc)) = false /\ MInv3 (m_init_f f nl nc orc).
Proof.
  intros Hl Hc f Hle. destruct (init_bound nl nc orc f Hle) as [A _]. split; [exact A|].
  apply init_inv3_f; assumption.
Qed.

Print Assumptions root_damage_empty_bound.
Print Assumptions init_bound.
Print Assumptions init_bound_inv3.
