(* VTUtf8.v -- a UTF-8 print decoder in front of the VT screen of VT.v.

   VT.v is a byte-per-cell terminal: every graphic byte (token TChar b) is put into one cell.  A terminal in
   UTF-8 mode first assembles the graphic bytes into code points.  [utf8_toks] does that on the token stream:
   every maximal run of TChar tokens is decoded with C07's SPECIFICATION decoder (Utf8Spec.decode, the one
   tickit_utf8_* is proved against) and replaced by one TChar per code point; all other tokens pass.  An invalid
   run shows what precedes its first invalid byte and then U+FFFD (not exercised below).
   [vt_run_utf8 toks v] = the VT run of the decoded stream: VT.v then puts every code point into ONE cell, which
   is right exactly for code points of width 1 -- wide (2-column) and combining (0-column) characters need a
   width model in VT.v and stay outside.

   Facts: a run that is the encoding (tickit_utf8_put's bytes, RBUtf8Bridge.enc) of code points decodes to
   them; token lists without TChar pass unchanged; decoding is compositional over such pieces. *)
From Coq Require Import ZArith List Bool Lia.
From Tickit Require Utf8Defs Utf8Spec Utf8PutCount RBUtf8Bridge.
From Tickit Require Import Csi VT XtermDefs.
Import ListNotations.
Local Open Scope Z_scope.

Module U8S := Tickit.Utf8Spec.
Module UB := Tickit.RBUtf8Bridge.

Definition glyphs_of (run : list Z) : list token :=
  chars (map U8S.it_cp (fst (U8S.decode run))) ++ (if snd (U8S.decode run) then [TChar 0xFFFD] else []).

(* [run]: the graphic bytes collected since the last other token *)
Fixpoint dt (run : list Z) (l : list token) : list token :=
  match l with
  | [] => glyphs_of run
  | TChar b :: r => dt (run ++ [b]) r
  | t :: r => glyphs_of run ++ t :: dt [] r
  end.
Definition utf8_toks (l : list token) : list token := dt [] l.
Definition vt_run_utf8 (toks : list token) (v : vt) : vt := vt_run (utf8_toks toks) v.

Definition nocharb (ts : list token) : bool :=
  forallb (fun t => match t with TChar _ => false | _ => true end) ts.

(* a code point tickit_utf8_put encodes and the decoder accepts *)
Definition cpok (c : Z) : Prop := UB.cp_ok c /\ U8S.bad_cp c = false.

Lemma glyphs_nil : glyphs_of [] = [].
Proof. reflexivity. Qed.

Lemma decode_enc_app : forall w rest, Forall cpok w ->
  U8S.decode (UB.enc w ++ rest) =
  (map (fun c => U8S.mkItem c (Tickit.Utf8Defs.u8_seqlen c) (U8S.spec_width c)) w ++ fst (U8S.decode rest),
   snd (U8S.decode rest)).
Proof.
  induction w as [|c w IH]; intros rest H.
  - cbn [UB.enc flat_map app map]. destruct (U8S.decode rest); reflexivity.
  - inversion H as [|c' w' [Hc Hb] Hw]; subst.
    unfold UB.enc. cbn [flat_map]. fold (UB.enc w). rewrite <- app_assoc.
    rewrite UB.decode_put_app by exact Hc. rewrite IH by exact Hw.
    unfold U8S.mk_item. rewrite Hb. reflexivity.
Qed.

Lemma glyphs_enc : forall w run, Forall cpok w -> glyphs_of (UB.enc w ++ run) = chars w ++ glyphs_of run.
Proof.
  intros w run H. unfold glyphs_of. rewrite decode_enc_app by exact H. cbn [fst snd].
  rewrite map_app, map_map. cbn [U8S.it_cp]. rewrite map_id. unfold chars. rewrite map_app, <- app_assoc. reflexivity.
Qed.

Lemma dt_enc : forall l w run, Forall cpok w -> dt (UB.enc w ++ run) l = chars w ++ dt run l.
Proof.
  induction l as [|t l IH]; intros w run H.
  - cbn [dt]. apply glyphs_enc. exact H.
  - destruct t; cbn [dt]; try (rewrite glyphs_enc by exact H; rewrite <- app_assoc; reflexivity).
    rewrite <- app_assoc. apply IH. exact H.
Qed.

Lemma dt_chars : forall bs run r, dt run (chars bs ++ r) = dt (run ++ bs) r.
Proof.
  induction bs as [|b bs IH]; intros run r.
  - cbn [chars map app]. rewrite app_nil_r. reflexivity.
  - unfold chars. cbn [map app dt]. fold (chars bs). rewrite IH, <- app_assoc. reflexivity.
Qed.

Lemma dt_nochar : forall ts r, nocharb ts = true -> dt [] (ts ++ r) = ts ++ dt [] r.
Proof.
  induction ts as [|t ts IH]; intros r H; [reflexivity|].
  cbn [nocharb forallb] in H. apply andb_true_iff in H as [Ht Hts].
  destruct t; try discriminate Ht; cbn [app dt]; rewrite glyphs_nil; cbn [app]; f_equal; apply IH; exact Hts.
Qed.

(* a print of the encoding of [u] shows [u] *)
Theorem utf8_print : forall u rest, Forall cpok u ->
  utf8_toks (chars (UB.enc u) ++ rest) = chars u ++ utf8_toks rest.
Proof.
  intros u rest H. unfold utf8_toks. rewrite dt_chars. cbn [app].
  rewrite <- (app_nil_r (UB.enc u)). apply dt_enc. exact H.
Qed.

Theorem utf8_nochar : forall ts rest, nocharb ts = true -> utf8_toks (ts ++ rest) = ts ++ utf8_toks rest.
Proof. intros ts rest H. apply dt_nochar. exact H. Qed.

Lemma utf8_nil : utf8_toks [] = [].
Proof. reflexivity. Qed.

(* ASCII is its own encoding *)
Lemma enc_ascii : forall u, Forall (fun c => 0 <= c < 0x80) u -> UB.enc u = u.
Proof.
  induction u as [|c u IH]; intros H; [reflexivity|]. inversion H; subst.
  unfold UB.enc. cbn [flat_map]. fold (UB.enc u). rewrite IH by assumption.
  rewrite Tickit.Utf8PutCount.put_bytes_1 by assumption. reflexivity.
Qed.

(* non-vacuity: "é─" (U+00E9, U+2500) is sent as C3 A9 E2 94 80 between two CSI tokens and reaches the
   screen as two glyphs; a stray continuation byte shows U+FFFD *)
Lemma utf8_example :
  UB.enc [0xE9; 0x2500] = [0xC3; 0xA9; 0xE2; 0x94; 0x80] /\
  utf8_toks (csi_0 72 :: chars [0xC3; 0xA9; 0xE2; 0x94; 0x80] ++ [csi_0 75]) = csi_0 72 :: chars [0xE9; 0x2500] ++ [csi_0 75] /\
  utf8_toks (chars [0x41; 0xA9]) = chars [0x41; 0xFFFD].
Proof. vm_compute. repeat split; reflexivity. Qed.
