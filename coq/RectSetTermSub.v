(* RectSetTermSub.v -- C05, part 7: termination of tickit_rectset_subtract (existence of
   sufficient fuel for the index loop and for every inner add).
   Measure of the loop: (number of members that meet the hole, length - index),
   lexicographically.  An iteration on a clean member advances the index; an iteration on
   a dirty member x removes x and re-adds clean remainders, and every dirty member of the
   new array is a member of the old one other than x (RectSetSubtract.subtract_step), so
   the number of dirty members drops. *)
From Coq Require Import ZArith List Bool Lia ZifyBool Arith.
From Tickit Require Import RectDefs RectProofs RectSetDefs RectSetSpec RectSetProofs
  RectSetSubtract RectSetTerm RectSetHistory.
Import ListNotations.
Local Open Scope Z_scope.

Lemma Inv_NoDup s : Inv s -> NoDup s.
Proof.
  intros [Hne [Hsep _]]. induction s as [|a rest IH]; constructor.
  - intros Hin. destruct Hsep as [Ha _]. rewrite Forall_forall in Ha. destruct (Ha a Hin) as [Hs _].
    apply Forall_cons_iff in Hne. destruct Hne as [Han _].
    unfold sep, nonempty, bottom, right in *. lia.
  - apply Forall_cons_iff in Hne. destruct Hne as [_ Hr]. destruct Hsep as [_ Hs]. auto.
Qed.

Definition dirtyc (hole : rect) (s : rectset) : nat :=
  length (filter (fun y => r_intersects y hole) s).

Lemma rs_add_mono f f' s r s' : rs_add f false s r = Some s' -> (f <= f')%nat ->
  rs_add f' false s r = Some s'.
Proof. unfold rs_add. intros H Hle. exact (rs_add_at_mono false f _ _ _ _ _ _ _ H f' Hle). Qed.

Lemma rs_add_list_mono f f' s ps s' : rs_add_list f false s ps = Some s' -> (f <= f')%nat ->
  rs_add_list f' false s ps = Some s'.
Proof.
  unfold rs_add_list. intros H Hle. revert H.
  apply (fold_wrap_mono (rs_add f false) (rs_add f' false)).
  intros s1 p r1 H1. exact (rs_add_mono f f' s1 p r1 H1 Hle).
Qed.

Lemma add_list_terminates : forall ps s, Inv s -> Forall nonempty ps ->
  exists f s', rs_add_list f false s ps = Some s'.
Proof.
  induction ps as [|p rest IH]; intros s Hinv Hne.
  - exists 0%nat, s. reflexivity.
  - apply Forall_cons_iff in Hne. destruct Hne as [Hp Hrest].
    destruct (rs_add_terminates s p Hinv Hp) as [f1 [s1 E1]].
    destruct (rs_add_ok f1 s p s1 Hinv Hp E1) as [Hinv1 _].
    destruct (IH s1 Hinv1 Hrest) as [f2 [s' E2]].
    exists (Nat.max f1 f2), s'. unfold rs_add_list. cbn [fold_left].
    rewrite (rs_add_mono f1 (Nat.max f1 f2) s p s1 E1 (Nat.le_max_l _ _)).
    exact (rs_add_list_mono f2 (Nat.max f1 f2) s1 rest s' E2 (Nat.le_max_r _ _)).
Qed.

Lemma loop_mono hole : forall lf f s i s',
  rs_subtract_loop lf f false s i hole = Some s' ->
  forall lf' f', (lf <= lf')%nat -> (f <= f')%nat ->
  rs_subtract_loop lf' f' false s i hole = Some s'.
Proof.
  induction lf as [|lf IH]; intros f s i s'; cbn [rs_subtract_loop]; [discriminate|].
  intros H lf' f' Hl Hf. destruct lf' as [|lf']; [lia|]. cbn [rs_subtract_loop].
  destruct (nth_error s i) as [x|]; [|exact H].
  destruct (negb (r_intersects x hole)).
  - apply (IH _ _ _ _ H); lia.
  - destruct (rs_add_list f false (rs_delete s i) (r_subtract x hole)) as [s1|] eqn:E; [|discriminate].
    rewrite (rs_add_list_mono f f' _ _ _ E Hf). apply (IH _ _ _ _ H); lia.
Qed.

Lemma loop_terminates hole : nonempty hole -> forall d k s i,
  (dirtyc hole s <= d)%nat -> (length s - i <= k)%nat ->
  Inv s -> Forall (clean hole) (firstn i s) ->
  exists lf f s', rs_subtract_loop lf f false s i hole = Some s'.
Proof.
  intros Hhole. induction d as [d IHd] using lt_wf_ind.
  induction k as [|k IHk]; intros s i Hd Hk Hinv Hcl.
  - exists 1%nat, 0%nat, s. cbn [rs_subtract_loop].
    assert (E : nth_error s i = None) by (apply nth_error_None; lia). rewrite E. reflexivity.
  - destruct (nth_error s i) as [x|] eqn:Enth.
    2:{ exists 1%nat, 0%nat, s. cbn [rs_subtract_loop]. rewrite Enth. reflexivity. }
    pose proof Enth as Enth'.
    apply nth_error_split in Enth. destruct Enth as [pre [post [E Elen]]]. subst s i.
    assert (Hpre : Forall (clean hole) pre).
    { rewrite firstn_app, firstn_all, Nat.sub_diag in Hcl. cbn [firstn] in Hcl. rewrite app_nil_r in Hcl. exact Hcl. }
    destruct (r_intersects x hole) eqn:Eint.
    + (* dirty member: removed, remainders re-added, fewer dirty members *)
      assert (Hxin : In x (pre ++ x :: post)) by (apply in_or_app; right; left; reflexivity).
      assert (Hx : nonempty x) by (eapply Inv_In_nonempty; eauto).
      destruct (subtract_ok x hole Hx Hhole) as [_ [Hpne _]].
      destruct (add_list_terminates (r_subtract x hole) (pre ++ post) (Inv_remove _ _ _ Hinv) Hpne)
        as [f0 [s1 Eadd]].
      destruct (rs_add_list_ok f0 _ _ _ (Inv_remove _ _ _ Hinv) Hpne Eadd) as [Hinv1 _].
      destruct (subtract_step hole f0 pre x post s1 Hhole Hinv Hpre Eint Eadd) as [Hcl1 Horig].
      assert (Hless : (dirtyc hole s1 < dirtyc hole (pre ++ x :: post))%nat).
      { assert (H1 : (dirtyc hole s1 <= dirtyc hole (pre ++ post))%nat).
        { unfold dirtyc. apply NoDup_incl_length.
          - apply NoDup_filter, Inv_NoDup, Hinv1.
          - intros y Hy. apply filter_In in Hy. destruct Hy as [Hy Hdy]. apply filter_In.
            split; [|exact Hdy]. destruct (Horig y Hy) as [Hc|Hin]; [|exact Hin].
            unfold clean in Hc. congruence. }
        assert (H2 : dirtyc hole (pre ++ x :: post) = S (dirtyc hole (pre ++ post))).
        { unfold dirtyc. rewrite !filter_app, !app_length. cbn [filter]. rewrite Eint. cbn [length]. lia. }
        lia. }
      destruct (IHd (dirtyc hole s1) ltac:(lia) (length s1 - length pre)%nat s1 (length pre)
                  (Nat.le_refl _) (Nat.le_refl _) Hinv1 Hcl1) as [lf1 [f1 [s' Hloop]]].
      exists (S lf1), (Nat.max f0 f1), s'. cbn [rs_subtract_loop].
      rewrite Enth', Eint. cbn [negb]. rewrite rs_delete_mid.
      rewrite (rs_add_list_mono f0 (Nat.max f0 f1) _ _ _ Eadd (Nat.le_max_l _ _)).
      apply (loop_mono hole lf1 f1 s1 (length pre) s' Hloop); [lia|apply Nat.le_max_r].
    + (* clean member: advance *)
      destruct (IHk (pre ++ x :: post) (S (length pre))) as [lf1 [f1 [s' Hloop]]].
      * exact Hd.
      * rewrite app_length in *. cbn [length] in *. lia.
      * exact Hinv.
      * replace (pre ++ x :: post) with ((pre ++ [x]) ++ post) by (rewrite <- app_assoc; reflexivity).
        replace (S (length pre)) with (length (pre ++ [x])) by (rewrite app_length; simpl; lia).
        rewrite firstn_app, firstn_all, Nat.sub_diag. cbn [firstn]. rewrite app_nil_r.
        apply Forall_app. split; [exact Hpre|]. constructor; [exact Eint|constructor].
      * exists (S lf1), f1, s'. cbn [rs_subtract_loop]. rewrite Enth', Eint. cbn [negb]. exact Hloop.
Qed.

Theorem rs_subtract_terminates s hole : Inv s -> nonempty hole ->
  exists fuel s', rs_subtract fuel false s hole = Some s'.
Proof.
  intros Hinv Hhole.
  destruct (loop_terminates hole Hhole (dirtyc hole s) (length s - 0)%nat s 0%nat
              (Nat.le_refl _) (Nat.le_refl _) Hinv ltac:(constructor)) as [lf [f [s' H]]].
  exists (Nat.max lf f), s'. unfold rs_subtract.
  apply (loop_mono hole lf f s 0%nat s' H); [apply Nat.le_max_l|apply Nat.le_max_r].
Qed.

(* every history runs to completion with enough fuel *)
Lemma rs_step_mono f f' s o s' : rs_step f false s o = Some s' -> (f <= f')%nat ->
  rs_step f' false s o = Some s'.
Proof.
  destruct o as [r|r|d rw|]; cbn [rs_step]; intros H Hle; auto.
  - exact (rs_add_mono f f' s r s' H Hle).
  - unfold rs_subtract in *. apply (loop_mono r f f s 0%nat s' H); exact Hle.
Qed.

Lemma rs_run_mono f f' : (f <= f')%nat -> forall ops s s',
  rs_run f false s ops = Some s' -> rs_run f' false s ops = Some s'.
Proof.
  intros Hle. induction ops as [|o rest IH]; intros s s'; cbn [rs_run]; [auto|].
  destruct (rs_step f false s o) as [s1|] eqn:E; [|discriminate].
  rewrite (rs_step_mono f f' s o s1 E Hle). apply IH.
Qed.

Lemma rs_step_terminates s o : Inv s -> op_ok o -> exists f s', rs_step f false s o = Some s'.
Proof.
  intros Hinv Hok. destruct o as [r|r|d rw|]; cbn [rs_step op_ok] in *.
  - exact (rs_add_terminates s r Hinv Hok).
  - exact (rs_subtract_terminates s r Hinv Hok).
  - exists 0%nat. eexists. reflexivity.
  - exists 0%nat. eexists. reflexivity.
Qed.

Theorem rs_run_terminates : forall ops s, Inv s -> Forall op_ok ops ->
  exists fuel s', rs_run fuel false s ops = Some s'.
Proof.
  induction ops as [|o rest IH]; intros s Hinv Hok.
  - exists 0%nat, s. reflexivity.
  - apply Forall_cons_iff in Hok. destruct Hok as [Ho Hrest].
    destruct (rs_step_terminates s o Hinv Ho) as [f1 [s1 E1]].
    destruct (rs_step_ok f1 s o s1 (covered s) Hinv ltac:(intros p; tauto) Ho E1) as [Hinv1 _].
    destruct (IH s1 Hinv1 Hrest) as [f2 [s' E2]].
    exists (Nat.max f1 f2), s'. cbn [rs_run].
    rewrite (rs_step_mono f1 (Nat.max f1 f2) s o s1 E1 (Nat.le_max_l _ _)).
    exact (rs_run_mono f2 (Nat.max f1 f2) (Nat.le_max_r _ _) rest s1 s' E2).
Qed.

(* total correctness: every history runs to completion (with enough fuel) and the result
   has all the properties of RectSetHistory.history_ok *)
Theorem history_total ops : Forall op_ok ops ->
  exists fuel s, rs_run fuel false [] ops = Some s /\
    Forall nonempty s /\ pairwise_disjoint s /\ sorted s /\
    (forall p, covered s p <-> region_spec ops p).
Proof.
  intros Hok. destruct (rs_run_terminates ops [] Inv_nil Hok) as [fuel [s Hrun]].
  exists fuel, s. split; [exact Hrun|].
  destruct (history_ok fuel ops s Hok Hrun) as [H1 [H2 [H3 [H4 _]]]]. auto.
Qed.
