(* BindProofs.v -- the simulation: every trace the interpreter of BindDefs.v (fixed code)
   can produce, for ANY handler environment, is accepted by the monitor of BindSpec.v; the
   interpreter never dereferences a dangling node or calls NULL.  Induction on fuel. *)
From Coq Require Import ZArith List Bool Lia Sorted.
From Tickit Require Import BindDefs BindSpec BindInv BindMon.
Import ListNotations.
Local Open Scope Z_scope.

(* what handlers may do (the statement: "bind or unbind themselves or others, or emit
   further events"); event numbers are enum values, i.e. not negative *)
Definition top_ok (a : action) : Prop :=
  match a with AEmit ev => 0 <= ev | AEmitWF ev => 0 <= ev | _ => True end.
Definition nested_ok (a : action) : Prop := top_ok a /\ a <> ADestroy.
Definition env_ok (env : env_t) : Prop :=
  forall tr hid name flags, Forall nested_ok (fst (env tr hid name flags)).

(* destroy only where the monitor's stack is empty, i.e. at top level *)
Definition act_ok (st : list frame) (a : action) : Prop := top_ok a /\ (a = ADestroy -> st = []).

Definition ret_stack (ret : Z) (st : list frame) : list frame :=
  match st with
  | FEmit true ev last pending claimed :: st' => FEmit true ev last pending (claimed || negb (ret =? 0)) :: st'
  | _ => st
  end.

Definition LoopInv (ev : Z) (cur last : option Z) (pending : list Z) (w : world) (m : mstate) : Prop :=
  0 <= ev /\
  (forall d, cur = Some d ->
     In d (names (first (ws w))) /\ match last with Some l => l < d | None => True end) /\
  Forall (fun n => - m_n m < n < m_n m) pending /\
  (forall a, In a (m_live m) -> In (a_name a) pending ->
     a_ev a = ev /\ exists d, cur = Some d /\ d <= a_name a).

Definition Pre (t : task) (w : world) (m : mstate) : Prop :=
  match t with
  | KCall fn name flags => fn <> None /\ Rel w m /\ exists st, m_stack m = FCall :: st
  | KActs acts => Rel w m /\ app_context (m_stack m) = true /\ Forall (act_ok (m_stack m)) acts
  | KAct a => Rel w m /\ app_context (m_stack m) = true /\ act_ok (m_stack m) a
  | KLoop wf ev cur => Rel w m /\ exists last pending st,
        m_stack m = FEmit wf ev last pending false :: st /\ LoopInv ev cur last pending w m
  | KDestroy => (exists zs, RelD w m zs) /\ m_stack m = [FDestroy]
  end.

Definition Post (t : task) (m : mstate) (w' : world) (m' : mstate) (r : Z) : Prop :=
  match t with
  | KCall _ _ _ => Rel w' m' /\ m_stack m' = ret_stack r (tl (m_stack m))
  | KActs _ => Rel w' m' /\ m_stack m' = m_stack m
  | KAct _ => Rel w' m' /\ m_stack m' = m_stack m
  | KLoop wf ev _ => Rel w' m' /\ exists last pending claimed,
        m_stack m' = FEmit wf ev last pending claimed :: tl (m_stack m) /\
        (claimed = true \/ forall a, In a (m_live m') -> ~ In (a_name a) pending)
  | KDestroy => (exists zs, RelD w' m' zs) /\ m_stack m' = [FDestroy] /\ first (ws w') = []
  end.

Definition Com (w : world) (m : mstate) (w' : world) (m' : mstate) : Prop :=
  Steps w m w' m' /\ Mono m m' /\ Keep w w'.

Section Sound.
Variable env : env_t.
Hypothesis Henv : env_ok env.

Definition Sound (fuel : nat) : Prop :=
  forall t w m, Pre t w m ->
  match exec fixed env fuel t w with
  | Fault => False
  | OutOfFuel => True
  | Ok (w', r) => exists m', Com w m w' m' /\ Post t m w' m' r
  end.

Lemma com_refl : forall w m, Com w m w m.
Proof. intros; split; [apply steps_refl|split; [apply mono_refl|apply keep_refl]]. Qed.

Lemma com_trans : forall w1 m1 w2 m2 w3 m3, Com w1 m1 w2 m2 -> Com w2 m2 w3 m3 ->
  (is_iter (ws w1) = true -> is_iter (ws w2) = true) -> Com w1 m1 w3 m3.
Proof.
  intros w1 m1 w2 m2 w3 m3 (S1 & M1 & K1) (S2 & M2 & K2) Hi. split; [|split].
  - eapply steps_trans; eauto.
  - eapply mono_trans; eauto.
  - eapply keep_trans; eauto.
Qed.

Lemma rel_iter : forall w m, Rel w m -> is_iter (ws w) = iterating (m_stack m).
Proof. intros w m H; apply (r_iter _ _ _ H). Qed.

(* ------------------------------------------------------------ exec, one level unfolded *)
Lemma exec_S : forall f t w, exec fixed env (S f) t w =
  match t with
  | KCall fn name flags =>
      match fn with
      | None => Fault
      | Some hid =>
          let '(acts, ret) := env (wt w) hid name flags in
          rbind (exec fixed env f (KActs acts) w) (fun '(w1, _) => Ok (log (TCallE ret) w1, ret))
      end
  | KActs acts =>
      match acts with
      | [] => Ok (w, 0)
      | a :: rest => rbind (exec fixed env f (KAct a) w) (fun '(w1, _) => exec fixed env f (KActs rest) w1)
      end
  | _ => exec fixed env (S f) t w
  end.
Proof. intros f t w; destruct t; reflexivity. Qed.

(* ------------------------------------------------------------ KActs *)
Lemma sound_acts : forall f, Sound f -> forall acts w m, Pre (KActs acts) w m ->
  match exec fixed env (S f) (KActs acts) w with
  | Fault => False | OutOfFuel => True
  | Ok (w', r) => exists m', Com w m w' m' /\ Post (KActs acts) m w' m' r
  end.
Proof.
  intros f IH acts w m (HR & Hctx & Hok). rewrite exec_S. destruct acts as [|a rest].
  - exists m; split; [apply com_refl|]. split; auto.
  - inversion Hok as [|? ? Ha Hrest]; subst.
    pose proof (IH (KAct a) w m) as H1. cbn [Pre] in H1. specialize (H1 (conj HR (conj Hctx Ha))).
    destruct (exec fixed env f (KAct a) w) as [[w1 r1]| |]; cbn [rbind]; auto.
    destruct H1 as (m1 & C1 & HR1 & Hst1). cbn [Post] in *.
    pose proof (IH (KActs rest) w1 m1) as H2. cbn [Pre] in H2.
    rewrite Hst1 in H2. specialize (H2 (conj HR1 (conj Hctx Hrest))).
    destruct (exec fixed env f (KActs rest) w1) as [[w2 r2]| |]; auto.
    destruct H2 as (m2 & C2 & HR2 & Hst2). exists m2; split.
    + eapply com_trans; eauto. intros Hi. rewrite (rel_iter _ _ HR1), Hst1, <- (rel_iter _ _ HR); exact Hi.
    + split; [exact HR2|congruence].
Qed.

Lemma relD_change : forall w m zs w' m',
  RelD w m zs -> ws w' = ws w -> wn w' = wn w -> m_live m' = m_live m -> m_n m' = m_n m ->
  iterating (m_stack m') = iterating (m_stack m) -> RelD w' m' zs.
Proof.
  intros w m zs w' m' [H1 H2 H3 H4 H5 H6 H7] Es En El Emn Ei.
  constructor; rewrite ?Es, ?En, ?El, ?Emn, ?Ei; auto.
Qed.

Lemma iterating_ret_stack : forall r st, iterating (ret_stack r st) = iterating st.
Proof. intros r [|[[] ev last pending claimed| | |] st]; reflexivity. Qed.

Lemma com_log : forall w m e m', mon_step m e = inl m' -> m_n m = m_n m' -> incl (m_live m') (m_live m) ->
  Com w m (log e w) m'.
Proof.
  intros w m e m' Hs Hn Hi; split; [apply steps_log; exact Hs|split; [apply mono_subset; auto|]].
  intros _; apply incl_refl.
Qed.

(* ------------------------------------------------------------ KCall *)
Lemma sound_call : forall f, Sound f -> forall fn name flags w m, Pre (KCall fn name flags) w m ->
  match exec fixed env (S f) (KCall fn name flags) w with
  | Fault => False | OutOfFuel => True
  | Ok (w', r) => exists m', Com w m w' m' /\ Post (KCall fn name flags) m w' m' r
  end.
Proof.
  intros f IH fn name flags w m (Hfn & HR & st & Hst). rewrite exec_S.
  destruct fn as [hid|]; [|congruence].
  pose proof (Henv (wt w) hid name flags) as Hacts.
  destruct (env (wt w) hid name flags) as [acts ret]; cbn [fst] in Hacts.
  pose proof (IH (KActs acts) w m) as H1; cbn [Pre] in H1.
  assert (Hctx : app_context (m_stack m) = true) by (rewrite Hst; reflexivity).
  assert (Hok : Forall (act_ok (m_stack m)) acts).
  { rewrite Hst. eapply Forall_impl; [|exact Hacts]. intros a (Ht & Hd); split; auto. intros; contradiction. }
  specialize (H1 (conj HR (conj Hctx Hok))).
  destruct (exec fixed env f (KActs acts) w) as [[w1 r1]| |]; cbn [rbind]; auto.
  destruct H1 as (m1 & C1 & HR1 & Hst1). cbn [Post] in *.
  set (m2 := mkM (m_live m1) (m_n m1) (ret_stack ret st)).
  assert (Hstep : mon_step m1 (TCallE ret) = inl m2).
  { unfold mon_step. rewrite Hst1, Hst. subst m2.
    destruct st as [|[wf ev last pending claimed| | |] st']; try reflexivity. destruct wf; reflexivity. }
  exists m2. split.
  - eapply com_trans; [exact C1|apply com_log; [exact Hstep|reflexivity|apply incl_refl]|].
    intros Hi. rewrite (rel_iter _ _ HR1), Hst1, <- (rel_iter _ _ HR); exact Hi.
  - split.
    + eapply relD_change; [exact HR1|reflexivity|reflexivity|reflexivity|reflexivity|].
      subst m2; cbn [m_stack]. rewrite iterating_ret_stack, Hst1, Hst. reflexivity.
    + subst m2; cbn [m_stack]. rewrite Hst; reflexivity.
Qed.

(* ------------------------------------------------------------ KAct (ABind ..) *)
Lemma abs_range : forall n l a, Forall (node_ok n) l -> In a (abs_list l) -> - n < a_name a < n.
Proof.
  intros n l a Hn Ha. apply abs_in_live in Ha; destruct Ha as (b & Hb & _ & ->).
  rewrite Forall_forall in Hn. destruct (Hn _ Hb) as (Hr & _). exact Hr.
Qed.

Lemma sound_bind : forall f ev flags hid w m, Pre (KAct (ABind ev flags hid)) w m ->
  match exec fixed env (S f) (KAct (ABind ev flags hid)) w with
  | Fault => False | OutOfFuel => True
  | Ok (w', r) => exists m', Com w m w' m' /\ Post (KAct (ABind ev flags hid)) m w' m' r
  end.
Proof.
  intros f ev flags hid w m (HR & Hctx & _). cbn [exec].
  destruct HR as [Hinv Hlive Hn Hpos Hiter _ _]. rewrite app_nil_r in Hlive.
  pose proof (SInv_bind (wn w) (ws w) ev flags hid Hinv Hpos) as Hinv'.
  set (name := if has flags BIND_FIRST then - wn w else wn w) in *.
  unfold bind_event in *. cbn [fst] in Hinv'.
  set (nb := mkB (max_id (first (ws w)) + 1) ev (Z.land flags (BIND_UNBIND + BIND_DESTROY + BIND_ONESHOT)) (Some hid) name) in *.
  set (na := mkA name ev (Z.land flags (BIND_UNBIND + BIND_DESTROY + BIND_ONESHOT)) (max_id (first (ws w)) + 1)).
  assert (Hnb : abs_of nb = na) by reflexivity.
  assert (Hlv : live nb = true) by apply live_new.
  set (m' := mkM (if has flags BIND_FIRST then na :: m_live m else m_live m ++ [na]) (m_n m + 1) (m_stack m)).
  assert (Hstep : mon_step m (TBind name ev flags hid (max_id (first (ws w)) + 1)) = inl m').
  { unfold mon_step. rewrite Hctx; cbn [negb]. rewrite Hn. fold name. rewrite Z.eqb_refl; cbn [negb].
    destruct (max_id_ge (first (ws w))) as (H0 & Hmax).
    assert (E1 : 0 <? max_id (first (ws w)) + 1 = true) by (apply Z.ltb_lt; lia). rewrite E1; cbn [negb orb].
    rewrite memZ_false; [unfold m'; rewrite Hn; reflexivity|].
    rewrite Hlive, abs_ids. intros Hin. apply in_map_iff in Hin; destruct Hin as (b & He & Hb).
    apply filter_In in Hb; destruct Hb as (Hb & _). specialize (Hmax _ Hb); lia. }
  exists m'. split; [split; [|split]|].
  - exists [TBind name ev flags hid (max_id (first (ws w)) + 1)]; split; [reflexivity|].
    cbn [rev app mon_run]. rewrite Hstep; reflexivity.
  - split; [subst m'; cbn [m_n]; lia|]. intros a Ha Hr. subst m'; cbn [m_live] in Ha.
    assert (a <> na). { intros ->. subst na name; cbn [a_name] in Hr. rewrite Hn in Hr. destruct (has flags BIND_FIRST); lia. }
    destruct (has flags BIND_FIRST); [destruct Ha as [Ha|Ha]; [congruence|exact Ha]|].
    apply in_app_or in Ha; destruct Ha as [Ha|[Ha|[]]]; [exact Ha|congruence].
  - intros _. cbn [ws first]. unfold names. destruct (has flags BIND_FIRST).
    + cbn [map]. apply incl_tl, incl_refl.
    + rewrite map_app. apply incl_appl, incl_refl.
  - cbn [Post]. split; [|reflexivity]. constructor; cbn [ws wn first is_iter m_live m_n m_stack]; auto.
    + rewrite app_nil_r. subst m'; cbn [m_live]. rewrite Hlive. destruct (has flags BIND_FIRST).
      * rewrite abs_list_cons_live by exact Hlv. rewrite Hnb; reflexivity.
      * rewrite abs_list_app. f_equal. unfold abs_list; cbn [filter]. rewrite Hlv. reflexivity.
    + subst m'; cbn [m_n]; lia.
    + lia.
Qed.

(* ------------------------------------------------------------ leaving an iteration *)
Lemma rel_end_iteration : forall w2 m2 was e m',
  Rel w2 m2 -> is_iter (ws w2) = true ->
  m_live m' = m_live m2 -> m_n m' = m_n m2 -> iterating (m_stack m') = was ->
  Rel (log e (set_state (end_iteration was (ws w2)) w2)) m'.
Proof.
  intros w2 m2 was e m' [Hinv Hlive Hn Hpos Hiter _ _] Hit El En Ei.
  constructor; cbn [log set_state ws wn]; auto.
  - apply SInv_end_iteration; auto.
  - rewrite El, Hlive, abs_list_end_iteration; reflexivity.
  - congruence.
  - rewrite is_iter_end_iteration; auto.
Qed.

(* ------------------------------------------------------------ KAct (AUnbind id) *)
Lemma exec_unbind : forall f id w, exec fixed env (S f) (KAct (AUnbind id)) w =
  let w0 := log (TUnbindB id) w in
  match find (fun b => b_id b =? id) (first (ws w)) with
  | None => Ok (log TUnbindE w0, 0)
  | Some b =>
      let w1 := set_state (mkS (update_node (b_data b) tombstone (first (ws w))) true true) w0 in
      rbind (if has (b_flags b) BIND_UNBIND
             then exec fixed env f (KCall (b_fn b) (b_data b) EV_UNBIND) (log (TCallB (b_data b) EV_UNBIND) w1)
             else Ok (w1, 0))
            (fun '(w2, _) => Ok (log TUnbindE (set_state (end_iteration (is_iter (ws w)) (ws w2)) w2), 0))
  end.
Proof. reflexivity. Qed.

Lemma sound_unbind : forall f, Sound f -> forall id w m, Pre (KAct (AUnbind id)) w m ->
  match exec fixed env (S f) (KAct (AUnbind id)) w with
  | Fault => False | OutOfFuel => True
  | Ok (w', r) => exists m', Com w m w' m' /\ Post (KAct (AUnbind id)) m w' m' r
  end.
Proof.
  intros f IH id w m (HR & Hctx & _). rewrite exec_unbind. cbv zeta.
  pose proof HR as [Hinv Hlive Hn Hpos Hiter _ _]. rewrite app_nil_r in Hlive.
  pose proof (find_id_rel (wn w) id (first (ws w)) (si_nodes _ _ Hinv)) as Hfind.
  destruct (find (fun b => b_id b =? id) (first (ws w))) as [b|].
  - (* a node with this id exists *)
    destruct Hfind as (Hin & Hfind).
    set (d := b_data b) in *.
    set (pend := if has (b_flags b) BIND_UNBIND then Some d else None).
    set (m0 := mkM (remove_live d (m_live m)) (m_n m) (FUnbind pend :: m_stack m)).
    assert (Hstep0 : mon_step m (TUnbindB id) = inl m0).
    { unfold mon_step. rewrite Hctx; cbn [negb]. rewrite Hlive. destruct (live b) eqn:Lv.
      - rewrite Hfind. cbn [abs_of a_name a_flags]. unfold m0, pend, d. rewrite Hlive. reflexivity.
      - rewrite Hfind. unfold m0, pend.
        assert (Hb : b = tombstone b).
        { pose proof (si_nodes _ _ Hinv) as Hn'. rewrite Forall_forall in Hn'. destruct (Hn' _ Hin) as (_ & _ & Ht). auto. }
        rewrite Hb at 1. cbn [tombstone b_flags]. rewrite has_0.
        rewrite remove_live_absent; [rewrite Hlive; reflexivity|].
        rewrite Hlive. intros a Ha He. apply abs_in_live in Ha; destruct Ha as (b' & Hb' & Lv' & ->).
        cbn [abs_of a_name] in He. assert (b' = b) by (eapply names_unique; eauto; apply (si_sorted _ _ Hinv)).
        congruence. }
    set (w1 := set_state (mkS (update_node d tombstone (first (ws w))) true true) (log (TUnbindB id) w)).
    assert (HR1 : Rel w1 m0).
    { constructor; cbn [w1 set_state log ws wn m0 m_live m_n m_stack first is_iter needs_del]; auto.
      - apply SInv_tombstone; exact Hinv.
      - rewrite app_nil_r, abs_list_update_dead, Hlive; reflexivity. }
    assert (C01 : Com w m w1 m0).
    { split; [|split].
      - exists [TUnbindB id]; split; [reflexivity|]. cbn [rev app mon_run]; rewrite Hstep0; reflexivity.
      - apply mono_subset; [reflexivity|]. intros a Ha; apply remove_live_in in Ha; tauto.
      - intros _. cbn [w1 set_state log ws first]. rewrite names_update by reflexivity. apply incl_refl. }
    (* the notification, if asked for *)
    assert (Hmid : match (if has (b_flags b) BIND_UNBIND
                          then exec fixed env f (KCall (b_fn b) d EV_UNBIND) (log (TCallB d EV_UNBIND) w1)
                          else Ok (w1, 0)) with
                   | Fault => False | OutOfFuel => True
                   | Ok (w2, _) => exists m2, Com w1 m0 w2 m2 /\ Rel w2 m2 /\ m_stack m2 = FUnbind None :: m_stack m
                   end).
    { destruct (has (b_flags b) BIND_UNBIND) eqn:En.
      - set (m1 := mkM (m_live m0) (m_n m0) (FCall :: FUnbind None :: m_stack m)).
        assert (Hstep1 : mon_step m0 (TCallB d EV_UNBIND) = inl m1).
        { unfold mon_step, m0, pend; cbn [m_stack m_live m_n]. rewrite ?En, Z.eqb_refl. reflexivity. }
        assert (Lv : live b = true).
        { destruct (live b) eqn:Lv; auto. exfalso.
          pose proof (si_nodes _ _ Hinv) as Hn'. rewrite Forall_forall in Hn'. destruct (Hn' _ Hin) as (_ & _ & Ht).
          rewrite (Ht Lv) in En. cbn [tombstone b_flags] in En. rewrite has_0 in En; discriminate. }
        pose proof (IH (KCall (b_fn b) d EV_UNBIND) (log (TCallB d EV_UNBIND) w1) m1) as H1. cbn [Pre] in H1.
        assert (Hfn : b_fn b <> None).
        { pose proof (si_nodes _ _ Hinv) as Hn'. rewrite Forall_forall in Hn'. destruct (Hn' _ Hin) as (_ & Hl & _). apply Hl; exact Lv. }
        assert (HRc : Rel (log (TCallB d EV_UNBIND) w1) m1).
        { eapply relD_change; [exact HR1| | | | |]; reflexivity. }
        specialize (H1 (conj Hfn (conj HRc (ex_intro _ _ eq_refl)))).
        destruct (exec fixed env f (KCall (b_fn b) d EV_UNBIND) (log (TCallB d EV_UNBIND) w1)) as [[w2 r2]| |]; auto.
        destruct H1 as (m2 & C2 & HR2 & Hst2). cbn [Post m1 m_stack tl ret_stack] in Hst2.
        exists m2; split; [|split; auto].
        eapply com_trans; [apply com_log; [exact Hstep1|reflexivity|apply incl_refl]|exact C2|]. auto.
      - exists m0; split; [apply com_refl|split; [exact HR1|]]. unfold m0, pend; cbn [m_stack]. rewrite ?En; reflexivity. }
    destruct (if has (b_flags b) BIND_UNBIND
              then exec fixed env f (KCall (b_fn b) d EV_UNBIND) (log (TCallB d EV_UNBIND) w1)
              else Ok (w1, 0)) as [[w2 r2]| |]; cbn [rbind]; auto.
    destruct Hmid as (m2 & C12 & HR2 & Hst2).
    set (m' := mkM (m_live m2) (m_n m2) (m_stack m)).
    assert (Hstep2 : mon_step m2 TUnbindE = inl m').
    { unfold mon_step. rewrite Hst2. reflexivity. }
    assert (Hit2 : is_iter (ws w2) = true) by (rewrite (rel_iter _ _ HR2), Hst2; reflexivity).
    destruct C01 as (S01 & M01 & K01). destruct C12 as (S12 & M12 & K12).
    exists m'. split; [split; [|split]|].
    + eapply steps_trans; [exact S01|]. eapply steps_trans; [exact S12|].
      exists [TUnbindE]; split; [reflexivity|]. cbn [rev app mon_run]; rewrite Hstep2; reflexivity.
    + eapply mono_trans; [exact M01|]. eapply mono_trans; [exact M12|].
      apply mono_subset; [reflexivity|apply incl_refl].
    + intros Hw. cbn [log set_state ws]. rewrite Hw. rewrite names_end_iteration_true.
      eapply incl_tran; [apply K01; exact Hw|apply K12; reflexivity].
    + cbn [Post]. split; [|reflexivity].
      apply rel_end_iteration with m2; auto.
  - (* no such id *)
    set (m0 := mkM (m_live m) (m_n m) (FUnbind None :: m_stack m)).
    set (m' := mkM (m_live m) (m_n m) (m_stack m)).
    assert (Hstep0 : mon_step m (TUnbindB id) = inl m0).
    { unfold mon_step. rewrite Hctx; cbn [negb]. rewrite Hlive, Hfind. unfold m0; rewrite Hlive; reflexivity. }
    assert (Hstep1 : mon_step m0 TUnbindE = inl m') by reflexivity.
    exists m'. split; [split; [|split]|].
    + exists [TUnbindE; TUnbindB id]; split; [reflexivity|].
      cbn [rev app mon_run]. rewrite Hstep0, Hstep1; reflexivity.
    + apply mono_subset; [reflexivity|apply incl_refl].
    + intros _; apply incl_refl.
    + cbn [Post]. split; [|reflexivity]. eapply relD_change; [exact HR| | | | |]; reflexivity.
Qed.

(* ------------------------------------------------------------ KLoop *)
Lemma exec_loop : forall f wf ev cur w, exec fixed env (S f) (KLoop wf ev cur) w =
  match cur with
  | None => Ok (w, 0)
  | Some d =>
      match find_node d (first (ws w)) with
      | None => Fault
      | Some b =>
          if b_ev b =? ev then
            let '(s1, flags) := visit fixed wf b (ws w) in
            rbind (exec fixed env f (KCall (b_fn b) d flags) (log (TCallB d flags) (set_state s1 w)))
                  (fun '(w1, ret) =>
                     if wf && negb (ret =? 0) then Ok (w1, ret)
                     else match next_of d (first (ws w1)) with
                          | None => Fault
                          | Some nx => exec fixed env f (KLoop wf ev nx) w1
                          end)
          else match next_of d (first (ws w)) with
               | None => Fault
               | Some nx => exec fixed env f (KLoop wf ev nx) w
               end
      end
  end.
Proof. reflexivity. Qed.

Lemma visit_fixed : forall wf b s, visit fixed wf b s =
  if has (b_flags b) BIND_ONESHOT
  then (mkS (update_node (b_data b) tombstone (first s)) (is_iter s) true, EV_FIRE + EV_UNBIND)
  else (s, EV_FIRE).
Proof.
  intros; unfold visit; cbn [oneshot_whilefalse oneshot_reentrant fixed].
  rewrite !andb_false_r. cbn [negb]. rewrite andb_true_r. reflexivity.
Qed.

Lemma sound_loop : forall f, Sound f -> forall wf ev cur w m, Pre (KLoop wf ev cur) w m ->
  match exec fixed env (S f) (KLoop wf ev cur) w with
  | Fault => False | OutOfFuel => True
  | Ok (w', r) => exists m', Com w m w' m' /\ Post (KLoop wf ev cur) m w' m' r
  end.
Proof.
  intros f IH wf ev cur w m (HR & last & pending & st & Hst & Hev & Hcur & Hrange & Hpend).
  rewrite exec_loop. destruct cur as [d|].
  2:{ exists m; split; [apply com_refl|]. cbn [Post]. split; [exact HR|].
      exists last, pending, false. rewrite Hst; cbn [tl]. split; [reflexivity|]. right.
      intros a Ha Hin. destruct (Hpend a Ha Hin) as (_ & d & Hd & _); discriminate. }
  destruct (Hcur d eq_refl) as (Hdin & Hlast).
  pose proof HR as [Hinv Hlive Hn Hpos Hiter _ _]. rewrite app_nil_r in Hlive.
  destruct (find_node_in _ _ Hdin) as (b & Hfb). rewrite Hfb.
  destruct (find_node_some _ _ _ Hfb) as (Hbin & Hbd).
  assert (Hit : is_iter (ws w) = true) by (rewrite Hiter, Hst; reflexivity).
  pose proof (si_nodes _ _ Hinv) as Hnodes. rewrite Forall_forall in Hnodes.
  pose proof (si_sorted _ _ Hinv) as Hsorted.
  (* an element of the monitor's list named d is b's abstraction *)
  assert (Hbabs : forall a, In a (m_live m) -> a_name a = d -> a = abs_of b).
  { intros a Ha He. rewrite Hlive in Ha. apply abs_in_live in Ha; destruct Ha as (b' & Hb' & _ & ->).
    cbn [abs_of a_name] in He. f_equal. eapply names_unique; eauto. congruence. }
  destruct (b_ev b =? ev) eqn:Eev.
  - (* the handler is invoked *)
    assert (Lv : live b = true).
    { destruct (live b) eqn:Lv; auto. exfalso. destruct (Hnodes _ Hbin) as (_ & _ & Ht).
      rewrite (Ht Lv) in Eev. cbn [tombstone b_ev] in Eev. apply Z.eqb_eq in Eev. lia. }
    assert (Hfn : b_fn b <> None) by (destruct (Hnodes _ Hbin) as (_ & Hl & _); apply Hl; exact Lv).
    assert (Hfl : find_live d (m_live m) = Some (abs_of b)).
    { rewrite Hlive, <- Hbd. apply (find_live_in (abs_list (first (ws w))) (abs_of b)).
      - apply abs_names_sorted; exact Hsorted.
      - apply in_abs_list; auto. }
    set (pend1 := remove_name d pending).
    (* what follows the logging of TCallB, for either kind of binding *)
    assert (Hcommon : forall s1 flags m1,
      mon_step m (TCallB d flags) = inl m1 ->
      Rel (log (TCallB d flags) (set_state s1 w)) m1 ->
      m_stack m1 = FCall :: FEmit wf ev (Some d) pend1 false :: st ->
      incl (m_live m1) (m_live m) -> m_n m1 = m_n m -> names (first s1) = names (first (ws w)) ->
      match rbind (exec fixed env f (KCall (b_fn b) d flags) (log (TCallB d flags) (set_state s1 w)))
                  (fun '(w1, ret) =>
                     if wf && negb (ret =? 0) then Ok (w1, ret)
                     else match next_of d (first (ws w1)) with
                          | None => Fault
                          | Some nx => exec fixed env f (KLoop wf ev nx) w1
                          end) with
      | Fault => False | OutOfFuel => True
      | Ok (w', r) => exists m', Com w m w' m' /\ Post (KLoop wf ev (Some d)) m w' m' r
      end).
    { intros s1 flags m1 Hstep HR1 Hst1 Hsub Hn1 Hnames.
      set (w1 := log (TCallB d flags) (set_state s1 w)) in *.
      assert (C01 : Com w m w1 m1).
      { split; [|split].
        - exists [TCallB d flags]; split; [reflexivity|]. cbn [rev app mon_run]; rewrite Hstep; reflexivity.
        - apply mono_subset; auto.
        - intros _. cbn [w1 log set_state ws]. rewrite Hnames. apply incl_refl. }
      assert (Hit1 : is_iter (ws w1) = true) by (rewrite (rel_iter _ _ HR1), Hst1; reflexivity).
      pose proof (IH (KCall (b_fn b) d flags) w1 m1) as H1. cbn [Pre] in H1.
      specialize (H1 (conj Hfn (conj HR1 (ex_intro _ _ Hst1)))).
      destruct (exec fixed env f (KCall (b_fn b) d flags) w1) as [[w2 r2]| |]; cbn [rbind]; auto.
      destruct H1 as (m2 & C12 & HR2 & Hst2). cbn [Post] in Hst2. rewrite Hst1 in Hst2; cbn [tl] in Hst2.
      assert (C02 : Com w m w2 m2) by (eapply com_trans; eauto).
      destruct (wf && negb (r2 =? 0)) eqn:Ecl.
      - (* claimed: run_event_whilefalse stops *)
        apply andb_true_iff in Ecl; destruct Ecl as (-> & Er).
        exists m2. split; [exact C02|]. cbn [Post]. split; [exact HR2|].
        exists (Some d), pend1, true. rewrite Hst; cbn [tl]. split; [|left; reflexivity].
        rewrite Hst2. cbn [ret_stack]. rewrite Er. reflexivity.
      - assert (Hst2' : m_stack m2 = FEmit wf ev (Some d) pend1 false :: st).
        { rewrite Hst2. destruct wf; [|reflexivity]. cbn [ret_stack andb] in *. rewrite Ecl. reflexivity. }
        destruct C12 as (S12 & M12 & K12).
        assert (Hdin2 : In d (names (first (ws w2)))).
        { apply K12; [exact Hit1|]. cbn [w1 log set_state ws]. rewrite Hnames. exact Hdin. }
        destruct (next_of_in _ _ Hdin2) as (nx & Hnx). rewrite Hnx.
        pose proof HR2 as [Hinv2 Hlive2 Hn2 _ _ _ _]. rewrite app_nil_r in Hlive2.
        destruct (next_of_sorted _ _ _ (si_sorted _ _ Hinv2) Hnx) as (_ & Hsucc).
        pose proof (IH (KLoop wf ev nx) w2 m2) as H2. cbn [Pre] in H2.
        assert (HLI : LoopInv ev nx (Some d) pend1 w2 m2).
        { split; [exact Hev|]. split; [|split].
          - intros e ->. destruct Hsucc as (He & Hlt & _). auto.
          - destruct M12 as (Hle & _). rewrite Forall_forall in *. intros n Hin.
            apply remove_name_in in Hin; destruct Hin as (Hin & _). specialize (Hrange _ Hin). lia.
          - intros a Ha Hin. apply remove_name_in in Hin; destruct Hin as (Hin & Hne).
            assert (Ha1 : In a (m_live m1)).
            { destruct M12 as (_ & Hm). apply Hm; [exact Ha|]. rewrite Hn1. rewrite Forall_forall in Hrange; auto. }
            destruct (Hpend a (Hsub _ Ha1) Hin) as (Hae & d' & Hd' & Hle). injection Hd' as <-.
            split; [exact Hae|].
            assert (Han : In (a_name a) (names (first (ws w2)))) by (apply abs_names_in; rewrite <- Hlive2; exact Ha).
            destruct nx as [e|].
            + destruct Hsucc as (_ & _ & Hmin). exists e; split; [reflexivity|]. apply Hmin; [exact Han|lia].
            + specialize (Hsucc _ Han). lia. }
        specialize (H2 (conj HR2 (ex_intro _ _ (ex_intro _ _ (ex_intro _ _ (conj Hst2' HLI)))))).
        destruct (exec fixed env f (KLoop wf ev nx) w2) as [[w3 r3]| |]; auto.
        destruct H2 as (m3 & C23 & HR3 & last3 & pend3 & cl3 & Hst3 & Hfin).
        exists m3. split.
        + eapply com_trans; [exact C02|exact C23|].
          intros _. rewrite (rel_iter _ _ HR2), Hst2'. reflexivity.
        + cbn [Post]. split; [exact HR3|]. exists last3, pend3, cl3. rewrite Hst; cbn [tl].
          rewrite Hst2' in Hst3; cbn [tl] in Hst3. auto. }
    rewrite visit_fixed. destruct (has (b_flags b) BIND_ONESHOT) eqn:Eos.
    + (* one-shot: consumed before it runs *)
      set (m1 := mkM (remove_live d (m_live m)) (m_n m) (FCall :: FEmit wf ev (Some d) pend1 false :: st)).
      apply (Hcommon _ _ m1).
      * unfold mon_step. rewrite Hst, Hfl. cbn [abs_of a_ev a_flags]. rewrite Eev; cbn [negb].
        replace (match last with Some l => d <=? l | None => false end) with false
          by (destruct last as [l|]; [symmetry; apply Z.leb_gt; exact Hlast|reflexivity]).
        rewrite Eos, Z.eqb_refl. reflexivity.
      * constructor; cbn [log set_state ws wn m1 m_live m_n m_stack first is_iter needs_del]; auto.
        -- rewrite Hit. apply SInv_tombstone; exact Hinv.
        -- rewrite app_nil_r, Hbd, abs_list_update_dead, Hlive; reflexivity.
      * reflexivity.
      * intros a Ha; apply remove_live_in in Ha; tauto.
      * reflexivity.
      * cbn [first]. apply names_update; reflexivity.
    + set (m1 := mkM (m_live m) (m_n m) (FCall :: FEmit wf ev (Some d) pend1 false :: st)).
      apply (Hcommon _ _ m1).
      * unfold mon_step. rewrite Hst, Hfl. cbn [abs_of a_ev a_flags]. rewrite Eev; cbn [negb].
        replace (match last with Some l => d <=? l | None => false end) with false
          by (destruct last as [l|]; [symmetry; apply Z.leb_gt; exact Hlast|reflexivity]).
        rewrite Eos, Z.eqb_refl. reflexivity.
      * eapply relD_change; [exact HR| | | | |]; try reflexivity.
        cbn [m1 m_stack]. rewrite Hst. reflexivity.
      * reflexivity.
      * apply incl_refl.
      * reflexivity.
      * reflexivity.
  - (* bound to another event, or a tombstone: step over it *)
    apply Z.eqb_neq in Eev.
    destruct (next_of_in _ _ Hdin) as (nx & Hnx). rewrite Hnx.
    destruct (next_of_sorted _ _ _ Hsorted Hnx) as (_ & Hsucc).
    pose proof (IH (KLoop wf ev nx) w m) as H2. cbn [Pre] in H2.
    assert (HLI : LoopInv ev nx last pending w m).
    { split; [exact Hev|]. split; [|split; [exact Hrange|]].
      - intros e ->. destruct Hsucc as (He & Hlt & _). split; [exact He|]. destruct last; lia.
      - intros a Ha Hin. destruct (Hpend a Ha Hin) as (Hae & d' & Hd' & Hle). injection Hd' as <-.
        split; [exact Hae|].
        assert (a_name a <> d).
        { intros He. rewrite (Hbabs a Ha He) in Hae. cbn [abs_of a_ev] in Hae. contradiction. }
        assert (Han : In (a_name a) (names (first (ws w)))) by (apply abs_names_in; rewrite <- Hlive; exact Ha).
        destruct nx as [e|].
        + destruct Hsucc as (_ & _ & Hmin). exists e; split; [reflexivity|]. apply Hmin; [exact Han|lia].
        + specialize (Hsucc _ Han). lia. }
    specialize (H2 (conj HR (ex_intro _ _ (ex_intro _ _ (ex_intro _ _ (conj Hst HLI)))))).
    destruct (exec fixed env f (KLoop wf ev nx) w) as [[w3 r3]| |]; auto.
Qed.

(* ------------------------------------------------------------ KAct (AEmit ev), KAct (AEmitWF ev) *)
Lemma pending_none_live : forall live pending,
  (forall a, In a live -> ~ In (a_name a) pending) -> existsb (is_live live) pending = false.
Proof.
  intros live pending H. destruct (existsb (is_live live) pending) eqn:E; auto. exfalso.
  apply existsb_exists in E; destruct E as (n & Hn & Hl). unfold is_live in Hl.
  apply existsb_exists in Hl; destruct Hl as (a & Ha & He). apply Z.eqb_eq in He. subst n. eapply H; eauto.
Qed.

Lemma emit_core : forall f, Sound f -> forall wf ev w m,
  Rel w m -> app_context (m_stack m) = true -> 0 <= ev ->
  match exec fixed env f (KLoop wf ev (head_name (first (ws w))))
             (log (TEmitB wf ev) (set_state (begin_iteration (ws w)) w)) with
  | Fault => False | OutOfFuel => True
  | Ok (w2, r) => forall r',
      let w' := log (TEmitE r') (set_state (end_iteration (is_iter (ws w)) (ws w2)) w2) in
      exists m', Com w m w' m' /\ Rel w' m' /\ m_stack m' = m_stack m
  end.
Proof.
  intros f IH wf ev w m HR Hctx Hev.
  pose proof HR as [Hinv Hlive Hn Hpos Hiter _ _]. rewrite app_nil_r in Hlive.
  set (pending0 := map a_name (filter (fun a => a_ev a =? ev) (m_live m))).
  set (m1 := mkM (m_live m) (m_n m) (FEmit wf ev None pending0 false :: m_stack m)).
  set (w1 := log (TEmitB wf ev) (set_state (begin_iteration (ws w)) w)).
  assert (Hstep0 : mon_step m (TEmitB wf ev) = inl m1).
  { unfold mon_step. rewrite Hctx. reflexivity. }
  assert (HR1 : Rel w1 m1).
  { constructor; cbn [w1 log set_state ws wn m1 m_live m_n m_stack begin_iteration first is_iter]; auto.
    - apply SInv_begin; exact Hinv.
    - rewrite app_nil_r; exact Hlive. }
  assert (C01 : Com w m w1 m1).
  { split; [|split].
    - exists [TEmitB wf ev]; split; [reflexivity|]. cbn [rev app mon_run]; rewrite Hstep0; reflexivity.
    - apply mono_subset; [reflexivity|apply incl_refl].
    - intros _; apply incl_refl. }
  pose proof (si_sorted _ _ Hinv) as Hsorted.
  assert (HLI : LoopInv ev (head_name (first (ws w))) None pending0 w1 m1).
  { pose proof (head_name_sorted _ Hsorted) as Hhd.
    split; [exact Hev|]. split; [|split].
    - intros d Hd. rewrite Hd in Hhd. destruct Hhd as (Hin & _). split; [exact Hin|exact I].
    - rewrite Forall_forall. intros n Hin. unfold pending0 in Hin. apply in_map_iff in Hin.
      destruct Hin as (a & <- & Ha). apply filter_In in Ha; destruct Ha as (Ha & _).
      cbn [m1 m_n]. rewrite Hn. rewrite Hlive in Ha. eapply abs_range; [apply (si_nodes _ _ Hinv)|exact Ha].
    - cbn [m1 m_live]. intros a Ha Hin. unfold pending0 in Hin. apply in_map_iff in Hin.
      destruct Hin as (a' & Hname & Ha'). apply filter_In in Ha'; destruct Ha' as (Ha' & Hev').
      assert (a' = a).
      { eapply live_unique; eauto. rewrite Hlive. apply abs_names_sorted; exact Hsorted. }
      subst a'. apply Z.eqb_eq in Hev'. split; [exact Hev'|].
      assert (Han : In (a_name a) (names (first (ws w)))) by (apply abs_names_in; rewrite <- Hlive; exact Ha).
      destruct (head_name (first (ws w))) as [e|].
      + destruct Hhd as (_ & Hmin). exists e; split; [reflexivity|apply Hmin; exact Han].
      + rewrite Hhd in Han. destruct Han. }
  pose proof (IH (KLoop wf ev (head_name (first (ws w)))) w1 m1) as H1. cbn [Pre] in H1.
  specialize (H1 (conj HR1 (ex_intro _ _ (ex_intro _ _ (ex_intro _ _ (conj eq_refl HLI)))))).
  fold w1. destruct (exec fixed env f (KLoop wf ev (head_name (first (ws w)))) w1) as [[w2 r2]| |]; auto.
  destruct H1 as (m2 & C12 & HR2 & last2 & pend2 & cl2 & Hst2 & Hfin). cbn [m1 m_stack tl] in Hst2.
  intros r'. cbv zeta.
  set (m' := mkM (m_live m2) (m_n m2) (m_stack m)).
  assert (Hstep2 : mon_step m2 (TEmitE r') = inl m').
  { unfold mon_step. rewrite Hst2.
    replace (cl2 || negb (existsb (is_live (m_live m2)) pend2)) with true; [reflexivity|].
    destruct Hfin as [->|Hnone]; [reflexivity|]. rewrite pending_none_live by exact Hnone.
    destruct cl2; reflexivity. }
  assert (Hit2 : is_iter (ws w2) = true) by (rewrite (rel_iter _ _ HR2), Hst2; reflexivity).
  destruct C01 as (S01 & M01 & K01). destruct C12 as (S12 & M12 & K12).
  exists m'. split; [split; [|split]|split].
  - eapply steps_trans; [exact S01|]. eapply steps_trans; [exact S12|].
    exists [TEmitE r']; split; [reflexivity|]. cbn [rev app mon_run]; rewrite Hstep2; reflexivity.
  - eapply mono_trans; [exact M01|]. eapply mono_trans; [exact M12|].
    apply mono_subset; [reflexivity|apply incl_refl].
  - intros Hw. cbn [log set_state ws]. rewrite Hw. rewrite names_end_iteration_true.
    eapply incl_tran; [apply K01; exact Hw|apply K12; reflexivity].
  - apply rel_end_iteration with m2; auto.
  - reflexivity.
Qed.

Lemma sound_emit : forall f, Sound f -> forall ev w m, Pre (KAct (AEmit ev)) w m ->
  match exec fixed env (S f) (KAct (AEmit ev)) w with
  | Fault => False | OutOfFuel => True
  | Ok (w', r) => exists m', Com w m w' m' /\ Post (KAct (AEmit ev)) m w' m' r
  end.
Proof.
  intros f IH ev w m (HR & Hctx & Hev & _). cbn [top_ok] in Hev.
  pose proof (emit_core f IH false ev w m HR Hctx Hev) as H.
  change (exec fixed env (S f) (KAct (AEmit ev)) w) with
    (rbind (exec fixed env f (KLoop false ev (head_name (first (ws w))))
                 (log (TEmitB false ev) (set_state (begin_iteration (ws w)) w)))
           (fun '(w2, _) => Ok (log (TEmitE 0) (set_state (end_iteration (is_iter (ws w)) (ws w2)) w2), 0))).
  destruct (exec fixed env f (KLoop false ev (head_name (first (ws w))))
                 (log (TEmitB false ev) (set_state (begin_iteration (ws w)) w))) as [[w2 r2]| |]; cbn [rbind]; auto.
  destruct (H 0) as (m' & C & HR' & Hst'). exists m'; split; [exact C|]. cbn [Post]; auto.
Qed.

Lemma sound_emitwf : forall f, Sound f -> forall ev w m, Pre (KAct (AEmitWF ev)) w m ->
  match exec fixed env (S f) (KAct (AEmitWF ev)) w with
  | Fault => False | OutOfFuel => True
  | Ok (w', r) => exists m', Com w m w' m' /\ Post (KAct (AEmitWF ev)) m w' m' r
  end.
Proof.
  intros f IH ev w m (HR & Hctx & Hev & _). cbn [top_ok] in Hev.
  pose proof (emit_core f IH true ev w m HR Hctx Hev) as H.
  change (exec fixed env (S f) (KAct (AEmitWF ev)) w) with
    (rbind (exec fixed env f (KLoop true ev (head_name (first (ws w))))
                 (log (TEmitB true ev) (set_state (begin_iteration (ws w)) w)))
           (fun '(w2, ret) => Ok (log (TEmitE ret) (set_state (end_iteration (is_iter (ws w)) (ws w2)) w2), ret))).
  destruct (exec fixed env f (KLoop true ev (head_name (first (ws w))))
                 (log (TEmitB true ev) (set_state (begin_iteration (ws w)) w))) as [[w2 r2]| |]; cbn [rbind]; auto.
  destruct (H r2) as (m' & C & HR' & Hst'). exists m'; split; [exact C|]. cbn [Post]; auto.
Qed.

(* ------------------------------------------------------------ KDestroy *)
Lemma exec_kdestroy : forall f w, exec fixed env (S f) KDestroy w =
  match first (ws w) with
  | [] => Ok (w, 0)
  | _ :: _ =>
      let l := first (ws w) in
      let b := last l (mkB 0 0 0 None 0) in
      let w0 := set_state (mkS (removelast l) (is_iter (ws w)) (needs_del (ws w))) w in
      let notify := (b_ev b =? 0) || has (b_flags b) (BIND_UNBIND + BIND_DESTROY) in
      rbind (if notify
             then exec fixed env f (KCall (b_fn b) (b_data b) (EV_UNBIND + EV_DESTROY))
                       (log (TCallB (b_data b) (EV_UNBIND + EV_DESTROY)) w0)
             else Ok (w0, 0))
            (fun '(w1, _) => exec fixed env f KDestroy w1)
  end.
Proof. reflexivity. Qed.

Lemma find_live_mid : forall l1 a l2, (forall x, In x l1 -> a_name x <> a_name a) ->
  find_live (a_name a) (l1 ++ a :: l2) = Some a.
Proof.
  induction l1 as [|x l1 IH]; intros a l2 H; unfold find_live; cbn [app find].
  - rewrite Z.eqb_refl; reflexivity.
  - destruct (a_name x =? a_name a) eqn:E.
    + apply Z.eqb_eq in E. exfalso; apply (H x); cbn; auto.
    + apply IH. intros y Hy; apply H; cbn; auto.
Qed.

Lemma filter_all : forall (A : Type) (f : A -> bool) l, (forall x, In x l -> f x = true) -> filter f l = l.
Proof.
  induction l as [|a l IH]; intros H; [reflexivity|]. cbn [filter]. rewrite (H a) by (cbn; auto).
  f_equal; apply IH; intros; apply H; cbn; auto.
Qed.

Lemma filter_none : forall (A : Type) (f : A -> bool) l, (forall x, In x l -> f x = false) -> filter f l = [].
Proof.
  induction l as [|a l IH]; intros H; [reflexivity|]. cbn [filter]. rewrite (H a) by (cbn; auto).
  apply IH; intros; apply H; cbn; auto.
Qed.

Lemma sound_kdestroy : forall f, Sound f -> forall w m, Pre KDestroy w m ->
  match exec fixed env (S f) KDestroy w with
  | Fault => False | OutOfFuel => True
  | Ok (w', r) => exists m', Com w m w' m' /\ Post KDestroy m w' m' r
  end.
Proof.
  intros f IH w m ((zs & HR) & Hst). rewrite exec_kdestroy.
  destruct (first (ws w)) as [|b0 l0] eqn:El.
  - exists m; split; [apply com_refl|]. cbn [Post]. split; [exists zs; exact HR|]. split; [exact Hst|exact El].
  - cbv zeta. rewrite <- El.
    pose proof HR as [Hinv Hlive Hn Hpos Hiter Hquiet Hafter].
    assert (Hne : first (ws w) <> []) by (rewrite El; discriminate).
    set (b := last (first (ws w)) (mkB 0 0 0 None 0)).
    set (l' := removelast (first (ws w))).
    assert (Hl : first (ws w) = l' ++ [b]) by (apply app_removelast_last; exact Hne).
    assert (Hit : is_iter (ws w) = false) by (rewrite Hiter, Hst; reflexivity).
    pose proof (si_del _ _ Hinv (si_iter _ _ Hinv Hit)) as Hall.
    rewrite Hl, forallb_app in Hall. apply andb_true_iff in Hall; destruct Hall as (Hall' & Hlb).
    cbn [forallb] in Hlb. rewrite andb_true_r in Hlb.
    pose proof (si_nodes _ _ Hinv) as Hnodes. rewrite Hl in Hnodes. apply Forall_app in Hnodes.
    destruct Hnodes as (Hnodes' & Hnb). inversion Hnb as [|? ? Hnb' _]; subst.
    pose proof (si_sorted _ _ Hinv) as Hsorted. rewrite Hl in Hsorted. unfold names in Hsorted.
    rewrite map_app in Hsorted. apply sorted_app_inv in Hsorted. destruct Hsorted as (Hsorted' & _ & Hlt).
    assert (Hbefore : forall x, In x l' -> b_data x < b_data b).
    { intros x Hx. apply Hlt; [apply in_map; exact Hx|cbn; auto]. }
    set (s0 := mkS l' (is_iter (ws w)) (needs_del (ws w))).
    assert (Hinv0 : SInv (wn w) s0).
    { constructor; cbn [s0 first is_iter needs_del]; auto.
      - pose proof (si_ids _ _ Hinv) as Hids. rewrite Hl, filter_app, map_app in Hids.
        cbn [filter] in Hids. rewrite Hlb in Hids. cbn [map] in Hids.
        apply NoDup_remove_1 in Hids. rewrite app_nil_r in Hids. exact Hids.
      - apply (si_iter _ _ Hinv). }
    assert (Habs : abs_list (first (ws w)) = abs_list l' ++ [abs_of b]).
    { rewrite Hl, abs_list_app. f_equal. unfold abs_list; cbn [filter]. rewrite Hlb. reflexivity. }
    set (w0 := set_state s0 w).
    set (notify := (b_ev b =? 0) || has (b_flags b) (BIND_UNBIND + BIND_DESTROY)).
    assert (Hasked : asked_destroy (abs_of b) = notify).
    { unfold asked_destroy, notify; cbn [abs_of a_ev a_flags]. rewrite has_or, orb_assoc. reflexivity. }
    (* the step for this node *)
    assert (Hmid : match (if notify
                          then exec fixed env f (KCall (b_fn b) (b_data b) (EV_UNBIND + EV_DESTROY))
                                    (log (TCallB (b_data b) (EV_UNBIND + EV_DESTROY)) w0)
                          else Ok (w0, 0)) with
                   | Fault => False | OutOfFuel => True
                   | Ok (w1, _) => exists m1, Com w m w1 m1 /\ (exists zs1, RelD w1 m1 zs1) /\ m_stack m1 = [FDestroy]
                   end).
    { destruct notify eqn:En.
      - set (m1 := mkM (abs_list l') (m_n m) [FCall; FDestroy]).
        assert (Hxs : forall x, In x (abs_list l') -> a_name x < b_data b).
        { intros x Hx. apply abs_in_live in Hx; destruct Hx as (b' & Hb' & _ & ->). cbn [abs_of a_name]. auto. }
        assert (Hzs : forall z, In z zs -> b_data b < a_name z).
        { intros z Hz. rewrite Forall_forall in Hafter. specialize (Hafter _ Hz). rewrite Forall_forall in Hafter.
          apply Hafter. rewrite Hl. apply in_or_app; right; cbn; auto. }
        assert (Hstep : mon_step m (TCallB (b_data b) (EV_UNBIND + EV_DESTROY)) = inl m1).
        { unfold mon_step. rewrite Hst, Hlive, Habs, <- app_assoc. cbn [app].
          change (b_data b) with (a_name (abs_of b)) at 1. rewrite find_live_mid.
          2:{ intros x Hx. specialize (Hxs _ Hx). cbn [abs_of a_name]. lia. }
          rewrite Hasked, Z.eqb_refl. cbn [negb].
          replace (existsb _ (abs_list l' ++ abs_of b :: zs)) with false.
          2:{ symmetry. apply not_true_is_false. intros Hex. apply existsb_exists in Hex.
              destruct Hex as (x & Hx & Hc). apply andb_true_iff in Hc; destruct Hc as (Hc1 & Hc2).
              apply Z.ltb_lt in Hc1. apply in_app_or in Hx. destruct Hx as [Hx|[<-|Hx]].
              - specialize (Hxs _ Hx); lia.
              - cbn [abs_of a_name] in Hc1; lia.
              - rewrite Forall_forall in Hquiet. rewrite (Hquiet _ Hx) in Hc2. discriminate. }
          unfold m1. f_equal. f_equal. rewrite filter_app. cbn [filter abs_of a_name]. rewrite Z.ltb_irrefl.
          rewrite filter_all, filter_none, app_nil_r; auto.
          - intros z Hz. apply Z.ltb_ge. specialize (Hzs _ Hz). lia.
          - intros x Hx. apply Z.ltb_lt. apply Hxs; exact Hx. }
        set (w1 := log (TCallB (b_data b) (EV_UNBIND + EV_DESTROY)) w0).
        assert (HR1 : Rel w1 m1).
        { constructor; cbn [w1 w0 log set_state ws wn m1 m_live m_n m_stack s0 first is_iter needs_del]; auto.
          rewrite app_nil_r; reflexivity. }
        assert (Hfn : b_fn b <> None) by (destruct Hnb' as (_ & Hlv & _); apply Hlv; exact Hlb).
        pose proof (IH (KCall (b_fn b) (b_data b) (EV_UNBIND + EV_DESTROY)) w1 m1) as H1. cbn [Pre] in H1.
        specialize (H1 (conj Hfn (conj HR1 (ex_intro _ _ eq_refl)))).
        destruct (exec fixed env f (KCall (b_fn b) (b_data b) (EV_UNBIND + EV_DESTROY)) w1) as [[w2 r2]| |]; auto.
        destruct H1 as (m2 & C12 & HR2 & Hst2). cbn [Post m1 m_stack tl ret_stack] in Hst2.
        exists m2. split; [|split; [exists []; exact HR2|exact Hst2]].
        eapply com_trans; [|exact C12|].
        + split; [|split].
          * exists [TCallB (b_data b) (EV_UNBIND + EV_DESTROY)]; split; [reflexivity|].
            cbn [rev app mon_run]; rewrite Hstep; reflexivity.
          * apply mono_subset; [reflexivity|]. cbn [m1 m_live]. rewrite Hlive, Habs.
            intros x Hx. apply in_or_app; left. apply in_or_app; left; exact Hx.
          * intros Hi; rewrite Hit in Hi; discriminate.
        + intros Hi; rewrite Hit in Hi; discriminate.
      - exists m. split; [|split; [|exact Hst]].
        + split; [apply steps_same_trace; reflexivity|split; [apply mono_refl|]].
          intros Hi; rewrite Hit in Hi; discriminate.
        + exists (abs_of b :: zs). constructor; cbn [w0 set_state ws wn s0 first is_iter needs_del]; auto.
          * rewrite Hlive, Habs, <- app_assoc. reflexivity.
          * constructor.
            -- rewrite Forall_forall. intros x Hx. cbn [abs_of a_name]. auto.
            -- rewrite Forall_forall in *. intros z Hz. specialize (Hafter _ Hz). rewrite Forall_forall in *.
               intros x Hx. apply Hafter. rewrite Hl. apply in_or_app; left; exact Hx. }
    fold b l' s0 w0 notify.
    destruct (if notify
              then exec fixed env f (KCall (b_fn b) (b_data b) (EV_UNBIND + EV_DESTROY))
                        (log (TCallB (b_data b) (EV_UNBIND + EV_DESTROY)) w0)
              else Ok (w0, 0)) as [[w1 r1]| |]; cbn [rbind]; auto.
    destruct Hmid as (m1 & C01 & HR1 & Hst1).
    pose proof (IH KDestroy w1 m1) as H2. cbn [Pre] in H2. specialize (H2 (conj HR1 Hst1)).
    destruct (exec fixed env f KDestroy w1) as [[w2 r2]| |]; auto.
    destruct H2 as (m2 & C12 & HP). exists m2. split; [|exact HP].
    eapply com_trans; [exact C01|exact C12|]. intros Hi; rewrite Hit in Hi; discriminate.
Qed.

(* ------------------------------------------------------------ KAct ADestroy *)
Lemma sound_destroy : forall f, Sound f -> forall w m, Pre (KAct ADestroy) w m ->
  match exec fixed env (S f) (KAct ADestroy) w with
  | Fault => False | OutOfFuel => True
  | Ok (w', r) => exists m', Com w m w' m' /\ Post (KAct ADestroy) m w' m' r
  end.
Proof.
  intros f IH w m (HR & _ & _ & Hst). specialize (Hst eq_refl).
  change (exec fixed env (S f) (KAct ADestroy) w) with
    (rbind (exec fixed env f KDestroy (log TDestroyB w)) (fun '(w1, _) => Ok (log TDestroyE w1, 0))).
  set (m1 := mkM (m_live m) (m_n m) [FDestroy]).
  assert (Hstep : mon_step m TDestroyB = inl m1) by (unfold mon_step; rewrite Hst; reflexivity).
  assert (HR1 : RelD (log TDestroyB w) m1 []).
  { eapply relD_change; [exact HR| | | | |]; try reflexivity. cbn [m1 m_stack]. rewrite Hst. reflexivity. }
  pose proof (IH KDestroy (log TDestroyB w) m1) as H1. cbn [Pre] in H1.
  specialize (H1 (conj (ex_intro _ _ HR1) eq_refl)).
  destruct (exec fixed env f KDestroy (log TDestroyB w)) as [[w2 r2]| |]; cbn [rbind]; auto.
  destruct H1 as (m2 & C12 & (zs2 & HR2) & Hst2 & Hempty).
  pose proof HR2 as [Hinv2 Hlive2 Hn2 Hpos2 Hiter2 Hquiet2 _].
  rewrite Hempty in Hlive2. cbn [abs_list filter map app] in Hlive2.
  set (m' := mkM [] (m_n m2) []).
  assert (Hstep2 : mon_step m2 TDestroyE = inl m').
  { unfold mon_step. rewrite Hst2, Hlive2.
    replace (existsb asked_destroy zs2) with false; [reflexivity|].
    symmetry. apply not_true_is_false. intros Hex. apply existsb_exists in Hex. destruct Hex as (z & Hz & Ha).
    rewrite Forall_forall in Hquiet2. rewrite (Hquiet2 _ Hz) in Ha. discriminate. }
  assert (Hit : is_iter (ws w) = false) by (rewrite (rel_iter _ _ HR), Hst; reflexivity).
  exists m'. split.
  - eapply com_trans; [apply com_log; [exact Hstep|reflexivity|apply incl_refl]| |].
    + eapply com_trans; [exact C12|apply com_log; [exact Hstep2|reflexivity|]|].
      * intros x [].
      * cbn [log ws]. intros Hi; rewrite Hit in Hi; discriminate.
    + cbn [log ws]. auto.
  - cbn [Post]. split; [|cbn [m' m_stack]; symmetry; exact Hst].
    constructor; cbn [log ws wn m' m_live m_n m_stack]; auto.
    + rewrite Hempty. reflexivity.
    + rewrite Hiter2, Hst2. reflexivity.
Qed.

(* ------------------------------------------------------------ all together *)
Lemma sound_all : forall fuel, Sound fuel.
Proof.
  induction fuel as [|f IH]; intros t w m HP; [exact I|].
  destruct t as [fn name flags|acts|a|wf ev cur|].
  - apply sound_call; assumption.
  - apply sound_acts; assumption.
  - destruct a as [ev flags hid|id|ev|ev|].
    + apply sound_bind; assumption.
    + apply sound_unbind; assumption.
    + apply sound_emit; assumption.
    + apply sound_emitwf; assumption.
    + apply sound_destroy; assumption.
  - apply sound_loop; assumption.
  - apply sound_kdestroy; assumption.
Qed.

End Sound.

(* ------------------------------------------------------------ the top level *)
Lemma rel_init : Rel init_world init_mstate.
Proof.
  constructor; cbn; auto; try lia.
  constructor; cbn; auto; constructor.
Qed.

Theorem run_sound : forall env, env_ok env -> forall ops, Forall top_ok ops -> forall fuel,
  match run fixed env fuel ops with
  | Fault => False
  | OutOfFuel => True
  | Ok (w, _) => verdict (rev (wt w)) = None /\ swept (ws w) = true /\ ids_ok (ws w) = true
  end.
Proof.
  intros env Henv ops Hops fuel. unfold run.
  pose proof (sound_all env Henv fuel (KActs ops) init_world init_mstate) as H. cbn [Pre] in H.
  assert (Hok : Forall (act_ok (m_stack init_mstate)) ops).
  { eapply Forall_impl; [|exact Hops]. intros a Ha; split; auto. }
  specialize (H (conj rel_init (conj eq_refl Hok))).
  destruct (exec fixed env fuel (KActs ops) init_world) as [[w r]| |]; auto.
  destruct H as (m' & ((evs & Hevs & Hrun) & _ & _) & HR & Hst). cbn [Post init_mstate m_stack] in *.
  cbn [init_world wt] in Hevs. rewrite app_nil_r in Hevs. subst evs.
  destruct HR as [Hinv Hlive Hn Hpos Hiter _ _].
  assert (Hit : is_iter (ws w) = false) by (rewrite Hiter, Hst; reflexivity).
  pose proof (si_iter _ _ Hinv Hit) as Hnd. pose proof (si_del _ _ Hinv Hnd) as Hall.
  split; [|split].
  - unfold verdict. rewrite Hrun, Hst. reflexivity.
  - unfold swept. rewrite Hit, Hnd. fold live. rewrite Hall. reflexivity.
  - unfold ids_ok, live_ids. fold live. apply andb_true_iff; split.
    + apply forallb_forall. intros i Hi. apply in_map_iff in Hi. destruct Hi as (b & <- & Hb).
      apply filter_In in Hb. destruct Hb as (Hb & Lv). pose proof (si_nodes _ _ Hinv) as Hnodes.
      rewrite Forall_forall in Hnodes. destruct (Hnodes _ Hb) as (_ & Hl & _). apply Z.ltb_lt. apply Hl; exact Lv.
    + pose proof (si_ids _ _ Hinv) as Hids. induction Hids as [|x l Hx Hl IHl]; [reflexivity|].
      cbn [nodupZ]. rewrite memZ_false by exact Hx. exact IHl.
Qed.
