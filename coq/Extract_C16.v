From Coq Require Extraction.
From Coq Require Import ExtrOcamlBasic.
From Tickit Require Import BindDefs BindSpec.
Extraction "mC16.ml" exec init_world fixed pinned mon_run mon_step init_mstate verdict swept ids_ok.
