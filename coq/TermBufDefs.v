(* TermBufDefs.v -- term.c's OUTPUT path under the operations of C12: when the driver is started, and which
   bytes have reached the output function / fd by the end of each call.

     tickit_term_build without an output          state UNSTARTED, nothing can be delivered
     tickit_term_set_output_func / _fd            attaches the output; if UNSTARTED: the driver's start()
                                                  (its queries, then tickit_term_flush), state STARTING
     tickit_term_set_output_buffer(len)           frees the old buffer (its content is NOT flushed), len = 0: none
     write_str                                    into the buffer, which is flushed whenever it is full; without a
                                                  buffer straight to the output; without an output: dropped
     tickit_term_flush                            hands the buffer to the output (dropped if there is none)
     tickit_term_teardown                         the driver's stop() if started, THEN tickit_term_flush
     tickit_term_destroy                          teardown, the driver's destroy, tickit_term_flush
     tickit_term_pause / resume, setctl, setpen   write through write_str, no flush

   start() of the xterm driver does not touch the mode shadow: settings made before the output is attached
   stay recorded (their bytes wait in the buffer and are delivered by start()'s flush).
   Definitions only; [b_t] is the terminal object of XtermDefs / XtermModeSpec. *)
From Coq Require Import ZArith List Bool.
From Tickit Require Import Csi TermPenDefs XtermDefs XtermModeSpec.
Import ListNotations.
Local Open Scope Z_scope.

Record bterm := mkB {
  b_t : term;
  b_out : bool;          (* an output function or fd is attached *)
  b_cap : Z;             (* outbuffer_len, 0 = no buffer *)
  b_pend : list Z        (* outbuffer[0 .. outbuffer_cur) *)
}.

Inductive bop :=
| BOp (o : mop)          (* the calls of XtermModeSpec *)
| BBuffer (len : Z)      (* tickit_term_set_output_buffer *)
| BAttach                (* tickit_term_set_output_func / tickit_term_set_output_fd *)
| BFlush.                (* tickit_term_flush *)

(* write_str: the loop fills the buffer and flushes it each time it is full; what is left is
   (outbuffer_cur + len) mod outbuffer_len bytes *)
Definition bwrite (b : bterm) (bs : list Z) : bterm * list Z :=
  if 0 <? b_cap b then
    let total := b_pend b ++ bs in
    let keep := Z.to_nat (Z.of_nat (length total) mod b_cap b) in
    let ndel := (length total - keep)%nat in
    (mkB (b_t b) (b_out b) (b_cap b) (skipn ndel total), if b_out b then firstn ndel total else [])
  else (b, if b_out b then bs else []).

Definition bflush (b : bterm) : bterm * list Z :=
  (mkB (b_t b) (b_out b) (b_cap b) [], if b_out b then b_pend b else []).

Definition with_t (b : bterm) (t : term) : bterm := mkB t (b_out b) (b_cap b) (b_pend b).

(* one call: new state, bytes delivered to the output during the call, result *)
Definition bstep (b : bterm) (op : bop) : option (bterm * list Z * option Z) :=
  match op with
  | BOp o =>
      match mode_step (b_t b) o with
      | None => None
      | Some (t', ts, v) =>
          let '(b1, d1) := bwrite (with_t b t') (render ts) in
          match o with
          | OTeardown | ODestroy => let '(b2, d2) := bflush b1 in Some (b2, d1 ++ d2, v)
          | _ => Some (b1, d1, v)
          end
      end
  | BBuffer len => Some (mkB (b_t b) (b_out b) len [], [], None)
  | BAttach =>
      let t := b_t b in
      if t_started t then Some (mkB t true (b_cap b) (b_pend b), [], None)
      else
        let b0 := mkB (mkTerm (t_drv t) true (t_pen t) (t_lines t) (t_cols t)) true (b_cap b) (b_pend b) in
        let '(b1, d1) := bwrite b0 (render xt_start) in
        let '(b2, d2) := bflush b1 in
        Some (b2, d1 ++ d2, None)
  | BFlush => let '(b1, d1) := bflush b in Some (b1, d1, None)
  end.

(* a terminal object fresh from tickit_term_new_for_termtype: no output, no buffer, not started *)
Definition bterm_new (d : xdrv) (lines cols : Z) : bterm :=
  mkB (mkTerm d false empty_pen lines cols) false 0 [].
