(* Property C18: a delivered signal or ready descriptor always reaches its watchers.
   This file contains nothing but the property theorems, each closed by [exact <lemma>] and
   followed by Print Assumptions.

   What is theorem and what is hypothesis.  The kernel is not verified: LoopSigDefs.ppoll IS
   the stated contract -- a watched signal raised outside ppoll stays blocked (kpend); a ppoll
   that finds no ready descriptor hands all of them, and those arriving during the wait, to the
   loop's handler and fails with EINTR; ready descriptors take precedence; revents is written
   for every slot.  Under that contract the theorems below hold for EVERY script, callback
   environment, errno side effect and arrival point.  Overall level: "partial".

   One specification.  LoopSigSpec.xspec_run is the snapshot specification (no errno, no
   revents table, no pending set inside the loop: an identity snapshot of the IO watches taken
   at ppoll, identity snapshots of the watchers of each delivered signal, each still live at
   its turn).  C18_refines: for every callback environment and script (hypothesis act_ok:
   registered descriptors are >= 0 -- nothing else: callbacks may cancel and register any watch,
   watches of the signal being dispatched included; such a watch is passed over by the walk
   under way, fixes/C18-sigwatch-walk-snapshot.patch) and every ppoll outcome stream, the iteration model of the repaired loop -- slot table with revents,
   handler's pending set, errno latch, cursor walk -- produces exactly the specification's log,
   and never takes one of its "cannot happen" branches (it answers None only when it is given
   too little fuel).  C18_all_watchers_invoked is the same statement for one call of
   dispatch_signals, for callbacks that cancel and register watches (self-cancel, cancel of
   the next watcher, registration of watches of other signals included).  The remaining
   theorems are consequences or statements about single steps kept for their own sake:
   C18_signal_reaches (nothing the handler recorded survives an iteration -- which is exactly
   what fails on the pinned code), C18_interrupted_iteration_dispatches,
   C18_all_watchers_invoked_passive (explicit log for callbacks that leave the signal watch
   list alone), C18_kernel_pending_delivered, C18_cancelled_not_invoked, C18_io_exact (with
   C18_table_consistent, C18_poll_reports, C18_new_slot_silent), and the two refutations of
   the pinned behaviour.  Implementation = model is tested (correspondence), not proved. *)
From Coq Require Import ZArith List.
From Tickit Require Import LoopDefs LoopSigDefs LoopSigProofs LoopSigIO LoopSigSpec LoopSigRefine LoopSigSlots LoopPipeDefs LoopPipeProofs LoopPipeSnap LoopPipeRefine.
Import ListNotations.
Local Open Scope Z_scope.

(* at the end of every iteration (indeed after every step of every script) the set of signals
   recorded by the handler and not yet dispatched is empty: whatever arrived has been handed
   to dispatch_signals in the same iteration, whatever the callbacks did to errno *)
Theorem C18_signal_reaches : forall env fuel ops s',
  srun_ops fixed_cfg env fuel ops = Some s' -> pending s' = [].
Proof. exact signal_reaches. Qed.
Print Assumptions C18_signal_reaches.

(* a pass of the loop (of tickit_tick, or any pass of tickit_run) whose ppoll was interrupted
   reaches dispatch_signals -- after the deferred callbacks, whatever they did to errno AND
   whether or not one of them called tickit_stop -- with everything the handler recorded ... *)
Theorem C18_interrupted_iteration_dispatches : forall env fuel sleep s s2,
  ppoll (before_poll sleep s) = (-1, s2) ->
  iteration fixed_cfg env fuel sleep s = dispatch_signals fixed_cfg env fuel (invoke_laters fixed_cfg env s2) /\
  pending (invoke_laters fixed_cfg env s2) = pending s2.
Proof. exact iteration_interrupted. Qed.
Print Assumptions C18_interrupted_iteration_dispatches.

(* the scripts of C18_signal_reaches / C18_refines include the action SStop (tickit_stop from any
   callback) and the operation SRunLoop (tickit_run: passes until stopped).  The seeded loop
   that leaves right after the deferred callbacks when one of them stopped it is refuted: the
   signal that interrupted that very ppoll stays recorded and its watcher is never called *)
Theorem C18_signal_reaches_refuted_stop_early :
  exists s', srun_ops stop_early_cfg wstop_env 100 wstop_ops = Some s' /\ pending s' = [10] /\
             forall e, In (OEv e) (slog s') -> e_kind e <> KSig.
Proof. exact signal_reaches_refuted_stop_early. Qed.
Print Assumptions C18_signal_reaches_refuted_stop_early.

Theorem C18_stop_witness_fixed :
  srun fixed_cfg wstop_env 100 wstop_ops =
    Some [OPoll 0; OEv (mkE 1 KLater 3 1 0 0); OEv (mkE 0 KSig 1 1 0 10); OPoll 0; OPoll 0].
Proof. exact stop_witness_fixed. Qed.
Print Assumptions C18_stop_witness_fixed.

(* the iteration model refines the snapshot specification: same log for every script and every
   ppoll outcome stream (SReady / SArrive / SRaise place the outcomes), with enough fuel *)
Theorem C18_refines : forall env, env_ok env -> forall ops, Forall op_ok ops ->
  exists f0, forall fuel, (f0 <= fuel)%nat -> srun fixed_cfg env fuel ops = Some (xspec_run env ops).
Proof. exact refines_xspec. Qed.
Print Assumptions C18_refines.

(* a callback environment in which the first of three watchers of signal 10 cancels its own watch
   and the next one and registers a further watch of signal 10 (not invoked by the dispatch under
   way; invoked at the next delivery) and a deferred callback that raises the signal again;
   model = specification = the log shown *)
Theorem C18_refines_witness :
  env_ok wr_env /\ Forall op_ok wr_ops /\
  srun fixed_cfg wr_env 50 wr_ops = Some (xspec_run wr_env wr_ops) /\
  xspec_run wr_env wr_ops =
    [OPoll (-1); OEv (mkE 0 KSig EV_FIRE 1 0 10); OEv (mkE 2 KSig EV_FIRE 1 0 10);
     OPoll 0; OEv (mkE 4 KLater (EV_FIRE + EV_UNBIND) 2 0 0);
     OPoll 0; OEv (mkE 2 KSig EV_FIRE 3 0 10); OEv (mkE 3 KSig EV_FIRE 3 0 10);
     OEv (mkE 2 KSig (EV_UNBIND + EV_DESTROY) (-1) 0 10)].
Proof. exact (conj wr_env_ok (conj wr_ops_ok refines_witness)). Qed.
Print Assumptions C18_refines_witness.

(* every script reaches a state that satisfies the invariant J (table consistent, identities
   unique and below the counter, every IO watch owns its slot), with no batch of deferred
   callbacks being run and nothing recorded by the handler *)
Theorem C18_invariant_reachable : forall env, env_ok env -> forall ops, Forall op_ok ops ->
  exists s, J s /\ drun s = [] /\ pending s = [] /\
  exists f0, forall fuel, (f0 <= fuel)%nat -> srun_ops fixed_cfg env fuel ops = Some s.
Proof. exact reach_J. Qed.
Print Assumptions C18_invariant_reachable.

(* ... and dispatch_signals takes the recorded signals in ascending order; for each, the watches
   of that signal that are in the list at that moment are visited in registration order, and
   each one that is still live when its turn comes is invoked exactly once (x_run_sigs is the
   executable form of this sentence) -- for callbacks that cancel and register whatever they
   like, their own watch and the next one and further watches of the signal being dispatched
   included (those wait for the next delivery).  The walk always terminates and never meets a
   freed watch. *)
Theorem C18_all_watchers_invoked : forall env, env_ok env -> forall s, J s ->
  exists s', (xabs s' = x_run_sigs env (sort_z (pending s)) (xabs s) /\ pending s' = [] /\ J s') /\
  exists f0, forall fuel, (f0 <= fuel)%nat -> dispatch_signals fixed_cfg env fuel s = Some s'.
Proof. exact dispatch_invokes_live. Qed.
Print Assumptions C18_all_watchers_invoked.

(* the same with the log written out, for signal callbacks that do not themselves cancel or
   register signal watches (they may set errno, raise signals, register deferred callbacks and
   IO watches); holds for both configurations *)
Theorem C18_all_watchers_invoked_passive : forall c env fuel s,
  NoDup (map g_id (sgws s)) ->
  (forall v, In v (sgws s) -> 0 <= g_id v < snext s) ->
  (forall v, In v (sgws s) -> forallb sig_quiet (env (g_cb v)) = true) ->
  (length (sgws s) + 1 < fuel)%nat ->
  exists s', dispatch_signals c env fuel s = Some s' /\
             slog s' = rev (invoked s (sort_z (pending s))) ++ slog s /\ pending s' = [] /\ sgws s' = sgws s.
Proof. exact dispatch_invokes_all. Qed.
Print Assumptions C18_all_watchers_invoked_passive.

(* ---- evloop_signal / evloop_cancel_signal: the table signums[] with slot reuse, the set
   watched_signals, and the range of signal numbers dispatch_signals walks (LoopSigSlots.v).
   After ANY history of registrations and cancellations watched_signals is exactly the set of
   signals with a live watch (this is what the main model's is_watched assumes), and the walk
   over 1 .. NSIG-1 hands every recorded signal that still has a watcher to the watchers *)
Theorem C18_watched_signals_exact : forall ops sg, Forall gop_ok ops ->
  (In sg (g_watched (g_run ops)) <-> exists w, In w (g_live (g_run ops)) /\ sw_sig w = sg).
Proof. exact watched_spec. Qed.
Print Assumptions C18_watched_signals_exact.

Theorem C18_dispatch_covers : forall ops pending sg, Forall gop_ok ops -> 1 <= sg < NSIG -> In sg pending ->
  (exists w, In w (g_live (g_run ops)) /\ sw_sig w = sg) -> In sg (dispatched false (g_run ops) pending).
Proof. exact dispatch_covers. Qed.
Print Assumptions C18_dispatch_covers.

(* the seeded bound max_signum, raised where a slot is appended but not where one is reused:
   SIGWINCH (28) first (tickit_build), one tickit_run (its SIGINT watch takes a slot and frees it),
   then SIGSYS (31) into the freed slot -- watched, recorded, never looked at *)
Theorem C18_refuted_max_signum :
  In 31 (g_watched (g_run wmax_ops)) /\ g_max (g_run wmax_ops) = 28 /\
  dispatched true (g_run wmax_ops) [31] = [] /\ dispatched false (g_run wmax_ops) [31] = [31].
Proof. exact max_signum_refuted. Qed.
Print Assumptions C18_refuted_max_signum.

(* a ppoll that reports no ready descriptor leaves nothing pending in the kernel *)
Theorem C18_kernel_pending_delivered : forall s ret s1, ppoll s = (ret, s1) -> ret <= 0 -> kpend s1 = [].
Proof. exact ppoll_delivers. Qed.
Print Assumptions C18_kernel_pending_delivered.

(* the pinned loop tests errno after the callbacks ran: witness (corpus/C18/errno.case) *)
Theorem C18_signal_reaches_refuted_pinned :
  exists s', srun_ops pinned_cfg w24_env 100 w24_ops = Some s' /\ pending s' = [10] /\
             forall e, In (OEv e) (slog s') -> e_kind e <> KSig.
Proof. exact signal_reaches_refuted_pinned. Qed.
Print Assumptions C18_signal_reaches_refuted_pinned.

(* once a watch is gone -- cancelled by any callback or by the program, or a deferred callback
   that has had its turn -- nothing invokes it any more, in this iteration or a later one;
   and cancelling a live IO or signal watch makes it gone.  Holds for both configurations. *)
Theorem C18_cancelled_not_invoked : forall c env id fuel ops s s', 0 <= id -> dead s id ->
  fold_left (sdo_op c env fuel) ops (Some s) = Some s' ->
  dead s' id /\ fires id (slog s') = fires id (slog s).
Proof. exact gone_never_invoked. Qed.
Print Assumptions C18_cancelled_not_invoked.

Theorem C18_cancel_io_gone : forall s id w, find_iow id (iows s) = Some w -> NoDup (live_ids s) -> id < snext s ->
  dead (scancel s id) id.
Proof. exact scancel_io_dead. Qed.
Print Assumptions C18_cancel_io_gone.

Theorem C18_cancel_signal_gone : forall s id w, find_iow id (iows s) = None -> find_sgw id (sgws s) = Some w ->
  memz (g_sig w) (kpend s) = false -> NoDup (live_ids s) -> id < snext s ->
  dead (scancel s id) id.
Proof. exact scancel_sig_dead. Qed.
Print Assumptions C18_cancel_signal_gone.

(* IO watches are invoked with exactly the conditions reported ready for their descriptor: in
   an iteration whose ppoll reported ready descriptors, everything the dispatch loop logs for an
   IO watch is the invocation of a watch that was live when ppoll returned, carrying
   cond_of_revents (reported for ITS descriptor, restricted to what its slot asked for plus
   ERR/HUP/NVAL) -- whatever the deferred callbacks and the other IO callbacks of the iteration
   cancel or register (reused and fresh slots included).  [TW]: the poll table is consistent
   with the list of live IO watches; it holds in every reachable state when the registered
   descriptors are non-negative (next theorem). *)
Theorem C18_io_exact : forall env fuel sleep s s' ret s2, TW s ->
  ppoll (before_poll sleep s) = (ret, s2) -> 0 < ret ->
  iteration fixed_cfg env fuel sleep s = Some s' ->
  sext (io_exact s2 (ready s)) (invoke_laters fixed_cfg env s2) s'.
Proof. exact io_exact_iteration. Qed.
Print Assumptions C18_io_exact.

Theorem C18_table_consistent : forall env, env_fds_ok env ->
  forall fuel ops s', Forall op_fds_ok ops -> srun_ops fixed_cfg env fuel ops = Some s' -> TW s'.
Proof. exact TW_reach. Qed.
Print Assumptions C18_table_consistent.

(* IO, first half: what ppoll leaves in a slot is what is ready for THAT slot's descriptor,
   restricted to what it asked for (plus ERR/HUP/NVAL), and nothing for a free slot *)
Theorem C18_poll_reports : forall s ret s1, ppoll s = (ret, s1) ->
  slots s1 = map (poll_slot (ready s)) (slots s).
Proof. exact ppoll_slot_exact. Qed.
Print Assumptions C18_poll_reports.

(* IO, second half: the slot a new watch is given -- reused or fresh -- holds no stale
   conditions, so the dispatch loop of the running iteration passes it by *)
Theorem C18_new_slot_silent : forall s fd cond wid s1 i,
  evloop_io fixed_cfg s fd cond wid = (s1, i) ->
  nth_error (slots s1) i = Some (mkSlot fd (events_of_cond cond) 0 wid).
Proof. exact evloop_io_resets. Qed.
Print Assumptions C18_new_slot_silent.

(* the pinned evloop_io keeps the old revents: a watch registered into the slot another one
   just left is invoked with the conditions of the other descriptor (corpus/C18/revents.case) *)
Theorem C18_io_exact_refuted_pinned :
  srun pinned_cfg w25_env 100 w25_ops =
  Some [OPoll 0; OEv (mkE 1 KLater 3 1 0 0); OEv (mkE 2 KIo 1 1 0 1)].
Proof. exact io_exact_refuted_pinned. Qed.
Print Assumptions C18_io_exact_refuted_pinned.

(* ---- the self-pipe fallback of tickit.c (event loops without a ->signal hook; LoopPipeDefs):
   signals are not blocked there, the handler records the signal and writes a wakeup byte the
   moment it is raised -- before an iteration, from a deferred callback, right after the wakeup
   read, or from inside a signal callback while on_sigpipe_readable is dispatching.
   After every step of every script a signal that is recorded and not yet handed to the
   watchers has an unread wakeup byte ... *)
Theorem C18_fallback_woken : forall env fuel ops s,
  f_run_ops false env fuel ops = Some s -> f_pend s = [] \/ (0 < f_pipe s)%nat.
Proof. exact fallback_woken. Qed.
Print Assumptions C18_fallback_woken.

(* ... so the next iteration finds the pipe readable and runs on_sigpipe_readable -- no further
   signal is needed --, with everything recorded so far (and what the deferred callbacks of that
   iteration add) still recorded when the snapshot is taken ... *)
Theorem C18_fallback_next_iteration_dispatches : forall env fuel s,
  (f_pend s = [] \/ (0 < f_pipe s)%nat) -> f_pend s <> [] ->
  exists s2, f_tick false env fuel s = f_sigpipe false env fuel s2 /\
             (forall x, In x (f_pend s) -> In x (f_pend s2)) /\ (0 < f_pipe s2)%nat.
Proof. exact fallback_next_iteration_dispatches. Qed.
Print Assumptions C18_fallback_next_iteration_dispatches.

(* ... and the snapshot the dispatch walks with is the whole pending set after the read of ONE
   wakeup byte (whatever arrives from then on keeps its own byte: C18_fallback_woken) *)
Theorem C18_fallback_snapshot : forall env fuel s,
  f_sigpipe false env fuel s =
  let s0 := f_arrivals (fu_pipe s (f_pipe s - 1)%nat) in
  f_walk env fuel (f_next s0) (match f_sgws s0 with [] => None | h :: _ => Some (g_id h) end) (f_pend s0) (fu_pend s0 []).
Proof. exact fallback_snapshot. Qed.
Print Assumptions C18_fallback_snapshot.

(* the seeded variant (read moved behind the dispatch and widened to 32 bytes): the signal a
   callback raises during the dispatch stays recorded with an empty pipe; its watcher is not
   called in the following iterations *)
Theorem C18_fallback_refuted_drain_late :
  exists s, f_run_ops true wfb_env 100 wfb_ops = Some s /\ f_pend s = [12] /\ f_pipe s = O /\
            f_run true wfb_env 100 wfb_ops = Some [OPoll 0; OEv (mkE 0 KSig 1 1 0 10); OPoll 0; OPoll 0].
Proof. exact fallback_refuted_drain_late. Qed.
Print Assumptions C18_fallback_refuted_drain_late.

(* non-vacuity: the same two scripts on the repaired loop -- the signal watcher is invoked in
   the first iteration although the deferred callback cleared errno; the new IO watch is not
   invoked for the old descriptor's readiness *)
(* the fallback model refines ITS snapshot specification (LoopPipeSnap.yspec_run: no cursor, no
   running batch; the deferred callbacks and the signal watches of a dispatch are snapshots of
   identities, each still live at its turn; a raise is recorded at once wherever it happens and
   is dispatched by the next consumed wakeup): log equality for every callback environment and
   every fallback script, no hypothesis; the model never takes a "cannot happen" branch *)
Theorem C18_fallback_refines : forall env ops,
  exists f0, forall fuel, (f0 <= fuel)%nat -> f_run false env fuel ops = Some (yspec_run env ops).
Proof. exact fallback_refines. Qed.
Print Assumptions C18_fallback_refines.

Theorem C18_fallback_refines_witness :
  f_run false wy_env 100 wy_ops = Some (yspec_run wy_env wy_ops) /\
  yspec_run wy_env wy_ops =
    [OPoll 0; OEv (mkE 0 KSig 1 1 0 10); OEv (mkE 1 KSig 1 1 0 12);
     OPoll 0; OEv (mkE 0 KSig 1 2 0 10); OEv (mkE 2 KSig 1 2 0 10);
     OPoll 0; OEv (mkE 0 KSig 1 3 0 10); OEv (mkE 2 KSig 1 3 0 10); OEv (mkE 3 KSig 1 3 0 10)].
Proof. exact fallback_refines_witness. Qed.
Print Assumptions C18_fallback_refines_witness.

Example C18_nonvacuous :
  srun fixed_cfg w24_env 100 w24_ops =
    Some [OPoll 0; OEv (mkE 1 KLater 3 1 0 0); OEv (mkE 0 KSig 1 1 0 10); OPoll 0; OPoll 0] /\
  srun fixed_cfg w25_env 100 w25_ops = Some [OPoll 0; OEv (mkE 1 KLater 3 1 0 0)] /\
  f_run false wfb_env 100 wfb_ops =
    Some [OPoll 0; OEv (mkE 0 KSig 1 1 0 10); OPoll 0; OEv (mkE 1 KSig 1 2 0 12); OPoll 0].
Proof. exact (conj signal_reaches_witness_fixed (conj io_exact_witness_fixed fallback_witness_fixed)). Qed.
