(* Property C18 (stub while the proofs are being built). *)
From Coq Require Import ZArith List.
From Tickit Require Import LoopDefs LoopSigDefs LoopSigSpec.
Import ListNotations.
Local Open Scope Z_scope.

Example C18_nonvacuous :
  srun fixed_cfg (fun _ => []) 10 [SAct (SSig 10 false 0); SAct (SRaise 10); STick false] <> Some [].
Proof. vm_compute. discriminate. Qed.
