(* Property C14: input reaches the frontmost eligible window first, in its own coordinates.
   Nothing but the property theorems, each closed by [exact <lemma>] and followed by Print
   Assumptions.

   Vocabulary: WinInput.v (the MODEL: istate = root state + freed windows + references held by
   the routing code + scripted mutations + delivery log; handle_key / handle_mouse /
   term_key / term_mouse follow src/window.c, look windows up by id in the current state and
   carry fuel, ifuel = 64), WinInputSpec.v (the SPEC: key_order, mouse_order, until_claim,
   key_spec, mouse_phase, mouse_spec with the drag state dragst, c14_rest_checkb),
   WinInputProofs.v (quiet s = no scripted mutation armed, nothing freed or pending, no fault;
   ids_unique = window ids unique in tree and detached subtrees; focus_okb t = every
   focused-child link names a child; height; dsrc_ok = the drag source, if any, is a window
   of the tree; ds_of R = the root's drag fields as a dragst; run_mouse / run_ds / last_press:
   the spec folded over a list of raw events; mk_state t mus = a fresh routing state on tree
   t with the scripted mutations mus). *)
From Coq Require Import ZArith List Bool.
From Tickit Require Import RectDefs WinRectSet WinDefs WinSpec WinInput WinInputSpec WinInputProofs WinInputMutBase WinInputMutKey WinInputMutMouse WinInputMutation.
From Tickit Require WinLogDisjoint WinShowSpec WinHideSpec WinInputMutationClaim WinInputMutationClaimKey.
Import ListNotations.
Local Open Scope Z_scope.

(* A key: the windows offered it are exactly the prefix of key_order (stealing first child,
   focus chain innermost first, the window, its other children) up to and including the
   first claimer; for every tree, claim pattern; handlers that do not mutate the tree. *)
Theorem C14_key : forall fuel claims s w wn s' r,
  quiet s -> ids_unique (i_root s) -> look s w = Some wn -> focus_okb wn = true ->
  (height wn < fuel)%nat ->
  handle_key fuel no_defects claims s w = (s', r) ->
  i_log s' = rev (key_spec claims wn) ++ i_log s /\
  r = existsb (fun x => Z.testbit (claims x) 0) (key_order wn) /\
  (r = true <-> exists x, In x (key_order wn) /\ Z.testbit (claims x) 0 = true) /\
  i_root s' = i_root s /\ i_fault s' = false /\ i_holds s' = i_holds s /\ quiet s'.
Proof. exact (@WinInputProofs.C14_key). Qed.
Print Assumptions C14_key.

Theorem C14_term_key : forall claims s,
  quiet s -> ids_unique (i_root s) -> focus_okb (r_tree (i_root s)) = true ->
  (height (r_tree (i_root s)) < ifuel)%nat ->
  i_log (term_key no_defects claims s) = rev (key_spec claims (r_tree (i_root s))) ++ i_log s /\
  i_root (term_key no_defects claims s) = i_root s /\
  i_holds (term_key no_defects claims s) = i_holds s /\
  quiet (term_key no_defects claims s).
Proof. exact (@WinInputProofs.C14_term_key). Qed.
Print Assumptions C14_term_key.

(* A mouse event: offered along mouse_order (children containing the position, or stealing,
   before the window; positions relative to the receiver) up to the first claimer. *)
Theorem C14_mouse : forall fuel claims s w wn ty btn line col s' r,
  quiet s -> ids_unique (i_root s) -> look s w = Some wn -> (height wn < fuel)%nat ->
  handle_mouse fuel no_defects claims s w ty btn line col = (s', r) ->
  i_log s' = rev (fst (mouse_phase claims (mouse_order wn line col) ty btn)) ++ i_log s /\
  r = snd (mouse_phase claims (mouse_order wn line col) ty btn) /\
  i_holds s' = i_holds s /\
  i_root s' = i_root s /\ i_fault s' = false /\ quiet s'.
Proof. exact (@WinInputProofs.C14_mouse). Qed.
Print Assumptions C14_mouse.

(* the positions are relative to the receiving window's top-left corner *)
Theorem C14_mouse_relative : forall t, forall line col w l c,
  NoDup (t_ids t) -> In (w, l, c) (mouse_order t line col) ->
  exists o, tree_origin t w = Some o /\
    l + fst o = line + top (w_rect (t_info t)) /\ c + snd o = col + left (w_rect (t_info t)).
Proof. exact (@WinInputProofs.mouse_order_relative). Qed.
Print Assumptions C14_mouse_relative.

(* one terminal mouse event: the deliveries and the new drag state are those of the
   specification's drag rules (mouse_spec) *)
Theorem C14_term_mouse : forall claims s ty btn line col,
  quiet s -> ids_unique (i_root s) -> (height (r_tree (i_root s)) < ifuel)%nat -> dsrc_ok (i_root s) ->
  let R := i_root s in
  let MS := mouse_spec claims (r_tree R) (ds_of R) ty btn line col in
  let s' := term_mouse no_defects claims s ty btn line col in
  i_log s' = rev (fst MS) ++ i_log s /\
  i_root s' = set_ds R (snd MS) /\
  ds_of (i_root s') = snd MS /\
  r_tree (i_root s') = r_tree R /\ r_orphans (i_root s') = r_orphans R /\
  i_holds s' = i_holds s /\
  i_fault s' = false /\ quiet s' /\ dsrc_ok (i_root s').
Proof. exact (@WinInputProofs.C14_term_mouse). Qed.
Print Assumptions C14_term_mouse.

Theorem C14_term_mouse_seq : forall fuel claims evs, forall s,
  quiet s -> ids_unique (i_root s) -> (height (r_tree (i_root s)) < fuel)%nat ->
  dsrc_ok (i_root s) ->
  let s' := run_term_mouse fuel claims s evs in
  i_log s' = rev (concat (run_mouse claims (r_tree (i_root s)) evs (ds_of (i_root s)))) ++ i_log s /\
  ds_of (i_root s') = run_ds claims (r_tree (i_root s)) evs (ds_of (i_root s)) /\
  r_tree (i_root s') = r_tree (i_root s) /\ i_holds s' = i_holds s /\ quiet s'.
Proof. exact (@WinInputProofs.C14_term_mouse_seq). Qed.
Print Assumptions C14_term_mouse_seq.

(* hidden windows and their descendants never receive input *)
Theorem C14_hidden_never : forall t w path n,
  NoDup (t_ids t) -> t_path w t = Some path -> In n path -> w_vis (t_info n) = false ->
  ~ In w (key_order t) /\ forall line col l c, ~ In (w, l, c) (mouse_order t line col).
Proof. exact (@WinInputProofs.C14_hidden_never). Qed.
Print Assumptions C14_hidden_never.

(* ... the synthesised drag events included: nothing is sent to a drag source that is hidden or
   lies below a hidden window (to_source_spec), and no event of a whole terminal mouse event --
   START, DRAG, OUTSIDE, DROP, STOP, RELEASE, whatever the drag state -- goes to such a window.
   (Defect C14-c, repaired: the direct delivery to the drag source looked at the source's own
   visibility only.) *)
Theorem C14_hidden_never_drag : forall claims t w path n ty btn line col,
  NoDup (t_ids t) -> t_path w t = Some path -> In n path -> w_vis (t_info n) = false ->
  to_source_spec claims t (Some w) ty btn line col = [] /\
  forall ds ty' e, raw_ty ty' -> In e (fst (mouse_spec claims t ds ty' btn line col)) -> iev_win e <> w.
Proof. exact (@WinInputProofs.C14_hidden_never_drag). Qed.
Print Assumptions C14_hidden_never_drag.

(* the drag bracket rules, for every sequence of raw events *)
Theorem C14_drag : forall claims t pre ty btn line col,
  NoDup (t_ids t) -> raw_ty ty ->
  let d := run_ds claims t pre drag_init in
  let e := fst (mouse_spec claims t d ty btn line col) in
  let d' := snd (mouse_spec claims t d ty btn line col) in
  (* e is the next element of the run *)
  (forall post, run_mouse claims t (pre ++ (ty, btn, line, col) :: post) drag_init =
                run_mouse claims t pre drag_init ++ e :: run_mouse claims t post d') /\
  (* START: only on a DRAG while no drag is on; button and absolute position of the most
     recent PRESS (button 0 at (-1,-1), the initial drag state, if there was none) *)
  (forall w b l c, In (IMouse w 5 b l c) e ->
     ty = 2 /\ ds_dragging d = false /\
     exists o, tree_origin t w = Some o /\
       (b, l + fst o - top (w_rect (t_info t)), c + snd o - left (w_rect (t_info t))) =
       last_press pre (0, -1, -1)) /\
  (* OUTSIDE: only on a DRAG, with a drag on and a source that claimed a START and did not take
     this DRAG; delivered inside the source's subtree *)
  (forall w b l c, In (IMouse w 6 b l c) e ->
     ty = 2 /\ b = btn /\ ds_dragging d' = true /\
     exists src sb, ds_src d' = Some src /\ Z.testbit (claims src) 5 = true /\
       t_find src t = Some sb /\ In w (t_ids sb) /\
       snd (mouse_phase claims (mouse_order t line col) 2 btn) <> Some src) /\
  (* RELEASE while dragging: DROPs, then STOPs to the source subtree, then RELEASEs; drag over *)
  (ty = 3 -> ds_dragging d = true ->
     exists e7 e8 e3, e = e7 ++ e8 ++ e3 /\
       Forall (fun x => ev_bit x = 7) e7 /\
       Forall (fun x => ev_bit x = 8 /\
                 exists s sb, ds_src d = Some s /\ t_find s t = Some sb /\ In (iev_win x) (t_ids sb)) e8 /\
       Forall (fun x => ev_bit x = 3) e3 /\
       ds_dragging d' = false) /\
  (* DROP and STOP occur only on a RELEASE while dragging *)
  (forall x, In x e -> ev_bit x = 7 \/ ev_bit x = 8 -> ty = 3 /\ ds_dragging d = true).
Proof. exact (@WinInputProofs.C14_drag). Qed.
Print Assumptions C14_drag.

(* A window closing ITSELF inside its key handler: delivery to the rest is that of the
   unmutated order, no fault, nothing freed -- every tree, every claim pattern.
   (The ordered form for self-close; the general theorems for any target, close and destroy,
   keys and mouse, follow below.) *)
Theorem C14_mutation_self_partial : forall fuel claims s w wn w0 n0 s' r,
  i_armed s = [(w0, (0, 1, w0))] -> i_freed s = [] -> i_pending s = [] -> i_fault s = false ->
  ids_unique (i_root s) ->
  t_find w0 (r_tree (i_root s)) = Some n0 -> w0 <> t_id (r_tree (i_root s)) ->
  look s w = Some wn -> focus_okb wn = true -> (height wn < fuel)%nat ->
  handle_key fuel no_defects claims s w = (s', r) ->
  let offered := fst (until_claim (fun x => Z.testbit (claims x) 0) (key_order wn)) in
  i_log s' = rev (key_spec claims wn) ++ i_log s /\
  r = existsb (fun x => Z.testbit (claims x) 0) (key_order wn) /\
  i_fault s' = false /\ i_freed s' = [] /\ i_pending s' = [] /\ i_holds s' = i_holds s /\
  (mem w0 offered = true -> i_root s' = win_close no_defects (i_root s) w0 /\ i_armed s' = []) /\
  (mem w0 offered = false -> i_root s' = i_root s /\ i_armed s' = i_armed s) /\
  (i_log s = [] -> c14_rest_checkb (t_ids n0) (key_spec claims wn) (rev (i_log s')) = true).
Proof. exact (@WinInputProofs.C14_mutation_self). Qed.
Print Assumptions C14_mutation_self_partial.

Theorem C14_mutation_self_term_partial : forall claims t w0 n0,
  NoDup (t_ids t) -> focus_okb t = true -> (height t < ifuel)%nat ->
  t_find w0 t = Some n0 -> w0 <> t_id t ->
  let s' := term_key no_defects claims (mk_state t [(w0, (0, 1, w0))]) in
  rev (i_log s') = key_spec claims t /\ i_fault s' = false /\ i_holds s' = [] /\ i_freed s' = [] /\
  c14_rest_checkb (t_ids n0) (key_spec claims t) (rev (i_log s')) = true.
Proof. exact (@WinInputProofs.C14_mutation_self_term). Qed.
Print Assumptions C14_mutation_self_term_partial.

(* ---- the general mutation theorems (committed dispatch: a copy of the child list, entries
   checked by address) ----
   [armed_start s h cls act tgt n0]: one scripted mutation is armed -- when window h's handler
   sees an event of class cls it closes (act <> 2) or closes and destroys (act = 2) window
   tgt, ANY non-root window of the tree (itself, an ancestor whose frame is active, a
   sibling, the next sibling, a descendant, the stealing first child, the focused child...),
   nothing freed or pending, unique ids, no outside reference to tgt held by the routing
   state.  Then routing never reads a freed window, everything pending is released when the
   frames exit, at most tgt is freed (C14_mutation_no_crash; C14_mutation_term_mouse: the
   same over every sequence of terminal mouse events, whichever synthesised delivery the
   mutation runs in); when nobody claims, the deliveries to the windows outside the closed
   subtree are those of the unmutated order -- as a multiset for keys (the order may
   legitimately differ: a stealing window may become the first child), in order for the
   mouse (C14_mutation_rest); and the accounting of the destruction (C14_mutation_destroy). *)
Theorem C14_mutation_no_crash : forall claims s h cls act tgt n0,
  armed_start s h cls act tgt n0 ->
  (* _handle_key from any window *)
  (forall fuel w wn s' r,
     look s w = Some wn -> focus_okb wn = true -> (height wn < fuel)%nat ->
     handle_key fuel no_defects claims s w = (s', r) ->
     i_fault s' = false /\ i_pending s' = [] /\ incl (i_freed s') [tgt] /\ i_holds s' = i_holds s) /\
  (* _handle_mouse from any window, any event type and position *)
  (forall fuel w wn ty btn line col s' r,
     look s w = Some wn -> (height wn < fuel)%nat ->
     handle_mouse fuel no_defects claims s w ty btn line col = (s', r) ->
     i_fault s' = false /\ i_pending s' = [] /\ incl (i_freed s') [tgt] /\ i_holds s' = i_holds s) /\
  (* on_term_key *)
  (focus_okb (r_tree (i_root s)) = true -> (height (r_tree (i_root s)) < ifuel)%nat ->
     let s' := term_key no_defects claims s in
     i_fault s' = false /\ i_pending s' = [] /\ incl (i_freed s') [tgt] /\ i_holds s' = i_holds s).
Proof. exact (@WinInputMutation.C14_mutation_no_crash). Qed.
Print Assumptions C14_mutation_no_crash.

Theorem C14_mutation_term_mouse : forall claims s h cls act tgt n0 evs,
  armed_start s h cls act tgt n0 -> dsrc_ok (i_root s) -> (height (r_tree (i_root s)) < ifuel)%nat ->
  let s' := run_term_mouse ifuel claims s evs in
  i_fault s' = false /\ i_pending s' = [] /\ incl (i_freed s') [tgt] /\ i_holds s' = i_holds s /\
  (forall ty btn line col,
     let s1 := term_mouse no_defects claims s ty btn line col in
     i_fault s1 = false /\ i_pending s1 = [] /\ incl (i_freed s1) [tgt] /\ i_holds s1 = i_holds s).
Proof. exact (@WinInputMutation.C14_mutation_term_mouse). Qed.
Print Assumptions C14_mutation_term_mouse.

Theorem C14_mutation_rest : forall claims s h cls act tgt n0,
  armed_start s h cls act tgt n0 -> i_log s = [] ->
  (* keys, nobody claims: as a multiset *)
  ((forall x, Z.testbit (claims x) 0 = false) ->
   forall fuel w wn s' r,
     look s w = Some wn -> focus_okb wn = true -> (height wn < fuel)%nat ->
     handle_key fuel no_defects claims s w = (s', r) ->
     c14_rest_set_checkb (t_ids n0) (key_spec claims wn) (rev (i_log s')) = true) /\
  (* one mouse phase, nobody claims that type: in order, hence as a multiset *)
  (forall ty, (forall x, Z.testbit (claims x) ty = false) ->
   forall fuel w wn btn line col s' r,
     look s w = Some wn -> (height wn < fuel)%nat ->
     handle_mouse fuel no_defects claims s w ty btn line col = (s', r) ->
     c14_rest_checkb (t_ids n0) (fst (mouse_phase claims (mouse_order wn line col) ty btn)) (rev (i_log s')) = true /\
     c14_rest_set_checkb (t_ids n0) (fst (mouse_phase claims (mouse_order wn line col) ty btn)) (rev (i_log s')) = true).
Proof. exact (@WinInputMutation.C14_mutation_rest). Qed.
Print Assumptions C14_mutation_rest.

(* ... and with CLAIMERS (added later, WinInputMutationClaim.v).  One mouse phase, an arbitrary
   claim pattern, the armed mutation anywhere on the route: as long as no window INSIDE the
   closed subtree claims this event type (claimers outside are allowed, before or after the
   mutating window), the deliveries to the windows outside the closed subtree are, in order,
   those of the unmutated order cut at its first claimer, and the routing returns that claimer.
   (The hypothesis is necessary: WinInputMutationClaim.C14_claim_examples, second part -- a
   claimer inside the closed subtree is never asked and the event travels on.) *)
Theorem C14_mutation_rest_claim : forall claims s h cls act tgt n0,
  armed_start s h cls act tgt n0 -> i_log s = [] ->
  forall ty, (forall x, In x (t_ids n0) -> Z.testbit (claims x) ty = false) ->
  forall fuel w wn btn line col s' r,
    look s w = Some wn -> (height wn < fuel)%nat ->
    handle_mouse fuel no_defects claims s w ty btn line col = (s', r) ->
    c14_rest_checkb (t_ids n0) (fst (mouse_phase claims (mouse_order wn line col) ty btn)) (rev (i_log s')) = true /\
    c14_rest_set_checkb (t_ids n0) (fst (mouse_phase claims (mouse_order wn line col) ty btn)) (rev (i_log s')) = true /\
    r = snd (mouse_phase claims (mouse_order wn line col) ty btn).
Proof. exact (@WinInputMutationClaim.C14_mutation_rest_claim). Qed.
Print Assumptions C14_mutation_rest_claim.

(* any claimers at all (also inside the subtree) when the claim stops the routing before the
   mutating handler is reached: the delivery is exactly the unmutated one, keys and mouse *)
Theorem C14_mutation_rest_claim_key : forall claims s h cls act tgt n0,
  armed_start s h cls act tgt n0 -> i_log s = [] ->
  forall fuel w wn s' r,
    look s w = Some wn -> focus_okb wn = true -> (height wn < fuel)%nat ->
    key_fired claims h cls wn = false ->
    handle_key fuel no_defects claims s w = (s', r) ->
    rev (i_log s') = key_spec claims wn /\
    r = existsb (fun x => Z.testbit (claims x) 0) (key_order wn) /\
    c14_rest_checkb (t_ids n0) (key_spec claims wn) (rev (i_log s')) = true /\
    c14_rest_set_checkb (t_ids n0) (key_spec claims wn) (rev (i_log s')) = true.
Proof. exact (@WinInputMutationClaim.C14_mutation_rest_claim_key). Qed.
Print Assumptions C14_mutation_rest_claim_key.

Theorem C14_mutation_rest_claim_mouse : forall claims s h cls act tgt n0,
  armed_start s h cls act tgt n0 -> i_log s = [] ->
  forall fuel w wn ty btn line col s' r,
    look s w = Some wn -> (height wn < fuel)%nat ->
    mouse_fired claims h cls ty wn line col = false ->
    handle_mouse fuel no_defects claims s w ty btn line col = (s', r) ->
    rev (i_log s') = fst (mouse_phase claims (mouse_order wn line col) ty btn) /\
    r = snd (mouse_phase claims (mouse_order wn line col) ty btn) /\
    c14_rest_checkb (t_ids n0) (fst (mouse_phase claims (mouse_order wn line col) ty btn)) (rev (i_log s')) = true /\
    c14_rest_set_checkb (t_ids n0) (fst (mouse_phase claims (mouse_order wn line col) ty btn)) (rev (i_log s')) = true.
Proof. exact (@WinInputMutationClaim.C14_mutation_rest_claim_mouse). Qed.
Print Assumptions C14_mutation_rest_claim_mouse.

(* keys with ARBITRARY claimers (inside or outside the closed subtree, before or after the
   mutation; WinInputMutationClaimKey.v): the routing returns true exactly when a window that was
   offered the key claims it, nothing is delivered after a claimer, and at most the last window
   offered the key claims.  (Not proved here: that the windows offered the key outside the closed
   subtree all occur in the unmutated key order.) *)
Theorem C14_mutation_key_claim : forall fuel claims s w wn h cls act tgt n0 s' r,
  armed_start s h cls act tgt n0 -> i_log s = [] ->
  look s w = Some wn -> focus_okb wn = true -> (height wn < fuel)%nat ->
  handle_key fuel no_defects claims s w = (s', r) ->
  exists D, rev (i_log s') = map IKey D /\
            r = existsb (fun x => Z.testbit (claims x) 0) D /\
            fst (until_claim (fun x => Z.testbit (claims x) 0) D) = D /\
            (forall D1 x D2, D = D1 ++ x :: D2 -> Z.testbit (claims x) 0 = true -> D2 = []).
Proof. exact (@WinInputMutationClaimKey.C14_mutation_key_claim). Qed.
Print Assumptions C14_mutation_key_claim.

Theorem C14_mutation_destroy : forall claims s h cls act tgt n0,
  armed_start s h cls act tgt n0 ->
  (forall fuel w wn s' r,
     look s w = Some wn -> focus_okb wn = true -> (height wn < fuel)%nat ->
     handle_key fuel no_defects claims s w = (s', r) ->
     (i_freed s' = [tgt] <-> key_fired claims h cls wn = true /\ act = 2) /\
     (key_fired claims h cls wn = true ->
        r_tree (i_root s') = cut tgt (r_tree (i_root s)) /\
        r_orphans (i_root s') = (if act =? 2 then t_kids n0 ++ r_orphans (i_root s) else n0 :: r_orphans (i_root s))) /\
     (key_fired claims h cls wn = false -> i_root s' = i_root s)) /\
  (forall fuel w wn ty btn line col s' r,
     look s w = Some wn -> (height wn < fuel)%nat ->
     handle_mouse fuel no_defects claims s w ty btn line col = (s', r) ->
     (i_freed s' = [tgt] <-> mouse_fired claims h cls ty wn line col = true /\ act = 2) /\
     (mouse_fired claims h cls ty wn line col = true ->
        r_tree (i_root s') = cut tgt (r_tree (i_root s)) /\
        r_orphans (i_root s') = (if act =? 2 then t_kids n0 ++ r_orphans (i_root s) else n0 :: r_orphans (i_root s))) /\
     (mouse_fired claims h cls ty wn line col = false -> i_root s' = i_root s)).
Proof. exact (@WinInputMutation.C14_mutation_destroy). Qed.
Print Assumptions C14_mutation_destroy.

(* the pinned code: #20 a stealing first child that declines is offered the key again;
   #30 a handler closing the next sibling derails delivery to the rest *)
Theorem C14_refuted_20 :
  rev (i_log (term_key cfg_20 (fun _ => 0) (mk_state tree20 []))) = [IKey 1; IKey 0; IKey 1] /\
  key_spec (fun _ => 0) tree20 = [IKey 1; IKey 0] /\
  rev (i_log (term_key cfg_20 (fun _ => 0) (mk_state tree20 []))) <> key_spec (fun _ => 0) tree20 /\
  rev (i_log (term_key no_defects (fun _ => 0) (mk_state tree20 []))) = key_spec (fun _ => 0) tree20.
Proof. exact (@WinInputProofs.C14_refuted_20). Qed.
Print Assumptions C14_refuted_20.

Theorem C14_refuted_30 :
  let s' := term_key cfg_30 (fun _ => 0) (mk_state tree30 [(4, (0, 1, 3))]) in
  rev (i_log s') = [IKey 0; IKey 4; IKey 3] /\
  In 2 (key_order tree30) /\
  ~ In (IKey 2) (i_log s') /\
  (* the repaired iteration offers it, and passes the check of the property *)
  rev (i_log (term_key no_defects (fun _ => 0) (mk_state tree30 [(4, (0, 1, 3))]))) = [IKey 0; IKey 4; IKey 2] /\
  c14_rest_checkb [3] (key_spec (fun _ => 0) tree30)
     (rev (i_log (term_key no_defects (fun _ => 0) (mk_state tree30 [(4, (0, 1, 3))])))) = true /\
  c14_rest_checkb [3] (key_spec (fun _ => 0) tree30) (rev (i_log s')) = false.
Proof. exact (@WinInputProofs.C14_refuted_30). Qed.
Print Assumptions C14_refuted_30.

(* tickit_window_show and the focus links (oracle clause c15_show_checkb, evaluated on the trees the
   implementation reports before and after every show): the shown window becomes its parent's
   focused child exactly when the parent has none and the window is flagged focused or has a focused
   child of its own; every other link, every focused flag and the shape of the tree are untouched.
   The model's show meets it, for every defect configuration ... *)
Theorem C14_show_links : forall cfg st id,
  WinLogDisjoint.ids_unique (r_tree st) ->
  c15_show_checkb id (r_tree st) (r_tree (win_show cfg st id)) = true.
Proof. exact WinShowSpec.show_meets_spec. Qed.
Print Assumptions C14_show_links.

(* ... and the checker rejects both seeded behaviours: re-linking a window although another child
   holds the parent's link, and leaving a container off the chain whose focus holder is two levels
   below it *)
Example C14_show_refutes_relink :
  WinLogDisjoint.ids_unique WinShowSpec.relink_before /\
  c15_show_checkb 2 WinShowSpec.relink_before WinShowSpec.relink_seeded = false /\
  c15_show_checkb 2 WinShowSpec.relink_before (r_tree (win_show no_defects (WinShowSpec.st_of WinShowSpec.relink_before) 2)) = true /\
  w_fchild (t_info (r_tree (win_show no_defects (WinShowSpec.st_of WinShowSpec.relink_before) 2))) = Some 1.
Proof. exact WinShowSpec.show_refutes_relink. Qed.
Print Assumptions C14_show_refutes_relink.

Example C14_show_refutes_one_level :
  WinLogDisjoint.ids_unique WinShowSpec.one_level_before /\
  c15_show_checkb 1 WinShowSpec.one_level_before WinShowSpec.one_level_seeded = false /\
  c15_show_checkb 1 WinShowSpec.one_level_before (r_tree (win_show no_defects (WinShowSpec.st_of WinShowSpec.one_level_before) 1)) = true /\
  w_fchild (t_info (r_tree (win_show no_defects (WinShowSpec.st_of WinShowSpec.one_level_before) 1))) = Some 1.
Proof. exact WinShowSpec.show_refutes_one_level. Qed.
Print Assumptions C14_show_refutes_one_level.

(* tickit_window_hide and the focus links (oracle clause c15_hide_checkb on the trees reported before
   and after every hide): the parent's link is dropped exactly when it names the hidden window,
   whatever that window holds; nothing else changes.  The model's hide meets it (every defect
   configuration), and the checker rejects a hidden window that stays linked *)
Theorem C14_hide_links : forall cfg st id,
  WinLogDisjoint.ids_unique (r_tree st) ->
  c15_hide_checkb id (r_tree st) (r_tree (win_hide cfg st id)) = true.
Proof. exact WinHideSpec.hide_meets_spec. Qed.
Print Assumptions C14_hide_links.

Example C14_hide_refutes_stays_linked :
  WinLogDisjoint.ids_unique WinHideSpec.stays_before /\
  c15_hide_checkb 1 WinHideSpec.stays_before WinHideSpec.stays_seeded = false /\
  c15_hide_checkb 1 WinHideSpec.stays_before (r_tree (win_hide no_defects (WinShowSpec.st_of WinHideSpec.stays_before) 1)) = true /\
  w_fchild (t_info (r_tree (win_hide no_defects (WinShowSpec.st_of WinHideSpec.stays_before) 1))) = None.
Proof. exact WinHideSpec.hide_refutes_stays_linked. Qed.
Print Assumptions C14_hide_refutes_stays_linked.

Example C14_nonvacuous :
  key_order tree_nv = [1; 5; 2; 6; 0; 4] /\
  key_spec claims_nv tree_nv = [IKey 1; IKey 5; IKey 2; IKey 6; IKey 0] /\
  (3 <= length (key_spec claims_nv tree_nv))%nat /\
  mouse_order tree_nv 2 2 = [(5, 1, 1); (1, 2, 2); (6, 0, 0); (2, 0, 0); (0, 2, 2)] /\
  (2 <= length (mouse_order tree_nv 2 2))%nat /\
  mouse_phase claims_nv (mouse_order tree_nv 2 2) 2 1 =
    ([IMouse 5 2 1 1 1; IMouse 1 2 1 2 2; IMouse 6 2 1 0 0; IMouse 2 2 1 0 0], Some 2) /\
  NoDup (t_ids tree_nv) /\ focus_okb tree_nv = true /\ (height tree_nv < 64)%nat /\
  rev (i_log (term_key no_defects claims_nv (mk_state tree_nv []))) = key_spec claims_nv tree_nv.
Proof. exact WinInputProofs.C14_nonvacuous. Qed.
