(* placeholder until the proofs are in *)
From Coq Require Import ZArith List.
From Tickit Require Import RectDefs WinDefs WinSpec WinHist WinInput WinInputSpec.
Example C14_nonvacuous : True. Proof. exact I. Qed.
