(* RBFlushPayload.v -- what a terminal driven through a byte-stream driver (xterm) receives as
   printable text: the code points of all prints of a flush, in order, are the expected cell
   texts of the buffer in row-major order (payload_checkb of RBFlushSpec.v holds of the model's
   own flush). *)
From Coq Require Import ZArith List Bool Lia.
From Tickit Require Import RectDefs RBDefs RBSpec RBLemmas RBSpanProofs RBAbsLemmas RBInv RBOpProofs RBProofs RBProps
                           RBTheorems Gen_Linechars RBGlyphs RBFlushDefs RBFlushSpec RBFlushProofs RBWidth RBFlushCols
                           RBFlushReach RBTermSim RBFlushShown RBFlushFull RBPenLemmas.
Import ListNotations.
Local Open Scope Z_scope.

(* the printable text of a list of operations *)
Definition prints_of (ops : list termop) : list Z :=
  flat_map (fun o => match o with TPrint u => u | _ => [] end) ops.

Lemma prints_of_app : forall a b, prints_of (a ++ b) = prints_of a ++ prints_of b.
Proof. intros. unfold prints_of. apply flat_map_app. Qed.

(* ---------------------------------------------------------------------------------- *)
(* payload_match as a relation *)

Inductive pm : list texp -> list Z -> Prop :=
| pm_nil : pm [] []
| pm_keep : forall r p, pm r p -> pm (XKeep :: r) p
| pm_is : forall s q r p, pm r p -> pm (XIs s q :: r) (s ++ p)
| pm_or1 : forall s1 s2 q r p, pm r p -> pm (XOr s1 s2 q :: r) (s1 ++ p)
| pm_or2 : forall s1 s2 q r p, pm r p -> pm (XOr s1 s2 q :: r) (s2 ++ p)
| pm_any0 : forall q r p, pm r p -> pm (XAny q :: r) p
| pm_any1 : forall q r p, pm r p -> pm (XAny q :: r) (32 :: p).

Lemma firstn_len_app : forall (s p : list Z), firstn (length s) (s ++ p) = s.
Proof. intros. rewrite firstn_app, firstn_all, Nat.sub_diag. cbn [firstn]. apply app_nil_r. Qed.

Lemma skipn_len_app : forall (s p : list Z), skipn (length s) (s ++ p) = p.
Proof. intros. rewrite skipn_app, skipn_all, Nat.sub_diag. reflexivity. Qed.

Lemma pm_sound : forall exps pl, pm exps pl -> forall fuel, (length exps < fuel)%nat -> payload_match fuel exps pl = true.
Proof.
  induction 1 as [|r p H IH|s q r p H IH|s1 s2 q r p H IH|s1 s2 q r p H IH|q r p H IH|q r p H IH];
    intros fuel Hf; (destruct fuel as [|f]; [cbn [length] in Hf; lia|]); cbn [payload_match]; cbn [length] in Hf.
  - reflexivity.
  - apply IH. lia.
  - rewrite firstn_len_app, list_eqb_refl, skipn_len_app. apply IH. lia.
  - rewrite firstn_len_app, list_eqb_refl, skipn_len_app. rewrite IH by lia. reflexivity.
  - rewrite (firstn_len_app s2), (list_eqb_refl s2), (skipn_len_app s2). rewrite (IH f) by lia. apply orb_true_r.
  - rewrite IH by lia. reflexivity.
  - rewrite (IH f) by lia. apply orb_true_r.
Qed.

Lemma pm_app : forall a pa b pb, pm a pa -> pm b pb -> pm (a ++ b) (pa ++ pb).
Proof.
  intros a pa b pb Ha Hb. induction Ha; cbn [app]; try rewrite <- app_assoc; try (constructor; assumption).
  exact Hb.
Qed.

(* a cell's text against its expectation *)
Definition admissible (e : texp) (T : list Z) : Prop :=
  match e with
  | XKeep => T = []
  | XIs s _ => T = s
  | XOr s1 s2 _ => T = s1 \/ T = s2
  | XAny _ => T = [] \/ T = [32]
  end.

Lemma pm_cells : forall (es : list texp) (Ts : list (list Z)),
  Forall2 admissible es Ts -> pm es (concat Ts).
Proof.
  induction 1 as [|e T es Ts Ha _ IH]; cbn [concat]; [constructor|].
  destruct e; cbn [admissible] in Ha.
  - subst T. cbn [app]. constructor. exact IH.
  - subst T. constructor. exact IH.
  - destruct Ha as [->| ->]; [apply pm_or1|apply pm_or2]; exact IH.
  - destruct Ha as [->| ->]; cbn [app]; [apply pm_any0|apply pm_any1]; exact IH.
Qed.

(* ---------------------------------------------------------------------------------- *)
(* the layout of a string concatenates back to the string *)

Lemma concat_repeat_nil : forall k, concat (repeat (@nil Z) k) = [].
Proof. induction k; cbn; auto. Qed.

Lemma concat_lay : forall u, valid u -> starts_base u -> concat (lay u) = u.
Proof.
  intros u. remember (length u) as m eqn:Em. revert u Em.
  induction m as [m IHm] using (well_founded_induction lt_wf). intros u Em V Sb.
  destruct u as [|b r]; [reflexivity|]. cbn [starts_base] in Sb.
  destruct (split_grapheme r) as (combs & rest & -> & Z0 & Sr); [intros x Hx; apply V; right; exact Hx|].
  rewrite lay_grapheme by assumption. cbn [concat]. rewrite concat_app, concat_repeat_nil. cbn [app].
  assert (Vr : valid rest) by (intros x Hx; apply V; right; apply in_or_app; right; exact Hx).
  rewrite (IHm (length rest) ltac:(subst m; cbn [length]; rewrite app_length; lia) rest eq_refl Vr Sr).
  cbn [app]. reflexivity.
Qed.

(* ---------------------------------------------------------------------------------- *)
(* the expectation of the byte-stream check, per cell *)

Definition rexp_case (e : texp) (c : cellc) : texp :=
  match e with
  | XIs (32 :: nil) p => (match c with AErase q => if pen_reverse q then XIs [32] p else XKeep | _ => XIs [32] p end)
  | e' => e'
  end.

Definition rexpf (wrow : list acell) (x : Z) : texp :=
  rexp_case (expect_cell wrow x) (ac (nthz wrow x (mkA ASkip (-1)))).

Lemma row_exps_map : forall wrow, row_exps wrow = map (rexpf wrow) (zseq 0 (length wrow)).
Proof.
  intros. unfold row_exps. apply map_ext. intros x. unfold rexpf, rexp_case.
  generalize (ac (nthz wrow x (mkA ASkip (-1)))) as c. generalize (expect_cell wrow x) as e. intros e c.
  destruct e as [|s p| |]; try reflexivity.
  destruct s as [|z s]; [reflexivity|].
  destruct z as [|q|q]; try reflexivity.
  do 6 (destruct q as [q|q|]; try reflexivity).
  destruct s; reflexivity.
Qed.

Lemma rexp_nonerase : forall (e : texp) (c : cellc), (forall p, c <> AErase p) -> rexp_case e c = e.
Proof.
  intros e c H. unfold rexp_case. destruct e as [|s p| |]; try reflexivity.
  destruct s as [|z s]; [reflexivity|].
  destruct z as [|q|q]; try reflexivity.
  do 6 (destruct q as [q|q|]; try reflexivity).
  destruct s; [|reflexivity]. destruct c; try reflexivity. exfalso. eapply H. reflexivity.
Qed.

(* what a cell contributes to the printable text *)
Definition ptext (r : row) (x : Z) : list Z :=
  match abs_cell r x with
  | ASkip => []
  | AErase p => if pen_reverse p then [32] else []
  | _ => t_text (shown r x dtc)
  end.

Theorem cell_admissible : forall r x,
  WF r -> row_content_ok r -> 0 <= x < len r ->
  admissible (rexpf (abs_row r) x) (ptext r x).
Proof.
  intros r x W RC Hx.
  destruct (span_of r x W Hx) as (i & c & n & Hi & Ei & Hin).
  unfold rexpf, ptext, expect_cell. rewrite nthz_zn by lia. rewrite zn_abs_row by lia. cbn [ac].
  rewrite (span_cells r i c n x W Hi Ei Hin), (shown_span r i c n x dtc W Hi Ei Hin).
  assert (Wi := W i Hi). unfold wf_cellf in Wi. rewrite Ei in Wi. destruct Wi as (K1 & K2 & K3 & _).
  assert (Gw := RC i Hi). unfold span_ok in Gw. rewrite Ei in Gw.
  destruct c as [|p s offs|p|p m|p cp]; cbn [content_at span_out].
  - reflexivity.
  - (* text *)
    rewrite rexp_nonerase by (intros; discriminate).
    destruct Gw as (G1 & G2 & G3).
    assert (Hj : 0 <= x - i < n) by lia.
    destruct (text_cell_ok p s offs n dtc (x - i) G1 G2 K1 G3 Hj) as (Q0 & Q1 & Q2 & Q3). cbv zeta in Q0, Q1, Q2, Q3.
    cbn [span_out] in Q1, Q2, Q3.
    set (cell := nth (Z.to_nat (x - i)) (ops_cells (canon_pen p) (text_emit p s offs n)) dtc) in *.
    set (col := offs + (x - i)) in *.
    set (a := slice_start s col) in *.
    set (b := count_on s a (sp_gr a + 1) (-1)) in *.
    cbv zeta.
    (* when the whole grapheme lies inside the span, the neighbour test succeeds *)
    assert (Whole : offs <= sp_col a -> sp_col a + (sp_col b - sp_col a) <= offs + n ->
      (sp_col a <=? col) && (col <? sp_col a + (sp_col b - sp_col a)) &&
      forallb (fun j => is_text_of (ac (nthz (abs_row r) (x - (col - sp_col a) + j) (mkA ASkip (-1)))) p s (sp_col a + j))
              (zseq 0 (Z.to_nat (sp_col b - sp_col a))) = true).
    { intros I1 I2. apply andb_true_iff. split; [apply andb_true_iff; split; [apply Z.leb_le|apply Z.ltb_lt]; lia|].
      apply forallb_forall. intros j Hjj. apply in_zseq in Hjj.
      assert (Hx' : i <= x - (col - sp_col a) + j < i + n) by (unfold col in *; lia).
      rewrite nthz_zn by lia. rewrite zn_abs_row by lia. cbn [ac].
      rewrite (span_cells r i _ n _ W Hi Ei Hx'). cbn [content_at is_text_of].
      rewrite pen_eqb_refl, list_eqb_refl. cbn [andb]. apply Z.eqb_eq. unfold col. lia. }
    match goal with |- admissible (if ?wh then _ else _) _ => destruct wh eqn:Ewh end.
    + destruct (Z.eqb_spec (sp_col b - sp_col a) 1) as [W1|W1]; [cbn [admissible]; exact (Q1 W1)|].
      destruct (Z.eqb_spec col (sp_col a)) as [E0|N0]; cbn [admissible].
      * destruct (Q2 W1 E0) as [(H & _)|H]; [left|right]; exact H.
      * destruct (Q3 W1 N0) as [(H & _)|H]; [left|right]; exact H.
    + cbn [admissible].
      destruct (Z.eq_dec (sp_col b - sp_col a) 1) as [W1|W1].
      * exfalso. discriminate (Whole ltac:(lia) ltac:(lia)).
      * destruct (Z.eq_dec col (sp_col a)) as [E0|N0].
        -- destruct (Q2 W1 E0) as [(H & I1 & I2)|H]; [|right; exact H].
           exfalso. discriminate (Whole ltac:(lia) ltac:(lia)).
        -- destruct (Q3 W1 N0) as [(H & _)|H]; [left|right]; exact H.
  - (* erase *) cbn [rexp_case]. destruct (pen_reverse p); reflexivity.
  - specialize (K3 eq_refl). subst n. replace (x - i) with 0 by lia. cbn [Z.to_nat nth t_text].
    rewrite rexp_nonerase by (intros; discriminate). reflexivity.
  - specialize (K3 eq_refl). subst n. replace (x - i) with 0 by lia. cbn [Z.to_nat nth t_text].
    rewrite rexp_nonerase by (intros; discriminate). reflexivity.
Qed.

(* ---------------------------------------------------------------------------------- *)
(* the printable text of a flush is the concatenation of the cells' texts *)

Lemma zseq_S : forall a k, zseq a (S k) = a :: zseq (a + 1) k.
Proof. intros. change (S k) with (1 + k)%nat. rewrite zseq_app. unfold zseq at 1. cbn [seq map Z.of_nat]. rewrite Z.add_0_r. reflexivity. Qed.

Lemma map_nth_zseq : forall {A} (cells : list A) col d,
  map (fun x => nth (Z.to_nat (x - col)) cells d) (zseq col (length cells)) = cells.
Proof.
  induction cells as [|c cells IH]; intros col d; [reflexivity|]. cbn [length]. rewrite zseq_S. cbn [map].
  rewrite Z.sub_diag. cbn [Z.to_nat nth]. f_equal.
  rewrite <- (IH (col + 1) d) at 2. apply map_ext_in. intros x Hx. apply in_zseq in Hx.
  replace (Z.to_nat (x - col)) with (S (Z.to_nat (x - (col + 1)))) by lia. reflexivity.
Qed.

Lemma concat_singletons : forall {A B} (f : A -> B) l, concat (map (fun x => [f x]) l) = map f l.
Proof. induction l as [|x l IH]; cbn; [reflexivity|]. now rewrite IH. Qed.

Lemma concat_nils : forall {A B} (l : list A), concat (map (fun _ => @nil B) l) = [].
Proof. induction l as [|x l IH]; cbn; auto. Qed.

Lemma prints_cells : forall pn prints, (forall o, In o prints -> print_ok o) ->
  concat (map t_text (ops_cells pn prints)) = prints_of prints.
Proof.
  induction prints as [|o prints IH]; intros H; [reflexivity|].
  assert (Ho := H o (or_introl eq_refl)). destruct o as [| |u|]; cbn [print_ok] in Ho; try contradiction.
  destruct Ho as (V & S).
  unfold ops_cells, prints_of in *. cbn [flat_map]. rewrite map_app, concat_app.
  rewrite IH by (intros o' Ho'; apply H; right; exact Ho'). f_equal.
  rewrite map_map. cbn [t_text]. rewrite map_id. apply concat_lay; [apply text_valid_valid; exact V|exact S].
Qed.

Lemma ptext_span : forall r i c n x, WF r -> 0 <= i < len r -> ck (get r i) = Start c n -> i <= x < i + n ->
  ptext r x = match c with
              | CSkip => []
              | CErase p => if pen_reverse p then [32] else []
              | _ => t_text (nth (Z.to_nat (x - i)) (span_out c n) dtc)
              end.
Proof.
  intros r i c n x W Hi Ei Hx. unfold ptext.
  rewrite (span_cells r i c n x W Hi Ei Hx), (shown_span r i c n x dtc W Hi Ei Hx).
  destruct c; reflexivity.
Qed.

Lemma span_payload : forall i n (f : Z -> list Z) (cells : list tcell),
  1 <= n -> Z.of_nat (length cells) = n ->
  (forall x, i <= x < i + n -> f x = t_text (nth (Z.to_nat (x - i)) cells dtc)) ->
  concat (map f (zseq i (Z.to_nat n))) = concat (map t_text cells).
Proof.
  intros i n f cells Hn Hl Hf.
  replace (Z.to_nat n) with (length cells) by lia.
  rewrite <- (map_nth_zseq cells i dtc) at 2. rewrite map_map. f_equal. apply map_ext_in.
  intros x Hx. apply in_zseq in Hx. apply Hf. lia.
Qed.

Lemma line_run_payload : forall fuel r col p,
  WF r -> row_content_ok r -> at_boundary r col ->
  let '(g, c') := line_run fuel r col p in
  col <= c' /\ at_boundary r c' /\ g = concat (map (ptext r) (zseq col (Z.to_nat (c' - col)))).
Proof.
  intros fuel r col p W RC Hb.
  assert (R := line_run_cells fuel r col p W RC Hb). destruct (line_run fuel r col p) as [g c'].
  destruct R as (R1 & R2 & R3 & R4 & R5). split; [exact R1|]. split; [exact R2|].
  rewrite <- (map_nth_zseq g col 0) at 1. unfold zlen in R3. replace (Z.to_nat (c' - col)) with (length g) by lia.
  rewrite <- concat_singletons. f_equal. apply map_ext_in. intros x Hx. apply in_zseq in Hx.
  destruct (R5 x ltac:(lia)) as (q & m & A1 & A2 & A3).
  assert (Bc : c' <= len r) by (destruct R2 as [->|(? & _)]; lia).
  assert (Hc0 : 0 <= col) by (destruct Hb as [->|(? & _)]; [apply len_nonneg|lia]).
  rewrite (ptext_span r x _ 1 x W ltac:(lia) A1 ltac:(lia)). rewrite Z.sub_diag. cbn [Z.to_nat span_out nth t_text].
  rewrite A3. reflexivity.
Qed.

Lemma xpay_goto : forall pn (g : bool) line col tail,
  xterm_payload pn ((if g then [TGoto line col] else []) ++ tail) = xterm_payload pn tail.
Proof. intros pn [] line col tail; reflexivity. Qed.

Lemma xpay_prints : forall prints pn rest, (forall o, In o prints -> print_ok o) ->
  xterm_payload pn (prints ++ rest) = prints_of prints ++ xterm_payload pn rest.
Proof.
  induction prints as [|o prints IH]; intros pn rest H; [reflexivity|].
  assert (Ho := H o (or_introl eq_refl)). destruct o as [| |u|]; cbn [print_ok] in Ho; try contradiction.
  cbn [app xterm_payload]. rewrite IH by (intros o' Ho'; apply H; right; exact Ho').
  unfold prints_of. cbn [flat_map]. now rewrite app_assoc.
Qed.

Lemma concat_const : forall {A} (x : list Z) (l : list A), concat (map (fun _ => x) l) = concat (repeat x (length l)).
Proof. induction l as [|y l IH]; cbn; [reflexivity|]. now rewrite IH. Qed.

Lemma concat_repeat_single : forall (c : Z) k, concat (repeat [c] k) = repeat c k.
Proof. induction k; cbn; [reflexivity|]. now f_equal. Qed.

Theorem flush_line_payload : forall fuel r line col phycol ops pn,
  WF r -> row_content_ok r -> at_boundary r col ->
  flush_line fuel r line col phycol = Ok ops ->
  xterm_payload pn ops = concat (map (ptext r) (zseq col (Z.to_nat (len r - col)))).
Proof.
  induction fuel as [|f IH]; intros r line col phycol ops pn W RC Hb E.
  - cbn [flush_line] in E. destruct (Z.leb_spec (len r) col) as [Hge|Hlt]; [|discriminate].
    inversion E; subst. destruct Hb as [->|(Hc & _)]; [|lia]. rewrite Z.sub_diag. reflexivity.
  - cbn [flush_line] in E. destruct (Z.leb_spec (len r) col) as [Hge|Hlt].
    { inversion E; subst. destruct Hb as [->|(Hc & _)]; [|lia]. rewrite Z.sub_diag. reflexivity. }
    destruct Hb as [Hb|(Hc & c & n & Ec)]; [lia|].
    rewrite getr_ok in E by assumption. cbn [bind] in E. rewrite Ec in E.
    assert (Wc := W col Hc). unfold wf_cellf in Wc. rewrite Ec in Wc. destruct Wc as (K1 & K2 & K3 & K4).
    assert (Hn := next_boundary r col c n W Hc Ec).
    assert (Gw := RC col Hc). unfold span_ok in Gw. rewrite Ec in Gw.
    assert (PT := fun x Hx => ptext_span r col c n x W Hc Ec Hx).
    assert (Split : forall m, col + m <= len r -> 0 <= m ->
              zseq col (Z.to_nat (len r - col)) = zseq col (Z.to_nat m) ++ zseq (col + m) (Z.to_nat (len r - (col + m)))).
    { intros m Hm H0. replace (Z.to_nat (len r - col)) with (Z.to_nat m + Z.to_nat (len r - (col + m)))%nat by lia.
      rewrite zseq_app. rewrite Z2Nat.id by lia. reflexivity. }
    assert (Gp := fun q tail => xpay_goto q (phycol <? col) line col tail).
    destruct c as [|p s offs|p|p m|p cp].
    + (* skip *)
      rewrite (IH r line (col + n) phycol ops pn W RC Hn E).
      rewrite (Split n) by lia. rewrite map_app, concat_app.
      rewrite (map_ext_in (ptext r) (fun _ => []) (zseq col (Z.to_nat n))).
      * rewrite concat_nils. reflexivity.
      * intros x Hx. apply in_zseq in Hx. rewrite PT by lia. reflexivity.
    + (* text *)
      destruct (flush_line f r line (col + n) (col + n)) as [rest| |] eqn:Er; cbn [bind] in E; try discriminate.
      assert (Eo : ops = (if phycol <? col then [TGoto line col] else []) ++ text_emit p s offs n ++ rest)
        by (inversion E; reflexivity).
      subst ops. clear E.
      destruct Gw as (G1 & G2 & G3).
      destruct (text_emit_prints_ok p s offs n G1 G2 K1 G3) as (prints & Ep & Hp & Hlc).
      rewrite Gp, Ep. cbn [app xterm_payload]. rewrite (xpay_prints prints p rest Hp), (IH r line (col + n) (col + n) rest p W RC Hn Er).
      rewrite (Split n) by lia. rewrite map_app, concat_app. f_equal.
      rewrite (span_payload col n (ptext r) (span_out (CText p s offs) n)); try lia.
      * cbn [span_out]. rewrite Ep. change (ops_cells (canon_pen p) (TSetPen p :: prints)) with (ops_cells (canon_pen p) prints).
        rewrite prints_cells by exact Hp. reflexivity.
      * cbn [span_out]. rewrite Ep. change (ops_cells (canon_pen p) (TSetPen p :: prints)) with (ops_cells (canon_pen p) prints).
        pose proof (ops_cells_length (canon_pen p) prints Hp) as Ll. unfold zlen in Ll. lia.
      * intros x Hx. rewrite PT by lia. reflexivity.
    + (* erase *)
      destruct (if col + n <? len r then getr r (col + n) else Ok dcell) as [nx| |]; cbn [bind] in E; try discriminate.
      cbv zeta in E.
      set (mv0 := (col + n <? len r) && match ck nx with Start CSkip _ => false | _ => true end) in E.
      destruct (flush_line f r line (col + n) (if mv0 then col + n else -1)) as [rest| |] eqn:Er; cbn [bind] in E; try discriminate.
      assert (Eo : ops = (if phycol <? col then [TGoto line col] else []) ++ [TSetPen p; TErase n mv0] ++ rest)
        by (inversion E; reflexivity).
      subst ops. clear E.
      rewrite Gp. cbn [app xterm_payload]. rewrite (IH r line (col + n) _ rest p W RC Hn Er).
      rewrite (Split n) by lia. rewrite map_app, concat_app. f_equal.
      rewrite (map_ext_in (ptext r) (fun _ => if pen_reverse p then [32] else []) (zseq col (Z.to_nat n))).
      * destruct (pen_reverse p).
        -- rewrite concat_const, concat_repeat_single. unfold zseq. rewrite map_length, seq_length. reflexivity.
        -- rewrite concat_nils. reflexivity.
      * intros x Hx. apply in_zseq in Hx. rewrite PT by lia. reflexivity.
    + (* line run *)
      specialize (K3 eq_refl). subst n.
      assert (R := line_run_payload (S (Z.to_nat (len r))) r (col + 1) p W RC Hn).
      destruct (line_run (S (Z.to_nat (len r))) r (col + 1) p) as [gl c'].
      destruct R as (R1 & R2 & R3).
      match type of E with context [flush_line f r line c' ?ph] =>
        destruct (flush_line f r line c' ph) as [rest| |] eqn:Er end; cbn [bind] in E; try discriminate.
      inversion E; subst ops. clear E.
      assert (Bc : c' <= len r) by (destruct R2 as [->|(? & _)]; lia).
      rewrite Gp. cbn [app xterm_payload]. rewrite (IH r line c' _ rest p W RC R2 Er).
      rewrite (Split (c' - col)) by lia. replace (col + (c' - col)) with c' by lia.
      rewrite map_app, concat_app. f_equal.
      replace (Z.to_nat (c' - col)) with (S (Z.to_nat (c' - (col + 1)))) by lia. rewrite zseq_S. cbn [map concat].
      rewrite <- R3. rewrite PT by lia. rewrite Z.sub_diag. reflexivity.
    + (* char *)
      destruct (flush_line f r line (col + n) (col + n)) as [rest| |] eqn:Er; cbn [bind] in E; try discriminate.
      inversion E; subst ops. clear E.
      specialize (K3 eq_refl). subst n.
      rewrite Gp. cbn [app xterm_payload]. rewrite (IH r line (col + 1) (col + 1) rest p W RC Hn Er).
      rewrite (Split 1) by lia. rewrite map_app, concat_app. f_equal.
      change (Z.to_nat 1) with 1%nat. rewrite zseq_S. cbn [zseq seq map concat]. rewrite PT by lia. rewrite Z.sub_diag. reflexivity.
Qed.

(* ---------------------------------------------------------------------------------- *)
(* all lines, and the theorem *)

Lemma Forall2_map_in : forall {A B C} (R : B -> C -> Prop) (f : A -> B) (g : A -> C) l,
  (forall x, In x l -> R (f x) (g x)) -> Forall2 R (map f l) (map g l).
Proof.
  induction l as [|x l IH]; intros H; cbn [map]; constructor; [apply H; left; reflexivity|].
  apply IH. intros y Hy. apply H. right. exact Hy.
Qed.

Fixpoint pen_after (pn : pen) (ops : list termop) : pen :=
  match ops with
  | [] => pn
  | TSetPen p :: r => pen_after p r
  | _ :: r => pen_after pn r
  end.

Lemma xpay_app : forall a b pn, xterm_payload pn (a ++ b) = xterm_payload pn a ++ xterm_payload (pen_after pn a) b.
Proof.
  induction a as [|o a IH]; intros b pn; [reflexivity|]. destruct o; cbn [app xterm_payload pen_after]; rewrite IH; try reflexivity.
  - now rewrite app_assoc.
  - now rewrite app_assoc.
Qed.

Lemma flush_rows_payload : forall rows line ops pn,
  (forall r, In r rows -> WF r /\ row_content_ok r) ->
  flush_rows rows line = Ok ops ->
  pm (flat_map row_exps (map abs_row rows)) (xterm_payload pn ops).
Proof.
  induction rows as [|r rows IH]; intros line ops pn H E; cbn [flush_rows] in E.
  - inversion E; subst. constructor.
  - destruct (flush_line (S (length r)) r line 0 (-1)) as [a| |] eqn:Ea; cbn [bind] in E; try discriminate.
    destruct (flush_rows rows (line + 1)) as [b| |] eqn:Eb; cbn [bind] in E; try discriminate.
    inversion E; subst ops. clear E.
    destruct (H r (or_introl eq_refl)) as (W & RC).
    cbn [map flat_map]. rewrite xpay_app. apply pm_app.
    + rewrite row_exps_map.
      rewrite (flush_line_payload _ r line 0 (-1) a pn W RC (row_start_boundary r W) Ea).
      assert (El : length (abs_row r) = Z.to_nat (len r - 0)).
      { pose proof (zlen_abs_row r) as Hl. unfold zlen in Hl. lia. }
      rewrite El. apply pm_cells. apply Forall2_map_in. intros x Hx. apply in_zseq in Hx.
      apply cell_admissible; [exact W|exact RC|lia].
    + apply (IH (line + 1) b _ (fun r' Hr' => H r' (or_intror Hr')) Eb).
Qed.

(* The printable text a flush sends -- the code points of all its prints, in order -- is the
   sequence of the expected cell texts of the buffer in row-major order: every visible
   grapheme once, nothing for Skip and Erase cells (Erase goes out as ECH), a blank or nothing
   for a half-visible double-width character; in particular nothing of the hidden part of a
   string is ever sent. *)
Theorem flush_payload : forall s ops s' pn,
  Inv s -> acells_ok (abs_rb s) -> flush s = Ok (ops, s') ->
  payload_checkb (abs_rb s) (xterm_payload pn ops) = true.
Proof.
  intros s ops s' pn I Hc E. unfold flush in E.
  destruct (flush_rows (cells s) 0) as [o| |] eqn:Er; cbn [bind] in E; try discriminate.
  inversion E; subst o s'. clear E.
  unfold payload_checkb. cbv zeta. apply pm_sound; [|lia].
  cbn [abs_rb ag]. apply (flush_rows_payload (cells s) 0 ops pn); [|exact Er].
  intros r Hr. apply In_nth with (d := []) in Hr. destruct Hr as (k & Hk & <-).
  assert (Hy : 0 <= Z.of_nat k < rb_lines s) by (rewrite <- (inv_lines s I); unfold zlen; lia).
  destruct (inv_rows s I (Z.of_nat k) Hy) as (_ & W & _).
  assert (RC := rows_content_ok s (Z.of_nat k) I Hc Hy).
  unfold zn in W, RC. rewrite Nat2Z.id in W, RC. split; assumption.
Qed.

Theorem flush_payload_reachable : forall L C prog s v pn,
  0 <= L -> 0 <= C -> Forall op_ok prog -> run (rb_new L C) prog = Ok (s, v) ->
  exists ops, flush s = Ok (ops, reset s) /\
    payload_checkb (fst (arun (a_new L C) prog)) (xterm_payload pn ops) = true.
Proof.
  intros L C prog s v pn HL HC Ho E.
  destruct (program_refines L C prog HL HC) as (t & w & F & I & Ab & _). rewrite E in F. inversion F; subst t w.
  assert (Hc : acells_ok (abs_rb s)).
  { rewrite Ab. apply arun_aok; [exact Ho|apply ashape_new; assumption|apply aok_new; assumption]. }
  destruct (flush_total_and_resets s I) as (ops & Ef & _).
  exists ops. split; [exact Ef|].
  rewrite <- Ab. exact (flush_payload s ops (reset s) pn I Hc Ef).
Qed.
