(* WinScrollXterm.v -- the window layer's scroll model (C01) on top of the PROVED xterm driver
   (C09).

   The window layer's abstract terminal (WinDefs.term) answers a scroll request by asking an
   ORACLE; the C01 scroll theorems hold for every oracle.  Here the oracle is the xterm
   driver itself ([xterm_oracle slrm]: the return value of xt_scrollrect), and the abstract
   terminal's grid is tied to the glyphs of a VT-conformant screen ([VR tm v]).  Then
     - one request of the window layer is one request of the driver, in range, and after the
       driver's tokens have run on the VT the two screens still agree (term_scroll_xterm);
     - so does the whole of _scroll (win_scroll_xterm; the tokens: win_scroll_tokens);
     - and C01_scroll_spec holds of the glyphs of the VT screen (win_scroll_spec_xterm).

   Names: the xterm files are imported FIRST, the window files after them, so unqualified
   [rect], [mkRect], [cell], [term], [t_lines], [t_cols] ... are the window layer's; the xterm
   side's are written qualified (XtermDefs.rect, XtermDefs.mkRect, VT.cell). *)
From Coq Require Import ZArith List Bool Lia ZifyBool.
From Tickit Require Import Csi VT XtermDefs XtermSpec XtermProofs.
From Tickit Require Import RectDefs RectProofs WinRectSet WinRectSetProofs WinDefs WinSpec
  WinExposeProofs WinFlushProofs WinLogDisjoint WinScreenInv WinLocality WinPreserve WinScrollDesc
  WinScrollRegion WinScrollFold WinScrollSpec.
Import ListNotations.
Local Open Scope Z_scope.
Local Strategy 1000 [rsfuel].

(* ------------------------------------------------------------------------------------ *)
(* (a) conversions, the glyph view, the driver as an oracle                              *)

Definition xr (r : RectDefs.rect) : XtermDefs.rect :=
  XtermDefs.mkRect (top r) (left r) (lines r) (cols r).

(* the abstract terminal shows the glyphs of the VT screen *)
Definition VR (tm : WinDefs.term) (v : vt) : Prop :=
  WinDefs.t_lines tm = v_lines v /\ WinDefs.t_cols tm = v_cols v /\
  forall y x, 0 <= y < v_lines v -> 0 <= x < v_cols v ->
              WinDefs.t_grid tm (y, x) = c_glyph (v_grid v y x).

Definition xterm_oracle (slrm : bool) : nat -> Z -> Z -> RectDefs.rect -> Z -> Z -> bool :=
  fun _ _ cols r d rt => fst (xt_scrollrect slrm cols (xr r) d rt).

(* a rectangle of positive size on an L x C screen *)
Definition on_screen (L C : Z) (r : RectDefs.rect) : Prop :=
  0 <= top r /\ 0 <= left r /\ 0 < lines r /\ 0 < cols r /\ bottom r <= L /\ right r <= C.

Lemma in_rect_xr r y x : in_rect (xr r) y x = cell_inb r (y, x).
Proof. reflexivity. Qed.

Lemma in_range_on_screen r d rt v :
  in_range (RScroll (xr r) d rt) v <->
  on_screen (v_lines v) (v_cols v) r /\ Z.abs d < lines r /\ Z.abs rt < cols r.
Proof.
  unfold in_range, in_rangeb, on_screen, r_bottom, r_right, xr, bottom, right.
  cbn [r_top r_left r_lines r_cols]. lia.
Qed.

Lemma clamp_on_screen tm r :
  on_screen (WinDefs.t_lines tm) (WinDefs.t_cols tm) r -> term_clamp tm r = Some r.
Proof.
  unfold on_screen, term_clamp, r_intersect, init_bounded, bottom, right. cbn [top left lines cols].
  intros H. destruct r as [t l n c]; cbn [top left lines cols] in *.
  replace (Z.max t 0) with t by lia. replace (Z.min (t + n) (0 + WinDefs.t_lines tm)) with (t + n) by lia.
  replace (Z.max l 0) with l by lia. replace (Z.min (l + c) (0 + WinDefs.t_cols tm)) with (l + c) by lia.
  replace (t >=? t + n) with false by lia. replace (l >=? l + c) with false by lia.
  f_equal. f_equal; lia.
Qed.

Lemma cell_eqb_glyph a b : cell_eqb a b = true -> c_glyph a = c_glyph b.
Proof. unfold cell_eqb. lia. Qed.

Lemma modes_eqb_eq a b : modes_eqb a b = true -> a = b.
Proof.
  unfold modes_eqb. destruct a, b; cbn.
  rewrite !andb_true_iff, !eqb_true_iff, !Z.eqb_eq. intros H. decompose [and] H. subst. reflexivity.
Qed.

(* ------------------------------------------------------------------------------------ *)
(* (b) one request                                                                       *)

(* with everything a loop over requests wants to know *)
Lemma term_scroll_xterm_full slrm tm v r d rt :
  VR tm v -> vt_ok v -> in_range (RScroll (xr r) d rt) v ->
  (slrm = true -> md_lrmm (v_md v) = true) ->
  t_oracle tm = xterm_oracle slrm ->
  let ts := snd (xt_scrollrect slrm (v_cols v) (xr r) d rt) in
  let v' := vt_run ts v in
  ts = snd (xt_scrollrect slrm (WinDefs.t_cols tm) (xr r) d rt) /\
  snd (term_scroll tm r d rt) = fst (xt_scrollrect slrm (v_cols v) (xr r) d rt) /\
  VR (fst (term_scroll tm r d rt)) v' /\ vt_ok v' /\
  t_oracle (fst (term_scroll tm r d rt)) = xterm_oracle slrm /\
  v_lines v' = v_lines v /\ v_cols v' = v_cols v /\ v_md v' = v_md v.
Proof.
  intros (Hl & Hc & Hg) Hok Hin Hlr Horc ts v'.
  destruct (scroll_ok v slrm (xr r) d rt Hok Hin Hlr) as [Heff Hok'].
  fold ts in Heff, Hok'. fold v' in Heff, Hok'.
  apply in_range_on_screen in Hin. destruct Hin as (Hon & Hd & Hrt).
  assert (Hclamp : term_clamp tm r = Some r).
  { apply clamp_on_screen. rewrite Hl, Hc. exact Hon. }
  assert (Hacc : t_oracle tm (t_nreq tm) (WinDefs.t_lines tm) (WinDefs.t_cols tm) r d rt =
                 fst (xt_scrollrect slrm (v_cols v) (xr r) d rt)).
  { rewrite Horc, Hc. reflexivity. }
  split; [unfold ts; rewrite Hc; reflexivity|].
  split; [unfold term_scroll; cbn [snd]; exact Hacc|].
  unfold term_scroll; cbn [fst]. rewrite Hacc, Hclamp.
  destruct (fst (xt_scrollrect slrm (v_cols v) (xr r) d rt)) eqn:Eret.
  - (* accepted *)
    cbn [effect_ok] in Heff. destruct Heff as (Hfr & _ & _ & Hcells).
    unfold frame_okb in Hfr. rewrite !andb_true_iff, !Z.eqb_eq in Hfr.
    destruct Hfr as [[[Hl' Hc'] _] Hmd]. apply modes_eqb_eq in Hmd.
    split; [|split; [exact Hok'|split; [exact Horc|split; [exact Hl'|split; [exact Hc'|exact Hmd]]]]].
    unfold VR. cbn [WinDefs.t_lines WinDefs.t_cols t_grid]. rewrite Hl', Hc'.
    split; [exact Hl|]. split; [exact Hc|]. intros y x Hy Hx.
    specialize (Hcells y x Hy Hx). cbn [effect_cellb] in Hcells. rewrite !in_rect_xr in Hcells.
    cbn [fst snd]. destruct (cell_inb r (y, x)) eqn:E1.
    + destruct (cell_inb r (y + d, x + rt)) eqn:E2.
      * apply cell_eqb_glyph in Hcells. rewrite Hcells. apply Hg.
        -- apply cell_inb_iff in E2. unfold on_screen, cell_in, bottom, right in *. cbn [fst snd] in E2. lia.
        -- apply cell_inb_iff in E2. unfold on_screen, cell_in, bottom, right in *. cbn [fst snd] in E2. lia.
      * unfold BLANK. lia.
    + apply cell_eqb_glyph in Hcells. rewrite Hcells. apply Hg; assumption.
  - (* refused: nothing was written *)
    assert (Ets : ts = []).
    { apply (scrollrect_fail_silent slrm (v_cols v) (xr r) d rt). unfold ts.
      rewrite <- Eret. apply surjective_pairing. }
    assert (Ev : v' = v) by (unfold v'; rewrite Ets; reflexivity).
    rewrite Ev.
    split; [|split; [exact Hok|split; [exact Horc|split; [reflexivity|split; reflexivity]]]].
    unfold VR. cbn [WinDefs.t_lines WinDefs.t_cols t_grid]. split; [exact Hl|]. split; [exact Hc|exact Hg].
Qed.

(* ITERABLE: the conclusion re-establishes every hypothesis about the terminal and the VT
   (VR, vt_ok, the oracle, the DECLRMM capability) *)
Theorem term_scroll_xterm : forall slrm tm v r d rt,
  VR tm v -> vt_ok v -> in_range (RScroll (xr r) d rt) v ->
  (slrm = true -> md_lrmm (v_md v) = true) ->
  t_oracle tm = xterm_oracle slrm ->
  let ts := snd (xt_scrollrect slrm (v_cols v) (xr r) d rt) in
  let v' := vt_run ts v in
  snd (term_scroll tm r d rt) = fst (xt_scrollrect slrm (v_cols v) (xr r) d rt) /\
  VR (fst (term_scroll tm r d rt)) v' /\ vt_ok v' /\
  t_oracle (fst (term_scroll tm r d rt)) = xterm_oracle slrm /\
  v_md v' = v_md v /\ (slrm = true -> md_lrmm (v_md v') = true).
Proof.
  intros slrm tm v r d rt HVR Hok Hin Hlr Horc ts v'.
  destruct (term_scroll_xterm_full slrm tm v r d rt HVR Hok Hin Hlr Horc)
    as (_ & H1 & H2 & H3 & H4 & _ & _ & H5).
  fold ts in H1, H2, H3, H5. fold v' in H2, H3, H5.
  repeat (split; [assumption|]). rewrite H5. exact Hlr.
Qed.

(* ------------------------------------------------------------------------------------ *)
(* (c) the whole _scroll                                                                 *)

(* what the driver writes during one iteration of the loop of _scroll: the tokens of the
   one scrollrect request it makes, if it makes one *)
Definition scroll_one_tokens (slrm : bool) (down rightw : Z)
  (acc : root * term * bool * bool) (rc : rect) : list token :=
  let '(st, tm, _, _) := acc in
  if (Z.abs down >=? lines rc) || (Z.abs rightw >=? cols rc) then []
  else match shift_damage (r_fuel st) (r_damage st) rc down rightw with
       | None => []
       | Some _ => snd (xt_scrollrect slrm (t_cols tm) (xr rc) down rightw)
       end.

Fixpoint scroll_fold_tokens (slrm : bool) (id abs_t abs_l down rightw : Z) (v : list rect)
  (acc : root * term * bool * bool) : list token :=
  match v with
  | [] => []
  | rc :: rest =>
    scroll_one_tokens slrm down rightw acc rc ++
    scroll_fold_tokens slrm id abs_t abs_l down rightw rest (scroll_one id abs_t abs_l down rightw acc rc)
  end.

(* the tokens of a whole win_scroll (same case analysis as win_scroll itself) *)
Definition win_scroll_tokens (slrm : bool) (cfg : defects) (st : root) (tm : term) (id : Z)
  (orig : option rect) (down rightw : Z) (mask_children : bool) : list token :=
  match t_chain id (r_tree st) with
  | None => []
  | Some chain =>
    match chain with
    | [] => []
    | w :: _ =>
      let self := selfrect (t_info w) in
      match (match orig with Some o => r_intersect self o | None => r_intersect self self end) with
      | None => []
      | Some rc =>
        match rs_add (r_fuel st) [] rc with
        | None => []
        | Some v0 =>
          match (if mask_children then rs_sub_vis (r_fuel st) (Some v0) (t_kids w) else Some v0) with
          | None => []
          | Some v1 =>
            match scroll_region cfg (r_fuel st) chain v1 0 0 with
            | SFault => []
            | SInvisible => []
            | SRegion v abs_t abs_l =>
              scroll_fold_tokens slrm id abs_t abs_l down rightw v (st, tm, true, false)
            end
          end
        end
      end
    end
  end.

Definition acc_tm (acc : root * term * bool * bool) : term := snd (fst (fst acc)).

(* what the loop needs of the terminal and the VT, and gives back *)
Definition XInv (slrm : bool) (L C : Z) (tm : term) (v : vt) : Prop :=
  VR tm v /\ vt_ok v /\ t_oracle tm = xterm_oracle slrm /\
  (slrm = true -> md_lrmm (v_md v) = true) /\ v_lines v = L /\ v_cols v = C.

Lemma scroll_one_xterm slrm id a b d r L C s tm ret dp rc v :
  on_screen L C rc -> XInv slrm L C tm v ->
  let v' := vt_run (scroll_one_tokens slrm d r (s, tm, ret, dp) rc) v in
  XInv slrm L C (acc_tm (scroll_one id a b d r (s, tm, ret, dp) rc)) v' /\ v_md v' = v_md v.
Proof.
  intros Hon (HVR & Hok & Horc & Hlr & HL & HC). unfold scroll_one, scroll_one_tokens, acc_tm.
  destruct ((Z.abs d >=? lines rc) || (Z.abs r >=? cols rc)) eqn:Ebig.
  - cbn [fst snd vt_run fold_left]. unfold XInv. tauto.
  - destruct (shift_damage (r_fuel s) (r_damage s) rc d r) as [dmg|].
    2:{ cbn [fst snd vt_run fold_left]. unfold XInv. tauto. }
    set (tm1 := if dp then tm else term_set_cvis tm false).
    assert (HVR1 : VR tm1 v) by (unfold tm1; destruct dp; exact HVR).
    assert (Horc1 : t_oracle tm1 = xterm_oracle slrm) by (unfold tm1; destruct dp; exact Horc).
    assert (Hc1 : t_cols tm1 = t_cols tm) by (unfold tm1; destruct dp; reflexivity).
    assert (Hin : in_range (RScroll (xr rc) d r) v).
    { apply in_range_on_screen. rewrite HL, HC. split; [exact Hon|]. lia. }
    destruct (term_scroll_xterm_full slrm tm1 v rc d r HVR1 Hok Hin Hlr Horc1)
      as (Hts & _ & H2 & H3 & H4 & H5 & H6 & H7).
    rewrite Hc1 in Hts. rewrite <- Hts.
    set (v' := vt_run (snd (xt_scrollrect slrm (v_cols v) (xr rc) d r)) v) in *.
    destruct (term_scroll tm1 rc d r) as [tm2 acc'] eqn:Ets. cbn [fst] in H2, H4.
    assert (HX : XInv slrm L C tm2 v').
    { unfold XInv. rewrite H5, H6, H7. tauto. }
    destruct acc'; cbn [fst snd]; split; assumption.
Qed.

Lemma scroll_fold_xterm slrm id a b d r L C : forall V s tm ret dp v,
  Forall (on_screen L C) V -> XInv slrm L C tm v ->
  let v' := vt_run (scroll_fold_tokens slrm id a b d r V (s, tm, ret, dp)) v in
  XInv slrm L C (acc_tm (fold_left (scroll_one id a b d r) V (s, tm, ret, dp))) v' /\
  v_md v' = v_md v.
Proof.
  induction V as [|rc V IH]; intros s tm ret dp v HV HX.
  - cbn [scroll_fold_tokens fold_left vt_run acc_tm fst snd]. split; [exact HX|reflexivity].
  - inversion HV as [|? ? Hrc HV']; subst.
    cbn [scroll_fold_tokens fold_left]. rewrite vt_run_app.
    destruct (scroll_one_xterm slrm id a b d r L C s tm ret dp rc v Hrc HX) as [HX1 Hmd1].
    destruct (scroll_one id a b d r (s, tm, ret, dp) rc) as [[[s1 tm1] r1] dp1] eqn:E1.
    cbn [acc_tm fst snd] in HX1.
    destruct (IH s1 tm1 r1 dp1 _ HV' HX1) as [HX2 Hmd2].
    split; [exact HX2|]. cbv zeta in Hmd2. rewrite Hmd2. exact Hmd1.
Qed.

(* the case analysis of win_scroll: either nothing reaches the terminal, or the loop runs
   over rectangles that all lie on the screen with positive size (they are the pieces of the
   visible region, which is clipped to every ancestor, the root included, and the root is the
   screen) *)
Lemma win_scroll_unfold slrm app st tm id orig d r mask :
  ScreenInv app st tm -> NoDup (t_ids (r_tree st)) -> vis_nonempty (r_tree st) ->
  (exists s0, win_scroll no_defects st tm id orig d r mask = (s0, tm, false) /\
              win_scroll_tokens slrm no_defects st tm id orig d r mask = []) \/
  exists V a b,
    Forall (on_screen (t_lines tm) (t_cols tm)) V /\
    win_scroll no_defects st tm id orig d r mask =
      (let '(st1, tm1, ret, done_pen) := fold_left (scroll_one id a b d r) V (st, tm, true, false) in
       (if done_pen then request_restore st1 else st1, tm1, ret)) /\
    win_scroll_tokens slrm no_defects st tm id orig d r mask =
      scroll_fold_tokens slrm id a b d r V (st, tm, true, false).
Proof.
  intros SI Hu Hvn.
  pose proof SI as [[Ho1 Ho2] Hrv [Hs1 Hs2] Hne Hc [Hf1 Hf2]].
  set (T := r_tree st) in *.
  unfold win_scroll, win_scroll_tokens. fold T.
  destruct (t_chain id T) as [[|w rest]|] eqn:Ech; try (left; eexists; split; reflexivity).
  destruct (chain_head id T w rest Hu Ech) as (Hfw & pth & Hpath & Hchain).
  destruct (t_find_sub _ _ _ Hfw) as [Hsw Hidw].
  set (self := selfrect (t_info w)) in *.
  destruct (match orig with Some o => r_intersect self o | None => r_intersect self self end)
    as [rc|] eqn:Erc; [|left; eexists; split; reflexivity].
  assert (Hrc : nonempty rc /\ forall p, cell_in rc p <-> cell_in self p /\ ex_has orig p).
  { destruct orig as [o|]; apply intersect_some in Erc; destruct Erc as [Hn Hi]; (split; [exact Hn|]);
      intros p; rewrite Hi; cbn [ex_has]; tauto. }
  destruct Hrc as [Hrcne Hrcin].
  destruct (rs_add (r_fuel st) [] rc) as [v0|] eqn:Ev0; [|left; eexists; split; reflexivity].
  destruct (rs_add_inv _ _ _ _ inv_nil Hrcne Ev0) as [Hinv0 Hcov0].
  destruct (if mask then rs_sub_vis (r_fuel st) (Some v0) (t_kids w) else Some v0) as [v1|] eqn:Ev1;
    [|left; eexists; split; reflexivity].
  assert (Hv1 : Inv v1 /\ forall p, covered v1 p <->
                  cell_in rc p /\ (mask = true -> vis_cover (t_kids w) p = false)).
  { destruct mask.
    - destruct (rs_sub_vis_exact (rfuel:=(r_fuel st)) (t_kids w) v0 v1 Hinv0) as [Hi Hcv]; [|exact Ev1|].
      + apply Forall_forall. intros c Hc0. apply Hvn.
        eapply subtree_trans; [apply subtree_kid; exact Hc0|exact Hsw].
      + split; [exact Hi|]. intros p. rewrite Hcv, Hcov0, covered_nil, <- vis_cover_false_iff. tauto.
    - injection Ev1 as <-. split; [exact Hinv0|]. intros p. rewrite Hcov0, covered_nil.
      split; [intros [[]|Hp]; split; [exact Hp|discriminate]|tauto]. }
  destruct Hv1 as [Hinv1 Hcov1].
  destruct (kc_refl id T w Hu Hfw) as [D Hkc].
  assert (Hvself : forall i, subtree (Node i (t_kids w)) T -> w_id i = id ->
                   forall p, covered v1 p -> cell_in (selfrect i) p).
  { intros i Hs Hi p Hp. pose proof (t_find_subtree _ _ Hs Hu) as Hfi.
    unfold t_id in Hfi; cbn [t_info] in Hfi. rewrite Hi, Hfw in Hfi. injection Hfi as Hw.
    apply Hcov1 in Hp. destruct Hp as [Hp _]. apply Hrcin in Hp. destruct Hp as [Hp _].
    unfold self in Hp. rewrite Hw in Hp. exact Hp. }
  pose proof (scroll_region_spec (rfuel:=(r_fuel st)) id _ _ T T D Hkc Hu Hvn pth v1 Hpath Hinv1 Hvself) as Hreg.
  rewrite Hchain.
  destruct (scroll_region no_defects (r_fuel st) (rev (T :: pth)) v1 0 0) as [| |V a b];
    try (left; eexists; split; reflexivity).
  destruct Hreg as (_ & HinvV & _ & _ & HcovV).
  destruct (inv_disjoint V HinvV) as [_ HneV].
  right. exists V, a, b. split; [|split; reflexivity].
  apply Forall_forall. intros x Hx.
  unfold all_nonempty in HneV. rewrite Forall_forall in HneV. pose proof (HneV x Hx) as [Hxl Hxc].
  assert (Hin : forall q, cell_in x q -> cell_in (selfrect (t_info T)) q).
  { intros q Hq. apply (proj1 (HcovV q)). exists x. split; assumption. }
  pose proof (Hin (top x, left x)) as H1. pose proof (Hin (bottom x - 1, right x - 1)) as H2.
  unfold cell_in, selfrect, bottom, right in H1, H2. cbn [top left lines cols fst snd] in H1, H2.
  unfold on_screen, bottom, right. rewrite Hs1, Hs2. lia.
Qed.

Theorem win_scroll_xterm : forall slrm app st tm v id orig d r mask st' tm' ret,
  ScreenInv app st tm -> NoDup (t_ids (r_tree st)) -> vis_nonempty (r_tree st) ->
  VR tm v -> vt_ok v -> (slrm = true -> md_lrmm (v_md v) = true) -> t_oracle tm = xterm_oracle slrm ->
  win_scroll no_defects st tm id orig d r mask = (st', tm', ret) ->
  let v' := vt_run (win_scroll_tokens slrm no_defects st tm id orig d r mask) v in
  VR tm' v' /\ vt_ok v' /\ t_oracle tm' = xterm_oracle slrm /\
  v_md v' = v_md v /\ (slrm = true -> md_lrmm (v_md v') = true).
Proof.
  intros slrm app st tm v id orig d r mask st' tm' ret SI Hu Hvn HVR Hok Hlr Horc H v'.
  destruct (win_scroll_unfold slrm app st tm id orig d r mask SI Hu Hvn)
    as [(s0 & E1 & E2)|(V & a & b & HV & E1 & E2)].
  - rewrite E1 in H. injection H as _ <- _. unfold v'. rewrite E2. cbn [vt_run fold_left]. tauto.
  - assert (HX : XInv slrm (t_lines tm) (t_cols tm) tm v).
    { unfold XInv. destruct HVR as (A & B & G). repeat (split; try assumption); symmetry; assumption. }
    destruct (scroll_fold_xterm slrm id a b d r _ _ V st tm true false v HV HX) as [HX' Hmd].
    rewrite <- E2 in HX', Hmd. fold v' in HX', Hmd.
    rewrite E1 in H.
    destruct (fold_left (scroll_one id a b d r) V (st, tm, true, false)) as [[[s1 tm1] r1] dp1].
    injection H as _ <- _. cbn [acc_tm fst snd] in HX'.
    destruct HX' as (A & B & C & D & _). rewrite Hmd in D |- *. tauto.
Qed.

(* ------------------------------------------------------------------------------------ *)
(* (d) C01_scroll_spec about the glyphs of the VT screen after the driver's tokens       *)

Theorem win_scroll_spec_xterm : forall slrm app st tm v id orig d r mask st' tm' ret,
  ScreenInv app st tm -> NoDup (t_ids (r_tree st)) -> vis_nonempty (r_tree st) ->
  VR tm v -> vt_ok v -> (slrm = true -> md_lrmm (v_md v) = true) -> t_oracle tm = xterm_oracle slrm ->
  win_scroll no_defects st tm id orig d r mask = (st', tm', ret) -> r_fault st' = false ->
  let v' := vt_run (win_scroll_tokens slrm no_defects st tm id orig d r mask) v in
  forall q, cell_inb (root_selfrect st) q = true ->
    covered (r_damage st') q \/
    (~ scrollV (r_tree st) id orig mask q /\
     c_glyph (v_grid v' (fst q) (snd q)) = shows app (r_tree st) q) \/
    (scrollV (r_tree st) id orig mask q /\
     scrollV (r_tree st) id orig mask (fst q + d, snd q + r) /\
     c_glyph (v_grid v' (fst q) (snd q)) = shows app (r_tree st) (fst q + d, snd q + r)).
Proof.
  intros slrm app st tm v id orig d r mask st' tm' ret SI Hu Hvn HVR Hok Hlr Horc H Hf v' q Hq.
  destruct (win_scroll_spec app st tm id orig d r mask st' tm' ret SI Hu Hvn H Hf)
    as (_ & _ & Hl & Hc & _ & _ & Hcells).
  destruct (win_scroll_xterm slrm app st tm v id orig d r mask st' tm' ret SI Hu Hvn HVR Hok Hlr Horc H)
    as ((Hl' & Hc' & Hg) & _).
  fold v' in Hl', Hc', Hg.
  destruct SI as [_ _ [Hs1 Hs2] _ _ _].
  assert (Hgq : t_grid tm' q = c_glyph (v_grid v' (fst q) (snd q))).
  { rewrite (surjective_pairing q) at 1.
    apply cell_inb_iff in Hq. unfold cell_in, root_selfrect, selfrect, bottom, right in Hq.
    cbn [top left lines cols] in Hq. apply Hg; lia. }
  rewrite <- Hgq. apply Hcells. exact Hq.
Qed.

(* ------------------------------------------------------------------------------------ *)
(* (e) non-vacuity: a 4x6 root with one 2x3 child at (1,1); the screen shows the
   composition, nothing is damaged; the driver has the DECSLRM capability.  Scrolling the
   child up by one line is accepted by the driver, which writes DECSTBM + DECSLRM + CUP +
   DL + the two resets; afterwards the child's first line shows what its second line
   showed, and its second line is pending damage. *)

Definition ex_tree : wtree :=
  Node (new_info 0 (mkRect 0 0 4 6) false false) [Node (new_info 1 (mkRect 1 1 2 3) false false) []].
Definition ex_st : root := mkRoot ex_tree [] [] [] false false false false false 0 (-1) (-1) None rsfuel.
Definition ex_app : Z -> Z -> Z -> Z := fun id l c => 1000 + id * 100 + l * 10 + c.
Definition ex_v : vt :=
  VT.set_grid (vt_run xt_start (vt_init 4 6))
              (fun y x => VT.mkCell (shows ex_app ex_tree (y, x)) default_attrs).
Definition ex_tm : term :=
  mkTerm 4 6 (fun q => shows ex_app ex_tree q) false (-1) (-1) 0 0 O (xterm_oracle true).
Definition ex_tokens : list token := win_scroll_tokens true no_defects ex_st ex_tm 1 None 1 0 true.
Definition ex_v' : vt := vt_run ex_tokens ex_v.

Lemma ex_screeninv : ScreenInv ex_app ex_st ex_tm.
Proof.
  constructor.
  - split; reflexivity.
  - reflexivity.
  - split; reflexivity.
  - constructor.
  - intros q _. left. reflexivity.
  - split; intros H; exfalso; apply H; reflexivity.
Qed.

Lemma ex_nodup : NoDup (t_ids (r_tree ex_st)).
Proof.
  cbn. constructor; [intros [H|[]]; discriminate|]. constructor; [intros []|constructor].
Qed.

Lemma ex_vis_nonempty : vis_nonempty (r_tree ex_st).
Proof.
  intros n Hs _. cbn [r_tree ex_st] in Hs. unfold ex_tree in Hs.
  inversion Hs as [|i ch c Hin Hs']; subst.
  - unfold nonempty; cbn; lia.
  - destruct Hin as [<-|[]]. inversion Hs' as [|i' ch' c' Hin' _]; subst.
    + unfold nonempty; cbn; lia.
    + destruct Hin'.
Qed.

Lemma ex_VR : VR ex_tm ex_v.
Proof. split; [reflexivity|]. split; [reflexivity|]. intros y x _ _. reflexivity. Qed.

Example win_scroll_xterm_nonvacuous :
  (* the hypotheses of win_scroll_spec_xterm *)
  ScreenInv ex_app ex_st ex_tm /\ NoDup (t_ids (r_tree ex_st)) /\ vis_nonempty (r_tree ex_st) /\
  VR ex_tm ex_v /\ vt_ok ex_v /\ md_lrmm (v_md ex_v) = true /\ t_oracle ex_tm = xterm_oracle true /\
  r_fault (fst (fst (win_scroll no_defects ex_st ex_tm 1 None 1 0 true))) = false /\
  (* the driver accepted, and wrote something *)
  snd (win_scroll no_defects ex_st ex_tm 1 None 1 0 true) = true /\
  length ex_tokens = 6%nat /\
  (* the moved cell: screen (1,1) = the child's (0,0) now holds what screen (2,1) held, which
     is what the child painted at its (1,0) *)
  c_glyph (v_grid ex_v' 1 1) = c_glyph (v_grid ex_v 2 1) /\
  c_glyph (v_grid ex_v' 1 1) = ex_app 1 1 0 /\
  c_glyph (v_grid ex_v 1 1) = ex_app 1 0 0 /\
  (* outside the child nothing moved; the vacated line is blank and pending damage *)
  c_glyph (v_grid ex_v' 1 0) = ex_app 0 1 0 /\
  c_glyph (v_grid ex_v' 2 1) = 32 /\
  r_damage (fst (fst (win_scroll no_defects ex_st ex_tm 1 None 1 0 true))) = [mkRect 2 1 1 3].
Proof.
  split; [exact ex_screeninv|]. split; [exact ex_nodup|]. split; [exact ex_vis_nonempty|].
  split; [exact ex_VR|]. vm_compute. repeat split; reflexivity.
Qed.

(* ... and the theorem applied to it *)
Example win_scroll_spec_xterm_instance :
  forall q, cell_inb (mkRect 0 0 4 6) q = true ->
    covered [mkRect 2 1 1 3] q \/
    (~ scrollV ex_tree 1 None true q /\ c_glyph (v_grid ex_v' (fst q) (snd q)) = shows ex_app ex_tree q) \/
    (scrollV ex_tree 1 None true q /\ scrollV ex_tree 1 None true (fst q + 1, snd q + 0) /\
     c_glyph (v_grid ex_v' (fst q) (snd q)) = shows ex_app ex_tree (fst q + 1, snd q + 0)).
Proof.
  destruct win_scroll_xterm_nonvacuous as (H1 & H2 & H3 & H4 & H5 & H6 & H7 & H8 & _ & _ & _ & _ & _ & _ & _ & H9).
  destruct (win_scroll no_defects ex_st ex_tm 1 None 1 0 true) as [[st' tm'] ret] eqn:E.
  cbn [fst snd] in H8, H9. rewrite <- H9.
  exact (win_scroll_spec_xterm true ex_app ex_st ex_tm ex_v 1 None 1 0 true st' tm' ret
           H1 H2 H3 H4 H5 (fun _ => H6) H7 E H8).
Qed.

Print Assumptions term_scroll_xterm.
Print Assumptions win_scroll_xterm.
Print Assumptions win_scroll_spec_xterm.
Print Assumptions win_scroll_xterm_nonvacuous.
Print Assumptions win_scroll_spec_xterm_instance.
