(* RBSpec.v -- the abstract specification of property C03: a grid of cells, each holding
   what the last operation that covered it (while clipped-in and unmasked) put there, and
   the boolean checkers the oracle evaluates on the implementation's own observations.

   Every drawing operation is defined PER CELL: a cell (y, x) takes the new content iff it
   lies in the operation's target range shifted by the translation in force, inside the
   clipping rectangle, and is not masked.  Nothing here knows about spans. *)
From Coq Require Import ZArith List Bool.
From Tickit Require Import RectDefs RBDefs.
Import ListNotations.
Local Open Scope Z_scope.

(* what a cell shows *)
Inductive cellc :=
| ASkip
| AText (p : pen) (s : list Z) (col : Z)   (* column [col] of string [s] *)
| AErase (p : pen)
| ALine (p : pen) (mask : Z)
| AChar (p : pen) (cp : Z).

Record acell := mkA { ac : cellc; am : Z (* mask depth, -1 = not masked *) }.
Definition agrid := list (list acell).

(* the auxiliary state (cursor, translation, clip, pen, stack) is the same record as in the
   concrete model; only the cells are abstracted *)
Record ast := mkAst { a_lines : Z; a_cols : Z; ag : agrid; a_aux : auxst }.

Definition set_ag (s : ast) (g : agrid) : ast := mkAst (a_lines s) (a_cols s) g (a_aux s).
Definition set_a_aux (s : ast) (a : auxst) : ast := mkAst (a_lines s) (a_cols s) (ag s) a.

Definition a_new (lines cols : Z) : ast :=
  mkAst lines cols (repeat (repeat (mkA ASkip (-1)) (Z.to_nat cols)) (Z.to_nat lines)) (aux_new lines cols).

(* ---------------------------------------------------------------------------------- *)
(* the abstraction function: follow the startcol pointer of a continuation cell *)

Definition content_at (c : content) (k : Z) : cellc :=
  match c with
  | CSkip => ASkip
  | CText p s offs => AText p s (offs + k)
  | CErase p => AErase p
  | CLine p m => ALine p m
  | CChar p cp => AChar p cp
  end.

Definition abs_cell (r : row) (i : Z) : cellc :=
  match ck (get r i) with
  | Start c _ => content_at c 0
  | Cont sc =>
      match ck (get r sc) with
      | Start c _ => content_at c (i - sc)
      | Cont _ => ASkip
      end
  end.

Definition abs_row (r : row) : list acell := mapi (fun i cell => mkA (abs_cell r i) (cmask cell)) r.
Definition abs_rb (s : rb) : ast := mkAst (rb_lines s) (rb_cols s) (map abs_row (cells s)) (aux s).

(* ---------------------------------------------------------------------------------- *)
(* per-cell operations *)

(* cells of the rectangle [r] (given in the caller's coordinates) that the clip lets through *)
Definition target (a : auxst) (r : rect) (y x : Z) : bool :=
  cell_inb (r_translate r (xl a) (xc a)) (y, x) && cell_inb (clip a) (y, x).

Definition a_paint (s : ast) (r : rect) (f : Z -> Z -> cellc -> cellc) : ast :=
  set_ag s (mapi (fun y row =>
              mapi (fun x cell =>
                if target (a_aux s) r y x && (am cell =? -1) then mkA (f y x (ac cell)) (am cell) else cell)
              row) (ag s)).

Definition row_rect (l c n : Z) : rect := mkRect l c 1 n.

Definition a_skip (s : ast) (r : rect) : ast := a_paint s r (fun _ _ _ => ASkip).
Definition a_erase (s : ast) (r : rect) : ast := a_paint s r (fun _ _ _ => AErase (cur_pen (a_aux s))).
Definition a_text (s : ast) (l c : Z) (t : list Z) : ast :=
  a_paint s (row_rect l c (text_width t)) (fun _ x _ => AText (cur_pen (a_aux s)) t (x - (c + xc (a_aux s)))).
(* a character of one column is a Char cell; any other valid character is a one-character text *)
Definition a_char (s : ast) (l c cp : Z) : ast :=
  if negb (text_valid [cp]) then s
  else if cpw cp =? 1 then a_paint s (row_rect l c 1) (fun _ _ _ => AChar (cur_pen (a_aux s)) cp)
  else a_text s l c [cp].
(* a line segment merges into a line cell that is already there *)
Definition a_linecell (s : ast) (l c bits : Z) : ast :=
  a_paint s (row_rect l c 1)
    (fun _ _ old =>
       match old with
       | ALine p m => ALine (if pen_equiv p (cur_pen (a_aux s)) then p else cur_pen (a_aux s)) (Z.lor m bits)
       | _ => ALine (cur_pen (a_aux s)) (Z.lor 0 bits)
       end).

Definition a_mask (s : ast) (m : rect) : ast :=
  let hole := mask_hole (a_aux s) m in
  set_ag s (mapi (fun y row =>
              mapi (fun x cell =>
                if cell_inb hole (y, x) && (am cell =? -1) then mkA (ac cell) (depth (a_aux s)) else cell)
              row) (ag s)).

Definition a_restore (s : ast) : ast :=
  match stack (a_aux s) with
  | [] => s
  | _ :: _ =>
      let a := ax_restore (a_aux s) in
      mkAst (a_lines s) (a_cols s)
        (map (map (fun cell => if am cell >? depth a then mkA (ac cell) (-1) else cell)) (ag s)) a
  end.

Definition a_reset (s : ast) : ast :=
  mkAst (a_lines s) (a_cols s)
        (repeat (repeat (mkA ASkip (-1)) (Z.to_nat (a_cols s))) (Z.to_nat (a_lines s)))
        (ax_reset (a_aux s) (a_lines s) (a_cols s)).

Definition a_set_vc_col (s : ast) (c : Z) : ast :=
  set_a_aux s (ax_set_vc (a_aux s) (vc_set (a_aux s)) (vc_line (a_aux s)) c).

Definition astep (s : ast) (o : rbop) : ast * list Z :=
  let a := a_aux s in
  match o with
  | OTranslate dl dc => (set_a_aux s (ax_translate a dl dc), [])
  | OClip r => (set_a_aux s (ax_clip a r), [])
  | OMask r => (a_mask s r, [])
  | OSetPen p => (set_a_aux s (ax_setpen a p), [])
  | OGoto l c => (set_a_aux s (ax_set_vc a true l c), [])
  | OUngoto => (set_a_aux s (ax_set_vc a false (vc_line a) (vc_col a)), [])
  | OSave => (set_a_aux s (ax_save a), [])
  | OSavePen => (set_a_aux s (ax_savepen a), [])
  | ORestore => (a_restore s, [])
  | OReset => (a_reset s, [])
  | OSkipAt l c n => (a_skip s (row_rect l c n), [])
  | OSkip n =>
      if negb (vc_set a) then (s, [])
      else (a_set_vc_col (a_skip s (row_rect (vc_line a) (vc_col a) n)) (vc_col a + n), [])
  | OSkipTo c =>
      if negb (vc_set a) then (s, [])
      else (a_set_vc_col (a_skip s (row_rect (vc_line a) (vc_col a) (c - vc_col a))) c, [])
  | OSkipRect r => (a_skip s r, [])
  | OTextAt l c t =>
      if negb (text_valid t) then (s, [-1]) else (a_text s l c t, [text_width t])
  | OText t =>
      if negb (vc_set a) then (s, [-1])
      else if negb (text_valid t) then (s, [-1])
      else (a_set_vc_col (a_text s (vc_line a) (vc_col a) t) (vc_col a + text_width t), [text_width t])
  | OEraseAt l c n => (a_erase s (row_rect l c n), [])
  | OErase n =>
      if negb (vc_set a) then (s, [])
      else (a_set_vc_col (a_erase s (row_rect (vc_line a) (vc_col a) n)) (vc_col a + n), [])
  | OEraseTo c =>
      if negb (vc_set a) then (s, [])
      else (a_set_vc_col (a_erase s (row_rect (vc_line a) (vc_col a) (c - vc_col a))) c, [])
  | OEraseRect r => (a_erase s r, [])
  | OClear => (a_erase s (mkRect 0 0 (a_lines s) (a_cols s)), [])
  | OCharAt l c cp => (a_char s l c cp, [])
  | OChar cp =>
      if negb (vc_set a) then (s, [])
      else if text_valid [cp] && (0 <? cpw cp)
           then (a_set_vc_col (a_char s (vc_line a) (vc_col a) cp) (vc_col a + cpw cp), [])
           else (s, [])
  | OHLine l c1 c2 st caps =>
      (fold_left (fun acc cb => a_linecell acc l (fst cb) (snd cb)) (hline_bits c1 c2 st caps) s, [])
  | OVLine l1 l2 c st caps =>
      (fold_left (fun acc lb => a_linecell acc (fst lb) c (snd lb)) (vline_bits l1 l2 st caps) s, [])
  end.

Fixpoint arun (s : ast) (ops : list rbop) : ast * list Z :=
  match ops with
  | [] => (s, [])
  | o :: rest =>
      let '(s1, v1) := astep s o in
      let '(s2, v2) := arun s1 rest in
      (s2, v1 ++ v2)
  end.

(* ---------------------------------------------------------------------------------- *)
(* boolean equalities (for the oracle) *)

Fixpoint list_eqb {A} (eqb : A -> A -> bool) (a b : list A) : bool :=
  match a, b with
  | [], [] => true
  | x :: a', y :: b' => eqb x y && list_eqb eqb a' b'
  | _, _ => false
  end.

Definition cellc_eqb (a b : cellc) : bool :=
  match a, b with
  | ASkip, ASkip => true
  | AText p s c, AText q t d => pen_eqb p q && list_eqb Z.eqb s t && (c =? d)
  | AErase p, AErase q => pen_eqb p q
  | ALine p m, ALine q n => pen_eqb p q && (m =? n)
  | AChar p c, AChar q d => pen_eqb p q && (c =? d)
  | _, _ => false
  end.
Definition acell_eqb (a b : acell) : bool := cellc_eqb (ac a) (ac b) && (am a =? am b).
Definition agrid_eqb (a b : agrid) : bool := list_eqb (list_eqb acell_eqb) a b.

Definition rect_eqb (a b : rect) : bool :=
  (top a =? top b) && (left a =? left b) && (lines a =? lines b) && (cols a =? cols b).
(* a pen-only frame has no other meaningful field *)
Definition frame_eqb (a b : frame) : bool :=
  Bool.eqb (f_pen_only a) (f_pen_only b) && pen_eqb (f_pen a) (f_pen b) &&
  (f_pen_only a ||
   (Bool.eqb (f_vc_set a) (f_vc_set b) &&
    (negb (f_vc_set a) || ((f_vc_line a =? f_vc_line b) && (f_vc_col a =? f_vc_col b))) &&
    (f_xl a =? f_xl b) && (f_xc a =? f_xc b) && rect_eqb (f_clip a) (f_clip b))).
(* the cursor position is meaningful only while it is set; a clip with lines = 0 is empty
   whatever its other fields are *)
Definition aux_eqb (a b : auxst) : bool :=
  Bool.eqb (vc_set a) (vc_set b) &&
  (negb (vc_set a) || ((vc_line a =? vc_line b) && (vc_col a =? vc_col b))) &&
  (xl a =? xl b) && (xc a =? xc b) &&
  rect_eqb (clip a) (clip b) &&
  pen_eqb (cur_pen a) (cur_pen b) && (depth a =? depth b) && list_eqb frame_eqb (stack a) (stack b).

Definition ast_eqb (a b : ast) : bool :=
  (a_lines a =? a_lines b) && (a_cols a =? a_cols b) && agrid_eqb (ag a) (ag b) && aux_eqb (a_aux a) (a_aux b).

(* ---------------------------------------------------------------------------------- *)
(* well-formedness of a row of spans, as a boolean *)

Definition zseq (from : Z) (n : nat) : list Z := map (fun k => from + Z.of_nat k) (seq 0 n).
Definition nthz {A} (l : list A) (i : Z) (d : A) : A := if i <? 0 then d else nth (Z.to_nat i) l d.

Definition is_cont_of (r : row) (sc j : Z) : bool :=
  match ck (get r j) with Cont s => s =? sc | Start _ _ => false end.

Definition single_cell (c : content) : bool :=
  match c with CLine _ _ | CChar _ _ => true | _ => false end.

Definition wf_cellb (r : row) (i : Z) : bool :=
  match ck (get r i) with
  | Start c n =>
      (1 <=? n) && (i + n <=? len r) && (negb (single_cell c) || (n =? 1)) &&
      forallb (is_cont_of r i) (zseq (i + 1) (Z.to_nat (n - 1)))
  | Cont sc =>
      (0 <=? sc) && (sc <? i) &&
      match ck (get r sc) with Start _ n => i <? sc + n | Cont _ => false end
  end.

Definition wf_rowb (r : row) : bool := forallb (wf_cellb r) (zseq 0 (length r)).

Definition wf_rbb (s : rb) : bool :=
  (Z.of_nat (length (cells s)) =? rb_lines s) &&
  forallb (fun r => (len r =? rb_cols s) && wf_rowb r) (cells s).

(* ---------------------------------------------------------------------------------- *)
(* what the public inspection API shows for a cell (tickit_renderbuffer_get_cell_active,
   _text, _pen, _linemask) *)

(* the grapheme covering column [col] of [s] *)
Definition grapheme_at (s : list Z) (col : Z) : list Z :=
  let a := slice_start s col in
  let b := count_on s a (sp_gr a + 1) (-1) in
  slice s a b.

Record apiview := mkApi { v_active : Z; v_text : list Z; v_pen : option pen; v_linemask : Z }.

Definition api_of (c : cellc) : apiview :=
  match c with
  | ASkip => mkApi 0 [] None 0
  | AText p s col => mkApi 1 (grapheme_at s col) (Some p) 0
  | AErase p => mkApi 1 [] (Some p) 0
  | ALine p m => mkApi 1 [] (Some p) m
  | AChar p cp => mkApi 1 [cp] (Some p) 0
  end.

Definition open_eqb (a b : option pen) : bool :=
  match a, b with Some p, Some q => pen_eqb p q | None, None => true | _, _ => false end.
Definition api_eqb (a b : apiview) : bool :=
  (v_active a =? v_active b) && list_eqb Z.eqb (v_text a) (v_text b) && open_eqb (v_pen a) (v_pen b) &&
  (v_linemask a =? v_linemask b).

(* ---------------------------------------------------------------------------------- *)
(* the oracle's verdict on one dump: the implementation's raw cells [impl] (parsed into the
   concrete cell type) and what its inspection API reported, against the abstract state
   [want] the specification computes for the same program *)

Definition dump_checkb (want : ast) (impl : rb) (api : list (list apiview)) : bool :=
  wf_rbb impl &&
  ast_eqb (abs_rb impl) want &&
  list_eqb (list_eqb api_eqb) api (map (map (fun c => api_of (ac c))) (ag want)).
