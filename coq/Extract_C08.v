From Coq Require Extraction.
From Coq Require Import ExtrOcamlBasic.
From Tickit Require Import LifeDefs LifeSpec LifeProofs LifePenDefs LifeSpecEv.
Extraction "mC08.ml" run_script heap_empty chain_list queue_list fixed pinned fixedh heap0
  get_span_text get_span_call mock_display_text mock_trigger o_run
  wf_client gcheck all_dropped oracle_W oracle_O oracle_T client_okb event_free_op rb_run wf_trace.
