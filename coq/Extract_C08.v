From Coq Require Extraction.
From Coq Require Import ExtrOcamlBasic.
From Tickit Require Import LifeDefs.
Extraction "mC08.ml" run_script heap_empty chain_list queue_list fixed pinned.
