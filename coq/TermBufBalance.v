(* TermBufBalance.v -- C12 for a buffered terminal, on the bytes delivered: a terminal with an output buffer of
   any size that is taken through a history of control settings / reads / pause / resume (explicit flushes
   anywhere) ending in tickit_term_teardown or destruction has, by the end of that call, RECEIVED bytes that
   leave the screen in its initial modes (keypad aside, see the recorded finding) with the default rendition.
   Composition of TermBufProofs.brun_delivered (nothing is owed after teardown) with C12_balanced_nokp
   (token level) through lex (render ts) = ts; the mode tokens are shown well-formed here.  Pen requests are
   left out of this corollary (their tokens are well-formed by XtermBytes.pen_tokens_wf under the range
   hypothesis; the conservation theorems of TermBufProofs hold for them as for everything else). *)
From Coq Require Import ZArith List Bool Lia.
From Tickit Require Import Csi CsiProofs VT TermPenDefs TermPenSpec XtermDefs XtermSpec XtermBytes
  XtermModeSpec XtermModeProofs XtermModeFinal TermBufDefs TermBufProofs.
Import ListNotations.
Local Open Scope Z_scope.

Lemma wf_dec_mode : forall n on, 0 <= n -> wf_token (dec_mode n on).
Proof.
  intros n on Hn. unfold dec_mode. cbn. split; [lia|]. split.
  - split; [|discriminate]. repeat constructor; try discriminate; exact Hn.
  - split; [constructor|destruct on; lia].
Qed.

Lemma mode_for_mouse_nonneg : forall m, 0 <= mode_for_mouse m.
Proof. intros m. unfold mode_for_mouse. repeat match goal with |- context [if ?c then _ else _] => destruct c end; lia. Qed.

Lemma wf_mouse_tokens : forall m on, Forall wf_token (mouse_tokens m on).
Proof.
  intros m on. unfold mouse_tokens. constructor; [apply wf_dec_mode, mode_for_mouse_nonneg|].
  constructor; [apply wf_dec_mode; lia|constructor].
Qed.

Lemma wf_keypad : forall fin, fin = 61 \/ fin = 62 -> wf_token (TEsc [] fin).
Proof.
  intros fin H. cbn. split; [constructor|]. split; [lia|]. intros _. split; [lia|].
  destruct H as [-> | ->]; reflexivity.
Qed.

Lemma wf_decscusr : forall k, 0 <= k -> wf_token (TCsi None [[Some k]] [32] 113).
Proof.
  intros k Hk. cbn. split; [exact I|]. split.
  - split; [|discriminate]. repeat constructor; try discriminate; exact Hk.
  - split; [repeat constructor; lia|lia].
Qed.

Lemma wf_setctl : forall d c x, ctl_in_rangeb c x = true -> Forall wf_token (snd (fst (xt_setctl d c x))).
Proof.
  intros d c x Hr. unfold xt_setctl. destruct c; cbn [ctl_in_rangeb] in Hr; try discriminate Hr; cbv zeta;
    repeat match goal with |- context [if ?c then _ else _] => destruct c end; cbn [fst snd];
    try apply wf_mouse_tokens;
    repeat (first [apply Forall_nil | apply Forall_cons]);
    try (apply wf_dec_mode; lia); try (apply wf_keypad; auto); try (apply wf_decscusr; lia).
Qed.

Lemma wf_teardown : forall d, Forall wf_token (xt_teardown d).
Proof.
  intros d. unfold xt_teardown. repeat (apply Forall_app; split).
  - destruct (nz _); [apply wf_mouse_tokens|constructor].
  - destruct (negb _); [constructor; [apply wf_dec_mode; lia|constructor]|constructor].
  - destruct (m_altscreen _); [constructor; [apply wf_dec_mode; lia|constructor]|constructor].
  - destruct (m_keypad _); [constructor; [apply wf_keypad; auto|constructor]|constructor].
  - constructor; [apply wf_csi_0; lia|constructor].
Qed.

Lemma wf_resume : forall d, Forall wf_token (xt_resume d).
Proof.
  intros d. unfold xt_resume. repeat (apply Forall_app; split).
  - destruct (m_keypad _); [constructor; [apply wf_keypad; auto|constructor]|constructor].
  - destruct (m_altscreen _); [constructor; [apply wf_dec_mode; lia|constructor]|constructor].
  - destruct (negb _); [constructor; [apply wf_dec_mode; lia|constructor]|constructor].
  - destruct (nz _); [apply wf_mouse_tokens|constructor].
Qed.

(* histories without pen requests and without the toplevel's setupterm *)
Definition plain (o : mop) : bool :=
  match o with OSetpen _ | OChpen _ | OSetup _ => false | _ => true end.

Lemma is_nondefault_none : forall p : pen, (forall a, p a = None) -> is_nondefault p = false.
Proof.
  intros p H. unfold is_nondefault. apply not_true_is_false. intros E. apply existsb_exists in E as (a & _ & Ha).
  unfold nondefault_attr, has_attr in Ha. rewrite (H a) in Ha. discriminate Ha.
Qed.

Lemma mode_step_wf : forall t o t' ts v, (forall a, t_pen t a = None) -> plain o = true -> op_in_range o ->
  mode_step t o = Some (t', ts, v) -> Forall wf_token ts /\ (forall a, t_pen t' a = None).
Proof.
  intros t o t' ts v Hp Hpl Hr H. destruct o; try discriminate Hpl; cbn [mode_step op_in_range] in *.
  - pose proof (wf_setctl (t_drv t) c v0 Hr) as W.
    destruct (xt_setctl (t_drv t) c v0) as [[d' ts0] ret]. cbn [fst snd] in W. inversion H; subst. split; [exact W|exact Hp].
  - inversion H; subst. split; [constructor|exact Hp].
  - inversion H; subst. split; [apply wf_teardown|exact Hp].
  - unfold term_resume in H. rewrite (is_nondefault_none _ Hp) in H. inversion H; subst. split; [apply wf_resume|exact Hp].
  - unfold term_teardown in H. destruct (t_started t); inversion H; subst; (split; [try apply wf_teardown; constructor|exact Hp]).
  - unfold term_destroy, term_teardown in H. destruct (t_started t); inversion H; subst; cbn [fst snd];
      (split; [try apply wf_teardown; constructor|exact Hp]).
  - inversion H; subst. split; [constructor|exact Hp].
  - inversion H; subst. split; [constructor|exact Hp].
Qed.

Lemma mode_run_wf : forall ops t t' ts, (forall a, t_pen t a = None) -> forallb plain ops = true ->
  wf_hist false ops \/ wf_hist true ops ->
  mode_run t ops = Some (t', ts) -> Forall wf_token ts.
Proof.
  assert (G : forall ops st t t' ts, (forall a, t_pen t a = None) -> forallb plain ops = true -> wf_hist st ops ->
              mode_run t ops = Some (t', ts) -> Forall wf_token ts).
  { induction ops as [|o ops IH]; intros st t t' ts Hp Hpl Hwf H.
    - cbn [mode_run] in H. inversion H; subst. constructor.
    - cbn [forallb] in Hpl. apply andb_true_iff in Hpl as [Hpl1 Hpl2].
      cbn [wf_hist] in Hwf. destruct Hwf as (Hr & _ & _ & Hwf').
      cbn [mode_run] in H. destruct (mode_step t o) as [[[t1 ts1] v1]|] eqn:E; [|discriminate H].
      destruct (mode_run t1 ops) as [[t2 ts2]|] eqn:E2; [|discriminate H]. inversion H; subst.
      destruct (mode_step_wf t o t1 ts1 v1 Hp Hpl1 Hr E) as [W1 Hp1].
      apply Forall_app. split; [exact W1|]. exact (IH _ t1 t' ts2 Hp1 Hpl2 Hwf' E2). }
  intros ops t t' ts Hp Hpl [Hwf|Hwf] H; eapply G; eauto.
Qed.

(* a buffered history over a started, attached terminal: the calls of XtermModeSpec and explicit flushes *)
Definition calls_of (ops : list bop) : list mop :=
  flat_map (fun op => match op with BOp o => [o] | _ => [] end) ops.
Definition call_or_flush (op : bop) : bool := match op with BOp _ | BFlush => true | _ => false end.

Lemma urun_mode_run : forall ops t, forallb call_or_flush ops = true ->
  urun t ops = mode_run t (calls_of ops).
Proof.
  induction ops as [|op ops IH]; intros t H; [reflexivity|].
  cbn [forallb] in H. apply andb_true_iff in H as [H1 H2]. destruct op; try discriminate H1.
  - cbn [urun ustep calls_of flat_map app mode_run]. fold (calls_of ops).
    destruct (mode_step t o) as [[[t1 ts1] v1]|]; [|reflexivity]. rewrite (IH t1 H2). reflexivity.
  - cbn [urun ustep calls_of flat_map app]. fold (calls_of ops). rewrite (IH t H2).
    destruct (mode_run t (calls_of ops)) as [[t2 ts2]|]; reflexivity.
Qed.

(* buffering never makes a call fail *)
Lemma bstep_total : forall b op t' ts v, ustep (b_t b) op = Some (t', ts, v) ->
  exists b' d, bstep b op = Some (b', d, v).
Proof.
  intros b op t' ts v H. destruct op as [o|len| |]; cbn [ustep bstep] in *.
  - rewrite H. destruct (bwrite (with_t b t') (render ts)) as [b1 d1].
    destruct o; try (eexists; eexists; reflexivity); destruct (bflush b1); eexists; eexists; reflexivity.
  - inversion H; subst. eexists; eexists; reflexivity.
  - destruct (t_started (b_t b)).
    + inversion H; subst. eexists; eexists; reflexivity.
    + inversion H; subst. destruct (bwrite _ _) as [b1 d1]. destruct (bflush b1). eexists; eexists; reflexivity.
  - inversion H; subst. destruct (bflush b). eexists; eexists; reflexivity.
Qed.

Lemma brun_total : forall ops b t' ts, b_out b = true -> binv b -> forallb keeps_buffer ops = true ->
  urun (b_t b) ops = Some (t', ts) -> exists b' D, brun b ops = Some (b', D).
Proof.
  induction ops as [|op ops IH]; intros b t' ts Ho Hi Hk H.
  - eexists; eexists; reflexivity.
  - cbn [forallb] in Hk. apply andb_true_iff in Hk as [Hk1 Hk2]. cbn [urun] in H.
    destruct (ustep (b_t b) op) as [[[t1 ts1] v1]|] eqn:E; [|discriminate H].
    destruct (urun t1 ops) as [[t2 ts2]|] eqn:E2; [|discriminate H].
    destruct (bstep_total b op t1 ts1 v1 E) as (b1 & d1 & S1).
    destruct (bstep_conserve b op b1 d1 v1 S1 (or_introl Ho) Hi Hk1) as (ts0 & U & _ & O1 & I1 & _).
    rewrite E in U. inversion U; subst.
    destruct (IH b1 t2 ts2 O1 I1 Hk2 E2) as (b2 & D2 & R2).
    cbn [brun]. rewrite S1, R2. eexists; eexists; reflexivity.
Qed.

Lemma call_keeps : forall ops, forallb call_or_flush ops = true -> forallb keeps_buffer ops = true.
Proof.
  induction ops as [|op ops IH]; intros H; [reflexivity|].
  cbn [forallb] in *. apply andb_true_iff in H as [H1 H2]. rewrite (IH H2). destruct op; try discriminate H1; reflexivity.
Qed.

Theorem buffered_balanced_nokp : forall colon rgb8 cshape cap ops last t s,
  start_ok colon rgb8 cshape t s ->
  forallb call_or_flush (ops ++ [last]) = true -> is_sync last = true ->
  forallb plain (calls_of (ops ++ [last])) = true ->
  wf_hist false (calls_of (ops ++ [last])) -> existsb is_stop (calls_of (ops ++ [last])) = true ->
  0 <= cap ->
  exists b' D, brun (mkB t true cap []) (ops ++ [last]) = Some (b', D) /\ b_pend b' = [] /\
    ms_eqb_nokp (ms_of_vt (vt_run_bytes D (os_vt s))) init_ms = true /\
    v_sgr (vt_run_bytes D (os_vt s)) = default_attrs.
Proof.
  intros colon rgb8 cshape cap ops last t s Hst Hcf Hsync Hpl Hwf Hstop Hcap.
  destruct (balanced_nokp_c colon rgb8 cshape (calls_of (ops ++ [last])) t s Hst Hwf Hstop) as (t' & ts & Hrun & Hms & Hsgr).
  set (b0 := mkB t true cap []).
  assert (Hi : binv b0) by (intros _; reflexivity).
  pose proof (call_keeps _ Hcf) as Hk.
  assert (Hu : urun (b_t b0) (ops ++ [last]) = Some (t', ts)) by (rewrite urun_mode_run by exact Hcf; exact Hrun).
  destruct (brun_total (ops ++ [last]) b0 t' ts eq_refl Hi Hk Hu) as (b' & D & Hb).
  destruct (brun_delivered ops last b0 b' D Hb eq_refl Hi eq_refl Hk Hsync) as (ts' & Hu' & HD & Hp).
  rewrite Hu in Hu'. inversion Hu'; subst ts'.
  assert (Hpen : forall a, t_pen t a = None) by (destruct Hst as (_ & _ & _ & _ & _ & _ & _ & _ & _ & _ & _ & Hp0 & _); exact Hp0).
  pose proof (mode_run_wf _ t t' ts Hpen Hpl (or_introl Hwf) Hrun) as Hwft.
  exists b', D. split; [exact Hb|]. split; [exact Hp|].
  rewrite HD, (run_bytes_render ts (os_vt s) Hwft). split; assumption.
Qed.

(* non-vacuity: with a 4096-byte buffer three settings deliver nothing (they wait in the buffer); with a 7-byte
   buffer the history settings / pause / flush / resume / teardown satisfies the premises above and the bytes
   delivered by the end of the teardown leave the screen in its initial modes *)
Definition buf_example : list bop :=
  [BOp (OSet CtlAltscreen 1); BOp (OSet CtlMouse 2); BOp (OSet CtlCursorvis 0); BOp OPause; BFlush; BOp OResume].
Lemma buffered_example :
  match brun (mkB fresh_term true 4096 []) (firstn 3 buf_example) with
  | Some (b, D) => D = [] /\ b_pend b <> []
  | None => False
  end /\
  forallb call_or_flush (buf_example ++ [BOp OTeardown]) = true /\
  forallb plain (calls_of (buf_example ++ [BOp OTeardown])) = true /\
  wf_hist false (calls_of (buf_example ++ [BOp OTeardown])) /\
  match brun (mkB fresh_term true 7 []) (buf_example ++ [BOp OTeardown]) with
  | Some (b', D) => b_pend b' = [] /\ negb (Nat.eqb (length D) 0) = true /\
                    ms_eqb_nokp (ms_of_vt (vt_run_bytes D (os_vt fresh_ostate))) init_ms = true
  | None => False
  end.
Proof.
  split; [vm_compute; split; [reflexivity|discriminate]|]. split; [reflexivity|]. split; [reflexivity|].
  split; [cbn; repeat split; try reflexivity; try discriminate|].
  vm_compute. repeat split; reflexivity.
Qed.
