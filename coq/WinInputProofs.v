(* WinInputProofs.v -- property C14: the input-routing MODEL (WinInput.v) against the SPEC
   (WinInputSpec.v).

   Positive theorems are for the repaired configuration [no_defects]; they quantify over all
   trees, claim patterns and positions; fuel occurs only in hypotheses [height t < fuel].

   Main results
     C14_key, C14_term_key            _handle_key / on_term_key deliver exactly [key_spec]
     C14_mouse                        _handle_mouse delivers exactly [mouse_phase] of [mouse_order]
     mouse_order_relative             ... each at the position relative to the receiver
     C14_hidden_never(_key,_mouse,_drag) only visible windows with visible ancestors are on a route
                                      or get a directly delivered drag event
     C14_drag, spec_start, spec_outside, spec_release
                                      the drag bracket rules, per step and over every sequence
     C14_term_mouse(_f), C14_term_mouse_seq
                                      on_term_mouse = [mouse_spec] (one event / every sequence)
     C14_mutation_self(_term)         a key handler closing its own window: deliveries are exactly
                                      those of the unmutated order, no fault, no leaked reference
     C14_refuted_20, C14_refuted_30   the pinned code fails (vm_compute)
     C14_nonvacuous, C14_mutation_examples

   Hypotheses used beyond the task's suggestion
     [focus_okb wn]   (keys only) every focused-child pointer names a child of its window;
                      without it the model faults or delivers to a window that is not a child,
                      while [key_order] ignores the pointer.
     [dsrc_ok R]      (on_term_mouse only) the drag source, if any, is a window of the tree.
   The drag bookkeeping of on_term_mouse is exactly the one of [mouse_spec] (plain equality of
   the drag state); [ds_equiv] / [mouse_spec_equiv] remain as a spec-level fact (the spec never
   reads the source while no drag is on).  The routing code holds references only for the
   active frames ([hold s w] ... [release s w]): every theorem states [i_holds s' = i_holds s]. *)
From Coq Require Import ZArith List Bool Lia ZifyBool Permutation.
From Tickit Require Import RectDefs WinRectSet WinDefs WinInput WinInputSpec.
Import ListNotations.
Local Open Scope Z_scope.

(* ==================================================================================== *)
(* 0. Vocabulary                                                                         *)

(* all ids of a tree, preorder *)
Fixpoint t_ids (t : wtree) : list Z :=
  match t with Node i ch => w_id i :: flat_map t_ids ch end.

Fixpoint height (t : wtree) : nat :=
  match t with Node _ ch => S (fold_right (fun c m => Nat.max (height c) m) O ch) end.

Definition forest_ids (st : root) : list Z := flat_map t_ids (forest st).
Definition ids_unique (st : root) : Prop := NoDup (forest_ids st).

(* no scripted mutation pending, nothing freed, nothing pending destruction, no fault *)
Definition quiet (s : istate) : Prop :=
  i_armed s = [] /\ i_freed s = [] /\ i_pending s = [] /\ i_fault s = false.

(* the focused-child pointer of every window names one of its children (an invariant of the
   window layer: ->focused_child is always a child; win_close clears it) *)
Fixpoint focus_okb (t : wtree) : bool :=
  match t with
  | Node i ch =>
    match w_fchild i with
    | None => true
    | Some k => existsb (fun c => t_id c =? k) ch
    end && forallb focus_okb ch
  end.

(* x is a subtree of t *)
Inductive sub : wtree -> wtree -> Prop :=
| sub_refl t : sub t t
| sub_kid x k t : In k (t_kids t) -> sub x k -> sub x t.

Definition subl (x : wtree) (l : list wtree) : Prop := exists t, In t l /\ sub x t.

(* the canonical quiet state *)
Definition Q (R : root) (H : list Z) (L : list iev) : istate := mkI R [] H [] [] L false.

Lemma quiet_Q s : quiet s -> s = Q (i_root s) (i_holds s) (i_log s).
Proof.
  intros (Ha & Hf & Hp & Hx). destruct s as [r fr ho pe ar lo fa].
  cbn [i_armed i_freed i_pending i_fault] in *. subst. reflexivity.
Qed.

Lemma Q_quiet R H L : quiet (Q R H L).
Proof. repeat split. Qed.

Definition mk_root (t : wtree) : root :=
  mkRoot t [] [] [] false false false false false 0 0 0 None rsfuel.
Definition mk_state (t : wtree) (armed : list (Z * (Z * Z * Z))) : istate :=
  mkI (mk_root t) [] [] [] armed [] false.

(* ==================================================================================== *)
(* A. C14_refuted_20 / C14_refuted_30: the pinned defects, refuted on concrete trees       *)

Definition cfg_20 : defects := mkDefects false false true false false false false false.
Definition cfg_30 : defects := mkDefects false false false false false false true false.

Lemma cfg_20_ok : d_key_twice cfg_20 = true /\ d_route_unsafe cfg_20 = false.
Proof. split; reflexivity. Qed.
Lemma cfg_30_ok : d_route_unsafe cfg_30 = true /\ d_key_twice cfg_30 = false.
Proof. split; reflexivity. Qed.

Definition leaf (id : Z) (r : rect) (steal : bool) : wtree := Node (new_info id r false steal) [].
Definition R0 : rect := mkRect 0 0 10 10.

(* root 0 with one input-stealing child 1; nobody claims *)
Definition tree20 : wtree := Node (new_info 0 R0 false false) [leaf 1 (mkRect 1 1 2 2) true].

Theorem C14_refuted_20 :
  rev (i_log (term_key cfg_20 (fun _ => 0) (mk_state tree20 []))) = [IKey 1; IKey 0; IKey 1] /\
  key_spec (fun _ => 0) tree20 = [IKey 1; IKey 0] /\
  rev (i_log (term_key cfg_20 (fun _ => 0) (mk_state tree20 []))) <> key_spec (fun _ => 0) tree20 /\
  rev (i_log (term_key no_defects (fun _ => 0) (mk_state tree20 []))) = key_spec (fun _ => 0) tree20.
Proof.
  split; [vm_compute; reflexivity|]. split; [vm_compute; reflexivity|].
  split; [vm_compute; discriminate|vm_compute; reflexivity].
Qed.

(* root 0 with children [4;3;2]; the key handler of 4 closes 3 *)
Definition tree30 : wtree :=
  Node (new_info 0 R0 false false)
       [leaf 4 (mkRect 1 1 2 2) false; leaf 3 (mkRect 3 3 2 2) false; leaf 2 (mkRect 5 5 2 2) false].

Theorem C14_refuted_30 :
  let s' := term_key cfg_30 (fun _ => 0) (mk_state tree30 [(4, (0, 1, 3))]) in
  rev (i_log s') = [IKey 0; IKey 4; IKey 3] /\
  In 2 (key_order tree30) /\
  ~ In (IKey 2) (i_log s') /\
  (* the repaired iteration offers it, and passes the check of the property *)
  rev (i_log (term_key no_defects (fun _ => 0) (mk_state tree30 [(4, (0, 1, 3))]))) = [IKey 0; IKey 4; IKey 2] /\
  c14_rest_checkb [3] (key_spec (fun _ => 0) tree30)
     (rev (i_log (term_key no_defects (fun _ => 0) (mk_state tree30 [(4, (0, 1, 3))])))) = true /\
  c14_rest_checkb [3] (key_spec (fun _ => 0) tree30) (rev (i_log s')) = false.
Proof.
  cbv zeta.
  split; [vm_compute; reflexivity|].
  split; [vm_compute; tauto|].
  split; [vm_compute; intros [H|[H|[H|[]]]]; discriminate H|].
  split; [vm_compute; reflexivity|].
  split; vm_compute; reflexivity.
Qed.

(* ==================================================================================== *)
(* B. C14_nonvacuous                                                                      *)

Definition tree_nv : wtree :=
  Node (mkW 0 R0 true false false false (Some 2) 0 0 1 true (-1))
       [ Node (new_info 1 (mkRect 0 0 4 4) false true) [leaf 5 (mkRect 1 1 2 2) false];
         Node (mkW 2 (mkRect 2 2 5 5) true false false true None 0 0 1 true (-1)) [leaf 6 (mkRect 0 0 1 1) false];
         Node (new_info 3 (mkRect 6 6 2 2) true false) [leaf 7 (mkRect 0 0 1 1) false];
         leaf 4 (mkRect 8 8 2 2) false ].
Definition claims_nv : Z -> Z := fun w => if w =? 0 then 1 else if w =? 2 then 4 else 0.

Example C14_nonvacuous :
  key_order tree_nv = [1; 5; 2; 6; 0; 4] /\
  key_spec claims_nv tree_nv = [IKey 1; IKey 5; IKey 2; IKey 6; IKey 0] /\
  (3 <= length (key_spec claims_nv tree_nv))%nat /\
  mouse_order tree_nv 2 2 = [(5, 1, 1); (1, 2, 2); (6, 0, 0); (2, 0, 0); (0, 2, 2)] /\
  (2 <= length (mouse_order tree_nv 2 2))%nat /\
  mouse_phase claims_nv (mouse_order tree_nv 2 2) 2 1 =
    ([IMouse 5 2 1 1 1; IMouse 1 2 1 2 2; IMouse 6 2 1 0 0; IMouse 2 2 1 0 0], Some 2) /\
  NoDup (t_ids tree_nv) /\ focus_okb tree_nv = true /\ (height tree_nv < 64)%nat /\
  rev (i_log (term_key no_defects claims_nv (mk_state tree_nv []))) = key_spec claims_nv tree_nv.
Proof.
  split; [vm_compute; reflexivity|]. split; [vm_compute; reflexivity|].
  split; [vm_compute; lia|]. split; [vm_compute; reflexivity|].
  split; [vm_compute; lia|]. split; [vm_compute; reflexivity|].
  split.
  { cbn. repeat constructor; cbn; intuition discriminate. }
  split; [vm_compute; reflexivity|]. split; [vm_compute; lia|]. vm_compute; reflexivity.
Qed.

(* ==================================================================================== *)
(* 1. Trees: ids, subtrees, lookups by id                                                *)

Lemma wtree_ind' (P : wtree -> Prop) :
  (forall i ch, Forall P ch -> P (Node i ch)) -> forall t, P t.
Proof.
  intros HN. fix IH 1. intros [i ch]. apply HN.
  induction ch as [|c r IHr]; constructor; [apply IH | exact IHr].
Qed.

Lemma NoDup_app_inv {A} (l1 l2 : list A) :
  NoDup (l1 ++ l2) -> NoDup l1 /\ NoDup l2 /\ forall x, In x l1 -> ~ In x l2.
Proof.
  induction l1 as [|a l1 IH]; cbn [app]; intros Hnd.
  - split; [constructor|]. split; [exact Hnd|]. intros x [].
  - inversion Hnd as [|? ? Hn Hd]; subst. destruct (IH Hd) as (H1 & H2 & H3).
    split.
    { constructor; [|exact H1]. intro Hi. apply Hn. apply in_or_app. left. exact Hi. }
    split; [exact H2|].
    intros x [Hx|Hx] Hi.
    + subst. apply Hn. apply in_or_app. right. exact Hi.
    + exact (H3 x Hx Hi).
Qed.

Lemma t_ids_eq t : t_ids t = t_id t :: flat_map t_ids (t_kids t).
Proof. destruct t; reflexivity. Qed.

Lemma t_id_in t : In (t_id t) (t_ids t).
Proof. rewrite t_ids_eq. left. reflexivity. Qed.

Lemma kid_ids_in c t x : In c (t_kids t) -> In x (t_ids c) -> In x (flat_map t_ids (t_kids t)).
Proof. intros Hc Hx. apply in_flat_map. exists c. split; assumption. Qed.

Lemma sub_incl x t : sub x t -> incl (t_ids x) (t_ids t).
Proof.
  induction 1 as [t|x k t Hk Hs IH].
  - apply incl_refl.
  - intros y Hy. rewrite (t_ids_eq t). right. eapply kid_ids_in; [exact Hk|]. apply IH. exact Hy.
Qed.

Lemma sub_trans x y t : sub x y -> sub y t -> sub x t.
Proof.
  intros Hxy Hyt. induction Hyt as [t|y k t Hk Hs IH]; [exact Hxy|].
  eapply sub_kid; [exact Hk|]. apply IH. exact Hxy.
Qed.

Lemma sub_kid1 c t : In c (t_kids t) -> sub c t.
Proof. intros Hc. eapply sub_kid; [exact Hc|apply sub_refl]. Qed.

Lemma sub_inv x t : sub x t -> x = t \/ exists k, In k (t_kids t) /\ sub x k.
Proof. intros Hs. destruct Hs as [t|x k t Hk Hs]; [left; reflexivity|right; exists k; split; assumption]. Qed.

Lemma subl_kid p c l : subl p l -> In c (t_kids p) -> subl c l.
Proof.
  intros (t & Ht & Hs) Hc. exists t. split; [exact Ht|].
  eapply sub_trans; [apply sub_kid1; exact Hc|exact Hs].
Qed.

Lemma NoDup_flat_in l c : NoDup (flat_map t_ids l) -> In c l -> NoDup (t_ids c).
Proof.
  induction l as [|a r IH]; intros Hnd Hc; [destruct Hc|].
  cbn [flat_map] in Hnd. apply NoDup_app_inv in Hnd. destruct Hnd as (H1 & H2 & _).
  destruct Hc as [->|Hc]; [exact H1|apply IH; assumption].
Qed.

Lemma NoDup_flat_sep l c c' x :
  NoDup (flat_map t_ids l) -> In c l -> In c' l -> In x (t_ids c) -> In x (t_ids c') -> c = c'.
Proof.
  induction l as [|a r IH]; intros Hnd Hc Hc' Hx Hx'; [destruct Hc|].
  cbn [flat_map] in Hnd. apply NoDup_app_inv in Hnd. destruct Hnd as (H1 & H2 & H3).
  destruct Hc as [Hc|Hc]; destruct Hc' as [Hc'|Hc'].
  - subst. reflexivity.
  - subst. exfalso. apply (H3 x Hx). apply in_flat_map. exists c'. split; assumption.
  - subst. exfalso. apply (H3 x Hx'). apply in_flat_map. exists c. split; assumption.
  - apply IH; assumption.
Qed.

Lemma NoDup_kids t : NoDup (t_ids t) -> NoDup (flat_map t_ids (t_kids t)) /\ ~ In (t_id t) (flat_map t_ids (t_kids t)).
Proof. rewrite t_ids_eq. intros Hnd. inversion Hnd; subst. split; assumption. Qed.

Lemma sub_nodup x t : sub x t -> NoDup (t_ids t) -> NoDup (t_ids x).
Proof.
  induction 1 as [t|x k t Hk Hs IH]; intros Hnd; [exact Hnd|].
  apply IH. apply NoDup_kids in Hnd. destruct Hnd as (Hnd & _).
  eapply NoDup_flat_in; [exact Hnd|exact Hk].
Qed.

Lemma first_some_none {A B} (f : A -> option B) l :
  (forall c, In c l -> f c = None) -> first_some f l = None.
Proof.
  induction l as [|a r IH]; intros Hf; [reflexivity|].
  cbn [first_some]. rewrite (Hf a (or_introl eq_refl)). apply IH. intros c Hc. apply Hf. right. exact Hc.
Qed.

Lemma first_some_some {A B} (f : A -> option B) l y :
  first_some f l = Some y -> exists c, In c l /\ f c = Some y.
Proof.
  induction l as [|a r IH]; cbn [first_some]; intros Hf; [discriminate|].
  destruct (f a) as [z|] eqn:Ea.
  - inversion Hf; subst. exists a. split; [left; reflexivity|exact Ea].
  - destruct (IH Hf) as (c & Hc & Hy). exists c. split; [right; exact Hc|exact Hy].
Qed.

Lemma first_some_pick {B} (f : wtree -> option B) (x : Z) l c y :
  NoDup (flat_map t_ids l) -> In c l -> In x (t_ids c) ->
  (forall c', In c' l -> ~ In x (t_ids c') -> f c' = None) ->
  f c = Some y -> first_some f l = Some y.
Proof.
  induction l as [|a r IH]; intros Hnd Hc Hx Hnone Hf; [destruct Hc|].
  cbn [first_some]. destruct Hc as [->|Hc].
  - rewrite Hf. reflexivity.
  - cbn [flat_map] in Hnd. apply NoDup_app_inv in Hnd. destruct Hnd as (H1 & H2 & H3).
    assert (Ha : f a = None).
    { apply Hnone; [left; reflexivity|]. intro Hi. apply (H3 x Hi).
      apply in_flat_map. exists c. split; assumption. }
    rewrite Ha. apply IH; try assumption.
    intros c' Hc' Hn. apply Hnone; [right; exact Hc'|exact Hn].
Qed.

Lemma go_first_some {B} (f : wtree -> option B) (l : list wtree) :
  (fix go (l : list wtree) : option B :=
     match l with [] => None | c :: r => match f c with Some x => Some x | None => go r end end) l
  = first_some f l.
Proof. induction l as [|c r IH]; [reflexivity|]. cbn [first_some]. rewrite IH. reflexivity. Qed.

Lemma t_find_eq id i ch :
  t_find id (Node i ch) = if w_id i =? id then Some (Node i ch) else first_some (t_find id) ch.
Proof. cbn [t_find]. rewrite go_first_some. reflexivity. Qed.

Lemma t_parent_node_eq id i ch :
  t_parent_node id (Node i ch) =
  if existsb (fun c => t_id c =? id) ch then Some (Node i ch) else first_some (t_parent_node id) ch.
Proof. cbn [t_parent_node]. rewrite go_first_some. reflexivity. Qed.

Lemma t_path_eq id i ch :
  t_path id (Node i ch) =
  if w_id i =? id then Some [Node i ch] else
  match first_some (t_path id) ch with Some p => Some (Node i ch :: p) | None => None end.
Proof. cbn [t_path]. rewrite go_first_some. reflexivity. Qed.

Lemma t_find_none id t : ~ In id (t_ids t) -> t_find id t = None.
Proof.
  induction t as [i ch IH] using wtree_ind'. intros Hn. rewrite t_find_eq.
  cbn [t_ids] in Hn. destruct (w_id i =? id) eqn:E.
  - exfalso. apply Hn. left. lia.
  - apply first_some_none. intros c Hc. rewrite Forall_forall in IH. apply IH; [exact Hc|].
    intro Hi. apply Hn. right. apply in_flat_map. exists c. split; assumption.
Qed.

Lemma t_find_sub id t x : t_find id t = Some x -> sub x t /\ t_id x = id.
Proof.
  revert x. induction t as [i ch IH] using wtree_ind'. intros x Hf. rewrite t_find_eq in Hf.
  destruct (w_id i =? id) eqn:E.
  - inversion Hf; subst. split; [apply sub_refl|]. unfold t_id. cbn [t_info]. lia.
  - apply first_some_some in Hf. destruct Hf as (c & Hc & Hy).
    rewrite Forall_forall in IH. destruct (IH c Hc x Hy) as (Hs & Hid).
    split; [|exact Hid]. eapply sub_kid; [|exact Hs]. exact Hc.
Qed.

Lemma t_find_unique t x : NoDup (t_ids t) -> sub x t -> t_find (t_id x) t = Some x.
Proof.
  induction t as [i ch IH] using wtree_ind'. intros Hnd Hs. rewrite t_find_eq.
  apply sub_inv in Hs. destruct Hs as [->|(k & Hk & Hxk)].
  - unfold t_id. cbn [t_info]. rewrite Z.eqb_refl. reflexivity.
  - cbn [t_kids] in Hk. apply NoDup_kids in Hnd. cbn [t_kids] in Hnd. destruct Hnd as (Hnd & Hni).
    assert (Hin : In (t_id x) (t_ids k)) by (apply (sub_incl x k Hxk), t_id_in).
    destruct (w_id i =? t_id x) eqn:E.
    + exfalso. apply Hni. apply in_flat_map. exists k. split; [exact Hk|].
      unfold t_id at 1. cbn [t_info]. replace (w_id i) with (t_id x) by lia. exact Hin.
    + apply (first_some_pick _ (t_id x) ch k); try assumption.
      * intros c' _ Hn. apply t_find_none. exact Hn.
      * rewrite Forall_forall in IH. apply IH; [exact Hk| |exact Hxk].
        eapply NoDup_flat_in; [exact Hnd|exact Hk].
Qed.

Lemma t_parent_none id t : ~ In id (t_ids t) -> t_parent_node id t = None.
Proof.
  induction t as [i ch IH] using wtree_ind'. intros Hn. rewrite t_parent_node_eq.
  cbn [t_ids] in Hn. destruct (existsb (fun c => t_id c =? id) ch) eqn:E.
  - exfalso. apply existsb_exists in E. destruct E as (c & Hc & Hid). apply Hn. right.
    apply in_flat_map. exists c. split; [exact Hc|]. replace id with (t_id c) by lia. apply t_id_in.
  - apply first_some_none. intros c Hc. rewrite Forall_forall in IH. apply IH; [exact Hc|].
    intro Hi. apply Hn. right. apply in_flat_map. exists c. split; assumption.
Qed.

Lemma kid_in_ids p k c : sub p k -> In c (t_kids p) -> In (t_id c) (flat_map t_ids (t_kids k)).
Proof.
  induction 1 as [t|x k t Hk Hs IH]; intros Hc.
  - eapply kid_ids_in; [exact Hc|apply t_id_in].
  - eapply kid_ids_in; [exact Hk|]. rewrite t_ids_eq. right. apply IH. exact Hc.
Qed.

Lemma t_parent_unique t p c :
  NoDup (t_ids t) -> sub p t -> In c (t_kids p) -> t_parent_node (t_id c) t = Some p.
Proof.
  induction t as [i ch IH] using wtree_ind'. intros Hnd Hs Hc. rewrite t_parent_node_eq.
  apply NoDup_kids in Hnd. cbn [t_kids] in Hnd. destruct Hnd as (Hnd & Hni).
  apply sub_inv in Hs.
  destruct (existsb (fun c0 => t_id c0 =? t_id c) ch) eqn:E.
  - destruct Hs as [->|(k' & Hk' & Hpk')]; [reflexivity|]. exfalso.
    cbn [t_kids] in Hk'.
    apply existsb_exists in E. destruct E as (k & Hk & Hid).
    assert (Hx' : In (t_id c) (flat_map t_ids (t_kids k'))) by (eapply kid_in_ids; eassumption).
    assert (Hx : In (t_id c) (t_ids k)) by (replace (t_id c) with (t_id k) by lia; apply t_id_in).
    assert (Hkk : k = k').
    { eapply (NoDup_flat_sep ch k k' (t_id c)); try assumption. rewrite t_ids_eq. right. exact Hx'. }
    subst k'.
    assert (Hndk : NoDup (t_ids k)) by (eapply NoDup_flat_in; eassumption).
    apply NoDup_kids in Hndk. destruct Hndk as (_ & Hnk). apply Hnk.
    replace (t_id k) with (t_id c) by lia. exact Hx'.
  - destruct Hs as [->|(k' & Hk' & Hpk')].
    + exfalso. cbn [t_kids] in Hc.
      assert (Ht : existsb (fun c0 => t_id c0 =? t_id c) ch = true).
      { apply existsb_exists. exists c. split; [exact Hc|apply Z.eqb_refl]. }
      rewrite Ht in E. discriminate E.
    + cbn [t_kids] in Hk'.
      apply (first_some_pick _ (t_id c) ch k'); try assumption.
      * rewrite t_ids_eq. right. eapply kid_in_ids; eassumption.
      * intros c' _ Hn. apply t_parent_none. exact Hn.
      * rewrite Forall_forall in IH. apply IH; try assumption.
        eapply NoDup_flat_in; eassumption.
Qed.

(* the forest *)
Lemma f_find_unique R x : ids_unique R -> subl x (forest R) -> f_find R (t_id x) = Some x.
Proof.
  intros Hnd (t & Ht & Hs). unfold f_find.
  apply (first_some_pick _ (t_id x) (forest R) t); try assumption.
  - apply (sub_incl x t Hs), t_id_in.
  - intros c' _ Hn. apply t_find_none. exact Hn.
  - apply t_find_unique; [|exact Hs]. eapply NoDup_flat_in; [exact Hnd|exact Ht].
Qed.

Lemma f_find_sub R id x : f_find R id = Some x -> subl x (forest R) /\ t_id x = id.
Proof.
  unfold f_find. intros Hf. apply first_some_some in Hf. destruct Hf as (t & Ht & Hx).
  apply t_find_sub in Hx. destruct Hx as (Hs & Hid). split; [|exact Hid].
  exists t. split; assumption.
Qed.

Lemma f_parent_unique R p c :
  ids_unique R -> subl p (forest R) -> In c (t_kids p) -> f_parent R (t_id c) = Some (t_id p).
Proof.
  intros Hnd (t & Ht & Hs) Hc. unfold f_parent.
  assert (Hp : first_some (t_parent_node (t_id c)) (forest R) = Some p).
  { apply (first_some_pick _ (t_id c) (forest R) t); try assumption.
    - rewrite t_ids_eq. right. eapply kid_in_ids; eassumption.
    - intros c' _ Hn. apply t_parent_none. exact Hn.
    - apply t_parent_unique; try assumption. eapply NoDup_flat_in; [exact Hnd|exact Ht]. }
  rewrite Hp. reflexivity.
Qed.

Lemma subl_nodup R x : ids_unique R -> subl x (forest R) -> NoDup (t_ids x).
Proof.
  intros Hnd (t & Ht & Hs). eapply sub_nodup; [exact Hs|].
  eapply NoDup_flat_in; [exact Hnd|exact Ht].
Qed.

Lemma height_kid c t : In c (t_kids t) -> (height c < height t)%nat.
Proof.
  destruct t as [i ch]. cbn [t_kids height]. induction ch as [|a r IH]; intros Hc; [destruct Hc|].
  cbn [fold_right]. destruct Hc as [->|Hc]; [lia|]. specialize (IH Hc). lia.
Qed.

Lemma height_sub x t : sub x t -> (height x <= height t)%nat.
Proof.
  induction 1 as [t|x k t Hk Hs IH]; [lia|]. apply height_kid in Hk. lia.
Qed.

Lemma focus_ok_kid c t : focus_okb t = true -> In c (t_kids t) -> focus_okb c = true.
Proof.
  destruct t as [i ch]. cbn [focus_okb t_kids]. intros Hf Hc.
  apply andb_true_iff in Hf. destruct Hf as (_ & Hf). rewrite forallb_forall in Hf. apply Hf. exact Hc.
Qed.

Lemma focus_ok_sub x t : sub x t -> focus_okb t = true -> focus_okb x = true.
Proof.
  induction 1 as [t|x k t Hk Hs IH]; intros Hf; [exact Hf|]. apply IH. eapply focus_ok_kid; eassumption.
Qed.

(* ==================================================================================== *)
(* 2. The spec orders, unfolded                                                          *)

Lemma key_order_eq i ch :
  key_order (Node i ch) =
  if negb (w_vis i) then [] else
  let stolen := match ch with
                | c :: _ => if w_steal (t_info c) then Some (t_id c) else None
                | [] => None
                end in
  flat_map (fun c => if opt_eqb stolen (t_id c) then key_order c else []) ch ++
  flat_map (fun c => if opt_eqb (w_fchild i) (t_id c) && negb (opt_eqb stolen (t_id c))
                     then key_order c else []) ch ++
  [w_id i] ++
  flat_map (fun c => if negb (opt_eqb (w_fchild i) (t_id c)) && negb (opt_eqb stolen (t_id c))
                     then key_order c else []) ch.
Proof.
  cbn [key_order]. destruct (negb (w_vis i)); [reflexivity|].
  cbv zeta.
  set (stolen := match ch with c :: _ => if w_steal (t_info c) then Some (t_id c) else None | [] => None end).
  clearbody stolen.
  assert (G : forall (f : wtree -> list Z) (l : list wtree),
    (fix go (l : list wtree) : list Z := match l with [] => [] | c :: r => f c ++ go r end) l = flat_map f l).
  { intros f l. induction l as [|c r IH]; [reflexivity| cbn [flat_map]; rewrite IH; reflexivity]. }
  apply f_equal2; [apply G|]. apply f_equal2; [apply G|]. apply f_equal2; [reflexivity|apply G].
Qed.

Lemma mouse_order_eq i ch line col :
  mouse_order (Node i ch) line col =
  if negb (w_vis i) then [] else
  flat_map (fun c => if w_steal (t_info c) || cell_inb (w_rect (t_info c)) (line, col)
                     then mouse_order c (line - top (w_rect (t_info c))) (col - left (w_rect (t_info c)))
                     else []) ch ++ [(w_id i, line, col)].
Proof.
  cbn [mouse_order]. destruct (negb (w_vis i)); [reflexivity|].
  apply f_equal2; [|reflexivity].
  induction ch as [|c r IH]; [reflexivity|]. cbn [flat_map]. rewrite IH. reflexivity.
Qed.

Lemma key_order_in w t :
  In w (key_order t) ->
  w_vis (t_info t) = true /\ (w = t_id t \/ exists c, In c (t_kids t) /\ In w (key_order c)).
Proof.
  destruct t as [i ch]. rewrite key_order_eq. cbn [t_info t_kids]. unfold t_id at 1. cbn [t_info].
  destruct (w_vis i) eqn:Ev; cbn [negb]; [|intros []].
  cbv zeta. intros Hin. split; [reflexivity|].
  assert (G : forall (g : wtree -> bool), In w (flat_map (fun c => if g c then key_order c else []) ch) ->
              exists c, In c ch /\ In w (key_order c)).
  { intros g Hg. apply in_flat_map in Hg. destruct Hg as (c & Hc & Hw).
    destruct (g c); [|destruct Hw]. exists c. split; assumption. }
  apply in_app_or in Hin. destruct Hin as [Hin|Hin]; [right; eapply G; exact Hin|].
  apply in_app_or in Hin. destruct Hin as [Hin|Hin]; [right; eapply G; exact Hin|].
  apply in_app_or in Hin. destruct Hin as [Hin|Hin]; [|right; eapply G; exact Hin].
  destruct Hin as [Hin|[]]. left. symmetry. exact Hin.
Qed.

Lemma mouse_order_in e t line col :
  In e (mouse_order t line col) ->
  w_vis (t_info t) = true /\
  (e = (t_id t, line, col) \/
   exists c, In c (t_kids t) /\
     In e (mouse_order c (line - top (w_rect (t_info c))) (col - left (w_rect (t_info c))))).
Proof.
  destruct t as [i ch]. rewrite mouse_order_eq. cbn [t_info t_kids]. unfold t_id at 1. cbn [t_info].
  destruct (w_vis i) eqn:Ev; cbn [negb]; [|intros []].
  intros Hin. split; [reflexivity|].
  apply in_app_or in Hin. destruct Hin as [Hin|Hin].
  - right. apply in_flat_map in Hin. destruct Hin as (c & Hc & Hw).
    destruct (w_steal (t_info c) || cell_inb (w_rect (t_info c)) (line, col)); [|destruct Hw].
    exists c. split; assumption.
  - destruct Hin as [Hin|[]]. left. symmetry. exact Hin.
Qed.

(* ==================================================================================== *)
(* 3. C14_hidden_never                                                                   *)

Lemma t_path_none id t : ~ In id (t_ids t) -> t_path id t = None.
Proof.
  induction t as [i ch IH] using wtree_ind'. intros Hn. rewrite t_path_eq.
  cbn [t_ids] in Hn. destruct (w_id i =? id) eqn:E.
  - exfalso. apply Hn. left. lia.
  - rewrite first_some_none; [reflexivity|]. intros c Hc. rewrite Forall_forall in IH. apply IH; [exact Hc|].
    intro Hi. apply Hn. right. apply in_flat_map. exists c. split; assumption.
Qed.

Lemma t_path_in id t p : t_path id t = Some p -> In id (t_ids t).
Proof.
  intros Hp. destruct (in_dec Z.eq_dec id (t_ids t)) as [Hi|Hn]; [exact Hi|].
  rewrite (t_path_none id t Hn) in Hp. discriminate Hp.
Qed.

Definition all_visible (p : list wtree) : Prop := Forall (fun n => w_vis (t_info n) = true) p.

Lemma vis_path_step w t c p :
  NoDup (t_ids t) -> In c (t_kids t) -> w_vis (t_info t) = true ->
  t_path w c = Some p -> all_visible p ->
  t_path w t = Some (t :: p) /\ all_visible (t :: p).
Proof.
  destruct t as [i ch]. cbn [t_kids t_info]. intros Hnd Hc Hv Hp Hall.
  apply NoDup_kids in Hnd. cbn [t_kids] in Hnd. destruct Hnd as (Hnd & Hni).
  assert (Hw : In w (t_ids c)) by (eapply t_path_in; exact Hp).
  rewrite t_path_eq. destruct (w_id i =? w) eqn:E.
  - exfalso. apply Hni. apply in_flat_map. exists c. split; [exact Hc|].
    unfold t_id. cbn [t_info]. replace (w_id i) with w by lia. exact Hw.
  - rewrite (first_some_pick (t_path w) w ch c p); try assumption.
    + split; [reflexivity|]. constructor; [exact Hv|exact Hall].
    + intros c' _ Hn. apply t_path_none. exact Hn.
Qed.

Lemma vis_path_self t : w_vis (t_info t) = true -> t_path (t_id t) t = Some [t] /\ all_visible [t].
Proof.
  destruct t as [i ch]. cbn [t_info]. intros Hv. rewrite t_path_eq. unfold t_id. cbn [t_info].
  rewrite Z.eqb_refl. split; [reflexivity|]. constructor; [exact Hv|constructor].
Qed.

(* every window a key may be offered to is visible, and so are all its ancestors *)
Theorem C14_hidden_never_key t w :
  NoDup (t_ids t) -> In w (key_order t) ->
  exists path, t_path w t = Some path /\ all_visible path.
Proof.
  revert w. induction t as [i ch IH] using wtree_ind'. intros w Hnd Hin.
  apply key_order_in in Hin. destruct Hin as (Hv & [->|(c & Hc & Hw)]).
  - exists [Node i ch]. apply vis_path_self. exact Hv.
  - cbn [t_kids] in Hc. rewrite Forall_forall in IH.
    assert (Hndc : NoDup (t_ids c)).
    { apply NoDup_kids in Hnd. destruct Hnd as (Hnd & _). eapply NoDup_flat_in; eassumption. }
    destruct (IH c Hc w Hndc Hw) as (p & Hp & Hall).
    exists (Node i ch :: p). eapply vis_path_step; eassumption.
Qed.

(* the same for every window a mouse event may be offered to *)
Theorem C14_hidden_never_mouse t line col w l c :
  NoDup (t_ids t) -> In (w, l, c) (mouse_order t line col) ->
  exists path, t_path w t = Some path /\ all_visible path.
Proof.
  revert line col. induction t as [i ch IH] using wtree_ind'. intros line col Hnd Hin.
  apply mouse_order_in in Hin. destruct Hin as (Hv & [He|(k & Hk & Hw)]).
  - inversion He; subst. exists [Node i ch]. apply vis_path_self. exact Hv.
  - cbn [t_kids] in Hk. rewrite Forall_forall in IH.
    assert (Hndc : NoDup (t_ids k)).
    { apply NoDup_kids in Hnd. destruct Hnd as (Hnd & _). eapply NoDup_flat_in; eassumption. }
    destruct (IH k Hk _ _ Hndc Hw) as (p & Hp & Hall).
    exists (Node i ch :: p). eapply vis_path_step; eassumption.
Qed.

Lemma key_order_ids t w : In w (key_order t) -> In w (t_ids t).
Proof.
  revert w. induction t as [i ch IH] using wtree_ind'. intros w Hin.
  apply key_order_in in Hin. destruct Hin as (_ & [->|(c & Hc & Hw)]); [apply t_id_in|].
  rewrite t_ids_eq. right. eapply kid_ids_in; [exact Hc|]. rewrite Forall_forall in IH. apply IH; assumption.
Qed.

Lemma mouse_order_ids t line col w l c : In (w, l, c) (mouse_order t line col) -> In w (t_ids t).
Proof.
  revert line col. induction t as [i ch IH] using wtree_ind'. intros line col Hin.
  apply mouse_order_in in Hin. destruct Hin as (_ & [He|(k & Hk & Hw)]).
  - inversion He; subst. apply t_id_in.
  - rewrite t_ids_eq. right. eapply kid_ids_in; [exact Hk|]. rewrite Forall_forall in IH. eapply IH; eassumption.
Qed.

(* a hidden window, and every descendant of a hidden window, is in neither order: a path to
   it through t contains the hidden window *)
Corollary C14_hidden_never t w path n :
  NoDup (t_ids t) -> t_path w t = Some path -> In n path -> w_vis (t_info n) = false ->
  ~ In w (key_order t) /\ forall line col l c, ~ In (w, l, c) (mouse_order t line col).
Proof.
  intros Hnd Hp Hn Hhid. split.
  - intro Hin. destruct (C14_hidden_never_key t w Hnd Hin) as (p & Hp' & Hall).
    rewrite Hp in Hp'. inversion Hp'; subst p. unfold all_visible in Hall. rewrite Forall_forall in Hall.
    rewrite (Hall n Hn) in Hhid. discriminate Hhid.
  - intros line col l c Hin. destruct (C14_hidden_never_mouse t line col w l c Hnd Hin) as (p & Hp' & Hall).
    rewrite Hp in Hp'. inversion Hp'; subst p. unfold all_visible in Hall. rewrite Forall_forall in Hall.
    rewrite (Hall n Hn) in Hhid. discriminate Hhid.
Qed.

(* ==================================================================================== *)
(* 4. until_claim                                                                        *)

Lemma uc_cons {A} (P : A -> bool) x r :
  until_claim P (x :: r) =
  if P x then ([x], Some x) else (x :: fst (until_claim P r), snd (until_claim P r)).
Proof. cbn [until_claim]. destruct (P x); [reflexivity|]. destruct (until_claim P r); reflexivity. Qed.

Lemma uc_fst_app {A} (P : A -> bool) l1 l2 :
  fst (until_claim P (l1 ++ l2)) =
  if existsb P l1 then fst (until_claim P l1) else l1 ++ fst (until_claim P l2).
Proof.
  induction l1 as [|a l1 IH]; [reflexivity|].
  cbn [app existsb]. rewrite !uc_cons. destruct (P a) eqn:Ea; cbn [orb fst]; [reflexivity|].
  rewrite IH. destruct (existsb P l1); reflexivity.
Qed.

Lemma uc_snd_app {A} (P : A -> bool) l1 l2 :
  snd (until_claim P (l1 ++ l2)) =
  if existsb P l1 then snd (until_claim P l1) else snd (until_claim P l2).
Proof.
  induction l1 as [|a l1 IH]; [reflexivity|].
  cbn [app existsb]. rewrite !uc_cons. destruct (P a) eqn:Ea; cbn [orb snd]; [reflexivity|].
  rewrite IH. destruct (existsb P l1); reflexivity.
Qed.

Lemma uc_snd_none {A} (P : A -> bool) l : existsb P l = false -> snd (until_claim P l) = None.
Proof.
  induction l as [|a l IH]; [reflexivity|]. cbn [existsb]. rewrite uc_cons.
  destruct (P a); cbn [orb snd]; [discriminate|exact IH].
Qed.

Lemma uc_snd_some {A} (P : A -> bool) l :
  existsb P l = true -> exists x, snd (until_claim P l) = Some x /\ In x l /\ P x = true.
Proof.
  induction l as [|a l IH]; [discriminate|]. cbn [existsb]. rewrite uc_cons.
  destruct (P a) eqn:Ea; cbn [orb snd].
  - intros _. exists a. split; [reflexivity|]. split; [left; reflexivity|exact Ea].
  - intros He. destruct (IH He) as (x & Hx & Hi & Hp). exists x. split; [exact Hx|]. split; [right; exact Hi|exact Hp].
Qed.

Lemma uc_fst_noclaim {A} (P : A -> bool) l : existsb P l = false -> fst (until_claim P l) = l.
Proof.
  induction l as [|a l IH]; [reflexivity|]. cbn [existsb]. rewrite uc_cons.
  destruct (P a); cbn [orb fst]; [discriminate|]. intros He. rewrite (IH He). reflexivity.
Qed.

(* the log after offering a key to the windows of l in order, on top of L *)
Definition kP (claims : Z -> Z) : Z -> bool := fun w => Z.testbit (claims w) 0.
Definition klog (claims : Z -> Z) (l : list Z) (L : list iev) : list iev :=
  rev (map IKey (fst (until_claim (kP claims) l))) ++ L.

Lemma klog_nil claims L : klog claims [] L = L.
Proof. reflexivity. Qed.

Lemma klog_app_t claims l1 l2 L :
  existsb (kP claims) l1 = true -> klog claims (l1 ++ l2) L = klog claims l1 L.
Proof. intros He. unfold klog. rewrite uc_fst_app, He. reflexivity. Qed.

Lemma klog_app_f claims l1 l2 L :
  existsb (kP claims) l1 = false -> klog claims (l1 ++ l2) L = klog claims l2 (klog claims l1 L).
Proof.
  intros He. unfold klog. rewrite uc_fst_app, He. rewrite (uc_fst_noclaim _ _ He).
  rewrite map_app, rev_app_distr, app_assoc. reflexivity.
Qed.

Lemma klog_spec claims t L : klog claims (key_order t) L = rev (key_spec claims t) ++ L.
Proof. reflexivity. Qed.

(* ==================================================================================== *)
(* 5. The model on quiet states                                                          *)

Lemma look_Q R H L w : look (Q R H L) w = f_find R w.
Proof. reflexivity. Qed.

Lemma hold_Q R H L w : hold (Q R H L) w = Q R (w :: H) L.
Proof. reflexivity. Qed.

Lemma release_Q R H L w : release (Q R H L) w = Q R (remove_one w H) L.
Proof. reflexivity. Qed.

Lemma run_handler_Q cfg claims R H L w e :
  run_handler cfg claims (Q R H L) w e = (Q R H (e :: L), Z.testbit (claims w) (ev_bit e)).
Proof. reflexivity. Qed.

Lemma fchild_of_Q R H L w :
  fchild_of (Q R H L) w = match f_find R w with Some n => w_fchild (t_info n) | None => None end.
Proof. reflexivity. Qed.

Lemma kid_ids_Q R H L w :
  kid_ids (Q R H L) w = match f_find R w with Some n => map t_id (t_kids n) | None => [] end.
Proof. reflexivity. Qed.

(* hold_all / release_all are no longer used by the repaired routing; the facts stay true *)
Lemma hold_all_Q R l : forall H L, hold_all (Q R H L) l = Q R (rev l ++ H) L.
Proof.
  unfold hold_all. induction l as [|a l IH]; intros H L; [reflexivity|].
  cbn [fold_left rev]. rewrite hold_Q, IH, <- app_assoc. reflexivity.
Qed.

Definition remove_all (l : list Z) (H : list Z) : list Z := fold_left (fun h c => remove_one c h) l H.

Lemma release_all_Q R l : forall H L, release_all (Q R H L) l = Q R (remove_all l H) L.
Proof.
  unfold release_all, remove_all. induction l as [|a l IH]; intros H L; [reflexivity|].
  cbn [fold_left]. rewrite release_Q, IH. reflexivity.
Qed.

Lemma remove_one_mid a l1 l2 : ~ In a l1 -> remove_one a (l1 ++ a :: l2) = l1 ++ l2.
Proof.
  induction l1 as [|b l1 IH]; intros Hn; cbn [app remove_one].
  - rewrite Z.eqb_refl. reflexivity.
  - destruct (b =? a) eqn:E.
    + exfalso. apply Hn. left. lia.
    + rewrite IH; [reflexivity|]. intro Hi. apply Hn. right. exact Hi.
Qed.

Lemma remove_all_rev l : forall T, NoDup l -> remove_all l (rev l ++ T) = T.
Proof.
  unfold remove_all. induction l as [|a l IH]; intros T Hnd; [reflexivity|].
  inversion Hnd as [|? ? Hn Hd]; subst. cbn [fold_left rev]. rewrite <- app_assoc. cbn [app].
  rewrite remove_one_mid; [apply IH; exact Hd|]. intro Hi. apply Hn. apply in_rev. exact Hi.
Qed.

Lemma remove_all_rev_x l : forall x T, NoDup l -> remove_all l (x :: rev l ++ T) = x :: T.
Proof.
  induction l as [|a l IH]; intros x T Hnd; [reflexivity|].
  inversion Hnd as [|? ? Hn Hd]; subst. unfold remove_all. cbn [fold_left rev]. rewrite <- app_assoc. cbn [app remove_one].
  destruct (x =? a) eqn:E.
  - assert (x = a) by lia. subst x. apply (remove_all_rev l (a :: T) Hd).
  - rewrite remove_one_mid; [apply (IH x T Hd)|]. intro Hi. apply Hn. apply in_rev. exact Hi.
Qed.

Lemma NoDup_kid_ids l : NoDup (flat_map t_ids l) -> NoDup (map t_id l).
Proof.
  induction l as [|a r IH]; intros Hnd; [constructor|].
  cbn [flat_map] in Hnd. apply NoDup_app_inv in Hnd. destruct Hnd as (H1 & H2 & H3).
  cbn [map]. constructor; [|apply IH; exact H2].
  intro Hi. apply in_map_iff in Hi. destruct Hi as (c & Hid & Hc).
  apply (H3 (t_id a) (t_id_in a)). apply in_flat_map. exists c. split; [exact Hc|].
  rewrite <- Hid. apply t_id_in.
Qed.

Lemma flat_map_nil {A B} (f : A -> list B) l : (forall c, In c l -> f c = []) -> flat_map f l = [].
Proof.
  induction l as [|a r IH]; intros Hf; [reflexivity|]. cbn [flat_map].
  rewrite (Hf a (or_introl eq_refl)). apply IH. intros c Hc. apply Hf. right. exact Hc.
Qed.

Lemma flat_map_single {B} (f : wtree -> list B) l ck :
  NoDup (map t_id l) -> In ck l -> (forall c, In c l -> t_id c <> t_id ck -> f c = []) ->
  flat_map f l = f ck.
Proof.
  induction l as [|a r IH]; intros Hnd Hck Hf; [destruct Hck|].
  cbn [map] in Hnd. inversion Hnd as [|? ? Hn Hd]; subst. cbn [flat_map].
  destruct Hck as [->|Hck].
  - rewrite flat_map_nil; [apply app_nil_r|]. intros c Hc. apply Hf; [right; exact Hc|].
    intro He. apply Hn. rewrite <- He. apply in_map. exact Hc.
  - rewrite (Hf a (or_introl eq_refl)).
    + cbn [app]. apply IH; try assumption. intros c Hc. apply Hf. right. exact Hc.
    + intro He. apply Hn. rewrite He. apply in_map. exact Hck.
Qed.

Lemma opt_is_eqb a c : opt_is a (Some c) = opt_eqb a c.
Proof. destruct a; reflexivity. Qed.

(* one level of _handle_key in the repaired configuration, the recursive calls abstracted *)
Definition key_skip (w : Z) (stolen : option Z) (s : istate) (c : Z) : bool :=
  opt_is (fchild_of s w) (Some c) || opt_is stolen (Some c).

Definition key_loop (hk : istate -> Z -> istate * bool) (w : Z) (stolen : option Z)
  : istate -> list Z -> istate * bool :=
  fix loop (s : istate) (l : list Z) : istate * bool :=
  match l with
  | [] => (s, false)
  | c :: rest =>
    if negb (opt_is (f_parent (i_root s) c) (Some w)) then loop s rest
    else if key_skip w stolen s c then loop s rest
    else let '(s', r) := hk s c in if r then (s', true) else loop s' rest
  end.

Lemma key_loop_nil hk w stolen s : key_loop hk w stolen s [] = (s, false).
Proof. reflexivity. Qed.

Lemma key_loop_cons hk w stolen s c rest :
  key_loop hk w stolen s (c :: rest) =
  if negb (opt_is (f_parent (i_root s) c) (Some w)) then key_loop hk w stolen s rest
  else if key_skip w stolen s c then key_loop hk w stolen s rest
  else let '(s', r) := hk s c in if r then (s', true) else key_loop hk w stolen s' rest.
Proof. reflexivity. Qed.

Definition key_step (hk : istate -> Z -> istate * bool) (claims : Z -> Z) (s : istate) (w : Z)
  : istate * bool :=
  match look s w with
  | None => (i_faulty s, false)
  | Some wn =>
    if negb (w_vis (t_info wn)) then (s, false) else
    let s := hold s w in
    let '(s1, r1, stolen) :=
      match t_kids wn with
      | c :: _ => if w_steal (t_info c) then let '(s', r) := hk s (t_id c) in (s', r, Some (t_id c))
                  else (s, false, None)
      | [] => (s, false, None)
      end in
    if r1 then (release s1 w, true) else
    let '(s2, r2) :=
      match fchild_of s1 w with
      | Some k => if opt_is stolen (Some k) then (s1, false) else hk s1 k
      | None => (s1, false)
      end in
    if r2 then (release s2 w, true) else
    let '(s3, r3) := run_handler no_defects claims s2 w (IKey w) in
    if r3 then (release s3 w, true) else
    let '(s4, r4) :=
      let snap := kid_ids s3 w in
      let '(s', r) := key_loop hk w stolen s3 snap in
      (s', r) in
    (release s4 w, r4)
  end.

Lemma handle_key_S f claims s w :
  handle_key (S f) no_defects claims s w = key_step (handle_key f no_defects claims) claims s w.
Proof. reflexivity. Qed.

(* ==================================================================================== *)
(* 6. C14_key: _handle_key delivers exactly key_spec                                     *)

Definition key_ok (f : nat) (claims : Z -> Z) (R : root) (c : wtree) : Prop :=
  forall H L, handle_key f no_defects claims (Q R H L) (t_id c) =
              (Q R H (klog claims (key_order c) L), existsb (kP claims) (key_order c)).

Definition F3 (fc stolen : option Z) (c : wtree) : list Z :=
  if negb (opt_eqb fc (t_id c)) && negb (opt_eqb stolen (t_id c)) then key_order c else [].

Lemma key_loop_Q f claims R wn stolen :
  ids_unique R -> subl wn (forest R) ->
  (forall c, In c (t_kids wn) -> key_ok f claims R c) ->
  forall cs, incl cs (t_kids wn) -> forall H L,
  key_loop (handle_key f no_defects claims) (t_id wn) stolen (Q R H L) (map t_id cs) =
  (Q R H (klog claims (flat_map (F3 (w_fchild (t_info wn)) stolen) cs) L),
   existsb (kP claims) (flat_map (F3 (w_fchild (t_info wn)) stolen) cs)).
Proof.
  intros Hu Hs Hok. induction cs as [|a cs IH]; intros Hincl H L; [reflexivity|].
  assert (Ha : In a (t_kids wn)) by (apply Hincl; left; reflexivity).
  assert (Hincl' : incl cs (t_kids wn)) by (intros x Hx; apply Hincl; right; exact Hx).
  cbn [map]. rewrite key_loop_cons.
  change (i_root (Q R H L)) with R.
  rewrite (f_parent_unique R wn a Hu Hs Ha). cbn [opt_is]. rewrite Z.eqb_refl. cbn [negb].
  unfold key_skip. rewrite fchild_of_Q, (f_find_unique R wn Hu Hs). rewrite !opt_is_eqb.
  cbn [flat_map]. unfold F3 at 1 3. rewrite <- negb_orb.
  destruct (opt_eqb (w_fchild (t_info wn)) (t_id a) || opt_eqb stolen (t_id a)) eqn:E; cbn [negb app].
  - apply IH. exact Hincl'.
  - rewrite (Hok a Ha). destruct (existsb (kP claims) (key_order a)) eqn:Ea.
    + rewrite klog_app_t by exact Ea. rewrite existsb_app, Ea. reflexivity.
    + rewrite (IH Hincl'). rewrite klog_app_f by exact Ea. rewrite existsb_app, Ea. reflexivity.
Qed.

Theorem handle_key_Q claims R :
  ids_unique R -> forall fuel wn,
  subl wn (forest R) -> focus_okb wn = true -> (height wn < fuel)%nat -> key_ok fuel claims R wn.
Proof.
  intros Hu. induction fuel as [|f IHf]; intros wn Hs Hfo Hh H L; [lia|].
  assert (Hfind : f_find R (t_id wn) = Some wn) by (apply f_find_unique; assumption).
  assert (Hkids : forall c, In c (t_kids wn) -> key_ok f claims R c).
  { intros c Hc. apply IHf.
    - eapply subl_kid; eassumption.
    - eapply focus_ok_kid; eassumption.
    - apply height_kid in Hc. lia. }
  assert (Hndk : NoDup (map t_id (t_kids wn))).
  { apply NoDup_kid_ids. apply (NoDup_kids wn). eapply subl_nodup; eassumption. }
  pose proof (key_loop_Q f claims R wn) as Hloop. specialize (fun st => Hloop st Hu Hs Hkids).
  rewrite handle_key_S. unfold key_step. rewrite look_Q, Hfind.
  destruct wn as [i ch]. cbn [t_info t_kids] in *. rewrite key_order_eq.
  change (w_id i) with (t_id (Node i ch)).
  set (w := t_id (Node i ch)) in *.
  destruct (w_vis i) eqn:Ev; cbn [negb]; [|reflexivity].
  rewrite hold_Q. cbv zeta.
  set (stolen := match ch with c :: _ => if w_steal (t_info c) then Some (t_id c) else None | [] => None end).
  set (A := flat_map (fun c => if opt_eqb stolen (t_id c) then key_order c else []) ch).
  set (B := flat_map (fun c => if opt_eqb (w_fchild i) (t_id c) && negb (opt_eqb stolen (t_id c)) then key_order c else []) ch).
  fold (F3 (w_fchild i) stolen).
  set (C := flat_map (F3 (w_fchild i) stolen) ch).
  assert (H1 : match ch with
    | [] => (Q R (w :: H) L, false, None)
    | c :: _ =>
        if w_steal (t_info c)
        then let '(s', r) := handle_key f no_defects claims (Q R (w :: H) L) (t_id c) in (s', r, Some (t_id c))
        else (Q R (w :: H) L, false, None)
    end = (Q R (w :: H) (klog claims A L), existsb (kP claims) A, stolen)).
  { subst A stolen. destruct ch as [|c0 r]; [reflexivity|].
    destruct (w_steal (t_info c0)) eqn:Est.
    - rewrite (Hkids c0 (or_introl eq_refl)). cbn [flat_map opt_eqb]. rewrite Z.eqb_refl.
      rewrite flat_map_nil; [rewrite app_nil_r; reflexivity|].
      intros c Hc. cbn [map] in Hndk. inversion Hndk as [|? ? Hn Hd]; subst.
      destruct (t_id c0 =? t_id c) eqn:E; [|reflexivity].
      exfalso. apply Hn. replace (t_id c0) with (t_id c) by lia. apply in_map. exact Hc.
    - rewrite flat_map_nil; [reflexivity|]. intros c _. reflexivity. }
  rewrite H1. clear H1.
  assert (Hrel : forall L', release (Q R (w :: H) L') w = Q R H L').
  { intros L'. rewrite release_Q. cbn [remove_one]. rewrite Z.eqb_refl. reflexivity. }
  destruct (existsb (kP claims) A) eqn:EA.
  { rewrite Hrel. rewrite klog_app_t by exact EA. rewrite existsb_app, EA. reflexivity. }
  rewrite fchild_of_Q, Hfind. cbn [t_info].
  assert (H2 : match w_fchild i with
    | Some k => if opt_is stolen (Some k) then (Q R (w :: H) (klog claims A L), false)
                else handle_key f no_defects claims (Q R (w :: H) (klog claims A L)) k
    | None => (Q R (w :: H) (klog claims A L), false)
    end = (Q R (w :: H) (klog claims B (klog claims A L)), existsb (kP claims) B)).
  { subst B. destruct (w_fchild i) as [k|] eqn:Efc.
    - cbn [focus_okb] in Hfo. rewrite Efc in Hfo. apply andb_true_iff in Hfo. destruct Hfo as (Hex & _).
      apply existsb_exists in Hex. destruct Hex as (ck & Hck & Hid).
      assert (k = t_id ck) by lia. subst k. clear Hid.
      rewrite (flat_map_single _ ch ck Hndk Hck).
      + rewrite opt_is_eqb. cbn [opt_eqb]. rewrite Z.eqb_refl. cbn [andb].
        destruct (opt_eqb stolen (t_id ck)); cbn [negb]; [reflexivity|].
        apply (Hkids ck Hck).
      + intros c _ Hne. cbn [opt_eqb]. destruct (t_id ck =? t_id c) eqn:E; [lia|reflexivity].
    - rewrite flat_map_nil; [reflexivity|]. intros c _. reflexivity. }
  rewrite H2. clear H2.
  destruct (existsb (kP claims) B) eqn:EB.
  { rewrite Hrel. rewrite klog_app_f by exact EA. rewrite klog_app_t by exact EB.
    rewrite !existsb_app, EA, EB. reflexivity. }
  rewrite run_handler_Q. cbn [ev_bit]. change (Z.testbit (claims w) 0) with (kP claims w).
  assert (Hw : klog claims [w] (klog claims B (klog claims A L)) = IKey w :: klog claims B (klog claims A L)).
  { unfold klog at 1. cbn [until_claim]. destruct (kP claims w); reflexivity. }
  destruct (kP claims w) eqn:Ew.
  { rewrite Hrel. rewrite klog_app_f by exact EA. rewrite klog_app_f by exact EB.
    rewrite klog_app_t by (cbn [existsb]; rewrite Ew; reflexivity). rewrite Hw.
    rewrite !existsb_app, EA, EB. cbn [existsb]. rewrite Ew. reflexivity. }
  rewrite kid_ids_Q, Hfind. cbn [t_kids].
  rewrite (Hloop stolen ch (incl_refl ch)). fold C.
  rewrite Hrel.
  rewrite klog_app_f by exact EA. rewrite klog_app_f by exact EB.
  rewrite klog_app_f by (cbn [existsb]; rewrite Ew; reflexivity). rewrite Hw.
  rewrite !existsb_app, EA, EB. cbn [existsb]. rewrite Ew. reflexivity.
Qed.

Lemma look_quiet s w : quiet s -> look s w = f_find (i_root s) w.
Proof. intros (_ & Hf & _). unfold look. rewrite Hf. reflexivity. Qed.

Lemma tree_subl R : subl (r_tree R) (forest R).
Proof. exists (r_tree R). split; [left; reflexivity|apply sub_refl]. Qed.

(* C14, keys: with handlers that do not change the tree, _handle_key on window w offers the
   key to exactly the windows of [key_order wn], in that order, up to and including the first
   one that claims it; it returns whether somebody claimed; and it leaves everything else
   (tree, references, fault flag) as it was. *)
Theorem C14_key fuel claims s w wn s' r :
  quiet s -> ids_unique (i_root s) -> look s w = Some wn -> focus_okb wn = true ->
  (height wn < fuel)%nat ->
  handle_key fuel no_defects claims s w = (s', r) ->
  i_log s' = rev (key_spec claims wn) ++ i_log s /\
  r = existsb (fun x => Z.testbit (claims x) 0) (key_order wn) /\
  (r = true <-> exists x, In x (key_order wn) /\ Z.testbit (claims x) 0 = true) /\
  i_root s' = i_root s /\ i_fault s' = false /\ i_holds s' = i_holds s /\ quiet s'.
Proof.
  intros Hq Hu Hl Hfo Hh Hrun.
  rewrite (look_quiet s w Hq) in Hl. apply f_find_sub in Hl. destruct Hl as (Hs & Hid). subst w.
  rewrite (quiet_Q s Hq) in Hrun.
  rewrite (handle_key_Q claims (i_root s) Hu fuel wn Hs Hfo Hh) in Hrun.
  inversion Hrun; subst s' r. clear Hrun.
  split; [reflexivity|]. split; [reflexivity|]. split.
  { unfold kP. rewrite existsb_exists. reflexivity. }
  split; [reflexivity|]. split; [reflexivity|]. split; [reflexivity|apply Q_quiet].
Qed.

(* on_term_key *)
Corollary C14_term_key claims s :
  quiet s -> ids_unique (i_root s) -> focus_okb (r_tree (i_root s)) = true ->
  (height (r_tree (i_root s)) < ifuel)%nat ->
  i_log (term_key no_defects claims s) = rev (key_spec claims (r_tree (i_root s))) ++ i_log s /\
  i_root (term_key no_defects claims s) = i_root s /\
  i_holds (term_key no_defects claims s) = i_holds s /\
  quiet (term_key no_defects claims s).
Proof.
  intros Hq Hu Hfo Hh. unfold term_key.
  destruct (handle_key ifuel no_defects claims s (t_id (r_tree (i_root s)))) as [s' r] eqn:Hrun.
  assert (Hl : look s (t_id (r_tree (i_root s))) = Some (r_tree (i_root s))).
  { rewrite (look_quiet _ _ Hq). apply f_find_unique; [exact Hu|apply tree_subl]. }
  destruct (C14_key _ _ _ _ _ _ _ Hq Hu Hl Hfo Hh Hrun) as (H1 & _ & _ & H4 & _ & H6 & H7).
  cbn [fst]. split; [exact H1|]. split; [exact H4|]. split; [exact H6|exact H7].
Qed.

(* ==================================================================================== *)
(* 7. C14_mouse: _handle_mouse delivers exactly mouse_phase of mouse_order               *)

Definition mP (claims : Z -> Z) (ty : Z) : Z * Z * Z -> bool :=
  fun e => match e with (w, _, _) => Z.testbit (claims w) ty end.
Definition mk_ev (ty btn : Z) : Z * Z * Z -> iev :=
  fun e => match e with (w, l, c) => IMouse w ty btn l c end.
Definition mlog (claims : Z -> Z) (ty btn : Z) (route : list (Z * Z * Z)) (L : list iev) : list iev :=
  rev (map (mk_ev ty btn) (fst (until_claim (mP claims ty) route))) ++ L.
Definition mclaim (claims : Z -> Z) (ty : Z) (route : list (Z * Z * Z)) : option Z :=
  match snd (until_claim (mP claims ty) route) with Some (w, _, _) => Some w | None => None end.

Lemma mouse_phase_eq claims route ty btn :
  mouse_phase claims route ty btn =
  (map (mk_ev ty btn) (fst (until_claim (mP claims ty) route)), mclaim claims ty route).
Proof.
  unfold mouse_phase, mclaim. fold (mP claims ty). fold (mk_ev ty btn).
  destruct (until_claim (mP claims ty) route) as [p c]. reflexivity.
Qed.

Lemma mlog_spec claims ty btn route L :
  mlog claims ty btn route L = rev (fst (mouse_phase claims route ty btn)) ++ L.
Proof. rewrite mouse_phase_eq. reflexivity. Qed.

Lemma mclaim_spec claims ty btn route : mclaim claims ty route = snd (mouse_phase claims route ty btn).
Proof. rewrite mouse_phase_eq. reflexivity. Qed.

Lemma mlog_app_t claims ty btn l1 l2 L :
  existsb (mP claims ty) l1 = true -> mlog claims ty btn (l1 ++ l2) L = mlog claims ty btn l1 L.
Proof. intros He. unfold mlog. rewrite uc_fst_app, He. reflexivity. Qed.

Lemma mlog_app_f claims ty btn l1 l2 L :
  existsb (mP claims ty) l1 = false ->
  mlog claims ty btn (l1 ++ l2) L = mlog claims ty btn l2 (mlog claims ty btn l1 L).
Proof.
  intros He. unfold mlog. rewrite uc_fst_app, He. rewrite (uc_fst_noclaim _ _ He).
  rewrite map_app, rev_app_distr, app_assoc. reflexivity.
Qed.

Lemma mclaim_app claims ty l1 l2 :
  mclaim claims ty (l1 ++ l2) = if existsb (mP claims ty) l1 then mclaim claims ty l1 else mclaim claims ty l2.
Proof. unfold mclaim. rewrite uc_snd_app. destruct (existsb (mP claims ty) l1); reflexivity. Qed.

Lemma mclaim_none claims ty l : existsb (mP claims ty) l = false -> mclaim claims ty l = None.
Proof. intros He. unfold mclaim. rewrite (uc_snd_none _ _ He). reflexivity. Qed.

Lemma mclaim_some claims ty l :
  existsb (mP claims ty) l = true ->
  exists x lc cc, mclaim claims ty l = Some x /\ In (x, lc, cc) l /\ Z.testbit (claims x) ty = true.
Proof.
  intros He. destruct (uc_snd_some _ _ He) as ([[x lc] cc] & Hx & Hi & Hp).
  exists x, lc, cc. unfold mclaim. rewrite Hx. split; [reflexivity|]. split; [exact Hi|exact Hp].
Qed.

Lemma mlog_one claims ty btn w l c L :
  mlog claims ty btn [(w, l, c)] L = IMouse w ty btn l c :: L.
Proof. unfold mlog. cbn [until_claim mP]. destruct (Z.testbit (claims w) ty); reflexivity. Qed.

Lemma mclaim_one claims ty w l c :
  mclaim claims ty [(w, l, c)] = if Z.testbit (claims w) ty then Some w else None.
Proof. unfold mclaim. cbn [until_claim mP]. destruct (Z.testbit (claims w) ty); reflexivity. Qed.

Definition try_child (line col : Z) (cn : wtree) : option (Z * Z) :=
  let ci := t_info cn in
  let cl := line - top (w_rect ci) in
  let cc := col - left (w_rect ci) in
  if negb (w_steal ci) &&
     ((cl <? 0) || (cl >=? lines (w_rect ci)) || (cc <? 0) || (cc >=? cols (w_rect ci)))
  then None else Some (cl, cc).

Lemma try_child_spec line col cn :
  try_child line col cn =
  if w_steal (t_info cn) || cell_inb (w_rect (t_info cn)) (line, col)
  then Some (line - top (w_rect (t_info cn)), col - left (w_rect (t_info cn))) else None.
Proof.
  unfold try_child. cbv zeta. destruct (w_steal (t_info cn)); cbn [negb andb orb]; [reflexivity|].
  unfold cell_inb, bottom, right. cbn [fst snd].
  set (r := w_rect (t_info cn)).
  destruct ((line - top r <? 0) || (line - top r >=? lines r) || (col - left r <? 0) || (col - left r >=? cols r)) eqn:E1;
  destruct ((top r <=? line) && (line <? top r + lines r) && (left r <=? col) && (col <? left r + cols r)) eqn:E2;
  try reflexivity; exfalso; lia.
Qed.

Definition mouse_loop (hm : istate -> Z -> Z -> Z -> istate * option Z) (w line col : Z)
  : istate -> list Z -> istate * option Z :=
  fix loop (s : istate) (l : list Z) : istate * option Z :=
  match l with
  | [] => (s, None)
  | c :: rest =>
    if negb (opt_is (f_parent (i_root s) c) (Some w)) then loop s rest
    else
      match look s c with
      | None => (i_faulty s, None)
      | Some cn =>
        match try_child line col cn with
        | None => loop s rest
        | Some (cl, cc) =>
          let '(s', r) := hm s c cl cc in
          match r with Some x => (s', Some x) | None => loop s' rest end
        end
      end
  end.

Lemma mouse_loop_cons hm w line col s c rest :
  mouse_loop hm w line col s (c :: rest) =
  if negb (opt_is (f_parent (i_root s) c) (Some w)) then mouse_loop hm w line col s rest
  else
    match look s c with
    | None => (i_faulty s, None)
    | Some cn =>
      match try_child line col cn with
      | None => mouse_loop hm w line col s rest
      | Some (cl, cc) =>
        let '(s', r) := hm s c cl cc in
        match r with Some x => (s', Some x) | None => mouse_loop hm w line col s' rest end
      end
    end.
Proof. reflexivity. Qed.

Definition mouse_step (hm : istate -> Z -> Z -> Z -> istate * option Z) (claims : Z -> Z)
  (s : istate) (w ty btn line col : Z) : istate * option Z :=
  match look s w with
  | None => (i_faulty s, None)
  | Some wn =>
    if negb (w_vis (t_info wn)) then (s, None) else
    let s := hold s w in
    let '(s1, r1) :=
      let snap := kid_ids s w in
      let '(s', r) := mouse_loop hm w line col s snap in
      (s', r) in
    match r1 with
    | Some x => (release s1 w, Some x)
    | None =>
      let '(s2, r2) := run_handler no_defects claims s1 w (IMouse w ty btn line col) in
      (release s2 w, if r2 then Some w else None)
    end
  end.

Lemma handle_mouse_S f claims s w ty btn line col :
  handle_mouse (S f) no_defects claims s w ty btn line col =
  mouse_step (fun s c cl cc => handle_mouse f no_defects claims s c ty btn cl cc) claims s w ty btn line col.
Proof. reflexivity. Qed.

Definition mouse_ok (f : nat) (claims : Z -> Z) (R : root) (ty btn : Z) (c : wtree) : Prop :=
  forall line col H L,
    handle_mouse f no_defects claims (Q R H L) (t_id c) ty btn line col =
    (Q R H (mlog claims ty btn (mouse_order c line col) L),
     mclaim claims ty (mouse_order c line col)).

Definition G (line col : Z) (c : wtree) : list (Z * Z * Z) :=
  if w_steal (t_info c) || cell_inb (w_rect (t_info c)) (line, col)
  then mouse_order c (line - top (w_rect (t_info c))) (col - left (w_rect (t_info c))) else [].

Lemma mouse_loop_Q f claims R ty btn wn line col :
  ids_unique R -> subl wn (forest R) ->
  (forall c, In c (t_kids wn) -> mouse_ok f claims R ty btn c) ->
  forall cs, incl cs (t_kids wn) -> forall H L,
  mouse_loop (fun s c cl cc => handle_mouse f no_defects claims s c ty btn cl cc) (t_id wn) line col
             (Q R H L) (map t_id cs) =
  (Q R H (mlog claims ty btn (flat_map (G line col) cs) L),
   mclaim claims ty (flat_map (G line col) cs)).
Proof.
  intros Hu Hs Hok. induction cs as [|a cs IH]; intros Hincl H L; [reflexivity|].
  assert (Ha : In a (t_kids wn)) by (apply Hincl; left; reflexivity).
  assert (Hincl' : incl cs (t_kids wn)) by (intros x Hx; apply Hincl; right; exact Hx).
  cbn [map]. rewrite mouse_loop_cons.
  change (i_root (Q R H L)) with R.
  rewrite (f_parent_unique R wn a Hu Hs Ha). cbn [opt_is]. rewrite Z.eqb_refl. cbn [negb].
  rewrite look_Q, (f_find_unique R a Hu (subl_kid _ _ _ Hs Ha)).
  rewrite try_child_spec. cbn [flat_map]. unfold G at 1 3.
  destruct (w_steal (t_info a) || cell_inb (w_rect (t_info a)) (line, col)) eqn:E; cbn [app].
  - rewrite (Hok a Ha).
    set (ro := mouse_order a (line - top (w_rect (t_info a))) (col - left (w_rect (t_info a)))).
    destruct (existsb (mP claims ty) ro) eqn:Ea.
    + destruct (mclaim_some _ _ _ Ea) as (x & lc & cc & Hx & _ & _).
      rewrite mclaim_app, Ea, Hx. rewrite mlog_app_t by exact Ea. reflexivity.
    + rewrite (mclaim_none _ _ _ Ea). rewrite (IH Hincl').
      rewrite mclaim_app, Ea. rewrite mlog_app_f by exact Ea. reflexivity.
  - apply IH. exact Hincl'.
Qed.

Theorem handle_mouse_Q claims R ty btn :
  ids_unique R -> forall fuel wn,
  subl wn (forest R) -> (height wn < fuel)%nat -> mouse_ok fuel claims R ty btn wn.
Proof.
  intros Hu. induction fuel as [|f IHf]; intros wn Hs Hh line col H L; [lia|].
  assert (Hfind : f_find R (t_id wn) = Some wn) by (apply f_find_unique; assumption).
  assert (Hkids : forall c, In c (t_kids wn) -> mouse_ok f claims R ty btn c).
  { intros c Hc. apply IHf.
    - eapply subl_kid; eassumption.
    - apply height_kid in Hc. lia. }
  assert (Hndk : NoDup (map t_id (t_kids wn))).
  { apply NoDup_kid_ids. apply (NoDup_kids wn). eapply subl_nodup; eassumption. }
  pose proof (mouse_loop_Q f claims R ty btn wn line col Hu Hs Hkids) as Hloop.
  rewrite handle_mouse_S. unfold mouse_step. rewrite look_Q, Hfind.
  destruct wn as [i ch]. cbn [t_info t_kids] in *. rewrite mouse_order_eq.
  change (w_id i) with (t_id (Node i ch)).
  set (w := t_id (Node i ch)) in *.
  destruct (w_vis i) eqn:Ev; cbn [negb]; [|reflexivity].
  rewrite hold_Q. cbv zeta. rewrite kid_ids_Q, Hfind. cbn [t_kids].
  rewrite (Hloop ch (incl_refl ch)). fold (G line col).
  set (K := flat_map (G line col) ch).
  destruct (existsb (mP claims ty) K) eqn:EK.
  - destruct (mclaim_some _ _ _ EK) as (x & lc & cc & Hx & _ & _).
    rewrite Hx. rewrite release_Q.
    rewrite mclaim_app, EK, Hx. rewrite mlog_app_t by exact EK.
    cbn [remove_one]. rewrite Z.eqb_refl. reflexivity.
  - rewrite (mclaim_none _ _ _ EK).
    rewrite run_handler_Q. cbn [ev_bit].
    rewrite mclaim_app, EK. rewrite mlog_app_f by exact EK.
    rewrite mlog_one, mclaim_one. rewrite release_Q. cbn [remove_one]. rewrite Z.eqb_refl. reflexivity.
Qed.

(* C14, mouse: with handlers that do not change the tree, _handle_mouse on window w at
   (line, col) offers the event to exactly the windows of [mouse_order wn line col] -- the
   frontmost visible child under the pointer (or stealing input) and its descendants before
   anything behind it, each window after its children, each at the position relative to it --
   up to and including the first that claims; it returns that window (without a reference: the
   routing code holds none when it returns); everything else is as before. *)
Theorem C14_mouse fuel claims s w wn ty btn line col s' r :
  quiet s -> ids_unique (i_root s) -> look s w = Some wn -> (height wn < fuel)%nat ->
  handle_mouse fuel no_defects claims s w ty btn line col = (s', r) ->
  i_log s' = rev (fst (mouse_phase claims (mouse_order wn line col) ty btn)) ++ i_log s /\
  r = snd (mouse_phase claims (mouse_order wn line col) ty btn) /\
  i_holds s' = i_holds s /\
  i_root s' = i_root s /\ i_fault s' = false /\ quiet s'.
Proof.
  intros Hq Hu Hl Hh Hrun.
  rewrite (look_quiet s w Hq) in Hl. apply f_find_sub in Hl. destruct Hl as (Hs & Hid). subst w.
  rewrite (quiet_Q s Hq) in Hrun.
  rewrite (handle_mouse_Q claims (i_root s) ty btn Hu fuel wn Hs Hh) in Hrun.
  inversion Hrun; subst s' r. clear Hrun.
  split; [apply mlog_spec|]. split; [apply mclaim_spec|].
  split; [reflexivity|]. split; [reflexivity|]. split; [reflexivity|apply Q_quiet].
Qed.

(* the claimer is one of the windows on the route, and it does claim *)
Lemma mouse_phase_claimer claims route ty btn x :
  snd (mouse_phase claims route ty btn) = Some x ->
  exists l c, In (x, l, c) route /\ Z.testbit (claims x) ty = true.
Proof.
  rewrite <- mclaim_spec. intros Hx.
  destruct (existsb (mP claims ty) route) eqn:E.
  - destruct (mclaim_some _ _ _ E) as (y & lc & cc & Hy & Hi & Hp). rewrite Hy in Hx. inversion Hx; subst y.
    exists lc, cc. split; assumption.
  - rewrite (mclaim_none _ _ _ E) in Hx. discriminate Hx.
Qed.

(* ==================================================================================== *)
(* 8. on_term_mouse against mouse_spec (one terminal event, handlers do not mutate)      *)

(* term_mouse with its fuel as a parameter *)
Definition to_source (fuel : nat) (cfg : defects) (claims : Z -> Z) (btn line col : Z)
  (s : istate) (ty' : Z) : istate :=
  match r_dsrc (i_root s) with
  | None => s
  | Some src =>
    match (if mem src (i_freed s) then None else f_abs_origin (i_root s) src) with
    | None => i_faulty s
    | Some o =>
      if f_path_visible (i_root s) src
      then fst (handle_mouse fuel cfg claims s src ty' btn (line - fst o) (col - snd o))
      else s
    end
  end.

(* the source remembered at a drag start: only a window that is still in the tree *)
Definition start_src (cfg : defects) (st' : root) (src : option Z) : option Z :=
  match src with
  | Some x => if d_drag_stale cfg then Some x
              else match t_find x (r_tree st') with Some _ => Some x | None => None end
  | None => None
  end.

Definition tm_pre (fuel : nat) (cfg : defects) (claims : Z -> Z) (s : istate) (ty btn line col : Z) : istate :=
  let rootid := t_id (r_tree (i_root s)) in
  let st := i_root s in
  if ty =? 1 then i_set_root s (set_drag st (r_dragging st) btn line col (r_dsrc st))
  else if (ty =? 2) && negb (r_dragging st) then
    let '(s', src) := handle_mouse fuel cfg claims s rootid 5 (r_lbtn st) (r_lline st) (r_lcol st) in
    let st' := i_root s' in
    i_set_root s' (set_drag st' true (r_lbtn st') (r_lline st') (r_lcol st') (start_src cfg st' src))
  else if (ty =? 3) && r_dragging st then
    let '(s', _) := handle_mouse fuel cfg claims s rootid 7 btn line col in
    let s'' := to_source fuel cfg claims btn line col s' 8 in
    let st'' := i_root s'' in
    i_set_root s'' (set_drag st'' false (r_lbtn st'') (r_lline st'') (r_lcol st'') (r_dsrc st''))
  else s.

Definition tm_post (fuel : nat) (cfg : defects) (claims : Z -> Z) (ty btn line col : Z)
  (s2 : istate) (handled : option Z) : istate :=
  if (ty =? 2) &&
     match r_dsrc (i_root s2) with
     | Some src => negb (opt_is handled (Some src))
     | None => false
     end
  then to_source fuel cfg claims btn line col s2 6 else s2.

Definition term_mouse_f (fuel : nat) (cfg : defects) (claims : Z -> Z) (s : istate) (ty btn line col : Z) : istate :=
  let '(s2, handled) :=
    handle_mouse fuel cfg claims (tm_pre fuel cfg claims s ty btn line col)
                 (t_id (r_tree (i_root s))) ty btn line col in
  tm_post fuel cfg claims ty btn line col s2 handled.

Lemma term_mouse_f_ifuel cfg claims s ty btn line col :
  term_mouse_f ifuel cfg claims s ty btn line col = term_mouse cfg claims s ty btn line col.
Proof.
  unfold term_mouse_f, term_mouse, tm_pre, tm_post, to_source, start_src.
  reflexivity.
Qed.

Definition ds_of (R : root) : dragst :=
  mkDrag (r_dragging R) (r_lbtn R) (r_lline R) (r_lcol R) (r_dsrc R).

(* the drag source, if any, is a window of the tree *)
Definition dsrc_ok (R : root) : Prop :=
  match r_dsrc R with Some x => In x (t_ids (r_tree R)) | None => True end.

Lemma first_some_found {A B} (f : A -> option B) l c y :
  In c l -> f c = Some y -> exists y', first_some f l = Some y'.
Proof.
  induction l as [|a r IH]; intros Hc Hf; [destruct Hc|]. cbn [first_some].
  destruct (f a) as [z|] eqn:Ea; [exists z; reflexivity|].
  destruct Hc as [->|Hc]; [rewrite Hf in Ea; discriminate Ea|]. apply IH; assumption.
Qed.

Lemma t_path_some id t : In id (t_ids t) -> exists p, t_path id t = Some p.
Proof.
  induction t as [i ch IH] using wtree_ind'. intros Hin. rewrite t_path_eq.
  destruct (w_id i =? id) eqn:E; [eexists; reflexivity|].
  cbn [t_ids] in Hin. destruct Hin as [Hin|Hin]; [lia|].
  apply in_flat_map in Hin. destruct Hin as (c & Hc & Hi).
  rewrite Forall_forall in IH. destruct (IH c Hc Hi) as (p & Hp).
  destruct (first_some_found (t_path id) ch c p Hc Hp) as (p' & Hp'). rewrite Hp'. eexists; reflexivity.
Qed.

Lemma t_find_some id t : In id (t_ids t) -> exists x, t_find id t = Some x.
Proof.
  induction t as [i ch IH] using wtree_ind'. intros Hin. rewrite t_find_eq.
  destruct (w_id i =? id) eqn:E; [eexists; reflexivity|].
  cbn [t_ids] in Hin. destruct Hin as [Hin|Hin]; [lia|].
  apply in_flat_map in Hin. destruct Hin as (c & Hc & Hi).
  rewrite Forall_forall in IH. destruct (IH c Hc Hi) as (p & Hp).
  exact (first_some_found (t_find id) ch c p Hc Hp).
Qed.

Lemma remove_one_head x H : remove_one x (x :: H) = H.
Proof. cbn [remove_one]. rewrite Z.eqb_refl. reflexivity. Qed.

Lemma to_source_Q fuel claims R btn line col ty' H L :
  ids_unique R -> (height (r_tree R) < fuel)%nat -> dsrc_ok R ->
  to_source fuel no_defects claims btn line col (Q R H L) ty' =
  Q R H (rev (to_source_spec claims (r_tree R) (r_dsrc R) ty' btn line col) ++ L).
Proof.
  intros Hu Hh Hok. unfold to_source, to_source_spec, dsrc_ok in *.
  change (i_root (Q R H L)) with R. change (i_freed (Q R H L)) with (@nil Z).
  destruct (r_dsrc R) as [src|]; [|reflexivity].
  cbn [mem existsb].
  destruct (t_path_some src _ Hok) as (p & Hp). destruct (t_find_some src _ Hok) as (sb & Hsb).
  unfold f_abs_origin, tree_origin, f_path_visible, path_visible, forest. cbn [first_some]. rewrite Hp, Hsb.
  set (o := fold_left _ p (0, 0)).
  destruct (forallb (fun w => w_vis (t_info w)) p); [|reflexivity].
  destruct (t_find_sub _ _ _ Hsb) as (Hsub & Hid). subst src.
  assert (Hs : subl sb (forest R)) by (exists (r_tree R); split; [left; reflexivity|exact Hsub]).
  assert (Hhs : (height sb < fuel)%nat) by (apply height_sub in Hsub; lia).
  rewrite (handle_mouse_Q claims R ty' btn Hu fuel sb Hs Hhs).
  cbn [fst]. rewrite mlog_spec. reflexivity.
Qed.

Definition set_ds (R : root) (d : dragst) : root :=
  set_drag R (ds_dragging d) (ds_btn d) (ds_line d) (ds_col d) (ds_src d).

Lemma set_ds_id R : set_ds R (ds_of R) = R.
Proof. destruct R; reflexivity. Qed.

Lemma HMroot fuel claims R R1 ty btn l c H L :
  ids_unique R -> (height (r_tree R) < fuel)%nat -> forest R1 = forest R ->
  handle_mouse fuel no_defects claims (Q R1 H L) (t_id (r_tree R)) ty btn l c =
  (Q R1 H (mlog claims ty btn (mouse_order (r_tree R) l c) L),
   mclaim claims ty (mouse_order (r_tree R) l c)).
Proof.
  intros Hu Hh Hf.
  assert (Ht : r_tree R1 = r_tree R) by (unfold forest in Hf; inversion Hf; reflexivity).
  assert (Hu1 : ids_unique R1) by (unfold ids_unique, forest_ids; rewrite Hf; exact Hu).
  assert (Hs : subl (r_tree R) (forest R1)) by (rewrite <- Ht; apply tree_subl).
  apply (handle_mouse_Q claims R1 ty btn Hu1 fuel (r_tree R) Hs Hh).
Qed.

(* the drag source named by a START claim is a window of the tree *)
Lemma mclaim_in_tree claims ty t l c x : mclaim claims ty (mouse_order t l c) = Some x -> In x (t_ids t).
Proof.
  intros Hx. rewrite (mclaim_spec claims ty 0) in Hx. apply mouse_phase_claimer in Hx.
  destruct Hx as (l' & c' & Hi & _). eapply mouse_order_ids. exact Hi.
Qed.

(* mouse_spec = what happens before the ordinary delivery, then the ordinary delivery and
   the OUTSIDE that may follow it *)
Definition spec_pre (claims : Z -> Z) (t : wtree) (ds : dragst) (ty btn line col : Z) : list iev * dragst :=
  if ty =? 1 then ([], mkDrag (ds_dragging ds) btn line col (ds_src ds))
  else if (ty =? 2) && negb (ds_dragging ds) then
    (fst (mouse_phase claims (mouse_order t (ds_line ds) (ds_col ds)) 5 (ds_btn ds)),
     mkDrag true (ds_btn ds) (ds_line ds) (ds_col ds)
            (snd (mouse_phase claims (mouse_order t (ds_line ds) (ds_col ds)) 5 (ds_btn ds))))
  else if (ty =? 3) && ds_dragging ds then
    (fst (mouse_phase claims (mouse_order t line col) 7 btn) ++
     to_source_spec claims t (ds_src ds) 8 btn line col,
     mkDrag false (ds_btn ds) (ds_line ds) (ds_col ds) (ds_src ds))
  else ([], ds).

Definition spec_post (claims : Z -> Z) (t : wtree) (src : option Z) (ty btn line col : Z) : list iev :=
  fst (mouse_phase claims (mouse_order t line col) ty btn) ++
  (if ty =? 2 then
     match src with
     | Some s => if opt_is (snd (mouse_phase claims (mouse_order t line col) ty btn)) (Some s) then []
                 else to_source_spec claims t src 6 btn line col
     | None => []
     end
   else []).

Lemma mouse_spec_split claims t ds ty btn line col :
  mouse_spec claims t ds ty btn line col =
  (fst (spec_pre claims t ds ty btn line col) ++
   spec_post claims t (ds_src (snd (spec_pre claims t ds ty btn line col))) ty btn line col,
   snd (spec_pre claims t ds ty btn line col)).
Proof.
  unfold mouse_spec, spec_pre, spec_post.
  destruct (ty =? 1) eqn:E1.
  { assert (ty = 1) by lia. subst ty. cbn [Z.eqb Pos.eqb fst snd app]. rewrite app_nil_r. reflexivity. }
  destruct ((ty =? 2) && negb (ds_dragging ds)) eqn:E2.
  { assert (ty = 2) by lia. subst ty. cbn [Z.eqb Pos.eqb fst snd ds_src].
    destruct (mouse_phase claims (mouse_order t (ds_line ds) (ds_col ds)) 5 (ds_btn ds)) as [e1 src].
    destruct (mouse_phase claims (mouse_order t line col) 2 btn) as [e2 h]. cbn [fst snd].
    destruct src; reflexivity. }
  destruct (ty =? 2) eqn:E3.
  { assert (ty = 2) by lia. subst ty. cbn [Z.eqb Pos.eqb andb fst snd app].
    destruct (mouse_phase claims (mouse_order t line col) 2 btn) as [e2 h]. cbn [fst snd].
    destruct (ds_src ds); reflexivity. }
  destruct ((ty =? 3) && ds_dragging ds) eqn:E4; cbn [fst snd app ds_src].
  - assert (ty = 3) by lia. subst ty. rewrite app_nil_r, <- app_assoc. reflexivity.
  - rewrite app_nil_r. reflexivity.
Qed.

Lemma tm_pre_Q fuel claims R ty btn line col H L :
  ids_unique R -> (height (r_tree R) < fuel)%nat -> dsrc_ok R ->
  tm_pre fuel no_defects claims (Q R H L) ty btn line col =
  Q (set_ds R (snd (spec_pre claims (r_tree R) (ds_of R) ty btn line col))) H
    (rev (fst (spec_pre claims (r_tree R) (ds_of R) ty btn line col)) ++ L).
Proof.
  intros Hu Hh Hok. unfold tm_pre, spec_pre. change (i_root (Q R H L)) with R. cbv zeta.
  cbn [ds_of ds_dragging ds_btn ds_line ds_col ds_src].
  destruct (ty =? 1) eqn:E1; [reflexivity|].
  destruct ((ty =? 2) && negb (r_dragging R)) eqn:E2.
  { cbn [fst snd]. rewrite HMroot by (assumption || reflexivity). rewrite <- mlog_spec, <- mclaim_spec.
    change (i_root (Q R H (mlog claims 5 (r_lbtn R) (mouse_order (r_tree R) (r_lline R) (r_lcol R)) L))) with R.
    assert (Hsrc : start_src no_defects R (mclaim claims 5 (mouse_order (r_tree R) (r_lline R) (r_lcol R))) =
                   mclaim claims 5 (mouse_order (r_tree R) (r_lline R) (r_lcol R))).
    { unfold start_src. destruct (mclaim claims 5 _) as [x|] eqn:Ex; [|reflexivity].
      cbn [d_drag_stale no_defects]. apply mclaim_in_tree in Ex.
      destruct (t_find_some x _ Ex) as (n & Hn). rewrite Hn. reflexivity. }
    rewrite Hsrc. reflexivity. }
  destruct ((ty =? 3) && r_dragging R) eqn:E3.
  { cbn [fst snd]. rewrite HMroot by (assumption || reflexivity).
    rewrite to_source_Q by assumption.
    rewrite rev_app_distr, <- app_assoc, <- mlog_spec. reflexivity. }
  cbn [fst snd rev app]. rewrite set_ds_id. reflexivity.
Qed.

Lemma tm_post_Q fuel claims R1 ty btn line col H L :
  ids_unique R1 -> (height (r_tree R1) < fuel)%nat -> dsrc_ok R1 ->
  (let '(s2, handled) := handle_mouse fuel no_defects claims (Q R1 H L) (t_id (r_tree R1)) ty btn line col in
   tm_post fuel no_defects claims ty btn line col s2 handled) =
  Q R1 H (rev (spec_post claims (r_tree R1) (r_dsrc R1) ty btn line col) ++ L).
Proof.
  intros Hu Hh Hok. rewrite HMroot by (assumption || reflexivity).
  unfold tm_post, spec_post. rewrite <- !mclaim_spec.
  set (h := mclaim claims ty _). rewrite rev_app_distr, <- app_assoc, <- mlog_spec.
  set (L2 := mlog claims ty btn _ L).
  change (i_root (Q R1 H L2)) with R1.
  destruct (ty =? 2) eqn:E2; cbn [andb]; [|reflexivity].
  destruct (r_dsrc R1) as [src|] eqn:Es; [|reflexivity].
  destruct (opt_is h (Some src)); cbn [negb]; [reflexivity|].
  rewrite to_source_Q by assumption. rewrite Es. reflexivity.
Qed.

Lemma ds_of_set_ds R d : ds_of (set_ds R d) = d.
Proof. destruct d; reflexivity. Qed.

Lemma dsrc_ok_pre claims R ty btn line col :
  dsrc_ok R -> dsrc_ok (set_ds R (snd (spec_pre claims (r_tree R) (ds_of R) ty btn line col))).
Proof.
  intros Hok. unfold dsrc_ok. change (r_tree (set_ds R _)) with (r_tree R).
  unfold set_ds, spec_pre. cbn [ds_of ds_dragging ds_btn ds_line ds_col ds_src].
  destruct (ty =? 1); [exact Hok|].
  destruct ((ty =? 2) && negb (r_dragging R)).
  { cbn [snd ds_src set_drag r_dsrc].
    rewrite <- mclaim_spec. destruct (mclaim claims 5 _) as [x|] eqn:Ex; [|exact I].
    eapply mclaim_in_tree. exact Ex. }
  destruct ((ty =? 3) && r_dragging R); exact Hok.
Qed.

Lemma dsrc_ok_after claims R ty btn line col :
  dsrc_ok R ->
  dsrc_ok (set_ds R (snd (mouse_spec claims (r_tree R) (ds_of R) ty btn line col))).
Proof. intros Hok. rewrite mouse_spec_split. cbn [snd]. apply dsrc_ok_pre. exact Hok. Qed.

(* C14, one terminal mouse event against the spec: exactly the deliveries and the drag
   bookkeeping of [mouse_spec]; every reference taken is given back. *)
Theorem term_mouse_Q fuel claims R ty btn line col H L :
  ids_unique R -> (height (r_tree R) < fuel)%nat -> dsrc_ok R ->
  term_mouse_f fuel no_defects claims (Q R H L) ty btn line col =
  Q (set_ds R (snd (mouse_spec claims (r_tree R) (ds_of R) ty btn line col))) H
    (rev (fst (mouse_spec claims (r_tree R) (ds_of R) ty btn line col)) ++ L).
Proof.
  intros Hu Hh Hok. unfold term_mouse_f. change (i_root (Q R H L)) with R.
  rewrite (tm_pre_Q fuel claims R ty btn line col H L Hu Hh Hok).
  rewrite mouse_spec_split. cbn [fst snd].
  set (d := snd (spec_pre claims (r_tree R) (ds_of R) ty btn line col)) in *.
  set (R1 := set_ds R d) in *.
  assert (Ht : r_tree R1 = r_tree R) by reflexivity.
  assert (Hu1 : ids_unique R1) by exact Hu.
  assert (Hok1 : dsrc_ok R1) by (apply dsrc_ok_pre; exact Hok).
  rewrite <- Ht at 1.
  rewrite (tm_post_Q fuel claims R1 ty btn line col H _ Hu1 Hh Hok1).
  rewrite rev_app_distr, <- app_assoc. rewrite Ht.
  assert (Hsrc : r_dsrc R1 = ds_src d) by (subst R1; destruct d; reflexivity).
  rewrite Hsrc. reflexivity.
Qed.

(* C14, one terminal mouse event: with handlers that do not change the tree, on_term_mouse
   delivers exactly the events of [mouse_spec], and its drag bookkeeping is exactly the one
   of [mouse_spec]. *)
Theorem C14_term_mouse_f fuel claims s ty btn line col :
  quiet s -> ids_unique (i_root s) -> (height (r_tree (i_root s)) < fuel)%nat -> dsrc_ok (i_root s) ->
  let R := i_root s in
  let MS := mouse_spec claims (r_tree R) (ds_of R) ty btn line col in
  let s' := term_mouse_f fuel no_defects claims s ty btn line col in
  i_log s' = rev (fst MS) ++ i_log s /\
  i_root s' = set_ds R (snd MS) /\
  ds_of (i_root s') = snd MS /\
  r_tree (i_root s') = r_tree R /\ r_orphans (i_root s') = r_orphans R /\
  i_holds s' = i_holds s /\
  i_fault s' = false /\ quiet s' /\ dsrc_ok (i_root s').
Proof.
  intros Hq Hu Hh Hok. cbv zeta.
  pose proof (term_mouse_Q fuel claims (i_root s) ty btn line col (i_holds s) (i_log s) Hu Hh Hok) as Heq.
  rewrite <- (quiet_Q s Hq) in Heq. rewrite Heq.
  cbn [Q i_log i_root i_fault i_holds].
  split; [reflexivity|]. split; [reflexivity|]. split; [apply ds_of_set_ds|].
  split; [reflexivity|]. split; [reflexivity|]. split; [reflexivity|]. split; [reflexivity|].
  split; [apply Q_quiet|].
  apply dsrc_ok_after. exact Hok.
Qed.

Corollary C14_term_mouse claims s ty btn line col :
  quiet s -> ids_unique (i_root s) -> (height (r_tree (i_root s)) < ifuel)%nat -> dsrc_ok (i_root s) ->
  let R := i_root s in
  let MS := mouse_spec claims (r_tree R) (ds_of R) ty btn line col in
  let s' := term_mouse no_defects claims s ty btn line col in
  i_log s' = rev (fst MS) ++ i_log s /\
  i_root s' = set_ds R (snd MS) /\
  ds_of (i_root s') = snd MS /\
  r_tree (i_root s') = r_tree R /\ r_orphans (i_root s') = r_orphans R /\
  i_holds s' = i_holds s /\
  i_fault s' = false /\ quiet s' /\ dsrc_ok (i_root s').
Proof.
  intros Hq Hu Hh Hok. cbv zeta. rewrite <- term_mouse_f_ifuel.
  exact (C14_term_mouse_f ifuel claims s ty btn line col Hq Hu Hh Hok).
Qed.

(* ==================================================================================== *)
(* 9. The drag bracket rules, on the spec                                                *)

Lemma uc_fst_incl {A} (P : A -> bool) l x : In x (fst (until_claim P l)) -> In x l.
Proof.
  induction l as [|a l IH]; [intros []|]. rewrite uc_cons.
  destruct (P a); cbn [fst]; intros [Hx|Hx]; try (left; exact Hx); [destruct Hx|right; apply IH; exact Hx].
Qed.

(* every delivery of a phase has the type and button of the phase, to a window of the route,
   at the position the route gives *)
Lemma mouse_phase_in claims route ty btn e :
  In e (fst (mouse_phase claims route ty btn)) ->
  exists w l c, e = IMouse w ty btn l c /\ In (w, l, c) route.
Proof.
  rewrite mouse_phase_eq. cbn [fst]. intros Hin. apply in_map_iff in Hin.
  destruct Hin as ([[w l] c] & He & Hi). exists w, l, c. split; [symmetry; exact He|].
  eapply uc_fst_incl. exact Hi.
Qed.

Lemma to_source_in claims t src ty btn line col e :
  In e (to_source_spec claims t src ty btn line col) ->
  exists s sb o w l c, src = Some s /\ t_find s t = Some sb /\ tree_origin t s = Some o /\
    e = IMouse w ty btn l c /\ In (w, l, c) (mouse_order sb (line - fst o) (col - snd o)).
Proof.
  unfold to_source_spec. destruct src as [s|]; [|intros []].
  destruct (t_find s t) as [sb|] eqn:Ef; [|intros []]. destruct (tree_origin t s) as [o|] eqn:Eo; [|intros []].
  destruct (path_visible t s); [|intros []].
  intros Hin. apply mouse_phase_in in Hin. destruct Hin as (w & l & c & He & Hi).
  exists s, sb, o, w, l, c. split; [reflexivity|]. split; [exact Ef|]. split; [exact Eo|]. split; [exact He|exact Hi].
Qed.

(* ... and only to a source that is visible together with everything above it *)
Lemma to_source_vis claims t s ty btn line col e :
  In e (to_source_spec claims t (Some s) ty btn line col) -> path_visible t s = true.
Proof.
  unfold to_source_spec. destruct (t_find s t); [|intros []]. destruct (tree_origin t s); [|intros []].
  destruct (path_visible t s); [reflexivity|intros []].
Qed.

Lemma mouse_phase_ty claims route ty btn e :
  In e (fst (mouse_phase claims route ty btn)) -> ev_bit e = ty /\ ev_class e = 1.
Proof. intros Hin. apply mouse_phase_in in Hin. destruct Hin as (w & l & c & -> & _). split; reflexivity. Qed.

Lemma to_source_ty claims t src ty btn line col e :
  In e (to_source_spec claims t src ty btn line col) -> ev_bit e = ty /\ ev_class e = 1.
Proof.
  intros Hin. apply to_source_in in Hin.
  destruct Hin as (s & sb & o & w & l & c & _ & _ & _ & -> & _). split; reflexivity.
Qed.

Definition raw_ty (ty : Z) : Prop := 1 <= ty <= 4.

(* START is only sent by a DRAG event while no drag is on, with the button remembered from the
   press, along the route of the remembered press position *)
Lemma spec_start claims t ds ty btn line col w b l c :
  raw_ty ty -> In (IMouse w 5 b l c) (fst (mouse_spec claims t ds ty btn line col)) ->
  ty = 2 /\ ds_dragging ds = false /\ b = ds_btn ds /\
  In (w, l, c) (mouse_order t (ds_line ds) (ds_col ds)).
Proof.
  unfold raw_ty. intros Hraw. rewrite mouse_spec_split. cbn [fst]. unfold spec_pre, spec_post.
  intros Hin. apply in_app_or in Hin. destruct Hin as [Hin|Hin].
  - destruct (ty =? 1); [destruct Hin|].
    destruct ((ty =? 2) && negb (ds_dragging ds)) eqn:E2.
    + cbn [fst] in Hin. apply mouse_phase_in in Hin. destruct Hin as (w' & l' & c' & He & Hi).
      inversion He; subst. repeat split; try lia; try assumption.
    + destruct ((ty =? 3) && ds_dragging ds); [|destruct Hin]. cbn [fst] in Hin.
      apply in_app_or in Hin. destruct Hin as [Hin|Hin].
      * apply mouse_phase_ty in Hin. cbn [ev_bit] in Hin. lia.
      * apply to_source_ty in Hin. cbn [ev_bit] in Hin. lia.
  - apply in_app_or in Hin. destruct Hin as [Hin|Hin].
    + apply mouse_phase_ty in Hin. cbn [ev_bit] in Hin. lia.
    + destruct (ty =? 2); [|destruct Hin]. destruct (ds_src (snd _)); [|destruct Hin].
      destruct (opt_is _ _); [destruct Hin|]. apply to_source_ty in Hin. cbn [ev_bit] in Hin. lia.
Qed.

(* OUTSIDE is only sent by a DRAG event, with a drag on afterwards and a drag source, to the
   subtree of the source (at the position relative to the source), and only when the source
   did not take the DRAG itself *)
Lemma spec_outside claims t ds ty btn line col w b l c :
  raw_ty ty -> In (IMouse w 6 b l c) (fst (mouse_spec claims t ds ty btn line col)) ->
  ty = 2 /\ b = btn /\ ds_dragging (snd (mouse_spec claims t ds ty btn line col)) = true /\
  exists src sb o,
    ds_src (snd (mouse_spec claims t ds ty btn line col)) = Some src /\
    t_find src t = Some sb /\ tree_origin t src = Some o /\
    In (w, l, c) (mouse_order sb (line - fst o) (col - snd o)) /\
    snd (mouse_phase claims (mouse_order t line col) 2 btn) <> Some src.
Proof.
  unfold raw_ty. intros Hraw. rewrite mouse_spec_split. cbn [fst snd]. unfold spec_post.
  intros Hin. apply in_app_or in Hin. destruct Hin as [Hin|Hin].
  - exfalso. unfold spec_pre in Hin. destruct (ty =? 1); [destruct Hin|].
    destruct ((ty =? 2) && negb (ds_dragging ds)).
    + cbn [fst] in Hin. apply mouse_phase_ty in Hin. cbn [ev_bit] in Hin. lia.
    + destruct ((ty =? 3) && ds_dragging ds); [|destruct Hin]. cbn [fst] in Hin.
      apply in_app_or in Hin. destruct Hin as [Hin|Hin].
      * apply mouse_phase_ty in Hin. cbn [ev_bit] in Hin. lia.
      * apply to_source_ty in Hin. cbn [ev_bit] in Hin. lia.
  - apply in_app_or in Hin. destruct Hin as [Hin|Hin].
    { apply mouse_phase_ty in Hin. cbn [ev_bit] in Hin. lia. }
    destruct (ty =? 2) eqn:E2; [|destruct Hin]. assert (ty = 2) by lia. subst ty.
    destruct (ds_src (snd (spec_pre claims t ds 2 btn line col))) as [s|] eqn:Es; [|destruct Hin].
    destruct (opt_is (snd (mouse_phase claims (mouse_order t line col) 2 btn)) (Some s)) eqn:Eo; [destruct Hin|].
    apply to_source_in in Hin. destruct Hin as (s' & sb & o & w' & l' & c' & Hs & Hf & Ho & He & Hi).
    inversion Hs; subst s'. inversion He; subst.
    split; [reflexivity|]. split; [reflexivity|]. split.
    { unfold spec_pre. cbn [Z.eqb Pos.eqb andb]. destruct (ds_dragging ds) eqn:Ed; cbn [negb snd ds_dragging]; [exact Ed|reflexivity]. }
    exists s, sb, o. repeat split; try assumption.
    intro Hc. rewrite Hc in Eo. cbn [opt_is] in Eo. rewrite Z.eqb_refl in Eo. discriminate Eo.
Qed.

(* a RELEASE while a drag is on: DROPs where it happens, then STOPs to the source subtree,
   then the RELEASEs; and the drag is over *)
Lemma spec_release claims t ds btn line col :
  ds_dragging ds = true ->
  let e7 := fst (mouse_phase claims (mouse_order t line col) 7 btn) in
  let e8 := to_source_spec claims t (ds_src ds) 8 btn line col in
  let e3 := fst (mouse_phase claims (mouse_order t line col) 3 btn) in
  fst (mouse_spec claims t ds 3 btn line col) = e7 ++ e8 ++ e3 /\
  Forall (fun e => ev_bit e = 7) e7 /\
  Forall (fun e => ev_bit e = 8 /\
            exists s sb, ds_src ds = Some s /\ t_find s t = Some sb /\ In (iev_win e) (t_ids sb)) e8 /\
  Forall (fun e => ev_bit e = 3) e3 /\
  ds_dragging (snd (mouse_spec claims t ds 3 btn line col)) = false.
Proof.
  intros Hd. cbv zeta. unfold mouse_spec. rewrite Hd. cbn [Z.eqb Pos.eqb andb negb fst snd ds_dragging].
  split; [reflexivity|]. split.
  { apply Forall_forall. intros e He. apply mouse_phase_ty in He. apply He. }
  split.
  { apply Forall_forall. intros e He. apply to_source_in in He.
    destruct He as (s & sb & o & w & l & c & Hs & Hf & Ho & -> & Hi). split; [reflexivity|].
    exists s, sb. split; [exact Hs|]. split; [exact Hf|]. cbn [iev_win]. eapply mouse_order_ids. exact Hi. }
  split; [|reflexivity].
  apply Forall_forall. intros e He. apply mouse_phase_ty in He. apply He.
Qed.

(* ---- positions are relative to the receiving window ---- *)
Definition off_step (acc : Z * Z) (w : wtree) : Z * Z :=
  (fst acc + top (w_rect (t_info w)), snd acc + left (w_rect (t_info w))).

Lemma fold_off p : forall a b,
  fold_left off_step p (a, b) = (a + fst (fold_left off_step p (0, 0)), b + snd (fold_left off_step p (0, 0))).
Proof.
  induction p as [|x p IH]; intros a b; cbn [fold_left].
  - cbn [fst snd]. f_equal; lia.
  - unfold off_step at 2 4 6. cbn [fst snd]. rewrite (IH (a + _) (b + _)), (IH (0 + _) (0 + _)).
    cbn [fst snd]. f_equal; lia.
Qed.

Lemma tree_origin_eq t id :
  tree_origin t id = match t_path id t with Some p => Some (fold_left off_step p (0, 0)) | None => None end.
Proof. reflexivity. Qed.

Lemma path_step w t c p :
  NoDup (t_ids t) -> In c (t_kids t) -> t_path w c = Some p -> t_path w t = Some (t :: p).
Proof.
  destruct t as [i ch]. cbn [t_kids]. intros Hnd Hc Hp.
  apply NoDup_kids in Hnd. cbn [t_kids] in Hnd. destruct Hnd as (Hnd & Hni).
  assert (Hw : In w (t_ids c)) by (eapply t_path_in; exact Hp).
  rewrite t_path_eq. destruct (w_id i =? w) eqn:E.
  - exfalso. apply Hni. apply in_flat_map. exists c. split; [exact Hc|].
    unfold t_id. cbn [t_info]. replace (w_id i) with w by lia. exact Hw.
  - rewrite (first_some_pick (t_path w) w ch c p); try assumption; [reflexivity|].
    intros c' _ Hn. apply t_path_none. exact Hn.
Qed.

(* a window on the route of (line, col) is offered the event at (line, col) minus its own
   origin within t (t's own offset counted on both sides) *)
Lemma mouse_order_relative t : forall line col w l c,
  NoDup (t_ids t) -> In (w, l, c) (mouse_order t line col) ->
  exists o, tree_origin t w = Some o /\
    l + fst o = line + top (w_rect (t_info t)) /\ c + snd o = col + left (w_rect (t_info t)).
Proof.
  induction t as [i ch IH] using wtree_ind'. intros line col w l c Hnd Hin.
  apply mouse_order_in in Hin. destruct Hin as (_ & [He|(k & Hk & Hw)]).
  - inversion He; subst. rewrite tree_origin_eq, t_path_eq. unfold t_id. cbn [t_info]. rewrite Z.eqb_refl.
    eexists. split; [reflexivity|]. cbn [fold_left off_step fst snd t_info]. lia.
  - cbn [t_kids] in Hk. rewrite Forall_forall in IH.
    assert (Hndc : NoDup (t_ids k)).
    { apply NoDup_kids in Hnd. destruct Hnd as (Hnd & _). eapply NoDup_flat_in; eassumption. }
    destruct (IH k Hk _ _ _ _ _ Hndc Hw) as (o & Ho & Hl & Hc).
    rewrite tree_origin_eq in Ho. destruct (t_path w k) as [p|] eqn:Ep; [|discriminate Ho].
    inversion Ho; subst o. clear Ho.
    rewrite tree_origin_eq, (path_step w (Node i ch) k p Hnd Hk Ep).
    eexists. split; [reflexivity|]. cbn [fold_left]. unfold off_step at 2 4. cbn [fst snd t_info].
    rewrite fold_off. cbn [fst snd]. lia.
Qed.

(* ---- sequences of raw terminal events ---- *)
Definition rawev := (Z * Z * Z * Z)%type.      (* ty, btn, line, col *)

Fixpoint run_mouse (claims : Z -> Z) (t : wtree) (evs : list rawev) (ds : dragst) : list (list iev) :=
  match evs with
  | [] => []
  | (ty, btn, line, col) :: r =>
    fst (mouse_spec claims t ds ty btn line col) ::
    run_mouse claims t r (snd (mouse_spec claims t ds ty btn line col))
  end.

Fixpoint run_ds (claims : Z -> Z) (t : wtree) (evs : list rawev) (ds : dragst) : dragst :=
  match evs with
  | [] => ds
  | (ty, btn, line, col) :: r => run_ds claims t r (snd (mouse_spec claims t ds ty btn line col))
  end.

Lemma run_ds_app claims t pre post ds :
  run_ds claims t (pre ++ post) ds = run_ds claims t post (run_ds claims t pre ds).
Proof.
  revert ds. induction pre as [|[[[ty btn] line] col] pre IH]; intros ds; [reflexivity|].
  cbn [app run_ds]. apply IH.
Qed.

Lemma run_mouse_app claims t pre ty btn line col post ds :
  run_mouse claims t (pre ++ (ty, btn, line, col) :: post) ds =
  run_mouse claims t pre ds ++
  fst (mouse_spec claims t (run_ds claims t pre ds) ty btn line col) ::
  run_mouse claims t post (run_ds claims t (pre ++ [(ty, btn, line, col)]) ds).
Proof.
  revert ds. induction pre as [|[[[ty' btn'] line'] col'] pre IH]; intros ds; [reflexivity|].
  cbn [app run_mouse run_ds]. rewrite IH. reflexivity.
Qed.

(* the most recent PRESS *)
Fixpoint last_press (evs : list rawev) (d : Z * Z * Z) : Z * Z * Z :=
  match evs with
  | [] => d
  | (ty, b, l, c) :: r => last_press r (if ty =? 1 then (b, l, c) else d)
  end.

Definition press_of (ds : dragst) : Z * Z * Z := (ds_btn ds, ds_line ds, ds_col ds).

Lemma press_step claims t ds ty btn line col :
  press_of (snd (mouse_spec claims t ds ty btn line col)) =
  if ty =? 1 then (btn, line, col) else press_of ds.
Proof.
  rewrite mouse_spec_split. cbn [snd]. unfold spec_pre.
  destruct (ty =? 1); [reflexivity|].
  destruct ((ty =? 2) && negb (ds_dragging ds)); [reflexivity|].
  destruct ((ty =? 3) && ds_dragging ds); reflexivity.
Qed.

Lemma run_ds_press claims t evs : forall ds,
  press_of (run_ds claims t evs ds) = last_press evs (press_of ds).
Proof.
  induction evs as [|[[[ty btn] line] col] evs IH]; intros ds; [reflexivity|].
  cbn [run_ds last_press]. rewrite IH, press_step. reflexivity.
Qed.

(* while a drag is on, the source (if any) is a window of the tree that claimed a START *)
Definition src_inv (claims : Z -> Z) (t : wtree) (d : dragst) : Prop :=
  ds_dragging d = true -> forall x, ds_src d = Some x -> Z.testbit (claims x) 5 = true /\ In x (t_ids t).

Lemma src_inv_step claims t ds ty btn line col :
  src_inv claims t ds -> src_inv claims t (snd (mouse_spec claims t ds ty btn line col)).
Proof.
  intros Hinv. rewrite mouse_spec_split. cbn [snd]. unfold spec_pre.
  destruct (ty =? 1); [exact Hinv|].
  destruct ((ty =? 2) && negb (ds_dragging ds)).
  { intros _ x Hx. cbn [ds_src] in Hx. apply mouse_phase_claimer in Hx.
    destruct Hx as (l & c & Hi & Hc). split; [exact Hc|]. eapply mouse_order_ids. exact Hi. }
  destruct ((ty =? 3) && ds_dragging ds); [|exact Hinv].
  intros Hd. discriminate Hd.
Qed.

Lemma run_ds_src_inv claims t evs : forall ds, src_inv claims t ds -> src_inv claims t (run_ds claims t evs ds).
Proof.
  induction evs as [|[[[ty btn] line] col] evs IH]; intros ds Hinv; [exact Hinv|].
  cbn [run_ds]. apply IH. apply src_inv_step. exact Hinv.
Qed.

Lemma src_inv_init claims t : src_inv claims t drag_init.
Proof. intros Hd. discriminate Hd. Qed.

(* C14, the drag bracket rules over every sequence of raw terminal events [pre] followed by
   one more event (ty, btn, line, col), starting from the initial drag state. *)
Theorem C14_drag claims t pre ty btn line col :
  NoDup (t_ids t) -> raw_ty ty ->
  let d := run_ds claims t pre drag_init in
  let e := fst (mouse_spec claims t d ty btn line col) in
  let d' := snd (mouse_spec claims t d ty btn line col) in
  (* e is the next element of the run *)
  (forall post, run_mouse claims t (pre ++ (ty, btn, line, col) :: post) drag_init =
                run_mouse claims t pre drag_init ++ e :: run_mouse claims t post d') /\
  (* START: only on a DRAG while no drag is on; button and absolute position of the most
     recent PRESS (button 0 at (-1,-1), the initial drag state, if there was none) *)
  (forall w b l c, In (IMouse w 5 b l c) e ->
     ty = 2 /\ ds_dragging d = false /\
     exists o, tree_origin t w = Some o /\
       (b, l + fst o - top (w_rect (t_info t)), c + snd o - left (w_rect (t_info t))) =
       last_press pre (0, -1, -1)) /\
  (* OUTSIDE: only on a DRAG, with a drag on and a source that claimed a START and did not take
     this DRAG; delivered inside the source's subtree *)
  (forall w b l c, In (IMouse w 6 b l c) e ->
     ty = 2 /\ b = btn /\ ds_dragging d' = true /\
     exists src sb, ds_src d' = Some src /\ Z.testbit (claims src) 5 = true /\
       t_find src t = Some sb /\ In w (t_ids sb) /\
       snd (mouse_phase claims (mouse_order t line col) 2 btn) <> Some src) /\
  (* RELEASE while dragging: DROPs, then STOPs to the source subtree, then RELEASEs; drag over *)
  (ty = 3 -> ds_dragging d = true ->
     exists e7 e8 e3, e = e7 ++ e8 ++ e3 /\
       Forall (fun x => ev_bit x = 7) e7 /\
       Forall (fun x => ev_bit x = 8 /\
                 exists s sb, ds_src d = Some s /\ t_find s t = Some sb /\ In (iev_win x) (t_ids sb)) e8 /\
       Forall (fun x => ev_bit x = 3) e3 /\
       ds_dragging d' = false) /\
  (* DROP and STOP occur only on a RELEASE while dragging *)
  (forall x, In x e -> ev_bit x = 7 \/ ev_bit x = 8 -> ty = 3 /\ ds_dragging d = true).
Proof.
  intros Hnd Hraw. cbv zeta.
  set (d := run_ds claims t pre drag_init).
  assert (Hpress : press_of d = last_press pre (0, -1, -1)) by (apply (run_ds_press claims t pre drag_init)).
  assert (Hsrc : src_inv claims t d) by (apply run_ds_src_inv, src_inv_init).
  split.
  { intros post. rewrite run_mouse_app, run_ds_app. reflexivity. }
  split.
  { intros w b l c Hin. apply spec_start in Hin; [|exact Hraw].
    destruct Hin as (Hty & Hd & Hb & Hi). split; [exact Hty|]. split; [exact Hd|].
    destruct (mouse_order_relative t _ _ _ _ _ Hnd Hi) as (o & Ho & Hl & Hc).
    exists o. split; [exact Ho|]. rewrite <- Hpress. unfold press_of. subst b.
    f_equal; [f_equal|]; lia. }
  split.
  { intros w b l c Hin. apply spec_outside in Hin; [|exact Hraw].
    destruct Hin as (Hty & Hb & Hd' & src & sb & o & Hs & Hf & Ho & Hi & Hne).
    split; [exact Hty|]. split; [exact Hb|]. split; [exact Hd'|].
    exists src, sb. split; [exact Hs|]. split.
    { apply (src_inv_step claims t d ty btn line col Hsrc Hd' src Hs). }
    split; [exact Hf|]. split; [eapply mouse_order_ids; exact Hi|exact Hne]. }
  split.
  { intros Hty Hd. subst ty. destruct (spec_release claims t d btn line col Hd) as (H1 & H2 & H3 & H4 & H5).
    eexists _, _, _. split; [exact H1|]. split; [exact H2|]. split; [exact H3|]. split; [exact H4|exact H5]. }
  intros x Hin Hx. unfold raw_ty in Hraw. rewrite mouse_spec_split in Hin. cbn [fst] in Hin.
  unfold spec_pre, spec_post in Hin.
  apply in_app_or in Hin. destruct Hin as [Hin|Hin].
  - destruct (ty =? 1); [destruct Hin|].
    destruct ((ty =? 2) && negb (ds_dragging d)).
    { cbn [fst] in Hin. apply mouse_phase_ty in Hin. lia. }
    destruct ((ty =? 3) && ds_dragging d) eqn:E3; [|destruct Hin]. lia.
  - exfalso. apply in_app_or in Hin. destruct Hin as [Hin|Hin].
    + apply mouse_phase_ty in Hin. lia.
    + destruct (ty =? 2); [|destruct Hin]. destruct (ds_src (snd _)); [|destruct Hin].
      destruct (opt_is _ _); [destruct Hin|]. apply to_source_ty in Hin. lia.
Qed.

(* ---- hidden windows and the synthesised drag events ---- *)
Lemma t_path_self t : t_path (t_id t) t = Some [t].
Proof. destruct t as [i ch]. rewrite t_path_eq. unfold t_id. cbn [t_info]. rewrite Z.eqb_refl. reflexivity. Qed.

(* the path to w through a subtree sb of t: the path to sb, then the path inside sb *)
Lemma t_path_compose t sb w pw :
  NoDup (t_ids t) -> sub sb t -> t_path w sb = Some pw ->
  exists ps p, t_path (t_id sb) t = Some ps /\ t_path w t = Some p /\
               forall n, In n p -> In n ps \/ In n pw.
Proof.
  intros Hnd Hs Hpw. induction Hs as [t|sb k t Hk Hs IH].
  - exists [t], pw. split; [apply t_path_self|]. split; [exact Hpw|]. intros n Hn. right. exact Hn.
  - assert (Hndk : NoDup (t_ids k)).
    { apply NoDup_kids in Hnd. destruct Hnd as (Hnd & _). eapply NoDup_flat_in; eassumption. }
    destruct (IH Hndk Hpw) as (ps & p & Hps & Hp & Hin).
    exists (t :: ps), (t :: p).
    split; [apply (path_step _ t k ps Hnd Hk Hps)|]. split; [apply (path_step _ t k p Hnd Hk Hp)|].
    intros n [Hn|Hn]; [left; left; exact Hn|]. destruct (Hin n Hn) as [Hx|Hx]; [left; right; exact Hx|right; exact Hx].
Qed.

(* every delivery of one terminal mouse event comes from a routing phase from the root, or
   from the direct delivery to a drag source *)
Lemma mouse_spec_events claims t ds ty btn line col e :
  In e (fst (mouse_spec claims t ds ty btn line col)) ->
  (exists l c ty2 b2, In e (fst (mouse_phase claims (mouse_order t l c) ty2 b2))) \/
  (exists src ty2, In e (to_source_spec claims t src ty2 btn line col)).
Proof.
  rewrite mouse_spec_split. cbn [fst]. unfold spec_pre, spec_post. intros Hin.
  apply in_app_or in Hin. destruct Hin as [Hin|Hin].
  - destruct (ty =? 1); [destruct Hin|].
    destruct ((ty =? 2) && negb (ds_dragging ds)).
    { cbn [fst] in Hin. left. eexists _, _, _, _. exact Hin. }
    destruct ((ty =? 3) && ds_dragging ds); [|destruct Hin]. cbn [fst] in Hin.
    apply in_app_or in Hin. destruct Hin as [Hin|Hin].
    + left. eexists _, _, _, _. exact Hin.
    + right. eexists _, _. exact Hin.
  - apply in_app_or in Hin. destruct Hin as [Hin|Hin].
    + left. eexists _, _, _, _. exact Hin.
    + destruct (ty =? 2); [|destruct Hin]. destruct (ds_src (snd _)) eqn:Es; [|destruct Hin].
      destruct (opt_is _ _); [destruct Hin|]. right. eexists _, _. exact Hin.
Qed.

(* C14: a hidden window, and every window below a hidden one, gets none of the events of a
   terminal mouse event either -- not as a drag source (START is routed, OUTSIDE and STOP are
   sent directly), not as a window inside the subtree of a drag source *)
Theorem C14_hidden_never_drag : forall claims t w path n ty btn line col,
  NoDup (t_ids t) -> t_path w t = Some path -> In n path -> w_vis (t_info n) = false ->
  to_source_spec claims t (Some w) ty btn line col = [] /\
  forall ds ty' e, raw_ty ty' -> In e (fst (mouse_spec claims t ds ty' btn line col)) -> iev_win e <> w.
Proof.
  intros claims t w path n ty btn line col Hnd Hp Hn Hhid.
  assert (Hpv : path_visible t w = false).
  { unfold path_visible. rewrite Hp. destruct (forallb (fun x => w_vis (t_info x)) path) eqn:E; [|reflexivity].
    rewrite forallb_forall in E. rewrite (E n Hn) in Hhid. discriminate Hhid. }
  split.
  { unfold to_source_spec. destruct (t_find w t); [|reflexivity]. destruct (tree_origin t w); [|reflexivity].
    rewrite Hpv. reflexivity. }
  intros ds ty' e _ Hin He.
  destruct (C14_hidden_never t w path n Hnd Hp Hn Hhid) as (_ & Hmo).
  apply mouse_spec_events in Hin. destruct Hin as [(l & c & ty2 & b2 & Hin)|(src & ty2 & Hin)].
  - apply mouse_phase_in in Hin. destruct Hin as (x & l' & c' & -> & Hi). cbn [iev_win] in He. subst x.
    exact (Hmo l c l' c' Hi).
  - pose proof (to_source_in _ _ _ _ _ _ _ _ Hin) as (s & sb & o & x & l' & c' & -> & Hf & Ho & -> & Hi).
    cbn [iev_win] in He. subst x.
    pose proof (to_source_vis _ _ _ _ _ _ _ _ Hin) as Hvs.
    destruct (t_find_sub _ _ _ Hf) as (Hsub & Hid).
    assert (Hndsb : NoDup (t_ids sb)) by (eapply sub_nodup; eassumption).
    destruct (C14_hidden_never_mouse sb _ _ w l' c' Hndsb Hi) as (pw & Hpw & Hall).
    destruct (t_path_compose t sb w pw Hnd Hsub Hpw) as (ps & p & Hps & Hp' & Hcov).
    rewrite Hp in Hp'. inversion Hp'; subst p. clear Hp'.
    destruct (Hcov n Hn) as [Hx|Hx].
    + (* the hidden window is on the way to the source: nothing is sent to the source *)
      unfold path_visible in Hvs. rewrite <- Hid, Hps in Hvs. rewrite forallb_forall in Hvs.
      rewrite (Hvs n Hx) in Hhid. discriminate Hhid.
    + (* it is inside the source's subtree: w is not on the route there *)
      unfold all_visible in Hall. rewrite Forall_forall in Hall. rewrite (Hall n Hx) in Hhid. discriminate Hhid.
Qed.

(* ---- the model over sequences ---- *)
(* drag states that differ only in a source nobody reads (no drag on) *)
Definition ds_equiv (d1 d2 : dragst) : Prop :=
  ds_dragging d1 = ds_dragging d2 /\ ds_btn d1 = ds_btn d2 /\ ds_line d1 = ds_line d2 /\
  ds_col d1 = ds_col d2 /\ (ds_dragging d1 = true -> ds_src d1 = ds_src d2).

Lemma ds_equiv_refl d : ds_equiv d d.
Proof. repeat split. Qed.

Lemma ds_equiv_trans d1 d2 d3 : ds_equiv d1 d2 -> ds_equiv d2 d3 -> ds_equiv d1 d3.
Proof.
  intros (A1 & A2 & A3 & A4 & A5) (B1 & B2 & B3 & B4 & B5).
  split; [congruence|]. split; [congruence|]. split; [congruence|]. split; [congruence|].
  intros Hd. rewrite (A5 Hd). apply B5. congruence.
Qed.

(* the spec does not read the source while no drag is on *)
Lemma mouse_spec_equiv claims t d1 d2 ty btn line col :
  ds_equiv d1 d2 ->
  fst (mouse_spec claims t d1 ty btn line col) = fst (mouse_spec claims t d2 ty btn line col) /\
  ds_equiv (snd (mouse_spec claims t d1 ty btn line col)) (snd (mouse_spec claims t d2 ty btn line col)).
Proof.
  destruct d1 as [dr1 b1 l1 c1 s1], d2 as [dr2 b2 l2 c2 s2]. unfold ds_equiv.
  cbn [ds_dragging ds_btn ds_line ds_col ds_src]. intros (<- & <- & <- & <- & Hs).
  unfold mouse_spec. cbn [ds_dragging ds_btn ds_line ds_col ds_src].
  destruct (ty =? 1).
  { cbn [fst snd ds_dragging ds_btn ds_line ds_col ds_src]. repeat split. exact Hs. }
  destruct dr1; cbn [negb andb].
  - rewrite (Hs eq_refl). rewrite !andb_false_r. split; [reflexivity|apply ds_equiv_refl].
  - rewrite !andb_true_r, !andb_false_r. destruct (ty =? 2).
    + split; [reflexivity|apply ds_equiv_refl].
    + cbn [fst snd ds_dragging ds_btn ds_line ds_col ds_src]. repeat split. exact Hs.
Qed.

Fixpoint run_term_mouse (fuel : nat) (claims : Z -> Z) (s : istate) (evs : list rawev) : istate :=
  match evs with
  | [] => s
  | (ty, btn, line, col) :: r =>
    run_term_mouse fuel claims (term_mouse_f fuel no_defects claims s ty btn line col) r
  end.

(* C14, the model against the spec over every sequence of terminal mouse events (handlers do
   not change the tree): the same deliveries, and the same drag state, as [run_mouse] /
   [run_ds] started from the root's drag fields *)
Theorem C14_term_mouse_seq fuel claims evs : forall s,
  quiet s -> ids_unique (i_root s) -> (height (r_tree (i_root s)) < fuel)%nat ->
  dsrc_ok (i_root s) ->
  let s' := run_term_mouse fuel claims s evs in
  i_log s' = rev (concat (run_mouse claims (r_tree (i_root s)) evs (ds_of (i_root s)))) ++ i_log s /\
  ds_of (i_root s') = run_ds claims (r_tree (i_root s)) evs (ds_of (i_root s)) /\
  r_tree (i_root s') = r_tree (i_root s) /\ i_holds s' = i_holds s /\ quiet s'.
Proof.
  induction evs as [|[[[ty btn] line] col] evs IH]; intros s Hq Hu Hh Hok; cbv zeta.
  { cbn [run_term_mouse run_mouse run_ds concat rev app]. repeat (split; [reflexivity|]). exact Hq. }
  cbn [run_term_mouse run_mouse run_ds concat].
  destruct (C14_term_mouse_f fuel claims s ty btn line col Hq Hu Hh Hok)
    as (Hlog & _ & Hds & Htree & Horph & Hholds & _ & Hq1 & Hok1).
  set (s1 := term_mouse_f fuel no_defects claims s ty btn line col) in *.
  assert (Hu1 : ids_unique (i_root s1)).
  { unfold ids_unique, forest_ids, forest. rewrite Htree, Horph. exact Hu. }
  assert (Hh1 : (height (r_tree (i_root s1)) < fuel)%nat) by (rewrite Htree; exact Hh).
  destruct (IH s1 Hq1 Hu1 Hh1 Hok1) as (Hlog' & Hds' & Htree' & Hholds' & Hq').
  rewrite Htree, Hds in Hlog', Hds'. rewrite Htree in Htree'.
  split.
  { rewrite Hlog', Hlog. rewrite rev_app_distr, <- app_assoc. reflexivity. }
  split; [exact Hds'|]. split; [exact Htree'|]. split; [congruence|exact Hq'].
Qed.

(* ==================================================================================== *)
(* 10. A handler that closes its own window while a key is routed                        *)

(* the tree after closing w0, node by node: the parent loses the child (and its
   focused-child pointer if it pointed there); everything else is as it was *)
Fixpoint cut (w0 : Z) (n : wtree) : wtree :=
  match n with
  | Node i ch =>
    Node (if existsb (fun c => t_id c =? w0) ch && opt_eqb (w_fchild i) w0 then set_fchild i None else i)
         (kids_remove w0 (map (cut w0) ch))
  end.

Lemma cut_id_eq w0 n : t_id (cut w0 n) = t_id n.
Proof. destruct n as [i ch]. unfold t_id. cbn [cut t_info]. destruct (_ && _); reflexivity. Qed.

Lemma cut_vis w0 n : w_vis (t_info (cut w0 n)) = w_vis (t_info n).
Proof. destruct n as [i ch]. cbn [cut t_info]. destruct (_ && _); reflexivity. Qed.

Lemma cut_kids w0 i ch : t_kids (cut w0 (Node i ch)) = map (cut w0) (kids_remove w0 ch).
Proof.
  cbn [cut t_kids]. unfold kids_remove. induction ch as [|c r IH]; [reflexivity|].
  cbn [map filter]. rewrite cut_id_eq. destruct (negb (t_id c =? w0)); cbn [map]; rewrite IH; reflexivity.
Qed.

Lemma filter_all {A} (f : A -> bool) l : (forall x, In x l -> f x = true) -> filter f l = l.
Proof.
  induction l as [|a l IH]; intros Hf; [reflexivity|]. cbn [filter].
  rewrite (Hf a (or_introl eq_refl)). f_equal. apply IH. intros x Hx. apply Hf. right. exact Hx.
Qed.

Lemma map_id_in {A} (f : A -> A) l : (forall x, In x l -> f x = x) -> map f l = l.
Proof.
  induction l as [|a l IH]; intros Hf; [reflexivity|]. cbn [map].
  rewrite (Hf a (or_introl eq_refl)). f_equal. apply IH. intros x Hx. apply Hf. right. exact Hx.
Qed.

Lemma cut_same w0 n : ~ In w0 (flat_map t_ids (t_kids n)) -> cut w0 n = n.
Proof.
  induction n as [i ch IH] using wtree_ind'. cbn [t_kids]. intros Hn. cbn [cut].
  assert (Hk : forall c, In c ch -> (t_id c =? w0) = false).
  { intros c Hc. destruct (t_id c =? w0) eqn:E; [|reflexivity]. exfalso. apply Hn.
    apply in_flat_map. exists c. split; [exact Hc|]. replace w0 with (t_id c) by lia. apply t_id_in. }
  assert (He : existsb (fun c => t_id c =? w0) ch = false).
  { destruct (existsb (fun c => t_id c =? w0) ch) eqn:E; [|reflexivity].
    apply existsb_exists in E. destruct E as (c & Hc & Hid). rewrite (Hk c Hc) in Hid. discriminate Hid. }
  rewrite He. cbn [andb]. f_equal.
  change (kids_remove w0 (map (cut w0) ch)) with (t_kids (cut w0 (Node i ch))). rewrite cut_kids.
  unfold kids_remove.
  rewrite filter_all by (intros c Hc; rewrite (Hk c Hc); reflexivity).
  apply map_id_in. intros c Hc. rewrite Forall_forall in IH. apply IH; [exact Hc|].
  intro Hi. apply Hn. apply in_flat_map. exists c. split; [exact Hc|]. rewrite t_ids_eq. right. exact Hi.
Qed.

Lemma cut_same' w0 n : ~ In w0 (t_ids n) -> cut w0 n = n.
Proof. intros Hn. apply cut_same. intro Hi. apply Hn. rewrite t_ids_eq. right. exact Hi. Qed.

Lemma NoDup_app_intro {A} (l1 l2 : list A) :
  NoDup l1 -> NoDup l2 -> (forall x, In x l1 -> ~ In x l2) -> NoDup (l1 ++ l2).
Proof.
  induction l1 as [|a l1 IH]; intros H1 H2 H3; [exact H2|].
  inversion H1 as [|? ? Hn Hd]; subst. cbn [app]. constructor.
  - intro Hi. apply in_app_or in Hi. destruct Hi as [Hi|Hi]; [contradiction|].
    exact (H3 a (or_introl eq_refl) Hi).
  - apply IH; [exact Hd|exact H2|]. intros x Hx. apply H3. right. exact Hx.
Qed.

Lemma flat_filter_incl (f : wtree -> bool) l x :
  In x (flat_map t_ids (filter f l)) -> In x (flat_map t_ids l).
Proof.
  intros Hx. apply in_flat_map in Hx. destruct Hx as (c & Hc & Hx). apply filter_In in Hc.
  apply in_flat_map. exists c. split; [apply Hc|exact Hx].
Qed.

Lemma NoDup_flat_filter (f : wtree -> bool) l :
  NoDup (flat_map t_ids l) -> NoDup (flat_map t_ids (filter f l)).
Proof.
  induction l as [|a r IH]; intros Hnd; [constructor|]. cbn [flat_map] in Hnd.
  apply NoDup_app_inv in Hnd. destruct Hnd as (H1 & H2 & H3). cbn [filter].
  destruct (f a); [|apply IH; exact H2]. cbn [flat_map].
  apply NoDup_app_intro; [exact H1|apply IH; exact H2|].
  intros x Hx Hi. apply (H3 x Hx). eapply flat_filter_incl. exact Hi.
Qed.

Lemma flat_map_filter {B} (F : wtree -> list B) (f : wtree -> bool) l :
  (forall c, In c l -> f c = false -> F c = []) -> flat_map F (filter f l) = flat_map F l.
Proof.
  induction l as [|a r IH]; intros Hf; [reflexivity|]. cbn [filter flat_map].
  assert (IH' : flat_map F (filter f r) = flat_map F r).
  { apply IH. intros c Hc. apply Hf. right. exact Hc. }
  destruct (f a) eqn:Ea.
  - cbn [flat_map]. rewrite IH'. reflexivity.
  - rewrite (Hf a (or_introl eq_refl) Ea). cbn [app]. exact IH'.
Qed.

Section SelfClose.
  Variable claims : Z -> Z.
  Variable R0 : root.
  Variable w0 : Z.
  Let R1 : root := win_close no_defects R0 w0.
  Let A0 : list (Z * (Z * Z * Z)) := [(w0, (0, 1, w0))].

  Hypothesis Hu0 : ids_unique R0.
  Hypothesis Hin0 : t_find w0 (r_tree R0) <> None.
  Hypothesis Hnr0 : w0 <> t_id (r_tree R0).
  (* what closing does to the forest (proved for win_close below) *)
  Hypothesis CP1 : ids_unique R1.
  Hypothesis CP2 : forall wn, subl wn (forest R0) -> subl (cut w0 wn) (forest R1).

  Definition cur (b : bool) : root := if b then R1 else R0.
  Definition arm (b : bool) : list (Z * (Z * Z * Z)) := if b then [] else A0.
  (* the state before (b = false) and after (b = true) the handler of w0 has run *)
  Definition St (b : bool) (H : list Z) (L : list iev) : istate := mkI (cur b) [] H [] (arm b) L false.

  Definition fires (l : list Z) : bool := mem w0 (fst (until_claim (kP claims) l)).

  Lemma fires_app_t l1 l2 : existsb (kP claims) l1 = true -> fires (l1 ++ l2) = fires l1.
  Proof. intros He. unfold fires. rewrite uc_fst_app, He. reflexivity. Qed.

  Lemma fires_app_f l1 l2 : existsb (kP claims) l1 = false -> fires (l1 ++ l2) = fires l1 || fires l2.
  Proof.
    intros He. unfold fires, mem. rewrite uc_fst_app, He, (uc_fst_noclaim _ _ He). apply existsb_app.
  Qed.

  Lemma fires_in l : fires l = true -> In w0 l.
  Proof.
    unfold fires, mem. intros Hf. apply existsb_exists in Hf. destruct Hf as (x & Hx & He).
    apply uc_fst_incl in Hx. replace w0 with x by lia. exact Hx.
  Qed.

  Lemma look_St b H L w : look (St b H L) w = f_find (cur b) w.
  Proof. reflexivity. Qed.
  Lemma hold_St b H L w : hold (St b H L) w = St b (w :: H) L.
  Proof. reflexivity. Qed.
  Lemma release_St b H L w : release (St b H L) w = St b (remove_one w H) L.
  Proof. reflexivity. Qed.
  Lemma fchild_of_St b H L w :
    fchild_of (St b H L) w = match f_find (cur b) w with Some n => w_fchild (t_info n) | None => None end.
  Proof. reflexivity. Qed.
  Lemma kid_ids_St b H L w :
    kid_ids (St b H L) w = match f_find (cur b) w with Some n => map t_id (t_kids n) | None => [] end.
  Proof. reflexivity. Qed.
  Lemma hold_all_St b l : forall H L, hold_all (St b H L) l = St b (rev l ++ H) L.
  Proof.
    unfold hold_all. induction l as [|a l IH]; intros H L; [reflexivity|].
    cbn [fold_left rev]. rewrite hold_St, IH, <- app_assoc. reflexivity.
  Qed.
  Lemma release_all_St b l : forall H L, release_all (St b H L) l = St b (remove_all l H) L.
  Proof.
    unfold release_all, remove_all. induction l as [|a l IH]; intros H L; [reflexivity|].
    cbn [fold_left]. rewrite release_St, IH. reflexivity.
  Qed.

  Lemma run_handler_St b H L w :
    run_handler no_defects claims (St b H L) w (IKey w) =
    (St (b || (w =? w0)) H (IKey w :: L), kP claims w).
  Proof.
    destruct b; [reflexivity|]. cbn [orb].
    unfold run_handler, St, arm, cur, A0. cbn [i_root i_freed i_holds i_pending i_armed i_log i_fault ev_class ev_bit armed_take].
    rewrite (Z.eqb_sym w0 w). destruct (w =? w0) eqn:E; cbn [andb Z.eqb].
    - destruct (t_find w0 (r_tree R0)) eqn:Ef; [|contradiction].
      destruct (w0 =? t_id (r_tree R0)) eqn:En; [lia|]. reflexivity.
    - reflexivity.
  Qed.

  Lemma R1_find wn : subl wn (forest R0) -> f_find R1 (t_id wn) = Some (cut w0 wn).
  Proof. intros Hs. rewrite <- (cut_id_eq w0 wn). apply f_find_unique; [exact CP1|apply CP2; exact Hs]. Qed.

  Lemma cut_kid_in wn c : In c (t_kids wn) -> t_id c <> w0 -> In (cut w0 c) (t_kids (cut w0 wn)).
  Proof.
    destruct wn as [i ch]. cbn [t_kids]. intros Hc Hne. rewrite cut_kids. apply in_map.
    unfold kids_remove. apply filter_In. split; [exact Hc|]. destruct (t_id c =? w0) eqn:E; [lia|reflexivity].
  Qed.

  Lemma R1_parent wn c :
    subl wn (forest R0) -> In c (t_kids wn) -> t_id c <> w0 -> f_parent R1 (t_id c) = Some (t_id wn).
  Proof.
    intros Hs Hc Hne. rewrite <- (cut_id_eq w0 c), <- (cut_id_eq w0 wn).
    apply f_parent_unique; [exact CP1|apply CP2; exact Hs|apply cut_kid_in; assumption].
  Qed.

  Lemma R1_kid_same wn c :
    subl wn (forest R0) -> In c (t_kids wn) -> ~ In w0 (t_ids c) -> subl c (forest R1).
  Proof.
    intros Hs Hc Hn. rewrite <- (cut_same' w0 c Hn). eapply subl_kid; [apply CP2; exact Hs|].
    apply cut_kid_in; [exact Hc|]. intro He. apply Hn. rewrite <- He. apply t_id_in.
  Qed.

  Definition mut_ok (f : nat) (c : wtree) : Prop :=
    forall H L, handle_key f no_defects claims (St false H L) (t_id c) =
                (St (fires (key_order c)) H (klog claims (key_order c) L),
                 existsb (kP claims) (key_order c)).

  Definition skipb (fc stolen : option Z) (c : wtree) : bool :=
    opt_eqb fc (t_id c) || opt_eqb stolen (t_id c).

  Lemma F3_skip fc stolen c : F3 fc stolen c = if skipb fc stolen c then [] else key_order c.
  Proof. unfold F3, skipb. rewrite <- negb_orb. destruct (_ || _); reflexivity. Qed.

  (* the snapshot loop, started before or after the handler of w0 has run *)
  Lemma mut_loop f i ch stolen :
    subl (Node i ch) (forest R0) ->
    (forall c, In c ch -> mut_ok f c) ->
    (forall c, In c ch -> focus_okb c = true /\ (height c < f)%nat) ->
    forall cs, incl cs ch -> NoDup (flat_map t_ids cs) ->
    forall b H L,
    (b = true -> forall c, In c cs -> t_id c <> w0 /\ (In w0 (t_ids c) -> skipb (w_fchild i) stolen c = true)) ->
    key_loop (handle_key f no_defects claims) (t_id (Node i ch)) stolen (St b H L) (map t_id cs) =
    (St (b || fires (flat_map (F3 (w_fchild i) stolen) cs)) H
        (klog claims (flat_map (F3 (w_fchild i) stolen) cs) L),
     existsb (kP claims) (flat_map (F3 (w_fchild i) stolen) cs)).
  Proof.
    intros Hs Hok Hfh. set (wn := Node i ch) in *.
    induction cs as [|a cs IH]; intros Hincl Hnd b H L Hb.
    { cbn [map flat_map]. rewrite key_loop_nil. unfold fires. cbn [until_claim fst mem existsb].
      rewrite orb_false_r. reflexivity. }
    assert (Ha : In a (t_kids wn)) by (apply Hincl; left; reflexivity).
    assert (Hincl' : incl cs ch) by (intros x Hx; apply Hincl; right; exact Hx).
    cbn [flat_map] in Hnd. apply NoDup_app_inv in Hnd. destruct Hnd as (Hnda & Hndcs & Hsep).
    cbn [map flat_map]. rewrite key_loop_cons. change (i_root (St b H L)) with (cur b).
    unfold key_skip. rewrite fchild_of_St. rewrite !opt_is_eqb. rewrite F3_skip.
    destruct b.
    - (* after the handler of w0: the tree is R1 *)
      destruct (Hb eq_refl a (or_introl eq_refl)) as (Hne & Hsk).
      cbn [cur orb]. rewrite (R1_parent wn a Hs Ha Hne). cbn [opt_eqb]. rewrite Z.eqb_refl. cbn [negb].
      rewrite (R1_find wn Hs).
      assert (Hskip_eq : opt_eqb (w_fchild (t_info (cut w0 wn))) (t_id a) || opt_eqb stolen (t_id a)
                         = skipb (w_fchild i) stolen a).
      { unfold skipb. subst wn. cbn [cut t_info].
        destruct (existsb (fun c => t_id c =? w0) ch && opt_eqb (w_fchild i) w0) eqn:Ec; [|reflexivity].
        cbn [set_fchild w_fchild opt_eqb orb].
        destruct (w_fchild i) as [k|]; [|reflexivity]. cbn [opt_eqb] in *.
        destruct (k =? t_id a) eqn:Ek; [|reflexivity]. lia. }
      rewrite Hskip_eq.
      assert (Hb' : true = true -> forall c, In c cs ->
                t_id c <> w0 /\ (In w0 (t_ids c) -> skipb (w_fchild i) stolen c = true)).
      { intros _ c Hc. apply (Hb eq_refl). right. exact Hc. }
      destruct (skipb (w_fchild i) stolen a) eqn:Esk; cbn [app].
      + apply (IH Hincl' Hndcs true H L Hb').
      + assert (Hn : ~ In w0 (t_ids a)).
        { intro Hi. pose proof (Hsk Hi) as Ht. try rewrite Esk in Ht. discriminate Ht. }
        destruct (Hfh a Ha) as (Hfo & Hh).
        change (St true H L) with (Q R1 H L).
        rewrite (handle_key_Q claims R1 CP1 f a (R1_kid_same wn a Hs Ha Hn) Hfo Hh).
        destruct (existsb (kP claims) (key_order a)) eqn:Ea.
        * rewrite klog_app_t by exact Ea. rewrite existsb_app, Ea. reflexivity.
        * change (Q R1 H (klog claims (key_order a) L)) with (St true H (klog claims (key_order a) L)).
          rewrite (IH Hincl' Hndcs true H _ Hb').
          rewrite klog_app_f by exact Ea. rewrite existsb_app, Ea. reflexivity.
    - (* before: the tree is R0 *)
      cbn [cur orb]. rewrite (f_parent_unique R0 wn a Hu0 Hs Ha). cbn [opt_eqb]. rewrite Z.eqb_refl. cbn [negb].
      rewrite (f_find_unique R0 wn Hu0 Hs). subst wn. cbn [t_info]. fold (skipb (w_fchild i) stolen a).
      destruct (skipb (w_fchild i) stolen a) eqn:Esk; cbn [app].
      + apply (IH Hincl' Hndcs false H L). intros Hf; discriminate Hf.
      + rewrite (Hok a Ha).
        assert (Hnext : fires (key_order a) = true -> forall c, In c cs ->
                  t_id c <> w0 /\ (In w0 (t_ids c) -> skipb (w_fchild i) stolen c = true)).
        { intros Hf c Hc. apply fires_in, key_order_ids in Hf.
          assert (Hn : ~ In w0 (t_ids c)).
          { intro Hi. apply (Hsep w0 Hf). apply in_flat_map. exists c. split; assumption. }
          split; [|intro Hi; contradiction]. intro He. apply Hn. rewrite <- He. apply t_id_in. }
        destruct (existsb (kP claims) (key_order a)) eqn:Ea.
        * rewrite klog_app_t by exact Ea. rewrite existsb_app, Ea. rewrite fires_app_t by exact Ea. reflexivity.
        * rewrite (IH Hincl' Hndcs (fires (key_order a)) H _ Hnext).
          rewrite klog_app_f by exact Ea. rewrite existsb_app, Ea. rewrite fires_app_f by exact Ea. reflexivity.
  Qed.

  Lemma fires_flat (F : wtree -> list Z) l : fires (flat_map F l) = true -> exists c, In c l /\ In w0 (F c).
  Proof. intros Hf. apply fires_in in Hf. apply in_flat_map in Hf. exact Hf. Qed.

  Lemma fires_nil : fires [] = false.
  Proof. reflexivity. Qed.

  Lemma fires_one w : fires [w] = (w =? w0).
  Proof.
    unfold fires. cbn [until_claim]. destruct (kP claims w); cbn [fst mem existsb]; apply orb_false_r.
  Qed.

  Theorem mut_key : forall fuel wn,
    subl wn (forest R0) -> focus_okb wn = true -> (height wn < fuel)%nat -> mut_ok fuel wn.
  Proof.
    induction fuel as [|f IHf]; intros wn Hs Hfo Hh H L; [lia|].
    assert (Hfind : f_find R0 (t_id wn) = Some wn) by (apply f_find_unique; assumption).
    assert (Hfind1 : f_find R1 (t_id wn) = Some (cut w0 wn)) by (apply R1_find; exact Hs).
    assert (Hfh : forall c, In c (t_kids wn) -> focus_okb c = true /\ (height c < f)%nat).
    { intros c Hc. split; [eapply focus_ok_kid; eassumption|]. apply height_kid in Hc. lia. }
    assert (Hkids : forall c, In c (t_kids wn) -> mut_ok f c).
    { intros c Hc. destruct (Hfh c Hc). apply IHf; try assumption. eapply subl_kid; eassumption. }
    assert (Hndw : NoDup (t_ids wn)) by (apply (subl_nodup R0 wn Hu0 Hs)).
    destruct (NoDup_kids wn Hndw) as (Hndch & Hself).
    assert (Hndk : NoDup (map t_id (t_kids wn))) by (apply NoDup_kid_ids; exact Hndch).
    pose proof (mut_loop f) as Hloop.
    rewrite handle_key_S. unfold key_step. rewrite look_St. cbn [cur]. rewrite Hfind.
    destruct wn as [i ch]. cbn [t_info t_kids] in *. rewrite key_order_eq.
    change (w_id i) with (t_id (Node i ch)).
    set (w := t_id (Node i ch)) in *.
    destruct (w_vis i) eqn:Ev; cbn [negb]; [|reflexivity].
    rewrite hold_St. cbv zeta.
    set (stolen := match ch with c :: _ => if w_steal (t_info c) then Some (t_id c) else None | [] => None end).
    set (A := flat_map (fun c => if opt_eqb stolen (t_id c) then key_order c else []) ch).
    set (B := flat_map (fun c => if opt_eqb (w_fchild i) (t_id c) && negb (opt_eqb stolen (t_id c)) then key_order c else []) ch).
    fold (F3 (w_fchild i) stolen).
    set (C := flat_map (F3 (w_fchild i) stolen) ch).
    assert (H1 : match ch with
      | [] => (St false (w :: H) L, false, None)
      | c :: _ =>
          if w_steal (t_info c)
          then let '(s', r) := handle_key f no_defects claims (St false (w :: H) L) (t_id c) in (s', r, Some (t_id c))
          else (St false (w :: H) L, false, None)
      end = (St (fires A) (w :: H) (klog claims A L), existsb (kP claims) A, stolen)).
    { subst A stolen. destruct ch as [|c0 r]; [reflexivity|].
      destruct (w_steal (t_info c0)) eqn:Est.
      - rewrite (Hkids c0 (or_introl eq_refl)). cbn [flat_map opt_eqb]. rewrite Z.eqb_refl.
        rewrite flat_map_nil; [rewrite app_nil_r; reflexivity|].
        intros c Hc. cbn [map] in Hndk. inversion Hndk as [|? ? Hn Hd]; subst.
        destruct (t_id c0 =? t_id c) eqn:E; [|reflexivity].
        exfalso. apply Hn. replace (t_id c0) with (t_id c) by (clear - E; lia). apply in_map. exact Hc.
      - rewrite flat_map_nil; [reflexivity|]. intros c _. reflexivity. }
    rewrite H1. clear H1.
    assert (Hrel : forall b L', release (St b (w :: H) L') w = St b H L').
    { intros b L'. rewrite release_St. cbn [remove_one]. rewrite Z.eqb_refl. reflexivity. }
    destruct (existsb (kP claims) A) eqn:EA.
    { rewrite Hrel. rewrite klog_app_t by exact EA. rewrite existsb_app, EA. rewrite fires_app_t by exact EA. reflexivity. }
    (* where the handler of w0 may have run so far *)
    assert (HfA : fires A = true -> exists c, In c ch /\ opt_eqb stolen (t_id c) = true /\ In w0 (t_ids c)).
    { intros Hf. apply fires_flat in Hf. destruct Hf as (c & Hc & Hi). exists c. split; [exact Hc|].
      destruct (opt_eqb stolen (t_id c)); [|destruct Hi]. split; [reflexivity|apply key_order_ids; exact Hi]. }
    assert (HfB : fires B = true -> exists c, In c ch /\ opt_eqb (w_fchild i) (t_id c) = true /\ In w0 (t_ids c)).
    { intros Hf. apply fires_flat in Hf. destruct Hf as (c & Hc & Hi). exists c. split; [exact Hc|].
      destruct (opt_eqb (w_fchild i) (t_id c)); [|destruct Hi]. split; [reflexivity|].
      destruct (negb (opt_eqb stolen (t_id c))); [|destruct Hi]. apply key_order_ids; exact Hi. }
    rewrite fchild_of_St.
    assert (H2 : match match f_find (cur (fires A)) w with Some n => w_fchild (t_info n) | None => None end with
      | Some k => if opt_is stolen (Some k) then (St (fires A) (w :: H) (klog claims A L), false)
                  else handle_key f no_defects claims (St (fires A) (w :: H) (klog claims A L)) k
      | None => (St (fires A) (w :: H) (klog claims A L), false)
      end = (St (fires A || fires B) (w :: H) (klog claims B (klog claims A L)), existsb (kP claims) B)).
    { destruct (fires A) eqn:EfA; cbn [cur orb].
      - (* the handler ran inside the stealing child *)
        destruct (HfA eq_refl) as (c0 & Hc0 & Hst0 & Hw0).
        rewrite Hfind1. cbn [cut t_info].
        destruct (existsb (fun c => t_id c =? w0) ch && opt_eqb (w_fchild i) w0) eqn:Ec.
        + cbn [set_fchild w_fchild].
          apply andb_true_iff in Ec. destruct Ec as (Hx & Hfc). apply existsb_exists in Hx.
          destruct Hx as (k & Hk & Hkid).
          assert (Hkc : k = c0).
          { apply (NoDup_flat_sep ch k c0 w0 Hndch Hk Hc0); [|exact Hw0].
            replace w0 with (t_id k) by (clear - Hkid; lia). apply t_id_in. }
          subst k.
          assert (HB : B = []).
          { subst B. apply flat_map_nil. intros c Hc.
            destruct (w_fchild i) as [q|]; [|reflexivity]. cbn [opt_eqb] in *.
            destruct (q =? t_id c) eqn:Eq; [|reflexivity]. cbn [andb].
            assert (Hcc : c = c0).
            { apply (NoDup_flat_sep ch c c0 w0 Hndch Hc Hc0); [|exact Hw0].
              replace w0 with (t_id c) by (clear - Eq Hfc; lia). apply t_id_in. }
            subst c. rewrite Hst0. reflexivity. }
          rewrite HB. reflexivity.
        + destruct (w_fchild i) as [k|] eqn:Efc.
          * cbn [focus_okb] in Hfo. rewrite Efc in Hfo. apply andb_true_iff in Hfo. destruct Hfo as (Hex & _).
            apply existsb_exists in Hex. destruct Hex as (ck & Hck & Hid).
            assert (k = t_id ck) by (clear - Hid; lia). subst k. clear Hid.
            subst B. rewrite (flat_map_single _ ch ck Hndk Hck).
            -- rewrite opt_is_eqb. cbn [opt_eqb]. rewrite Z.eqb_refl. cbn [andb].
               destruct (opt_eqb stolen (t_id ck)) eqn:Est; cbn [negb]; [reflexivity|].
               assert (Hn : ~ In w0 (t_ids ck)).
               { intro Hi. assert (ck = c0) by (apply (NoDup_flat_sep ch ck c0 w0 Hndch Hck Hc0 Hi Hw0)).
                 subst ck. rewrite Hst0 in Est. discriminate Est. }
               destruct (Hfh ck Hck) as (Hfok & Hhk).
               change (St true (w :: H) (klog claims A L)) with (Q R1 (w :: H) (klog claims A L)).
               rewrite (handle_key_Q claims R1 CP1 f ck (R1_kid_same (Node i ch) ck Hs Hck Hn) Hfok Hhk).
               reflexivity.
            -- intros c _ Hne. cbn [opt_eqb]. destruct (t_id ck =? t_id c) eqn:E; [clear - E Hne; lia|reflexivity].
          * subst B. rewrite flat_map_nil; [reflexivity|]. intros c _. reflexivity.
      - (* not yet *)
        rewrite Hfind. cbn [t_info]. subst B. destruct (w_fchild i) as [k|] eqn:Efc.
        + cbn [focus_okb] in Hfo. rewrite Efc in Hfo. apply andb_true_iff in Hfo. destruct Hfo as (Hex & _).
          apply existsb_exists in Hex. destruct Hex as (ck & Hck & Hid).
          assert (k = t_id ck) by (clear - Hid; lia). subst k. clear Hid.
          rewrite (flat_map_single _ ch ck Hndk Hck).
          * rewrite opt_is_eqb. cbn [opt_eqb]. rewrite Z.eqb_refl. cbn [andb].
            destruct (opt_eqb stolen (t_id ck)); cbn [negb]; [reflexivity|].
            apply (Hkids ck Hck).
          * intros c _ Hne. cbn [opt_eqb]. destruct (t_id ck =? t_id c) eqn:E; [clear - E Hne; lia|reflexivity].
        + rewrite flat_map_nil; [reflexivity|]. intros c _. reflexivity. }
    rewrite H2. clear H2.
    destruct (existsb (kP claims) B) eqn:EB.
    { rewrite Hrel. rewrite klog_app_f by exact EA. rewrite klog_app_t by exact EB.
      rewrite !existsb_app, EA, EB. rewrite fires_app_f by exact EA. rewrite fires_app_t by exact EB. reflexivity. }
    rewrite run_handler_St. 
    assert (Hw : forall L', klog claims [w] L' = IKey w :: L').
    { intros L'. unfold klog. cbn [until_claim]. destruct (kP claims w); reflexivity. }
    assert (Hfires : fires (A ++ B ++ [w] ++ C) =
                     if kP claims w then fires A || fires B || (w =? w0)
                     else fires A || fires B || (w =? w0) || fires C).
    { rewrite fires_app_f by exact EA. rewrite fires_app_f by exact EB.
      destruct (kP claims w) eqn:Ew.
      - rewrite fires_app_t by (cbn [existsb]; rewrite Ew; reflexivity). rewrite fires_one. apply orb_assoc.
      - rewrite fires_app_f by (cbn [existsb]; rewrite Ew; reflexivity). rewrite fires_one.
        rewrite !orb_assoc. reflexivity. }
    rewrite Hfires. clear Hfires.
    destruct (kP claims w) eqn:Ew.
    { rewrite Hrel. rewrite klog_app_f by exact EA. rewrite klog_app_f by exact EB.
      rewrite klog_app_t by (cbn [existsb]; rewrite Ew; reflexivity). rewrite Hw.
      rewrite !existsb_app, EA, EB. cbn [existsb]. rewrite Ew. reflexivity. }
    assert (Hlog : klog claims (A ++ B ++ [w] ++ C) L =
                   klog claims C (IKey w :: klog claims B (klog claims A L))).
    { rewrite klog_app_f by exact EA. rewrite klog_app_f by exact EB.
      rewrite klog_app_f by (cbn [existsb]; rewrite Ew; reflexivity). rewrite Hw. reflexivity. }
    assert (Hex : existsb (kP claims) (A ++ B ++ [w] ++ C) = existsb (kP claims) C).
    { rewrite !existsb_app, EA, EB. cbn [existsb]. rewrite Ew. reflexivity. }
    rewrite Hlog, Hex. clear Hlog Hex.
    set (b3 := fires A || fires B || (w =? w0)).
    rewrite kid_ids_St.
    destruct b3 eqn:Eb3.
    - (* the handler has run: the children are those of the cut tree *)
      assert (Hskip : forall c, In c ch -> In w0 (t_ids c) -> skipb (w_fchild i) stolen c = true).
      { intros c Hc Hi. unfold skipb. subst b3.
        apply orb_true_iff in Eb3. destruct Eb3 as [Eb3|Eb3]; [apply orb_true_iff in Eb3; destruct Eb3 as [Eb3|Eb3]|].
        - destruct (HfA Eb3) as (c0 & Hc0 & Hst0 & Hw0).
          assert (c = c0) by (apply (NoDup_flat_sep ch c c0 w0 Hndch Hc Hc0 Hi Hw0)). subst c.
          rewrite Hst0. apply orb_true_r.
        - destruct (HfB Eb3) as (ck & Hck & Hfk & Hwk).
          assert (c = ck) by (apply (NoDup_flat_sep ch c ck w0 Hndch Hc Hck Hi Hwk)). subst c.
          rewrite Hfk. reflexivity.
        - exfalso. apply Hself. replace w with w0 by (clear - Eb3; lia).
          apply in_flat_map. exists c. split; assumption. }
      cbn [cur]. rewrite Hfind1. rewrite cut_kids, map_map.
      rewrite (map_ext (fun x => t_id (cut w0 x)) t_id (cut_id_eq w0)).
      set (cs := kids_remove w0 ch).
      assert (Hinc : incl cs ch) by (intros x Hx; apply filter_In in Hx; apply Hx).
      assert (Hndcs : NoDup (flat_map t_ids cs)) by (apply NoDup_flat_filter; exact Hndch).
      rewrite (Hloop i ch stolen Hs Hkids Hfh cs Hinc Hndcs true).
      + rewrite Hrel.
        assert (HC : flat_map (F3 (w_fchild i) stolen) cs = C).
        { subst cs C. unfold kids_remove. apply flat_map_filter. intros c Hc Hf.
          rewrite F3_skip. rewrite (Hskip c Hc); [reflexivity|].
          replace w0 with (t_id c) by (clear - Hf; lia). apply t_id_in. }
        rewrite HC. cbn [orb]. reflexivity.
      + intros _ c Hc. apply filter_In in Hc. destruct Hc as (Hc & Hf). split; [clear - Hf; lia|]. apply Hskip. exact Hc.
    - cbn [cur]. rewrite Hfind. cbn [t_kids].
      rewrite (Hloop i ch stolen Hs Hkids Hfh ch (incl_refl ch) Hndch false).
      + fold C. rewrite Hrel. reflexivity.
      + intros Hf. discriminate Hf.
  Qed.
End SelfClose.

(* ---- what win_close does to the forest ---- *)

Lemma t_upd_kids_none f pid t : ~ In pid (t_ids t) -> t_upd_kids f pid t = t.
Proof.
  induction t as [i ch IH] using wtree_ind'. intros Hn. cbn [t_upd_kids]. cbn [t_ids] in Hn.
  destruct (w_id i =? pid) eqn:E; [exfalso; apply Hn; left; lia|].
  f_equal. apply map_id_in. intros c Hc. rewrite Forall_forall in IH. apply IH; [exact Hc|].
  intro Hi. apply Hn. right. apply in_flat_map. exists c. split; assumption.
Qed.

Lemma t_update_none g pid t : ~ In pid (t_ids t) -> t_update g pid t = t.
Proof.
  induction t as [i ch IH] using wtree_ind'. intros Hn. cbn [t_update]. cbn [t_ids] in Hn.
  destruct (w_id i =? pid) eqn:E; [exfalso; apply Hn; left; lia|].
  f_equal. apply map_id_in. intros c Hc. rewrite Forall_forall in IH. apply IH; [exact Hc|].
  intro Hi. apply Hn. right. apply in_flat_map. exists c. split; assumption.
Qed.

Definition clrf (w0 : Z) (j : winfo) : winfo := if opt_eqb (w_fchild j) w0 then set_fchild j None else j.

(* the children of a window none of which has w0 inside, except possibly as its own id *)
Lemma cut_kids_same w0 ch :
  (forall c, In c ch -> ~ In w0 (flat_map t_ids (t_kids c))) -> map (cut w0) ch = ch.
Proof. intros Hn. apply map_id_in. intros c Hc. apply cut_same. apply Hn. exact Hc. Qed.

Lemma kids_remove_none w0 ch : (forall c, In c ch -> t_id c <> w0) -> kids_remove w0 ch = ch.
Proof.
  intros Hn. unfold kids_remove. apply filter_all. intros c Hc.
  destruct (t_id c =? w0) eqn:E; [|reflexivity]. exfalso. apply (Hn c Hc). lia.
Qed.

Lemma upd_cut w0 p n : forall t,
  NoDup (t_ids t) -> sub p t -> In n (t_kids p) -> t_id n = w0 ->
  t_update (clrf w0) (t_id p) (t_upd_kids (kids_remove w0) (t_id p) t) = cut w0 t.
Proof.
  induction t as [i ch IH] using wtree_ind'. intros Hnd Hs Hn Hid.
  destruct (NoDup_kids _ Hnd) as (Hndch & Hself). cbn [t_kids] in Hndch, Hself.
  assert (Hw0p : In w0 (flat_map t_ids (t_kids p))).
  { rewrite <- Hid. eapply kid_ids_in; [exact Hn|apply t_id_in]. }
  apply sub_inv in Hs. destruct Hs as [->|(k & Hk & Hpk)].
  - (* this is the parent *)
    cbn [t_kids] in Hn, Hw0p. unfold t_id at 1 2. cbn [t_info t_upd_kids t_update]. rewrite Z.eqb_refl.
    assert (Hnone : forall c, In c ch -> ~ In (w_id i) (t_ids c)).
    { intros c Hc Hi. apply Hself. apply in_flat_map. exists c. split; assumption. }
    assert (Hch' : map (t_upd_kids (kids_remove w0) (w_id i)) ch = ch).
    { apply map_id_in. intros c Hc. apply t_upd_kids_none. apply Hnone. exact Hc. }
    rewrite Hch'.
    assert (Hrm : map (t_update (clrf w0) (w_id i)) (kids_remove w0 ch) = kids_remove w0 ch).
    { apply map_id_in. intros c Hc. apply t_update_none. apply Hnone. apply filter_In in Hc. apply Hc. }
    rewrite Hrm. cbn [cut].
    assert (He : existsb (fun c => t_id c =? w0) ch = true).
    { apply existsb_exists. exists n. split; [exact Hn|lia]. }
    rewrite He. cbn [andb]. unfold clrf. f_equal. f_equal. symmetry. apply cut_kids_same.
    intros c Hc Hi.
    assert (Hcn : c = n).
    { apply (NoDup_flat_sep ch c n w0 Hndch Hc Hn); [rewrite t_ids_eq; right; exact Hi|rewrite <- Hid; apply t_id_in]. }
    subst c. assert (Hndn : NoDup (t_ids n)) by (eapply NoDup_flat_in; eassumption).
    apply NoDup_kids in Hndn. destruct Hndn as (_ & Hx). apply Hx. rewrite Hid. exact Hi.
  - (* the parent is further down, inside the child k *)
    cbn [t_kids] in Hk.
    assert (Hpk_in : In (t_id p) (t_ids k)) by (apply (sub_incl p k Hpk), t_id_in).
    assert (Hw0k : In w0 (flat_map t_ids (t_kids k))) by (rewrite <- Hid; eapply kid_in_ids; eassumption).
    assert (Hne : (w_id i =? t_id p) = false).
    { destruct (w_id i =? t_id p) eqn:E; [|reflexivity]. exfalso. apply Hself.
      apply in_flat_map. exists k. split; [exact Hk|]. unfold t_id at 1. cbn [t_info].
      replace (w_id i) with (t_id p) by lia. exact Hpk_in. }
    cbn [t_upd_kids t_update]. rewrite Hne. cbn [cut].
    assert (He : existsb (fun c => t_id c =? w0) ch = false).
    { destruct (existsb (fun c => t_id c =? w0) ch) eqn:E; [|reflexivity]. exfalso.
      apply existsb_exists in E. destruct E as (c & Hc & Hcid).
      assert (Hck : c = k).
      { apply (NoDup_flat_sep ch c k w0 Hndch Hc Hk); [replace w0 with (t_id c) by lia; apply t_id_in|].
        rewrite t_ids_eq. right. exact Hw0k. }
      subst c. assert (Hndk : NoDup (t_ids k)) by (eapply NoDup_flat_in; eassumption).
      apply NoDup_kids in Hndk. destruct Hndk as (_ & Hx). apply Hx. replace (t_id k) with w0 by lia. exact Hw0k. }
    rewrite He. cbn [andb]. f_equal.
    rewrite kids_remove_none.
    + rewrite map_map. apply map_ext_in. intros c Hc.
      rewrite Forall_forall in IH.
      destruct (in_dec Z.eq_dec (t_id p) (t_ids c)) as [Hi|Hni].
      * assert (c = k) by (apply (NoDup_flat_sep ch c k (t_id p) Hndch Hc Hk Hi Hpk_in)). subst c.
        apply IH; try assumption. eapply NoDup_flat_in; eassumption.
      * rewrite (t_upd_kids_none _ _ _ Hni), (t_update_none _ _ _ Hni). symmetry. apply cut_same'.
        intro Hi. apply Hni.
        assert (c = k).
        { apply (NoDup_flat_sep ch c k w0 Hndch Hc Hk Hi). rewrite t_ids_eq. right. exact Hw0k. }
        subst c. exact Hpk_in.
    + intros c Hc. apply in_map_iff in Hc. destruct Hc as (c' & <- & Hc'). rewrite cut_id_eq.
      intro Hcid. assert (Ht : existsb (fun c => t_id c =? w0) ch = true).
      { apply existsb_exists. exists c'. split; [exact Hc'|lia]. }
      rewrite Ht in He. discriminate He.
Qed.

(* the chain [win; parent; ...] the C follows *)
Lemma t_path_shape id : forall t path,
  t_path id t = Some path ->
  (path = [t] /\ t_id t = id) \/
  (exists n p r, rev path = n :: p :: r /\ t_id n = id /\ In n (t_kids p) /\ sub p t).
Proof.
  induction t as [i ch IH] using wtree_ind'. intros path Hp. rewrite t_path_eq in Hp.
  destruct (w_id i =? id) eqn:E.
  { inversion Hp; subst. left. split; [reflexivity|]. unfold t_id. cbn [t_info]. lia. }
  destruct (first_some (t_path id) ch) as [p'|] eqn:Ef; [|discriminate Hp]. inversion Hp; subst path. clear Hp.
  apply first_some_some in Ef. destruct Ef as (c & Hc & Hpc). rewrite Forall_forall in IH.
  right. destruct (IH c Hc p' Hpc) as [(-> & Hid)|(n & p & r & Hrev & Hid & Hn & Hs)].
  - exists c, (Node i ch), []. split; [reflexivity|]. split; [exact Hid|]. split; [exact Hc|apply sub_refl].
  - exists n, p, (r ++ [Node i ch]). cbn [rev]. rewrite Hrev. split; [reflexivity|]. split; [exact Hid|].
    split; [exact Hn|]. eapply sub_kid; [exact Hc|exact Hs].
Qed.

Lemma root_damage_forest st d : r_tree (root_damage st d) = r_tree st /\ r_orphans (root_damage st d) = r_orphans st.
Proof.
  unfold root_damage. destruct (rs_contains (r_fuel st) (r_damage st) d) as [[|]|]; try (split; reflexivity).
  destruct (rs_add (r_fuel st) (r_damage st) d); split; reflexivity.
Qed.

Lemma win_expose_forest st id ex :
  r_tree (win_expose st id ex) = r_tree st /\ r_orphans (win_expose st id ex) = r_orphans st.
Proof.
  unfold win_expose. destruct (t_chain id (r_tree st)); [|split; reflexivity].
  destruct (expose_up l ex); [apply root_damage_forest|split; reflexivity].
Qed.

Lemma win_close_forest cfg R w0 n0 :
  ids_unique R -> t_find w0 (r_tree R) = Some n0 -> w0 <> t_id (r_tree R) ->
  r_tree (win_close cfg R w0) = cut w0 (r_tree R) /\
  r_orphans (win_close cfg R w0) = n0 :: r_orphans R.
Proof.
  intros Hu Hf Hnr.
  assert (Hndt : NoDup (t_ids (r_tree R))).
  { eapply NoDup_flat_in; [exact Hu|]. left. reflexivity. }
  destruct (t_find_sub _ _ _ Hf) as (Hsub0 & Hid0).
  assert (Hin : In w0 (t_ids (r_tree R))) by (rewrite <- Hid0; apply (sub_incl _ _ Hsub0), t_id_in).
  destruct (t_path_some w0 _ Hin) as (path & Hp).
  unfold win_close, t_chain. rewrite Hp.
  destruct (t_path_shape w0 _ _ Hp) as [(_ & Hid)|(n & p & r & Hrev & Hid & Hn & Hs)]; [congruence|].
  rewrite Hrev.
  assert (Hnn : n = n0).
  { assert (Hsn : sub n (r_tree R)) by (eapply sub_trans; [apply sub_kid1; exact Hn|exact Hs]).
    pose proof (t_find_unique _ _ Hndt Hsn) as Hx. rewrite Hid, Hf in Hx. inversion Hx. reflexivity. }
  subst n.
  pose proof (upd_cut w0 p n0 (r_tree R) Hndt Hs Hn Hid) as Hcut. unfold clrf in Hcut.
  cbv zeta.
  match goal with |- context [if ?c then win_expose ?s ?a ?b else ?s] =>
    assert (Hx : r_tree (if c then win_expose s a b else s) = r_tree s /\
                 r_orphans (if c then win_expose s a b else s) = r_orphans s)
      by (destruct c; [apply win_expose_forest|split; reflexivity]);
    destruct Hx as (Hx1 & Hx2); rewrite Hx1, Hx2
  end.
  assert (Hdrag : forall st00 : root,
            r_tree (match r_dsrc st00 with
                    | Some src => if negb (d_drag_stale cfg) && id_in src (WinDefs.sub_ids n0)
                                  then set_drag st00 (r_dragging st00) (r_lbtn st00) (r_lline st00) (r_lcol st00) None
                                  else st00
                    | None => st00 end) = r_tree st00 /\
            r_orphans (match r_dsrc st00 with
                    | Some src => if negb (d_drag_stale cfg) && id_in src (WinDefs.sub_ids n0)
                                  then set_drag st00 (r_dragging st00) (r_lbtn st00) (r_lline st00) (r_lcol st00) None
                                  else st00
                    | None => st00 end) = r_orphans st00).
  { intros st00. destruct (r_dsrc st00) as [src|]; [|split; reflexivity].
    destruct (negb (d_drag_stale cfg) && id_in src (WinDefs.sub_ids n0)); split; reflexivity. }
  match goal with |- context [if ?c then request_restore ?s else ?s] =>
    destruct c
  end; cbn [request_restore set_flags r_tree r_orphans];
  match goal with |- context [r_tree (match r_dsrc ?s00 with Some _ => _ | None => _ end)] =>
    destruct (Hdrag s00) as (Hd1 & Hd2); rewrite Hd1, Hd2
  end; cbn [set_queue set_orphans set_tree r_tree r_orphans]; rewrite Hcut; split; reflexivity.
Qed.

Lemma cut_ids_head w0 t : t_ids (cut w0 t) = t_id t :: flat_map t_ids (t_kids (cut w0 t)).
Proof. rewrite t_ids_eq, cut_id_eq. reflexivity. Qed.

Lemma kids_unchanged w0 r :
  (forall c, In c r -> ~ In w0 (t_ids c)) -> kids_remove w0 (map (cut w0) r) = r.
Proof.
  intros Hn. rewrite cut_kids_same.
  - apply kids_remove_none. intros c Hc He. apply (Hn c Hc). rewrite <- He. apply t_id_in.
  - intros c Hc Hi. apply (Hn c Hc). rewrite t_ids_eq. right. exact Hi.
Qed.

(* cutting w0 out of a tree and keeping its subtree aside loses and duplicates nothing *)
Lemma cut_perm w0 n0 : t_id n0 = w0 -> forall t,
  NoDup (t_ids t) -> sub n0 t -> t_id t <> w0 ->
  Permutation (t_ids t) (t_ids (cut w0 t) ++ t_ids n0).
Proof.
  intros Hid0. induction t as [i ch IH] using wtree_ind'. intros Hnd Hs Hne.
  destruct (NoDup_kids _ Hnd) as (Hndch & _). cbn [t_kids] in Hndch.
  apply sub_inv in Hs. destruct Hs as [->|(k & Hk & Hsk)]; [congruence|]. cbn [t_kids] in Hk.
  rewrite cut_ids_head, (t_ids_eq (Node i ch)). cbn [app]. apply perm_skip.
  change (t_kids (cut w0 (Node i ch))) with (kids_remove w0 (map (cut w0) ch)). cbn [t_kids].
  assert (Hw0k : In w0 (t_ids k)) by (rewrite <- Hid0; apply (sub_incl _ _ Hsk), t_id_in).
  clear Hnd Hne. revert Hndch Hk. induction ch as [|a r IHr]; intros Hndch Hk; [destruct Hk|].
  cbn [flat_map] in Hndch. apply NoDup_app_inv in Hndch. destruct Hndch as (Hnda & Hndr & Hsep).
  pose proof (Forall_inv IH) as IHa. pose proof (Forall_inv_tail IH) as IHrest. specialize (IHr IHrest Hndr).
  cbn [map flat_map]. unfold kids_remove. cbn [filter]. rewrite cut_id_eq. fold (kids_remove w0 (map (cut w0) r)).
  destruct Hk as [->|Hk].
  - (* a = k holds w0 *)
    assert (Hr : kids_remove w0 (map (cut w0) r) = r).
    { apply kids_unchanged. intros c Hc Hi. apply (Hsep w0 Hw0k). apply in_flat_map. exists c. split; assumption. }
    rewrite Hr. destruct (t_id k =? w0) eqn:E; cbn [negb flat_map].
    + (* it is w0 itself *)
      assert (Hkn : n0 = k).
      { pose proof (t_find_unique k n0 Hnda Hsk) as Hx. pose proof (t_find_unique k k Hnda (sub_refl k)) as Hy.
        rewrite Hid0 in Hx. replace (t_id k) with w0 in Hy by lia. rewrite Hx in Hy. inversion Hy. reflexivity. }
      subst k. apply Permutation_app_comm.
    + assert (Hne : t_id k <> w0) by lia.
      specialize (IHa Hnda Hsk Hne). rewrite <- app_assoc.
      eapply Permutation_trans; [apply Permutation_app_tail; exact IHa|].
      rewrite <- app_assoc. apply Permutation_app_head. apply Permutation_app_comm.
  - (* k is further on; a is untouched *)
    assert (Hna : ~ In w0 (t_ids a)).
    { intro Hi. apply (Hsep w0 Hi). apply in_flat_map. exists k. split; assumption. }
    rewrite (cut_same' w0 a Hna).
    destruct (t_id a =? w0) eqn:E; [exfalso; apply Hna; replace w0 with (t_id a) by lia; apply t_id_in|].
    cbn [negb flat_map]. rewrite <- app_assoc. apply Permutation_app_head. apply IHr. exact Hk.
Qed.

Lemma sub_cut w0 n0 x t :
  (forall c, sub c t -> t_id c = w0 -> c = n0) ->
  sub x t -> sub x n0 \/ sub (cut w0 x) (cut w0 t).
Proof.
  intros Huniq Hs. induction Hs as [t|x k t Hk Hs IH]; [right; apply sub_refl|].
  destruct (Z.eq_dec (t_id k) w0) as [He|Hne].
  - left. rewrite <- (Huniq k (sub_kid1 k t Hk) He). exact Hs.
  - destruct IH as [IH|IH].
    + intros c Hc. apply Huniq. eapply sub_trans; [exact Hc|apply sub_kid1; exact Hk].
    + left. exact IH.
    + right. eapply sub_kid; [|exact IH]. destruct t as [i ch]. cbn [t_kids] in Hk. rewrite cut_kids.
      apply in_map. unfold kids_remove. apply filter_In. split; [exact Hk|].
      destruct (t_id k =? w0) eqn:E; [lia|reflexivity].
Qed.

(* CP1 and CP2 of section SelfClose hold for win_close *)
Lemma close_props cfg R w0 n0 :
  ids_unique R -> t_find w0 (r_tree R) = Some n0 -> w0 <> t_id (r_tree R) ->
  ids_unique (win_close cfg R w0) /\
  forall wn, subl wn (forest R) -> subl (cut w0 wn) (forest (win_close cfg R w0)).
Proof.
  intros Hu Hf Hnr. destruct (win_close_forest cfg R w0 n0 Hu Hf Hnr) as (Ht & Ho).
  assert (Hndt : NoDup (t_ids (r_tree R))).
  { eapply NoDup_flat_in; [exact Hu|]. left. reflexivity. }
  destruct (t_find_sub _ _ _ Hf) as (Hsub0 & Hid0).
  assert (Hw0 : In w0 (t_ids (r_tree R))) by (rewrite <- Hid0; apply (sub_incl _ _ Hsub0), t_id_in).
  assert (Hndn0 : NoDup (t_ids n0)) by (eapply sub_nodup; eassumption).
  unfold ids_unique, forest_ids, forest in *. rewrite Ht, Ho. cbn [flat_map] in *.
  split.
  - eapply Permutation_NoDup; [|exact Hu]. rewrite app_assoc. apply Permutation_app_tail.
    apply cut_perm; try assumption. congruence.
  - intros wn (t & Hin & Hs). destruct Hin as [<-|Hin].
    + assert (Huniq : forall c, sub c (r_tree R) -> t_id c = w0 -> c = n0).
      { intros c Hc Hcid. pose proof (t_find_unique _ _ Hndt Hc) as Hx. rewrite Hcid, Hf in Hx.
        inversion Hx. reflexivity. }
      destruct (sub_cut w0 n0 wn (r_tree R) Huniq Hs) as [Hin0|Hcut].
      * exists n0. split; [right; left; reflexivity|]. rewrite cut_same; [exact Hin0|].
        intro Hi. apply NoDup_kids in Hndn0. destruct Hndn0 as (_ & Hx). apply Hx. rewrite Hid0.
        destruct (sub_inv _ _ Hin0) as [->|(k & Hk & Hsk)]; [exact Hi|].
        eapply kid_ids_in; [exact Hk|]. apply (sub_incl _ _ Hsk). rewrite t_ids_eq. right. exact Hi.
      * exists (cut w0 (r_tree R)). split; [left; reflexivity|exact Hcut].
    + exists t. split; [right; right; exact Hin|]. rewrite cut_same'; [exact Hs|].
      intro Hi. apply NoDup_app_inv in Hu. destruct Hu as (_ & _ & Hsep). apply (Hsep w0 Hw0).
      apply in_flat_map. exists t. split; [exact Hin|]. apply (sub_incl _ _ Hs). exact Hi.
Qed.

Lemma iev_eqb_refl e : iev_eqb e e = true.
Proof. destruct e; cbn [iev_eqb]; rewrite ?Z.eqb_refl; reflexivity. Qed.

Lemma ievs_eqb_refl l : ievs_eqb l l = true.
Proof. induction l as [|e l IH]; [reflexivity|]. cbn [ievs_eqb]. rewrite iev_eqb_refl, IH. reflexivity. Qed.

Lemma c14_rest_checkb_refl closed l : c14_rest_checkb closed l l = true.
Proof. unfold c14_rest_checkb. apply ievs_eqb_refl. Qed.

(* C14, a window closing itself inside its key handler: routing a key from any window w
   (subtree wn), with the one-shot mutation "the key handler of w0 closes w0" armed and w0 a
   non-root window of the tree, makes exactly the deliveries of the unmutated order --
   including those inside the closed subtree, which is detached but still alive -- up to and
   including the first claimer; it does not fault, frees nothing, and gives back every
   reference it took; the tree afterwards is the one win_close produces iff w0 was offered
   the key.  In particular the check of the property, [c14_rest_checkb], passes -- for every
   claim pattern, not only when nobody claims. *)
Theorem C14_mutation_self fuel claims s w wn w0 n0 s' r :
  i_armed s = [(w0, (0, 1, w0))] -> i_freed s = [] -> i_pending s = [] -> i_fault s = false ->
  ids_unique (i_root s) ->
  t_find w0 (r_tree (i_root s)) = Some n0 -> w0 <> t_id (r_tree (i_root s)) ->
  look s w = Some wn -> focus_okb wn = true -> (height wn < fuel)%nat ->
  handle_key fuel no_defects claims s w = (s', r) ->
  let offered := fst (until_claim (fun x => Z.testbit (claims x) 0) (key_order wn)) in
  i_log s' = rev (key_spec claims wn) ++ i_log s /\
  r = existsb (fun x => Z.testbit (claims x) 0) (key_order wn) /\
  i_fault s' = false /\ i_freed s' = [] /\ i_pending s' = [] /\ i_holds s' = i_holds s /\
  (mem w0 offered = true -> i_root s' = win_close no_defects (i_root s) w0 /\ i_armed s' = []) /\
  (mem w0 offered = false -> i_root s' = i_root s /\ i_armed s' = i_armed s) /\
  (i_log s = [] -> c14_rest_checkb (t_ids n0) (key_spec claims wn) (rev (i_log s')) = true).
Proof.
  intros Ha Hfr Hpe Hfa Hu Hf Hnr Hl Hfo Hh Hrun. cbv zeta.
  destruct s as [R0 fr H pe ar L fa]. cbn [i_armed i_freed i_pending i_fault i_root i_log i_holds] in *. subst fr pe fa ar.
  change (mkI R0 [] H [] [(w0, (0, 1, w0))] L false) with (St R0 w0 false H L) in Hrun, Hl.
  rewrite look_St in Hl. cbn [cur] in Hl. apply f_find_sub in Hl. destruct Hl as (Hs & Hid). subst w.
  destruct (close_props no_defects R0 w0 n0 Hu Hf Hnr) as (CP1 & CP2).
  assert (Hin0 : t_find w0 (r_tree R0) <> None) by (rewrite Hf; discriminate).
  rewrite (mut_key claims R0 w0 Hu Hin0 Hnr CP1 CP2 fuel wn Hs Hfo Hh H L) in Hrun.
  inversion Hrun; subst s' r. clear Hrun.
  fold (kP claims). fold (fires claims w0 (key_order wn)).
  cbn [St i_log i_fault i_freed i_pending i_holds i_root i_armed].
  split; [reflexivity|]. split; [reflexivity|]. split; [reflexivity|]. split; [reflexivity|].
  split; [reflexivity|]. split; [reflexivity|].
  split; [intros ->; split; reflexivity|]. split; [intros ->; split; reflexivity|].
  intros ->. rewrite klog_spec, app_nil_r, rev_involutive. apply c14_rest_checkb_refl.
Qed.

(* the same from the terminal: on_term_key *)
Corollary C14_mutation_self_term claims t w0 n0 :
  NoDup (t_ids t) -> focus_okb t = true -> (height t < ifuel)%nat ->
  t_find w0 t = Some n0 -> w0 <> t_id t ->
  let s' := term_key no_defects claims (mk_state t [(w0, (0, 1, w0))]) in
  rev (i_log s') = key_spec claims t /\ i_fault s' = false /\ i_holds s' = [] /\ i_freed s' = [] /\
  c14_rest_checkb (t_ids n0) (key_spec claims t) (rev (i_log s')) = true.
Proof.
  intros Hnd Hfo Hh Hf Hnr. cbv zeta. unfold term_key.
  destruct (handle_key ifuel no_defects claims (mk_state t [(w0, (0, 1, w0))])
              (t_id (r_tree (i_root (mk_state t [(w0, (0, 1, w0))]))))) as [s' r] eqn:Hrun.
  assert (Hu : ids_unique (i_root (mk_state t [(w0, (0, 1, w0))]))).
  { unfold ids_unique, forest_ids, forest. cbn [mk_state mk_root i_root r_tree r_orphans flat_map]. rewrite app_nil_r. exact Hnd. }
  assert (Hl : look (mk_state t [(w0, (0, 1, w0))]) (t_id (r_tree (i_root (mk_state t [(w0, (0, 1, w0))])))) = Some t).
  { change (look (mk_state t [(w0, (0, 1, w0))]) (t_id t)) with (f_find (mk_root t) (t_id t)).
    apply (f_find_unique (mk_root t) t Hu). apply (tree_subl (mk_root t)). }
  destruct (C14_mutation_self ifuel claims (mk_state t [(w0, (0, 1, w0))]) _ t w0 n0 s' r eq_refl eq_refl eq_refl eq_refl Hu Hf Hnr Hl Hfo Hh Hrun)
    as (H1 & _ & H3 & H4 & _ & H6 & _ & _ & H9).
  cbn [fst]. cbn [mk_state i_log i_holds] in H1, H6, H9. rewrite app_nil_r in H1.
  split; [rewrite H1; apply rev_involutive|]. split; [exact H3|]. split; [exact H6|]. split; [exact H4|].
  apply H9. reflexivity.
Qed.

(* ---- concrete runs with other mutations (not covered by the theorem above) ---- *)
(* in tree_nv (nobody claims): 2 destroys itself; 1 closes / destroys 3; 5 destroys its parent 1 *)
Example C14_mutation_examples :
  let run a := term_key no_defects (fun _ => 0) (mk_state tree_nv a) in
  let spec := key_spec (fun _ => 0) tree_nv in
  (rev (i_log (run [(2, (0, 1, 2))])) = spec /\ i_fault (run [(2, (0, 1, 2))]) = false) /\
  (c14_rest_checkb [2; 6] spec (rev (i_log (run [(2, (0, 2, 2))]))) = true /\
   i_fault (run [(2, (0, 2, 2))]) = false /\ i_freed (run [(2, (0, 2, 2))]) = [2] /\
   i_holds (run [(2, (0, 2, 2))]) = [] /\ i_pending (run [(2, (0, 2, 2))]) = []) /\
  (c14_rest_checkb [3; 7] spec (rev (i_log (run [(1, (0, 1, 3))]))) = true /\
   i_fault (run [(1, (0, 1, 3))]) = false) /\
  (c14_rest_checkb [3; 7] spec (rev (i_log (run [(1, (0, 2, 3))]))) = true /\
   i_fault (run [(1, (0, 2, 3))]) = false /\ i_freed (run [(1, (0, 2, 3))]) = [3]) /\
  (c14_rest_checkb [1; 5] spec (rev (i_log (run [(5, (0, 2, 1))]))) = true /\
   i_fault (run [(5, (0, 2, 1))]) = false /\ i_freed (run [(5, (0, 2, 1))]) = [1]).
Proof. vm_compute. repeat split; reflexivity. Qed.
