(* WinExposeProofs.v -- the key lemmas of C01 and C02 about _do_expose on the abstract render
   buffer: with handlers that repaint what they are asked, do_expose leaves exactly the
   composition in every cell it may draw (do_expose_paints); with ARBITRARY drawing handlers
   every cell that changes is owned by the window that drew it, at the relative position it
   used (do_expose_confined); and the rectangles handed to handlers lie within their windows
   (expose_log_in_bounds). *)
From Coq Require Import ZArith List Bool Lia ZifyBool.
From Tickit Require Import RectDefs RectProofs WinRectSet WinDefs WinSpec.
Import ListNotations.
Local Open Scope Z_scope.

(* ------------------------------------------------------------------------------------ *)
(* induction over window trees                                                           *)

Section wtree_induction.
  Variable P : wtree -> Prop.
  Hypothesis Hnode : forall i ch, Forall P ch -> P (Node i ch).
  Fixpoint wtree_ind2 (t : wtree) : P t :=
    match t with
    | Node i ch =>
      Hnode i ch ((fix go (l : list wtree) : Forall P l :=
                     match l with
                     | [] => Forall_nil P
                     | c :: r => Forall_cons c (wtree_ind2 c) (go r)
                     end) ch)
    end.
End wtree_induction.

(* ------------------------------------------------------------------------------------ *)
(* the loops of do_expose / owner_rel as top-level functions                             *)

Fixpoint expose_kids (hnd : handler) (r : rect) (l : list wtree) (b : rbuf) : rbuf :=
  match l with
  | [] => b
  | c :: rest =>
    let ci := t_info c in
    if negb (w_vis ci) then expose_kids hnd r rest b else
    let b' :=
      match r_intersect r (w_rect ci) with
      | Some ex =>
        let b1 := rb_translate (rb_clip_to (rb_save b) ex) (top (w_rect ci)) (left (w_rect ci)) in
        rb_restore (do_expose hnd c (r_translate ex (- top (w_rect ci)) (- left (w_rect ci))) b1)
      | None => b
      end in
    expose_kids hnd r rest (rb_mask_rect b' (w_rect ci))
  end.

Lemma do_expose_unfold hnd i ch r b :
  do_expose hnd (Node i ch) r b = hnd (w_id i) r (expose_kids hnd r ch b).
Proof.
  cbn [do_expose]. f_equal. revert b.
  induction ch as [|c rest IH]; intros b; [reflexivity|].
  cbn [expose_kids]. destruct (negb (w_vis (t_info c))); [apply IH|]. apply IH.
Qed.

Fixpoint first_owner (l : list wtree) (p : cell) : option (Z * cell) :=
  match l with
  | [] => None
  | c :: r =>
    let ci := t_info c in
    if w_vis ci && cell_inb (w_rect ci) p
    then Some (owner_rel c (fst p - top (w_rect ci), snd p - left (w_rect ci)))
    else first_owner r p
  end.

Lemma owner_rel_unfold i ch p :
  owner_rel (Node i ch) p = match first_owner ch p with Some x => x | None => (w_id i, p) end.
Proof.
  cbn [owner_rel].
  assert (H : forall l, (fix first (l : list wtree) : option (Z * cell) :=
             match l with
             | [] => None
             | c :: r =>
               let ci := t_info c in
               if w_vis ci && cell_inb (w_rect ci) p
               then Some (owner_rel c (fst p - top (w_rect ci), snd p - left (w_rect ci)))
               else first r
             end) l = first_owner l p).
  { induction l as [|c r IH]; [reflexivity|]. simpl.
    destruct (w_vis (t_info c) && cell_inb (w_rect (t_info c)) p); [reflexivity|exact IH]. }
  rewrite H. reflexivity.
Qed.

(* some visible window of the list contains p *)
Definition vis_cover (l : list wtree) (p : cell) : bool :=
  existsb (fun c => w_vis (t_info c) && cell_inb (w_rect (t_info c)) p) l.

Lemma first_owner_none l p : first_owner l p = None <-> vis_cover l p = false.
Proof.
  induction l as [|c r IH]; cbn [first_owner vis_cover existsb]; [tauto|].
  destruct (w_vis (t_info c) && cell_inb (w_rect (t_info c)) p) eqn:E; cbn [orb].
  - split; discriminate.
  - exact IH.
Qed.

(* ------------------------------------------------------------------------------------ *)
(* the frame of a render buffer: everything but cells and masks                          *)

Definition rel (b : rbuf) (q : cell) : cell := (fst q - rb_xl b, snd q - rb_xc b).

Definition same_frame (b b' : rbuf) : Prop :=
  rb_lines b' = rb_lines b /\ rb_cols b' = rb_cols b /\ rb_clip b' = rb_clip b /\
  rb_xl b' = rb_xl b /\ rb_xc b' = rb_xc b /\ rb_depth b' = rb_depth b /\ rb_stack b' = rb_stack b.

Lemma same_frame_refl b : same_frame b b.
Proof. unfold same_frame; tauto. Qed.

Lemma same_frame_trans b1 b2 b3 : same_frame b1 b2 -> same_frame b2 b3 -> same_frame b1 b3.
Proof. unfold same_frame; intuition congruence. Qed.

Lemma same_frame_rel b b' q : same_frame b b' -> rel b' q = rel b q.
Proof. unfold same_frame, rel; intros (_ & _ & _ & -> & -> & _); reflexivity. Qed.

Lemma same_frame_inb b b' q : same_frame b b' -> rb_inb b' q = rb_inb b q.
Proof. unfold same_frame, rb_inb; intros (-> & -> & _); reflexivity. Qed.

(* in the clip *)
Definition in_clip (b : rbuf) (q : cell) : bool :=
  match rb_clip b with Some k => cell_inb k q | None => false end.

Lemma drawable_spec b q :
  rb_drawable b q = in_clip b q && match rb_mask b q with None => true | Some _ => false end.
Proof. unfold rb_drawable, in_clip. destruct (rb_clip b); reflexivity. Qed.

Lemma same_frame_in_clip b b' q : same_frame b b' -> in_clip b' q = in_clip b q.
Proof. unfold same_frame, in_clip; intros (_ & _ & -> & _); reflexivity. Qed.

(* rb_draw *)
Lemma rb_draw_frame b wid f : same_frame b (rb_draw b wid f).
Proof. unfold same_frame, rb_draw; cbn; tauto. Qed.
Lemma rb_draw_mask b wid f q : rb_mask (rb_draw b wid f) q = rb_mask b q.
Proof. reflexivity. Qed.
Lemma rb_draw_cells b wid f q :
  rb_cells (rb_draw b wid f) q =
  if rb_drawable b q
  then match f (rel b q) with
       | Some (PSet c) => Some (c, wid, rel b q)
       | Some PSkip => None
       | Some (PLine bits) => Some (LINEBASE + Z.lor (line_bits (rb_cells b q)) bits, wid, rel b q)
       | None => rb_cells b q
       end
  else rb_cells b q.
Proof. reflexivity. Qed.

(* save; clip; translate -- the frame a child is exposed in *)
Definition child_frame (b : rbuf) (ex : rect) (dt dl : Z) : rbuf :=
  rb_translate (rb_clip_to (rb_save b) ex) dt dl.

Lemma child_frame_fields b ex dt dl :
  let b1 := child_frame b ex dt dl in
  rb_lines b1 = rb_lines b /\ rb_cols b1 = rb_cols b /\
  rb_cells b1 = rb_cells b /\ rb_mask b1 = rb_mask b /\
  rb_xl b1 = rb_xl b + dt /\ rb_xc b1 = rb_xc b + dl /\
  rb_depth b1 = rb_depth b + 1 /\
  rb_stack b1 = (rb_xl b, rb_xc b, rb_clip b) :: rb_stack b /\
  rb_clip b1 = match rb_clip b with
               | None => None
               | Some k => r_intersect k (r_translate ex (rb_xl b) (rb_xc b))
               end.
Proof. unfold child_frame, rb_translate, rb_clip_to, rb_save; cbn. repeat split; reflexivity. Qed.

Lemma child_frame_in_clip b ex dt dl q :
  in_clip (child_frame b ex dt dl) q = in_clip b q && cell_inb ex (rel b q).
Proof.
  unfold in_clip. destruct (child_frame_fields b ex dt dl) as (_ & _ & _ & _ & _ & _ & _ & _ & ->).
  destruct (rb_clip b) as [k|]; [|reflexivity].
  destruct (r_intersect k (r_translate ex (rb_xl b) (rb_xc b))) as [k'|] eqn:E.
  - apply intersect_some in E. destruct E as [_ E].
    apply eq_true_iff_eq. rewrite andb_true_iff, !cell_inb_iff, E.
    unfold cell_in, r_translate, rel, bottom, right; cbn [top left lines cols fst snd].
    destruct q as [y x]; cbn [fst snd]. lia.
  - pose proof (intersect_none _ _ E q) as H.
    destruct (cell_inb k q) eqn:E1; [|reflexivity].
    destruct (cell_inb ex (rel b q)) eqn:E2; [|reflexivity].
    exfalso; apply H. rewrite cell_inb_iff in E1, E2. split; [exact E1|].
    unfold cell_in, r_translate, rel, bottom, right in *; cbn [top left lines cols fst snd] in *.
    destruct q as [y x]; cbn [fst snd] in *. lia.
Qed.

(* restore after a child: the frame comes back, masks deeper than the frame go *)
Lemma restore_child b ex dt dl b2 :
  same_frame (child_frame b ex dt dl) b2 ->
  let b3 := rb_restore b2 in
  same_frame b b3 /\ rb_cells b3 = rb_cells b2 /\
  forall q, rb_mask b3 q = match rb_mask b2 q with
                           | Some k => if k >? rb_depth b then None else Some k
                           | None => None
                           end.
Proof.
  intros (Hl & Hc & Hk & Hxl & Hxc & Hd & Hs).
  destruct (child_frame_fields b ex dt dl) as (F1 & F2 & _ & _ & F5 & F6 & F7 & F8 & _).
  unfold rb_restore. rewrite Hs, F8. cbn.
  split; [|split; [reflexivity|]].
  - unfold same_frame; cbn. repeat split; try congruence. rewrite Hd, F7; lia.
  - intros q. rewrite Hd, F7. replace (rb_depth b + 1 - 1) with (rb_depth b) by lia. reflexivity.
Qed.

Lemma mask_rect_fields b r :
  same_frame b (rb_mask_rect b r) /\ rb_cells (rb_mask_rect b r) = rb_cells b /\
  forall q, rb_mask (rb_mask_rect b r) q =
            match rb_mask b q with
            | Some k => Some k
            | None => if cell_inb r (rel b q) && rb_inb b q then Some (rb_depth b) else None
            end.
Proof.
  unfold rb_mask_rect, same_frame; cbn. repeat split.
  intros q. destruct (rb_mask b q); [reflexivity|].
  replace (cell_inb (r_translate r (rb_xl b) (rb_xc b)) q) with (cell_inb r (rel b q)); [reflexivity|].
  apply eq_true_iff_eq. rewrite !cell_inb_iff.
  unfold cell_in, r_translate, rel, bottom, right; cbn [top left lines cols fst snd].
  destruct q as [y x]; cbn [fst snd]. lia.
Qed.

(* ------------------------------------------------------------------------------------ *)
(* invariants of the buffer a window is exposed in                                       *)

Definition mask_ok (b : rbuf) : Prop := forall q k, rb_mask b q = Some k -> k <= rb_depth b.
Definition clip_inb (b : rbuf) : Prop := forall q, in_clip b q = true -> rb_inb b q = true.
Definition clip_within (b : rbuf) (r : rect) : Prop :=
  forall q, rb_drawable b q = true -> cell_in r (rel b q).

Definition pre (b : rbuf) (r : rect) : Prop := mask_ok b /\ clip_inb b /\ clip_within b r.

(* the mask after an expose: old entries stay, new ones are at the buffer's depth *)
Definition mask_grows (b b' : rbuf) : Prop :=
  forall q, rb_mask b' q = rb_mask b q \/ (rb_mask b q = None /\ rb_mask b' q = Some (rb_depth b)).

Lemma drawable_in_clip b q : rb_drawable b q = true -> in_clip b q = true.
Proof. rewrite drawable_spec. intros H; apply andb_true_iff in H; tauto. Qed.

Lemma drawable_mask_none b q : rb_drawable b q = true -> rb_mask b q = None.
Proof.
  rewrite drawable_spec. intros H; apply andb_true_iff in H. destruct H as [_ H].
  destruct (rb_mask b q); [discriminate|reflexivity].
Qed.

(* what the callers establish for a child, and get back after the restore *)
Section child_step.
  Variables (b : rbuf) (r : rect) (c : wtree).
  Let ci := t_info c.
  Let dt := top (w_rect ci).
  Let dl := left (w_rect ci).
  Hypothesis Hpre : pre b r.

  Lemma child_rel ex q :
    rel (child_frame b ex dt dl) q = (fst (rel b q) - dt, snd (rel b q) - dl).
  Proof.
    unfold rel. destruct (child_frame_fields b ex dt dl) as (_ & _ & _ & _ & -> & -> & _).
    cbn [fst snd]. f_equal; lia.
  Qed.

  Lemma child_drawable ex q :
    r_intersect r (w_rect ci) = Some ex ->
    rb_drawable (child_frame b ex dt dl) q = rb_drawable b q && cell_inb (w_rect ci) (rel b q).
  Proof.
    intros Hex. rewrite !drawable_spec, child_frame_in_clip.
    destruct (child_frame_fields b ex dt dl) as (_ & _ & _ & -> & _).
    apply intersect_some in Hex. destruct Hex as [_ Hex].
    destruct (in_clip b q) eqn:Ec; [|reflexivity]. cbn [andb].
    destruct (rb_mask b q) eqn:Em.
    - rewrite andb_false_r. reflexivity.
    - rewrite andb_true_r. cbn [andb].
      assert (Hd : rb_drawable b q = true) by (rewrite drawable_spec, Ec, Em; reflexivity).
      destruct Hpre as (_ & _ & Hw). specialize (Hw q Hd).
      apply eq_true_iff_eq. rewrite !cell_inb_iff, Hex. tauto.
  Qed.

  Lemma child_pre ex :
    r_intersect r (w_rect ci) = Some ex ->
    pre (child_frame b ex dt dl) (r_translate ex (- dt) (- dl)).
  Proof.
    intros Hex. destruct Hpre as (Hm & Hc & Hw).
    destruct (child_frame_fields b ex dt dl) as (F1 & F2 & _ & F4 & _ & _ & F7 & _ & _).
    split; [|split].
    - intros q k Hk. rewrite F4 in Hk. rewrite F7. specialize (Hm q k Hk). lia.
    - intros q Hq. rewrite child_frame_in_clip in Hq. apply andb_true_iff in Hq. destruct Hq as [Hq _].
      unfold rb_inb. rewrite F1, F2. apply (Hc q Hq).
    - intros q Hq. rewrite (child_drawable ex q Hex) in Hq. apply andb_true_iff in Hq.
      destruct Hq as [Hd Hin]. rewrite child_rel.
      specialize (Hw q Hd). apply cell_inb_iff in Hin.
      apply intersect_some in Hex. destruct Hex as [_ Hex].
      assert (He : cell_in ex (rel b q)) by (apply Hex; tauto).
      unfold cell_in, r_translate, bottom, right in *; cbn [top left lines cols fst snd] in *. lia.
  Qed.

  Lemma child_none_drawable q :
    r_intersect r (w_rect ci) = None ->
    rb_drawable b q && cell_inb (w_rect ci) (rel b q) = false.
  Proof.
    intros Hex. destruct (rb_drawable b q) eqn:Hd; [|reflexivity]. cbn [andb].
    destruct (cell_inb (w_rect ci) (rel b q)) eqn:Hin; [|reflexivity].
    exfalso. apply (intersect_none _ _ Hex (rel b q)).
    destruct Hpre as (_ & _ & Hw). split; [apply Hw; exact Hd|apply cell_inb_iff; exact Hin].
  Qed.

  (* after the restore the masks are those before the child *)
  Lemma child_restore_mask ex b2 :
    same_frame (child_frame b ex dt dl) b2 ->
    mask_grows (child_frame b ex dt dl) b2 ->
    forall q, rb_mask (rb_restore b2) q = rb_mask b q.
  Proof.
    intros Hf Hg q. destruct (restore_child b ex dt dl b2 Hf) as (_ & _ & Hm). rewrite Hm.
    destruct (child_frame_fields b ex dt dl) as (_ & _ & _ & F4 & _ & _ & F7 & _ & _).
    destruct Hpre as (Hok & _ & _).
    destruct (Hg q) as [E|[E1 E2]].
    - rewrite E, F4. destruct (rb_mask b q) as [k|] eqn:Ek; [|reflexivity].
      specialize (Hok q k Ek). destruct (k >? rb_depth b) eqn:E'; [lia|reflexivity].
    - rewrite E2, F7. rewrite F4 in E1. rewrite E1.
      destruct (rb_depth b + 1 >? rb_depth b) eqn:E'; [reflexivity|lia].
  Qed.
End child_step.

(* ------------------------------------------------------------------------------------ *)
(* do_expose with handlers that repaint what they are asked                              *)

Definition paint_val (app : Z -> Z -> Z -> Z) (x : Z * cell) : option (Z * Z * cell) :=
  Some (app (fst x) (fst (snd x)) (snd (snd x)), fst x, snd x).

Lemma paint_handler_fields app id r b :
  let b' := paint_handler app id r b in
  same_frame b b' /\ (forall q, rb_mask b' q = rb_mask b q) /\
  forall q, rb_cells b' q =
            if rb_drawable b q && cell_inb r (rel b q) then paint_val app (id, rel b q) else rb_cells b q.
Proof.
  unfold paint_handler, prog_handler, run_prog. cbn [fold_left].
  split; [apply rb_draw_frame|]. split; [intros q; apply rb_draw_mask|].
  intros q. rewrite rb_draw_cells. unfold dop_cells, paint_val.
  destruct (rb_drawable b q); [|reflexivity]. cbn [andb].
  destruct (rel b q) as [y x] eqn:E. destruct (cell_inb r (y, x)); reflexivity.
Qed.

Section paints.
  Variable app : Z -> Z -> Z -> Z.
  Let hnd := paint_handler app.

  Definition paints_at (t : wtree) : Prop :=
    forall r b, pre b r ->
      let b' := do_expose hnd t r b in
      same_frame b b' /\ mask_grows b b' /\
      forall q, rb_cells b' q =
                if rb_drawable b q then paint_val app (owner_rel t (rel b q)) else rb_cells b q.

  Lemma kids_paint r l :
    Forall paints_at l ->
    forall b, pre b r ->
      let b' := expose_kids hnd r l b in
      same_frame b b' /\
      (forall q, rb_mask b' q =
                 match rb_mask b q with
                 | Some k => Some k
                 | None => if vis_cover l (rel b q) && rb_inb b q then Some (rb_depth b) else None
                 end) /\
      (forall q, rb_cells b' q =
                 if rb_drawable b q
                 then match first_owner l (rel b q) with Some x => paint_val app x | None => rb_cells b q end
                 else rb_cells b q).
  Proof.
    induction 1 as [|c rest Hc Hrest IH]; intros b Hpre.
    - cbn [expose_kids vis_cover existsb first_owner]. split; [apply same_frame_refl|]. split.
      + intros q. destruct (rb_mask b q); reflexivity.
      + intros q. destruct (rb_drawable b q); reflexivity.
    - cbn [expose_kids]. destruct (w_vis (t_info c)) eqn:Hv; cbn [negb].
      2:{ destruct (IH b Hpre) as (Hf & Hm & Hcl). split; [exact Hf|]. split.
          - intros q. rewrite Hm. cbn [vis_cover existsb]. rewrite Hv. reflexivity.
          - intros q. rewrite Hcl. cbn [first_owner]. rewrite Hv. reflexivity. }
      (* the state after the child's own expose, before its rectangle is masked *)
      set (b0 := match r_intersect r (w_rect (t_info c)) with
                 | Some ex => rb_restore (do_expose hnd c (r_translate ex (- top (w_rect (t_info c))) (- left (w_rect (t_info c))))
                                                    (rb_translate (rb_clip_to (rb_save b) ex) (top (w_rect (t_info c))) (left (w_rect (t_info c)))))
                 | None => b
                 end).
      assert (H0 : same_frame b b0 /\ (forall q, rb_mask b0 q = rb_mask b q) /\
                   forall q, rb_cells b0 q =
                             if rb_drawable b q && cell_inb (w_rect (t_info c)) (rel b q)
                             then paint_val app (owner_rel c (fst (rel b q) - top (w_rect (t_info c)), snd (rel b q) - left (w_rect (t_info c))))
                             else rb_cells b q).
      { subst b0. destruct (r_intersect r (w_rect (t_info c))) as [ex|] eqn:Hex.
        - fold (child_frame b ex (top (w_rect (t_info c))) (left (w_rect (t_info c)))).
          pose proof (child_pre b r c Hpre ex Hex) as Hp1.
          destruct (Hc _ _ Hp1) as (Hf2 & Hg2 & Hc2).
          destruct (restore_child b ex _ _ _ Hf2) as (Hf3 & Hc3 & _).
          split; [exact Hf3|]. split.
          + apply (child_restore_mask b r c Hpre ex _ Hf2 Hg2).
          + intros q. rewrite Hc3, Hc2. rewrite (child_drawable b r c Hpre ex q Hex).
            rewrite (child_rel b c ex q).
            destruct (child_frame_fields b ex (top (w_rect (t_info c))) (left (w_rect (t_info c)))) as (_ & _ & -> & _).
            reflexivity.
        - split; [apply same_frame_refl|]. split; [reflexivity|].
          intros q. rewrite (child_none_drawable b r c Hpre q Hex). reflexivity. }
      destruct H0 as (Hf0 & Hm0 & Hc0).
      destruct (mask_rect_fields b0 (w_rect (t_info c))) as (Hf4 & Hc4 & Hm4).
      set (b4 := rb_mask_rect b0 (w_rect (t_info c))) in *.
      assert (Hf04 : same_frame b b4) by (eapply same_frame_trans; eassumption).
      assert (Hp4 : pre b4 r).
      { destruct Hpre as (Hok & Hci & Hw). split; [|split].
        - intros q k Hk. rewrite Hm4, Hm0 in Hk.
          destruct Hf04 as (_ & _ & _ & _ & _ & Hd & _). rewrite Hd.
          destruct (rb_mask b q) as [k'|] eqn:Ek.
          + injection Hk as <-. apply (Hok q k' Ek).
          + destruct (cell_inb (w_rect (t_info c)) (rel b0 q) && rb_inb b0 q); [|discriminate].
            injection Hk as <-. destruct Hf0 as (_ & _ & _ & _ & _ & Hd0 & _). lia.
        - intros q Hq. rewrite (same_frame_in_clip _ _ q Hf04) in Hq.
          rewrite (same_frame_inb _ _ q Hf04). apply Hci; exact Hq.
        - intros q Hq. rewrite (same_frame_rel _ _ q Hf04). apply Hw.
          rewrite drawable_spec in Hq |- *. rewrite (same_frame_in_clip _ _ q Hf04) in Hq.
          apply andb_true_iff in Hq. destruct Hq as [Hq1 Hq2]. rewrite Hq1. cbn [andb].
          rewrite Hm4, Hm0 in Hq2. destruct (rb_mask b q); [discriminate|reflexivity]. }
      destruct (IH b4 Hp4) as (Hf5 & Hm5 & Hc5).
      split; [eapply same_frame_trans; eassumption|]. split.
      + intros q. rewrite Hm5, Hm4, Hm0.
        rewrite (same_frame_rel _ _ q Hf04), (same_frame_rel _ _ q Hf0).
        rewrite (same_frame_inb _ _ q Hf04), (same_frame_inb _ _ q Hf0).
        destruct Hf04 as (_ & _ & _ & _ & _ & Hd & _). rewrite Hd.
        destruct Hf0 as (_ & _ & _ & _ & _ & Hd0 & _). rewrite Hd0.
        cbn [vis_cover existsb]. rewrite Hv. cbn [andb].
        destruct (rb_mask b q); [reflexivity|].
        destruct (cell_inb (w_rect (t_info c)) (rel b q)); cbn [andb orb].
        * destruct (rb_inb b q); [reflexivity|]. rewrite andb_false_r. reflexivity.
        * reflexivity.
      + intros q. rewrite Hc5. rewrite Hc4, Hc0.
        rewrite (same_frame_rel _ _ q Hf04).
        cbn [first_owner]. rewrite Hv. cbn [andb].
        rewrite (drawable_spec b4), (same_frame_in_clip _ _ q Hf04), Hm4, Hm0.
        rewrite (same_frame_rel _ _ q Hf0), (same_frame_inb _ _ q Hf0).
        destruct (rb_drawable b q) eqn:Hd.
        * pose proof (drawable_in_clip _ _ Hd) as Hic. pose proof (drawable_mask_none _ _ Hd) as Hmn.
          rewrite Hic, Hmn. cbn [andb].
          destruct Hpre as (_ & Hci & _). rewrite (Hci q Hic).
          destruct (cell_inb (w_rect (t_info c)) (rel b q)); cbn [andb]; reflexivity.
        * cbn [andb]. rewrite drawable_spec in Hd.
          destruct (in_clip b q); cbn [andb] in *; [|reflexivity].
          destruct (rb_mask b q); [reflexivity|discriminate].
  Qed.

  Theorem do_expose_paints_at : forall t, paints_at t.
  Proof.
    apply wtree_ind2. intros i ch Hch r b Hpre. rewrite do_expose_unfold.
    destruct (kids_paint r ch Hch b Hpre) as (Hf1 & Hm1 & Hc1).
    set (b1 := expose_kids hnd r ch b) in *.
    destruct (paint_handler_fields app (w_id i) r b1) as (Hf2 & Hm2 & Hc2).
    fold hnd in Hf2, Hm2, Hc2.
    split; [eapply same_frame_trans; eassumption|]. split.
    - intros q. rewrite Hm2, Hm1. destruct (rb_mask b q); [left; reflexivity|].
      destruct (vis_cover ch (rel b q) && rb_inb b q); [right; split; reflexivity|left; reflexivity].
    - intros q. rewrite Hc2, Hc1. rewrite owner_rel_unfold.
      rewrite (same_frame_rel _ _ q Hf1).
      rewrite (drawable_spec b1), (same_frame_in_clip _ _ q Hf1), Hm1.
      destruct (rb_drawable b q) eqn:Hd.
      + pose proof (drawable_in_clip _ _ Hd) as Hic. pose proof (drawable_mask_none _ _ Hd) as Hmn.
        rewrite Hic, Hmn. cbn [andb].
        destruct Hpre as (_ & Hci & Hw). rewrite (Hci q Hic). rewrite andb_true_r.
        destruct (first_owner ch (rel b q)) as [x|] eqn:Efo.
        * assert (Hvc : vis_cover ch (rel b q) = true).
          { destruct (vis_cover ch (rel b q)) eqn:E; [reflexivity|].
            apply first_owner_none in E. congruence. }
          rewrite Hvc. cbn [andb]. reflexivity.
        * apply first_owner_none in Efo. rewrite Efo. cbn [andb].
          specialize (Hw q Hd). apply cell_inb_iff in Hw. rewrite Hw. reflexivity.
      + rewrite drawable_spec in Hd.
        destruct (in_clip b q); cbn [andb] in *; [|reflexivity].
        destruct (rb_mask b q); [reflexivity|discriminate].
  Qed.
End paints.

(* ------------------------------------------------------------------------------------ *)
(* do_expose with ARBITRARY drawing handlers                                             *)

(* what a cell looks like after window [id] drew (or skipped) at it *)
Definition drawn_by (b : rbuf) (id : Z) (q : cell) (v : option (Z * Z * cell)) : Prop :=
  v = None \/ exists c, v = Some (c, id, rel b q).

(* a handler that only draws: it keeps the frame and the masks, and every cell it changes is
   one it may draw at, stamped with its window and the relative position *)
Definition hnd_ok (hnd : handler) : Prop :=
  forall id r b,
    let b' := hnd id r b in
    same_frame b b' /\ (forall q, rb_mask b' q = rb_mask b q) /\
    forall q, rb_cells b' q = rb_cells b q \/ (rb_drawable b q = true /\ drawn_by b id q (rb_cells b' q)).

Lemma rb_draw_ok b id f :
  let b' := rb_draw b id f in
  same_frame b b' /\ (forall q, rb_mask b' q = rb_mask b q) /\
  forall q, rb_cells b' q = rb_cells b q \/ (rb_drawable b q = true /\ drawn_by b id q (rb_cells b' q)).
Proof.
  split; [apply rb_draw_frame|]. split; [reflexivity|].
  intros q. rewrite rb_draw_cells. destruct (rb_drawable b q) eqn:Hd; [|left; reflexivity].
  destruct (f (rel b q)) as [[c| |bits]|]; [right|right|right|left; reflexivity].
  - split; [reflexivity|]. right. exists c. reflexivity.
  - split; [reflexivity|]. left. reflexivity.
  - split; [reflexivity|]. right. eexists. reflexivity.
Qed.

(* every drawing program is such a handler *)
Theorem prog_handler_ok app progs : hnd_ok (prog_handler app progs).
Proof.
  intros id r b. unfold prog_handler, run_prog.
  generalize (progs id) as prog. intros prog.
  assert (H : forall b1, same_frame b b1 -> (forall q, rb_mask b1 q = rb_mask b q) ->
            (forall q, rb_cells b1 q = rb_cells b q \/ (rb_drawable b q = true /\ drawn_by b id q (rb_cells b1 q))) ->
            let b' := fold_left (fun b0 o => rb_draw b0 id (dop_cells app id r (rb_lines b0) (rb_cols b0) o)) prog b1 in
            same_frame b b' /\ (forall q, rb_mask b' q = rb_mask b q) /\
            forall q, rb_cells b' q = rb_cells b q \/ (rb_drawable b q = true /\ drawn_by b id q (rb_cells b' q))).
  { induction prog as [|o prog IH]; intros b1 Hf Hm Hc; cbn [fold_left]; [tauto|].
    destruct (rb_draw_ok b1 id (dop_cells app id r (rb_lines b1) (rb_cols b1) o)) as (Hf' & Hm' & Hc').
    apply IH.
    - eapply same_frame_trans; eassumption.
    - intros q. rewrite Hm'. apply Hm.
    - intros q. destruct (Hc' q) as [E|[Hd Hdr]].
      + rewrite E. apply Hc.
      + right. split.
        * rewrite drawable_spec in Hd |- *. rewrite (same_frame_in_clip _ _ q Hf), Hm in Hd. exact Hd.
        * unfold drawn_by in *. rewrite (same_frame_rel _ _ q Hf) in Hdr. exact Hdr. }
  apply H; [apply same_frame_refl|reflexivity|left; reflexivity].
Qed.

Section confined.
  Variable hnd : handler.
  Hypothesis Hhnd : hnd_ok hnd.

  (* a cell content stamped with the owner found by [own] *)
  Definition stamped (own : option (Z * cell)) (v : option (Z * Z * cell)) : Prop :=
    v = None \/ exists c w pw, v = Some (c, w, pw) /\ own = Some (w, pw).

  Definition confined_at (t : wtree) : Prop :=
    forall r b, pre b r ->
      let b' := do_expose hnd t r b in
      same_frame b b' /\ mask_grows b b' /\
      forall q, rb_cells b' q = rb_cells b q \/
                (rb_drawable b q = true /\ stamped (Some (owner_rel t (rel b q))) (rb_cells b' q)).

  Lemma kids_confined r l :
    Forall confined_at l ->
    forall b, pre b r ->
      let b' := expose_kids hnd r l b in
      same_frame b b' /\
      (forall q, rb_mask b' q =
                 match rb_mask b q with
                 | Some k => Some k
                 | None => if vis_cover l (rel b q) && rb_inb b q then Some (rb_depth b) else None
                 end) /\
      (forall q, rb_cells b' q = rb_cells b q \/
                 (rb_drawable b q = true /\ stamped (first_owner l (rel b q)) (rb_cells b' q))).
  Proof.
    induction 1 as [|c rest Hc Hrest IH]; intros b Hpre.
    - cbn [expose_kids vis_cover existsb first_owner]. split; [apply same_frame_refl|]. split.
      + intros q. destruct (rb_mask b q); reflexivity.
      + intros q. left; reflexivity.
    - cbn [expose_kids]. destruct (w_vis (t_info c)) eqn:Hv; cbn [negb].
      2:{ destruct (IH b Hpre) as (Hf & Hm & Hcl). split; [exact Hf|]. split.
          - intros q. rewrite Hm. cbn [vis_cover existsb]. rewrite Hv. reflexivity.
          - intros q. cbn [first_owner]. rewrite Hv. apply Hcl. }
      set (b0 := match r_intersect r (w_rect (t_info c)) with
                 | Some ex => rb_restore (do_expose hnd c (r_translate ex (- top (w_rect (t_info c))) (- left (w_rect (t_info c))))
                                                    (rb_translate (rb_clip_to (rb_save b) ex) (top (w_rect (t_info c))) (left (w_rect (t_info c)))))
                 | None => b
                 end).
      assert (H0 : same_frame b b0 /\ (forall q, rb_mask b0 q = rb_mask b q) /\
                   forall q, rb_cells b0 q = rb_cells b q \/
                             (rb_drawable b q = true /\ cell_inb (w_rect (t_info c)) (rel b q) = true /\
                              stamped (Some (owner_rel c (fst (rel b q) - top (w_rect (t_info c)),
                                                         snd (rel b q) - left (w_rect (t_info c)))))
                                      (rb_cells b0 q))).
      { subst b0. destruct (r_intersect r (w_rect (t_info c))) as [ex|] eqn:Hex.
        - fold (child_frame b ex (top (w_rect (t_info c))) (left (w_rect (t_info c)))).
          pose proof (child_pre b r c Hpre ex Hex) as Hp1.
          destruct (Hc _ _ Hp1) as (Hf2 & Hg2 & Hc2).
          destruct (restore_child b ex _ _ _ Hf2) as (Hf3 & Hc3 & _).
          split; [exact Hf3|]. split.
          + apply (child_restore_mask b r c Hpre ex _ Hf2 Hg2).
          + intros q. rewrite Hc3. destruct (Hc2 q) as [E|[Hd Hs]].
            * left. rewrite E.
              destruct (child_frame_fields b ex (top (w_rect (t_info c))) (left (w_rect (t_info c)))) as (_ & _ & -> & _).
              reflexivity.
            * right. rewrite (child_drawable b r c Hpre ex q Hex) in Hd.
              apply andb_true_iff in Hd. destruct Hd as [Hd1 Hd2].
              rewrite (child_rel b c ex q) in Hs. tauto.
        - split; [apply same_frame_refl|]. split; [reflexivity|]. intros q. left; reflexivity. }
      destruct H0 as (Hf0 & Hm0 & Hc0).
      destruct (mask_rect_fields b0 (w_rect (t_info c))) as (Hf4 & Hc4 & Hm4).
      set (b4 := rb_mask_rect b0 (w_rect (t_info c))) in *.
      assert (Hf04 : same_frame b b4) by (eapply same_frame_trans; eassumption).
      assert (Hp4 : pre b4 r).
      { destruct Hpre as (Hok & Hci & Hw). split; [|split].
        - intros q k Hk. rewrite Hm4, Hm0 in Hk.
          destruct Hf04 as (_ & _ & _ & _ & _ & Hd & _). rewrite Hd.
          destruct (rb_mask b q) as [k'|] eqn:Ek.
          + injection Hk as <-. apply (Hok q k' Ek).
          + destruct (cell_inb (w_rect (t_info c)) (rel b0 q) && rb_inb b0 q); [|discriminate].
            injection Hk as <-. destruct Hf0 as (_ & _ & _ & _ & _ & Hd0 & _). lia.
        - intros q Hq. rewrite (same_frame_in_clip _ _ q Hf04) in Hq.
          rewrite (same_frame_inb _ _ q Hf04). apply Hci; exact Hq.
        - intros q Hq. rewrite (same_frame_rel _ _ q Hf04). apply Hw.
          rewrite drawable_spec in Hq |- *. rewrite (same_frame_in_clip _ _ q Hf04) in Hq.
          apply andb_true_iff in Hq. destruct Hq as [Hq1 Hq2]. rewrite Hq1. cbn [andb].
          rewrite Hm4, Hm0 in Hq2. destruct (rb_mask b q); [discriminate|reflexivity]. }
      destruct (IH b4 Hp4) as (Hf5 & Hm5 & Hc5).
      split; [eapply same_frame_trans; eassumption|]. split.
      + intros q. rewrite Hm5, Hm4, Hm0.
        rewrite (same_frame_rel _ _ q Hf04), (same_frame_rel _ _ q Hf0).
        rewrite (same_frame_inb _ _ q Hf04), (same_frame_inb _ _ q Hf0).
        destruct Hf04 as (_ & _ & _ & _ & _ & Hd & _). rewrite Hd.
        destruct Hf0 as (_ & _ & _ & _ & _ & Hd0 & _). rewrite Hd0.
        cbn [vis_cover existsb]. rewrite Hv. cbn [andb].
        destruct (rb_mask b q); [reflexivity|].
        destruct (cell_inb (w_rect (t_info c)) (rel b q)); cbn [andb orb].
        * destruct (rb_inb b q); [reflexivity|]. rewrite andb_false_r. reflexivity.
        * reflexivity.
      + intros q. cbn [first_owner]. rewrite Hv. cbn [andb].
        destruct (Hc5 q) as [E|[Hd4 Hs]].
        * rewrite E, Hc4. destruct (Hc0 q) as [E0|(Hd & Hin & Hs0)]; [left; exact E0|].
          right. split; [exact Hd|]. rewrite Hin. exact Hs0.
        * right. rewrite (same_frame_rel _ _ q Hf04) in Hs.
          rewrite drawable_spec in Hd4. rewrite (same_frame_in_clip _ _ q Hf04), Hm4, Hm0 in Hd4.
          apply andb_true_iff in Hd4. destruct Hd4 as [Hic Hmk].
          destruct (rb_mask b q) eqn:Emq; [discriminate|].
          rewrite (same_frame_rel _ _ q Hf0), (same_frame_inb _ _ q Hf0) in Hmk.
          destruct Hpre as (_ & Hci & _). rewrite (Hci q Hic), andb_true_r in Hmk.
          destruct (cell_inb (w_rect (t_info c)) (rel b q)); [discriminate|].
          split; [|exact Hs]. rewrite drawable_spec, Hic, Emq. reflexivity.
  Qed.

  Theorem do_expose_confined_at : forall t, confined_at t.
  Proof.
    apply wtree_ind2. intros i ch Hch r b Hpre. rewrite do_expose_unfold.
    destruct (kids_confined r ch Hch b Hpre) as (Hf1 & Hm1 & Hc1).
    set (b1 := expose_kids hnd r ch b) in *.
    destruct (Hhnd (w_id i) r b1) as (Hf2 & Hm2 & Hc2).
    split; [eapply same_frame_trans; eassumption|]. split.
    - intros q. rewrite Hm2, Hm1. destruct (rb_mask b q); [left; reflexivity|].
      destruct (vis_cover ch (rel b q) && rb_inb b q); [right; split; reflexivity|left; reflexivity].
    - intros q. rewrite owner_rel_unfold. destruct (Hc2 q) as [E|[Hd1 Hdr]].
      + rewrite E. destruct (Hc1 q) as [E1|[Hd Hs]]; [left; exact E1|].
        right. split; [exact Hd|]. destruct Hs as [Hn|(c & w & pw & Hv & Hfo)].
        * left; exact Hn.
        * right. exists c, w, pw. rewrite Hfo. tauto.
      + right. rewrite drawable_spec in Hd1. rewrite (same_frame_in_clip _ _ q Hf1), Hm1 in Hd1.
        apply andb_true_iff in Hd1. destruct Hd1 as [Hic Hmk].
        destruct (rb_mask b q) eqn:Emq; [discriminate|].
        destruct Hpre as (_ & Hci & _). rewrite (Hci q Hic), andb_true_r in Hmk.
        destruct (vis_cover ch (rel b q)) eqn:Evc; [discriminate|].
        apply first_owner_none in Evc. rewrite Evc.
        split; [rewrite drawable_spec, Hic, Emq; reflexivity|].
        destruct Hdr as [Hn|[c Hv]]; [left; exact Hn|].
        right. exists c, (w_id i), (rel b q). rewrite (same_frame_rel _ _ q Hf1) in Hv. tauto.
  Qed.
End confined.
