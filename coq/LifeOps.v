(* LifeOps.v -- the API calls of a script, one by one: each keeps the heap invariant and does
   not fault when its window arguments are live (and, where the library would abort() on a
   detached window, attached to the root). *)
From Coq Require Import ZArith List Bool PArith FMapPositive Lia.
From Tickit Require Import LifeDefs LifeLemmas LifeChains LifeInv LifePure LifeWalks LifeRelink LifeRemove LifeClose
  LifeQueue LifeDestroy LifeAttach.
Import ListNotations.
Local Open Scope Z_scope.

(* what a call that frees nothing guarantees about the cells that existed before it *)
Record preserved (h h' : heap) : Prop := mk_preserved {
  pv_wins : forall a c, findw h a = Some c ->
    exists c', findw h' a = Some c' /\ w_parent c' = w_parent c /\ w_ref c' = w_ref c /\ w_closed c' = w_closed c;
  pv_nextw : (nextw h <= nextw h')%positive
}.

Lemma preserved_refl : forall h, preserved h h.
Proof. intro h. constructor; eauto 10. lia. Qed.
Lemma preserved_trans : forall h1 h2 h3, preserved h1 h2 -> preserved h2 h3 -> preserved h1 h3.
Proof.
  intros h1 h2 h3 [W1 N1] [W2 N2]. constructor; [|lia].
  intros a c1 H1. destruct (W1 a c1 H1) as [c2 [H2 [E1 [E2 E3]]]]. destruct (W2 a c2 H2) as [c3 [H3 [G1 [G2 G3]]]].
  exists c3. repeat split; congruence.
Qed.
Lemma rx_only_preserved : forall h h', rx_only h h' -> preserved h h'.
Proof.
  intros h h' R. constructor.
  - intros a c Hf. exists c. rewrite (rx_only_findw h h' a R). auto.
  - destruct R as [_ [_ [_ [_ [E _]]]]]. rewrite E. lia.
Qed.

(* ---- tickit_window_ref, set_steal_input, bind_event: one cell, links untouched -------------------------- *)
Lemma upd_links_spec : forall D a f h,
  hinv D h -> findw h a <> None ->
  (forall c, same_links c (f c) /\ w_ref c <= w_ref (f c)) ->
  hoare (fun h1 => h1 = h) (upd a f) (fun _ h' => hinv D h' /\ links_eq h h' /\ h' = upd_cell h a f).
Proof.
  intros D a f h HI Hl Hf. apply upd_pure. intros h1 E. subst h1. split; auto.
  assert (L : links_eq h (upd_cell h a f)) by (apply links_eq_upd_cell; intros c _; apply Hf).
  split; [|split; auto].
  eapply hinv_links_eq; eauto. intros b c' Hfb Hd. rewrite findw_upd_cell in Hfb.
  destruct (Pos.eqb a b) eqn:E.
  - apply Pos.eqb_eq in E. subst b. destruct (findw h a) as [c|] eqn:Hfa; cbn in Hfb; inversion Hfb; subst c'.
    pose proof (hi_ref D h HI a c Hfa Hd). destruct (Hf c) as [_ Hle]. lia.
  - exact (hi_ref D h HI b c' Hfb Hd).
Qed.

(* ---- tickit_window_new ----------------------------------------------------------------------------------- *)
Lemma cells_by_intro : forall h h' F,
  (forall a, findw h' a = option_map (F a) (findw h a)) -> reqs h' = reqs h -> rx h' = rx h ->
  nextw h' = nextw h -> nextq h' = nextq h -> cells_by h h' F.
Proof.
  intros h h' F Hw Hq Hr Hnw Hnq. constructor; auto.
  - intro q. unfold findq. rewrite Hq. reflexivity.
  - rewrite Hr. reflexivity.
  - rewrite Hr. reflexivity.
Qed.

(* the heap after the new cell [cfin] at the fresh address has been linked in by rewriting cell [x] with [g] *)
Lemma hinv_new : forall D h h5 p' cp l l' w cfin x g,
  hinv D h -> findw h p' = Some cp -> chain h (w_first cp) l -> w = nextw h ->
  w_parent cfin = Some p' -> w_first cfin = None -> w_focus cfin = None -> w_ref cfin = 1 ->
  w_closed cfin = false -> w_isroot cfin = false ->
  (forall a, findw h5 a = if Pos.eqb a w then Some cfin else if Pos.eqb a x then option_map g (findw h a) else findw h a) ->
  reqs h5 = reqs h -> rx h5 = rx h -> nextw h5 = Pos.succ (nextw h) -> nextq h5 = nextq h ->
  findw h x <> None ->
  (forall c, w_parent (g c) = w_parent c /\ w_focus (g c) = w_focus c /\ w_closed (g c) = w_closed c /\
             w_isroot (g c) = w_isroot c /\ w_ref (g c) = w_ref c) ->
  (x <> p' -> forall c, w_first (g c) = w_first c) ->
  (~ In x l -> forall c, w_next (g c) = w_next c) ->
  chain h5 (match findw h5 p' with Some c => w_first c | None => None end) l' ->
  (forall k, In k l' <-> k = w \/ In k l) ->
  hinv D h5.
Proof.
  intros D h h5 p' cp l l' w cfin x g HI Hp Hc Ew Hcp Hcf Hcfo Hcr Hcc Hci Hdesc Hq Hr Hnw Hnq Hxl Hg Hgf Hgn Hc' Hperm.
  set (corph := set_next (set_parent cfin None) None).
  set (hv := alloc_heap h corph).
  assert (HIv : hinv D hv).
  { apply hinv_alloc; auto; unfold corph; cbn; auto. lia. }
  assert (Hfresh : findw h w = None).
  { destruct (findw h w) eqn:E; auto. exfalso. assert (Hl : findw h w <> None) by congruence.
    pose proof (hi_nextw D h HI w Hl). subst w. lia. }
  assert (Hxw : x <> w) by (intro E; subst x; congruence).
  assert (Hpw : p' <> w) by (intro E; subst p'; congruence).
  assert (Hplt : (p' < w)%positive).
  { assert (Hl : findw h p' <> None) by congruence. pose proof (hi_nextw D h HI p' Hl). subst w. exact H. }
  set (F := fun a c => if Pos.eqb a w then cfin else if Pos.eqb a x then g c else c).
  assert (Fv : forall a, findw hv a = if Pos.eqb a w then Some corph else findw h a).
  { intro a. destruct (Pos.eqb a w) eqn:E.
    - apply Pos.eqb_eq in E. subst a. rewrite Ew. apply findw_alloc_same.
    - apply Pos.eqb_neq in E. apply findw_alloc_other. rewrite <- Ew. exact E. }
  assert (CB : cells_by hv h5 F).
  { apply cells_by_intro; auto.
    intro a. rewrite Hdesc, Fv. unfold F. destruct (Pos.eqb a w) eqn:E1; [reflexivity|].
    destruct (Pos.eqb a x) eqn:E2; [|destruct (findw h a); reflexivity].
    destruct (findw h a); reflexivity. }
  assert (Hpv : findw hv p' = Some cp).
  { rewrite Fv. apply Pos.eqb_neq in Hpw. rewrite Hpw. exact Hp. }
  assert (Hwv : findw hv w = Some corph) by (rewrite Fv; rewrite Pos.eqb_refl; reflexivity).
  assert (Hcv : chain hv (w_first cp) l).
  { eapply chain_ext; eauto. intros a Ha.
    pose proof (chain_live h _ l Hc a Ha) as Hl. destruct (findw h a) as [ca|] eqn:Hf; [|congruence].
    exists ca, ca. rewrite Fv. assert (a <> w) by (intro E; subst a; congruence).
    apply Pos.eqb_neq in H. rewrite H. auto. }
  assert (HFw : F w corph = cfin) by (unfold F; rewrite Pos.eqb_refl; reflexivity).
  assert (Hwr : w <> root).
  { pose proof (hi_nextw_root D h HI). subst w. intro E. rewrite E in H. lia. }
  eapply (hinv_attach D hv h5 F p' cp w corph l l' HIv CB Hpv Hcv Hwv); auto.
  - intros a c Hf. unfold F. destruct (Pos.eqb a w) eqn:E1.
    + apply Pos.eqb_eq in E1. subst a. rewrite Hwv in Hf. inversion Hf; subst c. unfold corph. cbn.
      repeat split; auto; try congruence; intros; congruence.
    + apply Pos.eqb_neq in E1. destruct (Pos.eqb a x) eqn:E2.
      * apply Pos.eqb_eq in E2. subst a. destruct (Hg c) as [G1 [G2 [G3 [G4 G5]]]].
        split; [exact G2|]. split; [exact G4|]. split; [exact G5|]. split; [intros _; split; [exact G1|exact G3]|].
        split; [intro Hxp; apply Hgf; exact Hxp|]. intros Hin _. apply Hgn. exact Hin.
      * repeat split; auto.
  - rewrite HFw. exact Hcp.
  - rewrite HFw. exact Hcc.
  - assert (E : findw h5 p' = Some (F p' cp)) by (eapply cells_by_some; eauto).
    rewrite E in Hc'. exact Hc'.
Qed.

Lemma chain_prefix_gen : forall h h' l0 v z l2 l3 cz',
  chain h v (l0 ++ z :: l2) ->
  (forall a, In a l0 -> exists c c', findw h a = Some c /\ findw h' a = Some c' /\ w_next c' = w_next c) ->
  findw h' z = Some cz' -> chain h' (w_next cz') l3 ->
  chain h' v (l0 ++ z :: l3).
Proof.
  intros h h' l0; induction l0 as [|x l0 IH]; intros v z l2 l3 cz' Hc Hkeep Hz Hc3; cbn in *.
  - inversion Hc; subst. econstructor; eauto.
  - inversion Hc as [|x' cx l' Hfx Hcx]; subst.
    destruct (Hkeep x (or_introl eq_refl)) as [c [c' [H1 [H2 H3]]]]. rewrite Hfx in H1. inversion H1; subst c.
    econstructor; eauto. rewrite H3. eapply IH; eauto.
Qed.

(* the description of a heap in which the fresh cell [c3] exists but is not linked in yet *)
Definition fresh_cell (h h3 : heap) (w : positive) (c3 : wcell) : Prop :=
  (forall a, findw h3 a = if Pos.eqb a w then Some c3 else findw h a) /\
  reqs h3 = reqs h /\ rx h3 = rx h /\ nextw h3 = Pos.succ (nextw h) /\ nextq h3 = nextq h.

Lemma fresh_cell_upd : forall h h3 w c3 f, fresh_cell h h3 w c3 -> fresh_cell h (upd_cell h3 w f) w (f c3).
Proof.
  intros h h3 w c3 f [H1 [H2 [H3 [H4 H5]]]]. split; [|rewrite reqs_upd_cell, rx_upd_cell, nextw_upd_cell, nextq_upd_cell; auto].
  intro a. rewrite findw_upd_cell. destruct (Pos.eqb w a) eqn:E.
  - apply Pos.eqb_eq in E. subst a. rewrite Pos.eqb_refl. rewrite H1. rewrite Pos.eqb_refl. reflexivity.
  - rewrite H1. rewrite Pos.eqb_sym. rewrite E. reflexivity.
Qed.

Lemma window_new_spec : forall D fuel p hid low rp st h,
  hinv D h -> findw h p <> None ->
  hoare (fun h1 => h1 = h) (window_new fuel p hid low rp st)
    (fun w h' => hinv D h' /\ w = nextw h /\ preserved h h' /\
                 (exists cw p', findw h' w = Some cw /\ w_parent cw = Some p' /\ w_ref cw = 1 /\ w_closed cw = false /\
                    (if rp then exists ct, anc h p p' /\ findw h p' = Some ct /\ w_parent ct = None else p' = p)) /\
                 (forall a, a <> w -> (findw h' a = None <-> findw h a = None)) /\
                 (forall q, findq h' q = findq h q) /\ r_queue (rx h') = r_queue (rx h) /\
                 nextw h' = Pos.succ (nextw h)).
Proof.
  intros D fuel p hid low rp st h HI Hlp h0 E. subst h0. unfold window_new.
  (* the parent *)
  assert (Hpar : match (if rp then root_parent_walk fuel p else ret p) h with
                 | Ok p' h1 => h1 = h /\ findw h p' <> None /\
                     (if rp then exists ct, anc h p p' /\ findw h p' = Some ct /\ w_parent ct = None else p' = p)
                 | Fault _ _ => False | NoFuel => True end).
  { destruct rp.
    - pose proof (root_parent_walk_spec D fuel p h (conj HI Hlp)) as Hw.
      destruct (root_parent_walk fuel p h) as [t h1| |]; auto.
      destruct Hw as [Eh [ct [H1 [H2 H3]]]]. split; auto. split; [congruence|]. eauto.
    - cbn. auto. }
  unfold bind at 1.
  destruct ((if rp then root_parent_walk fuel p else ret p) h) as [p' h1| |]; [|contradiction|exact I].
  destruct Hpar as [Eh [Hlp' Hrp]]. subst h1.
  destruct (live_some h p' Hlp') as [cp Hp].
  destruct (hi_kids D h HI p' cp Hp) as [l [Hc Hl]].
  set (w := nextw h).
  assert (Hfresh : findw h w = None).
  { destruct (findw h w) eqn:Ef; auto. exfalso. assert (Hl' : findw h w <> None) by congruence.
    pose proof (hi_nextw D h HI w Hl'). unfold w in *. lia. }
  assert (Hpw : p' <> w) by (intro Ep; subst p'; congruence).
  (* the new cell, then its flags *)
  unfold bind at 1. unfold allocw.
  set (c0 := mkW (Some p') None None None 1 false false true false false [] false false).
  set (h1 := mkHeap (PM.add (nextw h) c0 (wins h)) (reqs h) (rx h) (Pos.succ (nextw h)) (nextq h) (dlog h) (uninit_seen h) (tr h)).
  fold w.
  assert (Fr1 : fresh_cell h h1 w c0).
  { split; [|repeat split; auto]. intro a. destruct (Pos.eqb a w) eqn:Ea.
    - apply Pos.eqb_eq in Ea. subst a. unfold findw, h1. cbn. apply PM.gss.
    - apply Pos.eqb_neq in Ea. unfold findw, h1. cbn. apply PM.gso. exact Ea. }
  assert (Hstep2 : exists h2 c2, (if hid then upd w (fun c => set_visible c false) else ret tt) h1 = Ok tt h2 /\
                    fresh_cell h h2 w c2 /\ same_links c0 c2 /\ w_ref c2 = 1).
  { destruct hid.
    - exists (upd_cell h1 w (fun c => set_visible c false)), (set_visible c0 false).
      split; [|split; [exact (fresh_cell_upd h h1 w c0 (fun c => set_visible c false) Fr1)|split; [repeat split|reflexivity]]].
      eapply upd_run. destruct Fr1 as [F1 _]. rewrite F1. rewrite Pos.eqb_refl. reflexivity.
    - exists h1, c0. split; [reflexivity|]. split; auto. split; [apply same_links_refl|reflexivity]. }
  destruct Hstep2 as [h2 [c2 [Hrun2 [Fr2 [SL2 Hr2]]]]].
  unfold bind at 1. rewrite Hrun2.
  assert (Hstep3 : exists h3 c3, (if st then upd w (fun c => set_steal c true) else ret tt) h2 = Ok tt h3 /\
                    fresh_cell h h3 w c3 /\ same_links c0 c3 /\ w_ref c3 = 1).
  { destruct st.
    - exists (upd_cell h2 w (fun c => set_steal c true)), (set_steal c2 true).
      split; [|split; [exact (fresh_cell_upd h h2 w c2 (fun c => set_steal c true) Fr2)|]].
      + eapply upd_run. destruct Fr2 as [F2 _]. rewrite F2. rewrite Pos.eqb_refl. reflexivity.
      + split; [|exact Hr2]. destruct SL2 as [S1 [S2 [S3 [S4 [S5 S6]]]]]. repeat split; auto.
    - exists h2, c2. split; [reflexivity|]. auto. }
  destruct Hstep3 as [h3 [c3 [Hrun3 [Fr3 [SL3 Hr3]]]]].
  unfold bind at 1. rewrite Hrun3.
  destruct SL3 as [S1 [S2 [S3 [S4 [S5 S6]]]]]. cbn in S1, S2, S3, S4, S5, S6.
  destruct Fr3 as [F3 [Q3 [R3 [NW3 NQ3]]]].
  assert (Hw3 : findw h3 w = Some c3) by (rewrite F3; rewrite Pos.eqb_refl; reflexivity).
  assert (Hp3 : findw h3 p' = Some cp).
  { rewrite F3. apply Pos.eqb_neq in Hpw. rewrite Hpw. exact Hp. }
  assert (Hold3 : forall a, a <> w -> findw h3 a = findw h a).
  { intros a Ha. rewrite F3. apply Pos.eqb_neq in Ha. rewrite Ha. reflexivity. }
  assert (Hc3 : chain h3 (w_first cp) l).
  { eapply chain_ext; eauto. intros a Ha.
    pose proof (chain_live h _ l Hc a Ha) as Hla. destruct (findw h a) as [ca|] eqn:Hfa; [|congruence].
    exists ca, ca. rewrite Hold3; [auto|]. intro Ea. subst a. congruence. }
  (* the link into the parent's chain *)
  unfold bind at 1. unfold do_change. unfold bind at 1.
  match goal with |- match match match ?m h3 with _ => _ end with _ => _ end with _ => _ end => set (M := m) end.
  assert (HM : M = if low then insert_last fuel p' w else insert_first p' w) by (unfold M; destruct low; reflexivity).
  rewrite HM. clear HM M.
  assert (Hins : match (if low then insert_last fuel p' w else insert_first p' w) h3 with
                 | Ok _ h5 => hinv D h5 /\ (exists c5, findw h5 w = Some c5 /\ w_parent c5 = Some p' /\ w_ref c5 = 1 /\
                                              w_closed c5 = false /\ w_visible c5 = w_visible c3) /\
                              (forall a c, findw h a = Some c -> exists c', findw h5 a = Some c' /\ w_parent c' = w_parent c /\
                                                                           w_ref c' = w_ref c /\ w_closed c' = w_closed c) /\
                              (forall a, a <> w -> (findw h5 a = None <-> findw h a = None)) /\
                              reqs h5 = reqs h /\ rx h5 = rx h /\ nextw h5 = Pos.succ (nextw h)
                 | Fault _ _ => False | NoFuel => True end).
  { destruct low.
    - (* INSERT_LAST *)
      unfold insert_last. unfold bind at 1.
      pose proof (last_slot_spec fuel p' cp [] l (SFirst p') h3) as Hls.
      assert (Hpre : findw h3 p' = Some cp /\ chain h3 (w_first cp) ([] ++ l) /\ slot_at p' [] (SFirst p')) by (repeat split; auto; left; auto).
      specialize (Hls Hpre).
      destruct (last_slot fuel (SFirst p') h3) as [s h3'| |]; [|contradiction|exact I].
      destruct Hls as [Eh Hs]. subst h3'. cbn in Hs.
      destruct (slot_at_val h3 p' cp l [] s Hp3) as [v [Hv Hcv]]; [rewrite app_nil_r; exact Hc3|exact Hs|].
      unfold bind at 1. rewrite (write_slot_run h3 s (Some w) v Hv).
      set (h4 := slot_upd h3 s (Some w)).
      (* the owner of the slot *)
      set (x := slot_owner s).
      set (g := match s with SFirst _ => (fun c => set_first c (Some w)) | SNext _ => (fun c => set_next c (Some w)) end).
      assert (Hh4 : h4 = upd_cell h3 x g) by (unfold h4, x, g; destruct s; reflexivity).
      assert (Hxcases : (l = [] /\ s = SFirst p' /\ x = p') \/ (exists l0 z, l = l0 ++ [z] /\ s = SNext z /\ x = z)).
      { destruct Hs as [[E1 E2]|[l0 [z [E1 E2]]]]; [left|right]; subst s; unfold x; cbn; eauto. }
      assert (Hxl : findw h x <> None /\ x <> w).
      { destruct Hxcases as [[_ [_ Ex]]|[l0 [z [El [_ Ex]]]]]; rewrite Ex.
        - split; [congruence|exact Hpw].
        - assert (Hin : In z l) by (rewrite El; apply in_or_app; right; left; reflexivity).
          apply Hl in Hin. destruct Hin as [cz [Hfz _]]. split; [congruence|]. intro Ez. subst z. congruence. }
      destruct Hxl as [Hxlive Hxw].
      assert (Hw4 : findw h4 w = Some c3).
      { rewrite Hh4. rewrite findw_upd_cell_other; auto. }
      rewrite (upd_run h4 w _ c3 Hw4).
      set (h5 := upd_cell h4 w (fun c => set_next c None)).
      assert (Hdesc : forall a, findw h5 a = if Pos.eqb a w then Some (set_next c3 None)
                                             else if Pos.eqb a x then option_map g (findw h a) else findw h a).
      { intro a. unfold h5. rewrite findw_upd_cell. rewrite Pos.eqb_sym. destruct (Pos.eqb a w) eqn:Ea.
        - apply Pos.eqb_eq in Ea. subst a. rewrite Hw4. reflexivity.
        - rewrite Hh4. rewrite findw_upd_cell. rewrite Pos.eqb_sym. destruct (Pos.eqb a x) eqn:Ex.
          + apply Pos.eqb_eq in Ex. subst a. rewrite (Hold3 x Hxw). reflexivity.
          + apply Pos.eqb_neq in Ea. apply Hold3. exact Ea. }
      assert (Hfr5 : reqs h5 = reqs h /\ rx h5 = rx h /\ nextw h5 = Pos.succ (nextw h) /\ nextq h5 = nextq h).
      { unfold h5. rewrite reqs_upd_cell, rx_upd_cell, nextw_upd_cell, nextq_upd_cell.
        rewrite Hh4. rewrite reqs_upd_cell, rx_upd_cell, nextw_upd_cell, nextq_upd_cell. auto. }
      destruct Hfr5 as [Q5 [R5 [NW5 NQ5]]].
      assert (Hgprops : forall c, w_parent (g c) = w_parent c /\ w_focus (g c) = w_focus c /\ w_closed (g c) = w_closed c /\
                                  w_isroot (g c) = w_isroot c /\ w_ref (g c) = w_ref c).
      { intro c. unfold g. destruct s; cbn; auto. }
      assert (Hw5 : findw h5 w = Some (set_next c3 None)) by (rewrite Hdesc; rewrite Pos.eqb_refl; reflexivity).
      assert (HI5 : hinv D h5).
      { eapply (hinv_new D h h5 p' cp l (l ++ [w]) w (set_next c3 None) x g); eauto; cbn; auto.
        - intros Hxp c. unfold g. destruct Hxcases as [[_ [_ Ex]]|[l0 [z [El [Es Ex]]]]]; [congruence|]. rewrite Es. reflexivity.
        - intros Hnin c. unfold g. destruct Hxcases as [[_ [Es Ex]]|[l0 [z [El [Es Ex]]]]]; [rewrite Es; reflexivity|].
          exfalso. apply Hnin. rewrite Ex, El. apply in_or_app. right. left. reflexivity.
        - (* the new chain *)
          assert (Hp5 : findw h5 p' = Some (if Pos.eqb p' x then g cp else cp)).
          { rewrite Hdesc. apply Pos.eqb_neq in Hpw. rewrite Hpw. rewrite Hp. destruct (Pos.eqb p' x); reflexivity. }
          rewrite Hp5.
          assert (Hwch : chain h5 (Some w) [w]).
          { econstructor; [exact Hw5|]. cbn. constructor. }
          destruct Hxcases as [[El [Es Ex]]|[l0 [z [El [Es Ex]]]]].
          + subst l. rewrite Ex. rewrite Pos.eqb_refl. unfold g. rewrite Es. cbn. exact Hwch.
          + assert (Hzp : Pos.eqb p' x = false).
            { apply Pos.eqb_neq. rewrite Ex. intro Ez.
              assert (Hin : In p' l) by (rewrite El, Ez; apply in_or_app; right; left; reflexivity).
              apply Hl in Hin. destruct Hin as [cz [Hfz Hpz]]. pose proof (hi_parent_lt D h HI p' cz p' Hfz Hpz). lia. }
            rewrite Hzp. rewrite El. rewrite <- app_assoc. cbn.
            assert (Hcl : chain h (w_first cp) (l0 ++ z :: [])) by (rewrite <- El; exact Hc).
            destruct (chain_prefix_notin h _ l0 z [] Hcl) as [Hnz _].
            assert (Hinz : In z l) by (rewrite El; apply in_or_app; right; left; reflexivity).
            apply Hl in Hinz. destruct Hinz as [cz [Hfz Hpz]].
            eapply chain_prefix_gen with (cz' := g cz); eauto.
            * intros a Ha. assert (Hina : In a l) by (rewrite El; apply in_or_app; left; exact Ha).
              pose proof (chain_live h _ l Hc a Hina) as Hla. destruct (findw h a) as [ca|] eqn:Hfa; [|congruence].
              exists ca, ca. split; auto. split; auto. rewrite Hdesc.
              assert (Haw : a <> w) by (intro Ea; subst a; congruence).
              assert (Hax : a <> x) by (rewrite Ex; intro Ea; subst a; contradiction).
              apply Pos.eqb_neq in Haw. apply Pos.eqb_neq in Hax. rewrite Haw, Hax. exact Hfa.
            * rewrite Hdesc. assert (Hzw : z <> w) by (intro Ez; subst z; congruence).
              apply Pos.eqb_neq in Hzw. rewrite Hzw. rewrite Ex. rewrite Pos.eqb_refl. rewrite Hfz. reflexivity.
            * unfold g. rewrite Es. cbn. exact Hwch.
        - intro k. split; intro Hin.
          + apply in_app_or in Hin. destruct Hin as [Hin|[Hin|[]]]; auto.
          + apply in_or_app. destruct Hin as [Hin|Hin]; [right; left; auto|left; auto]. }
      split; [exact HI5|]. split; [exists (set_next c3 None); cbn; repeat split; auto; congruence|].
      split; [|split; [|auto]].
      + intros a c Hfa. assert (Haw : a <> w) by (intro Ea; subst a; congruence).
        rewrite Hdesc. apply Pos.eqb_neq in Haw. rewrite Haw. destruct (Pos.eqb a x).
        * rewrite Hfa. cbn. destruct (Hgprops c) as [G1 [_ [G3 [_ G5]]]]. eauto 10.
        * eauto 10.
      + intros a Ha. rewrite Hdesc. apply Pos.eqb_neq in Ha. rewrite Ha. destruct (Pos.eqb a x); [|tauto].
        destruct (findw h a); cbn; split; congruence.
    - (* INSERT_FIRST *)
      unfold insert_first. unfold bind at 1. rewrite (getw_run h3 p' cp Hp3).
      unfold bind at 1. rewrite (upd_run h3 w _ c3 Hw3).
      set (h4 := upd_cell h3 w (fun c => set_next c (w_first cp))).
      assert (Hp4 : findw h4 p' = Some cp) by (unfold h4; rewrite findw_upd_cell_other; auto).
      rewrite (upd_run h4 p' _ cp Hp4).
      set (h5 := upd_cell h4 p' (fun c => set_first c (Some w))).
      set (g := fun c => set_first c (Some w)).
      assert (Hdesc : forall a, findw h5 a = if Pos.eqb a w then Some (set_next c3 (w_first cp))
                                             else if Pos.eqb a p' then option_map g (findw h a) else findw h a).
      { intro a. unfold h5. rewrite findw_upd_cell. rewrite Pos.eqb_sym. destruct (Pos.eqb a w) eqn:Ea.
        - apply Pos.eqb_eq in Ea. subst a. apply Pos.eqb_neq in Hpw. rewrite Pos.eqb_sym. rewrite Hpw.
          unfold h4. rewrite findw_upd_cell_same. rewrite Hw3. reflexivity.
        - destruct (Pos.eqb a p') eqn:Ep.
          + apply Pos.eqb_eq in Ep. subst a. rewrite Hp4. rewrite Hp. reflexivity.
          + unfold h4. rewrite findw_upd_cell. rewrite Pos.eqb_sym. rewrite Ea. apply Hold3. apply Pos.eqb_neq. exact Ea. }
      assert (Hfr5 : reqs h5 = reqs h /\ rx h5 = rx h /\ nextw h5 = Pos.succ (nextw h) /\ nextq h5 = nextq h).
      { unfold h5, h4. rewrite !reqs_upd_cell, !rx_upd_cell, !nextw_upd_cell, !nextq_upd_cell. auto. }
      destruct Hfr5 as [Q5 [R5 [NW5 NQ5]]].
      assert (Hw5 : findw h5 w = Some (set_next c3 (w_first cp))) by (rewrite Hdesc; rewrite Pos.eqb_refl; reflexivity).
      assert (HI5 : hinv D h5).
      { eapply (hinv_new D h h5 p' cp l (w :: l) w (set_next c3 (w_first cp)) p' g); eauto; cbn; auto.
        - intros Hne. congruence.
        - rewrite Hdesc. apply Pos.eqb_neq in Hpw. rewrite Hpw. rewrite Pos.eqb_refl. rewrite Hp. cbn.
          econstructor; [exact Hw5|]. cbn.
          eapply (chain_ext h h5); [exact Hc|]. intros a Ha.
          pose proof (chain_live h _ l Hc a Ha) as Hla. destruct (findw h a) as [ca|] eqn:Hfa; [|congruence].
          assert (Haw : Pos.eqb a w = false) by (apply Pos.eqb_neq; intro Ea; subst a; congruence).
          rewrite Hdesc. rewrite Haw. destruct (Pos.eqb a p').
          + rewrite Hfa. cbn. exists ca, (g ca). auto.
          + exists ca, ca. auto.
        - intro k. split; intros [Hk|Hk]; auto. }
      split; [exact HI5|]. split; [exists (set_next c3 (w_first cp)); cbn; repeat split; auto; congruence|].
      split; [|split; [|auto]].
      + intros a c Hfa. assert (Haw : a <> w) by (intro Ea; subst a; congruence).
        rewrite Hdesc. apply Pos.eqb_neq in Haw. rewrite Haw. destruct (Pos.eqb a p').
        * rewrite Hfa. cbn. eauto 10.
        * eauto 10.
      + intros a Ha. rewrite Hdesc. apply Pos.eqb_neq in Ha. rewrite Ha. destruct (Pos.eqb a p'); [|tauto].
        destruct (findw h a); cbn; split; congruence. }
  destruct ((if low then insert_last fuel p' w else insert_first p' w) h3) as [u5 h5| |]; [|contradiction|exact I].
  destruct Hins as [HI5 [[c5 [Hw5 [Hcp5 [Hcr5 [Hcc5 Hcv5]]]]] [Hold5 [Hdom5 [Q5 [R5 NW5]]]]]].
  (* the final expose, then the result *)
  unfold bind at 1. rewrite (getw_run h5 w c5 Hw5).
  assert (Hfin : forall h', rx_only h5 h' ->
     hinv D h' /\ w = nextw h /\ preserved h h' /\
     (exists cw p'0, findw h' w = Some cw /\ w_parent cw = Some p'0 /\ w_ref cw = 1 /\ w_closed cw = false /\
        (if rp then exists ct, anc h p p'0 /\ findw h p'0 = Some ct /\ w_parent ct = None else p'0 = p)) /\
     (forall a, a <> w -> (findw h' a = None <-> findw h a = None)) /\
     (forall q, findq h' q = findq h q) /\ r_queue (rx h') = r_queue (rx h) /\
     nextw h' = Pos.succ (nextw h)).
  { intros h' R. pose proof (rx_only_findw h5 h') as Fw'. destruct R as [Rw [Rq [Rqu [Rd [Rnw Rnq]]]]].
    assert (R : rx_only h5 h') by (repeat split; auto).
    split; [eapply hinv_rx_only; eauto|]. split; [reflexivity|]. split.
    - constructor.
      + intros a c Hfa. destruct (Hold5 a c Hfa) as [c' [H1 H2]]. exists c'. rewrite (Fw' a R). auto.
      + rewrite Rnw, NW5. lia.
    - split; [exists c5, p'; rewrite (Fw' w R); repeat split; auto|].
      split; [intros a Ha; rewrite (Fw' a R); apply Hdom5; exact Ha|].
      split; [intro q; unfold findq; rewrite Rq, Q5; reflexivity|]. split; [rewrite Rqu, R5; reflexivity|].
      rewrite Rnw. exact NW5. }
  destruct (w_visible c5).
  - assert (Hlp5 : findw h5 p' <> None).
    { destruct (Hold5 p' cp Hp) as [c' [H1 _]]. congruence. }
    pose proof (expose_spec D fuel p' h5 h5 (conj eq_refl (conj HI5 Hlp5))) as He.
    destruct (expose fuel p' h5) as [u6 h6| |]; [|contradiction|exact I]. cbn. apply Hfin. exact He.
  - cbn. apply Hfin. apply rx_only_refl.
Qed.

(* ---- raise / lower / raise_to_front / lower_to_back: a request is appended to the queue --------------------- *)
Lemma qchain_prefix_gen : forall h h' l0 v z l2 l3 cz',
  qchain h v (l0 ++ z :: l2) ->
  (forall a, In a l0 -> findq h' a = findq h a) ->
  findq h' z = Some cz' -> qchain h' (q_next cz') l3 ->
  qchain h' v (l0 ++ z :: l3).
Proof.
  intros h h' l0; induction l0 as [|x l0 IH]; intros v z l2 l3 cz' Hc Hkeep Hz Hc3; cbn in *.
  - inversion Hc; subst. econstructor; eauto.
  - inversion Hc as [|x' cx l' Hfx Hcx]; subst.
    econstructor; [rewrite (Hkeep x (or_introl eq_refl)); exact Hfx|]. eapply IH; eauto.
Qed.

Lemma queue_last_spec : forall fuel h hd ql,
  qchain h (Some hd) ql ->
  match queue_last fuel hd h with
  | Ok l h' => h' = h /\ exists ql0, ql = ql0 ++ [l]
  | Fault _ _ => False
  | NoFuel => True
  end.
Proof.
  induction fuel as [|f IH]; intros h hd ql Hc; cbn; [exact I|].
  inversion Hc as [|hd' c rest Hf Hrest]; subst.
  unfold bind. rewrite (getq_run h hd c Hf).
  destruct (q_next c) as [n|] eqn:Hn.
  - specialize (IH h n rest Hrest). destruct (queue_last f n h) as [l h'| |]; auto.
    destruct IH as [Eh [ql0 E]]. split; auto. exists (hd :: ql0). rewrite E. reflexivity.
  - cbn. split; auto. inversion Hrest; subst. exists []. reflexivity.
Qed.

(* _get_root on a heap with the same windows as one that satisfies the invariant *)
Lemma get_root_same_wins : forall D h h1 fuel w,
  hinv D h -> wins h1 = wins h -> anc h w root ->
  match get_root fuel w h1 with Ok r h2 => h2 = h1 /\ r = root | Fault _ _ => False | NoFuel => True end.
Proof.
  intros D h h1 fuel. induction fuel as [|f IH]; intros w HI Hw1 Hanc; cbn; [exact I|].
  pose proof (anc_live_l h w root Hanc) as Hl. destruct (findw h w) as [c|] eqn:Hf; [|congruence].
  assert (Hf1 : findw h1 w = Some c) by (unfold findw in *; rewrite Hw1; exact Hf).
  unfold bind. rewrite (getw_run h1 w c Hf1).
  rewrite (hi_isroot D h HI w c Hf). destruct (Pos.eqb w root) eqn:Er.
  - apply Pos.eqb_eq in Er. subst w. cbn. auto.
  - apply Pos.eqb_neq in Er. inversion Hanc as [a' c' Hf' | a' c' p0 b Hf' Hp' Hap]; subst; [congruence|].
    rewrite Hf in Hf'. inversion Hf'; subst c'. rewrite Hp'. apply IH; auto.
Qed.

Lemma request_change_spec : forall D fuel ch w cw h,
  hinv D h -> findw h w = Some cw -> (w_parent cw = None \/ anc h w root) -> is_restack ch = true ->
  hoare (fun h1 => h1 = h) (request_change fuel ch w)
        (fun _ h' => hinv D h' /\ wins h' = wins h /\ nextw h' = nextw h).
Proof.
  intros D fuel ch w cw h HI Hw Hpre Hrs h0 E. subst h0. unfold request_change.
  unfold bind at 1. rewrite (getw_run h w cw Hw).
  destruct (w_parent cw) as [p|] eqn:Hwp; [|cbn; auto].
  destruct Hpre as [Hpre|Hanc]; [discriminate|].
  unfold bind at 1. unfold allocq.
  set (q := nextq h).
  set (cq := mkQ ch (Some p) (Some w) None).
  set (h1 := mkHeap (wins h) (PM.add q cq (reqs h)) (rx h) (nextw h) (Pos.succ q) (dlog h) (uninit_seen h) (tr h)).
  assert (Hqfresh : findq h q = None).
  { destruct (findq h q) eqn:Ef; auto. exfalso. assert (Hl : findq h q <> None) by congruence.
    pose proof (hi_nextq D h HI q Hl). unfold q in *. lia. }
  assert (Fw1 : forall a, findw h1 a = findw h a) by reflexivity.
  assert (Fq1 : forall a, findq h1 a = if Pos.eqb a q then Some cq else findq h a).
  { intro a. unfold findq, h1. cbn. destruct (Pos.eqb a q) eqn:Ea.
    - apply Pos.eqb_eq in Ea. subst a. apply PM.gss.
    - apply Pos.eqb_neq in Ea. apply PM.gso. exact Ea. }
  (* _get_root does not abort: the window is attached to the root *)
  assert (Hanc1 : anc h1 w root) by (eapply anc_same_wins; [|exact Hanc]; reflexivity).
  assert (HIw : forall a b, anc h1 a b -> anc h a b) by (intros a b Ha; eapply anc_same_wins; [|exact Ha]; reflexivity).
  unfold bind at 1.
  pose proof (get_root_same_wins D h h1 fuel w HI eq_refl Hanc) as Hgr.
  destruct (get_root fuel w h1) as [r h2| |]; [|contradiction|exact I].
  destruct Hgr as [Eh Er]. subst h2 r.
  pose proof (anc_live_r h w root Hanc) as Hlr. destruct (findw h root) as [cr|] eqn:Hr; [|congruence].
  assert (Hir : w_isroot cr = true) by (rewrite (hi_isroot D h HI root cr Hr); apply Pos.eqb_refl).
  unfold bind at 1. rewrite (getr_run h1 root cr Hr Hir).
  destruct (hi_queue D h HI) as [ql [Hq1 [Hq2 Hq3]]].
  (* the entry for the new request *)
  assert (Hnewentry : exists x p0 cx, q_win cq = Some x /\ q_parent cq = Some p0 /\ findw h x = Some cx /\ w_parent cx = Some p0 /\ anc h x root).
  { exists w, p, cw. auto. }
  assert (Hfinish : forall h', wins h' = wins h -> nextw h' = nextw h -> r_drag (rx h') = r_drag (rx h) ->
            nextq h' = Pos.succ (nextq h) ->
            qchain h' (r_queue (rx h')) (ql ++ [q]) ->
            (forall a, findq h' a <> None <-> (a = q \/ findq h a <> None)) ->
            (forall a ca, findq h' a = Some ca -> a = q /\ q_win ca = Some w /\ q_parent ca = Some p /\ q_change ca = ch \/
                           exists ca0, findq h a = Some ca0 /\ q_win ca = q_win ca0 /\ q_parent ca = q_parent ca0 /\
                                       q_change ca = q_change ca0) ->
            hinv D h' /\ wins h' = wins h /\ nextw h' = nextw h).
  { intros h' Hw' Hnw' Hd' Hnq' Hc' Hlive' Hent'. split; [|auto].
    eapply hinv_set_queue; eauto.
    - intros a Ha. rewrite Hnq'. apply Hlive' in Ha. destruct Ha as [Ea|Ha]; [subst a; unfold q; lia|].
      pose proof (hi_nextq D h HI a Ha). lia.
    - intros a ca Hfa. destruct (Hent' a ca Hfa) as [[_ [_ [_ Ec]]]|[ca0 [H0 [_ [_ Ec]]]]].
      + rewrite Ec. exact Hrs.
      + rewrite Ec. exact (hi_qkind D h HI a ca0 H0).
    - exists (ql ++ [q]). split; [exact Hc'|]. split.
      + intro a. rewrite Hlive'. rewrite <- Hq2. split; intro Hin.
        * apply in_app_or in Hin. destruct Hin as [Hin|[Hin|[]]]; auto.
        * apply in_or_app. destruct Hin; [right; left; auto|left; auto].
      + intros a ca Hfa. destruct (Hent' a ca Hfa) as [[Ea [Ew [Ep _]]]|[ca0 [H0 [E1 [E2 _]]]]].
        * exists w, p, cw. auto.
        * destruct (Hq3 a ca0 H0) as [x [p0 [cx [G1 [G2 G3]]]]]. exists x, p0, cx. rewrite E1, E2. auto. }
  change (rx h1) with (rx h).
  destruct (r_queue (rx h)) as [hd|] eqn:Hhead.
  - (* append after the last request *)
    assert (Hc1 : qchain h1 (Some hd) ql).
    { eapply qchain_same; eauto. intros a Ha. rewrite Fq1.
      assert (Haq : a <> q) by (intro Ea; subst a; apply Hq2 in Ha; congruence).
      apply Pos.eqb_neq in Haq. rewrite Haq. reflexivity. }
    unfold bind at 1. pose proof (queue_last_spec fuel h1 hd ql Hc1) as Hql.
    destruct (queue_last fuel hd h1) as [lst h2| |]; [|contradiction|exact I].
    destruct Hql as [Eh [ql0 Eql]]. subst h2.
    assert (Hinl : In lst ql) by (rewrite Eql; apply in_or_app; right; left; reflexivity).
    assert (Hll : findq h lst <> None) by (apply Hq2; exact Hinl).
    destruct (findq h lst) as [cl|] eqn:Hfl; [|congruence].
    assert (Hlq : lst <> q) by (intro El; subst lst; congruence).
    assert (Hfl1 : findq h1 lst = Some cl) by (rewrite Fq1; apply Pos.eqb_neq in Hlq; rewrite Hlq; exact Hfl).
    unfold bind at 1. rewrite (getq_run h1 lst cl Hfl1).
    unfold setq. unfold findq in Hfl1. rewrite Hfl1.
    set (cl' := mkQ (q_change cl) (q_parent cl) (q_win cl) (Some q)).
    set (h' := mkHeap (wins h1) (PM.add lst cl' (reqs h1)) (rx h1) (nextw h1) (nextq h1) (dlog h1) (uninit_seen h1) (tr h1)).
    assert (Fq' : forall a, findq h' a = if Pos.eqb a lst then Some cl' else if Pos.eqb a q then Some cq else findq h a).
    { intro a. unfold findq, h'. cbn. destruct (Pos.eqb a lst) eqn:Ea.
      - apply Pos.eqb_eq in Ea. subst a. apply PM.gss.
      - apply Pos.eqb_neq in Ea. rewrite PM.gso by exact Ea. apply Fq1. }
    apply Hfinish; auto.
    + change (r_queue (rx h')) with (r_queue (rx h)). rewrite Hhead. rewrite Eql. rewrite <- app_assoc. cbn.
      rewrite Eql in Hq1.
      destruct (qchain_prefix_notin h _ ql0 lst [] Hq1) as [Hnl _].
      eapply qchain_prefix_gen with (cz' := cl'); eauto.
      * intros a Ha. rewrite Fq'.
        assert (Hal : a <> lst) by (intro Ea; subst a; contradiction).
        assert (Haq : a <> q).
        { intro Ea. subst a. assert (Hin : In q ql) by (rewrite Eql; apply in_or_app; left; exact Ha). apply Hq2 in Hin. congruence. }
        apply Pos.eqb_neq in Hal. apply Pos.eqb_neq in Haq. rewrite Hal, Haq. reflexivity.
      * rewrite Fq'. rewrite Pos.eqb_refl. reflexivity.
      * cbn. econstructor.
        -- rewrite Fq'. apply Pos.eqb_neq in Hlq. rewrite Pos.eqb_sym. rewrite Hlq. rewrite Pos.eqb_refl. reflexivity.
        -- cbn. constructor.
    + intro a. rewrite Fq'. destruct (Pos.eqb a lst) eqn:Ea.
      * apply Pos.eqb_eq in Ea. subst a. split; [intros _; right; congruence|intros _; discriminate].
      * destruct (Pos.eqb a q) eqn:Eq.
        -- apply Pos.eqb_eq in Eq. subst a. split; [auto|intros _; discriminate].
        -- apply Pos.eqb_neq in Eq. split; [auto|intros [Hx|Hx]; [congruence|exact Hx]].
    + intros a ca Hfa. rewrite Fq' in Hfa. destruct (Pos.eqb a lst) eqn:Ea.
      * apply Pos.eqb_eq in Ea. subst a. inversion Hfa; subst ca. right. exists cl. auto.
      * destruct (Pos.eqb a q) eqn:Eq.
        -- apply Pos.eqb_eq in Eq. subst a. inversion Hfa; subst ca. left. auto.
        -- right. eauto 10.
  - (* the queue was empty *)
    inversion Hq1; subst.
    unfold bind at 1. unfold setr, bind. rewrite (getw_run h1 root cr Hr). rewrite Hir.
    set (h2 := mkHeap (wins h1) (reqs h1) (set_rqueue (rx h) (Some q)) (nextw h1) (nextq h1) (dlog h1) (uninit_seen h1) (tr h1)).
    unfold request_later, updr, bind, getr, bind.
    assert (Hr2 : getw root h2 = Ok cr h2) by (apply getw_run; exact Hr).
    rewrite Hr2. rewrite Hir. unfold setr, bind. rewrite Hr2. rewrite Hir.
    match goal with |- hinv D ?hh /\ _ => set (h' := hh) end.
    apply Hfinish; auto.
    + cbn. eapply qchain_cons with (c := cq); [|cbn; constructor].
      change (findq h' q) with (findq h1 q). rewrite Fq1. rewrite Pos.eqb_refl. reflexivity.
    + intro a. change (findq h' a) with (findq h1 a). rewrite Fq1. destruct (Pos.eqb a q) eqn:Ea.
      * apply Pos.eqb_eq in Ea. subst a. split; [auto|intros _; discriminate].
      * apply Pos.eqb_neq in Ea. split; [auto|intros [Hx|Hx]; [congruence|exact Hx]].
    + intros a ca Hfa. change (findq h' a) with (findq h1 a) in Hfa. rewrite Fq1 in Hfa. destruct (Pos.eqb a q) eqn:Ea.
      * apply Pos.eqb_eq in Ea. subst a. inversion Hfa; subst ca. left. auto.
      * right. eauto 10.
Qed.

(* ---- calls that neither create nor free nor re-parent ------------------------------------------------------ *)
Record stable (h h' : heap) : Prop := mk_stable {
  st_wins : forall a, match findw h a, findw h' a with
                      | Some c, Some c' => w_parent c' = w_parent c /\ w_ref c' = w_ref c /\ w_closed c' = w_closed c
                      | None, None => True
                      | _, _ => False
                      end;
  st_nextw : nextw h' = nextw h
}.

Lemma stable_refl : forall h, stable h h.
Proof. intro h. constructor; auto. intro a. destruct (findw h a); auto. Qed.
Lemma stable_trans : forall h1 h2 h3, stable h1 h2 -> stable h2 h3 -> stable h1 h3.
Proof.
  intros h1 h2 h3 [W1 N1] [W2 N2]. constructor; [|congruence].
  intro a. specialize (W1 a). specialize (W2 a).
  destruct (findw h1 a), (findw h2 a), (findw h3 a); try contradiction; auto.
  destruct W1 as [A1 [A2 A3]]. destruct W2 as [B1 [B2 B3]]. repeat split; congruence.
Qed.
Lemma rx_only_stable : forall h h', rx_only h h' -> stable h h'.
Proof.
  intros h h' R. constructor.
  - intro a. rewrite (rx_only_findw h h' a R). destruct (findw h a); auto.
  - destruct R as [_ [_ [_ [_ [E _]]]]]. exact E.
Qed.
Lemma links_eq_stable : forall h h', links_eq h h' ->
  (forall a c c', findw h a = Some c -> findw h' a = Some c' -> w_ref c' = w_ref c) -> stable h h'.
Proof.
  intros h h' L Hr. constructor; [|apply (le_nextw h h' L)].
  intro a. pose proof (le_wins h h' L a) as H. destruct (findw h a) as [c|] eqn:Hf, (findw h' a) as [c'|] eqn:Hf'; auto.
  destruct H as [H1 [_ [_ [_ [H5 _]]]]]. repeat split; auto. eapply Hr; eauto.
Qed.
Lemma same_wins_stable : forall h h', wins h' = wins h -> nextw h' = nextw h -> stable h h'.
Proof.
  intros h h' Hw Hn. constructor; auto. intro a. unfold findw. rewrite Hw. destruct (PM.find a (wins h)); auto.
Qed.
Lemma cells_by_stable : forall h h' F, cells_by h h' F ->
  (forall a c, findw h a = Some c -> w_parent (F a c) = w_parent c /\ w_ref (F a c) = w_ref c /\ w_closed (F a c) = w_closed c) ->
  stable h h'.
Proof.
  intros h h' F CB HF. constructor; [|apply (cb_nextw h h' F CB)].
  intro a. rewrite (cb_wins h h' F CB). destruct (findw h a) as [c|] eqn:Hf; cbn; auto.
Qed.

(* the focus pointer of one window is rewritten *)
Lemma hinv_set_focus : forall D h p cp f,
  hinv D h -> findw h p = Some cp ->
  (forall x, f = Some x -> exists cx, findw h x = Some cx /\ w_parent cx = Some p) ->
  hinv D (upd_cell h p (fun c => set_focus c f)) /\ stable h (upd_cell h p (fun c => set_focus c f)).
Proof.
  intros D h p cp f HI Hp Hf.
  set (F := on p (fun c => set_focus c f)).
  assert (CB : cells_by h (upd_cell h p (fun c => set_focus c f)) F) by apply cells_by_on.
  assert (HF : forall a c, w_parent (F a c) = w_parent c /\ w_first (F a c) = w_first c /\ w_next (F a c) = w_next c /\
                           w_closed (F a c) = w_closed c /\ w_isroot (F a c) = w_isroot c /\ w_ref (F a c) = w_ref c).
  { intros a c. unfold F, on. destruct (Pos.eqb p a); cbn; auto 10. }
  split.
  - apply (hinv_cells_by D h _ F HI CB).
    + intros a c Hfa. destruct (HF a c) as [H1 [_ [_ [H4 [H5 H6]]]]]. rewrite H1, H4, H5, H6. repeat split; auto.
      * exact (hi_closed D h HI a c Hfa).
      * intro Hd. exact (hi_ref D h HI a c Hfa Hd).
    + intros a c Hfa. apply (kids_preserved D h _ F a c HI CB Hfa).
      * destruct (HF a c) as [_ [H2 _]]. exact H2.
      * intros k ck Hfk Hpk. destruct (HF k ck) as [H1 [_ [H3 _]]]. split; congruence.
      * intros k ck Hfk Hpk. destruct (HF k ck) as [H1 _]. congruence.
    + intros a c Hfa Hpa. destruct (HF a c) as [H1 [_ [H3 _]]]. rewrite H1 in Hpa. rewrite H3.
      exact (hi_orphan_next D h HI a c Hfa Hpa).
    + intros a c x Hfa Hd Hfo. unfold F, on in Hfo. destruct (Pos.eqb p a) eqn:Ea.
      * apply Pos.eqb_eq in Ea. subst a. cbn in Hfo. destruct (Hf x Hfo) as [cx [G1 G2]]. exists cx. split; auto.
        destruct (HF x cx) as [H1 _]. congruence.
      * destruct (hi_focus D h HI a c x Hfa Hd Hfo) as [cx [G1 G2]]. exists cx. split; auto.
        destruct (HF x cx) as [H1 _]. congruence.
    + intros q cq Hfq. destruct (hi_queue D h HI) as [ql [_ [_ Hq3]]].
      destruct (Hq3 q cq Hfq) as [x [px [cx [G1 [G2 [G3 [G4 G5]]]]]]]. exists x, px, cx. repeat split; auto.
      * destruct (HF x cx) as [H1 _]. congruence.
      * eapply cells_by_anc; eauto. intros a c Ha Hfa _. destruct (HF a c) as [H1 _]. exact H1.
    + apply (drag_kept D h _ F HI CB). intros a c Hfa. destruct (HF a c) as [H1 _]. exact H1.
  - eapply cells_by_stable; eauto. intros a c Hfa. destruct (HF a c) as [H1 [_ [_ [H4 [_ H6]]]]]. auto.
Qed.

Lemma stable_live : forall h h' a, stable h h' -> findw h a <> None -> findw h' a <> None.
Proof.
  intros h h' a S Hl. pose proof (st_wins h h' S a) as H.
  destruct (findw h a), (findw h' a); try congruence; contradiction.
Qed.

Lemma stable_preserved : forall h h', stable h h' -> preserved h h'.
Proof.
  intros h h' S. constructor.
  - intros a c Hf. pose proof (st_wins h h' S a) as H. rewrite Hf in H.
    destruct (findw h' a) as [c'|]; [|contradiction]. exists c'. tauto.
  - rewrite (st_nextw h h' S). lia.
Qed.

(* ---- tickit_window_show / tickit_window_hide ------------------------------------------------------------------ *)
Lemma visible_upd : forall D h w cw b,
  hinv D h -> findw h w = Some cw ->
  let h1 := upd_cell h w (fun c => set_visible c b) in
  hinv D h1 /\ stable h h1 /\ findw h1 w = Some (set_visible cw b) /\ links_eq h h1.
Proof.
  intros D h w cw b HI Hw h1.
  assert (L : links_eq h h1) by (apply links_eq_upd_cell; intros c _; repeat split).
  assert (Href : forall a c c', findw h a = Some c -> findw h1 a = Some c' -> w_ref c' = w_ref c).
  { intros a c c' Hf Hf'. unfold h1 in Hf'. rewrite findw_upd_cell in Hf'. destruct (Pos.eqb w a) eqn:Ea.
    - apply Pos.eqb_eq in Ea. subst a. rewrite Hf in Hf'. cbn in Hf'. inversion Hf'. reflexivity.
    - congruence. }
  split; [|split; [apply links_eq_stable; auto|split; [|exact L]]].
  - eapply hinv_links_eq; eauto. intros a c' Hf' Hd.
    destruct (links_eq_find_rev h h1 a c' L Hf') as [c [Hf _]]. rewrite (Href a c c' Hf Hf'). exact (hi_ref D h HI a c Hf Hd).
  - unfold h1. rewrite findw_upd_cell_same. rewrite Hw. reflexivity.
Qed.

Lemma window_show_spec : forall D fuel w h,
  hinv D h -> findw h w <> None ->
  hoare (fun h1 => h1 = h) (window_show fuel w) (fun _ h' => hinv D h' /\ stable h h').
Proof.
  intros D fuel w h HI Hlw h0 E. subst h0. destruct (live_some h w Hlw) as [cw Hw].
  unfold window_show. unfold bind at 1. rewrite (upd_run h w _ cw Hw).
  destruct (visible_upd D h w cw true HI Hw) as [HI1 [S1 [Hw1 L1]]].
  set (h1 := upd_cell h w (fun c => set_visible c true)) in *.
  unfold bind at 1. unfold bind at 1. rewrite (getw_run h1 w _ Hw1). cbn [w_parent set_visible].
  assert (Hmid : match (match w_parent cw with
                        | Some p => cp <- getw p ;;
                            match w_focus cp with
                            | Some _ => ret tt
                            | None => cw2 <- getw w ;;
                                (if match w_focus cw2 with Some _ => true | None => false end || w_focused cw2
                                 then upd p (fun c => set_focus c (Some w)) ;;; focus_chain_changed fuel (Some p) else ret tt)
                            end
                        | None => ret tt
                        end) h1 with
                 | Ok _ h2 => hinv D h2 /\ stable h1 h2
                 | Fault _ _ => False | NoFuel => True end).
  { destruct (w_parent cw) as [p|] eqn:Hwp; [|cbn; split; [exact HI1|apply stable_refl]].
    assert (Hwp1 : w_parent (set_visible cw true) = Some p) by exact Hwp.
    destruct (hinv_parent_live D h1 w _ p HI1 Hw1 Hwp1) as [cp Hp].
    unfold bind at 1. rewrite (getw_run h1 p cp Hp).
    destruct (w_focus cp); [cbn; split; [exact HI1|apply stable_refl]|].
    unfold bind at 1. rewrite (getw_run h1 w _ Hw1).
    match goal with |- match (if ?b then _ else _) h1 with _ => _ end => destruct b end;
      [|cbn; split; [exact HI1|apply stable_refl]].
    unfold bind. rewrite (upd_run h1 p _ cp Hp).
    destruct (hinv_set_focus D h1 p cp (Some w) HI1 Hp) as [HIa Sa].
    { intros x Ex. inversion Ex; subst x. eauto. }
    set (ha := upd_cell h1 p (fun c => set_focus c (Some w))) in *.
    pose proof (focus_chain_changed_spec D fuel (Some p) ha ha) as Hfc.
    assert (Hpa : findw ha p <> None) by (apply (stable_live h1 ha p Sa); congruence).
    assert (Hla : forall a, Some p = Some a -> findw ha a <> None) by (intros a Ea; inversion Ea; subst a; exact Hpa).
    specialize (Hfc (conj eq_refl (conj HIa Hla))).
    destruct (focus_chain_changed fuel (Some p) ha) as [ub hb| |]; [|contradiction|exact I].
    split; [eapply hinv_rx_only; eauto|]. eapply stable_trans; [exact Sa|]. apply rx_only_stable. exact Hfc. }
  match goal with |- match match ?m h1 with _ => _ end with _ => _ end => destruct (m h1) as [u2 h2| |] end; [|contradiction|exact I].
  destruct Hmid as [HI2 S2].
  pose proof (expose_spec D fuel w h2 h2 (conj eq_refl (conj HI2 (stable_live h h2 w (stable_trans _ _ _ S1 S2) Hlw)))) as He.
  destruct (expose fuel w h2) as [u3 h3| |]; [|contradiction|exact I].
  split; [eapply hinv_rx_only; eauto|].
  eapply stable_trans; [exact S1|]. eapply stable_trans; [exact S2|]. apply rx_only_stable. exact He.
Qed.

Lemma window_hide_spec : forall D fuel w h,
  hinv D h -> findw h w <> None ->
  hoare (fun h1 => h1 = h) (window_hide fuel w) (fun _ h' => hinv D h' /\ stable h h').
Proof.
  intros D fuel w h HI Hlw h0 E. subst h0. destruct (live_some h w Hlw) as [cw Hw].
  unfold window_hide. unfold bind at 1. rewrite (upd_run h w _ cw Hw).
  destruct (visible_upd D h w cw false HI Hw) as [HI1 [S1 [Hw1 L1]]].
  set (h1 := upd_cell h w (fun c => set_visible c false)) in *.
  unfold bind at 1. rewrite (getw_run h1 w _ Hw1). cbn [w_parent set_visible].
  destruct (w_parent cw) as [p|] eqn:Hwp; [|cbn; split; [exact HI1|exact S1]].
  assert (Hwp1 : w_parent (set_visible cw false) = Some p) by exact Hwp.
  destruct (hinv_parent_live D h1 w _ p HI1 Hw1 Hwp1) as [cp Hp].
  unfold bind at 1. rewrite (getw_run h1 p cp Hp).
  unfold bind at 1.
  assert (Hmid : match (if ptr_eqb (w_focus cp) (Some w)
                        then setw p (set_focus cp None) ;;; focus_chain_changed fuel (Some p) else ret tt) h1 with
                 | Ok _ h2 => hinv D h2 /\ stable h1 h2
                 | Fault _ _ => False | NoFuel => True end).
  { destruct (ptr_eqb (w_focus cp) (Some w)); [|cbn; split; [exact HI1|apply stable_refl]].
    unfold bind. rewrite (setw_run h1 p cp _ Hp).
    assert (Eh : upd_cell h1 p (fun _ => set_focus cp None) = upd_cell h1 p (fun c => set_focus c None)).
    { unfold upd_cell. rewrite Hp. reflexivity. }
    rewrite Eh. destruct (hinv_set_focus D h1 p cp None HI1 Hp) as [HIa Sa]; [intros x Ex; discriminate|].
    set (ha := upd_cell h1 p (fun c => set_focus c None)) in *.
    pose proof (focus_chain_changed_spec D fuel (Some p) ha ha) as Hfc.
    assert (Hpa : findw ha p <> None) by (apply (stable_live h1 ha p Sa); congruence).
    assert (Hla : forall a, Some p = Some a -> findw ha a <> None) by (intros a Ea; inversion Ea; subst a; exact Hpa).
    specialize (Hfc (conj eq_refl (conj HIa Hla))).
    destruct (focus_chain_changed fuel (Some p) ha) as [ub hb| |]; [|contradiction|exact I].
    split; [eapply hinv_rx_only; eauto|]. eapply stable_trans; [exact Sa|]. apply rx_only_stable. exact Hfc. }
  destruct ((if ptr_eqb (w_focus cp) (Some w)
             then setw p (set_focus cp None) ;;; focus_chain_changed fuel (Some p) else ret tt) h1) as [u2 h2| |]; [|contradiction|exact I].
  destruct Hmid as [HI2 S2].
  assert (Hlp2 : findw h2 p <> None) by (apply (stable_live h1 h2 p S2); congruence).
  pose proof (expose_spec D fuel p h2 h2 (conj eq_refl (conj HI2 Hlp2))) as He.
  destruct (expose fuel p h2) as [u3 h3| |]; [|contradiction|exact I].
  split; [eapply hinv_rx_only; eauto|].
  eapply stable_trans; [exact S1|]. eapply stable_trans; [exact S2|]. apply rx_only_stable. exact He.
Qed.

(* ---- tickit_window_take_focus: _focus_lost / _focus_gained ------------------------------------------------------ *)
Definition flags_only (h h' : heap) : Prop :=
  links_eq h h' /\ forall a c c', findw h a = Some c -> findw h' a = Some c' -> w_ref c' = w_ref c.

Lemma flags_only_refl : forall h, flags_only h h.
Proof. intro h. split; [apply links_eq_refl|]. intros a c c' H1 H2. congruence. Qed.
Lemma flags_only_trans : forall h1 h2 h3, flags_only h1 h2 -> flags_only h2 h3 -> flags_only h1 h3.
Proof.
  intros h1 h2 h3 [L1 R1] [L2 R2]. split; [eapply links_eq_trans; eauto|].
  intros a c c' H1 H3. destruct (links_eq_find h1 h2 a c L1 H1) as [c2 [H2 _]].
  rewrite (R2 a c2 c' H2 H3). apply (R1 a c c2 H1 H2).
Qed.
Lemma flags_only_hinv : forall D h h', hinv D h -> flags_only h h' -> hinv D h'.
Proof.
  intros D h h' HI [L R]. eapply hinv_links_eq; eauto. intros a c' Hf' Hd.
  destruct (links_eq_find_rev h h' a c' L Hf') as [c [Hf _]]. rewrite (R a c c' Hf Hf'). exact (hi_ref D h HI a c Hf Hd).
Qed.
Lemma flags_only_stable : forall h h', flags_only h h' -> stable h h'.
Proof. intros h h' [L R]. apply links_eq_stable; auto. Qed.
Lemma flags_only_upd : forall h a f, (forall c, same_links c (f c) /\ w_ref (f c) = w_ref c) -> flags_only h (upd_cell h a f).
Proof.
  intros h a f Hf. split; [apply links_eq_upd_cell; intros c _; apply Hf|].
  intros b c c' H1 H2. rewrite findw_upd_cell in H2. destruct (Pos.eqb a b) eqn:E.
  - apply Pos.eqb_eq in E. subst b. rewrite H1 in H2. cbn in H2. inversion H2. apply Hf.
  - congruence.
Qed.

Lemma stable_anc : forall h h' a b, stable h h' -> anc h a b -> anc h' a b.
Proof.
  intros h h' a b S Ha. induction Ha as [a c Hf | a c p b Hf Hp Ha IH].
  - pose proof (st_wins h h' S a) as H. rewrite Hf in H. destruct (findw h' a) as [c'|] eqn:Hf'; [|contradiction].
    eapply anc_refl; eauto.
  - pose proof (st_wins h h' S a) as H. rewrite Hf in H. destruct (findw h' a) as [c'|] eqn:Hf'; [|contradiction].
    destruct H as [H1 _]. eapply anc_step; eauto. congruence.
Qed.

Lemma stable_child : forall h h' k ck p, stable h h' -> findw h k = Some ck -> w_parent ck = Some p ->
  exists ck', findw h' k = Some ck' /\ w_parent ck' = Some p.
Proof.
  intros h h' k ck p S Hf Hp. pose proof (st_wins h h' S k) as H. rewrite Hf in H.
  destruct (findw h' k) as [c'|]; [|contradiction]. exists c'. split; auto. destruct H as [H1 _]. congruence.
Qed.
