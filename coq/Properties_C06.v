(* Property C06: rectangle intersection, union-split and subtraction are exact for all
   pairs.  This file contains nothing but the property theorems, each closed by
   [exact <lemma>] and followed by Print Assumptions. *)
From Coq Require Import ZArith List.
From Tickit Require Import RectDefs RectSpec RectProofs RectSpecProofs.
Local Open Scope Z_scope.

Theorem C06_intersect_some : forall a b r, r_intersect a b = Some r ->
  nonempty r /\ forall p, cell_in r p <-> cell_in a p /\ cell_in b p.
Proof. exact intersect_some. Qed.
Print Assumptions C06_intersect_some.

Theorem C06_intersect_none : forall a b, r_intersect a b = None ->
  forall p, ~ (cell_in a p /\ cell_in b p).
Proof. exact intersect_none. Qed.
Print Assumptions C06_intersect_none.

Theorem C06_add : forall a b, nonempty a -> nonempty b ->
  (length (r_add a b) <= 3)%nat /\ all_nonempty (r_add a b) /\ pairwise_disjoint (r_add a b) /\
  forall p, covered (r_add a b) p <-> cell_in a p \/ cell_in b p.
Proof. exact add_ok. Qed.
Print Assumptions C06_add.

Theorem C06_subtract : forall a b, nonempty a -> nonempty b ->
  (length (r_subtract a b) <= 4)%nat /\ all_nonempty (r_subtract a b) /\
  pairwise_disjoint (r_subtract a b) /\
  forall p, covered (r_subtract a b) p <-> cell_in a p /\ ~ cell_in b p.
Proof. exact subtract_ok. Qed.
Print Assumptions C06_subtract.

Theorem C06_intersects : forall a b, nonempty a -> nonempty b ->
  (r_intersects a b = true <-> exists p, cell_in a p /\ cell_in b p).
Proof. exact intersects_iff. Qed.
Print Assumptions C06_intersects.

Theorem C06_contains : forall large small, nonempty small ->
  (r_contains large small = true <-> forall p, cell_in small p -> cell_in large p).
Proof. exact contains_iff. Qed.
Print Assumptions C06_contains.

(* The oracle used on the implementation's outputs is sound: a [true] verdict of the
   coordinate-compressed boolean checker implies the cell-wise specification for all cells. *)
Theorem C06_oracle_add_sound : forall a b s, add_checkb a b s = true ->
  (length s <= 3)%nat /\ all_nonempty s /\ pairwise_disjoint s /\
  forall p, covered s p <-> cell_in a p \/ cell_in b p.
Proof. exact add_checkb_sound. Qed.
Print Assumptions C06_oracle_add_sound.

Theorem C06_oracle_subtract_sound : forall a b s, subtract_checkb a b s = true ->
  (length s <= 4)%nat /\ all_nonempty s /\ pairwise_disjoint s /\
  forall p, covered s p <-> cell_in a p /\ ~ cell_in b p.
Proof. exact subtract_checkb_sound. Qed.
Print Assumptions C06_oracle_subtract_sound.

(* non-vacuity: concrete rectangles meeting the hypotheses, with a 3-piece union *)
Example C06_nonvacuous :
  nonempty (mkRect 0 0 2 2) /\ nonempty (mkRect 1 1 2 2) /\
  length (r_add (mkRect 0 0 2 2) (mkRect 1 1 2 2)) = 3%nat /\
  length (r_subtract (mkRect 0 0 3 3) (mkRect 1 1 1 1)) = 4%nat.
Proof. exact RectProofs.nonvacuous. Qed.
