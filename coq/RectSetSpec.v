(* RectSetSpec.v -- specification of property C05 and its executable (boolean) form, the
   oracle that is run on the implementation's own observations.

   Reference region: a history of operations denotes a set of cells of the plane,
   obtained by folding set union / set difference / shift / empty over the history.
   [region_spec] is the Prop form (theorems), [regionb] the boolean form (oracle); they
   agree cell by cell (RectSetProofs.regionb_iff).

   What the property demands of the array reported after each operation:
     every rectangle non-empty, no cell covered twice, sorted by (top, left), and
     covered cells = cells of the reference region;
   and of the two queries: contains q  <->  every cell of q is in the region,
                           intersects q <->  some cell of q is in the region.

   The oracle decides the statements about ALL cells by coordinate compression (proved
   sound in RectSetOracle.v: case_checkb_sound), as
   RectSpec.v does: membership of a cell in each rectangle involved (every input
   rectangle of the history carried along in current coordinates, every reported
   rectangle, the query) is constant on the elementary intervals between consecutive edge
   values, and each non-empty elementary interval starts at an edge value, so testing
   the cells whose coordinates are edge values decides the statement for all cells. *)
From Coq Require Import ZArith List Bool.
From Tickit Require Import RectDefs RectSpec RectSetDefs.
Import ListNotations.
Local Open Scope Z_scope.

(* ---- reference region, Prop form ---- *)
Definition region := cell -> Prop.

Definition region_step (R : region) (o : op) : region :=
  match o with
  | OAdd r => fun p => R p \/ cell_in r p
  | OSub r => fun p => R p /\ ~ cell_in r p
  | OTranslate d rw => fun p => R (fst p - d, snd p - rw)
  | OClear => fun _ => False
  end.

Definition region_from (R : region) (ops : list op) : region := fold_left region_step ops R.
Definition region_spec (ops : list op) : region := region_from (fun _ => False) ops.

(* ---- reference region, boolean form ---- *)
Definition regionb_step (R : cell -> bool) (o : op) : cell -> bool :=
  match o with
  | OAdd r => fun p => R p || cell_inb r p
  | OSub r => fun p => R p && negb (cell_inb r p)
  | OTranslate d rw => fun p => R (fst p - d, snd p - rw)
  | OClear => fun _ => false
  end.

Definition regionb (ops : list op) : cell -> bool := fold_left regionb_step ops (fun _ => false).

(* the history's input rectangles, carried along in the current coordinate system *)
Definition inputs_step (inp : list rect) (o : op) : list rect :=
  match o with
  | OAdd r => r :: inp
  | OSub r => r :: inp
  | OTranslate d rw => map (fun x => r_translate x d rw) inp
  | OClear => []
  end.

(* ---- order ---- *)
Definition key_le (a b : rect) : Prop := top a < top b \/ (top a = top b /\ left a <= left b).
Definition key_leb (a b : rect) : bool := (top a <? top b) || ((top a =? top b) && (left a <=? left b)).

Fixpoint pairwise {A} (P : A -> A -> Prop) (s : list A) : Prop :=
  match s with
  | [] => True
  | a :: rest => Forall (P a) rest /\ pairwise P rest
  end.

(* every earlier element's key is <= every later element's key *)
Definition sorted (s : list rect) : Prop := pairwise key_le s.

Fixpoint sortedb (s : list rect) : bool :=
  match s with
  | [] => true
  | a :: rest => match rest with [] => true | b :: _ => key_leb a b end && sortedb rest
  end.

(* ---- the invariant of the array ----
   [sep a b]: the row ranges do not overlap, or there is at least one free column between
   the two.  It implies that a and b have no common cell, and it is what makes the
   order-dependent tickit_rectset_contains exact (two members that touched horizontally
   with overlapping row ranges would defeat it: {(0,5,10,5),(1,0,5,5)} answers false for
   the covered query (2,3,1,4)).  tickit_rectset_add establishes it because such a pair
   always takes the split-and-recurse branch. *)
Definition sep (a b : rect) : Prop :=
  bottom a <= top b \/ bottom b <= top a \/ right a < left b \/ right b < left a.

(* [novm a b]: a and b are not stacked directly on top of each other with the same column
   range (such a pair would have been stretched into one rectangle by the add that brought
   the second one in).  tickit_rectset_subtract relies on it: it keeps the number of
   members sorting before the one being processed constant while the remains are re-added,
   so that no unprocessed member can slide below the loop index. *)
Definition novm (a b : rect) : Prop :=
  ~ (left a = left b /\ right a = right b /\ (bottom a = top b \/ bottom b = top a)).

Definition sepx (a b : rect) : Prop := sep a b /\ novm a b.

Definition Inv (s : list rect) : Prop :=
  Forall nonempty s /\ pairwise sepx s /\ sorted s.

(* ---- representative cells (deduplicated edge values) ---- *)
Definition rep_cells_nd (s : list rect) : list cell :=
  let ys := nodup Z.eq_dec (yedges s) in
  let xs := nodup Z.eq_dec (xedges s) in
  flat_map (fun y => map (fun x => (y, x)) xs) ys.

(* the reported array [s] against the region [R] whose input rectangles are [inp] *)
Definition state_checkb (inp : list rect) (R : cell -> bool) (s : list rect) : bool :=
  forallb nonemptyb s && sortedb s &&
  forallb (fun p => Nat.leb (count_cover s p) 1 && Bool.eqb (coveredb s p) (R p))
          (rep_cells_nd (inp ++ s)).

Definition query_checkb (inp : list rect) (R : cell -> bool) (q : rect) (ans : bool * bool) : bool :=
  let cells := rep_cells_nd (q :: inp) in
  Bool.eqb (fst ans) (forallb (fun p => implb (cell_inb q p) (R p)) cells) &&
  Bool.eqb (snd ans) (existsb (fun p => cell_inb q p && R p) cells).

Fixpoint forallb2 {A B} (f : A -> B -> bool) (la : list A) (lb : list B) : bool :=
  match la, lb with
  | [], [] => true
  | a :: ra, b :: rb => f a b && forallb2 f ra rb
  | _, _ => false
  end.

(* the whole observation list of a case against the specification *)
Fixpoint history_checkb (inp : list rect) (R : cell -> bool) (cs : list cmd) (os : list obs) : bool :=
  match cs, os with
  | [], [] => true
  | COp o :: cs', ObsState s :: os' =>
      let inp' := inputs_step inp o in
      let R' := regionb_step R o in
      state_checkb inp' R' s && history_checkb inp' R' cs' os'
  | CQuery qs :: cs', ObsQuery ans :: os' =>
      forallb2 (query_checkb inp R) qs ans && history_checkb inp R cs' os'
  | CFan ops :: cs', ObsFan ss :: os' =>
      forallb2 (fun o so => match so with
                            | Some s => state_checkb (inputs_step inp o) (regionb_step R o) s
                            | None => false
                            end) ops ss
      && history_checkb inp R cs' os'
  | _, _ => false
  end.

Definition case_checkb (cs : list cmd) (os : list obs) : bool :=
  history_checkb [] (fun _ => false) cs os.
