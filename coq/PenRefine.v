(* PenRefine.v -- every history over three pens refines the dictionary specification, and
   the oracle accepts what the model produces (C19). *)
From Coq Require Import ZArith List Bool Lia.
From Tickit Require Import Gen_Colours PenDefs PenSpec PenProofs PenDescProofs.
Import ListNotations.
Local Open Scope Z_scope.

Definition abs_slot (o : option value) : slot :=
  match o with Some v => Present v | None => Absent end.

(* the dictionary describes the pen wherever it claims to know *)
Definition refines (s : spen) (p : pen) : Prop :=
  forall a, s a = Unknown \/ s a = abs_slot (lookup p a).

Lemma attr_eqb_eq a b : attr_eqb a b = true <-> a = b.
Proof. destruct a, b; cbn; split; intros H; try reflexivity; try discriminate. Qed.

Lemma upd_real s a x a' : real a -> upd s a x a' = if attr_eqb a a' then x else s a'.
Proof. intros H. destruct a; try reflexivity. contradiction H; reflexivity. Qed.

Lemma upd_other s x : forall a', upd s AOther x a' = s a'.
Proof. reflexivity. Qed.

Lemma refines_upd s p p' a x : refines s p -> real a ->
  (forall a', a <> a' -> lookup p' a' = lookup p a') ->
  (x = Unknown \/ x = abs_slot (lookup p' a)) -> refines (upd s a x) p'.
Proof.
  intros Hr Ha Hframe Hx a'. rewrite upd_real by exact Ha.
  destruct (attr_eqb a a') eqn:E.
  - apply attr_eqb_eq in E. subst a'. exact Hx.
  - assert (a <> a') by (intros ->; rewrite (proj2 (attr_eqb_eq a' a') eq_refl) in E; discriminate).
    rewrite Hframe by assumption. apply Hr.
Qed.

Lemma refines_put s p p' a v : refines s p -> real a ->
  (forall a', a <> a' -> lookup p' a' = lookup p a') ->
  (representable a v = true -> lookup p' a = Some v) -> refines (put s a v) p'.
Proof.
  intros Hr Ha Hframe Hv. unfold put. apply (refines_upd s p p' a); try assumption.
  destruct (representable a v); [right; rewrite Hv by reflexivity; reflexivity|left; reflexivity].
Qed.

Lemma refines_unknown s p p' a : refines s p ->
  (forall a', a <> a' -> lookup p' a' = lookup p a') -> (a = AOther -> p' = p) ->
  refines (upd s a Unknown) p'.
Proof.
  intros Hr Hframe Ho. destruct (attr_eq_dec a AOther) as [->|Hne].
  - rewrite (Ho eq_refl). intros a'. apply Hr.
  - apply (refines_upd s p p' a); auto.
Qed.

(* ---- per operation ---- *)

Lemma refines_set_bool s p a b : refines s p -> refines (s_set_bool s a b) (set_bool p a b).
Proof.
  intros Hr. unfold s_set_bool.
  destruct (attr_type a) eqn:Et.
  - assert (Ha : real a) by (intros ->; discriminate).
    apply (refines_put s p); [exact Hr|exact Ha|apply set_bool_frame|].
    intros Hrep. apply (set_then_get p a (VBool b) Hrep).
  - destruct a; try discriminate.
    + (* UNDER *) apply (refines_put s p); [exact Hr|discriminate|apply set_bool_frame|].
      intros _. apply set_bool_under.
    + eapply refines_unknown; [exact Hr|apply set_bool_frame|discriminate].
    + eapply refines_unknown; [exact Hr|apply set_bool_frame|discriminate].
  - destruct a; try discriminate; eapply refines_unknown; try exact Hr; try apply set_bool_frame; discriminate.
  - destruct a; try discriminate. eapply refines_unknown; [exact Hr|apply set_bool_frame|reflexivity].
Qed.

Lemma refines_set_int s p a z : refines s p -> refines (s_set_int s a z) (set_int p a z).
Proof.
  intros Hr. unfold s_set_int.
  destruct (attr_type a) eqn:Et;
    try (eapply refines_unknown; [exact Hr|apply set_int_frame|intros ->; reflexivity]).
  assert (Ha : real a) by (intros ->; discriminate).
  apply (refines_put s p); [exact Hr|exact Ha|apply set_int_frame|].
  intros Hrep. apply (set_then_get p a (VInt z) Hrep).
Qed.

Lemma refines_set_colour s p a z : refines s p -> refines (s_set_colour s a z) (set_colour p a z).
Proof.
  intros Hr. unfold s_set_colour.
  destruct (attr_type a) eqn:Et;
    try (eapply refines_unknown; [exact Hr|apply set_colour_frame|intros ->; reflexivity]).
  assert (Ha : real a) by (intros ->; discriminate).
  apply (refines_put s p); [exact Hr|exact Ha|apply set_colour_frame|].
  intros Hrep. apply (set_then_get p a (VCol z None) Hrep).
Qed.

Lemma set_rgb_other p c : set_rgb p AOther c = p.
Proof. reflexivity. Qed.

Lemma refines_set_rgb s p a c : refines s p -> refines (s_set_rgb s a c) (set_rgb p a c).
Proof.
  intros Hr. unfold s_set_rgb.
  destruct (attr_type a) eqn:Et;
    try (eapply refines_unknown; [exact Hr|apply set_rgb_frame|intros ->; reflexivity]).
  assert (Ha : real a) by (intros ->; discriminate).
  destruct (s a) as [|v|] eqn:Es.
  - (* absent in the dictionary: the pen does not have it, nothing happens *)
    destruct (Hr a) as [H|H]; [congruence|]. rewrite Es in H.
    assert (Hl : lookup p a = None) by (destruct (lookup p a); [discriminate|reflexivity]).
    assert (Hh : has_attr p a = false).
    { unfold lookup in Hl. destruct (has_attr p a); [discriminate|reflexivity]. }
    rewrite set_rgb_absent by exact Hh. exact Hr.
  - destruct v as [b|z|i o];
      try (eapply refines_unknown; [exact Hr|apply set_rgb_frame|intros ->; reflexivity]).
    destruct (Hr a) as [H|H]; [congruence|]. rewrite Es in H.
    assert (Hl : lookup p a = Some (VCol i o)).
    { destruct (lookup p a); cbn in H; [injection H as <-; reflexivity|discriminate]. }
    apply (refines_put s p); [exact Hr|exact Ha|apply set_rgb_frame|].
    intros _. apply (set_rgb_present p a c i o Et Hl).
  - eapply refines_unknown; [exact Hr|apply set_rgb_frame|intros ->; reflexivity].
Qed.

Lemma refines_clear_attr s p a : refines s p -> refines (s_clear_attr s a) (clear_attr p a).
Proof.
  intros Hr. unfold s_clear_attr. destruct (attr_eq_dec a AOther) as [->|Hne].
  - intros a'. apply Hr.
  - apply (refines_upd s p); [exact Hr|exact Hne|apply clear_attr_frame|].
    right. rewrite clear_attr_at. reflexivity.
Qed.

Lemma refines_empty p : (forall a, lookup p a = None) -> refines s_empty p.
Proof. intros H a. right. rewrite H. reflexivity. Qed.

Lemma refines_copy sd ss pd ps ow : wf ps -> refines sd pd -> refines ss ps ->
  refines (s_copy sd ss ow) (copy pd ps ow).
Proof.
  intros Hwf Hd Hs a. unfold s_copy. rewrite copy_spec by exact Hwf.
  destruct (Hs a) as [Hsa|Hsa]; destruct (Hd a) as [Hda|Hda]; rewrite Hsa, Hda.
  - left. reflexivity.
  - destruct (lookup pd a) as [w|]; cbn [abs_slot s_copy_slot].
    + destruct ow; [left; reflexivity|]. right.
      destruct (lookup ps a); reflexivity.
    + left; reflexivity.
  - destruct (lookup ps a) as [v|]; cbn [abs_slot s_copy_slot copy_entry].
    + destruct ow; [right|left]; [|reflexivity].
      destruct (lookup pd a); reflexivity.
    + left. reflexivity.
  - right. destruct (lookup ps a) as [v|], (lookup pd a) as [w|]; cbn [abs_slot s_copy_slot copy_entry];
      try reflexivity. destruct ow; reflexivity.
Qed.

Lemma copy_attr_other d s : copy_attr d s AOther = d.
Proof. reflexivity. Qed.

Lemma copy_attr_self_frame p : forall a a', a <> a' -> lookup (copy_attr_self p a) a' = lookup p a'.
Proof.
  intros a a' Hne. unfold copy_attr_self. destruct (attr_type a).
  - apply set_bool_frame; exact Hne.
  - apply set_int_frame; exact Hne.
  - destruct (has_rgb _ a).
    + rewrite set_rgb_frame by exact Hne. apply set_colour_frame; exact Hne.
    + apply set_colour_frame; exact Hne.
  - reflexivity.
Qed.

Lemma refines_clone s p g : wf p -> refines s p -> refines s (clone p g).
Proof.
  intros Hwf Hr a. rewrite clone_lookup by exact Hwf. apply Hr.
Qed.

Lemma set_desc_frame p a d : forall a', a <> a' -> lookup (snd (set_desc p a d)) a' = lookup p a'.
Proof.
  intros a' Hne. unfold set_desc, set_desc_gen. destruct (parse_desc_gen true d) as [[v [c|]]|]; cbn [snd].
  - rewrite set_rgb_frame by exact Hne. apply set_colour_frame; exact Hne.
  - apply set_colour_frame; exact Hne.
  - reflexivity.
Qed.

Lemma set_desc_noncolour p a d : attr_type a <> TColour -> snd (set_desc p a d) = p.
Proof.
  intros Ht. unfold set_desc, set_desc_gen. destruct (parse_desc_gen true d) as [[v o]|]; cbn [snd]; [|reflexivity].
  assert (Hc : set_colour p a v = p) by (destruct a; try reflexivity; contradiction Ht; reflexivity).
  rewrite Hc. destruct o as [c|]; [|reflexivity].
  unfold set_rgb. destruct (negb (has_attr p a)); [reflexivity|].
  destruct a; try reflexivity; contradiction Ht; reflexivity.
Qed.

Lemma refines_set_desc s p a d : refines s p ->
  refines (s_set_desc s a d (fst (set_desc p a d))) (snd (set_desc p a d)) /\
  (attr_type a = TColour -> desc_ret_ok d (fst (set_desc p a d)) = true).
Proof.
  intros Hr. unfold s_set_desc, desc_ret_ok.
  destruct (attr_type a) eqn:Et;
    try (split; [|discriminate];
         eapply refines_unknown; [exact Hr|apply set_desc_frame|];
         intros _; apply set_desc_noncolour; rewrite Et; discriminate).
  assert (Ha : real a) by (intros ->; discriminate).
  destruct (spec_desc d) as [i c| |] eqn:Esp.
  - apply spec_accept in Esp. unfold set_desc, set_desc_gen. unfold parse_desc in Esp. rewrite Esp.
    cbn [fst snd]. split; [|reflexivity].
    change (match c with Some c0 => set_rgb (set_colour p a i) a c0 | None => set_colour p a i end)
      with (set_value p a (VCol i c)).
    apply (refines_put s p); [exact Hr|exact Ha|intros; apply set_value_frame; assumption|].
    intros Hrep. apply (set_then_get p a (VCol i c) Hrep).
  - apply spec_reject in Esp. unfold set_desc, set_desc_gen. unfold parse_desc in Esp. rewrite Esp.
    cbn [fst snd]. split; [exact Hr|reflexivity].
  - split; [|reflexivity]. destruct (fst (set_desc p a d)) eqn:Er.
    + eapply refines_unknown; [exact Hr|apply set_desc_frame|intros ->; discriminate].
    + destruct (set_desc p a d) as [r q] eqn:E. cbn [fst snd] in *. subst r.
      apply set_desc_false in E. destruct E as (-> & _). exact Hr.
Qed.

(* ---- three pens ---- *)

Definition refines3 (ss : pidx -> spen) (st : pidx -> pen) : Prop := forall i, refines (ss i) (st i).
Definition wf3 (st : pidx -> pen) : Prop := forall i, wf (st i).

Lemma set3_same {A} (f : pidx -> A) i x : set3 f i x i = x.
Proof. unfold set3. destruct i; reflexivity. Qed.

Lemma set3_cases {A} (f : pidx -> A) i x j : (j = i /\ set3 f i x j = x) \/ (j <> i /\ set3 f i x j = f j).
Proof. unfold set3. destruct i, j; cbn; auto; right; split; try discriminate; reflexivity. Qed.

Lemma refines3_set ss st i s p : refines3 ss st -> refines s p -> refines3 (set3 ss i s) (set3 st i p).
Proof.
  intros H3 H j. destruct (set3_cases ss i s j) as [(Hj1 & E1)|(Hne & E1)];
    destruct (set3_cases st i p j) as [(Hj & E2)|(Hne2 & E2)]; try congruence; rewrite E1, E2; auto.
Qed.

Lemma wf3_set st i p : wf3 st -> wf p -> wf3 (set3 st i p).
Proof.
  intros H3 H j. destruct (set3_cases st i p j) as [(_ & E)|(_ & E)]; rewrite E; auto.
Qed.

Lemma pidx_eqb_eq i j : pidx_eqb i j = true <-> i = j.
Proof. destruct i, j; cbn; split; intros H; try reflexivity; try discriminate. Qed.

(* one operation: the dictionary run stays a description of the concrete run, the pens
   stay well-formed, and a description's return value is the one the grammar demands *)
Lemma step_refines g st ss o : wf g -> wf3 st -> refines3 ss st ->
  let '(st', r) := c_step g st o in
  refines3 (s_step ss o r) st' /\ wf3 st' /\ step_ret_ok o r = true.
Proof.
  intros Hg Hwf Hr. destruct o as [p a b|p a z|p a z|p a c|p a d|p a|p|d s ow|d s a|d s|p]; cbn [c_step s_step step_ret_ok].
  - split; [apply refines3_set; [exact Hr|apply refines_set_bool, Hr]|].
    split; [apply wf3_set; [exact Hwf|apply wf_set_bool, Hwf]|reflexivity].
  - split; [apply refines3_set; [exact Hr|apply refines_set_int, Hr]|].
    split; [apply wf3_set; [exact Hwf|apply wf_set_int, Hwf]|reflexivity].
  - split; [apply refines3_set; [exact Hr|apply refines_set_colour, Hr]|].
    split; [apply wf3_set; [exact Hwf|apply wf_set_colour, Hwf]|reflexivity].
  - split; [|split; [apply wf3_set; [exact Hwf|apply wf_set_rgb, Hwf]|reflexivity]].
    apply refines3_set; [exact Hr|]. destruct (rgb_ok c).
    + apply refines_set_rgb, Hr.
    + eapply refines_unknown; [apply Hr|apply set_rgb_frame|intros ->; reflexivity].
  - destruct (set_desc (st p) a d) as [r q] eqn:E.
    pose proof (refines_set_desc (ss p) (st p) a d (Hr p)) as (H1 & H2). rewrite E in H1, H2. cbn [fst snd] in H1, H2.
    split; [apply refines3_set; [exact Hr|exact H1]|].
    split; [apply wf3_set; [exact Hwf|]|].
    + pose proof (wf_set_desc (st p) a d (Hwf p)) as Hq. rewrite E in Hq. exact Hq.
    + destruct (attr_type a); try reflexivity. apply H2; reflexivity.
  - split; [apply refines3_set; [exact Hr|apply refines_clear_attr, Hr]|].
    split; [apply wf3_set; [exact Hwf|apply wf_clear_attr, Hwf]|reflexivity].
  - split; [apply refines3_set; [exact Hr|apply refines_empty; intros; apply clear_all]|].
    split; [apply wf3_set; [exact Hwf|apply wf_clear, Hwf]|reflexivity].
  - split; [apply refines3_set; [exact Hr|apply refines_copy; [apply Hwf|apply Hr|apply Hr]]|].
    split; [apply wf3_set; [exact Hwf|apply wf_copy, Hwf]|reflexivity].
  - split; [|split; [apply wf3_set; [exact Hwf|]|reflexivity]].
    + apply refines3_set; [exact Hr|]. destruct (pidx_eqb d s).
      * eapply refines_unknown; [apply Hr|apply copy_attr_self_frame|intros ->; reflexivity].
      * eapply refines_unknown; [apply Hr|apply copy_attr_frame|intros ->; reflexivity].
    + destruct (pidx_eqb d s); [apply wf_copy_attr_self|apply wf_copy_attr]; apply Hwf.
  - split; [apply refines3_set; [exact Hr|apply refines_clone; [apply Hwf|apply Hr]]|].
    split; [apply wf3_set; [exact Hwf|]|reflexivity].
    unfold clone. apply wf_copy. apply wf_clear, Hg.
  - split; [apply refines3_set; [exact Hr|apply refines_empty; intros; apply new_empty]|].
    split; [apply wf3_set; [exact Hwf|apply wf_clear, Hg]|reflexivity].
Qed.

(* ---- the oracle accepts the model ---- *)

Lemma agree_observe s p : refines s p -> agree s (observe p) = true.
Proof.
  intros Hr. unfold agree. apply andb_true_intro. split; [|reflexivity].
  apply forallb_forall. intros a Hin. apply all_attrs_real in Hin.
  assert (Hov : obs_value a (observe p a) = typed_read p a).
  { unfold obs_value, observe, typed_read; cbn. reflexivity. }
  destruct (Hr a) as [H|H]; rewrite H; [reflexivity|].
  unfold lookup. destruct (has_attr p a) eqn:Eh; cbn [abs_slot agree_attr].
  - rewrite Hov, value_eqb_refl. cbn [observe o_has]. rewrite Eh. cbn [andb].
    destruct a; try reflexivity. cbn [typed_read attr_type observe o_bool get_bool get_int].
    unfold get_bool, get_int. rewrite Eh. cbn [negb]. apply Bool.eqb_reflx.
  - rewrite Hov, <- reads_typed. destruct (defaults p a Eh) as (_ & Hd & _ & _ & _ & _ & Hrgb & _).
    rewrite Hd, value_eqb_refl. cbn [observe o_has o_rgb]. rewrite Eh, Hrgb. cbn [negb andb].
    destruct (attr_type a); reflexivity.
Qed.

Lemma known_reads s p : refines s p -> known s = true ->
  forall a, real a -> slot_reads a (s a) = reads p a.
Proof.
  intros Hr Hk a Ha. unfold known in Hk. rewrite forallb_forall in Hk.
  specialize (Hk a (proj2 (all_attrs_real a) Ha)).
  destruct (Hr a) as [H|H]; rewrite H in *; [discriminate|].
  unfold reads. destruct (lookup p a); reflexivity.
Qed.

Lemma forallb_ext_in_l {A} (f h : A -> bool) l :
  (forall a, In a l -> f a = h a) -> forallb f l = forallb h l.
Proof.
  induction l as [|x l IH]; intros H; [reflexivity|].
  cbn [forallb]. rewrite (H x) by (left; reflexivity). rewrite IH; [reflexivity|].
  intros a Ha. apply H. right. exact Ha.
Qed.

Lemma s_equiv_equiv s1 s2 p1 p2 : refines s1 p1 -> refines s2 p2 -> known s1 = true -> known s2 = true ->
  s_equiv s1 s2 = equiv p1 p2.
Proof.
  intros H1 H2 K1 K2. unfold s_equiv, equiv. apply forallb_ext_in_l.
  intros a Hin. apply all_attrs_real in Hin.
  rewrite (known_reads s1 p1 H1 K1 a Hin), (known_reads s2 p2 H2 K2 a Hin).
  symmetry. apply equiv_attr_reads; exact Hin.
Qed.

Lemma equiv_matrix_model ss st : refines3 ss st ->
  equiv_matrix_ok ss (fun i j => equiv (st i) (st j)) = true.
Proof.
  intros Hr. unfold equiv_matrix_ok.
  apply andb_true_intro; split; [apply andb_true_intro; split; [apply andb_true_intro; split|]|].
  - apply forallb_forall. intros i _. apply equiv_refl.
  - apply forallb_forall. intros i _. apply forallb_forall. intros j _.
    rewrite (equiv_sym (st i) (st j)). apply Bool.eqb_reflx.
  - apply forallb_forall. intros i _. apply forallb_forall. intros j _. apply forallb_forall. intros k _.
    destruct (equiv (st i) (st j)) eqn:E1; [|reflexivity].
    destruct (equiv (st j) (st k)) eqn:E2; [|reflexivity].
    rewrite (equiv_trans _ _ _ E1 E2). reflexivity.
  - apply forallb_forall. intros i _. apply forallb_forall. intros j _.
    destruct (known (ss i)) eqn:K1; [|reflexivity]. destruct (known (ss j)) eqn:K2; [|reflexivity].
    cbn [andb implb]. rewrite (s_equiv_equiv _ _ _ _ (Hr i) (Hr j) K1 K2). apply Bool.eqb_reflx.
Qed.

(* what the harness prints for a run of the model *)
Fixpoint c_obs (g : pen) (st : pidx -> pen) (ops : list pop) : list (bool * pobs) * (pidx -> pen) :=
  match ops with
  | [] => ([], st)
  | o :: r => let '(st1, b) := c_step g st o in
              let '(obs, st2) := c_obs g st1 r in
              ((b, observe (st1 (target o))) :: obs, st2)
  end.

Lemma check_ops_model g : wf g -> forall ops st ss, wf3 st -> refines3 ss st ->
  exists ss', check_ops ss ops (fst (c_obs g st ops)) = Some ss' /\ refines3 ss' (snd (c_obs g st ops)).
Proof.
  intros Hg. induction ops as [|o r IH]; intros st ss Hwf Hr.
  - exists ss. split; [reflexivity|exact Hr].
  - cbn [c_obs]. pose proof (step_refines g st ss o Hg Hwf Hr) as Hstep.
    destruct (c_step g st o) as [st1 b]. destruct Hstep as (Hr1 & Hwf1 & Hret).
    destruct (IH st1 (s_step ss o b) Hwf1 Hr1) as (ss' & Hc & Hr').
    destruct (c_obs g st1 r) as [obs st2]. cbn [fst snd] in *.
    exists ss'. cbn [check_ops]. rewrite Hret, (agree_observe _ _ (Hr1 (target o))). cbn [andb].
    split; [exact Hc|exact Hr'].
Qed.

(* C19_oracle_accepts_model *)
Theorem oracle_accepts_model g ops : wf g ->
  let st0 := fun _ : pidx => pen_new g in
  let '(obs, st) := c_obs g st0 ops in
  check_case ops obs (fun i => observe (st i)) (fun i j => equiv (st i) (st j)) = true.
Proof.
  intros Hg st0.
  assert (Hwf0 : wf3 st0) by (intros i; apply wf_clear, Hg).
  assert (Hr0 : refines3 (fun _ => s_empty) st0) by (intros i; apply refines_empty; intros; apply new_empty).
  destruct (check_ops_model g Hg ops st0 _ Hwf0 Hr0) as (ss' & Hc & Hr').
  destruct (c_obs g st0 ops) as [obs st]. cbn [fst snd] in *.
  unfold check_case. rewrite Hc. apply andb_true_intro. split.
  - apply forallb_forall. intros i _. apply agree_observe, Hr'.
  - apply equiv_matrix_model, Hr'.
Qed.

(* C19_refines: histories of any length *)
Theorem run_refines g : wf g -> forall ops st ss, wf3 st -> refines3 ss st ->
  let '(st', rets) := c_run g st ops in
  exists ss', fold_left (fun s '(o, r) => s_step s o r) (combine ops rets) ss = ss' /\
              refines3 ss' st' /\ wf3 st' /\
              forallb (fun '(o, r) => step_ret_ok o r) (combine ops rets) = true.
Proof.
  intros Hg. induction ops as [|o r IH]; intros st ss Hwf Hr.
  - cbn. exists ss. auto.
  - cbn [c_run]. pose proof (step_refines g st ss o Hg Hwf Hr) as Hstep.
    destruct (c_step g st o) as [st1 b]. destruct Hstep as (Hr1 & Hwf1 & Hret).
    specialize (IH st1 (s_step ss o b) Hwf1 Hr1).
    destruct (c_run g st1 r) as [st2 bs]. destruct IH as (ss' & Hf & Hr' & Hwf' & Hall).
    exists ss'. cbn [combine fold_left forallb]. rewrite Hret. cbn [andb]. auto.
Qed.

Example nonvacuous :
  let g := mkPen (mkCol (-1) (mkRgb 255 255 255) true true) (mkCol (-1) (mkRgb 255 255 255) true true)
                 (mkB true true) (mkI (-1) true) (mkB true true) (mkB true true) (mkB true true)
                 (mkI (-1) true) (mkB true true) (mkI 3 true) in
  let p := set_int (set_bool (set_rgb (set_colour (pen_new g) FG 1) FG (mkRgb 255 21 21)) BOLD true) ALTFONT 15 in
  let q := set_colour (set_bool (pen_new g) BOLD false) FG 7 in
  wf g /\ wf p /\
  lookup p FG = Some (VCol 1 (Some (mkRgb 255 21 21))) /\ lookup p BG = None /\
  lookup (copy q p false) FG = Some (VCol 7 None) /\
  lookup (copy q p true) FG = Some (VCol 1 (Some (mkRgb 255 21 21))) /\
  lookup (copy q p true) BOLD = Some (VBool true) /\
  equiv (clone p g) p = true /\ equiv p q = false /\
  set_desc (pen_new g) FG [114;101;100;32;35;70;70;49;53;49;53]
    = (true, set_rgb (set_colour (pen_new g) FG 1) FG (mkRgb 255 21 21)) /\
  fst (set_desc p FG [98]) = false.
Proof. vm_compute. repeat split; reflexivity. Qed.
