(* OutBufProofs.v -- theorems about the model of term.c's output path (property C11). *)
From Coq Require Import ZArith List Bool Lia ZifyBool.
From Tickit Require Import OutBufDefs OutBufSpec.
Import ListNotations.
Local Open Scope Z_scope.

(* the representation invariant of the output buffer: no buffer <-> cap = 0 and then
   nothing is pending; with a buffer, it is never full between calls *)
Definition inv (s : obuf) : Prop :=
  0 <= cap s /\ (cap s = 0 -> pending s = []) /\ (0 < cap s -> zlen (pending s) < cap s).

Definition chunk_ok (cp : Z) (tc : tchunk) : Prop := 0 < zlen (snd tc) <= cp.

(* the bytes of a list of tagged chunks, whatever their sinks *)
Definition bytes (d : list tchunk) : list byte := concat (map snd d).

(* every chunk went to [a] (so the list is empty when there is no active sink) *)
Definition tagged (a : option sink) (d : list tchunk) : Prop := Forall (fun tc => Some (fst tc) = a) d.

(* what is pending, seen from sink k: it will be delivered to the active sink *)
Definition pend_to (k : sink) (s : obuf) : list byte :=
  if osink_eqb (active s) (Some k) then pending s else [].

(* ---------------- small list facts ---------------- *)

Lemma zlen_app {A} (a b : list A) : zlen (a ++ b) = zlen a + zlen b.
Proof. unfold zlen. rewrite app_length. lia. Qed.

Lemma zlen_nonneg {A} (a : list A) : 0 <= zlen a.
Proof. unfold zlen. lia. Qed.

Lemma zlen_nil_iff {A} (a : list A) : zlen a = 0 <-> a = [].
Proof. unfold zlen. destruct a; cbn [length]; split; intros H; try reflexivity; try discriminate; lia. Qed.

Lemma zlen_firstn {A} (n : nat) (l : list A) : (n <= length l)%nat -> zlen (firstn n l) = Z.of_nat n.
Proof. intros H. unfold zlen. rewrite firstn_length_le by exact H. reflexivity. Qed.

Lemma bytes_app d1 d2 : bytes (d1 ++ d2) = bytes d1 ++ bytes d2.
Proof. unfold bytes. rewrite map_app. apply concat_app. Qed.

Lemma sink_eqb_eq a b : sink_eqb a b = true <-> a = b.
Proof. destruct a, b; cbn; split; intros H; try reflexivity; discriminate. Qed.

Lemma osink_eqb_eq a b : osink_eqb a b = true <-> a = b.
Proof.
  destruct a as [x|], b as [y|]; cbn; try (split; intros H; try reflexivity; discriminate).
  rewrite sink_eqb_eq. split; [intros ->; reflexivity|intros [= ->]; reflexivity].
Qed.

Lemma osink_eqb_refl a : osink_eqb a a = true.
Proof. apply osink_eqb_eq; reflexivity. Qed.

Lemma to_sink_app k d1 d2 : to_sink k (d1 ++ d2) = to_sink k d1 ++ to_sink k d2.
Proof. unfold to_sink. rewrite filter_app, map_app. apply concat_app. Qed.

Lemma to_sink_nil k : to_sink k [] = [].
Proof. reflexivity. Qed.

(* chunks all tagged with the active sink: sink k sees all their bytes or none *)
Lemma to_sink_tagged k a d : tagged a d ->
  to_sink k d = if osink_eqb a (Some k) then bytes d else [].
Proof.
  unfold tagged. induction d as [|[t c] d IH]; intros H.
  - destruct (osink_eqb a (Some k)); reflexivity.
  - inversion H as [|? ? Ht Hd]; subst. cbn [fst] in *. specialize (IH Hd).
    unfold to_sink, bytes in *. cbn [filter map fst snd concat].
    cbn [osink_eqb] in *. destruct (sink_eqb t k); cbn [map snd concat]; rewrite IH; reflexivity.
Qed.

Lemma tagged_app a d1 d2 : tagged a d1 -> tagged a d2 -> tagged a (d1 ++ d2).
Proof. unfold tagged. intros H1 H2. apply Forall_app. split; assumption. Qed.

Lemma active_eq s : active s = active_of (has_func s) (has_fd s).
Proof. reflexivity. Qed.

(* ---------------- deliver / flush ---------------- *)

Lemma deliver_props s c :
  tagged (active s) (deliver s c) /\
  (active s <> None -> bytes (deliver s c) = c) /\
  (deliver s c = [] \/ exists t, deliver s c = [(t, c)]).
Proof.
  unfold deliver, active, tagged, bytes.
  destruct (has_func s).
  - split; [repeat constructor|]. split; [intros _; cbn; apply app_nil_r|right; eexists; reflexivity].
  - destruct (has_fd s).
    + destruct c as [|b r].
      * split; [constructor|]. split; [reflexivity|left; reflexivity].
      * split; [repeat constructor|]. split; [intros _; cbn; rewrite app_nil_r; reflexivity|right; eexists; reflexivity].
    + split; [constructor|]. split; [intros H; contradiction H; reflexivity|left; reflexivity].
Qed.

Lemma flush_props s s' d : flush s = (s', d) ->
  pending s' = [] /\ cap s' = cap s /\ has_func s' = has_func s /\ has_fd s' = has_fd s /\
  (d = [] \/ (exists t, d = [(t, pending s)]) /\ pending s <> []) /\
  tagged (active s) d /\
  (active s <> None -> bytes d = pending s).
Proof.
  unfold flush. destruct (pending s) as [|b r] eqn:Ep.
  - intros [= <- <-]. rewrite Ep. repeat split; auto. constructor.
  - intros [= <- <-]. cbn [with_pending pending cap has_func has_fd].
    destruct (deliver_props s (b :: r)) as (Ht & Hb & Hd).
    repeat split; auto.
    destruct Hd as [H|H]; [left; exact H|right; split; [exact H|discriminate]].
Qed.

(* ---------------- the chunk loop ---------------- *)

Lemma write_loop_unfold fuel s out str : str <> [] ->
  write_loop (S fuel) s out str =
    if cap s - zlen (pending s) <? 0 then Fault else
    let space := if zlen str <? cap s - zlen (pending s) then zlen str else cap s - zlen (pending s) in
    let n := Z.to_nat space in
    let s1 := with_pending s (pending s ++ firstn n str) in
    if zlen (pending s1) >=? cap s
    then let '(s2, d) := flush s1 in write_loop fuel s2 (rev_append d out) (skipn n str)
    else write_loop fuel s1 out (skipn n str).
Proof. destruct str; [contradiction|reflexivity]. Qed.

(* With 0 <= pending < cap, [length str] units of fuel suffice (each iteration consumes
   at least one byte); the state keeps the invariant; every chunk goes to the active sink;
   with an active sink nothing is lost. *)
Lemma write_loop_spec : forall fuel str s out,
  0 < cap s -> zlen (pending s) < cap s -> (length str <= fuel)%nat ->
  exists s' d,
    write_loop fuel s out str = Ok (s', rev d ++ out) /\
    cap s' = cap s /\ has_func s' = has_func s /\ has_fd s' = has_fd s /\
    zlen (pending s') < cap s /\
    Forall (chunk_ok (cap s)) d /\ tagged (active s) d /\
    (active s <> None -> bytes d ++ pending s' = pending s ++ str).
Proof.
  induction fuel as [|fuel IH]; intros str s out Hcap Hpend Hfuel.
  - destruct str as [|b r]; [|cbn [length] in Hfuel; lia].
    exists s, []. cbn. repeat split; auto; try constructor. intros _. rewrite app_nil_r; reflexivity.
  - destruct str as [|b r].
    { exists s, []. cbn. repeat split; auto; try constructor. intros _. rewrite app_nil_r; reflexivity. }
    rewrite write_loop_unfold by discriminate.
    remember (b :: r) as str eqn:Estr.
    assert (Hlen : 0 < zlen str) by (subst str; unfold zlen; cbn [length]; lia).
    destruct (cap s - zlen (pending s) <? 0) eqn:Eneg; [lia|].
    set (space := if zlen str <? cap s - zlen (pending s) then zlen str else cap s - zlen (pending s)).
    assert (Hsp : 0 < space <= zlen str /\ space <= cap s - zlen (pending s)).
    { unfold space. destruct (zlen str <? cap s - zlen (pending s)) eqn:E; lia. }
    set (n := Z.to_nat space).
    assert (Hn : (1 <= n <= length str)%nat) by (unfold n, zlen in *; lia).
    assert (Hp1 : zlen (pending s ++ firstn n str) = zlen (pending s) + space).
    { rewrite zlen_app, zlen_firstn by lia. unfold n. lia. }
    assert (Hskip : (length (skipn n str) <= fuel)%nat).
    { rewrite skipn_length. lia. }
    cbn [with_pending pending cap]. cbv zeta. fold space. fold n.
    destruct (zlen (pending s ++ firstn n str) >=? cap s) eqn:Efull.
    + (* buffer full: flush, go on with an empty buffer *)
      destruct (flush (with_pending s (pending s ++ firstn n str))) as [s2 dl] eqn:Efl.
      apply flush_props in Efl.
      change (active (with_pending s (pending s ++ firstn n str))) with (active s) in Efl.
      cbn [with_pending pending cap has_func has_fd] in Efl.
      destruct Efl as (Hp2 & Hc2 & Hf2 & Hd2 & Hdl & Htag & Hcat).
      assert (Hact2 : active s2 = active s) by (unfold active; rewrite Hf2, Hd2; reflexivity).
      destruct (IH (skipn n str) s2 (rev_append dl out)) as (s' & d & Hrun & Hc' & Hf' & Hd' & Hp' & Hall & Htag' & Hstream).
      { lia. } { rewrite Hp2. unfold zlen; cbn [length]. lia. } { exact Hskip. }
      exists s', (dl ++ d). rewrite Hrun. split.
      { rewrite rev_append_rev, rev_app_distr, app_assoc. reflexivity. }
      rewrite Hc2, Hact2 in *. split; [exact Hc'|]. split; [congruence|]. split; [congruence|].
      split; [exact Hp'|]. split.
      { apply Forall_app. split; [|exact Hall].
        destruct Hdl as [->|[[t ->] Hne]]; [constructor|].
        constructor; [|constructor]. unfold chunk_ok. cbn [snd]. lia. }
      split; [apply tagged_app; assumption|].
      intros Ha. rewrite bytes_app, <- app_assoc, (Hstream Ha).
      rewrite Hp2, (Hcat Ha). cbn [app]. rewrite <- app_assoc, firstn_skipn. reflexivity.
    + (* everything fitted *)
      destruct (IH (skipn n str) (with_pending s (pending s ++ firstn n str)) out)
        as (s' & d & Hrun & Hc' & Hf' & Hd' & Hp' & Hall & Htag' & Hstream).
      { exact Hcap. } { cbn [with_pending pending cap]. lia. } { exact Hskip. }
      change (active (with_pending s (pending s ++ firstn n str))) with (active s) in *.
      cbn [with_pending pending cap has_func has_fd] in *.
      exists s', d. rewrite Hrun. repeat split; auto.
      intros Ha. rewrite (Hstream Ha). rewrite <- app_assoc, firstn_skipn. reflexivity.
Qed.

(* ---------------- requested bytes ---------------- *)

Lemma until_nul_strlen mem : until_nul mem =
  match c_strlen mem with Some n => Some (firstn n mem) | None => None end.
Proof.
  induction mem as [|b r IH]; [reflexivity|].
  cbn [until_nul c_strlen]. destruct (b =? 0); [reflexivity|].
  rewrite IH. destruct (c_strlen r); reflexivity.
Qed.

Lemma asked_write mem len : asked (OWrite mem len) = req_bytes mem len.
Proof.
  unfold asked, req_bytes. destruct (len =? 0); [apply until_nul_strlen|reflexivity].
Qed.

(* write_strf asks for exactly the formatted bytes, empty or not, NULs inside or not *)
Lemma req_bytes_strf (f : list byte) : req_bytes (f ++ [0]) (zlen f) = Some f.
Proof.
  unfold req_bytes. destruct (zlen f =? 0) eqn:E.
  - assert (f = []) as -> by (apply zlen_nil_iff; lia). reflexivity.
  - assert (H : (0 <? zlen f) && (zlen f <=? zlen (f ++ [0])) = true).
    { rewrite zlen_app. pose proof (zlen_nonneg f). change (zlen [0]) with 1. lia. }
    unfold byte in *. rewrite H. f_equal. unfold zlen. rewrite Nat2Z.id.
    rewrite firstn_app, Nat.sub_diag, firstn_all. cbn [firstn]. apply app_nil_r.
Qed.

(* ---------------- one operation ---------------- *)

Lemma write_str_spec s mem len data : inv s -> req_bytes mem len = Some data ->
  exists s' d,
    write_str s mem len = Ok (s', d) /\ inv s' /\
    cap s' = cap s /\ has_func s' = has_func s /\ has_fd s' = has_fd s /\
    (0 < cap s -> Forall (chunk_ok (cap s)) d) /\ tagged (active s) d /\
    (active s <> None -> bytes d ++ pending s' = pending s ++ data) /\
    (data = [] -> pending s' = pending s).
Proof.
  intros (Hc0 & Hnil & Hlt) Hreq. unfold write_str. rewrite Hreq.
  destruct (0 <? cap s) eqn:Ecap.
  - destruct (write_loop_spec (S (length data)) data s []) as (s' & d & Hrun & Hc' & Hf' & Hd' & Hp' & Hall & Htag & Hstream).
    { lia. } { apply Hlt; lia. } { lia. }
    exists s', d. rewrite Hrun, app_nil_r, rev_involutive.
    split; [reflexivity|]. split.
    { unfold inv. rewrite Hc'. split; [lia|]. split; [lia|]. intros _; exact Hp'. }
    repeat split; auto.
    intros ->. cbn in Hrun. injection Hrun as <- _. reflexivity.
  - destruct (deliver_props s data) as (Ht & Hb & _).
    exists s, (deliver s data). split; [reflexivity|]. split; [unfold inv; auto|].
    repeat split; auto; [lia|].
    intros Ha. rewrite Hnil by lia. rewrite (Hb Ha). rewrite app_nil_r. reflexivity.
Qed.

(* requests and flush: configuration unchanged, chunks to the active sink, nothing lost *)
Definition io_op (o : op) : bool :=
  match o with OWrite _ _ | OWritef _ | OFlush | OTeardown | ODestroy => true | _ => false end.

(* the operations that must leave nothing pending *)
Definition is_drain (o : op) : bool :=
  match o with OFlush | OTeardown | ODestroy => true | _ => false end.

Lemma flush_drained s : pending s = [] -> flush s = (s, []).
Proof. intros H. unfold flush. rewrite H. reflexivity. Qed.

(* destruction flushes twice; the second flush finds nothing *)
Lemma destroy_eq s : destroy s = flush s.
Proof.
  unfold destroy, teardown. destruct (flush s) as [s1 d1] eqn:E.
  pose proof (flush_props _ _ _ E) as (Hp & _). rewrite (flush_drained s1 Hp), app_nil_r. reflexivity.
Qed.

Lemma step_drain s o : is_drain o = true -> step s o = Ok (flush s).
Proof. destruct o; try discriminate; intros _; cbn [step]; [reflexivity|reflexivity|rewrite destroy_eq; reflexivity]. Qed.

Lemma step_io s o bs : inv s -> io_op o = true -> asked o = Some bs ->
  exists s' d,
    step s o = Ok (s', d) /\ inv s' /\
    cap s' = cap s /\ has_func s' = has_func s /\ has_fd s' = has_fd s /\
    (0 < cap s -> Forall (chunk_ok (cap s)) d) /\ tagged (active s) d /\
    (active s <> None -> bytes d ++ pending s' = pending s ++ bs) /\
    (bs = [] -> active s = None -> pending s' = pending s \/ pending s' = []) /\
    (is_drain o = true -> pending s' = []).
Proof.
  intros Hinv Hio Hask.
  destruct (is_drain o) eqn:Edr.
  { (* flush, teardown, destroy *)
    assert (Hbs : bs = []) by (destruct o; try discriminate; cbn [asked] in Hask; injection Hask as <-; reflexivity).
    subst bs. rewrite (step_drain s o Edr).
    destruct (flush s) as [s' d] eqn:Efl. pose proof (flush_props _ _ _ Efl) as (Hp & Hc & Hf & Hd & Hdl & Htag & Hcat).
    exists s', d. split; [reflexivity|]. destruct Hinv as (Hc0 & Hnil & Hlt). split.
    { unfold inv. rewrite Hc, Hp. repeat split; auto; intros; unfold zlen; cbn [length]; lia. }
    do 3 (split; [assumption|]). split.
    { intros Hpos. destruct Hdl as [->|[[t ->] Hne]]; [constructor|].
      constructor; [|constructor]. unfold chunk_ok. cbn [snd]. specialize (Hlt Hpos).
      assert (zlen (pending s) <> 0) by (rewrite zlen_nil_iff; exact Hne).
      pose proof (zlen_nonneg (pending s)). lia. }
    split; [exact Htag|]. split.
    { intros Ha. rewrite Hp, !app_nil_r. apply Hcat; exact Ha. }
    split; [intros _ _; right; exact Hp|intros _; exact Hp]. }
  destruct o as [mem len|f| | | |n|n|b|b]; try discriminate; cbn [step].
  - rewrite asked_write in Hask.
    destruct (write_str_spec s mem len bs Hinv Hask) as (s' & d & Hw & Hi & Hc & Hf & Hd & Hall & Htag & Hst & He).
    exists s', d. split; [exact Hw|]. split; [exact Hi|]. do 6 (split; [assumption|]).
    split; [intros Hb _; left; auto|discriminate].
  - cbn [asked] in Hask. injection Hask as <-. unfold write_strf.
    destruct (write_str_spec s (f ++ [0]) (zlen f) f Hinv (req_bytes_strf f)) as (s' & d & Hw & Hi & Hc & Hf & Hd & Hall & Htag & Hst & He).
    exists s', d. split; [exact Hw|]. split; [exact Hi|]. do 6 (split; [assumption|]).
    split; [intros Hb _; left; auto|discriminate].
Qed.

(* reconfigurations deliver nothing *)
Lemma step_config s o : inv s -> io_op o = false -> asked o <> None ->
  exists s', step s o = Ok (s', []) /\ inv s' /\
    match o with
    | OSetBuf n => s' = set_output_buffer s n
    | OSetBufFail n => s' = set_output_buffer_failed s n
    | OSetFunc b => s' = set_output_func s b
    | OSetFd b => s' = set_output_fd s b
    | _ => False
    end.
Proof.
  intros Hinv Hio Hask. destruct o as [mem len|f| | | |n|n|b|b]; try discriminate; cbn [step].
  - cbn [asked] in Hask. destruct (n <? 0) eqn:En; [contradiction Hask; reflexivity|].
    exists (set_output_buffer s n). split; [reflexivity|]. split; [|reflexivity].
    unfold set_output_buffer, inv; cbn [cap pending]. repeat split; auto; try lia; intros; unfold zlen; cbn [length]; lia.
  - cbn [asked] in Hask. destruct (n <? 0) eqn:En; [contradiction Hask; reflexivity|].
    exists (set_output_buffer_failed s n). split; [reflexivity|]. split; [|reflexivity].
    unfold set_output_buffer_failed, inv; cbn [cap pending]. repeat split; auto; try lia; intros; unfold zlen; cbn [length]; lia.
  - exists (set_output_func s b). split; [reflexivity|]. split; [|reflexivity]. exact Hinv.
  - exists (set_output_fd s b). split; [reflexivity|]. split; [|reflexivity]. exact Hinv.
Qed.

(* a malformed request (reads outside the caller's string, negative size) is a Fault,
   never a normal result *)
Lemma step_fault s o : asked o = None -> step s o = Fault.
Proof.
  destruct o as [mem len|f| | | |n|n|b|b]; cbn [step asked]; try discriminate.
  - intros H. change (asked (OWrite mem len) = None) in H. rewrite asked_write in H.
    unfold write_str. rewrite H. reflexivity.
  - destruct (n <? 0); [reflexivity|discriminate].
  - destruct (n <? 0); [reflexivity|discriminate].
Qed.

Lemma io_or_config o : io_op o = true \/ io_op o = false.
Proof. destruct (io_op o); auto. Qed.

(* ---------------- C11_terminates ---------------- *)

Theorem terminates s o : inv s ->
  (asked o <> None -> exists s' d, step s o = Ok (s', d) /\ inv s') /\
  step s o <> OutOfFuel.
Proof.
  intros Hinv. destruct (asked o) as [bs|] eqn:Ea.
  - assert (H : exists s' d, step s o = Ok (s', d) /\ inv s').
    { destruct (io_or_config o) as [Hio|Hio].
      - destruct (step_io s o bs Hinv Hio Ea) as (s' & d & Hst & Hi & _). exists s', d. auto.
      - destruct (step_config s o Hinv Hio) as (s' & Hst & Hi & _); [rewrite Ea; discriminate|].
        exists s', []. auto. }
    split; [intros _; exact H|]. destruct H as (s' & d & Hst & _). rewrite Hst; discriminate.
  - split; [intros H; contradiction|]. rewrite step_fault by exact Ea. discriminate.
Qed.

Theorem loop_fuel_bound fuel str s out :
  0 < cap s -> zlen (pending s) < cap s -> (length str <= fuel)%nat ->
  exists r, write_loop fuel s out str = Ok r.
Proof.
  intros H1 H2 H3. destruct (write_loop_spec fuel str s out H1 H2 H3) as (s' & d & Hr & _).
  eexists; exact Hr.
Qed.

(* ---------------- C11_flush_drains / C11_chunk_bound ---------------- *)

Theorem flush_drains s o s' d : is_drain o = true -> step s o = Ok (s', d) ->
  pending s' = [] /\ tagged (active s) d /\ forall k, to_sink k d = pend_to k s.
Proof.
  intros Hdr. rewrite (step_drain s o Hdr). intros [= H]. apply flush_props in H.
  destruct H as (Hp & _ & _ & _ & Hdl & Htag & Hcat). split; [exact Hp|]. split; [exact Htag|].
  intros k. rewrite (to_sink_tagged k _ _ Htag). unfold pend_to.
  destruct (osink_eqb (active s) (Some k)) eqn:E; [|reflexivity].
  apply Hcat. apply osink_eqb_eq in E. rewrite E. discriminate.
Qed.

Theorem chunk_bound s o s' d : inv s -> step s o = Ok (s', d) -> 0 < cap s ->
  Forall (chunk_ok (cap s)) d /\ tagged (active s) d.
Proof.
  intros Hinv Hst Hpos. destruct (asked o) as [bs|] eqn:Ea.
  - destruct (io_or_config o) as [Hio|Hio].
    + destruct (step_io s o bs Hinv Hio Ea) as (s1 & d1 & Hst1 & _ & _ & _ & _ & Hall & Htag & _).
      rewrite Hst in Hst1. injection Hst1 as <- <-. auto.
    + destruct (step_config s o Hinv Hio) as (s1 & Hst1 & _); [rewrite Ea; discriminate|].
      rewrite Hst in Hst1. injection Hst1 as _ Hd0. subst d. split; constructor.
  - rewrite step_fault in Hst by exact Ea. discriminate.
Qed.

(* histories that do not resize: every chunk of the whole run is bounded by the one size *)
Fixpoint no_resize (ops : list op) : Prop :=
  match ops with [] => True | (OSetBuf _ | OSetBufFail _) :: _ => False | _ :: r => no_resize r end.

Theorem chunk_bound_run : forall ops s s' outs, inv s -> no_resize ops -> 0 < cap s ->
  run s ops = Ok (s', outs) -> Forall (chunk_ok (cap s)) (concat outs).
Proof.
  induction ops as [|o r IH]; intros s s' outs Hinv Hnr Hpos Hrun.
  - cbn in Hrun. injection Hrun as <- <-. constructor.
  - cbn [run] in Hrun. destruct (step s o) as [[s1 d]| |] eqn:Est; try discriminate.
    destruct (run s1 r) as [[s2 ds]| |] eqn:Er; try discriminate. injection Hrun as <- <-.
    cbn [concat]. apply Forall_app. split; [apply (chunk_bound s o s1); assumption|].
    destruct (asked o) as [bs|] eqn:Ea; [|rewrite step_fault in Est by exact Ea; discriminate].
    assert (Hc : inv s1 /\ cap s1 = cap s /\ no_resize r).
    { destruct (io_or_config o) as [Hio|Hio].
      - destruct (step_io s o bs Hinv Hio Ea) as (s1' & d1 & Hst1 & Hi1 & Hc1 & _).
        rewrite Est in Hst1. injection Hst1 as <- <-.
        destruct o; try discriminate; cbn [no_resize] in Hnr; auto.
      - destruct (step_config s o Hinv Hio) as (s1' & Hst1 & Hi1 & Hm); [rewrite Ea; discriminate|].
        rewrite Est in Hst1. injection Hst1 as <- Hd0; subst d.
        destruct o; try contradiction; cbn [no_resize] in Hnr; try contradiction; subst s1; auto. }
    destruct Hc as (Hi1 & Hc & Hnr'). rewrite <- Hc. eapply IH; eauto. lia.
Qed.

(* ---------------- C11_stream, per sink ---------------- *)

Lemma is_active_eq k s : is_active k (has_func s) (has_fd s) = osink_eqb (active s) (Some k).
Proof. reflexivity. Qed.

Theorem stream_run : forall ops s s' outs, inv s ->
  config_when_drained s ops -> run s ops = Ok (s', outs) ->
  inv s' /\ forall k, exists bs, stream_to k (has_func s) (has_fd s) ops = Some bs /\
    to_sink k (concat outs) ++ pend_to k s' = pend_to k s ++ bs.
Proof.
  induction ops as [|o r IH]; intros s s' outs Hinv Hsz Hrun.
  - cbn in Hrun. injection Hrun as <- <-. split; [exact Hinv|]. intros k. exists []. cbn.
    rewrite app_nil_r. auto.
  - cbn [run] in Hrun. destruct (step s o) as [[s1 d]| |] eqn:Est; try discriminate.
    destruct (run s1 r) as [[s2 ds]| |] eqn:Er; try discriminate. injection Hrun as <- <-.
    destruct (asked o) as [bs|] eqn:Ea; [|rewrite step_fault in Est by exact Ea; discriminate].
    cbn [config_when_drained] in Hsz. rewrite Est in Hsz. destruct Hsz as (Hdr & Hsz').
    destruct (io_or_config o) as [Hio|Hio].
    + destruct (step_io s o bs Hinv Hio Ea) as (s1' & d1 & Hst1 & Hi1 & Hc1 & Hf1 & Hd1 & _ & Htag & Hst & _).
      rewrite Est in Hst1. injection Hst1 as <- <-.
      destruct (IH s1 s2 ds Hi1 Hsz' Er) as (Hi2 & Hk). split; [exact Hi2|].
      intros k. destruct (Hk k) as (bs' & Hstr & Hcat).
      assert (Hcfg : (match o with OSetFunc b => (b, has_fd s) | OSetFd b => (has_func s, b) | _ => (has_func s, has_fd s) end)
                     = (has_func s1, has_fd s1)).
      { rewrite Hf1, Hd1. destruct o; try discriminate; reflexivity. }
      exists ((if is_active k (has_func s) (has_fd s) then bs else []) ++ bs').
      cbn [stream_to]. rewrite Hcfg, Ea, Hstr. split; [reflexivity|].
      cbn [concat]. rewrite to_sink_app, <- app_assoc, Hcat.
      assert (Hact1 : active s1 = active s) by (unfold active; rewrite Hf1, Hd1; reflexivity).
      rewrite (to_sink_tagged k _ _ Htag), is_active_eq. unfold pend_to. rewrite Hact1.
      destruct (osink_eqb (active s) (Some k)) eqn:E; [|reflexivity].
      rewrite !app_assoc. f_equal. apply Hst. apply osink_eqb_eq in E. rewrite E. discriminate.
    + destruct (step_config s o Hinv Hio) as (s1' & Hst1 & Hi1 & Hm); [rewrite Ea; discriminate|].
      rewrite Est in Hst1. injection Hst1 as <- Hd0; subst d.
      destruct (IH s1 s2 ds Hi1 Hsz' Er) as (Hi2 & Hk). split; [exact Hi2|].
      intros k. destruct (Hk k) as (bs' & Hstr & Hcat).
      assert (Hbs : bs = []).
      { destruct o; try discriminate; cbn [asked] in Ea; try (injection Ea as <-; reflexivity);
          (destruct (n <? 0); [discriminate|injection Ea as <-; reflexivity]). }
      subst bs.
      assert (Hcfg : (match o with OSetFunc b => (b, has_fd s) | OSetFd b => (has_func s, b) | _ => (has_func s, has_fd s) end)
                     = (has_func s1, has_fd s1)).
      { destruct o; try contradiction; subst s1; reflexivity. }
      exists bs'. cbn [stream_to]. rewrite Hcfg, Ea, Hstr.
      split; [destruct (is_active k _ _); reflexivity|].
      cbn [concat]. rewrite to_sink_app, to_sink_nil. cbn [app]. rewrite Hcat. f_equal.
      (* what is pending for sink k is the same before and after the reconfiguration *)
      unfold pend_to. destruct o as [| | | | |n|n|b|b]; try contradiction; subst s1.
      * change (active (set_output_buffer s n)) with (active s).
        cbn [set_output_buffer pending]. rewrite Hdr.
        destruct (osink_eqb (active s) (Some k)); reflexivity.
      * change (active (set_output_buffer_failed s n)) with (active s).
        cbn [set_output_buffer_failed pending]. rewrite Hdr.
        destruct (osink_eqb (active s) (Some k)); reflexivity.
      * cbn [pending set_output_func].
        destruct (osink_eqb (active (set_output_func s b)) (Some k)) eqn:E1,
                 (osink_eqb (active s) (Some k)) eqn:E2; try reflexivity;
          rewrite Hdr; try reflexivity;
          intros Heq; rewrite Heq in E1; congruence.
      * cbn [pending set_output_fd].
        destruct (osink_eqb (active (set_output_fd s b)) (Some k)) eqn:E1,
                 (osink_eqb (active s) (Some k)) eqn:E2; try reflexivity;
          rewrite Hdr; try reflexivity;
          intros Heq; rewrite Heq in E1; congruence.
Qed.

(* the syntactic condition implies the semantic one *)
Lemma config_after_flush_sound : forall ops s dr, inv s ->
  (dr = true -> pending s = []) -> config_after_flush dr ops = true -> config_when_drained s ops.
Proof.
  induction ops as [|o r IH]; intros s dr Hinv Hdr Hsyn; [exact I|].
  cbn [config_when_drained]. split.
  - destruct o; auto; cbn [config_after_flush] in Hsyn; apply andb_prop in Hsyn;
      try (intros _); apply Hdr; tauto.
  - destruct (step s o) as [[s1 d]| |] eqn:Est; auto.
    destruct (asked o) as [bs|] eqn:Ea; [|rewrite step_fault in Est by exact Ea; discriminate].
    destruct (io_or_config o) as [Hio|Hio].
    + destruct (step_io s o bs Hinv Hio Ea) as (s1' & d1 & Hst1 & Hi1 & _ & _ & _ & _ & _ & _ & _ & Hdrain).
      rewrite Est in Hst1. injection Hst1 as <- <-.
      destruct o as [mem len|f| | | |n|n|b|b]; try discriminate; cbn [config_after_flush] in Hsyn.
      * apply (IH s1 false); auto; discriminate.
      * apply (IH s1 false); auto; discriminate.
      * apply (IH s1 true); auto.
      * apply (IH s1 true); auto.
      * apply (IH s1 true); auto.
    + destruct (step_config s o Hinv Hio) as (s1' & Hst1 & Hi1 & Hm); [rewrite Ea; discriminate|].
      rewrite Est in Hst1. injection Hst1 as <- Hd0; subst d.
      destruct o as [mem len|f| | | |n|n|b|b]; try contradiction; cbn [config_after_flush] in Hsyn;
        apply andb_prop in Hsyn; destruct Hsyn as (Hd & Hsyn); subst s1;
        apply (IH _ true); auto.
Qed.

(* the unbuffered history: never anything pending, it runs whenever the requests are well
   formed, and every sink receives exactly its stream *)
Lemma unbuffered_run : forall ops s, inv s -> cap s = 0 ->
  (forall k, stream_to k (has_func s) (has_fd s) ops <> None) ->
  exists s' outs, run s (unbuffered ops) = Ok (s', outs) /\ pending s' = [] /\
    forall k, stream_to k (has_func s) (has_fd s) ops = Some (to_sink k (concat outs)).
Proof.
  induction ops as [|o r IH]; intros s Hinv Hcap Hstr.
  - exists s, []. cbn. destruct Hinv as (_ & Hn & _). auto.
  - assert (Hask : exists a, asked o = Some a).
    { specialize (Hstr SFunc). cbn [stream_to] in Hstr. destruct (asked o) as [a|]; [eexists; reflexivity|].
      destruct (match o with OSetFunc b => _ | OSetFd b => _ | _ => _ end). contradiction Hstr; reflexivity. }
    destruct Hask as (a & Ea).
    set (o' := match o with OSetBuf _ | OSetBufFail _ => OSetBuf 0 | _ => o end).
    assert (Ea' : asked o' = Some a).
    { destruct o; try exact Ea; cbn [asked] in *; (destruct (n <? 0); [discriminate|exact Ea]). }
    assert (Hnext : exists s1 d, step s o' = Ok (s1, d) /\ inv s1 /\ cap s1 = 0 /\
              (match o with OSetFunc b => (b, has_fd s) | OSetFd b => (has_func s, b) | _ => (has_func s, has_fd s) end)
                = (has_func s1, has_fd s1) /\
              forall k, to_sink k d = if is_active k (has_func s) (has_fd s) then a else []).
    { destruct (io_or_config o') as [Hio|Hio].
      - destruct (step_io s o' a Hinv Hio Ea') as (s1 & d & Hst & Hi1 & Hc1 & Hf1 & Hd1 & _ & Htag & Hcat & _).
        exists s1, d. split; [exact Hst|]. split; [exact Hi1|]. split; [congruence|]. split.
        { rewrite Hf1, Hd1. destruct o; try discriminate; reflexivity. }
        intros k. rewrite (to_sink_tagged k _ _ Htag), is_active_eq.
        destruct (osink_eqb (active s) (Some k)) eqn:E; [|reflexivity].
        destruct Hinv as (_ & Hn & _). destruct Hi1 as (_ & Hn1 & _).
        assert (Ha : active s <> None) by (apply osink_eqb_eq in E; rewrite E; discriminate).
        specialize (Hcat Ha). rewrite (Hn Hcap), (Hn1 (eq_trans Hc1 Hcap)), app_nil_r in Hcat. exact Hcat.
      - destruct (step_config s o' Hinv Hio) as (s1 & Hst & Hi1 & Hm); [rewrite Ea'; discriminate|].
        exists s1, []. split; [exact Hst|]. split; [exact Hi1|].
        assert (Ha : a = []).
        { destruct o; try discriminate; cbn [asked] in Ea; try (injection Ea as <-; reflexivity);
            (destruct (n <? 0); [discriminate|injection Ea as <-; reflexivity]). }
        subst a. destruct o as [| | | | |n|n|b|b]; try discriminate; cbn [o'] in Hm; subst s1;
          (split; [try reflexivity; exact Hcap|split; [reflexivity|intros k; destruct (is_active k _ _); reflexivity]]). }
    destruct Hnext as (s1 & d & Hst & Hi1 & Hc1 & Hcfg & Hd).
    assert (Hstr1 : forall k, stream_to k (has_func s1) (has_fd s1) r <> None).
    { intros k. specialize (Hstr k). cbn [stream_to] in Hstr. rewrite Hcfg, Ea in Hstr.
      destruct (stream_to k (has_func s1) (has_fd s1) r); [discriminate|contradiction Hstr; reflexivity]. }
    destruct (IH s1 Hi1 Hc1 Hstr1) as (s' & outs & Hrun & Hp & Hk).
    exists s', (d :: outs). cbn [unbuffered map run]. fold (unbuffered r). fold o'.
    rewrite Hst, Hrun. split; [reflexivity|]. split; [exact Hp|].
    intros k. cbn [stream_to]. rewrite Hcfg, Ea, (Hk k). cbn [concat]. rewrite to_sink_app, Hd. reflexivity.
Qed.

Theorem transparent ops func fd s' outs :
  config_when_drained (init func fd) ops ->
  run (init func fd) ops = Ok (s', outs) ->
  exists s0 outs0,
    run (init func fd) (unbuffered ops) = Ok (s0, outs0) /\ pending s0 = [] /\
    forall k, to_sink k (concat outs) ++ pend_to k s' = to_sink k (concat outs0) /\
              stream_to k func fd ops = Some (to_sink k (concat outs0)).
Proof.
  intros Hsz Hrun.
  assert (Hinv : inv (init func fd)).
  { unfold inv, init; cbn [cap pending]. repeat split; auto; lia. }
  destruct (stream_run ops _ _ _ Hinv Hsz Hrun) as (_ & Hk).
  assert (Hstr : forall k, stream_to k (has_func (init func fd)) (has_fd (init func fd)) ops <> None).
  { intros k. destruct (Hk k) as (bs & Hs & _). rewrite Hs. discriminate. }
  destruct (unbuffered_run ops _ Hinv eq_refl Hstr) as (s0 & outs0 & Hrun0 & Hp0 & Hk0).
  exists s0, outs0. split; [exact Hrun0|]. split; [exact Hp0|].
  intros k. destruct (Hk k) as (bs & Hs & Hcat). specialize (Hk0 k).
  cbn [init has_func has_fd] in *. rewrite Hs in Hk0. injection Hk0 as Hk0.
  split; [|rewrite Hs, Hk0; reflexivity].
  rewrite Hcat, <- Hk0. unfold pend_to. cbn [init pending]. destruct (osink_eqb _ _); reflexivity.
Qed.

(* ---------------- the checker ---------------- *)

Lemma strip_prefix_app p l : strip_prefix p (p ++ l) = Some l.
Proof. induction p as [|a p IH]; [reflexivity|]. cbn. rewrite Z.eqb_refl. exact IH. Qed.

Lemma strip_prefix_inv : forall p l r, strip_prefix p l = Some r -> l = p ++ r.
Proof.
  induction p as [|a p IH]; intros l r H; [cbn in H; injection H as <-; reflexivity|].
  destruct l as [|b l]; [discriminate|]. cbn in H. destruct (a =? b) eqn:E; [|discriminate].
  apply Z.eqb_eq in E. subst b. rewrite (IH _ _ H). reflexivity.
Qed.

Lemma take_chunks_app : forall d cp act rest, 0 <= cp -> (0 < cp -> Forall (chunk_ok cp) d) ->
  tagged act d -> take_chunks cp act (bytes d ++ rest) d = Some rest.
Proof.
  induction d as [|[t c] d IH]; intros cp act rest Hnn Hall Htag; [reflexivity|].
  pose proof (Forall_inv Htag) as Ht. pose proof (Forall_inv_tail Htag) as Htag'. cbn [fst] in Ht.
  cbn [take_chunks]. unfold bytes. cbn [map snd concat]. fold (bytes d).
  assert (Hb : osink_eqb act (Some t) && ((cp =? 0) || (zlen c <=? cp)) = true).
  { rewrite <- Ht, osink_eqb_refl. cbn [andb].
    destruct (cp =? 0) eqn:E; [reflexivity|]. cbn [orb].
    assert (Hpos : 0 < cp) by lia. specialize (Hall Hpos).
    inversion Hall as [|? ? Hc _]; subst. unfold chunk_ok in Hc. cbn [snd] in Hc. lia. }
  rewrite Hb, <- app_assoc, strip_prefix_app. apply IH; [exact Hnn| |exact Htag'].
  intros Hpos. specialize (Hall Hpos). inversion Hall; assumption.
Qed.

Lemma take_chunks_inv : forall d cp act o rest, take_chunks cp act o d = Some rest ->
  o = bytes d ++ rest /\ tagged act d /\ (0 < cp -> Forall (fun tc => zlen (snd tc) <= cp) d).
Proof.
  induction d as [|[t c] d IH]; intros cp act o rest H.
  - cbn in H. injection H as <-. split; [reflexivity|]. split; constructor.
  - cbn [take_chunks] in H.
    destruct (osink_eqb act (Some t) && ((cp =? 0) || (zlen c <=? cp))) eqn:Eb; [|discriminate].
    apply andb_prop in Eb. destruct Eb as (Et & Eb). apply osink_eqb_eq in Et.
    destruct (strip_prefix c o) as [o'|] eqn:Es; [|discriminate].
    apply strip_prefix_inv in Es. destruct (IH _ _ _ _ H) as (Ho' & Htag & Hall).
    split; [unfold bytes in *; cbn [map snd concat]; rewrite <- app_assoc, <- Ho'; exact Es|].
    split; [constructor; [cbn [fst]; symmetry; exact Et|exact Htag]|].
    intros Hpos. constructor; [|apply Hall; exact Hpos]. cbn [snd].
    destruct (cp =? 0) eqn:E; [lia|]. cbn [orb] in Eb. lia.
Qed.

(* the checker's state matches the model's: same size and sinks, outstanding = pending, and
   nothing is pending while no sink is active (else the checker would have stopped) *)
Definition ck_matches (k : ck) (s : obuf) : Prop :=
  k_cap k = cap s /\ k_func k = has_func s /\ k_fd k = has_fd s /\ k_outst k = pending s /\
  (active s = None -> pending s = []).

Lemma ck_active k s : ck_matches k s -> k_active k = active s.
Proof. intros (_ & Hf & Hd & _). unfold k_active, active, active_of. rewrite Hf, Hd. reflexivity. Qed.

Lemma check_step_io k o d : io_op o = true ->
  check_step k o d =
    match asked o with
    | None => None
    | Some bs =>
      match k_active k with
      | None => if is_nil d then (if is_nil bs then Some (k, false) else Some (forfeited k, true)) else None
      | Some _ =>
        match take_chunks (k_cap k) (k_active k) (k_outst k ++ bs) d with
        | None => None
        | Some rest => if must_drain k o && negb (is_nil rest) then None else Some (with_outst k rest, false)
        end
      end
    end.
Proof. destruct o; try discriminate; reflexivity. Qed.

(* one step of the model is accepted, and either checking stops or the states still match *)
Lemma checker_accepts_step s o s1 d k : inv s -> ck_matches k s -> step s o = Ok (s1, d) ->
  exists k1 stop, check_step k o d = Some (k1, stop) /\ (stop = false -> ck_matches k1 s1).
Proof.
  intros Hinv Hk Est.
  destruct (asked o) as [bs|] eqn:Ea; [|rewrite step_fault in Est by exact Ea; discriminate].
  pose proof (ck_active k s Hk) as Hact. destruct Hk as (Hkc & Hkf & Hkd & Hko & Hkn).
  pose proof (proj1 Hinv) as Hc0.
  destruct (io_or_config o) as [Hio|Hio].
  - destruct (step_io s o bs Hinv Hio Ea) as (s1' & d1 & Hst1 & Hi1 & Hc1 & Hf1 & Hd1 & Hall & Htag & Hcat & Hnone & Hdrain).
    rewrite Est in Hst1. injection Hst1 as <- <-.
    assert (Hact1 : active s1 = active s) by (unfold active; rewrite Hf1, Hd1; reflexivity).
    rewrite check_step_io by exact Hio. rewrite Ea, Hact.
    destruct (active s) as [t|] eqn:Eact.
    + assert (Ha : Some t <> None) by discriminate. specialize (Hcat Ha).
      rewrite Hko, Hkc, <- Hcat, take_chunks_app by (try exact Hall; try exact Htag; exact Hc0).
      assert (Hdr : must_drain k o = true -> pending s1 = []).
      { unfold must_drain. destruct Hi1 as (_ & Hn1 & _).
        destruct o; try discriminate; try (intros H0; apply Hn1; lia); intros _; apply Hdrain; reflexivity. }
      destruct (must_drain k o) eqn:Em.
      * rewrite (Hdr eq_refl). cbn [is_nil negb andb].
        eexists _, false; split; [reflexivity|]. intros _. unfold ck_matches, with_outst; cbn [k_cap k_func k_fd k_outst].
        rewrite (Hdr eq_refl), Hact1. repeat split; try congruence; try discriminate.
      * cbn [andb]. eexists _, false; split; [reflexivity|]. intros _.
        unfold ck_matches, with_outst; cbn [k_cap k_func k_fd k_outst]. rewrite Hact1.
        repeat split; try congruence; try discriminate.
    + (* no sink: nothing can have been delivered, and nothing is pending *)
      assert (Hd : d = []).
      { unfold tagged in Htag. destruct d as [|tc d']; [reflexivity|]. inversion Htag; discriminate. }
      subst d. cbn [is_nil]. destruct bs as [|b bs'].
      * cbn [is_nil]. eexists _, false; split; [reflexivity|]. intros _.
        assert (Hp1 : pending s1 = []).
        { destruct (Hnone eq_refl eq_refl) as [Hp|Hp]; [rewrite Hp; apply Hkn; reflexivity|exact Hp]. }
        unfold ck_matches. rewrite Hp1. repeat split; try congruence.
        rewrite Hko. apply Hkn; reflexivity.
      * cbn [is_nil]. eexists _, true; split; [reflexivity|]. discriminate.
  - destruct (step_config s o Hinv Hio) as (s1' & Hst1 & Hi1 & Hm); [rewrite Ea; discriminate|].
    rewrite Est in Hst1. injection Hst1 as <- Hd0; subst d.
    destruct o as [mem len|f| | | |n|n|b|b]; try contradiction; subst s1.
    + cbn [asked] in Ea. destruct (n <? 0) eqn:En; [discriminate|].
      unfold check_step. cbn [is_nil andb]. assert (H0 : (0 <=? n) = true) by lia. rewrite H0.
      eexists _, false; split; [reflexivity|]. intros _.
      unfold ck_matches, set_output_buffer; cbn. repeat split; congruence.
    + cbn [asked] in Ea. destruct (n <? 0) eqn:En; [discriminate|].
      unfold check_step. cbn [is_nil andb]. assert (H0 : (0 <=? n) = true) by lia. rewrite H0.
      eexists _, false; split; [reflexivity|]. intros _.
      unfold ck_matches, set_output_buffer_failed; cbn. repeat split; congruence.
    + unfold check_step. cbn [take_chunks].
      set (k' := mkCk (k_cap k) b (k_fd k) (k_outst k) (k_forfeit k)).
      assert (Hact' : k_active k' = active (set_output_func s b)).
      { unfold k_active, active, k', set_output_func; cbn. rewrite Hkd. reflexivity. }
      destruct (osink_eqb (k_active k) (k_active k') || is_nil (k_outst k)) eqn:Ec.
      * exists k', false. split; [reflexivity|]. intros _.
        unfold ck_matches, k', set_output_func; cbn [k_cap k_func k_fd k_outst cap has_func has_fd pending].
        repeat split; try congruence.
        intros Hnone'. apply orb_prop in Ec. destruct Ec as [Ec|Ec].
        -- apply osink_eqb_eq in Ec. apply Hkn. rewrite <- Hact, Ec, Hact'. exact Hnone'.
        -- rewrite <- Hko. destruct (k_outst k); [reflexivity|discriminate].
      * exists (forfeited k'), true. split; [reflexivity|discriminate].
    + unfold check_step. cbn [take_chunks].
      set (k' := mkCk (k_cap k) (k_func k) b (k_outst k) (k_forfeit k)).
      assert (Hact' : k_active k' = active (set_output_fd s b)).
      { unfold k_active, active, k', set_output_fd; cbn. rewrite Hkf. reflexivity. }
      destruct (osink_eqb (k_active k) (k_active k') || is_nil (k_outst k)) eqn:Ec.
      * exists k', false. split; [reflexivity|]. intros _.
        unfold ck_matches, k', set_output_fd; cbn [k_cap k_func k_fd k_outst cap has_func has_fd pending].
        repeat split; try congruence.
        intros Hnone'. apply orb_prop in Ec. destruct Ec as [Ec|Ec].
        -- apply osink_eqb_eq in Ec. apply Hkn. rewrite <- Hact, Ec, Hact'. exact Hnone'.
        -- rewrite <- Hko. destruct (k_outst k); [reflexivity|discriminate].
      * exists (forfeited k'), true. split; [reflexivity|discriminate].
Qed.

Theorem checker_accepts_run : forall ops s s' outs k, inv s ->
  ck_matches k s -> run s ops = Ok (s', outs) ->
  exists k', check_from k ops outs = Some k'.
Proof.
  induction ops as [|o r IH]; intros s s' outs k Hinv Hk Hrun.
  - cbn in Hrun. injection Hrun as <- <-. exists k. reflexivity.
  - cbn [run] in Hrun. destruct (step s o) as [[s1 d]| |] eqn:Est; try discriminate.
    destruct (run s1 r) as [[s2 ds]| |] eqn:Er; try discriminate. injection Hrun as <- <-.
    destruct (checker_accepts_step s o s1 d k Hinv Hk Est) as (k1 & stop & Hck & Hm).
    cbn [check_from]. rewrite Hck. destruct stop; [exists k1; reflexivity|].
    assert (Hi1 : inv s1).
    { destruct (terminates s o Hinv) as (H & _).
      destruct (asked o) eqn:Ea; [|rewrite step_fault in Est by exact Ea; discriminate].
      destruct H as (s1' & d' & Hst & Hi); [discriminate|]. rewrite Est in Hst. injection Hst as <- <-. exact Hi. }
    apply (IH s1 s2 ds k1 Hi1 (Hm eq_refl) Er).
Qed.

Theorem checker_accepts_model ops func fd s' outs :
  run (init func fd) ops = Ok (s', outs) -> check func fd ops outs = true.
Proof.
  intros Hrun. unfold check.
  destruct (checker_accepts_run ops (init func fd) s' outs (mkCk 0 func fd [] false)) as (k' & Hc); auto.
  - unfold inv, init; cbn [cap pending]. repeat split; auto; lia.
  - unfold ck_matches, init; cbn. repeat split; reflexivity.
  - rewrite Hc. reflexivity.
Qed.

(* what acceptance means: whatever passes the checker without forfeit delivered to every sink
   exactly that sink's unbuffered stream, in order, up to the bytes still outstanding (which
   belong to the active sink); every chunk respected the size in force and went to the active
   sink; nothing was outstanding after a flush *)
Definition outst_to (snk : sink) (k : ck) : list byte :=
  if osink_eqb (k_active k) (Some snk) then k_outst k else [].

Lemma check_step_forfeit_mono k o d k1 stop : check_step k o d = Some (k1, stop) ->
  k_forfeit k1 = false -> k_forfeit k = false /\ stop = false.
Proof.
  unfold check_step. intros H Hf.
  destruct o as [mem len|f| | | |n|n|b|b].
  1-5: (destruct (asked _) as [bs|]; [|discriminate]; destruct (k_active k);
        [destruct (take_chunks _ _ _ _); [|discriminate]; destruct (_ && _); [discriminate|];
         injection H as <- <-; auto
        |destruct (is_nil d); [|discriminate]; destruct (is_nil bs); injection H as <- <-; auto; discriminate]).
  - destruct (is_nil d && (0 <=? n)); [|discriminate]. injection H as <- <-.
    cbn [k_forfeit] in Hf. apply orb_false_iff in Hf. tauto.
  - destruct (is_nil d && (0 <=? n)); [|discriminate]. injection H as <- <-.
    cbn [k_forfeit] in Hf. apply orb_false_iff in Hf. tauto.
  - destruct (take_chunks _ _ _ _); [|discriminate].
    destruct (_ || _); injection H as <- <-; auto; discriminate.
  - destruct (take_chunks _ _ _ _); [|discriminate].
    destruct (_ || _); injection H as <- <-; auto; discriminate.
Qed.

Lemma check_from_forfeit_mono : forall ops outs k k', check_from k ops outs = Some k' ->
  k_forfeit k' = false -> k_forfeit k = false.
Proof.
  induction ops as [|o r IH]; intros outs k k' Hc Hf.
  - destruct outs; [|discriminate]. cbn in Hc. injection Hc as <-. exact Hf.
  - destruct outs as [|d ds]; [discriminate|]. cbn [check_from] in Hc.
    destruct (check_step k o d) as [[k1 stop]|] eqn:Es; [|discriminate].
    destruct stop.
    + injection Hc as <-. apply (check_step_forfeit_mono _ _ _ _ _ Es) in Hf. destruct Hf; discriminate.
    + specialize (IH _ _ _ Hc Hf). apply (check_step_forfeit_mono _ _ _ _ _ Es IH).
Qed.

Theorem checker_sound : forall ops outs k k', check_from k ops outs = Some k' ->
  k_forfeit k' = false ->
  forall snk, exists bs, stream_to snk (k_func k) (k_fd k) ops = Some bs /\
    outst_to snk k ++ bs = to_sink snk (concat outs) ++ outst_to snk k'.
Proof.
  induction ops as [|o r IH]; intros outs k k' Hc Hf snk.
  - destruct outs; [|discriminate]. cbn in Hc. injection Hc as <-. exists []. cbn. split; [reflexivity|].
    apply app_nil_r.
  - destruct outs as [|d ds]; [discriminate|]. cbn [check_from] in Hc.
    destruct (check_step k o d) as [[k1 stop]|] eqn:Es; [|discriminate].
    destruct stop.
    { injection Hc as <-. apply (check_step_forfeit_mono _ _ _ _ _ Es) in Hf. destruct Hf; discriminate. }
    pose proof (check_from_forfeit_mono _ _ _ _ Hc Hf) as Hf1.
    destruct (IH ds k1 k' Hc Hf snk) as (bs' & Hstr & Hcat).
    unfold check_step in Es.
    destruct o as [mem len|f| | | |n|n|b|b].
    1-5: (destruct (asked _) as [bs|] eqn:Ea; [|discriminate];
          destruct (k_active k) as [t|] eqn:Eact;
          [ destruct (take_chunks _ _ _ _) as [rest|] eqn:Et; [|discriminate];
            destruct (_ && _); [discriminate|]; injection Es as <-;
            apply take_chunks_inv in Et; destruct Et as (Et & Htag & _);
            exists ((if is_active snk (k_func k) (k_fd k) then bs else []) ++ bs');
            cbn [stream_to]; rewrite Ea; cbn [with_outst k_func k_fd] in Hstr; rewrite Hstr;
            split; [reflexivity|];
            cbn [concat]; rewrite to_sink_app, <- app_assoc, <- Hcat;
            rewrite (to_sink_tagged snk _ _ Htag);
            unfold outst_to, k_active, with_outst in *; cbn [k_func k_fd k_outst] in *;
            unfold is_active; rewrite Eact;
            destruct (osink_eqb (Some t) (Some snk)); [rewrite !app_assoc, Et; reflexivity|reflexivity]
          | destruct (is_nil d) eqn:Ed; [|discriminate]; destruct d; [|discriminate];
            destruct (is_nil bs) eqn:Eb; [|injection Es as <-; discriminate];
            destruct bs; [|discriminate]; injection Es as <-;
            exists bs'; cbn [stream_to]; rewrite Ea, Hstr;
            split; [destruct (is_active snk _ _); reflexivity|];
            cbn [concat]; rewrite to_sink_app, to_sink_nil; exact Hcat ]).
    + destruct (is_nil d && (0 <=? n)) eqn:Eb; [|discriminate]. injection Es as <-.
      cbn [k_forfeit] in Hf1. apply orb_false_iff in Hf1. destruct Hf1 as (_ & Hnil).
      apply andb_prop in Eb. destruct Eb as (Ed & En).
      destruct d; [|discriminate]. destruct (k_outst k) eqn:Eo; [|discriminate].
      exists bs'. cbn [stream_to asked]. assert (Hn : (n <? 0) = false) by lia.
      cbn [k_func k_fd] in Hstr. rewrite Hn, Hstr.
      split; [destruct (is_active snk _ _); reflexivity|].
      cbn [concat]. rewrite to_sink_app, to_sink_nil. cbn [app]. rewrite <- Hcat.
      unfold outst_to, k_active; cbn [k_func k_fd k_outst]. rewrite Eo.
      destruct (osink_eqb _ _); reflexivity.
    + destruct (is_nil d && (0 <=? n)) eqn:Eb; [|discriminate]. injection Es as <-.
      cbn [k_forfeit] in Hf1. apply orb_false_iff in Hf1. destruct Hf1 as (_ & Hnil).
      apply andb_prop in Eb. destruct Eb as (Ed & En).
      destruct d; [|discriminate]. destruct (k_outst k) eqn:Eo; [|discriminate].
      exists bs'. cbn [stream_to asked]. assert (Hn : (n <? 0) = false) by lia.
      cbn [k_func k_fd] in Hstr. rewrite Hn, Hstr.
      split; [destruct (is_active snk _ _); reflexivity|].
      cbn [concat]. rewrite to_sink_app, to_sink_nil. cbn [app]. rewrite <- Hcat.
      unfold outst_to, k_active; cbn [k_func k_fd k_outst]. rewrite Eo.
      destruct (osink_eqb _ _); reflexivity.
    + cbn [asked]. destruct (take_chunks _ _ _ d) as [rest|] eqn:Et; [|discriminate].
      apply take_chunks_inv in Et. destruct Et as (Et & Htag & _).
      destruct (osink_eqb (k_active k) (k_active (mkCk (k_cap k) b (k_fd k) rest (k_forfeit k))) || is_nil rest) eqn:Ec;
        [|discriminate Es]. injection Es as <-.
      exists bs'. cbn [stream_to asked]. cbn [k_func k_fd] in Hstr. rewrite Hstr.
      split; [destruct (is_active snk _ _); reflexivity|].
      cbn [concat]. rewrite to_sink_app, <- app_assoc, <- Hcat.
      rewrite (to_sink_tagged snk _ _ Htag). unfold outst_to. cbn [k_outst].
      apply orb_prop in Ec. destruct Ec as [Ec|Ec].
      * apply osink_eqb_eq in Ec. rewrite <- Ec.
        destruct (osink_eqb (k_active k) (Some snk)); [rewrite Et, <- app_assoc; reflexivity|reflexivity].
      * destruct rest; [|discriminate]. rewrite app_nil_r in Et.
        destruct (osink_eqb (k_active k) (Some snk)), (osink_eqb _ (Some snk));
          rewrite ?Et, ?app_nil_r; reflexivity.
    + cbn [asked]. destruct (take_chunks _ _ _ d) as [rest|] eqn:Et; [|discriminate].
      apply take_chunks_inv in Et. destruct Et as (Et & Htag & _).
      destruct (osink_eqb (k_active k) (k_active (mkCk (k_cap k) (k_func k) b rest (k_forfeit k))) || is_nil rest) eqn:Ec;
        [|discriminate Es]. injection Es as <-.
      exists bs'. cbn [stream_to asked]. cbn [k_func k_fd] in Hstr. rewrite Hstr.
      split; [destruct (is_active snk _ _); reflexivity|].
      cbn [concat]. rewrite to_sink_app, <- app_assoc, <- Hcat.
      rewrite (to_sink_tagged snk _ _ Htag). unfold outst_to. cbn [k_outst].
      apply orb_prop in Ec. destruct Ec as [Ec|Ec].
      * apply osink_eqb_eq in Ec. rewrite <- Ec.
        destruct (osink_eqb (k_active k) (Some snk)); [rewrite Et, <- app_assoc; reflexivity|reflexivity].
      * destruct rest; [|discriminate]. rewrite app_nil_r in Et.
        destruct (osink_eqb (k_active k) (Some snk)), (osink_eqb _ (Some snk));
          rewrite ?Et, ?app_nil_r; reflexivity.
Qed.

Theorem failed_alloc_unbuffered s n : 0 <= n -> step s (OSetBufFail n) = step s (OSetBuf 0).
Proof. intros H. cbn [step]. destruct (n <? 0) eqn:E; [lia|]. reflexivity. Qed.

(* ---------------- non-vacuity ---------------- *)

(* function AND descriptor set, buffer of 3, writes of 2 (NUL-terminated, len 0) and 5 bytes
   (straddling the buffer end twice), an empty formatted write, a flush; then the function is
   removed while nothing is pending and the descriptor takes over.  The checker accepts the
   run, rejects it when the last function chunk is dropped, and rejects it when the flushes of
   the first part go to the descriptor instead of the function. *)
Example nonvacuous :
  let ops := [OSetBuf 3; OWrite [97; 98; 0] 0; OWrite [99; 100; 101; 102; 103] 5; OWritef []; OFlush;
              OSetFunc false; OWrite [104; 105] 2; OTeardown; OWrite [106] 1; ODestroy] in
  let good := [[]; []; [(SFunc, [97; 98; 99]); (SFunc, [100; 101; 102])]; []; [(SFunc, [103])];
               []; []; [(SFd, [104; 105])]; []; [(SFd, [106])]] in
  run (init true true) ops = Ok (mkOB 3 [] false true, good) /\
  stream_to SFunc true true ops = Some [97; 98; 99; 100; 101; 102; 103] /\
  stream_to SFd true true ops = Some [104; 105; 106] /\
  config_when_drained (init true true) ops /\
  check true true ops good = true /\
  (* what was written after the teardown is never delivered *)
  check true true ops [[]; []; [(SFunc, [97; 98; 99]); (SFunc, [100; 101; 102])]; []; [(SFunc, [103])];
                       []; []; [(SFd, [104; 105])]; []; []] = false /\
  (* the buffered chunks go to the descriptor instead of the function *)
  check true true ops [[]; []; [(SFd, [97; 98; 99]); (SFd, [100; 101; 102])]; []; [(SFd, [103])];
                       []; []; [(SFd, [104; 105])]; []; [(SFd, [106])]] = false /\
  (* a buffer whose allocation fails leaves the terminal unbuffered *)
  run (init true false) [OSetBufFail 18446744073709551615; OWrite [97; 98] 2; ODestroy]
    = Ok (mkOB 0 [] true false, [[]; [(SFunc, [97; 98])]; []]).
Proof.
  vm_compute. repeat split; try reflexivity; intros H; try reflexivity; exfalso; apply H; reflexivity.
Qed.
