(* OutBufProofs.v -- theorems about the model of term.c's output path (property C11). *)
From Coq Require Import ZArith List Bool Lia ZifyBool.
From Tickit Require Import OutBufDefs OutBufSpec.
Import ListNotations.
Local Open Scope Z_scope.

Definition has_sink (s : obuf) : bool := has_func s || has_fd s.

(* the representation invariant of the output buffer: no buffer <-> cap = 0 and then
   nothing is pending; with a buffer, it is never full between calls *)
Definition inv (s : obuf) : Prop :=
  0 <= cap s /\ (cap s = 0 -> pending s = []) /\ (0 < cap s -> zlen (pending s) < cap s).

Definition chunk_ok (cp : Z) (c : chunk) : Prop := 0 < zlen c <= cp.

(* ---------------- small list facts ---------------- *)

Lemma zlen_app {A} (a b : list A) : zlen (a ++ b) = zlen a + zlen b.
Proof. unfold zlen. rewrite app_length. lia. Qed.

Lemma zlen_nonneg {A} (a : list A) : 0 <= zlen a.
Proof. unfold zlen. lia. Qed.

Lemma zlen_nil_iff {A} (a : list A) : zlen a = 0 <-> a = [].
Proof. unfold zlen. destruct a; cbn [length]; split; intros H; try reflexivity; try discriminate; lia. Qed.

Lemma zlen_firstn {A} (n : nat) (l : list A) : (n <= length l)%nat -> zlen (firstn n l) = Z.of_nat n.
Proof. intros H. unfold zlen. rewrite firstn_length_le by exact H. reflexivity. Qed.

Lemma concat_rev_app (d1 d2 : list chunk) : concat (d1 ++ d2) = concat d1 ++ concat d2.
Proof. apply concat_app. Qed.

(* ---------------- deliver / flush ---------------- *)

Lemma deliver_sink s c : has_sink s = true -> c <> [] -> deliver s c = [c].
Proof.
  unfold has_sink, deliver. intros Hs Hc.
  destruct (has_func s) eqn:Ef; [reflexivity|].
  destruct (has_fd s) eqn:Ed; [|discriminate].
  destruct c; [contradiction|reflexivity].
Qed.

Lemma deliver_concat s c : has_sink s = true -> concat (deliver s c) = c.
Proof.
  unfold has_sink, deliver. intros Hs.
  destruct (has_func s) eqn:Ef; [cbn; apply app_nil_r|].
  destruct (has_fd s) eqn:Ed; [|discriminate].
  destruct c; [reflexivity|cbn; rewrite app_nil_r; reflexivity].
Qed.

Lemma deliver_subset s c : deliver s c = [] \/ deliver s c = [c].
Proof.
  unfold deliver. destruct (has_func s); [right; reflexivity|].
  destruct (has_fd s); [|left; reflexivity].
  destruct c; [left|right]; reflexivity.
Qed.

Lemma flush_props s s' d : flush s = (s', d) ->
  pending s' = [] /\ cap s' = cap s /\ has_func s' = has_func s /\ has_fd s' = has_fd s /\
  (d = [] \/ d = [pending s] /\ pending s <> []) /\
  (has_sink s = true -> concat d = pending s).
Proof.
  unfold flush. destruct (pending s) as [|b r] eqn:Ep.
  - intros [= <- <-]. rewrite Ep. repeat split; auto.
  - intros [= <- <-]. cbn [with_pending pending cap has_func has_fd].
    repeat split; auto.
    + destruct (deliver_subset s (b :: r)) as [H|H]; [left; exact H|right; split; [exact H|discriminate]].
    + intros Hs. apply deliver_concat; exact Hs.
Qed.

(* ---------------- the chunk loop ---------------- *)

Lemma write_loop_unfold fuel s out str : str <> [] ->
  write_loop (S fuel) s out str =
    if cap s - zlen (pending s) <? 0 then Fault else
    let space := if zlen str <? cap s - zlen (pending s) then zlen str else cap s - zlen (pending s) in
    let n := Z.to_nat space in
    let s1 := with_pending s (pending s ++ firstn n str) in
    if zlen (pending s1) >=? cap s
    then let '(s2, d) := flush s1 in write_loop fuel s2 (rev_append d out) (skipn n str)
    else write_loop fuel s1 out (skipn n str).
Proof. destruct str; [contradiction|reflexivity]. Qed.

(* With 0 <= pending < cap, [length str] units of fuel suffice (each iteration consumes
   at least one byte); the state keeps the invariant; with a sink nothing is lost. *)
Lemma write_loop_spec : forall fuel str s out,
  0 < cap s -> zlen (pending s) < cap s -> (length str <= fuel)%nat ->
  exists s' d,
    write_loop fuel s out str = Ok (s', rev d ++ out) /\
    cap s' = cap s /\ has_func s' = has_func s /\ has_fd s' = has_fd s /\
    zlen (pending s') < cap s /\
    Forall (chunk_ok (cap s)) d /\
    (has_sink s = true -> concat d ++ pending s' = pending s ++ str).
Proof.
  induction fuel as [|fuel IH]; intros str s out Hcap Hpend Hfuel.
  - destruct str as [|b r]; [|cbn [length] in Hfuel; lia].
    exists s, []. cbn. repeat split; auto. intros _. rewrite app_nil_r; reflexivity.
  - destruct str as [|b r].
    { exists s, []. cbn. repeat split; auto. intros _. rewrite app_nil_r; reflexivity. }
    rewrite write_loop_unfold by discriminate.
    remember (b :: r) as str eqn:Estr.
    assert (Hlen : 0 < zlen str) by (subst str; unfold zlen; cbn [length]; lia).
    destruct (cap s - zlen (pending s) <? 0) eqn:Eneg; [lia|].
    set (space := if zlen str <? cap s - zlen (pending s) then zlen str else cap s - zlen (pending s)).
    assert (Hsp : 0 < space <= zlen str /\ space <= cap s - zlen (pending s)).
    { unfold space. destruct (zlen str <? cap s - zlen (pending s)) eqn:E; lia. }
    set (n := Z.to_nat space).
    assert (Hn : (1 <= n <= length str)%nat) by (unfold n, zlen in *; lia).
    assert (Hp1 : zlen (pending s ++ firstn n str) = zlen (pending s) + space).
    { rewrite zlen_app, zlen_firstn by lia. unfold n. lia. }
    assert (Hskip : (length (skipn n str) <= fuel)%nat).
    { rewrite skipn_length. lia. }
    cbn [with_pending pending cap]. cbv zeta. fold space. fold n.
    destruct (zlen (pending s ++ firstn n str) >=? cap s) eqn:Efull.
    + (* buffer full: flush, go on with an empty buffer *)
      destruct (flush (with_pending s (pending s ++ firstn n str))) as [s2 dl] eqn:Efl.
      apply flush_props in Efl. cbn [with_pending pending cap has_func has_fd] in Efl.
      destruct Efl as (Hp2 & Hc2 & Hf2 & Hd2 & Hdl & Hcat).
      destruct (IH (skipn n str) s2 (rev_append dl out)) as (s' & d & Hrun & Hc' & Hf' & Hd' & Hp' & Hall & Hstream).
      { lia. } { rewrite Hp2. unfold zlen; cbn [length]. lia. } { exact Hskip. }
      exists s', (dl ++ d). rewrite Hrun. split.
      { rewrite rev_append_rev, rev_app_distr, app_assoc. reflexivity. }
      rewrite Hc2 in *. split; [exact Hc'|]. split; [congruence|]. split; [congruence|].
      split; [exact Hp'|]. split.
      { apply Forall_app. split; [|exact Hall].
        destruct Hdl as [->|[-> Hne]]; [constructor|].
        constructor; [|constructor]. unfold chunk_ok. lia. }
      intros Hs. rewrite concat_app, <- app_assoc, Hstream.
      * rewrite Hp2, Hcat by exact Hs. cbn [app]. rewrite <- app_assoc, firstn_skipn. reflexivity.
      * unfold has_sink in *. rewrite Hf2, Hd2. exact Hs.
    + (* everything fitted *)
      destruct (IH (skipn n str) (with_pending s (pending s ++ firstn n str)) out)
        as (s' & d & Hrun & Hc' & Hf' & Hd' & Hp' & Hall & Hstream).
      { exact Hcap. } { cbn [with_pending pending cap]. lia. } { exact Hskip. }
      cbn [with_pending pending cap has_func has_fd] in *.
      exists s', d. rewrite Hrun. repeat split; auto.
      intros Hs. rewrite Hstream by exact Hs. rewrite <- app_assoc, firstn_skipn. reflexivity.
Qed.

(* ---------------- requested bytes ---------------- *)

Lemma until_nul_strlen mem : until_nul mem =
  match c_strlen mem with Some n => Some (firstn n mem) | None => None end.
Proof.
  induction mem as [|b r IH]; [reflexivity|].
  cbn [until_nul c_strlen]. destruct (b =? 0); [reflexivity|].
  rewrite IH. destruct (c_strlen r); reflexivity.
Qed.

Lemma asked_write mem len : asked (OWrite mem len) = req_bytes mem len.
Proof.
  unfold asked, req_bytes. destruct (len =? 0); [apply until_nul_strlen|reflexivity].
Qed.

Lemma until_nul_app_nul f : Forall (fun b => b <> 0) f -> until_nul (f ++ [0]) = Some f.
Proof.
  induction f as [|b r IH]; intros H; [reflexivity|].
  inversion H as [|? ? Hb Hr]; subst. cbn [app until_nul].
  destruct (b =? 0) eqn:E; [lia|]. rewrite IH by exact Hr. reflexivity.
Qed.

(* write_strf asks for exactly the formatted bytes, empty or not, NULs inside or not *)
Lemma req_bytes_strf (f : list byte) : req_bytes (f ++ [0]) (zlen f) = Some f.
Proof.
  unfold req_bytes. destruct (zlen f =? 0) eqn:E.
  - assert (f = []) as -> by (apply zlen_nil_iff; lia). reflexivity.
  - assert (H : (0 <? zlen f) && (zlen f <=? zlen (f ++ [0])) = true).
    { rewrite zlen_app. pose proof (zlen_nonneg f). change (zlen [0]) with 1. lia. }
    unfold byte in *. rewrite H. f_equal. unfold zlen. rewrite Nat2Z.id.
    rewrite firstn_app, Nat.sub_diag, firstn_all. cbn [firstn]. apply app_nil_r.
Qed.

(* ---------------- one operation ---------------- *)

Lemma write_str_spec s mem len data : inv s -> req_bytes mem len = Some data ->
  exists s' d,
    write_str s mem len = Ok (s', d) /\ inv s' /\
    cap s' = cap s /\ has_func s' = has_func s /\ has_fd s' = has_fd s /\
    (0 < cap s -> Forall (chunk_ok (cap s)) d) /\
    (has_sink s = true -> concat d ++ pending s' = pending s ++ data).
Proof.
  intros (Hc0 & Hnil & Hlt) Hreq. unfold write_str. rewrite Hreq.
  destruct (0 <? cap s) eqn:Ecap.
  - destruct (write_loop_spec (S (length data)) data s []) as (s' & d & Hrun & Hc' & Hf' & Hd' & Hp' & Hall & Hstream).
    { lia. } { apply Hlt; lia. } { lia. }
    rewrite Hrun. exists s', d. rewrite app_nil_r, rev_involutive.
    split; [reflexivity|]. split.
    { unfold inv. rewrite Hc'. split; [lia|]. split; [lia|]. intros _; exact Hp'. }
    repeat split; auto.
  - exists s, (deliver s data). split; [reflexivity|]. split; [unfold inv; auto|].
    repeat split; auto; [lia|].
    intros Hs. rewrite Hnil by lia. rewrite deliver_concat by exact Hs. rewrite app_nil_r. reflexivity.
Qed.

Definition same_sinks (s s' : obuf) : Prop :=
  (has_func s = true -> has_func s' = true) /\ (has_fd s = true -> has_fd s' = true).

Lemma step_spec s o bs : inv s -> asked o = Some bs ->
  exists s' d,
    step s o = Ok (s', d) /\ inv s' /\ (has_sink s = true -> has_sink s' = true) /\
    match o with
    | OSetBuf n => cap s' = n /\ pending s' = [] /\ d = []
    | _ => cap s' = cap s /\
           (0 < cap s -> Forall (chunk_ok (cap s)) d) /\
           (has_sink s = true -> concat d ++ pending s' = pending s ++ bs)
    end.
Proof.
  intros Hinv Hask. destruct o as [mem len|f| |n| |]; cbn [step].
  - rewrite asked_write in Hask.
    destruct (write_str_spec s mem len bs Hinv Hask) as (s' & d & Hw & Hi & Hc & Hf & Hd & Hall & Hst).
    exists s', d. split; [exact Hw|]. split; [exact Hi|].
    split; [unfold has_sink; rewrite Hf, Hd; auto|]. auto.
  - cbn [asked] in Hask. injection Hask as <-. unfold write_strf.
    destruct (write_str_spec s (f ++ [0]) (zlen f) f Hinv (req_bytes_strf f)) as (s' & d & Hw & Hi & Hc & Hf & Hd & Hall & Hst).
    exists s', d. split; [exact Hw|]. split; [exact Hi|].
    split; [unfold has_sink; rewrite Hf, Hd; auto|]. auto.
  - cbn [asked] in Hask. injection Hask as <-.
    destruct (flush s) as [s' d] eqn:Efl. pose proof (flush_props _ _ _ Efl) as (Hp & Hc & Hf & Hd & Hdl & Hcat).
    exists s', d. split; [reflexivity|]. destruct Hinv as (Hc0 & Hnil & Hlt). split.
    { unfold inv. rewrite Hc, Hp. repeat split; auto; intros; unfold zlen; cbn [length]; lia. }
    split. { unfold has_sink. rewrite Hf, Hd. auto. }
    split; [exact Hc|]. split.
    + intros Hpos. destruct Hdl as [->|[-> Hne]]; [constructor|].
      constructor; [|constructor]. unfold chunk_ok. specialize (Hlt Hpos).
      assert (zlen (pending s) <> 0) by (rewrite zlen_nil_iff; exact Hne).
      pose proof (zlen_nonneg (pending s)). lia.
    + intros Hs. rewrite Hp, !app_nil_r. apply Hcat; exact Hs.
  - cbn [asked] in Hask. destruct (n <? 0) eqn:En; [discriminate|].
    exists (set_output_buffer s n), []. split; [reflexivity|].
    unfold set_output_buffer, inv, has_sink; cbn [cap pending has_func has_fd].
    repeat split; auto; try lia; intros; unfold zlen; cbn [length]; lia.
  - cbn [asked] in Hask. injection Hask as <-.
    exists (set_output_func s), []. split; [reflexivity|].
    unfold set_output_func, inv, has_sink; cbn [cap pending has_func has_fd].
    destruct Hinv as (Hc0 & Hnil & Hlt). repeat split; auto. intros _. cbn [concat app]. rewrite app_nil_r; reflexivity.
  - cbn [asked] in Hask. injection Hask as <-.
    exists (set_output_fd s), []. split; [reflexivity|].
    unfold set_output_fd, inv, has_sink; cbn [cap pending has_func has_fd].
    destruct Hinv as (Hc0 & Hnil & Hlt). repeat split; auto.
    + intros _. apply orb_true_r.
    + intros _. cbn [concat app]. rewrite app_nil_r; reflexivity.
Qed.

(* a malformed request (reads outside the caller's string, negative size) is a Fault,
   never a normal result *)
Lemma step_fault s o : asked o = None -> step s o = Fault.
Proof.
  destruct o as [mem len|f| |n| |]; cbn [step asked]; try discriminate.
  - intros H. change (asked (OWrite mem len) = None) in H. rewrite asked_write in H.
    unfold write_str. rewrite H. reflexivity.
  - destruct (n <? 0); [reflexivity|discriminate].
Qed.

(* ---------------- C11_terminates ---------------- *)

Theorem terminates s o : inv s ->
  (asked o <> None -> exists s' d, step s o = Ok (s', d) /\ inv s') /\
  step s o <> OutOfFuel.
Proof.
  intros Hinv. destruct (asked o) as [bs|] eqn:Ea.
  - destruct (step_spec s o bs Hinv Ea) as (s' & d & Hst & Hi & _).
    split; [intros _; exists s', d; auto|]. rewrite Hst; discriminate.
  - split; [intros H; contradiction|]. rewrite step_fault by exact Ea. discriminate.
Qed.

Theorem loop_fuel_bound fuel str s out :
  0 < cap s -> zlen (pending s) < cap s -> (length str <= fuel)%nat ->
  exists r, write_loop fuel s out str = Ok r.
Proof.
  intros H1 H2 H3. destruct (write_loop_spec fuel str s out H1 H2 H3) as (s' & d & Hr & _).
  eexists; exact Hr.
Qed.

(* ---------------- C11_flush_drains / C11_chunk_bound ---------------- *)

Theorem flush_drains s s' d : step s OFlush = Ok (s', d) ->
  pending s' = [] /\ (has_sink s = true -> concat d = pending s).
Proof.
  cbn [step]. intros [= H]. apply flush_props in H. tauto.
Qed.

Theorem chunk_bound s o s' d : inv s -> step s o = Ok (s', d) -> 0 < cap s ->
  Forall (chunk_ok (cap s)) d.
Proof.
  intros Hinv Hst Hpos. destruct (asked o) as [bs|] eqn:Ea.
  - destruct (step_spec s o bs Hinv Ea) as (s1 & d1 & Hst1 & _ & _ & Hm).
    rewrite Hst in Hst1. injection Hst1 as <- <-.
    destruct o; try (destruct Hm as (_ & Hall & _); apply Hall; exact Hpos).
    destruct Hm as (_ & _ & ->). constructor.
  - rewrite step_fault in Hst by exact Ea. discriminate.
Qed.

(* histories that do not resize: every chunk of the whole run is bounded by the one size *)
Fixpoint no_resize (ops : list op) : Prop :=
  match ops with [] => True | OSetBuf _ :: _ => False | _ :: r => no_resize r end.

Theorem chunk_bound_run : forall ops s s' outs, inv s -> no_resize ops -> 0 < cap s ->
  run s ops = Ok (s', outs) -> Forall (chunk_ok (cap s)) (concat outs).
Proof.
  induction ops as [|o r IH]; intros s s' outs Hinv Hnr Hpos Hrun.
  - cbn in Hrun. injection Hrun as <- <-. constructor.
  - cbn [run] in Hrun. destruct (step s o) as [[s1 d]| |] eqn:Est; try discriminate.
    destruct (run s1 r) as [[s2 ds]| |] eqn:Er; try discriminate. injection Hrun as <- <-.
    cbn [concat]. apply Forall_app. split; [apply (chunk_bound s o s1); assumption|].
    destruct (asked o) as [bs|] eqn:Ea; [|rewrite step_fault in Est by exact Ea; discriminate].
    destruct (step_spec s o bs Hinv Ea) as (s1' & d1 & Hst1 & Hi1 & _ & Hm).
    rewrite Est in Hst1. injection Hst1 as <- <-.
    assert (Hc : cap s1 = cap s /\ no_resize r).
    { destruct o; cbn [no_resize] in Hnr; try contradiction; destruct Hm as (Hc & _); auto. }
    destruct Hc as (Hc & Hnr'). rewrite <- Hc. eapply IH; eauto. lia.
Qed.

(* ---------------- C11_stream ---------------- *)

Theorem stream_run : forall ops s s' outs, inv s -> has_sink s = true ->
  sized_when_drained s ops -> run s ops = Ok (s', outs) ->
  exists bs, stream ops = Some bs /\ concat (concat outs) ++ pending s' = pending s ++ bs /\ inv s'.
Proof.
  induction ops as [|o r IH]; intros s s' outs Hinv Hs Hsz Hrun.
  - cbn in Hrun. injection Hrun as <- <-. exists []. cbn. rewrite app_nil_r. auto.
  - cbn [run] in Hrun. destruct (step s o) as [[s1 d]| |] eqn:Est; try discriminate.
    destruct (run s1 r) as [[s2 ds]| |] eqn:Er; try discriminate. injection Hrun as <- <-.
    destruct (asked o) as [bs|] eqn:Ea; [|rewrite step_fault in Est by exact Ea; discriminate].
    destruct (step_spec s o bs Hinv Ea) as (s1' & d1 & Hst1 & Hi1 & Hs1 & Hm).
    rewrite Est in Hst1. injection Hst1 as <- <-.
    cbn [sized_when_drained] in Hsz. rewrite Est in Hsz. destruct Hsz as (Hdr & Hsz').
    destruct (IH s1 s2 ds Hi1 (Hs1 Hs) Hsz' Er) as (bs' & Hstr & Hcat & Hi2).
    exists (bs ++ bs'). cbn [stream]. rewrite Ea, Hstr. split; [reflexivity|]. split; [|exact Hi2].
    cbn [concat]. rewrite concat_app, <- app_assoc, Hcat.
    destruct o as [mem len|f| |n| |];
      try (destruct Hm as (_ & _ & Hst); rewrite !app_assoc, (Hst Hs); reflexivity).
    destruct Hm as (_ & Hp & ->). cbn [asked] in Ea. destruct (n <? 0); [discriminate|].
    injection Ea as <-. rewrite Hp, Hdr. reflexivity.
Qed.

(* the syntactic condition implies the semantic one *)
Lemma resize_after_flush_sound : forall ops s dr, inv s ->
  (dr = true -> pending s = []) -> resize_after_flush dr ops = true -> sized_when_drained s ops.
Proof.
  induction ops as [|o r IH]; intros s dr Hinv Hdr Hsyn; [exact I|].
  cbn [sized_when_drained]. split.
  - destruct o; auto. cbn [resize_after_flush] in Hsyn. apply andb_prop in Hsyn. apply Hdr; tauto.
  - destruct (step s o) as [[s1 d]| |] eqn:Est; auto.
    destruct (asked o) as [bs|] eqn:Ea; [|rewrite step_fault in Est by exact Ea; discriminate].
    destruct (step_spec s o bs Hinv Ea) as (s1' & d1 & Hst1 & Hi1 & _ & Hm).
    rewrite Est in Hst1. injection Hst1 as <- <-.
    destruct o as [mem len|f| |n| |]; cbn [resize_after_flush] in Hsyn.
    + apply (IH s1 false); auto. discriminate.
    + apply (IH s1 false); auto. discriminate.
    + apply (IH s1 true); auto. intros _. cbn [step] in Est. injection Est as Est.
      apply flush_props in Est. tauto.
    + apply andb_prop in Hsyn. apply (IH s1 true); try tauto.
    + apply (IH s1 dr); auto. intros H. cbn [step] in Est. injection Est as <- _.
      cbn [set_output_func pending]. auto.
    + apply (IH s1 dr); auto. intros H. cbn [step] in Est. injection Est as <- _.
      cbn [set_output_fd pending]. auto.
Qed.

(* the unbuffered history: never anything pending, and it runs whenever the buffered one does *)
Lemma unbuffered_run : forall ops s, inv s -> cap s = 0 -> has_sink s = true ->
  forall bs, stream ops = Some bs ->
  exists s' outs, run s (unbuffered ops) = Ok (s', outs) /\ pending s' = [] /\
                  concat (concat outs) = bs.
Proof.
  induction ops as [|o r IH]; intros s Hinv Hcap Hs bs Hstr.
  - cbn in Hstr. injection Hstr as <-. exists s, []. cbn. destruct Hinv as (_ & Hn & _). auto.
  - cbn [stream] in Hstr. destruct (asked o) as [a|] eqn:Ea; [|discriminate].
    destruct (stream r) as [b|] eqn:Er; [|discriminate]. injection Hstr as <-.
    set (o' := match o with OSetBuf _ => OSetBuf 0 | _ => o end).
    assert (Ea' : asked o' = Some a).
    { destruct o; try exact Ea. cbn [asked] in *. destruct (n <? 0); [discriminate|exact Ea]. }
    destruct (step_spec s o' a Hinv Ea') as (s1 & d & Hst & Hi1 & Hs1 & Hm).
    assert (Hc1 : cap s1 = 0 /\ concat d = a).
    { destruct Hinv as (_ & Hn & _). specialize (Hn Hcap).
      destruct o; cbn [o'] in Hm;
        try (destruct Hm as (Hc & _ & Hcat); specialize (Hcat Hs); destruct Hi1 as (_ & Hn1 & _);
             rewrite Hn, (Hn1 (eq_trans Hc Hcap)), app_nil_r in Hcat; cbn [app] in Hcat; split; [congruence|exact Hcat]).
      destruct Hm as (Hc & _ & ->). cbn [asked] in Ea. destruct (n <? 0); [discriminate|].
      injection Ea as <-. auto. }
    destruct Hc1 as (Hc1 & Hd).
    destruct (IH s1 Hi1 Hc1 (Hs1 Hs) b eq_refl) as (s' & outs & Hrun & Hp & Hcat).
    exists s', (d :: outs). cbn [unbuffered map run]. fold (unbuffered r). fold o'.
    rewrite Hst, Hrun. split; [reflexivity|]. split; [exact Hp|].
    cbn [concat]. rewrite concat_app, Hd, Hcat. reflexivity.
Qed.

Theorem transparent ops func fd s' outs :
  func || fd = true -> sized_when_drained (init func fd) ops ->
  run (init func fd) ops = Ok (s', outs) ->
  exists s0 outs0,
    run (init func fd) (unbuffered ops) = Ok (s0, outs0) /\ pending s0 = [] /\
    concat (concat outs) ++ pending s' = concat (concat outs0) /\
    stream ops = Some (concat (concat outs0)).
Proof.
  intros Hs Hsz Hrun.
  assert (Hinv : inv (init func fd)).
  { unfold inv, init; cbn [cap pending]. repeat split; auto; lia. }
  destruct (stream_run ops _ _ _ Hinv Hs Hsz Hrun) as (bs & Hstr & Hcat & _).
  destruct (unbuffered_run ops _ Hinv eq_refl Hs bs Hstr) as (s0 & outs0 & Hrun0 & Hp0 & Hcat0).
  exists s0, outs0. cbn [init pending app] in Hcat. repeat split; auto; congruence.
Qed.

(* ---------------- the checker ---------------- *)

Lemma strip_prefix_app p l : strip_prefix p (p ++ l) = Some l.
Proof. induction p as [|a p IH]; [reflexivity|]. cbn. rewrite Z.eqb_refl. exact IH. Qed.

Lemma strip_prefix_inv : forall p l r, strip_prefix p l = Some r -> l = p ++ r.
Proof.
  induction p as [|a p IH]; intros l r H; [cbn in H; injection H as <-; reflexivity|].
  destruct l as [|b l]; [discriminate|]. cbn in H. destruct (a =? b) eqn:E; [|discriminate].
  apply Z.eqb_eq in E. subst b. rewrite (IH _ _ H). reflexivity.
Qed.

Lemma take_chunks_app : forall d cp rest, 0 <= cp -> (0 < cp -> Forall (chunk_ok cp) d) ->
  take_chunks cp (concat d ++ rest) d = Some rest.
Proof.
  induction d as [|c d IH]; intros cp rest Hnn Hall; [reflexivity|].
  cbn [take_chunks concat].
  assert (Hb : (cp =? 0) || (zlen c <=? cp) = true).
  { destruct (cp =? 0) eqn:E; [reflexivity|]. cbn [orb].
    destruct (Z.leb_spec (zlen c) cp) as [|Hgt]; [reflexivity|].
    destruct (Z.ltb_spec 0 cp) as [Hpos|Hneg].
    - specialize (Hall Hpos). inversion Hall as [|? ? Hc _]; subst. unfold chunk_ok in Hc. lia.
    - lia. }
  rewrite Hb, <- app_assoc, strip_prefix_app. apply IH; [exact Hnn|].
  intros Hpos. specialize (Hall Hpos). inversion Hall; assumption.
Qed.

Lemma take_chunks_inv : forall d cp o rest, take_chunks cp o d = Some rest ->
  o = concat d ++ rest /\ (0 < cp -> Forall (fun c => zlen c <= cp) d).
Proof.
  induction d as [|c d IH]; intros cp o rest H.
  - cbn in H. injection H as <-. split; [reflexivity|constructor].
  - cbn [take_chunks] in H. destruct ((cp =? 0) || (zlen c <=? cp)) eqn:Eb; [|discriminate].
    destruct (strip_prefix c o) as [o'|] eqn:Es; [|discriminate].
    apply strip_prefix_inv in Es. destruct (IH _ _ _ H) as (Ho' & Hall).
    split; [cbn [concat]; rewrite <- app_assoc, <- Ho'; exact Es|].
    intros Hpos. constructor; [|apply Hall; exact Hpos].
    destruct (cp =? 0) eqn:E; [lia|]. cbn [orb] in Eb. lia.
Qed.

Definition is_resize (o : op) : bool := match o with OSetBuf _ => true | _ => false end.

Lemma check_step_nonresize k o d : is_resize o = false ->
  check_step k o d =
    match asked o with
    | None => None
    | Some bs =>
      match take_chunks (k_cap k) (k_outst k ++ bs) d with
      | None => None
      | Some rest => if must_drain k o && negb (is_nil rest) then None
                     else Some (mkCk (k_cap k) rest (k_forfeit k))
      end
    end.
Proof. destruct o; try reflexivity. discriminate. Qed.

(* the checker's state matches the model's: same size, outstanding = pending *)
Definition ck_matches (k : ck) (s : obuf) : Prop := k_cap k = cap s /\ k_outst k = pending s.

Theorem checker_accepts_run : forall ops s s' outs k, inv s -> has_sink s = true ->
  ck_matches k s -> run s ops = Ok (s', outs) ->
  exists k', check_from k ops outs = Some k' /\ ck_matches k' s'.
Proof.
  induction ops as [|o r IH]; intros s s' outs k Hinv Hs Hk Hrun.
  - cbn in Hrun. injection Hrun as <- <-. exists k. split; [reflexivity|exact Hk].
  - cbn [run] in Hrun. destruct (step s o) as [[s1 d]| |] eqn:Est; try discriminate.
    destruct (run s1 r) as [[s2 ds]| |] eqn:Er; try discriminate. injection Hrun as <- <-.
    destruct (asked o) as [bs|] eqn:Ea; [|rewrite step_fault in Est by exact Ea; discriminate].
    destruct (step_spec s o bs Hinv Ea) as (s1' & d1 & Hst1 & Hi1 & Hs1 & Hm).
    rewrite Est in Hst1. injection Hst1 as <- <-.
    destruct Hk as (Hkc & Hko). pose proof (proj1 Hinv) as Hc0.
    assert (Hstep : exists k1, check_step k o d = Some k1 /\ ck_matches k1 s1).
    { destruct (is_resize o) eqn:Eo.
      - destruct o as [mem len|f| |n| |]; try discriminate.
        destruct Hm as (Hc & Hp & ->). cbn [asked] in Ea. destruct (n <? 0) eqn:En; [discriminate|].
        unfold check_step. cbn [is_nil andb]. assert (H0 : (0 <=? n) = true) by lia. rewrite H0.
        eexists; split; [reflexivity|]. split; cbn [k_cap k_outst]; [lia|congruence].
      - assert (Hm' : cap s1 = cap s /\ (0 < cap s -> Forall (chunk_ok (cap s)) d) /\
                      (has_sink s = true -> concat d ++ pending s1 = pending s ++ bs)).
        { destruct o; try exact Hm. discriminate. }
        destruct Hm' as (Hc & Hall & Hcat). specialize (Hcat Hs).
        assert (Hdr : must_drain k o = true -> pending s1 = []).
        { unfold must_drain. destruct Hi1 as (_ & Hn1 & _).
          destruct o; try (intros H0; apply Hn1; lia).
          intros _. cbn [step] in Est. injection Est as Est. apply flush_props in Est. tauto. }
        rewrite check_step_nonresize by exact Eo.
        rewrite Ea, Hko, Hkc, <- Hcat, take_chunks_app by (try exact Hall; exact Hc0).
        destruct (must_drain k o) eqn:Em.
        + rewrite (Hdr eq_refl). cbn [is_nil negb andb].
          eexists; split; [reflexivity|]. split; cbn [k_cap k_outst]; [lia|symmetry; exact (Hdr eq_refl)].
        + cbn [andb]. eexists; split; [reflexivity|]. split; cbn [k_cap k_outst]; [lia|reflexivity]. }
    destruct Hstep as (k1 & Hck & Hk1).
    destruct (IH s1 s2 ds k1 Hi1 (Hs1 Hs) Hk1 Er) as (k' & Hcf & Hk').
    exists k'. cbn [check_from]. rewrite Hck. auto.
Qed.

Theorem checker_accepts_model ops func fd s' outs :
  run (init func fd) ops = Ok (s', outs) -> check (func || fd) ops outs = true.
Proof.
  intros Hrun. unfold check. destruct (func || fd) eqn:Hs; [|reflexivity].
  destruct (checker_accepts_run ops (init func fd) s' outs (mkCk 0 [] false)) as (k' & Hc & _); auto.
  - unfold inv, init; cbn [cap pending]. repeat split; auto; lia.
  - split; reflexivity.
  - rewrite Hc. reflexivity.
Qed.

(* what acceptance means: whatever passes the checker without forfeit delivered exactly
   the unbuffered stream, in order, up to the bytes still outstanding; every chunk
   respected the size in force; nothing was outstanding after a flush *)
Theorem checker_sound : forall ops outs k k', check_from k ops outs = Some k' ->
  k_forfeit k' = false ->
  exists bs, stream ops = Some bs /\ k_outst k ++ bs = concat (concat outs) ++ k_outst k'.
Proof.
  induction ops as [|o r IH]; intros outs k k' Hc Hf.
  - destruct outs; [|discriminate]. cbn in Hc. injection Hc as <-. exists []. cbn. split; [reflexivity|].
    apply app_nil_r.
  - destruct outs as [|d ds]; [discriminate|]. cbn [check_from] in Hc.
    destruct (check_step k o d) as [k1|] eqn:Es; [|discriminate].
    destruct (IH ds k1 k' Hc Hf) as (bs' & Hstr & Hcat).
    assert (Hmono : forall ops outs k k', check_from k ops outs = Some k' -> k_forfeit k' = false -> k_forfeit k = false).
    { clear. induction ops as [|o r IH]; intros outs k k' Hc Hf.
      - destruct outs; [|discriminate]. cbn in Hc. injection Hc as <-. exact Hf.
      - destruct outs as [|d ds]; [discriminate|]. cbn [check_from] in Hc.
        destruct (check_step k o d) as [k1|] eqn:Es; [|discriminate].
        specialize (IH _ _ _ Hc Hf). unfold check_step in Es.
        destruct o; try (destruct (asked _); [|discriminate]; destruct (take_chunks _ _ _); [|discriminate];
                         destruct (_ && _); [discriminate|]; injection Es as <-; exact IH).
        destruct (is_nil d && (0 <=? n)); [|discriminate]. injection Es as <-.
        cbn [k_forfeit] in IH. apply orb_false_iff in IH. tauto. }
    pose proof (Hmono _ _ _ _ Hc Hf) as Hf1.
    unfold check_step in Es.
    destruct o as [mem len|f| |n| |];
      try (destruct (asked _) as [bs|] eqn:Ea; [|discriminate];
           destruct (take_chunks _ _ _) as [rest|] eqn:Et; [|discriminate];
           destruct (_ && _); [discriminate|]; injection Es as <-;
           apply take_chunks_inv in Et; destruct Et as (Et & _);
           exists (bs ++ bs'); cbn [stream]; rewrite Ea, Hstr; split; [reflexivity|];
           cbn [k_outst concat] in *; rewrite concat_app, app_assoc, Et, <- !app_assoc, Hcat; reflexivity).
    destruct (is_nil d && (0 <=? n)) eqn:Eb; [|discriminate]. injection Es as <-.
    cbn [k_forfeit k_outst] in *. apply orb_false_iff in Hf1. destruct Hf1 as (_ & Hnil).
    apply andb_prop in Eb. destruct Eb as (Ed & En).
    destruct d; [|discriminate]. destruct (k_outst k); [|discriminate].
    exists bs'. cbn [stream asked]. assert (Hn : (n <? 0) = false) by lia. rewrite Hn, Hstr.
    split; [reflexivity|]. cbn [concat app] in *. exact Hcat.
Qed.

(* ---------------- non-vacuity ---------------- *)

(* buffer of 3, writes of 2, 5 (straddling twice), an empty one, a flush *)
Example nonvacuous :
  let ops := [OSetBuf 3; OWrite [97; 98; 0] 0; OWrite [99; 100; 101; 102; 103] 5; OWritef []; OFlush] in
  run (init true false) ops =
    Ok (mkOB 3 [] true false, [[]; []; [[97; 98; 99]; [100; 101; 102]]; []; [[103]]]) /\
  stream ops = Some [97; 98; 99; 100; 101; 102; 103] /\
  sized_when_drained (init true false) ops /\
  check true ops [[]; []; [[97; 98; 99]; [100; 101; 102]]; []; [[103]]] = true /\
  check true ops [[]; []; [[97; 98; 99]; [100; 101; 102]]; []; []] = false.
Proof. vm_compute. repeat split; reflexivity. Qed.
