(* WinReDefs.v -- expose handlers that RE-ENTER the window layer during a flush (property
   C01): besides drawing, a handler may call tickit_window_expose / show / hide / raise /
   lower / raise_to_front / lower_to_back / close on any window, or drop the last references
   to one (its own included).  Restacks are queued; show and hide change visibility flags that
   _do_expose reads as it goes; close takes a window (with everything below it) out of its
   parent's child list while the lists are being walked; all of them may add damage and raise
   flags: what is added during the render loop stays in the damage set, with
   needs_expose set, for the NEXT flush.

   do_expose_re follows the child lists of the tree it was started on and reads, in the CURRENT
   root state, whether an entry is still a child and whether it is visible. *)
From Coq Require Import ZArith List Bool.
From Tickit Require Import RectDefs WinRectSet WinDefs WinHist WinInput.
Import ListNotations.
Local Open Scope Z_scope.

Inductive ract :=
| RExpose (id : Z) (r : option rect)
| RShow (id : Z)
| RHide (id : Z)
| RRestack (k : hchange) (id : Z)
| RClose (id : Z)              (* tickit_window_close *)
| RDestroy (id : Z).           (* close and drop the last references: the window is destroyed
                                  once the window layer lets go of it (it holds a reference on
                                  every window whose handlers it is running, C08-7) -- for the
                                  flush this is a close *)

Definition run_act (cfg : defects) (st : root) (a : ract) : root :=
  match a with
  | RExpose id r => win_expose st id r
  | RShow id => win_show cfg st id
  | RHide id => win_hide cfg st id
  | RRestack k id => win_restack st k id
  | RClose id | RDestroy id => win_close cfg st id
  end.

Definition run_acts (cfg : defects) (acts : list ract) (st : root) : root :=
  fold_left (run_act cfg) acts st.

(* a handler that works on the window state as well as on the render buffer *)
Definition rhandler := Z -> rect -> root * rbuf -> root * rbuf.

(* draw the window's program, then perform its scripted calls into the window layer *)
Definition re_handler (cfg : defects) (hnd : handler) (racts : Z -> list ract) : rhandler :=
  fun id handed sb => (run_acts cfg (racts id) (fst sb), hnd id handed (snd sb)).

(* the window as it is NOW: in the tree, or in a detached (closed) subtree that is still being
   walked *)
Definition node_now (st : root) (id : Z) : option wtree := f_find st id.

Definition vis_now (st : root) (id : Z) : bool :=
  match node_now st id with Some n => w_vis (t_info n) | None => false end.

(* _is_child(win, child), by address *)
Definition child_now (st : root) (w c : Z) : bool := opt_is (f_parent st c) (Some w).

(* _do_expose walks a COPY of the child list; since handlers never add windows, the copy taken
   when the loop starts and the check made when an entry is reached amount to: walk the child
   list the tree had when the flush began, skipping entries that are not children of the
   window at the moment they are reached.  A child that left during its own expose is not
   masked. *)
Fixpoint do_expose_re (rh : rhandler) (t : wtree) (r : rect) (sb : root * rbuf) : root * rbuf :=
  match t with
  | Node i ch =>
    let sb1 :=
      (fix kids (l : list wtree) (sb : root * rbuf) : root * rbuf :=
         match l with
         | [] => sb
         | c :: rest =>
           let ci := t_info c in
           if negb (child_now (fst sb) (w_id i) (w_id ci)) then kids rest sb else
           if negb (vis_now (fst sb) (w_id ci)) then kids rest sb else
           let sb' :=
             match r_intersect r (w_rect ci) with
             | Some ex =>
               let b1 := rb_translate (rb_clip_to (rb_save (snd sb)) ex) (top (w_rect ci)) (left (w_rect ci)) in
               let sb2 := do_expose_re rh c (r_translate ex (- top (w_rect ci)) (- left (w_rect ci))) (fst sb, b1) in
               (fst sb2, rb_restore (snd sb2))
             | None => sb
             end in
           kids rest (fst sb', if child_now (fst sb') (w_id i) (w_id ci)
                               then rb_mask_rect (snd sb') (w_rect ci) else snd sb')
         end) ch sb in
    rh (w_id i) r sb1
  end.

(* the (window, rectangle) pairs handed out, in order; depends on the evolving state *)
Fixpoint expose_log_re (rh : rhandler) (t : wtree) (r : rect) (sb : root * rbuf) : list (Z * rect) :=
  match t with
  | Node i ch =>
    (fix kids (l : list wtree) (sb : root * rbuf) : list (Z * rect) :=
       match l with
       | [] => []
       | c :: rest =>
         let ci := t_info c in
         if negb (child_now (fst sb) (w_id i) (w_id ci)) then kids rest sb else
         if negb (vis_now (fst sb) (w_id ci)) then kids rest sb else
         match r_intersect r (w_rect ci) with
         | Some ex =>
           let b1 := rb_translate (rb_clip_to (rb_save (snd sb)) ex) (top (w_rect ci)) (left (w_rect ci)) in
           let r' := r_translate ex (- top (w_rect ci)) (- left (w_rect ci)) in
           let sb2 := do_expose_re rh c r' (fst sb, b1) in
           let b3 := rb_restore (snd sb2) in
           expose_log_re rh c r' (fst sb, b1) ++
           kids rest (fst sb2, if child_now (fst sb2) (w_id i) (w_id ci) then rb_mask_rect b3 (w_rect ci) else b3)
         | None => kids rest (fst sb, rb_mask_rect (snd sb) (w_rect ci))
         end
       end) ch sb ++ [(w_id i, r)]
  end.

(* the render loop over the damage rectangles *)
Definition flush_rb_re (rh : rhandler) (rects : list rect) (sb : root * rbuf) : root * rbuf :=
  fold_left (fun sb r =>
               let sb2 := do_expose_re rh (r_tree (fst sb)) r (fst sb, rb_clip_to (rb_save (snd sb)) r) in
               (fst sb2, rb_restore (snd sb2))) rects sb.

Fixpoint flush_log_re (rh : rhandler) (rects : list rect) (sb : root * rbuf) : list (Z * rect) :=
  match rects with
  | [] => []
  | r :: rest =>
    let sb1 := (fst sb, rb_clip_to (rb_save (snd sb)) r) in
    let sb2 := do_expose_re rh (r_tree (fst sb)) r sb1 in
    expose_log_re rh (r_tree (fst sb)) r sb1 ++ flush_log_re rh rest (fst sb2, rb_restore (snd sb2))
  end.

(* tickit_window_flush with re-entering handlers *)
Definition win_flush_re (cfg : defects) (rh : rhandler) (st : root) (tm : term)
  : root * term * list (Z * rect) :=
  if negb (r_later st) then (st, tm, []) else
  let st1 := set_flags st (r_nexp st) (r_nrest st) false in
  let st2 := fold_left (fun s e => match e with (k, p, w) => do_hchange s k p w end)
                       (r_queue st1) (set_queue st1 []) in
  let '(st3, tm3, lg) :=
    if r_nexp st2 then
      let rects := flush_rects cfg st2 in
      let rs := root_selfrect st2 in
      (* needs_expose is lowered and the damage taken over BEFORE the handlers run *)
      let st2' := set_flags (set_damage st2 []) false (r_nrest st2) (r_later st2) in
      let sb := flush_rb_re rh rects (st2', rb_new (lines rs) (cols rs)) in
      (set_flags (fst sb) (r_nexp (fst sb)) true (r_later (fst sb)),
       term_flush_rb (term_set_cvis tm false) (snd sb),
       flush_log_re rh rects (st2', rb_new (lines rs) (cols rs)))
    else (st2, tm, []) in
  if r_nrest st3 then
    (set_flags st3 (r_nexp st3) false (r_later st3), do_restore (r_tree st3) tm3, lg)
  else (st3, tm3, lg).

(* the history step with re-entering handlers: only the flush differs *)
Definition step_re (cfg : defects) (progs : Z -> list dop) (racts : Z -> list ract) (o : op) (m : mstate) : mstate :=
  match o with
  | OFlush =>
    let '(st', tm', lg) := win_flush_re cfg (re_handler cfg (prog_handler (m_app m) progs) racts) (m_root m) (m_term m) in
    mkM st' tm' (m_app m) (m_gen m) lg (m_fevs m) (m_srecs m)
  | _ => step cfg progs o m
  end.
