#!/bin/sh
# Build the framework from files on disk only (offline): translate tables, full .vo build
# of the Coq development (never -vos), which also runs the extractions.
set -e
cd "$(dirname "$0")"
python3 tools/gen_tables.py "${VERIF_REPO:-/repo}" coq 2>/dev/null || true
cd coq
(echo "-Q . Tickit"; ls *.v | LC_ALL=C sort) > _CoqProject
coq_makefile -f _CoqProject -o Makefile
timeout 7200 make -k -j16 || { echo "setup: some Coq files failed to build (checks will report them)"; }
