"""C06 -- rectangle algebra (src/rect.c)."""
import random

ID = "C06"
ML = "mC06"
HARNESS = "harness/C06.c"
SRCS = ["rect.c"]
LEVEL = "proof"
RULE = ("case = (op, a, b) with op in intersect/intersects/contains/add/subtract; exhaustive part: every ordered pair of "
        "rectangles with edges in {0..3} on both axes (36x36 pairs, realising all 13x13 Allen ordering classes of two "
        "non-empty intervals per axis) at three translations, times seven operations (intersect also with the destination aliasing either argument); random part: wide coordinates. "
        "A case is non-trivial when the two rectangles touch or overlap on both axes; distinct = distinct "
        "(op, vertical Allen class, horizontal Allen class).")
ASSUMPTIONS = ["no int overflow (|coordinate| < 2^30)", "both rectangles non-empty (lines > 0, cols > 0), as the property states"]
TRUSTED = ["model coq/RectDefs.v hand-written after src/rect.c; spec oracle coq/RectSpec.v (coordinate-compressed cell test)"]

OPS = "ISCADJK"   # J, K = intersect with the destination aliasing the first / second argument


def allen(lo1, hi1, lo2, hi2):
    """Allen relation of [lo1,hi1) vs [lo2,hi2) as a sign tuple of the four edge comparisons."""
    def s(x, y):
        return (x > y) - (x < y)
    return (s(lo1, lo2), s(lo1, hi2), s(hi1, lo2), s(hi1, hi2))


def gen(tier, seed, info):
    ivs = [(lo, hi) for lo in range(4) for hi in range(lo + 1, 4 + 0) if hi <= 3]
    rects = [(t, l, b - t, r - l) for (t, b) in ivs for (l, r) in ivs]
    classes = set()
    n = 0
    for (dy, dx) in ((0, 0), (-2, -7), (1000000, -1000000)):
        for a in rects:
            for b in rects:
                classes.add((allen(a[0], a[0] + a[2], b[0], b[0] + b[2]), allen(a[1], a[1] + a[3], b[1], b[1] + b[3])))
                for op in OPS:
                    n += 1
                    yield "%s %d %d %d %d %d %d %d %d" % (op, a[0] + dy, a[1] + dx, a[2], a[3], b[0] + dy, b[1] + dx, b[2], b[3])
    info["exhaustive"] = True
    info["exhaustive_scope"] = "all ordered pairs of the %d rectangles with edges in {0..3}, 3 translations, 7 ops" % len(rects)
    info["exhaustive_cases"] = n
    info["allen_class_pairs_hit"] = len(classes)
    assert len(classes) == 169, len(classes)
    rnd = random.Random(seed * 7919 + 6)
    nrand = 20000 if tier == "quick" else 2000000
    kinds = {"near": 0, "wide": 0}
    for _ in range(nrand):
        if rnd.random() < 0.7:
            kinds["near"] += 1
            base = rnd.choice([0, -5, 100000, -99999])
            def iv():
                lo = base + rnd.randint(-3, 6); return lo, rnd.randint(1, 6)
        else:
            kinds["wide"] += 1
            def iv():
                return rnd.randint(-10**6, 10**6), rnd.randint(1, 10**6)
        (ta, ha), (la, wa), (tb, hb), (lb, wb) = iv(), iv(), iv(), iv()
        yield "%s %d %d %d %d %d %d %d %d" % (rnd.choice(OPS), ta, la, ha, wa, tb, lb, hb, wb)
    info["random_cases"] = nrand
    info["random_kinds"] = kinds


def classify(case, obs):
    t = case.split()
    ta, la, ha, wa, tb, lb, hb, wb = map(int, t[1:])
    ry = allen(ta, ta + ha, tb, tb + hb)
    rx = allen(la, la + wa, lb, lb + wb)
    apart = lambda r: r[1] > 0 or r[2] < 0      # lo1 > hi2 or hi1 < lo2
    if apart(ry) or apart(rx):
        return None
    return (t[0], ry, rx)


def shrink(case):
    t = case.split()
    v = list(map(int, t[1:]))
    for i in range(8):
        for nv in (0, v[i] // 2, v[i] - 1 if v[i] > 0 else v[i] + 1):
            if nv != v[i] and (i % 4 < 2 or nv > 0):
                w = list(v); w[i] = nv
                yield t[0] + " " + " ".join(map(str, w))
