"""C14 -- input reaches the frontmost eligible window first, in its own coordinates; drag
synthesis; hidden windows never receive input; mutations inside handlers (src/window.c)."""
import itertools
import random
from props import wingen

ID = "C14"
ML = "mC14"
HARNESS = "harness/C14.c"
SRCS = None
EXCLUDE = ("window.c",)
LEVEL = "proof"
DRIVER_PARTS = ["drv_win.ml", "drv_C14.ml"]
CASE_TIMEOUT = 0.2
RULE = ("case = window tree built by a history (overlaps, nesting, hidden subtrees, input-stealing windows, focus placement) + "
        "per-window claim masks (key, press, drag, release, wheel, drag-start/outside/drop/stop) + key events and mouse events "
        "(press/drag/release/wheel sequences at every cell) + optionally one scripted mutation inside a handler (close or "
        "close-and-destroy of self or another window).  Compared: the ordered delivery log (window, event, button, relative "
        "line, col) of every event and the tree before it.  Exhaustive part: 4 base trees x every cell x {press, press-drag-"
        "release} x single-claimer patterns, and every key claim pattern.  distinct = (op kinds, claim pattern class, mutation kind).")
ASSUMPTIONS = ["handlers claim or decline according to a fixed per-window mask and perform at most one scripted close/destroy",
               "a drag event is preceded by a press (the C reads uninitialised last-press fields otherwise; reported under C08)",
               "with a mutation inside a handler no window claims the event (so that the whole order is traversed)",
               "every window carries one extra reference held by the harness; 'destroy' drops it and the creation reference",
               "no int overflow"]
TRUSTED = ["model coq/WinInput.v (pointer-following routing with fuel over the window forest), spec coq/WinInputSpec.v",
           "driver glue ocaml/drv_win.ml (NOT model): focus-handler calls are applied after the whole change of focus; after a "
           "focus-child-notify handler that hides the child it is told about, the driver puts the parent's focus link back, as "
           "window.c's _focus_gained does with its last assignment (only histories with such a handler are affected)"]

PROFILE = {"new": 14, "close": 2, "show": 4, "hide": 6, "restack": 4, "geom": 4, "flush": 6, "focus": 8, "steal": 5,
           "key": 12, "mouse": 0, "_steal": 0.25}

BASES = [
    ["N 1 0 0 0 3 3 0", "N 2 0 1 2 3 4 0", "N 3 1 1 1 2 2 0"],
    ["N 1 0 0 1 3 4 8", "N 2 0 1 0 2 3 0", "TF 2"],
    ["N 1 0 0 0 4 6 0", "N 2 1 1 1 2 3 0", "N 3 1 0 3 3 3 1", "N 4 2 0 0 1 2 0", "TF 4"],
    ["N 1 0 1 1 2 2 0", "N 2 0 1 2 2 2 0", "N 3 0 0 0 4 6 10"],
]
NL, NC = 4, 6


def mouse_seq(rnd, nl, nc):
    """a press, some drags, a release; positions anywhere on the screen"""
    pos = lambda: (rnd.randint(0, nl - 1), rnd.randint(0, nc - 1))
    b = rnd.randint(1, 3)
    l, c = pos()
    out = ["MS 1 %d %d %d" % (b, l, c)]
    for _ in range(rnd.randint(0, 3)):
        l, c = pos()
        out.append("MS 2 %d %d %d" % (b, l, c))
    if rnd.random() < 0.85:
        if rnd.random() < 0.5:
            l, c = pos()
        out.append("MS 3 %d %d %d" % (b, l, c))
    if rnd.random() < 0.2:
        out.append("MS 4 %d %d %d" % (rnd.randint(1, 2), l, c))
    return out


def gen(tier, seed, info):
    n = 0
    # exhaustive: every cell, press only and press-drag-release to every 3rd cell, single claimers per event kind
    for base in BASES:
        nw = len([b for b in base if b.startswith("N ")])
        ids = list(range(0, nw + 1))
        # keys: every subset of claimers
        for mask in range(0, 1 << (nw + 1)):
            cl = " ".join("CL %d 1" % w for w in ids if mask >> w & 1)
            n += 1
            yield ("W G %d %d A %s %s K" % (NL, NC, cl, " ".join(base))).replace("  ", " ")
        for l in range(NL):
            for c in range(NC):
                for claimer in [None] + ids:
                    for bits in ((2,), (2, 32), (32, 4), (2, 4, 8, 32, 64, 128, 256)):
                        cl = "" if claimer is None else "CL %d %d" % (claimer, sum(bits))
                        if claimer is None and bits != (2,):
                            continue
                        n += 1
                        l2, c2 = (l + 2) % NL, (c + 3) % NC
                        yield ("W G %d %d A %s %s MS 1 1 %d %d MS 2 1 %d %d MS 2 1 %d %d MS 3 1 %d %d" %
                               (NL, NC, cl, " ".join(base), l, c, l2, c2, l, c, l2, c2)).replace("  ", " ")
    info["exhaustive"] = True
    info["exhaustive_scope"] = ("%d base trees on %dx%d: every subset of key claimers; every cell x every single claimer x 4 claim "
                                "masks for a press-drag-drag-release sequence" % (len(BASES), NL, NC))
    info["exhaustive_cases"] = n
    rnd = random.Random(seed * 7919 + 1414)
    nrand = 8000 if tier == "quick" else 300000
    nmut = 0
    for k in range(nrand):
        nl, nc = rnd.randint(2, 6), rnd.randint(3, 9)
        ops, sh = wingen.history(rnd, nl, nc, rnd.randint(3, 16), PROFILE)
        mutate = rnd.random() < 0.3
        hdr = ["W G %d %d A" % (nl, nc)]
        live = list(sh.live)
        evs = []
        for _ in range(rnd.randint(1, 4)):
            if rnd.random() < 0.5:
                evs.append("K")
            else:
                evs += mouse_seq(rnd, nl, nc)
        if mutate:
            nmut += 1
            w = rnd.choice(live)
            cand = [x for x in live if x != 0]
            if cand:
                tgt = w if (rnd.random() < 0.4 and w != 0) else rnd.choice(cand)
                hdr.append("MU %d %d %d %d" % (w, rnd.randint(0, 1), rnd.randint(1, 2), tgt))
        else:
            for w in live:
                if rnd.random() < 0.35:
                    hdr.append("CL %d %d" % (w, rnd.choice([1, 2, 3, 6, 14, 32, 33, 46, 510, 511, 64 + 128, 256 + 2])))
        # interleave some tree changes between events
        tail = []
        for e in evs:
            tail.append(e)
            if rnd.random() < 0.15 and len(live) > 1:
                tail.append(rnd.choice(["H %d", "S %d", "TF %d", "RF %d", "F"]) .replace("%d", str(rnd.choice(live))) if True else "")
        yield " ".join(hdr + ops + tail)
    info["random_cases"] = nrand
    info["random_with_mutation"] = nmut
    # drags whose source is a NESTED window, with a window inside the source, the source itself or one above
    # it closed (between two events of the gesture, or by a handler during one): the source is forgotten
    # exactly when it leaves the tree
    ndrag = 1500 if tier == "quick" else 60000
    for k in range(ndrag):
        nl, nc = rnd.randint(4, 6), rnd.randint(5, 9)
        depth = rnd.randint(2, 4)
        hdr = ["W G %d %d A" % (nl, nc)]
        ops = []
        # a chain 1 > 2 > ... > depth, every window covering (nearly) all of its parent
        for w in range(1, depth + 1):
            ops.append("N %d %d %d %d %d %d 0" % (w, w - 1, rnd.randint(0, 1) if w > 1 else 0, rnd.randint(0, 1) if w > 1 else 0,
                                                   nl - (w - 1), nc - (w - 1)))
        if rnd.random() < 0.4:   # a sibling somewhere, to be dragged over
            ops.append("N %d %d %d %d 2 2 %d" % (depth + 1, rnd.randint(0, depth - 1), rnd.randint(0, 2), rnd.randint(0, 3), rnd.choice([0, 2])))
        src = rnd.randint(1, depth)
        hdr.append("CL %d %d" % (src, 32 | rnd.choice([0, 4, 64, 256, 4 | 64 | 256])))
        for w in range(0, depth + 1):
            if w != src and rnd.random() < 0.2:
                hdr.append("CL %d %d" % (w, rnd.choice([2, 4, 8, 64, 128, 256])))
        b = rnd.randint(1, 3)
        pl, pc = rnd.randint(depth, nl - 1) if depth < nl else nl - 1, rnd.randint(depth, nc - 1)
        pos = lambda: (rnd.randint(0, nl - 1), rnd.randint(0, nc - 1))
        evs = ["MS 1 %d %d %d" % (b, pl, pc), "MS 2 %d %d %d" % ((b,) + pos())]
        for _ in range(rnd.randint(1, 3)):
            evs.append("MS 2 %d %d %d" % ((b,) + pos()))
        evs.append("MS 3 %d %d %d" % ((b,) + pos()))
        if rnd.random() < 0.3:
            evs += ["MS 1 %d %d %d" % (b, pl, pc), "MS 2 %d %d %d" % ((b,) + pos()), "MS 3 %d %d %d" % ((b,) + pos())]
        victim = rnd.randint(1, depth)
        r = rnd.random()
        if rnd.random() < 0.3:
            # a window of the chain (the source, one above it, one inside it) is moved during the gesture: the
            # source's events are relative to where it is when they are sent
            at = rnd.randint(2, len(evs) - 1)
            evs.insert(at, "MV %d %d %d 0" % (rnd.randint(1, depth), rnd.randint(0, 2), rnd.randint(0, 3)))
        if r < 0.25:
            # a window of the chain is hidden during the gesture (and perhaps shown again): nothing goes to a
            # source that is hidden or below a hidden window
            at = rnd.randint(2, len(evs) - 1)
            evs.insert(at, "H %d" % victim)
            if rnd.random() < 0.4 and at + 2 < len(evs):
                evs.insert(rnd.randint(at + 2, len(evs) - 1), "S %d" % victim)
        elif r < 0.7:
            at = rnd.randint(2, len(evs) - 1)      # between two events, after the drag began
            evs.insert(at, "X %d" % victim)
        else:
            hdr.append("MU %d 1 %d %d" % (rnd.randint(0, depth), rnd.randint(1, 2), victim))
        yield " ".join(hdr + ops + evs)
    info["nested_drag_cases"] = ndrag
    # a stealing popup (first child, STEAL_INPUT) whose key handler closes / destroys the focused pane (or another
    # sibling, or a pane's child): the closed window is not offered the key any more
    nsteal = 800 if tier == "quick" else 30000
    for k in range(nsteal):
        nl, nc = rnd.randint(4, 6), rnd.randint(6, 9)
        par = 0
        ops = []
        nid = 1
        if rnd.random() < 0.4:
            ops.append("N 1 0 0 0 %d %d 0" % (nl, nc)); par = 1; nid = 2
        panes = []
        for _ in range(rnd.randint(1, 3)):
            ops.append("N %d %d %d %d 2 3 0" % (nid, par, rnd.randint(0, nl - 2), rnd.randint(0, nc - 3)))
            panes.append(nid); nid += 1
        inner = None
        if rnd.random() < 0.4:
            ops.append("N %d %d 0 0 1 2 0" % (nid, panes[0])); inner = nid; nid += 1
        popup = nid
        ops.append("N %d %d %d %d 1 2 8" % (popup, par, rnd.randint(0, nl - 1), rnd.randint(0, nc - 2))); nid += 1
        foc = inner if (inner is not None and rnd.random() < 0.5) else rnd.choice(panes)
        ops.append("TF %d" % foc)
        victim = rnd.choice(panes + ([inner] if inner is not None else []))
        hdr = ["W G %d %d A" % (nl, nc), "MU %d 0 %d %d" % (popup, rnd.randint(1, 2), victim)]
        if rnd.random() < 0.3:
            hdr.append("CL %d 1" % rnd.choice(panes + [0]))
        yield " ".join(hdr + ops + ["K", "K"])
    info["stealing_popup_cases"] = nsteal


def classify(case, obs):
    if " N " not in case:
        return None
    t = case.split()
    cl = tuple(sorted(set(t[i + 2] for i in range(len(t)) if t[i] == "CL")))
    mu = tuple((t[i + 2], t[i + 3], t[i + 1] == t[i + 4]) for i in range(len(t)) if t[i] == "MU")
    return (wingen.op_kinds(case), cl, mu)


def canon(case, obs):
    return "CRASH" if obs.startswith("CRASH") else obs


shrink = wingen.shrink
