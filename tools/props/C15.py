"""C15 -- after a flush the terminal cursor reflects the focused window or is hidden; focus-out
before focus-in; notifying parents told of both (src/window.c)."""
import itertools
import random
from props import wingen

ID = "C15"
ML = "mC15"
HARNESS = "harness/C15.c"
SRCS = None
EXCLUDE = ("window.c",)
LEVEL = "proof"
DRIVER_PARTS = ["drv_win.ml", "drv_C15.ml"]
CASE_TIMEOUT = 0.2
RULE = ("case = terminal + history of take_focus, cursor position / visibility / shape / blink, focus-child-notify, show, hide, "
        "restack, move/resize (with exposes), close, expose, new, scroll, with flushes at arbitrary points.  Compared after every "
        "flush: cursor visibility, position, shape, blink, and the tree with its focus links; at every take_focus: the tree "
        "before and the focus event log (receiver, IN/OUT, subject).  Exhaustive part: 3 base trees x all sequences of <=3 ops "
        "from a focus/cursor/show/hide/close alphabet.  distinct = (set of op kinds, number of take_focus).")
ASSUMPTIONS = ["handlers of focus events only record them", "the root window is never hidden or closed",
               "geometry changes are followed by parent exposes of old and new area (as for C01)",
               "the terminal is not resized between a cursor change and the flush (terminal resize is not in the property's history alphabet)",
               "no int overflow"]
TRUSTED = ["model coq/WinDefs.v (take_focus, show/hide/close side effects, do_restore), spec coq/WinSpec.v (cursor_spec, focus_spec)"]

PROFILE = {"new": 10, "close": 4, "show": 8, "hide": 8, "restack": 6, "geom": 8, "expose": 2, "flush": 14,
           "scroll": 2, "focus": 16, "cursor": 14, "notify": 6, "dead": 1, "tresize": 3}

BASES = [
    ["N 1 0 0 0 3 4 0", "N 2 1 1 1 2 2 0", "N 3 0 1 2 2 3 2"],
    ["N 1 0 1 1 2 4 0", "N 2 0 0 2 3 3 0", "FN 0 1"],
    ["N 1 0 0 0 4 5 0", "N 2 1 0 0 3 4 0", "N 3 2 1 1 2 2 0", "FN 1 1", "FN 2 1"],
]


def alphabet(nw):
    ops = ["F", "TF 0", "CP 0 1 1"]
    for w in range(1, nw + 1):
        ops += ["TF %d" % w, "H %d" % w, "S %d" % w, "X %d" % w, "CP %d 0 0" % w, "CP %d 1 1" % w, "CV %d 0" % w, "RF %d" % w,
                "MV %d 0 1 1" % w, "FN %d 1" % w]
    return ops


def gen(tier, seed, info):
    n = 0
    maxlen = 3
    for base in BASES:
        nw = len([b for b in base if b.startswith("N ")])
        al = alphabet(nw)
        for ln in range(1, maxlen + 1):
            if ln == 3 and tier == "quick":
                al = [o for o in al if o.split()[0] in ("TF", "H", "S", "X", "F")]
            for seq in itertools.product(al, repeat=ln):
                if seq[-1] == "F":
                    continue
                n += 1
                yield "W %s 4 6 %s %s F %s F" % ("MG"[n & 1], "KA"[n & 1], " ".join(base), " ".join(seq))
    info["exhaustive"] = True
    info["exhaustive_scope"] = "%d base trees x all op sequences of length <= %d over a focus/cursor/visibility alphabet" % (len(BASES), maxlen)
    info["exhaustive_cases"] = n
    rnd = random.Random(seed * 7919 + 1515)
    nrand = 8000 if tier == "quick" else 300000
    kinds = {}
    for _ in range(nrand):
        nl, nc = rnd.randint(2, 6), rnd.randint(3, 9)
        ops, _sh = wingen.history(rnd, nl, nc, rnd.randint(4, 40), PROFILE)
        case = wingen.header(rnd, nl, nc) + " " + " ".join(ops) + " F"
        for k in wingen.op_kinds(case):
            kinds[k] = kinds.get(k, 0) + 1
        yield case
    info["random_cases"] = nrand
    info["random_op_kind_counts"] = kinds
    # damage that a terminal shrink puts outside the root before the flush: the flush draws nothing, yet the
    # cursor (switched off for the flush) must be re-established
    nshr = 600 if tier == "quick" else 20000
    for _ in range(nshr):
        nl, nc = rnd.randint(4, 7), rnd.randint(5, 9)
        wl, wc = rnd.randint(1, 2), rnd.randint(2, 3)
        pre = ["N 1 0 0 0 %d %d 0" % (wl + 1, wc + 1), "CP 1 %d %d" % (rnd.randint(0, wl), rnd.randint(0, wc)), "TF 1"]
        if rnd.random() < 0.5:
            pre.append("CS 1 %d" % rnd.randint(1, 3))
        pre.append("F")
        cut = rnd.randint(wl + 1, nl - 1)
        body = ["E 0 %d 0 %d %d" % (cut, nl - cut, nc)]
        if rnd.random() < 0.3:
            body.append("E 0 %d %d 1 1" % (rnd.randint(cut, nl - 1), rnd.randint(0, nc - 1)))
        body.append("TR %d %d" % (cut, nc))
        if rnd.random() < 0.3:
            body.insert(0, "F")
        yield "W G %d %d A " % (nl, nc) + " ".join(pre + body + ["F", "F"])
    info["shrink_cases"] = nshr


def classify(case, obs):
    if " TF " not in case:
        return None
    return (wingen.op_kinds(case), case.count(" TF "))


shrink = wingen.shrink
