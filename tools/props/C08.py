"""C08 -- lifetimes and bounds: lifecycle explorer under ASan/UBSan/LSan against the heap-level
ownership model (coq/LifeDefs.v) and the well-formed-client discipline (coq/LifeSpec.v)."""
import itertools
import random

ID = "C08"
ML = "mC08"
# other harnesses whose sanitizer verdicts count for this property (see tools/core.py)
ALSO_MEMORY_QUICK = ["C01", "C04", "C09", "C13", "C14", "C16", "C17", "C18"]
ALSO_MEMORY_THOROUGH = ["C01", "C03", "C04", "C09", "C10", "C12", "C13", "C14", "C15", "C16", "C17", "C18", "C20"]
HARNESS = "harness/C08.c"
SRCS = None
EXCLUDE = ["window.c"]          # #included by the harness so that the final dump can read link fields and the queue
LEVEL = "proof"      # evidence category; PARTIAL overall, see ASSUMPTIONS[0] and notes/C08.md
CASE_TIMEOUT = 0.5
RULE = ("case = one script line.  W: window-tree / restack-queue lifecycle script (new with every flag combination at "
        "depth <= 3, ref/unref/close in any order, restack requests left pending, show/hide/focus, flush, set_geometry, "
        "reposition, a terminal resize, window pens and scrollrect with a pen, key and mouse events and EXPOSE / FOCUS / "
        "GEOMCHANGE bindings (focus_child_notify included) whose handlers run further calls); T: a copy-out call (get_cell_text / get_span / "
        "mockterm get_display_text) into malloc(len) for every len from 0 to two beyond the text; O: lifecycle script "
        "over pens, strings, render buffers, terminals (mock and xterm; output buffer resized with output pending; KEY handlers "
        "of terminals and CHANGE handlers of pens that drop references) and the toplevel instance; R: the pen stack of a render "
        "buffer (setpen NULL / empty / with attributes at every depth of save and savepen frames, restore, whole-line "
        "text and erase, clear, reset, flush to an xterm and to the mock terminal, drop; observation = live pens, strings "
        "and stack frames of the buffer after every call).  Every case runs in "
        "its own forked process under ASan+UBSan with exact allocation accounting and a recoverable LSan check.  "
        "Observation = OK + destroy order + link fields/refcounts/queue of what is left + leak flag + the trace of "
        "client calls executed (also those made by handlers), or the fault kind + step.  The model must reproduce the "
        "observation (also for ill-formed scripts: it faults at the same step with the same kind); the oracle is the "
        "extracted discipline checker: trace well-formed => no fault, and everything dropped => nothing allocated.  "
        "distinct = (script kind, verdict, set of call kinds, #windows, handlers present / copy-out kind x fit class).")
ASSUMPTIONS = [
    "PARTIAL by nature: memory safety of the C is a run-time fact observed by the sanitizers on the explored histories; "
    "the theorems are about the heap-level ownership model of the repaired window.c: for histories of calls that dispatch "
    "nothing with the predictive client discipline wf_client (the oracle of this check); for histories with dispatch -- key "
    "and mouse events (the whole drag state machine), flush with EXPOSE handlers, take_focus with FOCUS handlers, "
    "set_geometry / reposition / terminal resize with GEOMCHANGE handlers, re-entrant handlers making any calls -- with "
    "the discipline wf_trace of LifeSpecEv.v, which reads "
    "the library's frame references off the model's trace, and -- through the proved bridge between the two disciplines, "
    "LifeNorm.v -- with wf_client itself (C08_no_fault, C08_all_released); more fuel never changes a verdict "
    "(proved), an explicit fuel bound for event-free histories is not proved, with events none exists (proved)",
    "all windows of a script have their top-left corner at their parent's, are 8 columns wide and 3 or 4 lines high (the "
    "root: 3 or more): the pointer structure, not the geometry, is explored; the damage of the root is then always one "
    "rectangle that meets every window, so that one flush runs _do_expose over the whole visible tree once (scrollrect "
    "scrolls the two top lines at full width; reposition moves a window one line up while its GEOMCHANGE handlers run and "
    "is used at top level and in key / mouse handlers only; after a terminal resize the harness exposes the whole root)",
    "a handler of the kinds EXPOSE / FOCUS / GEOMCHANGE makes a call that dispatches its own kind again only after it has "
    "unbound itself (the harness cuts a handler's nesting off at depth 6, the model has no such cut-off)",
    "DESTROY handlers that make calls (b<i>.d...., about 3 % of the W cases) are in the model that is compared with the "
    "library (variant fixedh of LifeDefs.v) but outside every theorem: the theorems are about the variant in which they make "
    "no calls (fixed), and the driver checks on every case without such calls that the two variants give the same "
    "observation; the calls a DESTROY handler makes on its own window are made but not traced, by harness and model alike",
    "a single root window per script; the harness holds the only client reference to the terminal",
    "R cases: text and erase calls cover a whole line, so that a line is a single span (span splitting, masks, clips "
    "and translation belong to C03/C04); pens / frames / strings of a buffer are counted as live blocks of their sizes",
    "malloc does not fail",
    "memory-safety itself is observed at run time by the sanitizers; the theorems are about the ownership model",
]
TRUSTED = [
    "AddressSanitizer/UndefinedBehaviourSanitizer/LeakSanitizer of gcc 12 and the allocation hooks "
    "(__sanitizer_install_malloc_and_free_hooks) report every invalid access / outstanding block of the explored runs",
    "model coq/LifeDefs.v hand-written after src/window.c (repaired); discipline checker and oracle coq/LifeSpec.v; "
    "model coq/LifePenDefs.v hand-written after the pen / string reference counting of src/renderbuffer.c; "
    "coq/LifeBindDefs.v hand-written after src/bindings.c (heap twin of coq/BindDefs.v, not tested against the C separately)",
    "the harness harness/C08.c (+C08_objs.inc): script interpreter, fork per case, classification of sanitizer reports",
    "ocaml/drv_C08.ml expand_O: the O model has no handlers; a handler H<i>.<j> (drops one reference to j at the owner's next "
    "KEY / CHANGE event) is expanded into that unref after each library call that dispatches the event",
]

FLAG_HIDDEN, FLAG_LOWEST, FLAG_ROOTPARENT, FLAG_STEAL = 1, 2, 4, 8


# ---------------------------------------------------------------------------------------
# a Python mirror of the ghost discipline (used ONLY to generate mostly-well-formed scripts;
# the verdict about well-formedness is always the extracted Coq checker's)
class Ghost:
    def __init__(self):
        self.cnt = [1]
        self.par = [None]
        self.closed = [False]

    def held(self, i):
        return 0 <= i < len(self.cnt) and self.cnt[i] > 0

    def intree(self, i):
        while True:
            if not self.held(i):
                return False
            if i == 0:
                return True
            if self.par[i] is None:
                return False
            i = self.par[i]

    def usable(self, i):
        return self.held(i) and self.intree(i) and not self.closed[i]

    def top(self, i):
        while self.par[i] is not None:
            i = self.par[i]
        return i

    def destroy(self, w):
        doomed = {w}
        self.cnt[w] = 0
        self.par[w] = None
        for i in range(w + 1, len(self.cnt)):
            p = self.par[i]
            if p is not None and p in doomed and self.cnt[i] > 0:
                self.par[i] = None
                self.cnt[i] -= 1
                if self.cnt[i] == 0:
                    doomed.add(i)

    def step(self, op):
        """apply a top-level op token; returns False if it is ill-formed"""
        k = op[0]
        if k in "-kmZ":
            return True
        if k == 'U':
            return self.usable(int(op[1:].split('.')[0]))
        if k == 'b':
            i = int(op[1:].split('.')[0])
            return self.usable(i)
        args = [int(x) for x in op[1:].split('.')]
        i = args[0]
        if k == 'n':
            if not self.usable(i):
                return False
            p = self.top(i) if args[1] & FLAG_ROOTPARENT else i
            self.cnt.append(1); self.par.append(p); self.closed.append(False)
            return True
        if not self.held(i):
            return False
        if k == 'r':
            self.cnt[i] += 1
        elif k == 'u':
            self.cnt[i] -= 1
            if self.cnt[i] == 0:
                self.destroy(i)
        elif k == 'c':
            if self.par[i] is None and i != 0:
                return False
            self.par[i] = None
            self.closed[i] = True
        elif k == 'f':
            return i == 0 and self.usable(0)
        elif k in PAIR:
            return self.usable(i) and self.usable(args[1])
        else:
            return self.usable(i)
        return True

    def all_dropped(self):
        return all(c == 0 for c in self.cnt)


RESTACK = "RLFB"
SIMPLE = "shtxgyqzPp"     # calls on one usable window (q z P: set_pen with its own pen / NULL / a fresh pen; p: reposition)
PAIR = "Qo"                # calls on two usable windows (set_pen with the other window's pen; scrollrect with it)


def gen_wf_script(rnd, maxops, events, release, efg=False):
    """a script that is well-formed as far as its top-level calls go; handler bodies are drawn
    from calls that are plausible for the moment they were bound"""
    g = Ghost()
    toks = []
    nwin = 1
    armed = False      # an EXPOSE / FOCUS / GEOMCHANGE handler is bound: flush, take_focus and set_geometry dispatch
    dbound = False     # a DESTROY handler is bound: the last unref of a window dispatches

    def pick(pred):
        c = [i for i in range(nwin) if pred(i)]
        return rnd.choice(c) if c else None

    def action_for(i, kind="k"):
        """a short handler body about window i or its neighbours"""
        others = [j for j in range(1, nwin) if g.held(j)]
        j = rnd.choice(others) if others else i
        serial = sum(1 for t in toks if t[0] == 'b')      # the number this handler will get
        if kind in "efg":
            # a handler of a kind that the calls below dispatch themselves: it may only make such a call after it has
            # unbound itself (else the nesting would not end: the harness cuts it off at depth 6, the model does not)
            if rnd.random() < 0.35:
                return "U%d.%d,%s" % (i, serial, rnd.choice([
                    "y%d" % i, "t%d" % i, "x%d,f0" % i, "f0", "t%d" % j, "y%d" % j, "c%d,u%d,f0" % (i, i), "x0,f0,u%d" % j,
                    "t%d,c%d,u%d" % (j, j, j), "c%d,u%d" % (i, i), "-"]))
            return rnd.choice([
                "c%d,u%d" % (i, i), "u%d" % i, "c%d,u%d" % (j, j), "u%d" % j, "c%d" % j, "c%d" % i, "r%d" % j, "R%d" % j, "h%d" % j,
                "L%d,c%d,u%d" % (j, j, j), "n%d.0" % j, "n%d.0" % i, "x%d" % j, "u0", "c%d,u%d,u0" % (i, i), "s%d" % j, "-",
                "q%d" % i, "z%d,P%d" % (j, j), "N%d.1" % j,
            ])
        if rnd.random() < 0.2:
            # unbind itself, then something that dispatches another event on the same window
            return "U%d.%d,%s" % (i, serial, rnd.choice(["y%d" % i, "t%d" % i, "y%d,t%d" % (i, i), "x%d" % i, "-"]))
        return rnd.choice([
            "c%d,u%d" % (i, i), "u%d" % i, "c%d,u%d" % (j, j), "u%d" % j, "c%d" % j, "r%d" % j, "R%d" % j, "h%d" % j,
            "L%d,c%d,u%d" % (j, j, j), "n%d.0" % j, "f0", "t%d" % j, "y%d" % j, "y%d" % i, "-", "-",
            "q%d" % i, "Q%d.%d" % (i, j), "z%d,P%d" % (j, j), "o%d.%d" % (j, i), "p%d" % i, "p%d" % j,
        ])

    for _ in range(maxops):
        r = rnd.random()
        op = None
        if r < 0.22 and nwin < 7:
            p = pick(g.usable)
            if p is not None:
                op = "n%d.%d" % (p, rnd.choice([0, 0, 0, 1, 2, 4, 8, 12, 3, 6, 15]))
        elif r < 0.30:
            i = pick(g.held)
            op = "r%d" % i if i is not None else None
        elif r < 0.42:
            i = pick(lambda i: g.held(i) and (i != 0 or rnd.random() < 0.15))
            op = "u%d" % i if i is not None else None
        elif r < 0.50:
            i = pick(lambda i: g.held(i) and i != 0 and g.par[i] is not None)
            op = "c%d" % i if i is not None else None
        elif r < 0.68:
            i = pick(lambda i: g.usable(i) and i != 0)
            op = rnd.choice(RESTACK) + str(i) if i is not None else None
        elif r < 0.78:
            i = pick(g.usable)
            if i is not None:
                k = rnd.choice(SIMPLE + "S" + PAIR)
                if k == 'S':
                    op = "S%d.%d" % (i, rnd.randint(0, 1))
                elif k in PAIR:
                    op = "%s%d.%d" % (k, i, pick(g.usable))
                else:
                    op = k + str(i)
        elif r < 0.86:
            op = "f0" if g.usable(0) else None
        elif events and r < 0.93:
            i = pick(g.usable)
            if i is not None:
                rk = rnd.random()
                if efg and rk < 0.5:
                    kind = rnd.choice("efgefgd")
                    op = "b%d.%s.0.%d.%s" % (i, kind, rnd.randint(0, 1), action_for(i, "g" if kind == "d" else kind))
                    armed = True
                    dbound = dbound or kind == "d"
                elif efg and rk < 0.6:
                    op = "N%d.%d" % (i, rnd.randint(0, 1))
                elif rnd.random() < 0.5:
                    op = "b%d.k.0.%d.%s" % (i, rnd.randint(0, 1), action_for(i))
                else:
                    mask = rnd.choice([0xff, 0x01, 0x02, 0x04, 0x10, 0x20, 0x40, 0x80, 0x12])
                    op = "b%d.m.%x.%d.%s" % (i, mask, rnd.randint(0, 1), action_for(i))
        elif events:
            op = rnd.choice(["k", "mp", "md", "md", "mr", "mw"] + (["Z"] if efg else []))
        if op is None:
            continue
        if not g.step(op):
            continue
        if op[0] == 'n':
            nwin += 1
        toks.append(op)
        if op[0] in "kmZ" or (armed and op[0] in "tyfp") or (dbound and op[0] in "uc"):
            # the ghost of the generator does not follow handlers: stop relying on it
            break
    if release and not armed and not any(t[0] in "kmZ" for t in toks):
        order = [i for i in range(nwin)]
        rnd.shuffle(order)
        progress = True
        while progress:
            progress = False
            for i in order:
                while g.held(i):
                    g.step("u%d" % i)
                    toks.append("u%d" % i)
                    progress = True
    return toks


def gen_W(tier, seed, info):
    rnd = random.Random(seed * 104729 + 8)
    stats = {"exhaustive": 0, "wf_random": 0, "event_random": 0, "malformed": 0}
    # --- exhaustive small scope: two tree shapes x all sequences of <= L calls over a fixed alphabet
    shapes = [["n0.0", "n0.0"], ["n0.0", "n1.0"]]
    alpha = ["r1", "u1", "c1", "R1", "L1", "u2", "c2", "R2", "B2", "u0", "f0"]
    L = 3 if tier == "quick" else 4
    for shape in shapes:
        for n in range(0, L + 1):
            for seq in itertools.product(alpha, repeat=n):
                stats["exhaustive"] += 1
                yield "W " + " ".join(shape + list(seq))
    # every flag combination at several depths, then destroyed parents-first and children-first
    for flags in range(16):
        for depth_parent in (0, 1, 2):
            pre = ["n0.0", "n1.0"][:depth_parent]
            w = depth_parent + 1
            for tail in (["u0"], ["u%d" % w, "u0"], ["R%d" % w, "u0"], ["r%d" % w, "u0", "u%d" % w],
                         ["c%d" % w, "u%d" % w, "f0", "u0"], ["R%d" % w, "c%d" % w, "f0", "u%d" % w, "u0"]):
                stats["exhaustive"] += 1
                yield "W " + " ".join(pre + ["n%d.%d" % (depth_parent, flags)] + tail)
    # restack requests inside a three-level chain, then the upper levels leave in every order
    for rs in RESTACK:
        for target in (2, 3):
            for tear in (["c1", "u1"], ["u1"], ["c2", "u2"], ["u2"], ["c1", "u1", "u0"], ["r2", "u1", "u2"],
                         ["r3", "c1", "u1", "u3"], ["r3", "u1", "f0", "u3"], ["c1", "c2", "u2", "u1"], ["u0"]):
                stats["exhaustive"] += 1
                yield "W n0.0 n1.0 n2.0 %s%d %s f0" % (rs, target, " ".join(tear))
    # handlers that unbind themselves and then cause a nested dispatch on their own window
    # (set_geometry -> GEOMCHANGE, take_focus -> FOCUS), alone or followed by a second handler
    for target, pre in ((1, ["n0.0"]), (0, []), (2, ["n0.0", "n1.0"])):
        for kind, evs in (("k.0", ["k"]), ("m.ff", ["mp"]), ("m.ff", ["mp", "md", "mr"])):
            for nested in ("y%d", "t%d", "y%d,t%d", "t%d,y%d", "h%d,s%d"):
                for second in (False, True):
                    for ret in (0, 1):
                        body = "U%d.0,%s" % (target, nested.replace("%d", str(target)))
                        toks = pre + ["b%d.%s.%d.%s" % (target, kind, ret, body)]
                        if second:
                            toks.append("b%d.%s.0.y%d" % (target, kind, target))
                        stats["exhaustive"] += 1
                        yield "W " + " ".join(toks + evs + evs + ["f0"])
    # a leaf that gets the key first (focused or stealing input) destroys an ancestor and lets the
    # dispatch continue there
    for leaf_first in (["t2"], ["S2.1"], ["t2", "S2.1"]):
        for keep in ([], ["r2"], ["r2", "r1"]):
            for body in ("c1,u1", "u1", "c1", "c1,u1,c2,u2", "h1,c1,u1", "c0,u0", "u0"):
                for ret in (0, 1):
                    for ev in ("k", "mp"):
                        kind = "k.0" if ev == "k" else "m.ff"
                        stats["exhaustive"] += 1
                        yield "W n0.0 n1.0 %s b2.%s.%d.%s %s %s f0" % (
                            " ".join(keep + leaf_first), kind, ret, body, ev, ev)
    # the same one level deeper: the leaf destroys the middle window of a four-level chain
    for body in ("c2,u2", "c1,u1", "u2", "c2,u2,c1,u1"):
        for keep in (["r3"], ["r3", "r2"], []):
            stats["exhaustive"] += 1
            yield "W n0.0 n1.0 n2.0 %s t3 b3.k.0.0.%s k k f0" % (" ".join(keep), body)
    # the drag source gets DRAG_OUTSIDE / DRAG_STOP delivered directly (not by recursion from the root): its
    # handler releases its own window and then ancestors (or closes / hides them), at depth 2 and 3
    for depth, pre in ((2, ["n0.0", "n1.0"]), (3, ["n0.0", "n1.0", "n2.0"])):
        d = depth
        bodies = ["u%d,u%d" % (d, d - 1), "u%d" % (d - 1), "u%d,c%d,u%d" % (d, d - 1, d - 1), "c%d,u%d" % (d - 1, d - 1),
                  "u%d,u%d" % (d - 1, d), "c%d,u%d,u%d" % (d, d, d - 1), "u%d,u0" % d, "u0"]
        if depth == 3:
            bodies += ["u3,u2,u1", "u3,u1", "u1", "u3,u1,u2", "c1,u1,u3"]
        for body in bodies:
            for keep in ([], ["r%d" % (d - 1)], ["r%d" % d]):
                for mask, evs in (("80", ["mp", "md", "mr"]), ("20", ["mp", "md", "md"]), ("a0", ["mp", "md", "md", "mr"])):
                    stats["exhaustive"] += 1
                    yield "W " + " ".join(pre + keep + ["b%d.m.10.1.-" % d, "b%d.m.%s.0.%s" % (d, mask, body)] + evs + ["f0"])
    # window pens: every sequence of <= 3 pen calls over two windows (own pen, the other's pen, NULL, fresh, scroll
    # with a pen), then the windows go in either order
    pen_alpha = ["q1", "q2", "Q1.2", "Q2.1", "z1", "P1", "P2", "o1.2", "o2.2", "q0", "Q1.0"]
    for n in range(1, 4 if tier == "quick" else 5):
        for seq in itertools.product(pen_alpha, repeat=n):
            for tear in (["u1", "u2", "f0"], ["u2", "u1", "u0"]):
                stats["exhaustive"] += 1
                yield "W n0.0 n0.0 " + " ".join(list(seq) + tear)
    # EXPOSE / FOCUS / GEOMCHANGE handlers: tree root > 1 > 2, root > 3; a handler on any window releases, closes or
    # closes+releases any window (its own included), with and without an extra client reference on the target;
    # expose: the whole tree is exposed and flushed; focus: the focus moves 2 -> 3 -> 1 (with and without
    # focus_child_notify on the ancestors); geomchange: the window is resized
    efg_pre = ["n0.0", "n1.0", "n0.0"]
    for bound in range(4):
        for target in range(4):
            for body in ("c%d,u%d", "u%d", "c%d"):
                if target == 0 and body == "c%d":
                    continue
                b = body.replace("%d", str(target))
                for keep in ([], ["r%d" % target]):
                    for once in (False, True):
                        bb = ("U%d.0," % bound if once else "") + b
                        for kind, runs in (("e", [["x0", "f0", "f0"], ["x%d" % bound, "f0", "x0", "f0"]]),
                                           ("f", [["t2", "t3", "t1", "f0"], ["N0.1", "N1.1", "t2", "t3", "t1", "f0"],
                                                  ["N0.1", "N1.1", "t%d" % target, "t0", "f0"]]),
                                           ("g", [["y%d" % bound, "f0"], ["y%d" % bound, "y%d" % bound, "x0", "f0"]])):
                            for run in runs:
                                stats["exhaustive"] += 1
                                yield "W " + " ".join(efg_pre + keep + ["b%d.%s.0.0.%s" % (bound, kind, bb)] + run)
    # the focus is somewhere already when the handler is bound: the window that loses it (or an ancestor that is told)
    # closes / releases the window that is taking it
    for pre in (["t2"], ["t3"], ["N0.1", "N1.1", "t2"], ["N0.1", "t3"]):
        for bound in range(4):
            for target in range(4):
                for body in ("c%d,u%d", "u%d", "c%d"):
                    if target == 0 and body == "c%d":
                        continue
                    b = body.replace("%d", str(target))
                    for run in (["t1", "f0"], ["t0", "f0"], ["t3", "t2", "f0"]):
                        stats["exhaustive"] += 1
                        yield "W " + " ".join(efg_pre + pre + ["b%d.f.0.0.%s" % (bound, b)] + run)
    # two handlers of the same kind on one window, the first removes the window (or the second handler); nested
    # dispatch from a handler that has unbound itself: flush inside expose, take_focus inside focus, resize inside geomchange
    for kind, trig in (("e", ["x0", "f0"]), ("f", ["t1"]), ("g", ["y1"])):
        for first in ("c1,u1", "u1", "U1.1", "U1.0", "c1"):
            for second in ("u1", "c1,u1", "r1", "-"):
                stats["exhaustive"] += 1
                yield "W n0.0 b1.%s.0.0.%s b1.%s.0.0.%s %s f0 u0" % (kind, first, kind, second, " ".join(trig))
        for nested in ("x1,f0", "x0,f0,c1,u1", "t1", "t0", "y1", "y1,c1,u1", "f0", "c1,u1,f0", "t1,c1,u1", "u0"):
            for where in (0, 1):
                stats["exhaustive"] += 1
                yield "W n0.0 b%d.%s.0.0.U%d.0,%s %s f0 u0" % (where, kind, where, nested, " ".join(trig))
    # a handler releases its own window and then ancestors of it, in every order (the ancestor's destruction must not
    # consume the reference the dispatch holds on the window): every event kind, bound at depth 1 and 2
    for kind, trig in (("e", "x0 f0"), ("f", "t%d"), ("g", "y%d"), ("g", "p%d"), ("g", "t%d p%d"), ("k", "t%d k"), ("m", "mp")):
        for bound in (1, 2):
            for n in (1, 2, 3):
                for seq in itertools.permutations((0, 1, 2), n):
                    for keep in ([], ["r1"], ["r2"]):
                        stats["exhaustive"] += 1
                        yield "W n0.0 n1.0 %s b%d.%s.%s.0.%s %s f0" % (
                            " ".join(keep), bound, kind, "ff" if kind == "m" else "0", ",".join("u%d" % i for i in seq),
                            trig.replace("%d", str(bound)))
    # the terminal is resized: the root's geomchange handlers release / close the root or its children; then a flush
    for body in ("u0", "c0,u0", "u1", "c1,u1", "u1,u0", "c1,u1,u0", "x0,f0", "-"):
        for keep in ([], ["r0"]):
            for where in (0, 1):
                stats["exhaustive"] += 1
                yield "W n0.0 %s b%d.g.0.0.%s Z f0 Z y0 f0" % (" ".join(keep), where, body)
    # DESTROY handlers that make calls on OTHER windows (not modelled; judged by the oracle alone): the handler of a
    # window that is being destroyed flushes, exposes, moves the focus, resizes, releases / closes its parent, the root or
    # a sibling, creates a window -- while its own window is still in the tree with no reference left
    for shape, dying, others in ((["n0.0"], 1, [0]), (["n0.0", "n0.0"], 1, [0, 2]), (["n0.0", "n1.0", "n0.0"], 2, [0, 1, 3]),
                                 (["n0.0", "n1.0", "r2"], 1, [0, 2])):
        d = dying
        # ... and calls on the dying window itself (not traced: the handler is handed the window): events on it, its pen
        bodies = ["f0", "x0,f0", "u0", "t0", "y0", "Z", "n0.0", "R%d" % dying, "-",
                  "y%d" % d, "t%d" % d, "x%d,f0" % d, "p%d" % d, "q%d,z%d,P%d" % (d, d, d), "h%d,f0" % d, "t%d,y%d,x%d,f0,u0" % (d, d, d),
                  "N%d.1,t%d" % (d, d), "y%d,y%d" % (d, d)]
        for o in others:
            if o != 0:
                bodies += ["u%d" % o, "c%d,u%d" % (o, o), "t%d" % o, "y%d" % o, "p%d" % o, "x%d,f0" % o, "h%d,f0" % o, "n%d.0" % o]
        for body in bodies:
            for pre in ([], ["t%d" % dying], ["R%d" % dying], ["x0"]):
                for how in (["u%d" % dying], ["c%d" % dying, "u%d" % dying]):
                    stats["exhaustive"] += 1
                    yield "W " + " ".join(shape + pre + ["b%d.d.0.0.%s" % (dying, body)] + how + ["f0"])
    # the expose handlers release the root itself (flush goes on using it), at the root and below
    for where in (0, 1, 2):
        for body in ("u0", "c1,u1,u0", "u1,u0", "c0,u0", "u0,u1"):
            for keep in ([], ["r0"]):
                stats["exhaustive"] += 1
                yield "W n0.0 n1.0 %s b%d.e.0.0.%s x0 f0 f0" % (" ".join(keep), where, body)
    info["exhaustive"] = True
    info["exhaustive_scope"] = ("W: 2 tree shapes (two siblings; parent+child) x every sequence of <= %d calls over %s; "
                                "16 flag combinations x 3 depths x 6 teardown orders; 4 restack kinds x 2 targets in a 3-level chain x 10 teardown orders; self-unbinding handlers x 5 nested dispatches x 3 positions x 3 event kinds; leaf handlers destroying an ancestor (focus/steal x kept references x 7 bodies x key/mouse); drag sources whose DRAG_OUTSIDE/DRAG_STOP handlers release themselves and their ancestors (2 depths x 8-13 bodies x 3 kept references x 3 event sequences); window pens: every sequence of <= 3 pen calls over two windows x 2 teardowns; EXPOSE/FOCUS/GEOMCHANGE handlers on each of 4 windows (root > 1 > 2, root > 3) releasing / closing / closing+releasing each of the 4 windows, with and without an extra reference, self-unbinding or not, x 2-3 trigger sequences per kind; the focus already held when the handler is bound (4 prefixes x 4 x 4 x 3 bodies x 3 runs); two handlers of one kind on a window; nested dispatch from a self-unbound handler (10 bodies x 2 places x 3 kinds); handlers releasing their own window and its ancestors in every order (7 kind/trigger pairs x 2 depths x 15 orders x 3 kept references); terminal resize with root geomchange handlers (8 bodies x 2 x 2); expose handlers releasing the root during flush (3 places x 5 bodies x 2)" % (L, " ".join(alpha)))
    # --- random well-formed lifecycles, without and with events
    n_wf = 2500 if tier == "quick" else 60000
    for _ in range(n_wf):
        stats["wf_random"] += 1
        yield "W " + " ".join(gen_wf_script(rnd, rnd.randint(3, 14), False, rnd.random() < 0.8))
    n_ev = 3500 if tier == "quick" else 120000
    for _ in range(n_ev):
        stats["event_random"] += 1
        efg = rnd.random() < 0.5
        toks = gen_wf_script(rnd, rnd.randint(4, 14), True, False, efg)
        # after the first event the generator no longer knows the state: add a few more events and a flush
        nw = 1 + sum(1 for t in toks if t[0] == 'n')
        more = ["k", "mp", "md", "mr", "mw", "f0"] + (["x0", "f0", "Z", "t%d" % rnd.randrange(nw), "y%d" % rnd.randrange(nw),
                                                       "p%d" % rnd.randrange(nw), "u%d" % rnd.randrange(nw)] if efg else [])
        toks += [rnd.choice(more) for _ in range(rnd.randint(0, 4))]
        yield "W " + " ".join(toks)
    # --- malformed stream: a well-formed prefix followed by calls the client has no right to make
    n_bad = 600 if tier == "quick" else 20000
    for _ in range(n_bad):
        stats["malformed"] += 1
        toks = gen_wf_script(rnd, rnd.randint(2, 8), False, False)
        nwin = 1 + sum(1 for t in toks if t[0] == 'n')
        for _ in range(rnd.randint(1, 3)):
            i = rnd.randrange(nwin)
            toks.append(rnd.choice(["u%d", "u%d", "r%d", "c%d", "R%d", "f%d", "t%d", "g%d", "x%d", "n%d.0", "h%d"]) % i)
        yield "W " + " ".join(toks)
    info["W"] = stats


# ---------------------------------------------------------------------------------------
# copy-out cases
CHARS = [("a", 1), ("é", 1), ("€", 1), ("中", 2)]


def hexs(b):
    return b.hex() if b else "-"


def gen_T(tier, seed, info):
    n = 0
    maxlen = 3
    for k in range(1, maxlen + 1):
        for combo in itertools.product(CHARS, repeat=k):
            text = "".join(c for c, _ in combo).encode()
            # column -> grapheme covering it / rest of the text from that grapheme on
            col = 0
            spans = []
            off = 0
            for c, w in combo:
                b = c.encode()
                for _ in range(w):
                    spans.append((col, off, len(b)))
                    col += 1
                off += len(b)
            for (c, o, bl) in spans:
                one = text[o:o + bl]
                rest = text[o:]
                for ln in range(0, len(one) + 3):
                    n += 1
                    yield "T c %s %d %d %s" % (hexs(text), c, ln, hexs(one))
                for ln in range(0, len(rest) + 3):
                    n += 1
                    yield "T s %s %d %d %s" % (hexs(text), c, ln, hexs(rest))
                n += 1
                yield "T n %s %d %s" % (hexs(text), c, hexs(one))
    for ln in range(0, 6):
        n += 3
        yield "T l %d e29480" % ln
        yield "T e %d" % ln
        yield "T k %d" % ln
    for cp in (0x41, 0xe9, 0x20ac, 0x1f600):
        b = chr(cp).encode()
        for ln in range(0, len(b) + 3):
            n += 1
            yield "T h %d %d %s" % (cp, ln, hexs(b))
    # mock terminal: width-1 characters only (one cell each)
    narrow = [c for c, w in CHARS if w == 1]
    for k in range(1, 4):
        for combo in itertools.product(narrow, repeat=k):
            cells = [c.encode() for c in combo]
            text = b"".join(cells)
            for col in range(k):
                for width in range(1, k - col + 1):
                    sel = cells[col:col + width]
                    total = sum(len(x) for x in sel)
                    for ln in range(0, total + 3):
                        n += 1
                        yield "T m %s %d %d %d %s" % (hexs(text), col, width, ln, ",".join(hexs(x) for x in sel))
    info["T"] = {"cases": n, "scope": "every text of <= 3 characters over {a, e-acute, euro, CJK-wide} x every column x "
                                     "every buffer length 0..text+2, for get_cell_text, get_span, LINE/CHAR/ERASE/SKIP cells "
                                     "and the mock terminal's get_display_text"}


def mock_trigger(case):
    """the known finding's trigger class: some cell's text fills the remaining length exactly"""
    t = case.split()
    if t[0] != 'T' or t[1] != 'm':
        return False
    rem = int(t[5])
    for cell in t[6].split(","):
        n = 0 if cell == "-" else len(cell) // 2
        if n and rem >= n:
            if rem == n:
                return True
            rem -= n
    return False


# ---------------------------------------------------------------------------------------
# object lifecycle scripts
def gen_O(tier, seed, info):
    rnd = random.Random(seed * 15485863 + 8)
    n = 400 if tier == "quick" else 20000
    fixed = [
        "O P+ u0", "O P+ d0 e0 a0.0 a0.1 Pc0 u0 u1", "O S+616263 r0 u0 g0 u0",
        "O B+ t0.616263 P+ a1.1 p0.1 s0 S0 x0 x0 t0.6465 q0.0.1 n0.0.2 c0 u0 u1",
        "O B+ t0.616263 B+ b1.0 m1 T+m f1.2 u0 u1 u2", "O B+ s0 S0 s0 u0", "O B+ t0.e4b8ade4b8ad m0 l0 E0 C0.233 z0 u0",
        "O T+m K+0 R1 u1", "O T+m r0 K+0 R1 u1 w0.6162 u0", "O T+m d0 Z0 k0 u0",
        "O T+x w0.6162 G0 F0 P+ a1.1 p0.1 h0.1 u1 u0", "O T+x P+ a1.3 p0.1 u1 u0", "O T+x P+ a1.3 h0.1 u1 u0",
        "O T+x r0 K+0 R1 u1 u0",
        "O T+n", "O T+n T+n P+ u0", "O T+n T+m u0",
        # the output buffer is resized while output is pending: grown, shrunk below what is pending, dropped
        "O T+x o0.64 w0.616263 w0.646566 o0.4 w0.6162 F0 u0", "O T+x o0.64 w0.616263 o0.128 w0.6162 F0 o0.0 w0.61 u0",
        "O T+x o0.16 w0.616263 G0 o0.2 G0 w0.e4b8ad F0 u0", "O T+x o0.8 o0.8 w0.61 o0.1 w0.6162 o0.0 F0 u0",
        "O T+m o0.16 w0.6162 o0.2 w0.6162 F0 u0",
        # a KEY handler of a terminal / a CHANGE handler of a pen drops a reference - the last one - to its own object
        "O T+m H0.0 k0", "O T+x H0.0 k0", "O T+m r0 H0.0 k0 u0", "O T+m H0.0 i0.41", "O T+x H0.0 i0.4142", "O T+m H0.0 H0.0 r0 k0",
        "O T+x K+0 H0.1 k0 u0", "O T+x K+0 H0.0 k0 u1", "O T+m P+ H0.1 k0 u0", "O T+m T+m H0.1 H1.0 k0 k1",
        "O P+ H0.0 a0.0", "O P+ H0.0 a0.2", "O P+ r0 H0.0 a0.1 u0", "O P+ r0 H0.0 a0.3 u0", "O P+ P+ H0.1 H1.0 a0.0",
        "O P+ B+ p1.0 H0.0 a0.0 t1.616263 u1", "O P+ T+x H0.0 p1.0 a0.0 w1.6162 u1",
        # a binding that is notified of its object's destruction still uses the dying object (emits a key and resizes the
        # terminal, changes the pen): the dispatch's reference pair must not destroy it a second time
        "O T+m D0.0 u0", "O T+x D0.0 u0", "O T+m D0.1 u0", "O T+x D0.1 u0", "O T+m D0.0 D0.1 H0.0 k0", "O T+x r0 K+0 D0.0 u1",
        "O T+m D0.1 D0.0 r0 u0 k0 u0", "O P+ D0.0 u0", "O P+ D0.1 u0", "O P+ D0.1 H0.0 a0.0", "O P+ D0.0 D0.1 r0 a0.1 u0 u0",
        "O P+ B+ D0.0 p1.0 u0 t1.616263 u1", "O P+ T+x D0.1 p1.0 u0 w1.6162 u1",
    ]
    for sizes in itertools.product((0, 1, 3, 16, 64), repeat=3):
        fixed.append("O T+x o0.%d w0.616263 G0 o0.%d w0.e4b8ad61 P+ a1.1 p0.1 o0.%d w0.6162 F0 u1 u0" % sizes)
    for c in fixed:
        yield c
    made = len(fixed)
    for _ in range(n):
        objs = []      # (kind, held)
        toks = []
        hooks = []     # [owner, target, armed]: H handlers (fire on the owner's next KEY / CHANGE event)
        dying_bound = set()   # objects with a D binding

        def fire(owner):
            for h in hooks:
                if h[0] == owner and h[2]:
                    h[2] = False
                    objs[h[1]][1] -= 1

        for _ in range(rnd.randint(3, 16)):
            live = [i for i, (k, h) in enumerate(objs) if h > 0]
            r = rnd.random()
            if r < 0.25 or not live:
                k = rnd.choice("PPSBBT")
                if k == 'P':
                    toks.append("P+")
                elif k == 'S':
                    toks.append("S+" + rnd.choice(["61", "616263", "c3a9e282ac", "e4b8ad61"]))
                elif k == 'B':
                    toks.append("B+")
                else:
                    toks.append("T+" + rnd.choice("mx"))
                objs.append([k, 1])
                continue
            i = rnd.choice(live)
            k = objs[i][0]
            pens = [j for j in live if objs[j][0] == 'P']
            terms = [j for j in live if objs[j][0] == 'T']
            rbs = [j for j in live if objs[j][0] == 'B']
            if r < 0.35:
                toks.append("r%d" % i); objs[i][1] += 1
            elif r < 0.5:
                toks.append("u%d" % i); objs[i][1] -= 1
            elif r < 0.56 and k in "PT":
                if i not in dying_bound:
                    j = rnd.choice(live)
                    toks.append("H%d.%d" % (i, j)); hooks.append([i, j, True])
            elif r < 0.59 and k in "PT":
                # (not on an object that has an H handler: the dying object's own events would fire it, at a moment the
                #  driver's expansion of H handlers does not know)
                if not any(h[0] == i for h in hooks):
                    toks.append("D%d.%d" % (i, rnd.randint(0, 1))); dying_bound.add(i)
            elif k == 'P':
                c = rnd.choice("adeyc")
                if c == 'a':
                    toks.append("a%d.%d" % (i, rnd.randint(0, 2))); fire(i)
                elif c == 'y':
                    if not any(h[0] == i for h in hooks):      # whether a copy changes anything depends on the attributes
                        toks.append("y%d.%d" % (i, rnd.choice(pens)))
                elif c == 'c':
                    toks.append("Pc%d" % i); objs.append(['P', 1])
                else:
                    toks.append("%s%d" % (c, i))
            elif k == 'S':
                toks.append("g%d" % i)
            elif k == 'B':
                c = rnd.choice("ttElCpsSxxczqnfbm")
                if c == 't':
                    toks.append("t%d.%s" % (i, rnd.choice(["616263", "c3a9e282ac78", "e4b8ade4b8ad", "6162636465666768696a6b6c6d"])))
                elif c == 'C':
                    toks.append("C%d.%d" % (i, rnd.choice([65, 233, 0x20ac])))
                elif c == 'p':
                    if pens:
                        toks.append("p%d.%d" % (i, rnd.choice(pens)))
                elif c in "qn":
                    toks.append("%s%d.%d.%d" % (c, i, rnd.randint(0, 5), rnd.randint(0, 8)))
                elif c == 'f':
                    if terms:
                        toks.append("f%d.%d" % (i, rnd.choice(terms)))
                elif c == 'b':
                    if len(rbs) > 1:
                        toks.append("b%d.%d" % (i, rnd.choice([j for j in rbs if j != i])))
                else:
                    toks.append("%s%d" % (c, i))
            elif k == 'T':
                c = rnd.choice("wFGZkkdphooi")
                if c == 'w':
                    toks.append("w%d.%s" % (i, rnd.choice(["6162", "c3a9", "e4b8ad"])))
                elif c in "ph":
                    if pens:
                        toks.append("%s%d.%d" % (c, i, rnd.choice(pens)))
                elif c == 'o':
                    toks.append("o%d.%d" % (i, rnd.choice([0, 1, 2, 5, 16, 64, 256])))
                elif c == 'i':
                    toks.append("i%d.%s" % (i, rnd.choice(["41", "4142", "61"]))); fire(i)
                elif c == 'k':
                    toks.append("k%d" % i); fire(i)
                else:
                    toks.append("%s%d" % (c, i))
        if rnd.random() < 0.85:
            for i, (k, h) in enumerate(objs):
                toks += ["u%d" % i] * max(0, h)
        made += 1
        yield "O " + " ".join(toks)
    info["O"] = {"cases": made}


R_TAILS = ["", "x", "x t0", "x t0 f", "x t0 F", "t0 x t1 f", "x x t0 z", "t0 x e0 c F", "x pN t1 x t0 F", "e1 x t1 z t0 f",
           "t0 s pN t1 x t2 x f"]
R_OPS = ["s", "S", "x", "x", "pN", "pN", "pE", "pA", "pB", "t0", "t1", "t2", "t3", "e0", "e1", "e2", "e3", "c", "z", "f", "F"]


def gen_R(tier, seed, info):
    """the pen stack of a render buffer: setpen with NULL / an empty pen / pens with attributes at every stack depth
    (save and savepen frames, with and without a pen change before them), followed by restore, further drawing,
    flush to an xterm / the mock terminal, reset; then random programs; the buffer is dropped at the end of every case"""
    rnd = random.Random(seed * 32452843 + 8)
    made = 0
    for c in ["R", "R pN", "R s pN x t0 f", "R S pN x e0 F", "R t0 t0 e0 t0 c t1 z", "R t3 e3 t0 f t0 F"]:
        made += 1
        yield c
    for d in range(0, 4):
        for frames in itertools.product("sS", repeat=d):
            for pre in ([], ["pA"]):
                for x in ("pN", "pE", "pA", "pB"):
                    for tail in R_TAILS:
                        made += 1
                        yield " ".join(["R"] + pre + list(frames) + [x] + tail.split())
    n = 1500 if tier == "quick" else 40000
    for _ in range(n):
        made += 1
        yield "R " + " ".join(rnd.choice(R_OPS) for _ in range(rnd.randint(2, 24)))
    info["R"] = {"cases": made}


def gen(tier, seed, info):
    yield from gen_T(tier, seed, info)
    yield from gen_O(tier, seed, info)
    yield from gen_R(tier, seed, info)
    yield from gen_W(tier, seed, info)


# ---------------------------------------------------------------------------------------
def has_destroy_handler(case):
    return case.startswith("W ") and any(t[0] == 'b' and t.split('.')[1:2] == ['d'] for t in case.split()[1:])


def canon(case, obs):
    """details after '#' (sanitizer kind, file, function, LSan's own verdict) are for the reader only"""
    i = obs.find(" #")
    return obs[:i] if i >= 0 else obs


def classify(case, obs):
    t = case.split()
    verdict = obs.split()[0] if obs else "?"
    if t[0] == 'W':
        ops = t[1:]
        letters = "".join(sorted(set(o[0] for o in ops)))
        nwin = 1 + sum(1 for o in ops if o[0] == 'n')
        leak = "leak=1" in obs
        return ('W', verdict, letters, nwin, leak)
    if t[0] == 'T':
        k = t[1]
        if k in "cs":
            need = 0 if t[5] == "-" else len(t[5]) // 2
            ln = int(t[4])
            fit = "<" if ln < need else "=" if ln == need else "+1" if ln == need + 1 else ">"
            return ('T', k, verdict, need, fit)
        return ('T', k, verdict, t[2] if len(t) > 2 else "")
    if t[0] == 'O':
        return ('O', verdict, "".join(sorted(set(o[0] for o in t[1:]))))
    if t[0] == 'R':
        depth = maxdepth = 0
        for o in t[1:]:
            if o in "sS":
                depth += 1
            elif o == "x":
                depth = max(0, depth - 1)
            elif o in "zfF":
                depth = 0
            maxdepth = max(maxdepth, depth)
        return ('R', verdict, "".join(sorted(set(o[:2] if o[0] == 'p' else o[0] for o in t[1:]))), maxdepth)
    return None


def shrink(case):
    t = case.split()
    if t[0] not in "WOR":
        return
    for i in range(len(t) - 1, 0, -1):
        if t[i] == "-":
            continue
        if t[i][0] == 'n' or t[i].endswith('+') or '+' in t[i][:2]:
            continue                      # removing a constructor would renumber the objects
        yield " ".join(t[:i] + t[i + 1:])
    for i in range(1, len(t)):
        if t[i][0] == 'b' and t[i].count('.') >= 4:
            head = t[i].split('.', 4)
            acts = head[4].split(',')
            for j in range(len(acts)):
                yield " ".join(t[:i] + [".".join(head[:4] + [",".join(acts[:j] + acts[j + 1:]) or "-"])] + t[i + 1:])


FINDING_MOCKTERM = "C08-mockterm-display-text-nul"


def explain(case, obs, findings):
    """attribute exactly the trigger classes of the recorded findings (unless listed as fixed)"""
    fixed = {f["id"] for f in findings if f.get("status") == "fixed"}
    t = case.split()
    if t[0] == 'T' and t[1] == 'm' and obs.startswith("OOB") and mock_trigger(case) and FINDING_MOCKTERM not in fixed:
        return FINDING_MOCKTERM
    return None
