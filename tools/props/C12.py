"""C12 -- every terminal mode switched on is switched off again by pause/teardown; resume
re-establishes logical modes and pen; getctl reads the last value set
(src/termdriver-xterm.c setctl_int/getctl_int/teardown/resume, src/term.c, src/tickit.c setupterm)."""
import atexit
import os
import random
import subprocess

ID = "C12"
ML = "mC12"
HARNESS = "harness/C12.c"
SRCS = None
DRIVER_PARTS = ["xt_util.ml", "drv_C12.ml"]
LEVEL = "proof"
CASE_TIMEOUT = 0.2
RULE = ("case = a history of control settings (altscreen, cursorvis, cursorblink, mouse, cursorshape, keypad_app; any "
        "order, repeated, redundant; boolean controls with truthy values 2, 4, 256, -1 as well as 0/1), control reads, set-pen / change-pen, pause / resume cycles, ending in teardown "
        "and/or destruction -- directly on an xterm TickitTerm (T) or through a toplevel Tickit instance whose first tick "
        "runs setupterm (U; B = CONSTRUCTION ORDERS AND OUTPUT BUFFERS: the terminal comes from tickit_term_new_for_termtype and the history itself "
        "sets the output buffer (sizes 1..4096), attaches the output (function or fd; the first attach starts the driver) and flushes, in any order -- "
        "buffer, settings, then output; output, buffer, settings; ... -- with no flush added by the harness, so that each observation is what has been "
        "DELIVERED to the output during the call and a history may end in an explicit teardown; judged by TermBufSpec.oracle_buf at the points where the "
        "library owes the terminal everything written so far: after flush, teardown, destruction, the first attach, and after every call without a buffer; W = the same with a terminal in the loop whose replies to the start-up queries arrive on the input fd after 0, 1, 2 reads or never), optionally with the application holding its own reference on the root window or the terminal across the final tickit_unref.  The bytes of every operation are compared with the model's and run through the extracted "
        "VT: after pause / teardown / destruction the modes of the property's list and the rendition are the initial ones, "
        "after resume (and after every setting while running) they are the logical ones, the rendition is the logical "
        "pen, and every read returns the last value set.  Non-trivial = at least one operation wrote bytes; distinct = "
        "distinct (layer, probed state, sequence of operation kinds with value, first eight).")
ASSUMPTIONS = [
    "the terminal starts in its power-on mode state (main screen, cursor visible, no mouse reporting, numeric keypad, "
    "default rendition); the cursor's initial blink state and shape are whatever the terminal reports",
    "control values in range (boolean controls: any int, read as C truthiness; mouse 0..3; cursor shape 1..3); pens as for C10",
    "nothing is requested between teardown and destruction; settings made while paused are checked after the next resume",
    "layer B (TermBufSpec): before an output is attached only set_output_buffer, settings and reads are judged (a pen set there is reset by "
    "start()'s SGR probe while it stays cached; bytes written without buffer and output, or a buffer that fills up or is replaced before "
    "it could be delivered, are dropped by term.c: such histories are out of range, i.e. at most 8 settings into a buffer of at least 1024 bytes)",
    "the property's list of modes: alternate screen, cursor visibility, mouse reporting (+SGR encoding), application keypad, "
    "rendition; cursor blink and shape are not restored by the library and are compared only after being set; DECLRMM "
    "(mode 69), which start() enables for probing and never disables, is not a control and is outside the list",
]
TRUSTED = [
    "coq/VT.v mode semantics (1049 with cursor save/restore and buffer switch, 25, 12, 69, 1000/1002/1003 as one register, "
    "1006, DECKPAM/DECKPNM, DECSCUSR)",
    "coq/XtermModeSpec.v: logical modes = last value successfully set else initial; checkers",
    "models coq/XtermDefs.v, coq/TermPenDefs.v hand-written after src/termdriver-xterm.c, src/term.c, src/tickit.c",
]

FINDING_KEYPAD = "C12-keypad-app-not-recorded"
VERIF = os.path.dirname(os.path.dirname(os.path.dirname(os.path.abspath(__file__))))

PENS = ["-", "b=1", "fg=3", "fg=3,bg=200,u=1", "rv=1", "fg=12#aabbcc,i=1", "b=0", "fg=-1", "u=2,strike=1", "af=3,blink=1,sizepos=2"]
# boolean controls take any int, read as C truthiness: flag-style values with a clear low bit, large, negative
TRUTHY = [0, 1, 2, 4, 256, -1]
SETS = {"A": TRUTHY, "V": TRUTHY, "B": TRUTHY, "M": [0, 1, 2, 3], "H": [1, 2, 3], "K": TRUTHY}


def _gen(tier, seed, info):
    rnd = random.Random(seed * 7919 + 12)
    quick = tier == "quick"
    counts = {}

    def emit(kind, line):
        counts[kind] = counts.get(kind, 0) + 1
        return line
    heads = ["T 2 2 0 0", "T -1 0 0 0", "T 1 1 1 1", "T 4 2 0 1", "T 0 1 1 0"]
    # 1. every control x every ordered pair of values, read back, pause/resume, teardown
    for h in heads:
        for c, vals in SETS.items():
            for v in vals:
                for w in vals:
                    yield emit("pairs", "%s %s:%d g:%s %s:%d g:%s Z R g:%s T" % (h, c, v, c, c, w, c, c))
                    yield emit("pairs", "%s %s:%d %s:%d D" % (h, c, v, c, w))
    # 2. all histories of up to 3 settings over (A, V, M, K) x pause/resume position, ending in D or T
    basic = ["A:1", "A:0", "A:2", "V:0", "V:1", "V:-1", "M:1", "M:2", "M:0", "K:1", "K:0"]
    for a in basic:
        for b in basic:
            for end in ("D", "T", "T D", "Z D", "Z R D", "Z T"):
                yield emit("short_histories", "T 2 2 0 0 %s %s %s" % (a, b, end))
            if quick and rnd.random() < 0.5:
                continue
            for c in basic:
                yield emit("short_histories", "T 2 2 0 0 %s Z R %s Z %s R D" % (a, b, c))
    # 2b. modes / pen switched on while paused, then torn down or destroyed without a resume
    for a in ("A:1", "V:0", "M:2", "M:3", "s:b=1", "c:fg=3,u=1", "A:4", "V:0 M:1 s:rv=1"):
        for pre in ("", "A:1", "M:1 V:0", "s:fg=2"):
            for end in ("D", "T", "T D", "Z D", "Z T"):
                yield emit("paused_then_stop", ("T 2 2 0 0 %s Z %s %s" % (pre, a, end)).replace("  ", " "))
    # 3. pen across pause / resume
    for h in heads[:3]:
        for p in PENS:
            for q in PENS[:5]:
                yield emit("pen_pause", "%s s:%s Z R s:%s c:%s Z R c:%s T" % (h, p, p, q, q))
                yield emit("pen_pause", "%s A:1 c:%s Z Z R R s:%s D" % (h, p, q))
    # 4. the toplevel's fixed setup
    for alt in (0, 1):
        for colon, rgb in ((0, 0), (1, 1)):
            yield emit("toplevel", "U %d %d %d D" % (alt, colon, rgb))
            yield emit("toplevel", "U %d %d %d g:A g:V g:M g:K Z R D" % (alt, colon, rgb))
            for p in PENS[:6]:
                yield emit("toplevel", "U %d %d %d s:%s Z R c:%s M:0 V:1 D" % (alt, colon, rgb, p, p))
    # 4b. the application keeps its own references (root window w, terminal h) across the final tickit_unref
    #     of the instance and releases them afterwards (x) or never: the terminal must be restored at D
    for alt in (0, 1):
        for hold in ("w", "h", "w h", "h h", "h w"):
            for mid in ("", "s:fg=2,b=1", "M:3 V:1", "Z", "Z R", "A:0", "s:rv=1 Z A:1"):
                for tail in ("D", "D x", "D g:A g:M x"):
                    yield emit("held_refs", ("U %d 0 0 %s %s %s" % (alt, hold, mid, tail)).replace("  ", " "))
                yield emit("held_refs", ("U %d 1 1 %s %s x D" % (alt, mid, hold)).replace("  ", " "))
    # 4c. a terminal in the loop that answers the start-up queries on the input fd: every subset of the four
    #     replies, delays 0..2 reads (0 = read by setupterm's await, k = read at the k-th later tick)
    wn = 0
    for alt in (0, 1):
        for tail in ("g:V g:B g:H D", "t g:V t g:V Z R g:V D", "V:1 t t g:V V:0 t g:V D", "B:1 H:3 t t g:B g:H T D",
                     "w t Z t R D x"):
            yield emit("responding_terminal", "W %d 0 0 0 0 0 0 %s" % (alt, tail))     # all at once: no waiting
    delays = [-1, 0, 1, 2]
    for d69 in (0, 2):
        for d25 in delays:
            for d12 in delays:
                for dsc in delays:
                    if (d69, d25, d12, dsc) == (0, 0, 0, 0):
                        continue
                    wn += 1
                    if quick and wn % 3 != seed % 3:
                        continue          # each of these waits 50 ms in await_started
                    yield emit("responding_terminal", "W %d 0 %d %d %d %d %d g:V g:B g:H t g:V g:B g:H B:0 t H:2 t g:V g:B g:H Z R D"
                               % (wn % 2, wn % 2, d69, d25, d12, dsc))
    # 4d. construction orders and output buffers (layer B): no flush is added; what counts is what has been delivered
    bsets = ["A:1", "V:0", "M:2", "A:1 V:0", "A:1 V:0 M:3", "M:1 K:0", "A:2 M:2 V:-1", "B:1 H:2 A:1"]
    bends = ["T", "g:A g:V g:M T", "F g:A g:V g:M Z F R F T", "D", "T D", "Z T", "F Z R T", "g:M Z R g:A D"]
    for fd in (0, 1):
        for cfg in bsets:
            for end in bends:
                # buffer -> settings -> output
                yield emit("construction_order", "B 2 2 0 0 %d b:4096 %s o %s" % (fd, cfg, end))
                # output -> buffer -> settings
                yield emit("construction_order", "B 2 2 0 0 %d o b:4096 %s %s" % (fd, cfg, end))
            # buffer -> output -> settings; settings split around the attach; no buffer at all; buffer replaced after a flush
            yield emit("construction_order", "B 2 2 1 1 %d b:1024 o %s F T" % (fd, cfg))
            yield emit("construction_order", "B -1 0 0 0 %d b:2048 %s o %s g:A g:V g:M T" % (fd, cfg, cfg))
            yield emit("construction_order", "B 2 2 0 0 %d o %s T" % (fd, cfg))
            yield emit("construction_order", "B 2 1 0 0 %d b:4096 %s o F b:16 %s Z R T" % (fd, cfg, cfg))
            yield emit("construction_order", "B 2 2 0 0 %d b:4096 %s o b:0 %s T" % (fd, cfg, cfg))
    for size in (1, 2, 7, 16, 64, 4096):
        for fd in (0, 1):
            for pen in ("b=1,fg=3", "rv=1", "fg=12#aabbcc,u=3"):
                for mid in ("", "F", "Z R", "Z F R", "A:0 A:1 A:1 V:1 V:0 M:0 M:1"):
                    yield emit("buffered_teardown", ("B 2 2 1 1 %d o b:%d A:1 V:0 M:3 s:%s %s T" % (fd, size, pen, mid)).replace("  ", " "))
                    yield emit("buffered_teardown", ("B 2 2 0 0 %d b:%d o A:1 s:%s %s c:b=0 T g:A" % (fd, size, pen, mid)).replace("  ", " "))
    info["exhaustive"] = True
    info["exhaustive_scope"] = ("every control x every ordered pair of its values with read-back, pause/resume and teardown, "
                                "for five probed start states; all 2-setting histories over altscreen/cursorvis/mouse/keypad "
                                "x six endings; the toplevel setup with and without altscreen")
    # 5. random histories
    n = 5000 if quick else 800000
    for _ in range(n):
        top = rnd.random() < 0.15
        ops = []
        paused = False
        for _ in range(rnd.randint(1, 12)):
            r = rnd.random()
            if r < 0.45:
                c = rnd.choice("AAVVMMMBHKK")
                ops.append("%s:%d" % (c, rnd.choice(SETS[c])))
            elif r < 0.6:
                ops.append("g:" + rnd.choice("AVBMHK"))
            elif r < 0.75:
                ops.append(rnd.choice("sc") + ":" + rnd.choice(PENS))
            elif r < 0.9:
                ops.append("R" if paused and rnd.random() < 0.8 else "Z")
                paused = ops[-1] == "Z"
            else:
                ops.append(rnd.choice(["Z", "R"]))
                paused = ops[-1] == "Z"
        ops.append(rnd.choice(["D", "D", "T", "T D"]))
        if top:
            ops = [o for o in ops if o != "T" and o != "T D"] + (["D"] if ops[-1] != "D" else [])
            if rnd.random() < 0.4:
                ops.insert(rnd.randrange(len(ops)), rnd.choice(["w", "h"]))
                if rnd.random() < 0.3:
                    ops.insert(rnd.randrange(len(ops)), rnd.choice(["w", "h"]))
                if rnd.random() < 0.6:
                    ops.append("x")
            yield emit("random_U", "U %d %d %d %s" % (rnd.randint(0, 1), rnd.randint(0, 1), rnd.randint(0, 1), " ".join(ops)))
        else:
            h = rnd.choice(heads + ["T %d %d %d %d" % (rnd.choice([-1, 0, 1, 2, 3, 4, 5, 6]), rnd.randint(0, 2), rnd.randint(0, 1), rnd.randint(0, 1))])
            yield emit("random_T", "%s %s" % (h, " ".join(ops)))
    # 6. random histories of layer B
    for _ in range(1500 if quick else 200000):
        fd = rnd.randint(0, 1)
        ops = []
        attached = False
        cap = 0
        synced = True
        pre = 0
        paused = False
        order = rnd.random()
        if order < 0.45:
            cap = rnd.choice([1024, 4096])
            ops.append("b:%d" % cap)
        elif order < 0.8:
            ops.append("o"); attached = True
            if rnd.random() < 0.8:
                cap = rnd.choice([1, 3, 7, 16, 64, 4096]); ops.append("b:%d" % cap)
        else:
            ops.append("o"); attached = True
        for _ in range(rnd.randint(1, 10)):
            r = rnd.random()
            if not attached:
                if r < 0.5 and cap >= 1024 and pre < 6:
                    c = rnd.choice("AVMMK"); ops.append("%s:%d" % (c, rnd.choice(SETS[c]))); pre += 1; synced = False
                elif r < 0.65:
                    ops.append("g:" + rnd.choice("AVMK"))
                else:
                    ops.append("o"); attached = True; synced = True
                continue
            if r < 0.4:
                c = rnd.choice("AAVVMMMBHKK"); ops.append("%s:%d" % (c, rnd.choice(SETS[c]))); synced = cap == 0
            elif r < 0.5:
                ops.append("g:" + rnd.choice("AVBMHK"))
            elif r < 0.62:
                ops.append(rnd.choice("sc") + ":" + rnd.choice(PENS)); synced = cap == 0
            elif r < 0.77:
                ops.append("R" if paused and rnd.random() < 0.8 else "Z"); paused = ops[-1] == "Z"; synced = cap == 0
            elif r < 0.9:
                ops.append("F"); synced = True
            elif r < 0.95 and synced:
                cap = rnd.choice([0, 1, 5, 16, 256]); ops.append("b:%d" % cap)
            else:
                ops.append("o")
        if not attached:
            ops.append("o")
        ops.append(rnd.choice(["T", "T", "T", "D", "T D", "F T", "T g:A g:M"]))
        yield emit("random_B", "B %d %d %d %d %d %s" % (rnd.choice([-1, 1, 2, 4]), rnd.randint(0, 2), rnd.randint(0, 1), rnd.randint(0, 1), fd, " ".join(ops)))
    info["cases_by_kind"] = counts
    info["random_ops"] = "1..12 operations: 45% settings, 15% reads, 15% pens, 25% pause/resume; ending D / T / T D"


def _ops(case):
    t = case.split()
    return t[0], (t[5:] if t[0] == "T" else t[8:] if t[0] == "W" else t[6:] if t[0] == "B" else t[4:])


def classify(case, obs):
    o = obs.split()
    if len(o) < 2:
        return None
    layer, ops = _ops(case)
    t = case.split()
    head = tuple(t[:5] if layer == "T" else t[:8] if layer == "W" else t[:6] if layer == "B" else t[:4])
    return (head, tuple(op if op[0] not in "sc" else op[0] for op in ops[:8]))


def sets_keypad_on(case):
    """trigger class of the known finding: the history switches the application keypad on
    (every toplevel history does: setupterm sets KEYPAD_APP)"""
    layer, ops = _ops(case)
    return layer in ("U", "W") or any(op.startswith("K:") and op != "K:0" for op in ops)


_co = None


def _nokp_oracle(case, obs):
    """the extracted oracle with the keypad mode / control left out"""
    global _co
    exe = os.path.join(VERIF, "build", ID, "drv")
    if _co is None or _co.poll() is not None:
        _co = subprocess.Popen([exe, "oracle-nokp"], stdin=subprocess.PIPE, stdout=subprocess.PIPE)
        atexit.register(lambda: _co and _co.poll() is None and _co.kill())
    _co.stdin.write(("%s | %s\n" % (case, obs)).encode())
    _co.stdin.flush()
    return _co.stdout.readline().decode().strip()


def explain(case, obs, findings):
    if not sets_keypad_on(case):
        return None
    try:
        if _nokp_oracle(case, obs).startswith("OK"):
            return FINDING_KEYPAD
    except Exception:
        return None
    return None


def shrink(case):
    t = case.split()
    n = 5 if t[0] == "T" else 8 if t[0] == "W" else 6 if t[0] == "B" else 4
    head, ops = t[:n], t[n:]
    for i in range(len(ops)):
        yield " ".join(head + ops[:i] + ops[i + 1:])


def gen(tier, seed, info):
    """cases outside the trigger class of the recorded finding first (stable), so that the first failing
    input reported for a broken tree is one that has nothing to do with the finding whenever such a case exists"""
    cases = list(_gen(tier, seed, info))
    cases.sort(key=sets_keypad_on)
    return iter(cases)
