"""C19 -- the pen as a partial attribute map (src/pen.c)."""
import itertools
import random

ID = "C19"
ML = "mC19"
HARNESS = "harness/C19.c"
SRCS = ["pen.c", "bindings.c"]
LEVEL = "proof"
RULE = ("case = history over three pens of set_bool/set_int/set_colour/set_colour_rgb8/set_colour_desc/clear_attr/clear/copy "
        "(both overwrite flags)/copy_attr/clone/new, attribute codes 0..11 (0 and 11 lie outside the enumeration); after every "
        "operation all getters of the written pen are dumped (has, get_bool, get_int, get_colour, has_rgb8, get_rgb8, "
        "nondefault for every attribute code, is_nonempty, is_nondefault), at the end all three pens, equiv for all 9 ordered "
        "pairs (the oracle checks reflexivity, symmetry, transitivity over all triples) and equiv_attr for every pair and "
        "attribute. Exhaustive part: every setter x every attribute code x every value in -300..600 (bit-field one bit too "
        "narrow shows), the in-type ones again through copy/clone, every attribute x (source value | absent) x (destination value | absent) x overwrite flag; every description string of length <= 3 over a "
        "16-letter alphabet, every RGB part of length <= 4 over an 11-letter alphabet, the documented grammar (13 names x "
        "hi- x blanks x RGB part, decimals -2..300) and every proper prefix of every name. Random part: histories of 1..14 "
        "operations drawn from a small pool of attributes/values (so that equal pens occur), descriptions mutated from "
        "the grammar. distinct = distinct (operation kind, attribute, value class) sequence signature, plus the description's "
        "shape for description cases.")
ASSUMPTIONS = ["attribute values are passed as C int (|v| < 2^31); gcc's modulo-2^n conversion when an int is stored into a narrower signed bit-field",
               "description strings are NUL-terminated C strings; sscanf behaves as glibc's (modelled: %d and %2hhx; compared on every run)",
               "pen event bindings (tickit_pen_bind_event) are outside the model; a handler is bound in the harness so that the event path runs"]
TRUSTED = ["model coq/PenDefs.v hand-written after src/pen.c; bit-field widths/signedness and colournames[] re-translated from pen.c into coq/Gen_Colours.v on every run (tools/tables/colours.py)",
           "spec coq/PenSpec.v: dictionary attr -> Absent|Present v|Unknown, documented description grammar (spec_desc), oracle check_case; C19_refines ties it to the model",
           "harness/C19.c (public API only); ASan fills fresh malloc blocks with 0xff so that fields tickit_pen_new leaves uninitialised are all-ones"]
CASE_TIMEOUT = 0.05

NAMES = ["black", "red", "green", "yellow", "blue", "magenta", "cyan", "white", "grey", "brown", "orange", "pink", "purple"]
BOOL_ATTRS = [3, 5, 6, 7, 9]
INT_ATTRS = [4, 8, 10]
COL_ATTRS = [1, 2]


def hx(s):
    return "".join("%02x" % ord(c) for c in s) or "-"


def desc_case(s, attr=1):
    return "sd:0:%d:%s" % (attr, hx(s))


def gen(tier, seed, info):
    quick = tier == "quick"
    n = 0
    # --- exhaustive 1: value sweeps beyond the representable range, every setter x every attribute code
    for op in ("sb", "si", "sc"):
        for a in range(12):
            for v in range(-300, 601):
                n += 1
                yield "%s:0:%d:%d" % (op, a, v)
    # in-type values once more through copy (both flags), copy_attr and clone
    for op, attrs in (("sb", BOOL_ATTRS + [4]), ("si", INT_ATTRS), ("sc", COL_ATTRS)):
        for a in attrs:
            for v in range(-300, 601):
                n += 1
                yield "%s:0:%d:%d cp:1:0:0 %s:2:%d:%d cp:2:0:1 ct:1:2:%d cn:2:1" % (op, a, v, op, a, (v * 7 + 3) % 17 - 2, a)
    # copy: every attribute x (source value | absent) x (destination value | absent) x overwrite flag,
    # colours also with an RGB8 secondary on either side; equal pens through clone/copy for equiv
    def setter(p, a, v):
        if v is None:
            return "ca:%d:%d" % (p, a)
        if a in BOOL_ATTRS:
            return "sb:%d:%d:%d" % (p, a, v)
        if a in INT_ATTRS:
            return "si:%d:%d:%d" % (p, a, v)
        if isinstance(v, tuple):
            return "sc:%d:%d:%d sr:%d:%d:%d:%d:%d" % ((p, a, v[0], p, a) + v[1])
        return "sc:%d:%d:%d" % (p, a, v)
    vals = {}
    for a in BOOL_ATTRS:
        vals[a] = [None, 0, 1]
    for a, r in ((4, (0, 1, 3)), (8, (-1, 0, 15)), (10, (0, 2, 3))):
        vals[a] = [None] + list(r)
    for a in COL_ATTRS:
        vals[a] = [None, -1, 0, 255, (0, (0, 0, 0)), (255, (1, 2, 3)), (-1, (9, 9, 9)), (0, (0, 0, 1))]
    for a in range(1, 11):
        for v1 in vals[a]:
            for v2 in vals[a]:
                for ow in (0, 1):
                    n += 1
                    yield "%s %s cn:2:1 cp:1:0:%d cp:2:0:%d cp:0:0:%d" % (setter(0, a, v1), setter(1, a, v2), ow, 1 - ow, ow)
    # frame: setting / clearing / describing attribute b leaves attribute a alone -- every ordered
    # pair of attributes, a carrying a rich value (colours with an RGB8 secondary)
    rich = {1: (5, (17, 128, 0)), 2: (200, (1, 2, 3)), 3: 1, 4: 3, 5: 1, 6: 1, 7: 1, 8: 15, 9: 1, 10: 3}
    other = {1: 7, 2: 0, 3: 0, 4: 1, 5: 0, 6: 0, 7: 0, 8: -1, 9: 0, 10: 2}
    for a in range(1, 11):
        for b in range(1, 11):
            if a == b:
                continue
            acts = [setter(1, b, other[b]), "ca:1:%d" % b, setter(1, b, rich[b])]
            if b in COL_ATTRS:
                acts += ["sd:1:%d:%s" % (b, hx("red")), "sd:1:%d:%s" % (b, hx("hi-blue #102030")), "sr:1:%d:9:8:7" % b]
            for act in acts:
                n += 1
                yield "%s %s cn:2:1 cp:0:1:1" % (setter(1, a, rich[a]), act)
    # every kind of mutating call while the pen's change handler drops a reference (the pen is held
    # by the library while handlers run)
    for act in ("sb:0:3:1", "si:0:8:5", "sc:0:1:5", "sc:0:1:5 hk:0 sr:0:1:1:2:3", "sd:0:2:%s" % hx("red #102030"),
                "ca:0:3", "cl:0", "sc:1:1:9 sr:1:1:4:5:6 sb:1:3:1 hk:0 cp:0:1:1", "sc:1:2:9 hk:0 ct:0:1:2",
                "sb:0:5:1 hk:0 cp:0:0:1", "hk:0 hk:0 sb:0:9:1 sb:0:9:0"):
        n += 1
        yield "hk:0 %s cn:2:0" % act
    # --- exhaustive 2: descriptions
    m = 0
    alpha = "blredhi-# 019fx+"
    for k in range(4):
        for t in itertools.product(alpha, repeat=k):
            m += 1
            yield desc_case("".join(t))
    ralpha = "01fFxX+- g#"
    for k in range(5):
        for t in itertools.product(ralpha, repeat=k):
            m += 1
            yield desc_case("7#" + "".join(t), 2)
    for name in NAMES:
        for hi in ("", "hi-"):
            for k in range(len(name) + 1):          # every prefix, the whole name last
                for sp in ("", " ", "  "):
                    for tail in ("", "#", "#102030", "#A0b0C0", "#12345", "#1234567", "# 12 34 56", "#0x1234", "#+1-2+3"):
                        m += 1
                        yield desc_case(hi + name[:k] + sp + tail)
            m += 2
            yield desc_case(hi + name + "x")
            yield desc_case(hi + name.capitalize())
    for v in range(-2, 301):
        for hi in ("", "hi-"):
            for tail in ("", " ", "#ff8000", " #ff8000", "abc", " x"):
                m += 1
                yield desc_case(hi + str(v) + tail)
    for s in ("99999999999", "2147483647", "2147483648", "4294967296", "4294967297", "-2147483648", "-2147483649",
              "9223372036854775807", "9223372036854775808", "-9223372036854775809", "18446744073709551617",
              "  12", "\t12", "\n12", "+12", "-+1", "+-1", "- 1", "0x10", "010", "1e3", "hi-+7", "hi--1", "hi- 7", "hi-08", "hi-8",
              "hi-hi-red", "Hi-red", "hi-", "hi", "h", "#", "##", "red##102030", "red#102030#405060", "red #10 20 30",
              "red\t#102030", "red# 102030", "red#1 02030", "red#-1-2-3", "red#0X0X0X", "red#0x0x0x", "red#00x1x2", "red#x10203",
              "red#1020", "red#10203", "red#102030ff", "red#10203g", "red#fffffff", "red#+f+f+f", "red #ffffff ", "grey#808080"):
        for a in (1, 2, 3, 0):
            m += 1
            yield desc_case(s, a)
    info["exhaustive"] = True
    info["exhaustive_scope"] = ("setters sb/si/sc x attribute codes 0..11 x values -300..600 (+ in-type values through copy/copy_attr/clone; + every attribute x source value|absent x destination value|absent x overwrite flag through clone and copy both ways; + frame: every ordered pair of attributes a, b: a set to a rich value, then b set / cleared / described, then clone and copy): %d cases; "
                                "descriptions: all strings of length <=3 over '%s', '7#'+all strings of length <=4 over '%s', "
                                "all prefixes of the 13 names x hi- x blanks x 9 RGB tails, decimals -2..300 x hi- x 6 tails, 52 special strings x 4 attributes: %d cases"
                                % (n, alpha, ralpha, m))
    info["exhaustive_cases"] = n + m
    # --- random histories
    rnd = random.Random(seed * 7919 + 19)
    nhist = 12000 if quick else 400000
    ndesc = 6000 if quick else 300000
    stats = {"histories": nhist, "descriptions": ndesc, "ops": {}}

    def rattr():
        r = rnd.random()
        return rnd.choice([0, 11]) if r < 0.04 else rnd.randint(1, 10)

    def rdesc():
        r = rnd.random()
        if r < 0.45:
            base = rnd.choice(NAMES) if rnd.random() < 0.7 else str(rnd.choice([0, 1, 7, 8, 15, 16, 255, 256, 300, -1, -2, rnd.randint(0, 255)]))
            s = rnd.choice(["", "", "hi-"]) + base
            if rnd.random() < 0.5:
                s += rnd.choice(["", " ", "  "]) + "#" + "".join(rnd.choice("0123456789abcdefABCDEF") for _ in range(rnd.choice([6, 6, 6, 5, 7, 2])))
            # mutate
            if rnd.random() < 0.4 and s:
                i = rnd.randrange(len(s))
                k = rnd.random()
                if k < 0.4:
                    s = s[:i] + s[i + 1:]
                elif k < 0.7:
                    s = s[:i] + rnd.choice("xX #-+0 g") + s[i:]
                else:
                    s = s[:i]
            return s
        if r < 0.8:
            return "".join(rnd.choice("blackredgnyuwhi-#0123456789abcdefABCDEFxX+ \t") for _ in range(rnd.randint(0, 14)))
        return rnd.choice(["hi-", ""]) + rnd.choice(NAMES)[:rnd.randint(0, 7)] + rnd.choice(["", "#123456", " #ffffff"])

    def rop():
        k = rnd.random()
        p, q = rnd.randint(0, 2), rnd.randint(0, 2)
        if k < 0.14:
            a = rnd.choice(BOOL_ATTRS + [4]) if rnd.random() < 0.9 else rattr()
            return "sb:%d:%d:%d" % (p, a, rnd.choice([0, 1, 1, 2]))
        if k < 0.30:
            a = rnd.choice(INT_ATTRS) if rnd.random() < 0.9 else rattr()
            v = rnd.choice([0, 1, 2, 3, -1, 0, 1, 2, 3, 4, 7, 8, 15, 16, -2, -4, -5, -16, -17, rnd.randint(-300, 600)])
            return "si:%d:%d:%d" % (p, a, v)
        if k < 0.46:
            a = rnd.choice(COL_ATTRS) if rnd.random() < 0.9 else rattr()
            v = rnd.choice([-1, 0, 1, 2, 7, 8, 15, 255, 1, 2, 255, 256, -2, -256, -257, 511, 512, rnd.randint(-300, 600)])
            return "sc:%d:%d:%d" % (p, a, v)
        if k < 0.56:
            a = rnd.choice(COL_ATTRS) if rnd.random() < 0.9 else rattr()
            c = rnd.choice([(0, 0, 0), (255, 255, 255), (16, 32, 48), (rnd.randint(0, 255), rnd.randint(0, 255), rnd.randint(0, 255))])
            return "sr:%d:%d:%d:%d:%d" % ((p, a) + c)
        if k < 0.64:
            a = rnd.choice(COL_ATTRS) if rnd.random() < 0.9 else rattr()
            return "sd:%d:%d:%s" % (p, a, hx(rdesc()))
        if k < 0.72:
            return "ca:%d:%d" % (p, rattr())
        if k < 0.75:
            return "cl:%d" % p
        if k < 0.89:
            return "cp:%d:%d:%d" % (p, q, rnd.randint(0, 1))
        if k < 0.93:
            return "ct:%d:%d:%d" % (p, q, rattr())
        if k < 0.96:
            return "cn:%d:%d" % (p, q)
        if k < 0.985:
            return "hk:%d" % p
        return "nw:%d" % p

    for _ in range(nhist):
        ops = [rop() for _ in range(rnd.randint(1, 14))]
        for o in ops:
            stats["ops"][o[:2]] = stats["ops"].get(o[:2], 0) + 1
        yield " ".join(ops)
    for _ in range(ndesc):
        pre = rnd.choice(["", "", "sc:0:1:5 sr:0:1:1:2:3 "])
        yield pre + desc_case(rdesc(), rnd.choice([1, 1, 2]))
    info["random_cases"] = nhist + ndesc
    info["random_kinds"] = stats


def _vclass(op, a, v):
    if op == "sb":
        return v != 0
    lo, hi = {4: (0, 3), 8: (-1, 15), 10: (0, 3), 1: (-1, 255), 2: (-1, 255)}.get(a, (0, 0))
    if v < lo:
        return ("lt", max(v - lo, -3) if v - lo >= -2 else -9)
    if v > hi:
        return ("gt", min(v - hi, 3) if v - hi <= 2 else 9)
    return ("in", v if hi - lo < 20 else (v == lo, v == hi))


def _shape(h):
    if h == "-":
        return ""
    s = bytes.fromhex(h).decode("latin1")
    out = []
    for c in s:
        k = "9" if c.isdigit() else "a" if c.isalpha() else c
        if not out or out[-1] != k or k not in "9a":
            out.append(k)
    return "".join(out)[:12]


def classify(case, obs):
    toks = case.split()
    if not toks:
        return None
    sig = []
    for t in toks:
        f = t.split(":")
        op = f[0]
        if op in ("sb", "si", "sc"):
            sig.append((op, int(f[2]), _vclass(op, int(f[2]), int(f[3]))))
        elif op == "sd":
            sig.append((op, int(f[2]), _shape(f[3])))
        elif op in ("sr", "ca", "ct"):
            sig.append((op, int(f[2]) if op != "ct" else int(f[3])))
        elif op == "cp":
            sig.append((op, f[1] == f[2], f[3]))
        elif op == "hk":
            sig.append((op,))
        else:
            sig.append((op,))
    if len(sig) > 4:      # long histories: kinds only
        sig = [s[:2] for s in sig]
    return tuple(sig)


def shrink(case):
    toks = case.split()
    for i in range(len(toks)):
        if len(toks) > 1:
            yield " ".join(toks[:i] + toks[i + 1:])
    for i, t in enumerate(toks):
        f = t.split(":")
        if f[0] == "sd" and f[3] != "-" and len(f[3]) >= 2:
            for cut in (f[3][:-2] or "-", f[3][2:] or "-"):
                yield " ".join(toks[:i] + [":".join(f[:3] + [cut])] + toks[i + 1:])
        if f[0] in ("si", "sc") and int(f[3]) not in (0, 1):
            yield " ".join(toks[:i] + [":".join(f[:3] + [str(int(f[3]) // 2)])] + toks[i + 1:])
