"""C02 -- a window's drawing is confined to the cells it owns, in its own coordinates
(src/window.c _do_expose / flush on src/renderbuffer.c clip, translate, mask)."""
import random
from props import wingen

ID = "C02"
ML = "mC02"
HARNESS = "harness/C02.c"
SRCS = None
EXCLUDE = ("window.c",)
LEVEL = "proof"
DRIVER_PARTS = ["drv_win.ml", "drv_C02.ml"]
CASE_TIMEOUT = 0.2
RULE = ("case = terminal x scroll policy + per-window HOSTILE drawing programs (text, erase, char, hline, vline, eraserect, "
        "skip, clear at coordinates from 3 cells outside the window to 3 beyond it, mixed with honest repaint) + a history of "
        "window operations (geometry changes with and without exposes) with flushes at arbitrary points.  Compared after "
        "every flush: grid before and after, tree, rectangles handed to each handler.  Oracle: changed cells vs owner. "
        "distinct = (terminal+policy, set of op kinds, set of drawing-op kinds).")
ASSUMPTIONS = ["handlers only draw (text, erase, characters, lines, skip, clear); they do not call save/restore/clip/translate/mask "
               "or window operations",
               "content is single-width ASCII plus single-style line glyphs",
               "the root window is never hidden or closed", "no int overflow"]
TRUSTED = ["model coq/WinDefs.v (abstract per-cell render buffer with clip/translate/mask stack), spec coq/WinSpec.v (owner)"]

PROFILE = {"new": 12, "close": 3, "show": 4, "hide": 5, "restack": 8, "geom": 8, "expose": 10, "flush": 12,
           "scroll": 3, "scrollrect": 1, "tresize": 3, "focus": 1, "cursor": 1, "dead": 1, "_noexpose": 0.4}


PROFILE_SCATTER = {"new": 14, "show": 2, "hide": 3, "geom": 4, "expose": 4, "flush": 6, "_noexpose": 0.3}
PROFILE_LINES = {"new": 14, "show": 2, "hide": 3, "restack": 5, "geom": 4, "expose": 6, "flush": 8, "_noexpose": 0.3}


def rnd_prog(rnd, h, w):
    n = rnd.randint(1, 6)
    out = []
    y = lambda: rnd.randint(-3, h + 2)
    x = lambda: rnd.randint(-3, w + 2)
    for _ in range(n):
        k = rnd.choice("ptttteecchvrsk")
        if k in "pk":
            out.append(k)
        elif k == "c":
            out.append("c %d %d" % (y(), x()))
        elif k == "r":
            out.append("r %d %d %d %d" % (y(), x(), rnd.randint(1, h + 3), rnd.randint(1, w + 3)))
        elif k in "tes":
            out.append("%s %d %d %d" % (k, y(), x(), rnd.randint(1, w + 5)))
        elif k == "h":
            out.append("h %d %d %d" % (y(), x(), x()))
        else:
            out.append("v %d %d %d" % (y(), y(), x()))
    return n, " ".join(out)


def gen(tier, seed, info):
    rnd = random.Random(seed * 7919 + 202)
    nrand = 12000 if tier == "quick" else 400000
    kinds = {}
    for _ in range(nrand):
        nl, nc = rnd.randint(2, 6), rnd.randint(3, 9)
        ops, sh = wingen.history(rnd, nl, nc, rnd.randint(4, 30), PROFILE)
        prs = []
        for w in range(0, sh.next_id):
            if rnd.random() < 0.7:
                n, p = rnd_prog(rnd, nl, nc)
                prs.append("PR %d %d %s" % (w, n, p))
        # handlers that bracket their drawing in savepen / save ... restore (all of it, or every call)
        if rnd.random() < 0.35:
            for w in range(0, sh.next_id):
                if rnd.random() < 0.6:
                    prs.append("BR %d %d" % (w, rnd.choice([1, 1, 2, 3, 4, 4, 5, 7])))
        case = wingen.header(rnd, nl, nc) + " " + " ".join(prs + ops) + " F"
        for k in wingen.op_kinds(case):
            kinds[k] = kinds.get(k, 0) + 1
        yield case
    info["random_cases"] = nrand
    info["random_op_kind_counts"] = kinds
    info["exhaustive"] = False
    # line grids: every window draws long horizontal and vertical lines (same pen everywhere), so that the lines of a
    # lower layer pass through cells where a covering window drew a segment of its own
    nline = 3000 if tier == "quick" else 100000
    for _ in range(nline):
        nl, nc = rnd.randint(3, 6), rnd.randint(4, 9)
        ops, sh = wingen.history(rnd, nl, nc, rnd.randint(3, 14), PROFILE_LINES)
        prs = []
        for w in range(0, sh.next_id):
            d = []
            for _k in range(rnd.randint(1, 4)):
                if rnd.random() < 0.5:
                    d.append("h %d %d %d" % (rnd.randint(-1, nl), rnd.randint(-3, 1), rnd.randint(1, nc + 2)))
                else:
                    d.append("v %d %d %d" % (rnd.randint(-3, 1), rnd.randint(1, nl + 2), rnd.randint(-1, nc)))
            if rnd.random() < 0.3:
                d.insert(0, "p")
            prs.append("PR %d %d %s" % (w, len(d), " ".join(d)))
        yield wingen.header(rnd, nl, nc) + " " + " ".join(prs + ops) + " F EA 0 F"
    # handlers that flush the root from inside the outer flush (after damaging something), and windows that
    # move themselves from inside their own expose handler (and expose the old and new area)
    nre = 2500 if tier == "quick" else 80000
    for k in range(nre):
        nl, nc = rnd.randint(3, 6), rnd.randint(4, 9)
        ops, sh = wingen.history(rnd, nl, nc, rnd.randint(3, 14), PROFILE)
        prs, ras = [], []
        ids = list(range(0, sh.next_id))
        for w in ids:
            if rnd.random() < 0.5:
                n, p = rnd_prog(rnd, nl, nc)
                prs.append("PR %d %d %s" % (w, n, p))
        if k % 4 == 2:
            # handlers that hide / show other windows (lower siblings among them) and expose
            for w in ids:
                if rnd.random() < 0.5:
                    acts = []
                    for _k in range(rnd.randint(1, 2)):
                        tgt = rnd.choice(ids)
                        a = rnd.choice(["hi", "hi", "sh", "ea"])
                        if tgt == 0:
                            a = "ea"
                        acts.append("%s %d" % (a, tgt))
                    ras.append("RA %d %d %s" % (w, len(acts), " ".join(acts)))
        elif k % 4 == 3:
            # handlers that only expose (other damage is added while the flush works through its own)
            for w in ids:
                if rnd.random() < 0.6:
                    acts = []
                    for _k in range(rnd.randint(1, 3)):
                        tgt = rnd.choice(ids)
                        if rnd.random() < 0.3:
                            acts.append("ea %d" % tgt)
                        else:
                            acts.append("ex %d %d %d %d %d" % (tgt, rnd.randint(-1, nl), rnd.randint(-1, nc), rnd.randint(1, nl), rnd.randint(1, nc)))
                    ras.append("RA %d %d %s" % (w, len(acts), " ".join(acts)))
        elif k % 2 == 0:
            for w in ids:
                if rnd.random() < 0.45:
                    acts = []
                    for _k in range(rnd.randint(1, 2)):
                        tgt = rnd.choice(ids)
                        if rnd.random() < 0.5:
                            acts.append("ea %d" % tgt)
                        else:
                            acts.append("ex %d %d %d %d %d" % (tgt, rnd.randint(-1, nl), rnd.randint(-1, nc), rnd.randint(1, nl), rnd.randint(1, nc)))
                    acts.append("fl 0")
                    ras.append("RA %d %d %s" % (w, len(acts), " ".join(acts)))
        else:
            movers = [w for w in ids if w != 0]
            if movers:
                w = rnd.choice(movers)
                ras.append("RA %d 1 rg %d %d %d %d %d" % (w, w, rnd.randint(-1, nl - 1), rnd.randint(-2, nc - 1), rnd.randint(1, nl), rnd.randint(1, nc)))
        yield wingen.header(rnd, nl, nc) + " " + " ".join(prs + ras + ops) + " F EA 0 F"
    info["nested_flush_and_selfmove_cases"] = nre
    info["line_grid_cases"] = nline
    # scattered damage: more than six small disjoint exposes (no two touching) before one flush, hostile programs, and no
    # restack anywhere, so that the oracle can demand that every rectangle handed to the root was damage
    nsc = 1500 if tier == "quick" else 50000
    for _ in range(nsc):
        nl, nc = rnd.randint(5, 7), rnd.randint(7, 10)
        ops, sh = wingen.history(rnd, nl, nc, rnd.randint(2, 8), PROFILE_SCATTER)
        prs = []
        for w in range(0, sh.next_id):
            if rnd.random() < 0.7:
                n, pgm = rnd_prog(rnd, nl, nc)
                prs.append("PR %d %d %s" % (w, n, pgm))
        cells = [(y, x) for y in range(0, nl, 2) for x in range(0, nc, 2)]
        rnd.shuffle(cells)
        sc = ["E 0 %d %d 1 1" % c for c in cells[:rnd.randint(7, min(len(cells), 14))]]
        yield wingen.header(rnd, nl, nc) + " " + " ".join(prs + ops) + " F " + " ".join(sc) + " F"
    info["scattered_damage_cases"] = nsc


def dop_kinds(case):
    _, items = wingen.split_case(case)
    ks = set()
    for it in items:
        if it[0] == "PR":
            j = 3
            while j < len(it):
                ks.add(it[j]); j += 1 + wingen.DOP_ARITY[it[j]]
    return tuple(sorted(ks))


def classify(case, obs):
    if " N " not in case:
        return None
    t = case.split()
    return (t[1] + t[4][0], wingen.op_kinds(case), dop_kinds(case))


shrink = wingen.shrink
