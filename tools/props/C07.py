"""C07 -- UTF-8 counting (src/utf8.c, src/unicode.h, src/fullwidth.inc)."""
import itertools
import random

ID = "C07"
ML = "mC07"
HARNESS = "harness/C07.c"
SRCS = []                 # utf8.c is #included by the harness (static tables / wcwidth); nothing else is needed
EXCLUDE = ["utf8.c"]
LEVEL = "proof"
CASE_TIMEOUT = 0.2
RULE = ("case kinds: T = compiled width tables vs the translated ones; W cp = tickit_utf8_wcwidth, judged against the widths "
        "the library documents; P lo hi = every code point of the range "
        "encoded with tickit_utf8_put and counted length-bounded and NUL-terminated (run-length encoded; all of "
        "0..0x1FFFFF is covered in both tiers, i.e. encoder, decoder and width function are compared with the model on "
        "their whole domain); C = one tickit_utf8_ncountmore call (string, terminated or bounded, initial position, "
        "limit or NULL); R = count(L1), countmore(L2) from there, count(L2); M/B/K = mbswidth/byte2col/col2byte; "
        "U/S = put/seqlen incl. short buffers, NULL and 5/6-byte values.  Every string ends at a PROT_NONE guard page. "
        "Exhaustive part: all byte strings of length <= 2 and all of length 3 over a 24-byte boundary alphabet, both "
        "terminated and bounded.  A case is non-trivial unless it is an empty string; distinct = distinct (kind, "
        "lead-byte-class pattern of the first 6 bytes, mode, set of limited fields, outcome class).")
ASSUMPTIONS = ["bytes are unsigned char values 0..255; no int overflow (counters and limits below 2^30)",
               "0 <= pos->bytes <= len on entry, limits are -1 or non-negative (as the man page requires)",
               "errors are judged on the decoded values the C computes: a non-continuation byte in continuation "
               "position is not an error (t/01utf8.c pins this), as DESIGN section 6/C07 states"]
TRUSTED = ["model coq/Utf8Defs.v hand-written after src/utf8.c and src/unicode.h; specification coq/Utf8Spec.v "
           "(decode / units / longest fitting prefix); tools/tables/width.py (regular-expression extraction of the two "
           "interval tables, cross-checked against the compiled tables by case T)"]

ALPHABET3 = [0x00, 0x01, 0x1f, 0x20, 0x41, 0x7e, 0x7f, 0x80, 0x85, 0x9f, 0xa0, 0xbf,
             0xc0, 0xc1, 0xc2, 0xcc, 0xdf, 0xe0, 0xef, 0xf0, 0xf4, 0xf7, 0xf8, 0xff]

# atoms of the structured strings: (name, bytes, width per code point)
ATOMS = [
    ("A", [0x41], [1]),
    ("sp", [0x20], [1]),
    ("tilde", [0x7e], [1]),
    ("e-acute", [0xc3, 0xa9], [1]),
    ("nbsp", [0xc2, 0xa0], [1]),
    ("shy", [0xc2, 0xad], [1]),                      # soft hyphen: width 1 although Cf
    ("acute", [0xcc, 0x81], [0]),                    # U+0301
    ("e+acute", [0x65, 0xcc, 0x81], [1, 0]),
    ("ff21", [0xef, 0xbc, 0xa1], [2]),               # fullwidth A
    ("cjk", [0xe5, 0xbd, 0xa1], [2]),
    ("jamo-init", [0xe1, 0x84, 0x80], [2]),          # U+1100
    ("jamo-med", [0xe1, 0x85, 0xa1], [0]),           # U+1161
    ("zwsp", [0xe2, 0x80, 0x8b], [0]),               # U+200B
    ("house", [0xf0, 0x9f, 0x8f, 0xa0], [2]),        # U+1F3E0
    ("vs17", [0xf3, 0xa0, 0x84, 0x80], [0]),         # U+E0100
    ("max", [0xf4, 0x8f, 0xbf, 0xbf], [1]),          # U+10FFFF
    ("beyond", [0xf7, 0xbf, 0xbf, 0xbf], [1]),       # 0x1FFFFF
    ("overlong-A", [0xc1, 0x81], [1]),               # decodes to 0x41
    ("noncont", [0xe0, 0xb2, 0x41], [1]),            # continuation position holds 'A' (pinned by t/01)
    ("2ffff", [0xf0, 0xaf, 0xbf, 0xbf], [1]),        # U+2FFFF: just outside 0x20000..0x2FFFD
    ("303f", [0xe3, 0x80, 0xbf], [1]),               # U+303F hole in the CJK range
]
BAD_BITS = [[0x0a], [0x1b], [0x7f], [0x80], [0xbf], [0xc2, 0x85], [0xc2, 0x9f], [0xf8, 0x80, 0x80, 0x80, 0x80],
            [0xff], [0xc1, 0xbf], [0xc0, 0x8a], [0xe0, 0x80, 0x9b], [0xcc], [0xe5, 0xbd], [0xf0, 0x9f, 0x8f], [0xf0]]


def hx(bs):
    return "".join("%02x" % b for b in bs) if bs else "-"


def lim_s(l):
    return "n" if l is None else ",".join(str(x) for x in l)


def cum_counters(atoms):
    """cumulative (bytes, cps, graphemes, cols) after each code point of a well-formed atom list"""
    out = [(0, 0, 0, 0)]
    for (_, bs, ws) in atoms:
        # per code point byte lengths: derive from lead bytes
        i = 0
        for w in ws:
            b0 = bs[i]
            n = 1 if b0 < 0x80 else 2 if b0 < 0xe0 else 3 if b0 < 0xf0 else 4
            i += n
            pb, pc, pg, pw = out[-1]
            out.append((pb + n, pc + 1, pg + (1 if w > 0 else 0), pw + w))
    return out


def limits_around(cum, rnd, subset, k=None):
    """a limit with the fields of `subset` (bitmask b=1,c=2,g=4,w=8) set to the counters at code
    point index k, each shifted by -1/0/+1"""
    if k is None:
        k = rnd.randrange(len(cum))
    base = cum[k]
    l = []
    for f in range(4):
        if subset & (1 << f):
            l.append(max(0, base[f] + rnd.choice((-1, 0, 0, 1))))
        else:
            l.append(-1)
    return tuple(l)


def gen(tier, seed, info):
    """The sweep cases (P) are expensive; the core splits the case list into contiguous chunks, one
    per core, so they are spread evenly through the list instead of being emitted together."""
    cases = list(gen_all(tier, seed, info))
    sweeps = [c for c in cases if c.startswith("P ")]
    others = [c for c in cases if not c.startswith("P ")]
    out = []
    every = max(1, len(others) // max(1, len(sweeps)))
    si = 0
    for i, c in enumerate(others):
        if i % every == 0 and si < len(sweeps):
            out.append(sweeps[si]); si += 1
        out.append(c)
    out.extend(sweeps[si:])
    return out


def gen_all(tier, seed, info):
    rnd = random.Random(seed * 7919 + 7)
    counts = {}

    def emit(kind, line):
        counts[kind] = counts.get(kind, 0) + 1
        return line

    quick = tier == "quick"
    # 0. tables, seqlen / put edge values
    yield emit("tables", "T")
    for cp in (0, 1, 0x41, 0x7f, 0x80, 0x7ff, 0x800, 0xffff, 0x10000, 0x10ffff, 0x1fffff, 0x200000,
               0x3ffffff, 0x4000000, 0x7fffffff):
        yield emit("seqlen", "S %d" % cp)
        for ln in range(0, 8):
            yield emit("put", "U %d %d 0" % (cp, ln))
        yield emit("put", "U %d 0 1" % cp)
        yield emit("put", "U %d 6 1" % cp)

    # widths the library documents (expected values: Utf8Spec.documented_widths) and neighbours
    anchors = [0x20, 0x41, 0x7e, 0xa0, 0xad, 0xe9, 0xff, 0x300, 0x301, 0x36f, 0x200b, 0x1160, 0x1161, 0x11a8,
               0x11ff, 0x1100, 0x115f, 0x2501, 0x253b, 0x30ce, 0x5f61, 0x7ca0, 0xac00, 0xff01, 0xff21, 0xff60, 0x1f3e0]
    for cp in sorted(set(anchors + list(range(0x1160, 0x1200)) + [0, 0x1f, 0x7f, 0x80, 0x9f, 0x2ff, 0x370, 0x303f,
                                                               0x2fffd, 0x2fffe, 0x3fffd, 0x3fffe, 0x10ffff, 0x1fffff])):
        yield emit("width", "W %d" % cp)

    # 1. every code point below 0x200000 (encoder + decoder + width, whole domain)
    step = 4096
    for lo in range(0, 0x200000, step):
        yield emit("sweep", "P %d %d" % (lo, lo + step))
    info["exhaustive"] = True
    info["exhaustive_scope"] = ("every code point 0..0x1FFFFF through put + ncount + count; every byte string of "
                                "length <= 2 (terminated: no NUL inside; bounded: any byte) and every string of length 3 "
                                "over the 24-byte alphabet %s, unlimited and with each single limit = 1"
                                % " ".join("%02x" % b for b in ALPHABET3))

    # 2. all short byte strings
    some_limits = [None, (1, -1, -1, -1), (-1, 1, -1, -1), (-1, -1, 1, -1), (-1, -1, -1, 1)]
    for n in (0, 1, 2):
        for bs in itertools.product(range(256), repeat=n):
            for mode in ("Z", "N"):
                if mode == "Z" and 0 in bs:
                    continue
                ln = -1 if mode == "Z" else n
                lims = some_limits if n < 2 else [None]
                for l in lims:
                    yield emit("short", "C %s %d 0 0 0 0 %s" % (hx(bs), ln, lim_s(l)))
    for bs in itertools.product(ALPHABET3, repeat=3):
        for mode in ("Z", "N"):
            if mode == "Z" and 0 in bs:
                continue
            yield emit("alpha3", "C %s %d 0 0 0 0 n" % (hx(bs), -1 if mode == "Z" else 3))
            l = some_limits[1 + (bs[0] + bs[1] + bs[2]) % 4]
            yield emit("alpha3", "C %s %d 0 0 0 0 %s" % (hx(bs), -1 if mode == "Z" else 3, lim_s(l)))

    # 3. structured well-formed strings x every subset of the four limits around boundaries
    nstruct = 250 if quick else 6000
    structured = []
    fixed = [["A"], ["acute"], ["acute", "acute", "A"], ["A", "acute", "acute", "A"], ["e+acute", "ff21", "acute"],
             ["jamo-init", "jamo-med", "jamo-med", "A"], ["shy", "zwsp", "house", "vs17"], ["zwsp"],
             ["ff21", "ff21"], ["A", "ff21"], ["max", "beyond", "2ffff", "303f"], ["noncont", "overlong-A", "acute"]]
    byname = {a[0]: a for a in ATOMS}
    for names in fixed:
        structured.append([byname[x] for x in names])
    for _ in range(nstruct):
        k = rnd.choice((1, 2, 2, 3, 3, 4, 5, 6, 8))
        # bias towards zero-width atoms so that graphemes of several code points are common
        pool = ATOMS + [byname["acute"], byname["jamo-med"], byname["zwsp"]] * 2
        structured.append([rnd.choice(pool) for _ in range(k)])
    info["structured_strings"] = len(structured)
    for atoms in structured:
        bs = [b for a in atoms for b in a[1]]
        cum = cum_counters(atoms)
        for mode in ("Z", "N"):
            ln = -1 if mode == "Z" else len(bs)
            yield emit("struct", "C %s %d 0 0 0 0 n" % (hx(bs), ln))
        for subset in range(1, 16):
            for rep in range(2 if quick else 4):
                l = limits_around(cum, rnd, subset)
                ln = -1 if rnd.random() < 0.5 else len(bs)
                yield emit("struct-limit", "C %s %d 0 0 0 0 %s" % (hx(bs), ln, lim_s(l)))
        # single limits at EVERY value up to the total + 1
        tot = cum[-1]
        for f in range(4):
            for v in range(0, tot[f] + 2):
                l = [-1] * 4
                l[f] = v
                yield emit("struct-single", "C %s -1 0 0 0 0 %s" % (hx(bs), lim_s(l)))
        # countmore from every code point boundary (even inside a grapheme) with offset counters
        for k in range(len(cum)):
            pb, pc, pg, pw = cum[k]
            off = rnd.choice((0, 0, 3))
            l = limits_around(cum, rnd, rnd.randrange(16)) if rnd.random() < 0.7 else None
            if l is not None:
                l = (l[0],) + tuple(x if x == -1 else x + off for x in l[1:])
            ln = -1 if rnd.random() < 0.5 else len(bs)
            yield emit("struct-from", "C %s %d %d %d %d %d %s" % (hx(bs), ln, pb, pc + off, pg + off, pw + off, lim_s(l)))
        # wrappers
        yield emit("wrap", "M %s" % hx(bs))
        for v in range(0, len(bs) + 2):
            yield emit("wrap", "B %s %d" % (hx(bs), v))
        for v in range(0, tot[3] + 2):
            yield emit("wrap", "K %s %d" % (hx(bs), v))

    # 4. malformed stream: truncation at every position, bad pieces spliced in
    nmal = 150 if quick else 4000
    malformed = []
    for atoms in structured[:nmal]:
        bs = [b for a in atoms for b in a[1]]
        cum = cum_counters(atoms)
        # truncations: bounded (len = cut) and terminated (NUL at cut)
        for cut in range(len(bs) + 1):
            for l in (None, limits_around(cum, rnd, rnd.randrange(1, 16))):
                yield emit("mal-trunc", "C %s %d 0 0 0 0 %s" % (hx(bs[:cut]), cut, lim_s(l)))
                yield emit("mal-trunc", "C %s -1 0 0 0 0 %s" % (hx(bs[:cut]), lim_s(l)))
            # bounded with the NUL inside the length
            yield emit("mal-nul", "C %s %d 0 0 0 0 n" % (hx(bs[:cut] + [0] + bs[cut:]), len(bs) + 1))
        # splice a bad piece at a random atom boundary
        for bad in rnd.sample(BAD_BITS, 4):
            k = rnd.randrange(len(atoms) + 1)
            pre = [b for a in atoms[:k] for b in a[1]]
            post = [b for a in atoms[k:] for b in a[1]]
            m = pre + bad + post
            if 0 in m:
                continue
            malformed.append(m)
            cumk = cum_counters(atoms[:k])
            for l in (None, limits_around(cumk, rnd, rnd.randrange(1, 16), k=len(cumk) - 1),
                      limits_around(cumk, rnd, rnd.randrange(1, 16))):
                ln = -1 if rnd.random() < 0.5 else len(m)
                yield emit("mal-splice", "C %s %d 0 0 0 0 %s" % (hx(m), ln, lim_s(l)))
            yield emit("wrap", "M %s" % hx(m))
    # random bytes biased to lead / continuation classes
    nrand = 4000 if quick else 300000
    for _ in range(nrand):
        n = rnd.randrange(1, 9)
        bs = [rnd.choice(ALPHABET3[1:]) if rnd.random() < 0.5 else rnd.randrange(1, 256) for _ in range(n)]
        l = None if rnd.random() < 0.4 else tuple(rnd.choice((-1, -1, 0, 1, 2, 3, 5)) for _ in range(4))
        ln = -1 if rnd.random() < 0.5 else n
        yield emit("mal-random", "C %s %d 0 0 0 0 %s" % (hx(bs), ln, lim_s(l)))

    # 5. resumption: every split point
    nres = 120 if quick else 3000
    for atoms in structured[:nres]:
        bs = [b for a in atoms for b in a[1]]
        cum = cum_counters(atoms)
        tot = cum[-1]
        for f in range(4):
            for v in range(0, tot[f] + 2):
                l1 = [-1] * 4
                l1[f] = v
                for l2 in (None, limits_around(cum, rnd, rnd.randrange(1, 16))):
                    if l2 is not None:
                        # make L1 <= L2 in the limited field most of the time
                        l2 = list(l2)
                        if l2[f] != -1 and l2[f] < v and rnd.random() < 0.8:
                            l2[f] = v + rnd.choice((0, 1, 2))
                    ln = -1 if rnd.random() < 0.5 else len(bs)
                    yield emit("resume", "R %s %d %s %s" % (hx(bs), ln, lim_s(l1), lim_s(l2)))
        for rep in range(6):
            l1 = limits_around(cum, rnd, rnd.randrange(1, 16))
            l2 = tuple(x if x == -1 or rnd.random() < 0.3 else x + rnd.choice((0, 1, 2, 5)) for x in l1)
            if rnd.random() < 0.3:
                l2 = tuple(-1 if rnd.random() < 0.5 else x for x in l2)
            yield emit("resume", "R %s -1 %s %s" % (hx(bs), lim_s(l1), lim_s(l2)))
    for m in malformed[:nres * 2]:
        for v in range(0, len(m) + 1):
            yield emit("resume-mal", "R %s %d %s %s" % (hx(m), -1 if v % 2 else len(m), lim_s((v, -1, -1, -1)),
                                                         lim_s(rnd.choice((None, (v + 2, -1, -1, -1), (-1, -1, -1, v + 1))))))
    info["cases_by_kind"] = counts
    info["distribution"] = ("structured strings: 1-8 atoms drawn from %d atoms (ASCII, U+00E9, NBSP, soft hyphen, U+0301, "
                            "fullwidth A, CJK, Hangul initial + medial, ZWSP, 4-byte emoji, U+E0100, U+10FFFF, 0x1FFFFF, "
                            "over-long form, non-continuation byte in continuation position, U+2FFFF, U+303F), zero-width atoms "
                            "weighted x3; limits: every subset of the 4 fields with values = counters at a random code point "
                            "boundary -1/0/+1, plus every single-field value 0..total+1; malformed: truncation at every byte "
                            "(bounded and NUL), NUL inside the bound, %d bad pieces (controls, DEL, C1, bad leads, over-long "
                            "controls, truncated sequences) spliced at atom boundaries, random class-biased bytes; resumption: "
                            "every single-field limit value as split point x (no limit | random larger limit), random limit pairs"
                            % (len(ATOMS), len(BAD_BITS)))


def byte_class(b):
    if b == 0: return "0"
    if b < 0x20 or b == 0x7f: return "c"
    if b < 0x80: return "a"
    if b < 0xc0: return "t"
    if b < 0xe0: return "2"
    if b < 0xf0: return "3"
    if b < 0xf8: return "4"
    return "x"


def classify(case, obs):
    t = case.split()
    if t[0] in ("T", "S", "U", "W"):
        return (t[0],) + tuple(t[1:])
    if t[0] == "P":
        return ("P", t[1])
    if t[1] == "-":
        return None
    bs = bytes.fromhex(t[1])
    pat = "".join(byte_class(b) for b in bs[:6])
    if t[0] == "C":
        lim = t[7]
        mask = 0 if lim == "n" else sum(1 << i for i, x in enumerate(lim.split(",")) if x != "-1")
        o = obs.split()
        if o and o[0] == "-1":
            out = "err"
        elif len(o) == 5 and o[0].lstrip("-").isdigit():
            out = "end" if int(o[1]) >= len(bs) else "stop"
        else:
            out = obs[:12]
        return ("C", pat, t[2] == "-1", mask, t[3] != "0", out)
    if t[0] == "R":
        return ("R", pat, t[2] == "-1", t[3] == "n", t[4] == "n", obs.count("-1 ") > 0)
    return (t[0], pat)


def shrink(case):
    t = case.split()
    if t[0] == "P":
        lo, hi = int(t[1]), int(t[2])
        if hi - lo > 1:
            mid = (lo + hi) // 2
            yield "P %d %d" % (lo, mid)
            yield "P %d %d" % (mid, hi)
        return
    if t[0] in ("C", "R", "M", "B", "K") and t[1] != "-":
        bs = list(bytes.fromhex(t[1]))
        bounded = t[0] in ("C", "R") and t[2] != "-1"
        for i in range(len(bs)):
            nb = bs[:i] + bs[i + 1:]
            u = list(t)
            u[1] = hx(nb)
            if bounded:
                u[2] = str(len(nb))
            if t[0] == "C" and int(t[3]) > len(nb):
                continue
            yield " ".join(u)
        # simplify limits / initial position
        if t[0] == "C":
            if t[7] != "n":
                yield " ".join(t[:7] + ["n"])
                parts = t[7].split(",")
                for i in range(4):
                    if parts[i] != "-1":
                        p = list(parts); p[i] = "-1"
                        yield " ".join(t[:7] + [",".join(p)])
            if t[3:7] != ["0", "0", "0", "0"]:
                yield " ".join(t[:3] + ["0", "0", "0", "0"] + t[7:])
        if t[0] == "R":
            for j in (3, 4):
                if t[j] != "n":
                    parts = t[j].split(",")
                    for i in range(4):
                        if parts[i] != "-1":
                            p = list(parts); p[i] = "-1"
                            u = list(t); u[j] = ",".join(p)
                            yield " ".join(u)
