"""C04 -- flushing a render buffer reproduces its content on the terminal exactly once
(src/renderbuffer.c tickit_renderbuffer_flush_to_term, src/linechars.inc, src/mockterm.c)."""
import hashlib
import itertools
import random
from props import rbgen

ID = "C04"
ML = "mC04"
HARNESS = "harness/C04.c"
SRCS = None
EXCLUDE = ["renderbuffer.c", "mockterm.c"]   # both are #included by the harness
DRIVER_PARTS = ["rb_common.ml", "drv_C04.ml"]
LEVEL = "proof"
CASE_TIMEOUT = 0.3
RULE = ("case = buffer size + drawing program (as for C03) + a flush, either `fl` onto a mock terminal that is at least as "
        "large as the buffer, shows a sentinel pattern (distinct character and pen per cell) and has a given cursor "
        "position and pen, or `flx` through the xterm driver into a byte buffer; then a dump of the buffer.  Observation = "
        "the exact operation log the terminal received (goto / setpen / print / erasech with moveend), the final grid "
        "(text and pen of every cell), resp. the printable payload, and the buffer's state afterwards.  Streams: (1) the "
        "compiled linemask_to_char table itself; (2) exhaustive: all 255 line masks produced on the centre cell of a 3x3 "
        "buffer by four half-segments of every style; (3) exhaustive: all programs of <= 3 ops over a 21-op alphabet on a "
        "2x6 buffer; (4) every text of a width-mix family cut at every column by char / erase / skip / text / clip / mask; "
        "(5) random C03 programs; (6) chars of width 0 and 2; (7) line runs of 86..200 cells (beyond the 256-byte "
        "scratch buffer) and directly adjacent erase spans.  A third of the mock flushes run on a terminal whose erasech(MAYBE) "
        "leaves the cursor in place (flm), the other legal driver behaviour.  Non-trivial = something was sent to the terminal; "
        "distinct = distinct (op kinds, shape of the operation log). Also `tp tl tc gl gc text`: the mock driver's own print of a text at every cursor column of small sentinel terminals (incl. a wide character at the last column, a NUL / control first), observation = cursor and grid.")
ASSUMPTIONS = ["the terminal advances by the library's own width function (stated in the property); modelled after src/mockterm.c",
               "terminal at least as large as the buffer; no int overflow",
               "texts are well-formed UTF-8 over any code points 1..0x1FFFFF (width function = the library's own, property C07); pens with all ten attributes incl. RGB8 secondaries (property C19)",
               "line styles 1..3"]
TRUSTED = ["models coq/RBDefs.v, coq/RBFlushDefs.v hand-written after src/renderbuffer.c and src/mockterm.c; "
           "specification coq/RBFlushSpec.v (cell-wise expectation, exactly-once count) and coq/RBGlyphs.v "
           "(arms of U+2500-257F, hand-written from the Unicode names)",
           "table translator tools/tables/linechars.py (the harness prints the compiled table, so a mis-parse shows as a difference)"]

ALPHABET = [
    "txa 0 0 41.42.43.44", "txa 0 1 ff21.62", "txa 0 2 78.79", "txa 0 0 61.301.ff22.63", "txa 1 1 ff21.ff22",
    "txa 0 3 ff01", "era 0 1 3", "era 0 4 2", "era 0 0 6", "ska 0 2 1", "ska 0 1 2",
    "cha 0 2 63", "cha 0 1 64", "cha 0 5 65", "hl 0 1 3 1 3", "vl 0 1 2 2 3", "hl 0 2 4 3 0",
    "pen f1", "pen b2B1", "mk 0 2 1 1", "cl 0 1 2 4",
]


def fl(rnd, L, C, x=False):
    """a flush op: onto the mock terminal (fl), onto a terminal whose erasech(MAYBE) does not move the
    cursor (flm; both behaviours are legal for a driver), or through the xterm driver (flx)"""
    if x:
        return "flx %d %d" % (L + rnd.choice([0, 0, 1]), C + rnd.choice([0, 0, 2]))
    return "%s %d %d %d %d %s" % (rnd.choice(["fl", "fl", "flm"]), L + rnd.choice([0, 0, 1, 2]), C + rnd.choice([0, 0, 1, 3]),
                                  rnd.randint(-1, L), rnd.randint(-1, C), rbgen.rand_pen(rnd))


def gen(tier, seed, info):
    rnd = random.Random(seed * 1000003 + 4)
    n = 0
    yield "1 1 lct"
    # (2) all 255 masks on the centre cell of a 3x3 buffer
    for (a, b, c, d) in itertools.product(range(4), repeat=4):
        if (a, b, c, d) == (0, 0, 0, 0):
            continue
        ops = []
        if a: ops.append("vl 0 1 1 %d 0" % a)      # north arm of (1,1)
        if b: ops.append("hl 1 1 2 %d 0" % b)      # east arm
        if c: ops.append("vl 1 2 1 %d 0" % c)      # south arm
        if d: ops.append("hl 1 0 1 %d 0" % d)      # west arm
        rnd.shuffle(ops)
        n += 1
        yield rbgen.case_line(3, 3, ops + ["D", fl(rnd, 3, 3), "D"])
    info["mask_cases"] = n
    # (2b) long runs: line / char / erase runs longer than the 256-byte scratch buffer holds, adjacent erases
    nlong = 0
    for C in (86, 90, 130, 172, 200):
        for prog in (["hl 0 0 %d 1 3" % (C - 1)],
                     ["hl 0 1 %d 2 0" % (C - 2), "vl 0 1 %d 1 3" % (C // 2)],
                     ["pen f3", "hl 0 0 %d 3 3" % (C - 1), "cha 0 %d 78" % (C // 3)],
                     ["hl 0 0 %d 1 3" % (C - 1), "pen b2", "hl 1 0 %d 1 3" % (C - 1), "era 1 %d 5" % (C - 20)]):
            nlong += 1
            yield rbgen.case_line(2, C, prog + [fl(rnd, 2, C), "D"])
    for prog in (["era 0 0 3", "pen b1", "era 0 3 2"], ["era 0 0 6", "pen f2", "era 0 2 2"],
                 ["pen b4", "era 0 1 2", "pen b5", "era 0 3 2", "txa 0 5 61"], ["era 0 0 2", "pen u1", "era 0 2 2", "pen -", "era 0 4 2"]):
        for kind in ("fl", "flm"):
            nlong += 1
            yield rbgen.case_line(1, 6, prog + ["%s 1 6 0 0 -" % kind, "D"])
    info["long_run_and_adjacent_erase_cases"] = nlong
    # (3) small programs
    m = 0
    for k in (1, 2, 3):
        for prog in itertools.product(ALPHABET, repeat=k):
            m += 1
            yield rbgen.case_line(2, 6, list(prog) + [fl(rnd, 2, 6, x=(m % 5 == 0)), "D"])
    info["exhaustive"] = True
    info["exhaustive_scope"] = ("all 255 line masks on a 3x3 buffer; all programs of 1..3 ops over a %d-op alphabet on a 2x6 buffer, "
                                "each flushed" % len(ALPHABET))
    info["exhaustive_cases"] = n + m
    # (3b) every boundary of the library's width tables, flushed whole and cut inside / next to it
    nwb = 0
    for w in (0, 1, 2):
        for i, c in enumerate(rbgen.EXOTIC[w]):
            nwb += 1
            kind = ["fl 1 8 0 0 -", "flm 1 8 0 3 f2", "flx 1 8"][i % 3]
            yield rbgen.case_line(1, 8, ["txa 0 0 41.%x.42.%x.43" % (c, c), "cha 0 %d 78" % (1 + i % 3), kind, "D"])
    info["width_table_boundary_cases"] = nwb
    # (4) width mixes cut at every column
    texts = [[0xff21, 0x62, 0x63, 0x64], [0x61, 0xff21, 0x62], [0x61, 0x301, 0xff22, 0x300, 0x63], [0xff21, 0xff22, 0xff01],
             [0x61, 0x62, 0xff21], [0x301, 0x61, 0xff21, 0x301], [0xe9, 0xff21, 0xe9], [0x41, 0x42, 0x43], [0xff21]]
    ncut = 0
    reps = 1 if tier == "quick" else 6
    for _ in range(reps):
        for t in texts + [rbgen.rand_text(rnd, rnd.randint(2, 9)) for _ in range(20)]:
            w = sum(max(0, rbgen.cpw(c)) for c in t)
            c0 = rnd.randint(0, 2)
            C = c0 + w + rnd.randint(0, 2)
            for k in range(c0 - 1, c0 + w + 1):
                for cut in ("cha 0 %d 78" % k, "era 0 %d 1" % k, "era 0 %d 2" % k, "ska 0 %d 1" % k, "txa 0 %d 79.7a" % k,
                            "txa 0 %d ff22" % k, "hl 0 %d %d 1 3" % (k, k + 1)):
                    pre = []
                    r = rnd.random()
                    if r < 0.15:
                        pre = ["cl 0 %d 1 %d" % (k, max(1, c0 + w - k - rnd.randint(0, 1)))]
                    elif r < 0.3:
                        pre = ["mk 0 %d 1 1" % rnd.randint(c0, c0 + w)]
                    elif r < 0.4:
                        pre = ["pen %s" % rbgen.rand_pen(rnd)]
                    ncut += 1
                    yield rbgen.case_line(1, C, pre + ["txa 0 %d %s" % (c0, rbgen.text_tok(t)), cut,
                                                       fl(rnd, 1, C, x=(ncut % 4 == 0)), "D"])
    info["cut_cases"] = ncut
    # (5) random programs, (6) odd-width chars
    nrand = 4000 if tier == "quick" else 200000
    kinds = {}
    for i in range(nrand):
        r = rnd.random()
        if r < 0.4:
            L, C = rnd.randint(1, 2), rnd.randint(3, 8)
        else:
            L, C = rnd.randint(1, 4), rnd.randint(4, 14)
        nops = rnd.randint(3, 30)

        def extra(rnd, sh):
            if rnd.random() < 0.04:
                cp = rnd.choice(rbgen.WIDE + rbgen.COMB)
                if rnd.random() < 0.5:
                    return "cha %d %d %x" % (rnd.randint(0, sh.lines - 1) - sh.xl, rnd.randint(-1, sh.cols) - sh.xc, cp)
                return "ch %x" % cp
            return None
        ops, k = rbgen.gen_program(rnd, L, C, nops, dump_prob=0.0, extra=extra,
                                   style="text-heavy" if rnd.random() < 0.5 else "mixed")
        for kk, v in k.items():
            kinds[kk] = kinds.get(kk, 0) + v
        tail = [fl(rnd, L, C, x=(i % 6 == 0)), "D"]
        if rnd.random() < 0.2:       # draw again after the flush and flush again
            ops2, _ = rbgen.gen_program(rnd, L, C, rnd.randint(1, 6), dump_prob=0.0)
            tail += ops2 + [fl(rnd, L, C), "D"]
        yield rbgen.case_line(L, C, ops + tail)
    info["random_cases"] = nrand
    info["op_kinds"] = kinds
    # (6) the mock terminal's print on its own (tp): every cursor column incl. the last one and the position
    # behind it, texts of every width class, NUL / control as first code point (the terminal must return)
    ntp = 0
    tp_texts = [[0x41], [0xff21], [0x41, 0x301], [0xff21, 0x42], [0x41, 0xff21], [0x301, 0x41], [0x1f3e0, 0x300, 0x41],
                [0x41, 0x42, 0x43, 0x44], [0], [0, 0x41], [0x01], [0x7f, 0x41], [0x85]]
    for t in tp_texts:
        for tl, tc in ((1, 4), (2, 3), (1, 1)):
            for gc in range(tc):
                for gl in range(tl):
                    ntp += 1
                    yield rbgen.case_line(1, 1, ["tp %d %d %d %d %s" % (tl, tc, gl, gc, rbgen.text_tok(t))])
    for _ in range(300 if tier == "quick" else 20000):
        tl, tc = rnd.randint(1, 3), rnd.randint(1, 8)
        t = rbgen.rand_text(rnd, rnd.randint(1, tc + 3))
        ntp += 1
        yield rbgen.case_line(1, 1, ["tp %d %d %d %d %s" % (tl, tc, rnd.randint(0, tl - 1), rnd.randint(0, tc - 1), rbgen.text_tok(t))])
    info["terminal_print_cases"] = ntp


ARITY = dict(rbgen.ARITY, fl=5, flm=5, flx=2, lct=0, tp=5)


def classify(case, obs):
    t = case.split()
    kws = tuple(sorted(set(x for x in t[2:] if x in ARITY)))
    i = obs.find("F{")
    if i < 0:
        i = obs.find("X{")
        if i < 0:
            return ("table",) if "L{" in obs else None
        body = obs[i + 2:obs.find("}", i)]
        return None if body == "-" else (kws, "x", min(len(body.split(".")), 12))
    log = obs[i + 2:obs.find("}", i)]
    if not log:
        return None
    shape = "".join(e[0] + ("1" if e.endswith(".1") and e[0] == "X" else "") for e in log.split(","))
    return (kws, hashlib.md5(shape.encode()).hexdigest()[:8])


def terminal_fits(case):
    t = case.split()
    L, C = int(t[0]), int(t[1])
    if "tp" in t:
        i = t.index("tp")
        # keep the shape the model covers: valid text, or one that is stuck at its first code point
        cps = [int(h, 16) for h in t[i + 5].split(".")] if t[i + 5] != "-" else []
        if 0 in cps:
            cps = cps[:cps.index(0)]
        ok = all(rbgen.cpw(c) >= 0 for c in cps) or (cps and rbgen.cpw(cps[0]) < 0)
        return ok and int(t[i + 1]) >= 1 and int(t[i + 2]) >= 1 and 0 <= int(t[i + 3]) < int(t[i + 1]) and 0 <= int(t[i + 4]) < int(t[i + 2])
    for i, x in enumerate(t):
        if x in ("fl", "flm", "flx") and (int(t[i + 1]) < L or int(t[i + 2]) < C):
            return False
    return L >= 1 and C >= 1


def shrink(case):
    for c in rbgen.shrink_case(case, ARITY, keep_last=2):
        try:
            if terminal_fits(c):
                yield c
        except (ValueError, IndexError):
            pass
