"""C11 -- output buffering is transparent (src/term.c write_str / flush / set_output_buffer)."""
import itertools
import random

ID = "C11"
ML = "mC11"
HARNESS = "harness/C11.c"
SRCS = None            # the terminal needs the whole library
LEVEL = "proof"
RULE = ("case = (sink, history) with sink in output-function / descriptor (packet-mode pipe, one packet per write(2)) / both / "
        "neither and history over set_output_func (set / remove), set_output_fd (set / remove),  set_output_buffer(n), flush, tickit_termdrv_write_str (explicit length, length 0 = strlen, "
        "length shorter than the string), tickit_termdrv_write_strf, tickit_term_print, set_output_func, set_output_fd; a final "
        "flush is NOT appended: every case ends with the last unref (tickit_term_destroy), which must deliver what is pending; also tickit_term_teardown, set_output_buffer with sizes whose malloc fails (unbuffered), descriptor = fd 0. Observation = the chunks delivered during each operation, each tagged with the sink that received it (bytes, boundaries, sink). Exhaustive part: "
        "buffer sizes 0..6 x up to 4 writes of lengths 0..8 x every flush mask (flush or not after each write), all bytes of a "
        "history distinct; plus sizes 0..6 x 2 writes x 5 call variants each x lengths 0..8 x flush masks. Random part: sizes "
        "around 1..10, 63..65, 4095..4097 and up to 10000, write lengths aimed at space-1/space/space+1, whole multiples of the "
        "size +-1, and the 64-byte stack buffer of write_strf; resizes after a flush (in scope) and with bytes pending (outside "
        "the property: model comparison only). A case is non-trivial when at least one byte is written; distinct = distinct "
        "(sink, per-operation signature: kind, how the write length compares with the free space, number of buffer ends it "
        "straddles capped at 3).")
ASSUMPTIONS = ["the buffer size and the active sink (function if set, else descriptor) change only while nothing is pending (the property fixes the configuration while output is pending)",
               "requests made while neither an output function nor a descriptor is set are outside the claim (term.c drops or keeps the bytes; modelled and compared, not judged)",
               "write(2) on the descriptor is not short and does not fail (term.c ignores its result; not modelled)",
               "malloc of the output buffer does not fail",
               "callers pass a readable string: len bytes, or NUL-terminated when len is 0"]
TRUSTED = ["model coq/OutBufDefs.v hand-written after src/term.c (flush, write_str, write_vstrf, set_output_buffer/func/fd); "
           "vsnprintf formatting itself is not modelled (write_strf is given the formatted bytes)",
           "spec/oracle coq/OutBufSpec.v (stream, check); C11_checker_sound and C11_checker_accepts_model relate it to the theorems",
           "harness/C11.c: custom TickitTermDriver via TickitTermBuilder.driver; descriptor path observed through an O_DIRECT pipe"]
CASE_TIMEOUT = 0.2

WRITE_KINDS = "RWPST"   # R explicit len, W len 0 (strlen), P explicit len shorter than the string, S strf, T print


def gen_hex(n, a):
    return "".join("%02x" % ((a + 7 * i) % 255 + 1) for i in range(n)) or "-"


def write_tok(kind, n, a):
    """one write of n bytes starting at generator offset a, through call variant `kind`"""
    if kind == "R":
        return "R%d:%d" % (n, a)
    if kind == "W":      # NUL-terminated, len 0
        return "W%s:0" % gen_hex(n, a)
    if kind == "P":      # string longer than len (3 more bytes, never delivered); len 0 would mean strlen
        if n == 0:
            return "W-:0"
        return "W%s:%d" % (gen_hex(n + 3, a), n)
    if kind == "S":
        return "Q%d:%d" % (n, a) if n > 40 else "S%s" % gen_hex(n, a)
    if kind == "T":
        return "T%s" % gen_hex(n, a)
    raise ValueError(kind)


def history(cap, lens, mask, kinds=None, sink="f"):
    toks = [sink, "B%d" % cap]
    a = 0
    for i, n in enumerate(lens):
        toks.append(write_tok(kinds[i] if kinds else "R", n, a))
        a += 7 * n
        if mask >> i & 1:
            toks.append("F")
    return " ".join(toks)


def gen(tier, seed, info):
    n = 0
    quick = tier == "quick"
    # exhaustive 1: sizes 0..6 x <=4 writes of length 0..8 x flush masks
    for cap in range(7):
        for k in range(5):
            for lens in itertools.product(range(9), repeat=k):
                for mask in range(1 << k):
                    n += 1
                    yield history(cap, lens, mask)
    # exhaustive 2: call variants
    m = 0
    for cap in range(7):
        for kinds in itertools.product(WRITE_KINDS, repeat=2):
            for lens in itertools.product(range(9), repeat=2):
                for mask in range(4):
                    m += 1
                    yield history(cap, lens, mask, kinds)
    # exhaustive 3: sink configurations: function only, descriptor only, both (builder: descriptor
    # then function), both set afterwards in either order; and changes of the active sink between
    # writes with nothing pending
    q = 0
    setups = [("f", []), ("d", []), ("b", []), ("n", ["D1", "O1"]), ("n", ["O1", "D1"])]
    slens = (0, 1, 2, 3, 4, 5, 7)
    for sink, pre in setups:
        for cap in range(5):
            for lens in itertools.product(slens, repeat=2):
                for mask in range(4):
                    q += 1
                    toks = [sink] + pre + ["B%d" % cap]
                    a = 0
                    for i, ln in enumerate(lens):
                        toks.append(write_tok("R", ln, a)); a += 7 * ln
                        if mask >> i & 1:
                            toks.append("F")
                    yield " ".join(toks)
    changes = [("b", ["O0", "O1"]), ("b", ["D0", "D1"]), ("f", ["D1", "O0"]), ("d", ["O1", "O0"]),
               ("b", ["O0", "D0"]), ("n", ["D1", "O1"]), ("d", ["O1", "D0"]), ("f", ["O0", "O1"])]
    for sink, (c1, c2) in changes:
        for cap in range(5):
            for lens in itertools.product(range(6), repeat=3):
                q += 1
                yield " ".join([sink, "B%d" % cap, write_tok("R", lens[0], 0), "F", c1,
                                write_tok("R", lens[1], 50), "F", c2, write_tok("R", lens[2], 100)])
    # exhaustive 4: rarely used entry points
    #  (a) buffer sizes whose allocation fails (SIZE_MAX, SIZE_MAX-4096, SIZE_MAX/2+2): the terminal
    #      must behave as unbuffered, also after having had a real buffer
    e = 0
    for sink in "fd":
        for big in ("BX0", "BX1", "BX2"):
            for lens in itertools.product(range(5), repeat=2):
                for mask in range(4):
                    for pre in ([], ["B3", "R2:90", "F"]):
                        e += 1
                        toks = [sink] + pre + [big]
                        a = 0
                        for i, ln in enumerate(lens):
                            toks.append(write_tok("RWPST"[(i + ln) % 5], ln, a)); a += 7 * ln
                            if mask >> i & 1:
                                toks.append("F")
                        yield " ".join(toks + ["B2", "R3:200"])
    #  (b) explicit teardown followed by more output and the last unref (every case ends with the
    #      destruction of the terminal and no flush before it)
    for sink in "fdb":
        for cap in range(5):
            for lens in itertools.product(range(4), repeat=3):
                for shape in (("W", "X", "W"), ("W", "X", "W", "X", "W"), ("X", "W", "W"), ("W", "F", "X", "W"),
                              ("W", "X", "O1" if sink != "d" else "D1", "W")):
                    e += 1
                    toks, a, i = [sink, "B%d" % cap], 0, 0
                    for t in shape:
                        if t == "W":
                            toks.append(write_tok("R", lens[i], a)); a += 7 * lens[i] + 1; i += 1
                        else:
                            toks.append(t)
                    yield " ".join(toks)
    #  (c) the descriptor is fd 0 (what TICKIT_OPEN_STDTTY uses): alone, beside a function, set later
    for sink, pre in (("z", []), ("w", []), ("n", ["D2"]), ("w", ["O0"]), ("f", ["D2", "O0"])):
        for cap in range(5):
            for lens in itertools.product(slens, repeat=2):
                for mask in range(4):
                    e += 1
                    toks = [sink] + pre + ["B%d" % cap]
                    a = 0
                    for i, ln in enumerate(lens):
                        toks.append(write_tok("R", ln, a)); a += 7 * ln
                        if mask >> i & 1:
                            toks.append("F")
                    yield " ".join(toks)
    q += e
    info["exhaustive"] = True
    info["entry_point_scope_cases"] = e
    info["sink_scope_cases"] = q - e
    info["exhaustive_scope"] = ("buffer sizes 0..6 x k<=4 writes (explicit length) of lengths 0..8 x all 2^k flush masks (%d cases); "
                                "sizes 0..6 x 2 writes x 5x5 call variants x lengths 0..8 x 4 flush masks (%d cases); "
                                "sink configurations f / d / both (builder) / both set later in either order x sizes 0..4 x 2 writes of "
                                "lengths {0,1,2,3,4,5,7} x flush masks, and 8 sequences of two sink changes (function or descriptor "
                                "removed / added, active sink changing or not) after flushes x sizes 0..4 x 3 writes of 0..5 bytes; "
                                "failed allocations (3 sizes near SIZE_MAX) x f/d x with/without a previous real buffer x 2 writes of 0..4 x flush masks; "
                                "teardown histories (5 shapes of write/teardown/flush/set-sink) x f/d/both x sizes 0..4 x writes of 0..3 bytes, every "
                                "case ending with the destruction of the terminal and no flush before it; descriptor = fd 0 in 5 configurations x "
                                "sizes 0..4 x 2 writes x flush masks (%d cases)"
                                % (n, m, q))
    info["exhaustive_cases"] = n + m + q
    rnd = random.Random(seed * 7919 + 11)
    nrand = 6000 if quick else 150000
    nbig = 150 if quick else 3000
    nfd = 1500 if quick else 60000
    kinds = {"structured": 0, "resize_pending": 0, "big": 0, "descriptor": 0, "no_sink": 0}

    def pick_cap(big):
        r = rnd.random()
        if r < 0.35:
            return rnd.randint(1, 10)
        if r < 0.5:
            return rnd.choice([62, 63, 64, 65, 66])
        if r < 0.6:
            return 0
        if big and r < 0.8:
            return rnd.choice([4095, 4096, 4097, rnd.randint(100, 10000)])
        return rnd.randint(11, 300)

    def pick_len(cap, pend, big, maxlen):
        space = max(cap - pend, 0)
        r = rnd.random()
        if r < 0.3 and cap:
            v = space + rnd.choice([-1, 0, 1])
        elif r < 0.55 and cap:
            v = space + cap * rnd.randint(0, 3 if cap > 50 else 8) + rnd.choice([-1, 0, 1])
        elif r < 0.7:
            v = rnd.choice([0, 1, 2, 62, 63, 64, 65, 66, 127, 128])
        elif big and r < 0.8:
            v = rnd.randint(1000, 20000)
        else:
            v = rnd.randint(0, 40)
        return max(0, min(v, maxlen))

    def random_history(sink, big=False, maxlen=20000, maxchunks=None, allow_pending_resize=False, maxcap=10**9):
        cap = min(pick_cap(big), maxcap)
        toks = [sink, "B%d" % cap]
        pend, a = 0, rnd.randint(0, 254)
        for _ in range(rnd.randint(1, 10)):
            r = rnd.random()
            if r < 0.62:
                ln = pick_len(cap, pend, big, maxlen)
                if maxchunks and cap and ln // cap > maxchunks:
                    ln = cap * maxchunks
                toks.append(write_tok(rnd.choice(WRITE_KINDS), ln, a))
                a += 7 * ln
                pend = (pend + ln) % cap if cap else 0
            elif r < 0.8:
                toks.append("F"); pend = 0
            elif r < 0.9:
                if pend and not allow_pending_resize:
                    toks.append("F")
                cap = min(pick_cap(big), maxcap)
                toks.append("B%d" % cap); pend = 0
            elif r < 0.93:
                toks.append("O" if sink in "fbw" else "D")
            elif r < 0.96:
                toks.append("X"); pend = 0
            elif r < 0.975:
                if pend and not allow_pending_resize:
                    toks.append("F")
                toks.append(rnd.choice(["BX0", "BX1", "BX2"])); cap = 0; pend = 0
            else:
                toks.append("F"); toks.append("F"); pend = 0
        return " ".join(toks)

    for _ in range(nrand):
        if rnd.random() < 0.12:
            kinds["resize_pending"] += 1
            yield random_history(rnd.choice("ffb"), allow_pending_resize=True)
        else:
            kinds["structured"] += 1
            yield random_history(rnd.choice("fffb"))
    for _ in range(nbig):
        kinds["big"] += 1
        yield random_history("f", big=True)
    # descriptor path: every chunk is one packet of the pipe; keep packets <= 4096 bytes and
    # at most ~200 per operation (the pipe holds 256)
    for cap in range(7):
        for lens in itertools.product((0, 1, 2, 3, 5, 6, 7, 8), repeat=2):
            for mask in range(4):
                kinds["descriptor"] += 1
                yield history(cap, lens, mask, sink="d")
    for _ in range(nfd):
        kinds["descriptor"] += 1
        yield random_history(rnd.choice("dddzw"), big=True, maxlen=4000, maxchunks=150, maxcap=4096)
    # both sinks / sink changes (random): reconfiguration after a flush (in scope) or with bytes
    # pending (outside the property: model comparison only)
    def mixed_history(in_scope):
        sink = rnd.choice("bbbfdnwz")
        func, fd = sink in "fbw", sink in "dbwz"
        cap = min(pick_cap(False), 300)
        toks = [sink, "B%d" % cap]
        pend, a = 0, rnd.randint(0, 254)
        for _ in range(rnd.randint(2, 12)):
            r = rnd.random()
            if r < 0.04:
                toks.append("X"); pend = 0
            elif r < 0.5:
                ln = min(pick_len(cap, pend, False, 600), 600)
                if cap and ln // cap > 150:
                    ln = cap * 150
                toks.append(write_tok(rnd.choice(WRITE_KINDS), ln, a))
                a += 7 * ln
                pend = (pend + ln) % cap if cap else 0
            elif r < 0.65:
                toks.append("F"); pend = 0
            elif r < 0.72:
                if pend and in_scope:
                    toks.append("F")
                cap = min(pick_cap(False), 300)
                toks.append("B%d" % cap); pend = 0
            else:
                t = rnd.choice(["O0", "O1", "D0", "D1", "D2"])
                if in_scope and (pend or not (func or fd)):
                    toks.append("F"); pend = 0
                toks.append(t)
                if t[0] == "O":
                    func = t[1] == "1"
                else:
                    fd = t[1] != "0"
        return " ".join(toks)
    for _ in range(4000 if quick else 150000):
        if rnd.random() < 0.8:
            kinds["sink_mix"] = kinds.get("sink_mix", 0) + 1
            yield mixed_history(True)
        else:
            kinds["sink_change_pending"] = kinds.get("sink_change_pending", 0) + 1
            yield mixed_history(False)
    for _ in range(200 if quick else 2000):
        kinds["no_sink"] += 1
        yield random_history("n") + rnd.choice(["", " O R5:1 F", " D R9:3", " O"])
    info["random_cases"] = sum(kinds.values())
    info["random_kinds"] = kinds


def _oplen(t):
    k = t[0]
    if k in "RQ":
        return int(t[1:].split(":")[0])
    if k == "W":
        h, l = t[1:].split(":")
        l = int(l)
        return l if l else (0 if h == "-" else len(h) // 2)
    if k in "ST":
        return 0 if t[1:] in ("-", "") else len(t[1:]) // 2
    return None


def classify(case, obs):
    toks = case.split()
    sig, cap, pend, wrote = [], 0, 0, False
    for t in toks[1:]:
        k = t[0]
        if k == "B":
            if t[1] == "X":
                cap, pend = 0, 0
                sig.append((t,))
                continue
            c = int(t[1:]); cap, pend = c, 0
            sig.append(("B", 0 if c == 0 else 1 if c == 1 else 2))
        elif k in "FODX":
            sig.append((t, pend > 0)); pend = 0 if k in "FX" else pend
        else:
            ln = _oplen(t)
            wrote = wrote or ln > 0
            if cap:
                space = cap - pend
                sig.append((k, (ln > space) - (ln < space), min((pend + ln) // cap, 3), ln == 0))
                pend = (pend + ln) % cap
            else:
                sig.append((k, ln == 0))
    if not wrote:
        return None
    return (toks[0], tuple(sig))


def shrink(case):
    toks = case.split()
    for i in range(1, len(toks)):
        yield " ".join(toks[:i] + toks[i + 1:])
    for i in range(1, len(toks)):
        t = toks[i]
        if t[0] == "B" and t[1] != "X" and int(t[1:]) > 0:
            for v in (int(t[1:]) - 1, int(t[1:]) // 2):
                yield " ".join(toks[:i] + ["B%d" % v] + toks[i + 1:])
        elif t[0] in "RQ":
            n, a = t[1:].split(":")
            for v in {int(n) - 1, int(n) // 2}:
                if v >= 0:
                    yield " ".join(toks[:i] + ["%s%d:%s" % (t[0], v, a)] + toks[i + 1:])
        elif t[0] in "ST" and len(t) > 3:
            yield " ".join(toks[:i] + [t[:-2]] + toks[i + 1:])
        elif t[0] == "W":
            h, l = t[1:].split(":")
            if h != "-" and len(h) >= 2:
                h2 = h[:-2] or "-"
                l2 = min(int(l), 0 if h2 == "-" else len(h2) // 2)
                yield " ".join(toks[:i] + ["W%s:%d" % (h2, l2)] + toks[i + 1:])
