"""C03 -- render-buffer cells follow last-writer-wins under clip, mask and translation
(src/renderbuffer.c: make_span, put_string, skip, erase, linecell, save/restore ...)."""
import itertools
import random
from props import rbgen

ID = "C03"
ML = "mC03"
HARNESS = "harness/C03.c"
SRCS = None                      # all of src/*.c ...
EXCLUDE = ["renderbuffer.c", "mockterm.c"]   # both are #included by the harness     # ... except renderbuffer.c, which the harness #includes
DRIVER_PARTS = ["rb_common.ml", "drv_C03.ml"]
LEVEL = "proof"
CASE_TIMEOUT = 0.2
RULE = ("case = buffer size + drawing program (text/erase/skip/char/hline/vline/rect/clear ops, cursor-relative variants, "
        "translate/clip/mask/setpen/goto/save/savepen/restore/reset) with dump points; observation = return values of text "
        "ops and, per dump, the auxiliary state incl. the saved-state stack, the RAW span grid (state, cols/startcol, "
        "maskdepth, pen, string, offset, line mask, code point of every cell) and what get_cell_active/_text/_pen/_linemask "
        "report for every cell at neutral translation/clip.  Exhaustive part: every program of <= 3 ops over a 26-op "
        "alphabet on a 2x6 buffer, dumped after the last op.  Random part: 5-60 ops on buffers up to 6x20, coordinates "
        "-3..size+3 drawn mostly from earlier span edges +-1, ASCII/Latin-1/combining/double-width text, nesting <= 4; "
        "plus a malformed stream (control characters in text, restore on an empty stack, non-positive sizes, NULL pen, "
        "far coordinates).  A case is non-trivial when its last dump holds a non-skip cell, a mask or a non-empty stack; "
        "distinct = distinct (set of op kinds, span-structure shape of the last dump).")
ASSUMPTIONS = ["no int overflow (|coordinate| < 2^30)",
               "texts are well-formed UTF-8: any code points 1..0x1FFFFF (one to four bytes; the width function is the "
               "library's own, property C07; C0/C1 controls and DEL make a string invalid)",
               "pens carry any of the ten attributes over their representable values, colours with or without an RGB8 secondary (the pen algebra is property C19's)",
               "line styles 1..3, caps 0..3; buffers have at least one line and one column"]
TRUSTED = ["model coq/RBDefs.v hand-written after src/renderbuffer.c (drawing part); specification coq/RBSpec.v "
           "(per-cell grid operations, abs, boolean WF and equality checkers)",
           "harness reads struct TickitRenderBuffer / RBCell / RBStack directly (renderbuffer.c is #included)"]

ALPHABET = [
    "txa 0 0 41.42.43.44", "txa 0 2 78.79", "txa 0 1 ff21.62", "txa 1 3 61.301.62", "txa 0 4 70.71.72",
    "era 0 1 3", "era 0 3 3", "ska 0 2 2", "cha 0 2 63", "cha 0 5 64",
    "hl 0 1 4 1 3", "vl 0 1 2 2 1", "mk 0 2 2 2", "cl 0 1 2 4", "tr 0 1",
    "sv", "sp", "rs", "pen f1", "pen b2B1", "go 0 1", "tx 70.71", "er 2", "sk 1", "clr", "skr 0 3 2 2",
]


def gen(tier, seed, info):
    n = 0
    for k in (1, 2, 3):
        for prog in itertools.product(ALPHABET, repeat=k):
            n += 1
            yield rbgen.case_line(2, 6, list(prog) + ["D"])
    info["exhaustive"] = True
    info["exhaustive_scope"] = "all programs of 1..3 ops over a %d-op alphabet on a 2x6 buffer" % len(ALPHABET)
    info["exhaustive_cases"] = n
    # every boundary of the library's width tables (both ends of every interval of combining[], fullwidth[] and
    # the hard-coded wide ranges, and their outer neighbours), Hangul medials, soft hyphen, 4-byte code points:
    # once inside a text that is then cut, once as a single character
    nw = 0
    for w in (0, 1, 2):
        for c in rbgen.EXOTIC[w]:
            nw += 1
            yield rbgen.case_line(1, 7, ["txa 0 0 41.%x.42.%x" % (c, c), "cha 0 2 78", "cha 0 5 %x" % c, "D"])
    for c in rbgen.BAD + [0x200000 - 1]:
        nw += 1
        yield rbgen.case_line(1, 7, ["txa 0 0 41.%x.42" % c, "go 0 1", "ch %x" % c, "D"])
    info["width_table_boundary_cases"] = nw
    rnd = random.Random(seed * 1000003 + 3)
    nrand = 6000 if tier == "quick" else 300000
    nmal = 1000 if tier == "quick" else 30000
    kinds = {}
    sizes = {}
    for i in range(nrand + nmal):
        mal = i >= nrand
        r = rnd.random()
        if r < 0.3:
            L, C = rnd.randint(1, 2), rnd.randint(3, 8)
        elif r < 0.9:
            L, C = rnd.randint(1, 4), rnd.randint(4, 12)
        else:
            L, C = rnd.randint(1, 6), rnd.randint(1, 20)
        nops = rnd.randint(5, 60) if rnd.random() < 0.5 else rnd.randint(3, 15)
        ops, k = rbgen.gen_program(rnd, L, C, nops, malformed=mal,
                                   style="text-heavy" if rnd.random() < 0.3 else "mixed")
        if mal and rnd.random() < 0.3:
            far = rnd.choice([10**6, -10**6, 2**29])
            ops.insert(rnd.randint(0, len(ops)), rnd.choice(["txa %d 0 41.42", "era 0 %d 5", "go 0 %d", "tr 0 %d", "cha %d 0 41", "ska 0 -3 %d"]) % far)
        for kk, v in k.items():
            kinds[kk] = kinds.get(kk, 0) + v
        sizes[(L, C)] = sizes.get((L, C), 0) + 1
        yield rbgen.case_line(L, C, ops + ["D"])
    info["random_cases"] = nrand
    info["malformed_cases"] = nmal
    info["op_kinds"] = kinds
    info["distinct_buffer_sizes"] = len(sizes)


def classify(case, obs):
    return rbgen.classify_case(case, obs)


def shrink(case):
    return rbgen.shrink_case(case)
