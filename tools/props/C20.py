"""C20 -- decoded input events do not depend on fragmentation (input path of src/term.c)."""
import os
import random
import re
import subprocess

ID = "C20"
ML = "mC20"
HARNESS = "harness/C20.c"
SRCS = None
EXCLUDE = ["term.c"]           # harness/C20.c includes it to read the private held-button field
EXTRA_LD = ["-Wl,--wrap=gettimeofday", "-Wl,--wrap=select"]
LEVEL = "proof"      # evidence category; partial overall, see ASSUMPTIONS[0] and notes
CASE_TIMEOUT = 0.05
RULE = ("case = (termtype, byte stream, cut offsets, keys the system's libtermkey finds in the whole stream).  Streams are "
        "concatenations of: ASCII and multi-byte UTF-8 text, C0 keys, Alt-prefixed keys, cursor / function / editing keys with "
        "and without modifiers (CSI and SS3 forms), X10 mouse reports (press, drag, release, wheel, modifiers), SGR and rxvt "
        "mouse reports, DECRPM and DECRQSS replies, cursor position reports, unknown CSI, plus malformed tails and random "
        "bytes; termtypes xterm (terminfo mouse prefix ESC[<) and xterm-vt220 (ESC[M, SGR/rxvt decoded by the CSI parser).  "
        "Exhaustive part: every single cut of every stream of the fixed corpus and the byte-by-byte delivery; random part: "
        "random streams with random k cuts, and streams longer than libtermkey's 256-byte buffer.  The real terminal is fed the "
        "chunks under a virtual clock (link-time gettimeofday): after each chunk an optional gap below the 50 ms wait time "
        "passes and tickit_term_input_check_timeout_msec is polled, as an event loop does (timed cases: byte-wise and k-cut "
        "deliveries whose gaps are each < 50 ms but together exceed it; wait cases: after a fragment the application calls tickit_term_input_wait_msec / _wait_tv "
        "with time-outs of its own that expire -- select replaced at link time -- sliced in several ways, together below the wait time); observation = every key / mouse event, "
        "the virtual time every wait took and the time left to the deadline after it, the final time-out state and held-button "
        "mask.  Non-trivial = at least one event and at least one cut; distinct = distinct (termtype, multiset of key types, "
        "whether a cut falls inside a multi-byte key, number of held buttons seen, long stream).")
ASSUMPTIONS = ["PARTIAL by nature: Tickit's side is proved for every tokenizer meeting the hypotheses stated next; libtermkey itself is trusted (the property says so)",
               "libtermkey is trusted as the tokenizer (the property says so); the model assumes of it only prefix stability (a key "
               "found in a buffer is found, with the same length, in every extension of the buffer) and that nothing is consumed "
               "without a key; both are also tested here, because the model is fed the keys of the WHOLE stream; a reference tokenizer "
               "written in Coq (UTF-8, CSI, SS3, SGR mouse) is proved to satisfy all the hypotheses (C20_reference_tokenizer)",
               "no inter-byte time-out is forced between chunks (the property's own condition): every scripted gap, and every group of waits of the caller, is below libtermkey's 50 ms wait time; the clock is virtual; "
               "time the application spends inside its own key / mouse handlers (scripted, up to 200 ms per event) does not count as a gap",
               "libtermkey's buffer holds 256 bytes and no single unfinished sequence fills it",
               "held-button record: button numbers 1..30 (libtermkey reports 1..3 for press/drag)"]
TRUSTED = ["model coq/InputDefs.v hand-written after got_key / get_keys / tickit_term_input_push_bytes of src/term.c (with "
           "fixes/C20-push-bytes-truncation.patch applied); specification coq/InputSpec.v",
           "harness/C20_tok.c: the system's libtermkey 0.22, configured as src/term.c configures it, as the reference tokenizer",
           "libtermkey, terminfo database (xterm, xterm-vt220)"]

VERIF = os.path.dirname(os.path.dirname(os.path.dirname(os.path.abspath(__file__))))


def _tok_helper():
    d = os.path.join(VERIF, "build", "C20")
    os.makedirs(d, exist_ok=True)
    exe = os.path.join(d, "tok")
    src = os.path.join(VERIF, "harness", "C20_tok.c")
    if (not os.path.exists(exe)) or os.path.getmtime(exe) < os.path.getmtime(src):
        subprocess.run(["gcc", "-std=c99", "-O1", "-w", "-D_DEFAULT_SOURCE", "-D_XOPEN_SOURCE=600",
                        "-I", os.path.join(VERIF, "harness"), src, "-o", exe, "-ltermkey"], check=True, timeout=120)
    return exe


def h(b):
    return b.hex() if b else "-"


def x10(cb, x, y):
    return b"\x1b[M" + bytes([32 + cb, 32 + x, 32 + y])


TEXT = [b"a", b"Z", b" ", b"0", b";", b"M", b"\xc3\xa9", b"\xc4\x89", b"\xe2\x82\xac", b"\xf0\x9f\x98\x80", b"e\xcc\x81"]
C0 = [b"\t", b"\r", b"\x7f", b"\x01", b"\x08", b"\x1ba", b"\x1b\xc3\xa9", b"\x1b\x1b[A"]
KEYS = [b"\x1b[A", b"\x1b[B", b"\x1b[C", b"\x1b[D", b"\x1bOA", b"\x1bOP", b"\x1bOS", b"\x1b[H", b"\x1b[F", b"\x1b[Z",
        b"\x1b[2~", b"\x1b[3~", b"\x1b[5~", b"\x1b[6~", b"\x1b[15~", b"\x1b[24~",
        b"\x1b[1;2A", b"\x1b[1;3B", b"\x1b[1;5C", b"\x1b[1;8D", b"\x1b[3;5~", b"\x1b[15;2~", b"\x1b[1;5P", b"\x1b[27;5;13~"]
MOUSE_X10 = [x10(0, 1, 1), x10(1, 10, 20), x10(2, 80, 24), x10(3, 1, 1), x10(32 + 0, 2, 2), x10(32 + 1, 3, 3), x10(32 + 3, 4, 4),
             x10(64, 5, 5), x10(65, 5, 5), x10(66, 5, 5), x10(4 + 0, 6, 6), x10(8 + 1, 7, 7), x10(16 + 2, 8, 8), x10(16 + 3, 9, 9),
             x10(90, 90, 90),
             x10(64 + 4, 5, 5), x10(65 + 16, 6, 7), x10(64 + 8, 8, 9), x10(65 + 4 + 16, 2, 3)]   # wheel with Shift / Ctrl / Meta
MOUSE_SGR = [b"\x1b[<0;10;20M", b"\x1b[<0;10;20m", b"\x1b[<1;1;1M", b"\x1b[<2;200;100M", b"\x1b[<2;200;100m", b"\x1b[<32;11;21M",
             b"\x1b[<35;12;22M", b"\x1b[<64;5;5M", b"\x1b[<65;5;5M", b"\x1b[<4;3;3M", b"\x1b[<16;3;3M", b"\x1b[<8;3;3m",
             b"\x1b[<3;3;3M", b"\x1b[<66;3;3M", b"\x1b[<68;5;5M", b"\x1b[<81;6;7M", b"\x1b[<72;8;9M"]
MOUSE_RXVT = [b"\x1b[32;10;20M", b"\x1b[33;10;20M", b"\x1b[35;10;20M", b"\x1b[64;1;1M", b"\x1b[96;2;3M", b"\x1b[97;2;3M"]
REPLIES = [b"\x1b[?1000;1$y", b"\x1b[?1006;2$y", b"\x1b[?25;0$y", b"\x1b[4;1$y", b"\x1bP1$r0 q\x1b\\", b"\x1bP1$r1;2m\x1b\\",
           b"\x1bP0$r\x1b\\", b"\x1b[10;20R", b"\x1b[?10;20R", b"\x1b[1;2;3x", b"\x1b]0;title\x1b\\"]
MALFORMED = [b"\x1b", b"\x1b[", b"\x1b[1;", b"\x1b[M", b"\x1b[M !", b"\x1b[<0;1", b"\xc3", b"\xe2\x82", b"\x1bP1$r", b"\x1bO",
             b"\xff", b"\x80", b"\x1b[999999999999A", b"\x00", b"\x9b1A"]
CLASSES = {"text": TEXT, "c0": C0, "key": KEYS, "x10": MOUSE_X10, "sgr": MOUSE_SGR, "rxvt": MOUSE_RXVT, "reply": REPLIES,
           "bad": MALFORMED}
TERMS = ["xterm", "xterm-vt220"]


# libtermkey 0.22 itself reads out of bounds (SIGSEGV) on a CSI sequence that has an intermediate
# byte and a final byte other than the DECRPM one, e.g. ESC [ ! A; such streams are kept out
# (the tokenizer is outside the property; recorded in notes/C20.md)
TERMKEY_CRASH = re.compile(rb"(\x1b\[|\x9b)[\x30-\x3f]*[\x20-\x2f]+[\x40-\x7e]")


def _safe(s):
    for m in TERMKEY_CRASH.finditer(s):
        if not m.group(0).endswith(b"$y"):
            return False
    return True


def gen(tier, seed, info):
    rnd = random.Random(seed * 7919 + 20)
    streams = []          # (termtype, bytes, cuts-list, tag)
    # ---- fixed corpus: every item alone, pairs across classes, held-button histories
    corpus = []
    for cl, items in CLASSES.items():
        for it in items:
            corpus.append(it)
            corpus.append(b"a" + it + b"b")
    allitems = [it for cl, items in CLASSES.items() if cl != "bad" for it in items]
    for _ in range(60 if tier == "quick" else 600):
        corpus.append(b"".join(rnd.choice(allitems) for _ in range(rnd.randint(2, 5))))
    P = lambda b: x10(b, 3, 4)
    held_histories = [
        [P(0), P(1), P(3)], [P(0), P(1), P(2), P(3), P(3)], [P(0), P(32), P(32 + 1), P(3), P(0), P(3)],
        [P(1), b"\x1b[<1;3;4m", P(3)], [P(0), P(64), P(3)], [P(3)], [P(2), P(2), P(3), P(3)],
        [b"\x1b[<0;1;1M", b"\x1b[<2;1;1M", b"\x1b[<0;1;1m", b"\x1b[<3;1;1M"], [P(32 + 3)], [P(0), P(32 + 3), P(1), P(3)],
    ]
    for hh in held_histories:
        corpus.append(b"".join(hh))
    for _ in range(40 if tier == "quick" else 400):
        corpus.append(b"".join(rnd.choice([P(0), P(1), P(2), P(3), P(32), P(33), P(34), P(35), P(64), b"\x1b[<0;3;4m",
                                           b"\x1b[<1;3;4m", b"\x1b[<2;3;4M", b"x"]) for _ in range(rnd.randint(2, 8))))
    nsingle = 0
    BADSET = set(MALFORMED) | set(b"a" + it + b"b" for it in MALFORMED)
    for tt in TERMS:
        for s in corpus:
            bad = "!" if s in BADSET else ""
            streams.append((tt, s, [], bad + "whole"))
            if len(s) > 1:
                streams.append((tt, s, list(range(1, len(s))), bad + "bytewise"))
            for c in range(1, len(s)):
                streams.append((tt, s, [c], bad + "cut1"))
                nsingle += 1
    info["exhaustive"] = True
    info["exhaustive_scope"] = ("every single cut and the byte-by-byte delivery of each of the %d corpus streams, for each of "
                                "the termtypes %s" % (len(corpus), TERMS))
    info["exhaustive_cases"] = len(streams)
    # ---- random streams, random k-cuts
    nrand = 4000 if tier == "quick" else 200000
    for _ in range(nrand):
        tt = rnd.choice(TERMS)
        r = rnd.random()
        tag = "!random"
        if r < 0.7:
            cl = [rnd.choice(list(CLASSES)) for _ in range(rnd.randint(1, 8))]
            s = b"".join(rnd.choice(CLASSES[c]) for c in cl)
            if "bad" not in cl:
                tag = "random"
        elif r < 0.85:
            s = bytes(rnd.choice([0x1b, 0x5b, 0x4d, 0x3c, 0x3b, 0x31, 0x41, 0x7e, 0x20, 0x21, 0x50, 0x5c, 0xc3, 0xa9, 0x24, 0x79,
                                  rnd.randrange(256)]) for _ in range(rnd.randint(1, 24)))
        else:
            s = b"".join(rnd.choice(allitems) for _ in range(rnd.randint(1, 6)))
            s = s + rnd.choice(MALFORMED)
        if not _safe(s):
            s = s.replace(b"\x1b[", b"[").replace(b"\x9b", b"#")
        k = rnd.randint(0, min(6, max(0, len(s) - 1)))
        cuts = sorted(rnd.sample(range(1, len(s)), k)) if len(s) > 1 and k else []
        streams.append((tt, s, cuts, tag))
    # ---- timed delivery: a gap (virtual microseconds) after each fragment, every gap below the
    #      50 ms wait time, the fragments of one sequence together often taking longer than it
    GAPS = [1, 10000, 20000, 30000, 45000, 49999]
    ntimed = 0
    timed_items = KEYS + MOUSE_X10 + MOUSE_SGR + MOUSE_RXVT + REPLIES + [b"\xe2\x82\xac", b"\xf0\x9f\x98\x80", b"\x1b\x1b[A"]
    for tt in TERMS:
        for it in timed_items:
            for pre, post in ((b"", b""), (b"a", b"b"), (b"\x1b[A", b"\x1b[1;5C")):
                st = pre + it + post
                if len(st) < 2:
                    continue
                for g in (20000, 30000, 49999):
                    # byte by byte, the same gap after every byte
                    streams.append((tt, st, ["%d+%d" % (c, g) for c in range(1, len(st) + 1)], "timed"))
                    ntimed += 1
                # pairs of bytes, mixed gaps
                cuts = list(range(2, len(st), 2))
                streams.append((tt, st, ["%d+%d" % (c, GAPS[(i + len(st)) % len(GAPS)]) for i, c in enumerate(cuts)], "timed"))
                ntimed += 1
    for _ in range(1500 if tier == "quick" else 100000):
        tt = rnd.choice(TERMS)
        st = b"".join(rnd.choice(allitems) for _ in range(rnd.randint(1, 5)))
        if len(st) < 2:
            continue
        k = rnd.randint(1, min(10, len(st) - 1))
        cuts = sorted(rnd.sample(range(1, len(st)), k))
        if rnd.random() < 0.3:
            cuts.append(len(st))
        streams.append((tt, st, ["%d+%d" % (c, rnd.choice(GAPS + [0, 0])) for c in cuts], "timed"))
        ntimed += 1
    # ---- the wait path: after a fragment the application waits (tickit_term_input_wait_msec / _wait_tv) and the
    #      waits time out -- the caller's time-outs, together below the 50 ms wait time: a pending sequence must
    #      not be forced by them, however the caller slices its waits
    nwait = 0
    WAITS = ["~10~10~10", "~49", "~1~1~1~1~1", "~T0:30000", "~20~T0:20999", "~0~25", "~T0:999"]
    for tt in TERMS:
        for it in timed_items:
            for pre, post in ((b"", b""), (b"a", b"b"), (b"\x1b[A", b"\x1b[1;5C")):
                st = pre + it + post
                if len(st) < 2:
                    continue
                js = sorted(set([len(pre) + 1, len(pre) + len(it) - 1, len(pre) + (len(it) + 1) // 2]))
                for j in js:
                    if not 0 < j < len(st):
                        continue
                    for w in WAITS:
                        streams.append((tt, st, ["%d%s" % (j, w)], "wait"))
                        nwait += 1
                # waits after every byte; waits where nothing is pending (whole seconds through the timeval form)
                streams.append((tt, st, ["%d~15~15" % c for c in range(1, len(st))], "wait"))
                streams.append((tt, st, ["%d~T2:0~100~T1:500000" % len(st)], "wait"))
                nwait += 2
    info["wait_cases"] = nwait
    # ---- empty fragments (a zero-length push, also while a sequence is pending) and handlers that CLAIM
    #      every event (termtype "<name>%": the held-button histories, chords released by a button-less release)
    nempty = 0
    for tt in TERMS:
        for it in timed_items:
            for pre, post in ((b"", b""), (b"a", b"b")):
                st = pre + it + post
                for j in sorted(set([0, len(pre) + 1, len(pre) + len(it) - 1, len(st)])):
                    if not 0 <= j <= len(st):
                        continue
                    streams.append((tt, st, [j, j], "empty"))
                    streams.append((tt, st, ["%d+1000" % j, "%d+1000" % j, "%d+1000" % j], "empty"))
                    nempty += 2
    info["empty_fragment_cases"] = nempty
    nclaim = 0
    for tt in TERMS:
        for hh in held_histories:
            st = b"".join(hh)
            streams.append((tt, st, [], "claim"))
            streams.append((tt, st, list(range(1, len(st))), "claim"))
            nclaim += 2
        for it in MOUSE_X10 + MOUSE_SGR + KEYS[:6]:
            streams.append((tt, b"a" + it + b"b", [2], "claim"))
            nclaim += 1
    info["claiming_handler_cases"] = nclaim
    info["timed_cases"] = ntimed
    info["timed_gaps_us"] = GAPS
    # ---- slow handlers: the application's key / mouse handlers take longer than the wait time
    #      (the virtual clock advances inside them).  A chunk that holds complete keys AND the
    #      start of an unfinished sequence, the time-out polled right after it, the rest delivered
    #      at once: the time spent in the handlers must not be charged to the partial sequence.
    nslow = 0
    heads = [b"z", b"\x1b[A", b"zz", MOUSE_SGR[0], b"\xc3\xa9"]
    tails = [it for it in timed_items if len(it) >= 2]
    for tt in TERMS:
        for hd in heads:
            for tl_ in tails:
                st = hd + tl_ + b"q"
                for hus in (60000, 200000):
                    js = sorted(set([1, len(tl_) - 1, (len(tl_) + 1) // 2]))
                    for j in js:
                        for g in (0, 1000, 30000):
                            streams.append((tt, st, ["%d+%d" % (len(hd) + j, g)], "slow%d" % hus))
                            nslow += 1
                    # controls: the cut between the items; byte by byte
                    streams.append((tt, st, ["%d+0" % len(hd)], "slow%d" % hus))
                    streams.append((tt, st, ["%d+%d" % (c, 20000) for c in range(1, len(st) + 1)], "slow%d" % hus))
                    nslow += 2
    info["slow_handler_cases"] = nslow
    # ---- longer than libtermkey's buffer
    nlong = 60 if tier == "quick" else 2000
    for _ in range(nlong):
        tt = rnd.choice(TERMS)
        s = b""
        target = rnd.choice([250, 256, 257, 300, 520, 800])
        while len(s) < target:
            s += rnd.choice(allitems if rnd.random() < 0.7 else TEXT)
        mode = rnd.random()
        if mode < 0.4:
            cuts = []
        elif mode < 0.7:
            cuts = [rnd.randrange(1, len(s))]
        else:
            cuts = sorted(rnd.sample(range(1, len(s)), rnd.randint(2, 6)))
        streams.append((tt, s, cuts, "long"))
    info["random_cases"] = nrand
    info["long_cases"] = nlong
    # ---- tokens of every distinct (termtype, stream) from the reference tokenizer
    uniq = sorted(set((tt, s) for tt, s, _, _ in streams))
    exe = _tok_helper()
    toks, dropped, todo = {}, [], list(uniq)
    while todo:
        inp = "".join("%s %s\n" % (tt, h(s)) for tt, s in todo)
        p = subprocess.run([exe], input=inp.encode(), stdout=subprocess.PIPE, stderr=subprocess.DEVNULL, timeout=600)
        lines = p.stdout.decode().split("\n")[:-1]
        for u, l in zip(todo, lines):
            toks[u] = l
        if p.returncode == 0 and len(lines) == len(todo):
            break
        if len(dropped) > 200 or len(lines) >= len(todo):
            raise RuntimeError("reference tokenizer failed")
        dropped.append(todo[len(lines)])          # libtermkey itself crashed on this stream
        todo = todo[len(lines) + 1:]
    info["streams_dropped_because_libtermkey_crashes"] = [h(s) for _, s in dropped[:20]]
    streams = [x for x in streams if (x[0], x[1]) in toks]
    info["distinct_streams"] = len(uniq)
    tags = {}
    for tt, s, cuts, tag in streams:
        tags[tag] = tags.get(tag, 0) + 1
        slow = "@" + tag[4:] if tag.startswith("slow") else ("%" if tag == "claim" else "")
        yield "%s%s%s %s %s %s" % ("!" if tag[0] == "!" else "", tt, slow, h(s), ",".join(map(str, cuts)) or "-", toks[(tt, s)])
    info["cases_by_kind"] = tags


def canon(case, obs):
    """Streams that are not built from well-formed items only (marked '!') are outside the
    property's quantifier, and libtermkey is not prefix-stable on all of them: for those the
    check is robustness only -- no sanitizer report."""
    if case.startswith("!"):
        return "CRASH" if obs.startswith("CRASH") else "robust"
    return obs


def classify(case, obs):
    if case.startswith("!"):
        return None
    t = case.split()
    if obs.startswith(("CRASH", "ERR")):
        return ("crash", obs.split()[0])
    ev = [o for o in obs.split() if o[0] in "km"]
    if not ev or t[2] == "-":
        return None
    cuts = [int(re.split(r"[+~]", c)[0]) for c in t[2].split(",")]
    gaps = [int(c.split("+")[1]) for c in t[2].split(",") if "+" in c]
    waits = tuple(sorted(set(c[c.index("~"):] for c in t[2].split(",") if "~" in c)))[:2]
    pos, inside, types = 0, False, set()
    for tk in t[3:]:
        if tk[0] != "L":
            continue
        f = tk[1:].split(":")
        ln = int(f[0])
        types.add(f[1])
        if ln > 1 and any(pos < c < pos + ln for c in cuts):
            inside = True
        pos += ln
    nheld = len(set(o.split(":")[1] for o in ev if o[0] == "m" and o[1] in "12"))
    timed = (sum(gaps) > 50000, max(gaps) >= 45000) if any(gaps) else None
    return (t[0], tuple(sorted(types)), inside, min(len(cuts), 3), nheld, len(t[1]) > 512, timed, waits)


def shrink(case):
    # shrinking would need fresh tokens from the reference tokenizer; only the cuts are reduced
    t = case.split()
    if t[2] != "-":
        cuts = t[2].split(",")
        for i in range(len(cuts)):
            c = cuts[:i] + cuts[i + 1:]
            yield " ".join(t[:2] + [",".join(c) or "-"] + t[3:])
