"""C01 -- flushed screen equals the painter's-model composition of the window tree
(src/window.c on rectset.c / renderbuffer.c / mockterm.c)."""
import itertools
import random
from props import wingen

ID = "C01"
ML = "mC01"
HARNESS = "harness/C01.c"
SRCS = None
EXCLUDE = ("window.c",)          # harness/win_harness.h #includes it
LEVEL = "proof"
DRIVER_PARTS = ["drv_win.ml", "drv_C01.ml"]
CASE_TIMEOUT = 0.2
RULE = ("case = terminal kind (library mock terminal / harness grid driver) x size x scroll policy (accept, refuse, "
        "mock rule, full-width only, scripted per request) + a history of window operations with flushes at arbitrary "
        "points; every expose handler repaints the rectangle it is handed with (window, line, col)-dependent characters, "
        "geometry changes are followed by parent exposes of old and new area, scrolls by the application's content shift. "
        "Compared after EVERY flush: the whole grid, the tree (geometry, z-order, flags, focus links), the rectangles handed "
        "to every handler in order, the cursor, the scroll records.  Exhaustive part: 6 base trees (2-3 windows, overlapping, "
        "nested, sticking out, hidden) x all sequences of <=2 operations from a 40-60 op alphabet x 3 policies on 4x6. "
        "A case is non-trivial when it creates a window; distinct = (terminal kind+policy, set of op kinds).")
ASSUMPTIONS = ["expose handlers repaint exactly what they are asked to and nothing else; the application exposes old and new "
               "area in the parent after every geometry change, shifts its content after a scroll, and moves the children "
               "after scroll_with_children (the property's proviso)",
               "the root window is never hidden, closed or given a geometry other than by a terminal resize",
               "window ids are unique; operations on closed windows or their descendants are not made",
               "expose handlers may re-enter the window layer only with expose / show / hide / the four restack requests and close / drop-the-last-references (no new, geometry change or scroll from inside a handler)",
               "content is single-width ASCII (the abstract render buffer is exact for it)",
               "no int overflow"]
TRUSTED = ["model coq/WinDefs.v + WinRectSet.v + WinHist.v hand-written after src/window.c and src/rectset.c; abstract per-cell "
           "render buffer and terminal; spec coq/WinSpec.v (compose)"]

BASES = [
    # two overlapping siblings
    ["N 1 0 0 1 3 3 0", "N 2 0 1 2 2 3 0"],
    # nested child sticking out of its parent
    ["N 1 0 1 1 2 4 0", "N 2 1 -1 2 3 4 0"],
    # three siblings, one hidden, one lowest
    ["N 1 0 0 0 2 3 0", "N 2 0 1 1 2 3 1", "N 3 0 2 2 2 4 2"],
    # window sticking out of the screen, with a child
    ["N 1 0 2 3 3 6 0", "N 2 1 0 0 1 2 0"],
    # nested two deep
    ["N 1 0 0 0 4 5 0", "N 2 1 1 1 3 3 0", "N 3 2 0 1 2 2 0"],
    # popup over a sibling
    ["N 1 0 1 0 2 6 0", "N 2 1 0 2 2 2 4"],
]


def alphabet(nw):
    ops = ["F", "TR 3 5", "TR 5 7", "EA 0", "SC 0 1 0", "SC 0 0 -1"]
    for w in range(1, nw + 1):
        ops += ["H %d" % w, "S %d" % w, "R %d" % w, "L %d" % w, "RF %d" % w, "LB %d" % w, "X %d" % w,
                "MV %d 0 0 1" % w, "MV %d 2 3 1" % w, "RZ %d 1 2 1" % w, "RZ %d 3 5 1" % w,
                "SC %d 1 0" % w, "SC %d -1 0" % w, "SC %d 0 1" % w, "SC %d 0 -1" % w, "SK %d 1 0" % w,
                "SR %d 0 0 2 2 1 0" % w, "EA %d" % w]
    return ops


PROFILE = {"new": 10, "close": 4, "show": 5, "hide": 6, "restack": 10, "geom": 10, "expose": 6, "flush": 12,
           "scroll": 10, "scrollrect": 5, "scrollkids": 3, "tresize": 4, "focus": 2, "cursor": 2, "dead": 1}


PROFILE_RE = {"new": 12, "close": 2, "show": 4, "hide": 5, "restack": 6, "geom": 6, "expose": 8, "flush": 14,
              "scroll": 3, "tresize": 1, "focus": 1}

REENTRANT_FIXED = [
    # a panel that shows its hidden popup sibling while it is being repainted (the popup must appear with the next flush)
    "W G 4 8 A RA 1 1 sh 2 N 1 0 0 0 4 4 0 N 2 0 1 5 2 3 1 F F EA 1 F F F",
    "W M 4 8 K RA 1 1 sh 2 N 1 0 0 0 4 4 0 N 2 0 1 5 2 3 1 F F EA 1 F E 0 1 5 2 3 F F",
    # the root's handler exposes a child's area again; a child hides its sibling
    "W G 4 6 A RA 0 1 ex 0 1 1 2 2 N 1 0 1 1 2 2 0 F F F",
    "W G 4 6 A RA 2 1 hi 1 N 1 0 0 0 2 3 0 N 2 0 1 1 3 4 0 F F F",
    "W G 4 6 A RA 1 2 rf 2 ea 2 N 1 0 0 0 3 3 0 N 2 0 1 1 3 4 2 F F F",
    # handlers that close / destroy their own window (or another one) while the flush walks the tree
    "W G 4 6 A RA 1 1 xd 1 N 1 0 1 1 2 2 0 F F",
    "W G 4 6 A RA 1 1 xc 1 N 1 0 1 1 2 2 0 N 2 0 0 0 2 2 2 F F",
    "W G 4 6 A RA 1 1 xd 1 N 2 0 0 0 2 2 0 N 1 0 1 1 2 2 0 F F",
    "W G 4 6 A RA 3 1 xd 1 N 1 0 0 0 3 4 0 N 2 0 1 2 2 3 2 N 3 1 0 0 2 2 0 F F F",
    "W G 4 6 A FA 1 1 xd 1 N 1 0 1 1 2 2 0 F TF 1 F",
    "W G 4 6 A GA 1 1 xd 1 N 1 0 1 1 2 2 0 F G 1 0 0 2 2 1 E 0 1 1 2 2 F",
    # a parent told that a child takes the focus destroys / closes that child
    "W G 4 6 A FC 0 1 xd 1 N 1 0 1 1 2 2 0 FN 0 1 F TF 1 F TF 0 F",
    "W G 4 6 A FC 0 1 xc 1 N 1 0 1 1 2 2 0 CP 1 0 0 FN 0 1 F TF 1 F F",
    "W G 4 6 A FC 1 1 xd 2 N 1 0 1 1 3 3 0 N 2 1 0 0 1 1 0 FN 1 1 F TF 2 F TF 1 F",
]


def gen(tier, seed, info):
    n = 0
    maxlen = 2 if tier == "quick" else 3
    pols = ["G 4 6 A", "G 4 6 R", "M 4 6 K"]
    for base in BASES:
        nw = len(base)
        al = alphabet(nw)
        for ln in range(1, maxlen + 1):
            if ln == 3:
                al = [o for o in al if o.split()[0] in ("F", "H", "S", "R", "L", "X", "MV", "SC", "TR")]
            for seq in itertools.product(al, repeat=ln):
                if seq[-1] == "F":
                    continue
                for pol in pols:
                    n += 1
                    yield "W %s F %s F %s F" % (pol, " ".join(base), " ".join(seq))
    info["exhaustive"] = True
    info["exhaustive_scope"] = ("%d base trees x all op sequences of length <= %d over the per-tree alphabet x 3 terminals, "
                                "each followed by a flush" % (len(BASES), maxlen))
    info["exhaustive_cases"] = n
    rnd = random.Random(seed * 7919 + 101)
    nrand = 4000 if tier == "quick" else 150000
    kinds = {}
    for _ in range(nrand):
        nl, nc = rnd.randint(2, 6), rnd.randint(3, 9)
        ops, _sh = wingen.history(rnd, nl, nc, rnd.randint(4, 40), PROFILE)
        case = wingen.header(rnd, nl, nc) + " " + " ".join(ops) + " F"
        for k in wingen.op_kinds(case):
            kinds[k] = kinds.get(k, 0) + 1
        yield case
    info["random_cases"] = nrand
    info["random_op_kind_counts"] = kinds
    # handlers that re-enter the window layer while the flush runs
    nre = 2400 if tier == "quick" else 100000
    for fixed in REENTRANT_FIXED:
        yield fixed
    for _ in range(nre):
        nl, nc = rnd.randint(2, 6), rnd.randint(3, 9)
        ops, sh = wingen.history(rnd, nl, nc, rnd.randint(4, 25), PROFILE_RE)
        ras = []
        ids = list(range(0, sh.next_id))
        for w in ids:
            if rnd.random() < 0.45:
                acts = []
                for _k in range(rnd.randint(1, 3)):
                    tgt = rnd.choice(ids)
                    a = rnd.choice(["ea", "ex", "sh", "hi", "sh", "hi", "ra", "rf", "lo", "lb", "xc", "xd", "xc", "xd"])
                    if a in ("xc", "xd") and rnd.random() < 0.5:
                        tgt = w          # its own window
                    if a in ("sh", "hi", "ra", "rf", "lo", "lb", "xc", "xd") and tgt == 0:
                        a = "ea"
                    if a == "ex":
                        acts.append("ex %d %d %d %d %d" % (tgt, rnd.randint(-1, nl), rnd.randint(-1, nc), rnd.randint(1, nl), rnd.randint(1, nc)))
                    else:
                        acts.append("%s %d" % (a, tgt))
                ras.append("RA %d %d %s" % (w, len(acts), " ".join(acts)))
        yield wingen.header(rnd, nl, nc) + " " + " ".join(ras + ops) + " F F F F"
    info["reentrant_cases"] = nre + len(REENTRANT_FIXED)
    # handlers that run a nested flush of the root after damaging something (only exposes besides: a nested
    # flush uses up damage that the outer flush's already-drawn buffer then overwrites, see notes/C01.md),
    # and handlers that change a window's geometry (their own included) and expose the old and new area
    nfl = 1600 if tier == "quick" else 80000
    for k in range(nfl):
        nl, nc = rnd.randint(2, 6), rnd.randint(3, 9)
        ops, sh = wingen.history(rnd, nl, nc, rnd.randint(4, 20), PROFILE_RE)
        ras = []
        ids = list(range(0, sh.next_id))
        nested = k % 2 == 0
        for w in ids:
            if rnd.random() < 0.45:
                acts = []
                for _k in range(rnd.randint(1, 3)):
                    tgt = rnd.choice(ids)
                    if nested:
                        a = rnd.choice(["ea", "ex", "ex", "fl"])
                    else:
                        a = rnd.choice(["ea", "ex", "sh", "hi", "ra", "lo", "xc", "rg", "rg", "rg"])
                        if a == "rg" and rnd.random() < 0.5:
                            tgt = w
                        if a in ("sh", "hi", "ra", "lo", "xc", "rg") and tgt == 0:
                            a = "ea"
                    if a == "ex":
                        acts.append("ex %d %d %d %d %d" % (tgt, rnd.randint(-1, nl), rnd.randint(-1, nc), rnd.randint(1, nl), rnd.randint(1, nc)))
                    elif a == "rg":
                        acts.append("rg %d %d %d %d %d" % (tgt, rnd.randint(-1, nl - 1), rnd.randint(-2, nc - 1), rnd.randint(1, nl), rnd.randint(1, nc)))
                    elif a == "fl":
                        acts.append("fl 0")
                    else:
                        acts.append("%s %d" % (a, tgt))
                if nested and rnd.random() < 0.7 and "fl 0" not in acts:
                    acts.append("fl 0")
                ras.append("RA %d %d %s" % (w, len(acts), " ".join(acts)))
        yield wingen.header(rnd, nl, nc) + " " + " ".join(ras + ops) + " F F F F"
    info["nested_flush_and_geometry_cases"] = nfl


def classify(case, obs):
    if " N " not in case:
        return None
    t = case.split()
    return (t[1] + t[4][0], wingen.op_kinds(case))


shrink = wingen.shrink
