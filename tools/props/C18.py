"""C18 -- signals and ready descriptors reach their watchers (src/evloop-default.c, src/tickit.c)."""
import random

ID = "C18"
ML = "mC18"
HARNESS = "harness/C18.c"
SRCS = None
EXTRA_LD = ["-Wl,--wrap=ppoll", "-Wl,--wrap=gettimeofday", "-Wl,--wrap=read", "-Wl,--wrap=waitpid"]
LEVEL = "proof"      # evidence category; partial overall, see ASSUMPTIONS[0] and notes
CASE_TIMEOUT = 0.02
RULE = ("case = callback table + script over the real toplevel instance with the default event loop; ppoll is replaced at "
        "link time by a function that behaves as the kernel does (watched signals are really raised and stay blocked "
        "outside ppoll; ppoll installs the loop's mask, so pending signals and those scripted to arrive during the wait run "
        "the loop's real handler and ppoll fails with EINTR; scripted ready descriptors take precedence; revents written for "
        "every slot).  Callbacks (deferred, IO, signal) set errno, cancel other watches and themselves, register IO watches "
        "(into reused and fresh poll slots), register deferred callbacks, raise signals.  Exhaustive part: watcher "
        "configurations x deferred-callback side effects (errno 0/EAGAIN/EINTR, raise, cancel) x IO configurations (ready, "
        "not ready, cancel + re-register into the reused slot, fresh slot) x signal arrival points (before the iteration, "
        "during the wait, inside a callback, two signals, with a ready descriptor in the same ppoll).  Non-trivial = some "
        "signal or IO callback fired; distinct = distinct (arrival kinds, errno side effects present, slot reuse present, "
        "fired kinds/conditions, number of fires).")
ASSUMPTIONS = ["PARTIAL by nature: the loop model is proved to refine the snapshot specification (C18_refines) under the kernel contract stated next; implementation = model is tested; signal delivery, ppoll atomicity and the self-pipe fallback are not verified",
               "kernel contract (hypothesis, not proved): a watched signal is blocked outside ppoll, is delivered by the next "
               "ppoll that finds no ready descriptor, and that ppoll then fails with EINTR; ppoll writes revents for every slot",
               "a signal watch is not cancelled while its signal is pending in the kernel (the last cancel restores the default action)",
               "registered descriptors are >= 0 (hypothesis act_ok of C18_refines; nothing else is assumed of the callbacks)",
               "two loops are exercised: the default ppoll-based one (Linux) and a minimal poll loop without ->signal hook (self-pipe fallback)", "malloc does not fail",
               "tickit_run is entered through the script op u<k>: the harness calls tickit_stop from inside the k-th ppoll of the run at the latest; "
               "the SIGINT watch tickit_run keeps for its duration is modelled (SIGINT stops the run); a run does not end with SIGINT still blocked-pending "
               "(cancelling the watch would unblock it and kill the process); tickit_run / tickit_tick are not re-entered from callbacks"]
TRUSTED = ["model coq/LoopPipeDefs.v of the self-pipe fallback (pipe as a byte counter), proved to refine the snapshot specification coq/LoopPipeSnap.v "
           "(C18_fallback_refines); oracle for F cases = that specification (log equality) and the checker coq/LoopPipeSpec.v (obligation per raise and watcher)",
           "model coq/LoopSigDefs.v hand-written after src/evloop-default.c and src/tickit.c (with fixes/C18-*.patch applied); "
           "specification coq/LoopSigSpec.v (snapshot semantics, no errno, no revents table; model proved to refine it in coq/LoopSigRefine.v)",
           "harness/loopharness.h: link-time replacement of ppoll that plays the kernel (real signals, real handler, scripted outcome)"]

SIGS = [10, 12, 14]
HISIGS = [29, 30, 31]      # above SIGWINCH (28), which tickit_build always watches
ERRNOS = [0, 11, 4, 2]


def gen(tier, seed, info):
    n = 0
    # ---- exhaustive structured product
    watchers = [
        ("ws10:0:1", 1), ("ws10:2:1 ws10:0:9", 2), ("ws10:0:1 ws12:0:9", 2), ("ws10:0:1 ws12:0:9 ws10:2:9", 3),
    ]
    first_cb = ["-", "c1", "e0", "wi1:1:0:9", "c0", "k10", "l0:9"]
    later = ["", "l0:2", "l2:2"]
    later_cb = ["-", "e0", "e11", "e4", "k10", "c0", "e0,k12", "c0,e0", "wi2:1:0:9"]
    arrivals = ["", "k10", "K10", "k10 k12", "K12 K10", "k10 k10", "k12", "K14"]
    for (w, nw) in watchers:
        for fcb in first_cb:
            for lt in later:
                for lcb in (later_cb if lt else ["-"]):
                    # IO configurations; ids continue after the watchers (+ the later)
                    base = nw
                    ios = ["", "wi0:1:0:9 R0:1", "wi0:1:0:9",
                           "wi0:1:0:3 wi1:1:2:9 R0:1 R1:1", "wi0:3:0:4 R0:21", "wi3:1:0:9 wi0:1:0:5 R0:1"]
                    for io in ios:
                        for a in arrivals:
                            if tier == "quick" and io and a and (len(a) + len(io) + len(lcb)) % 2:
                                continue
                            n += 1
                            cbs = "cb1=%s cb2=%s cb3=c%d,wi2:1:0:9 cb4=e0 cb5=wi1:4:0:9,e11" % (fcb, lcb, base + 1)
                            yield "%s %s %s %s %s r0 r0 r0" % (cbs, w, io, a, lt)
    info["exhaustive"] = True
    info["exhaustive_scope"] = ("4 watcher configurations x 7 first-watcher callbacks x (no deferred callback | 2 flags x 9 deferred "
                                "callback bodies) x 6 IO configurations x 8 arrival patterns, then three NOHANG iterations "
                                "(quick: about half of the combinations that have both IO and an arrival)")
    info["exhaustive_cases"] = n
    # ---- tickit_stop from callbacks, tickit_run (u<k>) and tickit_tick: whatever a deferred / IO /
    #      signal callback does to the loop's run flag, the iteration still owes the signal dispatch
    nst = 0
    for w in ["ws10:0:2", "ws10:0:2 ws10:2:4", "ws10:0:2 ws12:0:4"]:
        for c1 in ["s", "s,e0", "e4,s", "s,k12", "-"]:
            for lt in ["l0:1", "l0:3 l0:1", "l0:1 l0:3", "wi0:1:0:1 R0:1"]:
                for a in ["K10", "k10", "K10 K12", "k10 K12", ""]:
                    for mode in ["r0 r0 r0", "o r0 r0", "u3 r0 r0", "u1 r0 r0", "u2 u2 r0", "u4 k10 r0"]:
                        for c2 in ["-", "s", "l0:3"]:
                            nst += 1
                            yield "cb1=%s cb2=%s cb3=e0 cb4=- %s %s %s %s" % (c1, c2, w, lt, a, mode)
    info["stop_run_cases"] = nst
    # ---- SIGINT during tickit_run: the watch tickit_run keeps for its duration stops the loop (the
    #      signal is never left pending when the run ends: the limit leaves room for one more pass)
    nint = 0
    for w in ["ws10:0:2", "ws10:0:2 ws12:0:3"]:
        for pre in ["K2", "K2 K10", "K10 K2", "cb1=k2 l0:1", "cb2=k2 K10", "cb1=l0:1 l0:1 K2", "cb1=k2 l0:4 l0:1", "l0:4"]:
            for lim in [3, 5]:
                for c3 in ["-", "k10"]:
                    cbs = [t for t in pre.split() if t.startswith("cb")]
                    rest = [t for t in pre.split() if not t.startswith("cb")]
                    nint += 1
                    yield "%s cb3=%s cb4=- %s %s u%d r0 K10 r0" % (" ".join(cbs), c3, w, " ".join(rest), lim)
    info["sigint_during_run_cases"] = nint
    n += nint
    # ---- signal numbers above SIGWINCH and histories that free a signums[] slot first (a cancelled
    #      watch, or tickit_run's own SIGINT watch), so that the new watch REUSES a slot
    nhi = 0
    for (pre, nid) in [("", 0), ("ws10:0:1 c0", 1), ("ws12:0:1 c0", 1), ("u1", 0), ("ws10:0:1 ws12:0:1 c0", 2),
                       ("ws10:0:1 ws12:0:1 c1 c0", 2), ("ws10:0:1 u1 c0", 1), ("l0:1 u2", 1)]:
        for sg in HISIGS + [12]:
            for second in ["", "ws%d:2:3" % sg, "ws10:0:3"]:
                for a in ["k%d" % sg, "K%d" % sg, "k%d K10" % sg, "K%d k%d" % (sg, sg)]:
                    for mode in ["r0 r0", "u2 r0", "o r0"]:
                        for c2 in ["-", "c%d" % nid, "k%d" % sg]:
                            nhi += 1
                            yield "cb1=- cb2=%s cb3=- %s ws%d:0:2 %s %s %s" % (c2, pre, sg, second, a, mode)
    info["high_signal_cases"] = nhi
    n += nst + nhi
    # ---- a signal callback registers a further watch of the signal being dispatched: the new watch
    #      was not watching when the signal was delivered; it waits for the next delivery, whether
    #      the registering watch is the last of the list or not (both loops)
    nreg = 0
    for loop in ["", "F "]:
        for w in ["ws10:0:1", "ws10:0:1 ws10:0:2", "ws10:0:2 ws10:0:1", "ws10:0:1 ws12:0:2", "ws10:0:2 ws10:0:1 ws10:2:2"]:
            for c1 in ["ws10:0:2", "ws10:0:3", "ws10:0:2,c0", "c0,ws10:0:2", "ws12:0:2", "ws10:0:2,k10", "ws10:0:1"]:
                for a in (["k10", "k10 k12", "k10 r0 k10"] if loop else ["K10", "k10", "K10 K12", "k10 r0 K10"]):
                    for c3 in ["-", "ws10:0:2"]:
                        nreg += 1
                        yield "%scb1=%s cb2=- cb3=%s %s %s r0 %s r0 r0" % (loop, c1, c3, w, a, a.split()[0])
    info["register_during_dispatch_cases"] = nreg
    n += nreg
    # ---- the self-pipe fallback (custom event loop without a ->signal hook): signals are not
    #      blocked, the handler runs at once; arrival points: before an iteration, from a deferred
    #      callback, from inside a signal callback of the running dispatch (other / same signal),
    #      right after the wakeup read (B<sig>), bursts
    rnd = random.Random(seed * 7919 + 1818)
    nfb = 0
    fwatch = ["ws10:0:1", "ws10:0:1 ws12:0:2", "ws10:0:1 ws12:0:2 ws10:2:3", "ws12:0:2 ws10:0:1", "ws10:2:1 ws10:0:3 ws12:0:2"]
    fcb1 = ["-", "k12", "k10", "k10,k12", "c1", "c0", "l0:4", "k12,c0"]
    fcb2 = ["-", "k10", "k12"]
    fcb3 = ["-", "k10"]
    fcb4 = ["k10", "k12", "-"]
    farr = ["k10", "k10 k12", "k10 k10", "k12", "l0:4", "B12 k10", "B10 k10", "k10 r0 k12", "l0:4 k10", "k10 r0 r0 B12 k12"]
    for w in fwatch:
        for c1 in fcb1:
            for c2 in fcb2:
                for c3 in fcb3:
                    for c4 in fcb4:
                        for a in farr:
                            if tier == "quick" and (len(c1) + len(c2) + len(c3) + len(c4) + len(a)) % 3 == 0:
                                continue
                            nfb += 1
                            yield "F cb1=%s cb2=%s cb3=%s cb4=%s %s %s r0 r0 r0 r0" % (c1, c2, c3, c4, w, a)
    nfbr = 6000 if tier == "quick" else 300000
    for _ in range(nfbr):
        ncb = rnd.randint(1, 4)
        toks = ["F"]
        for k in range(ncb):
            acts = []
            for _ in range(rnd.randint(1, 3)):
                r = rnd.random()
                if r < 0.45:
                    acts.append("k%d" % rnd.choice(SIGS))
                elif r < 0.65:
                    acts.append("c%d" % rnd.randrange(6))
                elif r < 0.8:
                    acts.append("l%d:%d" % (rnd.choice([0, 2]), rnd.randrange(k + 1, ncb + 1)))
                else:
                    acts.append("-")
            toks.append("cb%d=%s" % (k, ",".join(acts)))
        for _ in range(rnd.randint(4, 12)):
            r = rnd.random()
            if r < 0.3:
                toks.append("ws%d:%d:%d" % (rnd.choice(SIGS), rnd.choice([0, 2]), rnd.randrange(ncb + 1)))
            elif r < 0.4:
                toks.append("l%d:%d" % (rnd.choice([0, 2]), rnd.randrange(ncb + 1)))
            elif r < 0.6:
                toks.append("k%d" % rnd.choice(SIGS))
            elif r < 0.68:
                toks.append("B%d" % rnd.choice(SIGS))
            elif r < 0.75:
                toks.append("c%d" % rnd.randrange(6))
            else:
                toks.append("r0")
        toks += ["r0", "r0", "r0"]
        yield " ".join(toks)
    info["fallback_cases"] = nfb + nfbr
    n += nfb
    # ---- structured random
    rnd = random.Random(seed * 7919 + 18)
    nrand = 30000 if tier == "quick" else 1500000
    kinds = {}

    def act(ncb, own, maxid, for_sig):
        def target():
            return rnd.randrange(own + 1, ncb + 1) if own >= 0 else rnd.randrange(ncb + 1)
        r = rnd.random()
        if r < 0.2:
            return "e%d" % rnd.choice(ERRNOS)
        if r < 0.45:
            return "c%d" % rnd.randrange(maxid)
        if r < 0.6:
            return "wi%d:%d:%d:%d" % (rnd.randrange(4), rnd.choice([1, 2, 3, 5]), rnd.choice([0, 2]), target())
        if r < 0.72:
            return "l%d:%d" % (rnd.choice([0, 2]), target())
        if r < 0.84:
            return "k%d" % rnd.choice(SIGS)
        if r < 0.92:
            return "ws%d:%d:%d" % (rnd.choice(SIGS + HISIGS), rnd.choice([0, 2]), target())
        if r < 0.96:
            return "s"
        return "-"

    for _ in range(nrand):
        ncb = rnd.randint(1, 4)
        # callbacks with an even number are free of signal registrations and are the ones
        # signal watches use
        sig_ok = [k for k in range(ncb + 1) if k % 2 == 0 or k == ncb]

        def sigcb(k):
            c = [x for x in sig_ok if x >= k]
            return c[0] if c else ncb
        maxid = rnd.choice([4, 6, 10])
        toks = []
        for k in range(ncb):
            toks.append("cb%d=%s" % (k, ",".join(act(ncb, k, maxid, k % 2 == 0) for _ in range(rnd.randint(1, 3)))))
        nops = rnd.randint(4, 12)
        kind = []
        for _ in range(nops):
            r = rnd.random()
            if r < 0.2:
                toks.append("ws%d:%d:%d" % (rnd.choice(SIGS + HISIGS), rnd.choice([0, 2]), rnd.randrange(ncb + 1)))
            elif r < 0.35:
                toks.append("wi%d:%d:%d:%d" % (rnd.randrange(4), rnd.choice([1, 2, 3, 5]), rnd.choice([0, 2]), rnd.randrange(ncb + 1)))
            elif r < 0.45:
                toks.append("l%d:%d" % (rnd.choice([0, 2]), rnd.randrange(ncb + 1)))
            elif r < 0.55:
                toks.append("k%d" % rnd.choice(SIGS + HISIGS)); kind.append("k")
            elif r < 0.62:
                toks.append("K%d" % rnd.choice(SIGS + HISIGS)); kind.append("K")
            elif r < 0.72:
                toks.append("R%d:%d" % (rnd.randrange(4), rnd.choice([1, 4, 5, 8, 16, 17, 32, 2, 63]))); kind.append("R")
            elif r < 0.78:
                toks.append("c%d" % rnd.randrange(maxid))
            elif r < 0.93:
                toks.append("r0")
            elif r < 0.96:
                toks.append("u%d" % rnd.randint(1, 3)); kind.append("u")
            else:
                toks.append("o")
        toks += ["r0", "r0"]
        kk = "".join(sorted(set(kind))) or "none"
        kinds[kk] = kinds.get(kk, 0) + 1
        yield " ".join(toks)
    info["random_cases"] = nrand
    info["random_kinds"] = kinds


def _events(obs):
    ev = []
    for t in obs.split():
        if t[0] == "e":
            try:
                ev.append(tuple(int(x) for x in t[1:].split(":")))
            except ValueError:
                return None
        elif t[0] != "p":
            return None
    return ev


def classify(case, obs):
    ev = _events(obs)
    if ev is None:
        return ("crash", obs.split()[0] if obs else "")
    fired = [e for e in ev if e[2] == 1 and e[1] in (2, 3)]
    if not fired:
        return None
    toks = case.split()
    arrive = tuple(sorted(set(t[0] for t in toks if t[0] in "kKRBFu" and not t.startswith("cb"))))
    if toks and toks[0] == "F":
        # which callbacks raise signals (arrival during dispatch / from a deferred callback)
        arrive += tuple(sorted(set("cbk" for t in toks if t.startswith("cb") and "k" in t.split("=", 1)[1])))
    cbacts = set()
    for t in toks:
        if t.startswith("cb"):
            for a in t.split("=", 1)[1].split(","):
                cbacts.add(a[:2] if a[0] == "w" else a[0])
    return (arrive, tuple(sorted(cbacts)), tuple(sorted(set((e[1], e[5]) for e in fired))), min(len(fired), 5))


def shrink(case):
    toks = case.split()
    keep = 1 if toks and toks[0] == "F" else 0      # the loop selector is not a shrinkable token
    for i in range(keep, len(toks)):
        yield " ".join(toks[:i] + toks[i + 1:])
    for i, t in enumerate(toks):
        if t.startswith("cb") and "," in t:
            head, acts = t.split("=", 1)
            al = acts.split(",")
            for j in range(len(al)):
                yield " ".join(toks[:i] + [head + "=" + (",".join(al[:j] + al[j + 1:]) or "-")] + toks[i + 1:])
