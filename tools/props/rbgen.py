"""rbgen.py -- drawing-program generators shared by C03, C04 and C13 (render buffer).

A program is a list of op strings ("txa 0 2 41.42", "sv", ...) in the syntax of
ocaml/rb_common.ml.  The random generator keeps a light shadow of the auxiliary state
(translation, nesting depth, cursor) so that most operations land inside the buffer, and a
list of `marks' -- columns where earlier operations began or ended -- from which the next
operation's edges are drawn, so that new spans start inside, end inside, exactly cover or
abut existing spans (the case split of make_span).
"""
import hashlib
import os
import re

from tables import width as _width

REPO = os.environ.get("VERIF_REPO", "/repo")

# East Asian wide ranges hard-coded in mk_wcwidth (src/unicode.h), as Utf8Spec.wide_ranges
WIDE_RANGES = [(0x1100, 0x115f), (0x2329, 0x232a), (0x2e80, 0x303e), (0x3040, 0xa4cf), (0xac00, 0xd7a3),
               (0xf900, 0xfaff), (0xfe10, 0xfe19), (0xfe30, 0xfe6f), (0xff00, 0xff60), (0xffe0, 0xffe6),
               (0x20000, 0x2fffd), (0x30000, 0x3fffd)]


def _load_tables():
    """the library's own width tables, parsed from the CURRENT sources with the translator's parser"""
    uh = open(os.path.join(REPO, "src", "unicode.h")).read()
    m = re.search(r"static\s+const\s+struct\s+interval\s+combining\s*\[\s*\]\s*=\s*\{(.*?)\}\s*;", uh, re.S)
    combining = _width.parse_pairs(m.group(1), "combining[]")
    fw_txt, _ = _width.fullwidth_text(REPO)
    return combining, _width.parse_pairs(fw_txt, "fullwidth.inc")


COMBINING, FULLWIDTH = _load_tables()


def _in(c, table):
    return any(a <= c <= b for a, b in table)


_cpw_cache = {}


def cpw(c):
    """tickit_utf8_wcwidth as RBDefs.cpw: -1 for controls / DEL / code points outside 1..0x1FFFFF"""
    w = _cpw_cache.get(c)
    if w is None:
        if c <= 0 or c >= 0x200000 or c < 0x20 or 0x7f <= c < 0xa0:
            w = -1
        elif _in(c, FULLWIDTH):
            w = 2
        elif _in(c, COMBINING):
            w = 0
        elif _in(c, WIDE_RANGES):
            w = 2
        else:
            w = 1
        _cpw_cache[c] = w
    return w


ASCII = list(range(0x41, 0x5b)) + list(range(0x61, 0x7b)) + [0x20, 0x7e, 0x30, 0x39]
LATIN = [0xe9, 0xa1, 0xff, 0xc0, 0xa0, 0xad]          # incl. NBSP and SOFT HYPHEN (width 1)
COMB = [0x300, 0x301, 0x36f]
WIDE = [0xff21, 0xff22, 0xff01, 0xff60]
BAD = [0x01, 0x1f, 0x7f, 0x80, 0x85, 0x9f]  # C0 / DEL / C1: tickit_utf8_ncount rejects the string


def _boundaries():
    """every end of every interval of the three tables and its outer neighbour, by width"""
    pools = {0: set(), 1: set(), 2: set()}
    for table in (COMBINING, FULLWIDTH, WIDE_RANGES):
        for a, b in table:
            for c in (a - 1, a, b, b + 1):
                w = cpw(c)
                if w >= 0:
                    pools[w].add(c)
    # more of every encoded length and class: Hangul medials / finals (0), ZWSP (0), Hangul initial and
    # syllable (2), CJK (2), emoji and plane-2 ideograph (4 bytes, 2), 4-byte narrow, the last code
    # point four bytes encode, surrogates and noncharacters as the decoder sees them (1)
    for c in (0x1160, 0x11a8, 0x11ff, 0x200b, 0x1100, 0xac00, 0x4e00, 0x30ce, 0x1f3e0, 0x20000, 0x3fffd,
              0x10000, 0x1d11e, 0x10ffff, 0x1fffff, 0xd800, 0xdfff, 0xfffd, 0xffff, 0x7ff, 0x800, 0x2500, 0x257f):
        w = cpw(c)
        if w >= 0:
            pools[w].add(c)
    return {w: sorted(v) for w, v in pools.items()}


EXOTIC = _boundaries()


def text_tok(cps):
    return ".".join("%x" % c for c in cps) if cps else "-"


def rand_text(rnd, maxcols, mix="any"):
    """code points with total width <= maxcols (at least one character unless maxcols == 0)"""
    cps, w = [], 0
    want = rnd.randint(1, max(1, maxcols))
    while w < want:
        r = rnd.random()
        if mix == "ascii" or r < 0.5:
            c = rnd.choice(ASCII)
        elif r < 0.58:
            c = rnd.choice(LATIN)
        elif r < 0.70:
            c = rnd.choice(WIDE)
        elif r < 0.80:
            c = rnd.choice(COMB)
        else:
            c = rnd.choice(EXOTIC[rnd.choice([0, 1, 2, 2])])
        if w + cpw(c) > maxcols and cpw(c) > 0:
            if w + 1 <= maxcols:
                c = rnd.choice(ASCII)
            else:
                break
        cps.append(c)
        w += cpw(c)
    if cps and rnd.random() < 0.25:
        cps.append(rnd.choice(COMB) if rnd.random() < 0.6 else rnd.choice(EXOTIC[0]))
    return cps


def _rgb(rnd):
    return "#%02x%02x%02x" % tuple(rnd.choice([0, 1, 0x7f, 0x80, 0xfe, 0xff, rnd.randint(0, 255)]) for _ in range(3))


def rand_pen(rnd):
    """all ten attributes over their representable values; colours with or without an RGB8 secondary"""
    r = rnd.random()
    if r < 0.08:
        return "-"
    s = ""
    if rnd.random() < 0.6:
        s += "f%d" % rnd.choice([1, 2, 3, 7, 15, 200, 255, 0, -1])
        if rnd.random() < 0.3:
            s += _rgb(rnd)
    if rnd.random() < 0.35:
        s += "b%d" % rnd.choice([0, 4, 5, 100, 255, -1])
        if rnd.random() < 0.3:
            s += _rgb(rnd)
    if rnd.random() < 0.3:
        s += "B%d" % rnd.choice([0, 1])
    if rnd.random() < 0.2:
        s += "u%d" % rnd.choice([0, 1, 2, 3])
    if rnd.random() < 0.12:
        s += "i%d" % rnd.choice([0, 1])
    if rnd.random() < 0.12:
        s += "r%d" % rnd.choice([0, 1])
    if rnd.random() < 0.1:
        s += "s%d" % rnd.choice([0, 1])
    if rnd.random() < 0.1:
        s += "a%d" % rnd.choice([-1, 0, 1, 9, 15])
    if rnd.random() < 0.1:
        s += "k%d" % rnd.choice([0, 1])
    if rnd.random() < 0.1:
        s += "z%d" % rnd.choice([0, 1, 2, 3])
    return s or "-"


class Shadow:
    def __init__(self, lines, cols):
        self.lines, self.cols = lines, cols
        self.xl = self.xc = 0
        self.stack = []          # saved (xl, xc, cursor_set) or None for pen-only
        self.cur = False
        self.marks = [0, cols]


def gen_program(rnd, lines, cols, nops, *, malformed=False, maxdepth=4, dump_prob=0.08, extra=None, style="mixed"):
    """returns (list of op strings, statistics dict).  `extra(rnd, sh)` may return an op string
    to splice in (used by C13/C04 for their own ops)."""
    sh = Shadow(lines, cols)
    ops = []
    kinds = {}

    def note(k):
        kinds[k] = kinds.get(k, 0) + 1

    def col():
        if rnd.random() < 0.6 and sh.marks:
            c = rnd.choice(sh.marks) + rnd.choice([0, 0, 0, 1, -1, 2, -2])
        else:
            c = rnd.randint(-3, cols + 3)
        return c

    def line():
        if rnd.random() < 0.9:
            return rnd.randint(0, lines - 1)
        return rnd.randint(-3, lines + 3)

    def width():
        r = rnd.random()
        if r < 0.1:
            return rnd.choice([0, -1, -5])
        if r < 0.6 and sh.marks:
            return None      # "to a mark"
        return rnd.randint(1, cols + 2)

    def span():
        """(buffer col, n) aimed at marks"""
        c = col()
        w = width()
        if w is None:
            e = rnd.choice(sh.marks) + rnd.choice([0, 0, 1, -1])
            if e <= c:
                c, e = e, c + 1
            w = e - c
        return c, w

    def mark(c, n):
        if n > 0:
            for m in (c, c + n):
                if -2 <= m <= cols + 2 and m not in sh.marks:
                    sh.marks.append(m)
            if len(sh.marks) > 12:
                del sh.marks[2:4]

    def rect():
        t = line() if rnd.random() < 0.8 else rnd.randint(-2, lines)
        h = rnd.choice([1, 1, 2, 2, 3, lines, 0, -1]) if rnd.random() < 0.9 else rnd.randint(0, lines + 2)
        c, w = span()
        return t, c, h, w

    for _ in range(nops):
        if extra is not None:
            e = extra(rnd, sh)
            if e:
                ops.append(e)
                note(e.split()[0])
                continue
        r = rnd.random()
        if style == "text-heavy":
            r = r * 0.5 if rnd.random() < 0.6 else r
        if r < 0.22:
            c, _ = span()
            t = rand_text(rnd, rnd.randint(1, max(1, min(cols + 2, 12))))
            if malformed and rnd.random() < 0.3:
                t.insert(rnd.randint(0, len(t)), rnd.choice(BAD))
            l = line()
            ops.append("txa %d %d %s" % (l - sh.xl, c - sh.xc, text_tok(t)))
            mark(c, sum(max(0, cpw(x)) for x in t)); note("txa")
        elif r < 0.32:
            c, w = span(); l = line()
            ops.append("era %d %d %d" % (l - sh.xl, c - sh.xc, w)); mark(c, w); note("era")
        elif r < 0.38:
            c, w = span(); l = line()
            ops.append("ska %d %d %d" % (l - sh.xl, c - sh.xc, w)); mark(c, w); note("ska")
        elif r < 0.45:
            c = col(); l = line()
            cp = rnd.choice(ASCII + LATIN) if rnd.random() < 0.8 else rnd.choice(WIDE + COMB + EXOTIC[rnd.choice([0, 1, 2])] + (BAD if malformed else []))
            ops.append("cha %d %d %x" % (l - sh.xl, c - sh.xc, cp)); mark(c, max(1, cpw(cp))); note("cha")
        elif r < 0.51:
            c, w = span(); l = line()
            e = c + w - 1 if rnd.random() < 0.9 else c - rnd.randint(0, 2)
            ops.append("hl %d %d %d %d %d" % (l - sh.xl, c - sh.xc, e - sh.xc, rnd.randint(1, 3), rnd.randint(0, 3)))
            mark(c, w); note("hl")
        elif r < 0.56:
            c = col(); l1 = line(); l2 = l1 + rnd.choice([0, 1, 1, 2, 3, -1, lines])
            ops.append("vl %d %d %d %d %d" % (l1 - sh.xl, l2 - sh.xl, c - sh.xc, rnd.randint(1, 3), rnd.randint(0, 3)))
            mark(c, 1); note("vl")
        elif r < 0.60:
            t, c, h, w = rect()
            ops.append("%s %d %d %d %d" % (rnd.choice(["skr", "err"]), t - sh.xl, c - sh.xc, h, w)); mark(c, w); note("rect")
        elif r < 0.61:
            ops.append("clr"); note("clr")
        elif r < 0.68:
            ops.append("pen %s" % ("null" if rnd.random() < 0.05 else rand_pen(rnd))); note("pen")
        elif r < 0.72:
            l = line(); c = col()
            ops.append("go %d %d" % (l - sh.xl, c - sh.xc)); sh.cur = True; note("go")
        elif r < 0.82:
            # cursor-relative ops (mostly with a cursor)
            if not sh.cur and rnd.random() < 0.85:
                l = line(); c = col()
                ops.append("go %d %d" % (l - sh.xl, c - sh.xc)); sh.cur = True
            k = rnd.random()
            if k < 0.4:
                t = rand_text(rnd, rnd.randint(1, max(1, min(cols, 8))))
                if malformed and rnd.random() < 0.3:
                    t.insert(rnd.randint(0, len(t)), rnd.choice(BAD))
                ops.append("tx %s" % text_tok(t)); note("tx")
            elif k < 0.55:
                ops.append("er %d" % rnd.choice([1, 2, 3, cols, 0, -1, rnd.randint(1, cols + 2)])); note("er")
            elif k < 0.65:
                ops.append("sk %d" % rnd.choice([1, 2, 3, 0, -2, rnd.randint(1, cols + 2)])); note("sk")
            elif k < 0.75:
                ops.append("ert %d" % (col() - sh.xc)); note("ert")
            elif k < 0.85:
                ops.append("skt %d" % (col() - sh.xc)); note("skt")
            else:
                ops.append("ch %x" % (rnd.choice(ASCII + LATIN) if rnd.random() < 0.75 else rnd.choice(WIDE + COMB + EXOTIC[rnd.choice([0, 1, 2])] + (BAD if malformed else [])))); note("ch")
        elif r < 0.86:
            if len(sh.stack) < maxdepth:
                if rnd.random() < 0.65:
                    ops.append("sv"); sh.stack.append((sh.xl, sh.xc, sh.cur)); note("sv")
                else:
                    ops.append("sp"); sh.stack.append(None); note("sp")
            else:
                ops.append("rs"); note("rs")
                f = sh.stack.pop()
                if f: sh.xl, sh.xc, sh.cur = f
        elif r < 0.91:
            if sh.stack or malformed or rnd.random() < 0.1:
                ops.append("rs"); note("rs")
                if sh.stack:
                    f = sh.stack.pop()
                    if f: sh.xl, sh.xc, sh.cur = f
            else:
                ops.append("ug"); sh.cur = False; note("ug")
        elif r < 0.94:
            t, c, h, w = rect()
            if rnd.random() < 0.5:
                h = max(h, 1); w = max(w, 2)
            ops.append("cl %d %d %d %d" % (t - sh.xl, c - sh.xc, h, w)); note("cl")
        elif r < 0.975:
            t, c, h, w = rect()
            ops.append("mk %d %d %d %d" % (t - sh.xl, c - sh.xc, max(h, 1), max(1, min(w, 4)))); mark(c, max(1, min(w, 4))); note("mk")
        elif r < 0.995:
            dl, dc = rnd.randint(-2, 2), rnd.randint(-3, 3)
            ops.append("tr %d %d" % (dl, dc)); sh.xl += dl; sh.xc += dc; note("tr")
        else:
            ops.append("rst"); note("rst")
            sh.xl = sh.xc = 0; sh.stack = []; sh.cur = False
        if rnd.random() < dump_prob:
            ops.append("D")
    return ops, kinds


def case_line(lines, cols, ops):
    return "%d %d %s" % (lines, cols, " ".join(ops))


def split_ops(tokens, arity):
    """tokens after the two size tokens -> list of op strings"""
    ops, i = [], 0
    while i < len(tokens):
        k = tokens[i]
        n = arity[k]
        ops.append(" ".join(tokens[i:i + 1 + n]))
        i += 1 + n
    return ops


ARITY = {"tr": 2, "cl": 4, "mk": 4, "pen": 1, "go": 2, "ug": 0, "sv": 0, "sp": 0, "rs": 0, "rst": 0,
         "ska": 3, "sk": 1, "skt": 1, "skr": 4, "txa": 3, "tx": 1, "era": 3, "er": 1, "ert": 1, "err": 4,
         "clr": 0, "cha": 3, "ch": 1, "hl": 5, "vl": 5, "D": 0, "slack": 1, "nb": 2, "buf": 1}


def shrink_case(case, arity=ARITY, keep_last=1):
    """smaller cases: drop one op; shorten a text; move numbers toward zero"""
    t = case.split()
    head, ops = t[:2], split_ops(t[2:], arity)
    n = len(ops)
    # drop halves, then single ops (never the last `keep_last` ops)
    body, tail = ops[:n - keep_last], ops[n - keep_last:]
    if len(body) > 3:
        h = len(body) // 2
        yield " ".join(head + body[h:] + tail)
        yield " ".join(head + body[:h] + tail)
    for i in range(len(body)):
        yield " ".join(head + body[:i] + body[i + 1:] + tail)
    for i, op in enumerate(ops):
        f = op.split()
        for j in range(1, len(f)):
            a = f[j]
            if "." in a and f[0] in ("txa", "tx"):
                cps = a.split(".")
                for k in range(len(cps)):
                    g = list(f); g[j] = ".".join(cps[:k] + cps[k + 1:]) or "-"
                    yield " ".join(head + ops[:i] + [" ".join(g)] + ops[i + 1:])
            elif a.lstrip("-").isdigit() and f[0] not in ("cha", "ch"):
                v = int(a)
                for nv in (0, v // 2, v - 1 if v > 0 else v + 1):
                    if f[0] in ("hl", "vl") and j == 4 and nv < 1:
                        continue      # style 0 is not a TickitLineStyle (its glyph is NUL, which the mock terminal cannot print)
                    if f[0] == "nb" and nv < 1:
                        continue      # tickit_renderbuffer_new(n, 0) writes cells[line][0] of an empty allocation: outside the domain
                    if nv != v:
                        g = list(f); g[j] = str(nv)
                        yield " ".join(head + ops[:i] + [" ".join(g)] + ops[i + 1:])
    # smaller buffer
    L, C = int(head[0]), int(head[1])
    if L > 1: yield " ".join([str(L - 1), head[1]] + ops)
    if C > 1: yield " ".join([head[0], str(C - 1)] + ops)


def classify_case(case, obs):
    """class = (set of op keywords, shape of the last dump's span structure)"""
    t = case.split()
    kws = tuple(sorted(set(x for x in t[2:] if x in ARITY or x.isalpha() and not x.isdigit() and len(x) <= 5 and x.islower())))
    i = obs.rfind("}{")
    j = obs.rfind("D{")
    if j < 0:
        return None
    raw = obs[j:].split("}{")
    if len(raw) < 3:
        return ("odd", kws)
    shape = "".join(ch for ch in raw[1] if ch in "STECLH/m")
    if set(shape) <= set("SC/") and "d0" in raw[0]:
        return None
    return (kws, hashlib.md5(shape.encode()).hexdigest()[:8])
