"""C05 -- rectangle set = union of what was added minus what was subtracted (src/rectset.c)."""
import itertools
import random

ID = "C05"
ML = "mC05"
HARNESS = "harness/C05.c"
SRCS = ["rect.c"]          # rectset.c is #included by the harness (fan-out copies the struct)
EXCLUDE = ["rectset.c"]
LEVEL = "proof"
CASE_TIMEOUT = 0.5
RULE = ("case = one history of add/subtract/translate/clear over a fresh TickitRectSet, with the array dumped after every "
        "operation, contains/intersects queries (single or every rectangle of a grid) and fan-outs (every add and/or subtract of "
        "every rectangle of a grid tried on a byte copy of the current set).  Compared: exact arrays and query answers, "
        "C vs extracted model; the extracted specification checker (reference region by fold over the history, cell-wise with "
        "coordinate compression; non-empty, disjoint, sorted; exact queries) judges the C's own output.  Exhaustive part: see "
        "generator.exhaustive_scope.  A case is non-trivial when some operation meets a non-empty set; distinct = distinct "
        "(operation-kind word up to 8 letters, largest array length seen (cap 8), query answer kinds seen).")
ASSUMPTIONS = ["no int overflow (|coordinate| < 2^30)",
               "every rectangle passed to add/subtract/contains/intersects is non-empty (lines > 0, cols > 0), as the property states",
               "malloc/realloc do not fail"]
TRUSTED = ["model coq/RectSetDefs.v hand-written after src/rectset.c (on coq/RectDefs.v = src/rect.c); "
           "spec oracle coq/RectSetSpec.v (reference region folded over the history, coordinate-compressed cell test); "
           "harness/C05.c copies the struct TickitRectSet byte-wise for fan-outs"]


def grid(lo, hi):
    return [(t, l, b - t, r - l) for t in range(lo, hi) for b in range(t + 1, hi + 1)
            for l in range(lo, hi) for r in range(l + 1, hi + 1)]


def fmt(kind, r):
    return "%s %d %d %d %d" % (kind, r[0], r[1], r[2], r[3])


# ------------------------------------------------------------------------------------------
# random histories

def near(rnd, r):
    """A rectangle placed relative to r so as to hit a branch boundary of tickit_rectset_add."""
    t, l, h, w = r
    k = rnd.randrange(14)
    if k == 0:   return (t, l + w, h, rnd.randint(1, 3))                 # same band, touching right
    if k == 1:   ww = rnd.randint(1, 3); return (t, l - ww, h, ww)       # same band, touching left
    if k == 2:   return (t + h, l, rnd.randint(1, 3), w)                 # same column, touching below
    if k == 3:   hh = rnd.randint(1, 3); return (t - hh, l, hh, w)       # same column, touching above
    if k == 4:   return (t + h, l + w, rnd.randint(1, 2), rnd.randint(1, 2))   # corner-adjacent
    if k == 5:   hh = rnd.randint(1, 2); return (t - hh, l + w, hh, rnd.randint(1, 2))
    if k == 6:   return (t + rnd.randint(-1, 1), l + rnd.randint(-1, 1), h, w)  # shifted copy
    if k == 7:   return (t, l + rnd.randint(1, max(1, w)), h, w)         # same band, overlapping/touching right
    if k == 8:   return (t + rnd.randint(1, max(1, h)), l, h, w)         # same column, overlapping/touching below
    if k == 9:   # nested
        hh = rnd.randint(1, h); ww = rnd.randint(1, w)
        return (t + rnd.randint(0, h - hh), l + rnd.randint(0, w - ww), hh, ww)
    if k == 10:  return (t - 1, l - 1, h + 2, w + 2)                     # enclosing
    if k == 11:  return (t + rnd.randint(0, h - 1), l + w, rnd.randint(1, 3), rnd.randint(1, 3))  # touching right, other band
    if k == 12:  return (t + h, l + rnd.randint(-2, w), rnd.randint(1, 3), rnd.randint(1, 3))     # touching below, other column
    return (t + rnd.randint(-2, h), l + rnd.randint(-2, w), rnd.randint(1, 4), rnd.randint(1, 4))  # partial overlap


def fix(r):
    t, l, h, w = r
    return (t, l, max(1, h), max(1, w))


def random_history(rnd, nops, span, base, kinds):
    toks = []
    seen = []
    oy, ox = base
    for _ in range(nops):
        x = rnd.random()
        if x < 0.04:
            d, r = rnd.randint(-3, 3), rnd.randint(-3, 3)
            toks.append("T %d %d" % (d, r)); kinds["T"] += 1
            seen = [(a + d, b + r, c, e) for (a, b, c, e) in seen]
            oy += d; ox += r
            continue
        if x < 0.06:
            toks.append("C"); kinds["C"] += 1
            continue
        if seen and rnd.random() < 0.6:
            r = fix(near(rnd, rnd.choice(seen)))
        else:
            r = (oy + rnd.randint(0, span), ox + rnd.randint(0, span), rnd.randint(1, 1 + span // 2), rnd.randint(1, 1 + span // 2))
        seen.append(r)
        kind = "A" if rnd.random() < 0.68 else "S"
        kinds[kind] += 1
        toks.append(fmt(kind, r))
        y = rnd.random()
        if y < 0.35:
            q = fix(near(rnd, rnd.choice(seen))) if rnd.random() < 0.7 else \
                (oy + rnd.randint(-1, span), ox + rnd.randint(-1, span), rnd.randint(1, span), rnd.randint(1, span))
            toks.append(fmt("Q", q)); kinds["Q"] += 1
        elif y < 0.40:
            lo = min(oy, ox) + rnd.randint(-1, 2)
            toks.append("G %d %d" % (lo, lo + 4)); kinds["G"] += 1
    if rnd.random() < 0.5:
        lo = min(oy, ox) + rnd.randint(-1, 2)
        toks.append("G %d %d" % (lo, lo + 5)); kinds["G"] += 1
    return " ".join(toks)


def lattice_history(rnd, kinds):
    """Rectangles aligned to a coarse lattice (so that equal column ranges stacked vertically and equal
    row ranges side by side are the norm), added in random order, then thin holes that cross several
    members -- aims at the index bookkeeping of tickit_rectset_subtract (members sliding below the loop
    index while remainders are re-added) and at multi-stretch restarts of tickit_rectset_add."""
    oy, ox = rnd.choice([(0, 0), (-3, -4), (50000, -50000)])
    ys = [0, 1, 2, 3, 4, 5]
    xs = rnd.choice([[0, 1, 2, 3, 4], [0, 2, 3, 5, 6], [0, 1, 3, 4, 6]])
    toks = []
    nadd = rnd.randint(3, 9)
    blocks = []
    for _ in range(nadd):
        a = rnd.randrange(len(ys) - 1); b = a + 1 if rnd.random() < 0.7 else rnd.randint(a + 1, len(ys) - 1)
        c = rnd.randrange(len(xs) - 1); d = c + 1 if rnd.random() < 0.7 else rnd.randint(c + 1, len(xs) - 1)
        blocks.append((oy + ys[a], ox + xs[c], ys[b] - ys[a], xs[d] - xs[c]))
    order = rnd.random()
    if order < 0.3:
        blocks.sort(key=lambda r: (-r[0], r[1]))      # bottom-up
    elif order < 0.5:
        blocks.sort(key=lambda r: (r[1], -r[0]))
    for r in blocks:
        toks.append(fmt("A", r)); kinds["A"] += 1
    for _ in range(rnd.randint(1, 3)):
        if rnd.random() < 0.5:      # thin horizontal hole
            t = oy + rnd.randint(0, 4); l = ox + rnd.randint(-1, 2)
            hole = (t, l, 1, rnd.randint(2, 8))
        else:                       # thin vertical hole
            t = oy + rnd.randint(-1, 2); l = ox + rnd.randint(0, 5)
            hole = (t, l, rnd.randint(2, 6), 1)
        toks.append(fmt("S", hole)); kinds["S"] += 1
        if rnd.random() < 0.3:
            r = rnd.choice(blocks)
            toks.append(fmt("A", r)); kinds["A"] += 1
    lo = min(oy, ox) - 1
    toks.append("G %d %d" % (lo, lo + 5)); kinds["G"] += 1
    return " ".join(toks)


# ------------------------------------------------------------------------------------------

def gen(tier, seed, info):
    g4 = grid(0, 4)            # 100 rectangles with edges in {0..4}
    g3 = grid(0, 3)            # 36
    ops4 = [(k, r) for k in "AS" for r in g4]
    ops3 = [(k, r) for k in "AS" for r in g3]
    n = 0
    states = 0
    # depth 1 and 2 on the 4x4 grid, all 100 queries after every operation
    for o1 in ops4:
        n += 1; states += 1
        yield fmt(*o1) + " G 0 4"
    for o1 in ops4:
        for o2 in ops4:
            n += 1; states += 2
            yield fmt(*o1) + " " + fmt(*o2) + " G 0 4"
    scope = ["every history of <=2 operations from {add,subtract} x the 100 rectangles with edges in {0..4} (4x4 cells), "
             "each followed by contains+intersects queries for all 100 rectangles"]
    # depth 3: fan-out of the third operation
    if tier == "quick":
        for r1 in g4:
            for r2 in g4:
                n += 1; states += 100
                yield fmt("A", r1) + " " + fmt("A", r2) + " FA 0 4"
        scope.append("all 10^6 three-add histories on 4x4 cells (third add as a fan-out)")
        for o1 in ops3:
            for o2 in ops3:
                n += 1; states += 72
                yield fmt(*o1) + " " + fmt(*o2) + " FB 0 3"
        scope.append("every history of 3 operations from {add,subtract} x the 36 rectangles on 3x3 cells")
    else:
        for o1 in ops4:
            for o2 in ops4:
                n += 1; states += 200
                yield fmt(*o1) + " " + fmt(*o2) + " FB 0 4"
        scope.append("every history of 3 operations from {add,subtract} x 100 rectangles on 4x4 cells (8*10^6, third operation as a fan-out)")
        for o1 in ops3:
            for o2 in ops3:
                for o3 in ops3:
                    n += 1; states += 72
                    yield fmt(*o1) + " " + fmt(*o2) + " " + fmt(*o3) + " FB 0 3 G 0 3"
        scope.append("every history of 4 operations from {add,subtract} x 36 rectangles on 3x3 cells (2.7*10^7), queries after the third")
    # translate / clear at each position of short histories
    tc = 0
    pool = [(0, 0, 2, 2), (1, 1, 2, 2), (0, 2, 2, 1), (2, 0, 1, 3), (0, 0, 1, 4), (1, 0, 3, 1)]
    for a in pool:
        for b in pool:
            for k2 in "AS":
                for mid in ("T 1 -2", "T -3 0", "C", "T 0 0"):
                    for pos in range(3):
                        seq = [fmt("A", a), fmt(k2, b)]
                        seq.insert(pos, mid)
                        tc += 1; n += 1
                        yield " ".join(seq) + " G -3 3 " + fmt("A", (0, 0, 1, 1)) + " G -1 3"
    scope.append("translate/clear inserted at each position of %d two-operation histories" % (tc // 12))
    info["exhaustive"] = True
    info["exhaustive_scope"] = "; ".join(scope)
    info["exhaustive_cases"] = n
    info["exhaustive_states_checked"] = states

    rnd = random.Random(seed * 7919 + 5)
    nshort, nlong, nlat = (6000, 600, 6000) if tier == "quick" else (300000, 20000, 300000)
    kinds = {k: 0 for k in "ASTCQG"}
    for _ in range(nlat):
        yield lattice_history(rnd, kinds)
    bases = [(0, 0), (-4, -6), (100000, -100000), (-7, 3)]
    for _ in range(nshort):
        yield random_history(rnd, rnd.randint(3, 9), rnd.choice([3, 4, 5]), rnd.choice(bases), kinds)
    for _ in range(nlong):
        yield random_history(rnd, rnd.randint(10, 40), rnd.choice([4, 6, 8]), rnd.choice(bases), kinds)
    info["random_cases"] = nshort + nlong + nlat
    info["random_lattice_cases"] = nlat
    info["random_command_kinds"] = kinds
    info["random_distribution"] = ("histories of 3-9 and 10-40 operations; 60% of rectangles placed relative to an earlier one "
                                   "(touching in the same band/column, corner-adjacent, shifted, overlapping, nested, enclosing), "
                                   "the rest uniform in a small window; windows at 4 origins incl. negative and +-10^5; 68% add, 32% "
                                   "subtract, 4% translate, 2% clear; queries after 40% of operations; plus lattice histories: 3-9 adds of "
                                   "lattice-aligned blocks (stacked equal column ranges, adjacent equal row ranges) in random / bottom-up "
                                   "order followed by 1-3 thin row or column holes and a grid of queries")


def commands(case):
    t = case.split()
    out, i = [], 0
    while i < len(t):
        k = t[i]
        n = 5 if k in ("A", "S", "Q") else 3 if k in ("T", "G", "FA", "FS", "FB") else 1
        out.append(t[i:i + n]); i += n
    return out


def classify(case, obs):
    cmds = commands(case)
    word = "".join(c[0][0] for c in cmds if c[0] in ("A", "S", "T", "C"))
    if len(word) < 2:
        return None
    segs = obs.split(" ; ")
    biggest = 0
    qk = set()
    for c, s in zip(cmds, segs):
        if c[0] in ("A", "S", "T", "C"):
            try:
                biggest = max(biggest, int(s.split()[0]))
            except (ValueError, IndexError):
                return ("odd", s[:20])
        elif c[0] == "Q":
            qk.add(s)
    return (word[:8], min(biggest, 8), tuple(sorted(qk)))


def shrink(case):
    cmds = commands(case)
    join = lambda cs: " ".join(" ".join(c) for c in cs)
    # 1. expand a fan-out / grid query into its single alternatives
    for i, c in enumerate(cmds):
        if c[0] in ("FA", "FS", "FB"):
            g = grid(int(c[1]), int(c[2]))
            ks = {"FA": "A", "FS": "S", "FB": "AS"}[c[0]]
            for k in ks:
                for r in g:
                    yield join(cmds[:i] + [fmt(k, r).split()] + cmds[i + 1:])
            return
    for i, c in enumerate(cmds):
        if c[0] == "G":
            for r in grid(int(c[1]), int(c[2])):
                yield join(cmds[:i] + [fmt("Q", r).split()] + cmds[i + 1:])
            yield join(cmds[:i] + cmds[i + 1:])
            return
    # 2. drop commands
    for i in range(len(cmds)):
        if len(cmds) > 1:
            yield join(cmds[:i] + cmds[i + 1:])
    # 3. shrink numbers
    for i, c in enumerate(cmds):
        if c[0] in ("A", "S", "Q"):
            v = list(map(int, c[1:]))
            for j in range(4):
                for nv in (0, v[j] // 2, v[j] - 1 if v[j] > 0 else v[j] + 1):
                    if nv != v[j] and (j < 2 or nv > 0):
                        w = list(v); w[j] = nv
                        yield join(cmds[:i] + [[c[0]] + list(map(str, w))] + cmds[i + 1:])
        elif c[0] == "T":
            v = list(map(int, c[1:]))
            for j in range(2):
                if v[j] != 0:
                    w = list(v); w[j] = 0
                    yield join(cmds[:i] + [["T"] + list(map(str, w))] + cmds[i + 1:])
