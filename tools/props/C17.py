"""C17 -- timers and deferred callbacks (src/tickit.c watch queues, tickit_evloop_invoke_timers)."""
import itertools
import random

ID = "C17"
ML = "mC17"
HARNESS = "harness/C17.c"
SRCS = None
EXTRA_LD = ["-Wl,--wrap=ppoll", "-Wl,--wrap=gettimeofday", "-Wl,--wrap=read", "-Wl,--wrap=waitpid"]
LEVEL = "proof"
CASE_TIMEOUT = 0.02
RULE = ("case = callback table + script over the real toplevel instance (default event loop, mock terminal) under a "
        "virtual clock: register timers (deadline past / now / future relative to the clock, microseconds), deferred "
        "callbacks, IO / signal / process watches, cancel, from the program and from inside callbacks, and cancels whose "
        "UNBIND notification itself registers replacement watches (ub tables: re-entrancy of tickit_watch_cancel); NOHANG ticks after "
        "a clock advance and sleeping ticks; destruction at the end.  Observation = every callback invocation "
        "(id, kind, event flags, iteration, clock, deadline) and every ppoll time-out.  Exhaustive part: all scripts of "
        "two or three registrations from a 16-letter alphabet with one callback of <= 2 actions from a 10-letter "
        "alphabet, followed by a fixed tick pattern.  A case is non-trivial when some callback ran; distinct = distinct "
        "(multiset of op kinds, nested action kinds, what happened: nested registration kinds by deadline class, "
        "cancel target state, destroy notifications).")
ASSUMPTIONS = ["no int overflow in time arithmetic (deadlines within +-2^30 us of the clock)",
               "a callback cancels only watches that are still live (not yet invoked with UNBIND, not cancelled), and not itself while it runs",
               "malloc does not fail", "a nested tickit_tick from inside a callback and DESTROY handlers that register / cancel watches are covered by the separate executable model coq/LoopNest.v (cases WN: correspondence and witnesses), not by the general theorems; a DESTROY handler acts only on watches of kinds destroyed later; the application holds one reference and may drop it anywhere (script action d): "
               "the instance then dies when the running tickit_tick returns (fixes/C18-tick-holds-reference.patch) and the script ends"]
TRUSTED = ["model coq/LoopDefs.v hand-written after src/tickit.c (with fixes/C17-*.patch applied); specification coq/LoopSpec.v "
           "(priority queue keyed by (deadline, registration number), snapshot semantics of an iteration)",
           "heap-level twin coq/LoopHeap.v (nodes at addresses, checked reads, alloc/free; proved fault- and leak-free, C17_heap_safe): "
           "its verdict (FAULT / LEAK) is part of the model's observation and is compared with ASan / the harness's heap-growth check",
           "harness/loopharness.h: link-time replacements of gettimeofday and ppoll (virtual clock, scripted ppoll)"]

DELTAS = [-1500, -1, 0, 1, 999, 1000, 1001, 2500]


def gen(tier, seed, info):
    n = 0
    # ---- exhaustive small scope
    regs = []
    for cb in (0, 1):
        for fl in (0, 6):
            regs += ["t-1000:%d:%d" % (fl, cb), "t0:%d:%d" % (fl, cb), "t1000:%d:%d" % (fl, cb), "l%d:%d" % (fl, cb)]
    nested = ["t-1000:2:0", "t0:2:0", "t1000:4:0", "l2:0", "c0", "c1", "c2", "c3", "wi0:1:4:0", "-"]
    scripts1 = [[]] + [[a] for a in nested] + [[a, b] for a in nested for b in nested]
    tails = ["r0 r0 r2000 o"]
    third = ["", "t0:2:1", "l2:1", "t500:0:0"]
    for a in regs:
        for b in regs:
            for c in third:
                if tier == "quick" and c and (regs.index(a) + regs.index(b)) % 3:
                    continue
                for sc in scripts1:
                    if tier == "quick" and len(sc) == 2 and c:
                        continue
                    n += 1
                    yield "cb1=%s %s %s %s %s" % (",".join(sc) or "-", a, b, c, tails[0])
    # ---- the application drops its reference (tickit_unref) from a timer / deferred callback, from an
    #      UNBIND notification, or between iterations: the instance must outlive the running tick
    ndrop = 0
    for a in ["t0:0:1", "t0:6:1", "l0:1", "l6:1", "t-1000:2:1"]:
        for b in ["t0:6:2", "t0:0:2", "l2:2", "t1000:6:2", "wi0:1:6:2", "ws10:6:2", "wp6:2"]:
            for c in ["", "t0:2:2", "l6:2", "t2000:4:2"]:
                for body in ["d", "d,t0:0:2", "c1,d", "d,c1", "l0:2,d", "d,d"]:
                    for tail in ["r0 r0", "r0 t0:0:2 r0", "o r0"]:
                        ndrop += 1
                        yield "cb1=%s cb2=- %s %s %s %s" % (body, a, b, c, tail)
    for v in ["t2000:2:1", "l2:1", "wi1:1:2:1", "ws10:2:1"]:
        for rest in ["t0:6:2 l6:2", "t1000:6:2"]:
            ndrop += 2
            yield "ub1=d,l0:2 cb2=- %s %s c0 r0 r0" % (v, rest)          # the drop happens inside an UNBIND notification, between ticks
            yield "ub1=d cb2=c0 cb3=- %s %s l0:2 t0:6:3 r0 r0" % (v, rest)  # ... inside one, during a tick
    for pre in ["t0:6:1 l6:1", "t1000:2:1 wi0:1:6:1", ""]:
        ndrop += 1
        yield "cb1=- %s d r0 t0:0:1" % pre                                # between iterations
    info["drop_reference_cases"] = ndrop
    n += ndrop
    # ---- chain cases (coq/LoopChain.v): the walks that run callbacks while they follow a chain --
    #      process watches (SIGCHLD dispatch with scripted waitpid, children that exited before
    #      their watch was registered, cancel of the own / next / previous watch from a callback,
    #      registration from a callback) and signal watches (direct dispatch)
    nch = 0
    pbody = ["-", "c0", "c1", "c2", "wp0:3", "wp1:3", "c1,wp2:3", "wp0:3,c2"]
    for regs in ["wp0:1 wp2:2", "wp2:1 wp6:2 wp0:2", "wp1:1 wp0:2 wp2:1"]:
        for b1 in pbody:
            for b2 in ["-", "c0", "c2"]:
                for ex in ["X0:1", "X0:1 X1:2", "X1:2 X0:1 X2:3", "X2:3", "X3:9 X0:1", "X3:9 X1:2 X0:1"]:
                    for tail in ["H r0 H", "H H r0", "r0 H c1 H"]:
                        nch += 1
                        yield "WP cb1=%s cb2=%s cb3=- %s %s %s" % (b1, b2, regs, ex, tail)
    for pre in ["X0:4", "X0:4 X1:5", "X1:5"]:
        for regs in ["wp2:1", "wp2:1 wp6:2", "wp6:1 wp2:2 wp0:1"]:
            for mid in ["", "c0", "c1", "H"]:
                for b1 in ["-", "c0", "c1", "wp0:3"]:
                    nch += 1
                    yield "WP cb1=%s cb2=- cb3=- %s %s %s r0 X2:6 H r0" % (b1, pre, regs, mid)
    sbody = ["-", "c0", "c1", "c2", "ws10:0:3", "ws10:1:3", "ws12:2:3", "c1,ws10:0:3", "ws10:1:3,c0"]
    for regs in ["ws10:0:1 ws10:2:2", "ws10:2:1 ws12:6:2 ws10:0:2", "ws12:1:2 ws10:0:1 ws10:6:1"]:
        for b1 in sbody:
            for b2 in ["-", "c0", "c2", "ws10:0:3"]:
                for tail in ["G10 G10", "G10 G12 G10", "G12 c1 G10"]:
                    nch += 1
                    yield "WS cb1=%s cb2=%s cb3=- %s %s" % (b1, b2, regs, tail)
    # ---- IO cases (coq/LoopIo.v): the dispatch of ready descriptors through the default loop's slot arrays while
    #      callbacks cancel (own / a later slot's / an earlier slot's watch) and register (reusing a freed slot)
    nio = 0
    ibody = ["-", "c0", "c1", "c2", "wi0:1:0:3", "wi1:1:6:3", "c1,wi1:1:0:3", "c2,wi0:1:2:3", "wi1:1:0:3,c0", "c0,c1"]
    for regs in ["wi0:1:0:1 wi1:1:2:2", "wi0:1:2:1 wi1:1:6:2 wi0:1:0:2", "wi1:1:1:2 wi0:1:0:1 wi1:1:6:1"]:
        for b1 in ibody:
            for b2 in ["-", "c0", "c2", "wi0:1:0:3"]:
                for tail in ["R0:1 R1:1 r0 R0:1 R1:1 r0", "R1:1 r0 R0:1 r0 R0:1 R1:1 r0", "R0:1 r0 c1 R0:1 R1:1 r0",
                             "r0 c0 wi0:1:4:3 R0:1 R1:1 r0"]:
                    nio += 1
                    yield "WI cb1=%s cb2=%s cb3=- %s %s" % (b1, b2, regs, tail)
    info["io_cases"] = nio
    n += nio
    # ---- objects that outlive the instance: wr = the application keeps a reference on the root window and uses the window
    #      after tickit_unref; zw = a terminal's place in the SIGWINCH observer list (observe A, B; stop A; observe A, C)
    nlt = 0
    for pre in ["", "t0:2:1 r0", "l2:1", "t1000:6:1 wi0:1:6:1 r0", "cb1=l0:2 t0:0:1 r0", "ws10:2:1 wp2:1"]:
        for tok in ["wr", "zw", "wr zw"]:
            nlt += 2
            yield "cb2=- %s %s" % (tok, pre)
            yield "cb2=- %s %s r0" % (pre, tok)
    info["lifetime_cases"] = nlt
    n += nlt
    # ---- the relative entry points (tickit_watch_timer_after_msec / _after_tv), delay 0 included: a deadline like any
    #      other -- in deadline order with the timers registered by absolute time, before the deferred callbacks
    nrel = 0
    for z in ["ta0:0:1", "tu0:0:1", "ta0:2:1", "tu1:0:1", "ta1:0:1", "tu999:6:1"]:
        for others in ["t500:0:2", "t0:0:2", "t500:0:2 l0:2", "t-10:0:2 t700:2:2", "l2:2 t1:0:2"]:
            for tail in ["r1000", "r0 r1000", "o o", "r0"]:
                nrel += 2
                yield "cb1=- cb2=- %s %s %s" % (z, others, tail)
                yield "cb1=- cb2=%s %s %s r0" % (z, others, tail)
    info["relative_timer_cases"] = nrel
    n += nrel
    # ---- nest cases (coq/LoopNest.v): a callback that runs a NESTED iteration (n) while other due watches wait their turn;
    #      DESTROY handlers (db<k>=...) that register / cancel watches of the kinds destroyed later
    nnest = 0
    for body in ["n", "n,t0:0:3", "t0:0:3,n", "l0:3,n", "n,n", "c1,n", "n,c2", "t-5:2:3,l2:3,n"]:
        for regs in ["t0:0:1 t0:0:2 t5000:0:2", "t0:0:2 t0:0:1 t1:0:2 t5000:2:2", "l0:1 t0:0:2 l0:2", "t0:0:1 l0:2 t0:2:2 l2:2",
                     "ta0:0:1 t0:6:2 l6:2 t900:0:2"]:
            for tail in ["r0 r10000", "r1 r0", "r1000 r0 r5000"]:
                nnest += 1
                yield "WN cb1=%s cb2=- cb3=- %s %s" % (body, regs, tail)
    for body in ["n", "n,l0:3"]:
        nnest += 1
        yield "WN cb1=%s cb2=n cb3=- t0:0:1 t0:0:2 t0:0:3 l0:3 r0 r0" % body          # a nested iteration inside a nested one
    DKIND = {"io": "wi0:1:%d:%d", "timer": "t5000:%d:%d", "later": "l%d:%d"}
    for first, firstfl in [("io", 4), ("io", 6), ("timer", 4), ("timer", 6)]:
        later_kinds = ["timer", "later"] if first == "io" else ["later"]
        for db in ["l4:3", "l6:3", "t9000:4:3", "t100:2:3", "c1", "c2", "c1,l4:3", "l0:3,c2", "c1,c2"]:
            if first == "timer" and "t" in db.replace("c", ""):
                continue                                  # registering into the list under destruction: outside the model
            for k2 in later_kinds:
                for fl2 in (2, 4, 6, 0):
                    victims = "%s %s" % (DKIND[k2] % (fl2, 2) if k2 != "later" else "l%d:2" % fl2, "l6:2")
                    nnest += 1
                    yield "WN db1=%s cb2=- cb3=- %s %s r0" % (db, DKIND[first] % (firstfl, 1) if first != "later" else "", victims) if False else \
                          "WN db1=%s cb2=- cb3=- %s %s" % (db, DKIND[first] % (firstfl, 1), victims)
    info["nest_cases"] = nnest
    n += nnest
    info["chain_cases"] = nch
    n += nch
    # ---- cancel whose UNBIND notification registers a replacement (re-entrancy of tickit_watch_cancel)
    nub = 0
    repl = ["t-500:0:0", "t0:0:0", "t500:0:0", "t1500:2:0", "t2500:0:0", "t3500:0:0", "l0:0", "l1:0", "l3:0", "wi0:1:4:0",
            "t1500:0:0,t1600:0:0", "l1:0,t1500:0:0"]
    victims = [("t2000:2:1", "timer"), ("t2000:6:1", "timer"), ("l2:1", "later"), ("l3:1", "later-first"), ("wi1:1:2:1", "io"),
               ("ws10:2:1", "sig"), ("wp2:1", "proc")]
    before = ["", "t1000:0:0", "t1000:0:0 t3000:0:0", "l0:0", "t2000:0:0", "l0:0 t1000:0:0"]
    for rp in repl:
        for (v, _) in victims:
            for bf in before:
                nb = len(bf.split())
                for after in ("", "t3000:0:0", "l0:0"):
                    for how in ("top", "cb"):
                        nub += 1
                        if how == "top":
                            # the program cancels the victim
                            yield "ub1=%s %s %s %s c%d r0 r1200 r1000 r1000 r1000" % (rp, bf, v, after, nb)
                        else:
                            # a deferred callback (cb2) cancels the victim during an iteration
                            yield "ub1=%s cb2=c%d %s %s %s l0:2 r0 r1200 r1000 r1000 r1000" % (rp, nb, bf, v, after)
    n += nub
    info["unbind_reentrancy_cases"] = nub
    info["exhaustive"] = True
    info["exhaustive_scope"] = ("registrations a,b from %d letters x optional third from %d x callback script of <= 2 actions "
                                "from %d letters x ticks 'r0 r0 r2000 o' (quick: thinned when a third registration is present)"
                                % (len(regs), len(third), len(nested)))
    info["exhaustive_cases"] = n
    # ---- structured random scripts
    rnd = random.Random(seed * 7919 + 17)
    nrand = 30000 if tier == "quick" else 1500000
    kinds = {}

    def fl():
        return rnd.choice([0, 0, 2, 4, 6]) | (1 if rnd.random() < 0.1 else 0)

    def act(ncb, own, maxid, rearm):
        """own = index of the callback this action belongs to (-1: the program).  Callbacks
        refer to higher-numbered callbacks only (number ncb = does nothing), so that the number
        of watches stays bounded; a 're-arming' callback has exactly one registration, which
        may refer to any callback, itself included."""
        def target():
            if own < 0 or rearm:
                return rnd.randrange(ncb + 1)
            return rnd.randrange(own + 1, ncb + 1)
        r = rnd.random()
        if r < 0.35:
            return "t%d:%d:%d" % (rnd.choice(DELTAS), fl(), target())
        if r < 0.55:
            return "l%d:%d" % (fl(), target())
        if r < 0.85:
            return "c%d" % rnd.randrange(maxid)
        if r < 0.95:
            return rnd.choice(["wi%d:1:%d:0" % (rnd.randrange(4), fl()), "ws10:%d:0" % fl(), "wp%d:0" % fl()])
        return "-"

    for _ in range(nrand):
        r = rnd.random()
        kind = "plain" if r < 0.15 else ("nested" if r < 0.55 else ("rearm" if r < 0.85 else "hostile"))
        kinds[kind] = kinds.get(kind, 0) + 1
        ncb = 0 if kind == "plain" else rnd.randint(1, 3)
        maxid = rnd.choice([4, 6, 10])
        toks = []
        for k in range(ncb):
            if kind == "rearm":
                reg = act(ncb, k, maxid, True)
                while reg[0] not in "tl":
                    reg = act(ncb, k, maxid, True)
                acts = [reg] + ["c%d" % rnd.randrange(maxid) for _ in range(rnd.randint(0, 2))]
                rnd.shuffle(acts)
            else:
                acts = [act(ncb, k, maxid, False) for _ in range(rnd.randint(1, 3))]
            toks.append("cb%d=%s" % (k, ",".join(acts)))
            if rnd.random() < 0.35:
                # what the callback registers when it is told of its cancellation
                regs = []
                for _ in range(rnd.randint(1, 2)):
                    rr = rnd.random()
                    tgt = rnd.randrange(k + 1, ncb + 1)
                    if rr < 0.6:
                        regs.append("t%d:%d:%d" % (rnd.choice(DELTAS), fl(), tgt))
                    elif rr < 0.9:
                        regs.append("l%d:%d" % (fl(), tgt))
                    else:
                        regs.append("wi%d:1:%d:0" % (rnd.randrange(4), fl()))
                toks.append("ub%d=%s" % (k, ",".join(regs)))
        nops = rnd.randint(3, 8 if kind != "hostile" else 12)
        for _ in range(nops):
            r = rnd.random()
            if r < 0.55:
                toks.append(act(ncb, -1, maxid, False))
            elif r < 0.85:
                toks.append("r%d" % rnd.choice([0, 0, 1, 999, 1000, 1500, 3000]))
            else:
                toks.append("o")
        toks.append("r0")
        yield " ".join(toks)
    info["random_cases"] = nrand
    info["random_kinds"] = kinds
    info["deadline_classes"] = "delta in %s us relative to the clock at registration" % DELTAS


def _events(obs):
    ev = []
    for t in obs.split():
        if t[0] == "e":
            try:
                ev.append(tuple(int(x) for x in t[1:].split(":")))
            except ValueError:
                return None
    return ev


def classify(case, obs):
    ev = _events(obs)
    if ev is None:
        return ("crash", obs.split()[0] if obs else "")
    if not any(e[2] & 1 for e in ev):
        return None
    toks = case.split()
    cbs = [t for t in toks if t.startswith("cb") or t.startswith("ub")]
    nested = tuple(sorted(set(a[0] + ("<" if a[0] == "t" and a[1] == "-" else "") for t in cbs for a in t.split("=", 1)[1].split(",") if a)))
    ops = tuple(sorted(set(t[0] for t in toks if not t.startswith("cb") and not t.startswith("ub")))) + (("ub",) if any(t.startswith("ub") for t in toks) else ())
    fired_by_kind = tuple(sorted(set((e[1], e[2]) for e in ev)))
    same_iter = max((sum(1 for e in ev if e[3] == it and e[2] & 1) for it in set(e[3] for e in ev)), default=0)
    return (ops, nested, fired_by_kind, min(same_iter, 4))


def shrink(case):
    toks = case.split()
    keep = 1 if toks and toks[0] in ("WP", "WS", "WI", "WN") else 0      # the model selector is not a shrinkable token
    for i in range(keep, len(toks)):
        yield " ".join(toks[:i] + toks[i + 1:])
    for i, t in enumerate(toks):
        if (t.startswith("cb") or t.startswith("ub")) and "," in t:
            head, acts = t.split("=", 1)
            al = acts.split(",")
            for j in range(len(al)):
                yield " ".join(toks[:i] + [head + "=" + (",".join(al[:j] + al[j + 1:]) or "-")] + toks[i + 1:])
