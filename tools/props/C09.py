"""C09 -- xterm driver output has exactly the requested effect on a VT-conformant screen
(src/termdriver-xterm.c goto_abs / move_rel / print / erasech / clear / scrollrect)."""
import atexit
import os
import random
import subprocess

ID = "C09"
ML = "mC09"
HARNESS = "harness/C09.c"
SRCS = None
DRIVER_PARTS = ["xt_util.ml", "drv_C09.ml"]
LEVEL = "proof"
CASE_TIMEOUT = 0.2
RULE = ("case = screen size, probed capabilities (slrm = the DECRPM value 0..4 the terminal answers the DECLRMM query with, colon, rgb) and a sequence of requests (goto, move, print / printn / printf, "
        "erasech, clear, scrollrect, chpen/setpen to switch reverse video and background); the implementation's bytes "
        "per request are compared exactly with the model's and are interpreted by the extracted VT screen, whose state "
        "is checked against the direct meaning of the request.  A case is non-trivial when at least one request wrote "
        "bytes; distinct = distinct (slrm, branch tags of the requests) where a tag names the branch of the driver "
        "taken (CUP/VPA/CHA forms, 1 vs n forms, scroll strategy x rectangle position against the four screen edges x "
        "signs, erase strategy x moveend x whether it ends at the right edge).")
ASSUMPTIONS = [
    "no int overflow (|values| < 2^30)",
    "requests are in range: cursor targets on screen; printed text is printable ASCII that fits in the line; an erase "
    "stays within the line (strictly inside it when the cursor must end after it) and starts from a cursor that is not in "
    "the pending-wrap state; a scrolled rectangle lies on the screen with |downward| < lines and |rightward| < cols",
    "the terminal starts in its power-on state (no margins, autowrap on, default rendition) and answers the "
    "DECLRMM query truthfully: DECRPM 1 / 2 (set / reset) or 3 (permanently set) = CSI ?69h took effect and DECSLRM is honoured; "
    "0 (not recognised) or 4 (permanently reset) = it did not and CSI Pl;Pr s is ignored (the oracle's screen is configured so)",
]
TRUSTED = [
    "coq/VT.v: hand-written specification of a VT-conformant screen (DEC STD 070 / xterm ctlseqs reading of CUP, VPA, CHA, "
    "CUU/CUD/CUF/CUB, ECH, ED, EL, ICH, DCH, IL, DL, DECIC, DECDC, DECSTBM, DECSLRM, SGR, DECSET/DECRST, pending wrap)",
    "coq/Csi.v: ECMA-48 lexer used to read the implementation's bytes",
    "coq/XtermSpec.v: the direct (grid-level) meaning of each request; 'blank' = a space whose visible background is the "
    "current one (erase) / a space (scroll, clear)",
    "models coq/XtermDefs.v, coq/TermPenDefs.v hand-written after src/termdriver-xterm.c, src/term.c, src/pen.c",
]

FINDING_RV_EDGE = "C09-erasech-rv-right-edge"
VERIF = os.path.dirname(os.path.dirname(os.path.dirname(os.path.abspath(__file__))))

SIZES = [(1, 1), (1, 4), (2, 2), (3, 5), (5, 10), (4, 7), (6, 3), (5, 1), (24, 80), (3, 140)]


# ---- the logical cursor, as the caller of the driver would track it
class Cur:
    def __init__(self, lines, cols):
        self.lines, self.cols = lines, cols
        self.row, self.col, self.pend = 0, 0, False   # after start(): CHA 1 on the first line
        self.rv = False
        self.known = True

    def apply(self, op):
        f = op.split(":")
        k = f[0]
        if k == "G":
            l, c = int(f[1]), int(f[2])
            if l != -1: self.row = l
            if c != -1: self.col = c
            if l != -1 or c != -1: self.pend = False
            if self.known is False and l != -1 and c != -1: self.known = True
        elif k == "M":
            self.row += int(f[1]); self.col += int(f[2]); self.pend = False if (int(f[1]) or int(f[2])) else self.pend
        elif k in ("P", "p", "n", "f"):
            n = 0 if f[1] == "-" else len(f[1]) // 2
            if k == "n":
                n = int(f[2])          # printn writes the first len bytes; nothing for length 0
            if n:
                if self.col + n >= self.cols: self.col, self.pend = self.cols - 1, True
                else: self.col += n
        elif k == "E":
            n, me = int(f[1]), int(f[2])
            if n >= 1:
                if me == 1: self.col += n
                elif me == -1: self.known = False
        elif k == "S":
            self.known = False
        elif k in "cs":
            for item in f[1].split(","):
                if item.startswith("rv="): self.rv = item[3:] != "0"
            if k == "s" and "rv=" not in f[1]: self.rv = False


def hexs(s):
    return "".join("%02x" % ord(c) for c in s) or "-"


def rects(lines, cols):
    for t in range(lines):
        for b in range(t + 1, lines + 1):
            for l in range(cols):
                for r in range(l + 1, cols + 1):
                    yield (t, l, b - t, r - l)


def scroll_tag(slrm, lines, cols, op):
    _, t, l, h, w, d, r = op.split(":")
    t, l, h, w, d, r = map(int, (t, l, h, w, d, r))
    right = l + w
    if d == 0 and r == 0: strat = "nop"
    elif ((slrm and h == 1) or right == cols) and d == 0: strat = "ichdch" + ("+lr" if right < cols else "")
    elif slrm or (l == 0 and w == cols and r == 0):
        strat = "margins" + ("+lr" if (l > 0 or right < cols) else "") + ("!1col" if (l > 0 or right < cols) and w < 2 else "")
    else: strat = "fail"
    mag = lambda v: 0 if v == 0 else (1 if v == 1 else -1 if v == -1 else 2 if v > 0 else -2)
    return ("S", strat, t == 0, l == 0, t + h == lines, right == cols, mag(d), mag(r))


def op_tag(slrm, lines, cols, cur, op):
    f = op.split(":")
    k = f[0]
    mag = lambda v: 0 if v == 0 else (1 if v == 1 else -1 if v == -1 else 2 if v > 0 else -2)
    if k == "G":
        l, c = int(f[1]), int(f[2])
        return ("G", l == -1, -1 if c == -1 else 0 if c == 0 else 1, cur.pend)
    if k == "M": return ("M", mag(int(f[1])), mag(int(f[2])))
    if k in ("P", "p"): return (k, cur.col + (0 if f[1] == "-" else len(f[1]) // 2) >= cols)
    if k == "f":
        n = 0 if f[1] == "-" else len(f[1]) // 2
        return ("f", n if 60 <= n <= 68 else min(n, 2) if n < 60 else 69, cur.col + n >= cols)
    if k == "n": return ("n", int(f[2]) == 0, int(f[2]) == (0 if f[1] == "-" else len(f[1]) // 2))
    if k == "O": return ("O", min(int(f[1]), 65))
    if k == "E":
        n = int(f[1])
        return ("E", cur.rv, int(f[2]), 0 if n < 1 else 1 if n == 1 else 2 if n <= 64 else 3 if n <= 128 else 4,
                cur.col + n == cols)
    if k == "S": return scroll_tag(slrm, lines, cols, op)
    return (k,)


def _gen(tier, seed, info):
    rnd = random.Random(seed * 7919 + 9)
    quick = tier == "quick"
    counts = {"scroll_exhaustive": 0, "goto_move_sweep": 0, "erase_sweep": 0, "random_seq": 0, "malformed": 0}

    # 1. every rectangle of a small screen x every in-range offset pair x both scroll capabilities,
    #    on a patterned screen (each cell distinct), single request per case
    for (lines, cols) in ((4, 5), (3, 3), (1, 4), (5, 1), (2, 2)):
        for slrm in (0, 1):
            for (t, l, h, w) in rects(lines, cols):
                for d in range(-(h - 1), h):
                    for r in range(-(w - 1), w):
                        counts["scroll_exhaustive"] += 1
                        yield "%d %d %d 0 0 S:%d:%d:%d:%d:%d:%d" % (lines, cols, slrm, t, l, h, w, d, r)
    info["exhaustive"] = True
    info["exhaustive_scope"] = ("scrollrect: all rectangles x all in-range (downward, rightward) on screens 4x5, 3x3, 1x4, "
                                "5x1, 2x2, with and without DECSLRM; goto/move: all targets in {-1,0,1,n-1}^2 from corner, "
                                "middle and pending-wrap positions; erasech: counts {0,1,2,3,63,64,65,128,129,130} x "
                                "moveend x reverse video x start columns incl. ending at the right edge")
    # 2. goto / move from several start states (incl. pending wrap)
    for (lines, cols) in ((5, 10), (1, 1), (2, 2), (24, 80)):
        starts = ["", "G:%d:%d" % (lines // 2, cols // 2), "G:%d:%d" % (lines - 1, cols - 1),
                  "G:0:%d P:%s" % (max(0, cols - 2), hexs("ab"[:min(2, cols)]))]
        for st in starts:
            for l in sorted({-1, 0, 1, lines - 1} & set(range(-1, lines))):
                for c in sorted({-1, 0, 1, cols - 1} & set(range(-1, cols))):
                    counts["goto_move_sweep"] += 1
                    yield ("%d %d 1 0 0 %s G:%d:%d P:%s" % (lines, cols, st, l, c, hexs("x"))).replace("  ", " ")
        r0, c0 = lines // 2, cols // 2
        for d in sorted({-r0, -2, -1, 0, 1, 2, lines - 1 - r0}):
            for r in sorted({-c0, -2, -1, 0, 1, 2, cols - 1 - c0}):
                if 0 <= r0 + d < lines and 0 <= c0 + r < cols:
                    counts["goto_move_sweep"] += 1
                    yield "%d %d 0 0 0 G:%d:%d M:%d:%d P:%s" % (lines, cols, r0, c0, d, r, hexs("y"))
    # 3. erasech sweep
    for (lines, cols) in ((2, 6), (3, 140), (2, 200)):
        for rvpen in ("-", "rv=1", "rv=1,fg=2,bg=5", "bg=3", "rv=0,bg=1"):
            for n in (0, 1, 2, 3, 5, 63, 64, 65, 128, 129, 130):
                for me in (0, 1, -1):
                    for c in sorted({0, 1, cols - n - 1, cols - n}):
                        if c < 0 or c + n > cols or (me == 1 and c + n >= cols):
                            continue
                        counts["erase_sweep"] += 1
                        fill = "G:1:0 P:%s " % hexs("".join(chr(33 + i % 90) for i in range(cols)))
                        yield "%d %d 1 0 0 %sc:%s G:1:%d E:%d:%d G:0:0" % (lines, cols, fill, rvpen, c, n, me)
    # 3b. the public print calls and the output buffer: print (strlen), printn with every prefix length
    #     (length 0 must write nothing), buffer sizes around the write sizes
    for size in (0, 1, 2, 7, 64, 4096):
        for text in ("", "A", "Hello", "0123456789"):
            for ln in sorted({0, 1, len(text) // 2, len(text)}):
                if ln > len(text):
                    continue
                counts["print_buffer"] = counts.get("print_buffer", 0) + 1
                yield "2 12 1 0 0 O:%d G:1:1 p:%s G:0:0 n:%s:%d F c:rv=1 E:5:0 S:0:0:2:12:1:0 O:0 P:%s" % (
                    size, hexs(text), hexs(text), ln, hexs(text))
    # 3c. the DECLRMM probe answered with every DECRPM value (0 not recognised, 1 set, 2 reset, 3 permanently set,
    #     4 permanently reset): only 1 and 2 mean left/right margins can be used; every rectangle of a 3x4 screen
    for v in (0, 1, 2, 3, 4):
        for (t, l, h, w) in rects(3, 4):
            for d, r in ((0, 1), (0, -1), (1, 0), (-1, 0), (1, 1)):
                if abs(d) < h and abs(r) < w:
                    counts["decrpm69"] = counts.get("decrpm69", 0) + 1
                    yield "3 4 %d 0 0 S:%d:%d:%d:%d:%d:%d" % (v, t, l, h, w, d, r)
    # 3d. tickit_term_printf: results of every length around the internal scratch sizes (64-byte local buffers,
    #     the shared tmpbuffer), with and without an output buffer
    for n in list(range(0, 6)) + list(range(60, 70)) + [127, 128, 129, 255, 256, 257]:
        text = "".join(chr(33 + (i * 7) % 90) for i in range(n))
        for size in (0, 64):
            counts["printf_lengths"] = counts.get("printf_lengths", 0) + 1
            yield "2 300 1 0 0 O:%d G:1:0 f:%s G:0:0 f:%s p:%s" % (size, hexs(text), hexs(text[:5]), hexs(text[:3]))
    # 3e. the scratch buffer shared by erasech's blanks, the SGR encoder and printf: reverse-video erases with a pen
    #     change / a printf / a goto in between, short and long counts
    for n1 in (1, 5, 64, 65, 130):
        for n2 in (1, 3, 64, 70):
            for mid in ("c:b=1", "c:fg=3,bg=200", "s:rv=1,u=2", "c:fg=12#aabbcc", "f:" + hexs("xy"), "f:" + hexs("q" * 63),
                        "f:" + hexs("w" * 70), "G:1:2", "p:" + hexs("abc"), "c:b=1 f:" + hexs("zz")):
                counts["scratch_reuse"] = counts.get("scratch_reuse", 0) + 1
                yield "3 300 1 %d %d c:rv=1 G:0:0 E:%d:1 %s G:1:0 E:%d:1 G:2:0 E:%d:-1" % (
                    n1 % 2, n2 % 2, n1, mid, n2, n1)
    # 4. random in-range sequences
    nseq = 6000 if quick else 800000
    pens = ["-", "rv=1", "rv=0", "bg=4", "fg=1,bg=2,rv=1", "bg=200", "rv=1,bg=17#102030", "b=1,u=1", "bg=-1", "fg=9"]
    for _ in range(nseq):
        lines, cols = rnd.choice(SIZES)
        slrm, colon, rgb = rnd.choice([0, 1, 1, 2, 3, 4]), rnd.randint(0, 1), rnd.randint(0, 1)
        cur = Cur(lines, cols)
        ops = []
        malformed = rnd.random() < 0.08
        for _ in range(rnd.randint(1, 9)):
            kind = rnd.choice("GGMMPPpnfEEEKSSSScsOF")
            if not cur.known and kind in "MPpnfE":
                kind = "G"
            if kind == "G":
                l = rnd.choice([-1, 0, lines - 1, rnd.randrange(lines)])
                c = rnd.choice([-1, 0, cols - 1, rnd.randrange(cols)])
                if not cur.known: l, c = max(l, 0), max(c, 0)
                if malformed and rnd.random() < 0.3: l += lines
                op = "G:%d:%d" % (l, c)
            elif kind == "M":
                if cur.pend:
                    op = "G:%d:%d" % (cur.row, rnd.randrange(cols))
                else:
                    cr, cc = min(max(cur.row, 0), lines - 1), min(max(cur.col, 0), cols - 1)
                    d = rnd.choice([0, 1, -1, rnd.randint(-cr, lines - 1 - cr)])
                    r = rnd.choice([0, 1, -1, rnd.randint(-cc, cols - 1 - cc)])
                    if not (0 <= cur.row + d < lines): d = 0
                    if not (0 <= cur.col + r < cols): r = 0
                    if malformed and rnd.random() < 0.3: r += cols
                    op = "M:%d:%d" % (d, r)
            elif kind == "P":
                room = 0 if cur.pend else max(0, cols - cur.col)
                n = rnd.choice([0, 1, room, rnd.randint(0, room)]) if room else 0
                n = min(n, room)
                if malformed and rnd.random() < 0.3: n = room + 2
                op = "P:" + hexs("".join(chr(rnd.randint(33, 126)) for _ in range(n)))
            elif kind == "E":
                room = 0 if cur.pend else max(0, cols - cur.col)
                me = rnd.choice([0, 1, -1])
                n = rnd.choice([0, 1, 2, room, room - 1, rnd.randint(0, max(0, room))])
                n = max(0, min(n, room - 1 if me == 1 else room))
                if malformed and rnd.random() < 0.3: n = room + 3
                op = "E:%d:%d" % (n, me)
            elif kind in "pnf":
                room = 0 if cur.pend else max(0, cols - cur.col)
                text = "".join(chr(rnd.randint(33, 126)) for _ in range(rnd.choice([rnd.randint(0, room), min(room, rnd.randint(62, 66))])))
                if kind == "p":
                    op = "p:" + hexs(text)
                elif kind == "f":
                    op = "f:" + hexs(text)
                else:
                    ln = rnd.choice([len(text), len(text), rnd.randint(0, len(text))])
                    op = "n:%s:%d" % (hexs(text), ln)
            elif kind == "O":
                op = "O:%d" % rnd.choice([0, 1, 3, 8, 64, 1000])
            elif kind == "F":
                op = "F"
            elif kind == "K":
                op = "K"
            elif kind == "S":
                t = rnd.choice([0, rnd.randrange(lines)])
                l = rnd.choice([0, 0, rnd.randrange(cols)])
                h = rnd.choice([1, lines - t, rnd.randint(1, lines - t)])
                w = rnd.choice([cols - l, cols - l, rnd.randint(1, cols - l)])
                d = rnd.choice([0, 0, 1, -1, rnd.randint(-(h - 1), h - 1)])
                r = rnd.choice([0, 0, 1, -1, rnd.randint(-(w - 1), w - 1)])
                if abs(d) >= h: d = 0
                if abs(r) >= w: r = 0
                if malformed and rnd.random() < 0.3: d = h
                op = "S:%d:%d:%d:%d:%d:%d" % (t, l, h, w, d, r)
            else:
                op = kind + ":" + rnd.choice(pens)
            cur.apply(op)
            ops.append(op)
        counts["malformed" if malformed else "random_seq"] += 1
        yield "%d %d %d %d %d %s" % (lines, cols, slrm, colon, rgb, " ".join(ops))
    info["cases_by_kind"] = counts
    info["sizes"] = SIZES
    info["random_ops"] = "1..9 requests per case over goto/move/print/erasech/clear/scrollrect/chpen/setpen; 8% malformed (out-of-range arguments)"


def _walk(case):
    t = case.split()
    lines, cols, slrm = int(t[0]), int(t[1]), int(t[2]) in (1, 2)     # the DECRPM value: set / reset = available
    cur = Cur(lines, cols)
    for op in t[5:]:
        yield lines, cols, slrm, cur, op
        cur.apply(op)


def classify(case, obs):
    o = obs.split()
    if len(o) < 2 or all(x.endswith(":-") for x in o[1:]):
        return None
    t = case.split()
    tags = tuple(op_tag(slrm, lines, cols, cur, op) for lines, cols, slrm, cur, op in _walk(case))
    return (int(t[2]),) + tags[:4]


def triggers_rv_edge(case):
    """known finding: erasech under reverse video with moveend = NO that ends at the right edge"""
    for lines, cols, slrm, cur, op in _walk(case):
        f = op.split(":")
        if f[0] == "E" and cur.known and not cur.pend and cur.rv and int(f[2]) == 0 and int(f[1]) >= 1 \
                and cur.col + int(f[1]) == cols:
            return True
    return False


_co = None


def _excl_oracle(case, obs):
    """the extracted oracle with the trigger class of the finding treated as out of range"""
    global _co
    exe = os.path.join(VERIF, "build", ID, "drv")
    if _co is None or _co.poll() is not None:
        _co = subprocess.Popen([exe, "oracle-excl"], stdin=subprocess.PIPE, stdout=subprocess.PIPE)
        atexit.register(lambda: _co and _co.poll() is None and _co.kill())
    _co.stdin.write(("%s | %s\n" % (case, obs)).encode())
    _co.stdin.flush()
    return _co.stdout.readline().decode().strip()


def in_trigger_class(case):
    return triggers_rv_edge(case)


def explain(case, obs, findings):
    """attributed to the finding iff the case contains a request of its trigger class AND the extracted
    oracle finds nothing wrong when requests of the trigger class are left out of the judgement"""
    if not triggers_rv_edge(case):
        return None
    try:
        if _excl_oracle(case, obs).startswith("OK"):
            return FINDING_RV_EDGE
    except Exception:
        return None
    return None


def shrink(case):
    t = case.split()
    head, ops = t[:5], t[5:]
    for i in range(len(ops)):
        yield " ".join(head + ops[:i] + ops[i + 1:])
    for i, op in enumerate(ops):
        f = op.split(":")
        if f[0] in "GMES":
            for j in range(1, len(f)):
                try:
                    v = int(f[j])
                except ValueError:
                    continue
                for nv in (0, v // 2, v - 1 if v > 0 else v + 1):
                    if nv != v:
                        g = list(f); g[j] = str(nv)
                        yield " ".join(head + ops[:i] + [":".join(g)] + ops[i + 1:])


def gen(tier, seed, info):
    """cases outside the trigger class of the recorded finding first (stable), so that the first failing
    input reported for a broken tree is one that has nothing to do with the finding whenever such a case exists"""
    cases = list(_gen(tier, seed, info))
    cases.sort(key=in_trigger_class)
    return iter(cases)
