"""C16 -- handler lists (src/bindings.c): placeholder generator, replaced below."""
ID = "C16"
ML = "mC16"
HARNESS = "harness/C16.c"
SRCS = None
EXCLUDE = ["bindings.c"]
LEVEL = "proof"
RULE = "tbd"
ASSUMPTIONS = []
TRUSTED = []
CASE_TIMEOUT = 0.02

E = "0/0/-"
def line(mode, md, scripts, ops):
    return "%s %d %s %s" % (mode, md, " ".join(scripts), " ".join(ops))

def gen(tier, seed, info):
    yield line("D", 3, [E]*9, ["b1.0.0", "b1.1.1", "e1", "u1", "e1", "x"])
    yield line("D", 3, ["0/0/e1"] + [E]*8, ["b1.8.0", "e1", "e1"])
    yield line("D", 3, [E]*9, ["b2.8.0", "w2", "w2"])
    yield line("D", 3, [E, "0/0/u1"] + [E]*7, ["b1.2.0", "u1"])
    yield line("D", 3, [E]*5 + ["0/0/u1"] + [E]*3, ["b1.2.0", "b1.4.1", "x"])
    yield line("T", 3, [E]*9, ["b1.0.0", "b2.1.1", "e1", "w2", "u1", "e1", "x"])
    yield line("P", 3, [E]*9, ["b1.0.0", "b1.1.1", "e1", "u1", "e1", "x"])

def classify(case, obs):
    return case
