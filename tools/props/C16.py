"""C16 -- handler lists (src/bindings.c; users pen.c, term.c, window.c).

Case line (see harness/C16.c):
  <mode> <maxdepth> <s0F> <s0U> <s0X> <s1F> <s1U> <s1X> <s2F> <s2U> <s2X> <op>...
"""
import itertools
import random

ID = "C16"
ML = "mC16"
HARNESS = "harness/C16.c"
SRCS = None                  # the public-object modes need the whole library
EXCLUDE = ["bindings.c"]     # harness/C16.c #includes it (struct TickitBinding, allocation count)
LEVEL = "proof"
CASE_TIMEOUT = 0.02
RULE = ("case = (mode, depth limit, 3 handlers x 3 invocation kinds of scripts, top-level history); every case is run on "
        "the C (direct tickit_bindings_* calls, or a TickitTerm / TickitPen) and on the extracted model, traces and "
        "per-op list dumps are diffed, and the extracted monitor (BindSpec.verdict) judges the C's own trace. "
        "A case is non-trivial when at least one handler was invoked; distinct = distinct shapes of the observed trace "
        "(token kinds, invocation flags and depths, names and ids removed).")
ASSUMPTIONS = [
    "event numbers passed to bind/emit are >= 0 (they are enum values; -1 is the C's internal tombstone marker)",
    "destroy is issued at top level only: the statement lists bind, unbind and emit as what handlers may do; an object "
    "destroyed from inside one of its own handlers is freed under the running iteration (lifetime, C08)",
    "handlers are functions of the history so far (trace, handler, binding, flags) -- any such function is covered by the theorems; "
    "the correspondence check samples scripted ones",
]
TRUSTED = [
    "model coq/BindDefs.v hand-written after src/bindings.c (as patched by fixes/C16-*.patch); node identity = the data pointer "
    "the harness passes (k-th bind call gets name +k / -k)",
    "specification coq/BindSpec.v: the reference monitor over traces (plain list of live bindings, immediate removal) and its "
    "reading of 'newest first' = reverse list order (man/tickit.7)",
    "coq/BindAbs.v: the tombstone-free immediate-removal machine C16_refines refers to (relational, not run by the check)",
    "harness/C16.c scripted handlers and ocaml/drv_C16.ml environment implement the same scripts",
]

E = "0/0/-"


def script(acts, ret=0, once=0):
    return "%d/%d/%s" % (ret, once, ",".join(acts) if acts else "-")


def line(mode, md, scripts, ops):
    return "%s %d %s %s" % (mode, md, " ".join(scripts), " ".join(ops))


def scripts9(d):
    """d: {(hid, kind): script string}, kind in 'FUX'"""
    return [d.get((h, k), E) for h in range(3) for k in "FUX"]


def seqs(alpha, maxlen):
    for n in range(maxlen + 1):
        for t in itertools.product(alpha, repeat=n):
            yield list(t)


def public_ok(mode, toks):
    """can this history be driven through the public object of the mode?"""
    for t in toks:
        if t[0] == "e" and t != "e1":
            return False
        if t[0] == "w":
            if mode == "P" or t not in ("w2", "w3"):
                return False
        if t[0] == "b":
            ev = int(t[1:].split(".")[0])
            if ev < 0 or ev > (3 if mode == "T" else 1):
                return False
    return True


def all_toks(scripts, ops):
    out = list(ops)
    for s in scripts:
        a = s.split("/")[2]
        if a != "-":
            out += a.split(",")
    return out


def emit_variants(make):
    """make(ev, emit_op) -> iterator of (md, scripts, ops); yields lines for the run_event variant (event 1, e1) in modes
    D, T, P and for the run_event_whilefalse variant (event 2, w2) in modes D, T"""
    for ev, em, modes in ((1, "e1", "DTP"), (2, "w2", "DT")):
        for md, scripts, ops in make(ev, em):
            for mode in modes:
                yield line(mode, md, scripts, ops)


def gen(tier, seed, info):
    quick = tier == "quick"
    counts = {}

    def count(k, it):
        n = 0
        for x in it:
            n += 1
            yield x
        counts[k] = counts.get(k, 0) + n

    # ---- E1: flat histories (no scripts): every history of <= 4 top-level ops over
    #      bind (all 16 flag combinations) / unbind id 1..3 / emit / destroy
    def flat(ev, em):
        alpha = ["b%d.%d.%d" % (ev, f, f % 3) for f in range(16)] + ["u1", "u2", "u3", em, "x"]
        for ops in seqs(alpha, 4 if not quick else 3):
            if ops:
                yield 1, [E] * 9, ops
        if quick:   # length 4 with the flag combinations that matter pairwise
            alpha4 = ["b%d.%d.%d" % (ev, f, f % 3) for f in (0, 1, 2, 8, 11, 14)] + ["u1", "u2", em, "x"]
            for ops in itertools.product(alpha4, repeat=4):
                yield 1, [E] * 9, list(ops)
    yield from count("E1_flat", emit_variants(flat))

    # ---- E2: two or three bindings, then the event; the FIRE scripts of handler 0 (<= 2 actions)
    #      and handler 1 (<= 1 action) range over nested unbind / emit / bind
    def nested_fire(ev, em):
        fl = (0, 1, 2, 8, 9, 10) if quick else (0, 1, 2, 3, 8, 9, 10, 12, 15)
        nest = ["u1", "u2", "u3", em, "b%d.0.2" % ev, "b%d.1.2" % ev, "b%d.8.2" % ev, "b%d.10.2" % ev]
        other = "w%d" % ev if em[0] == "e" else "e%d" % ev
        for f0 in fl:
            for f1 in fl:
                for s0 in seqs(nest, 2):
                    for s1 in seqs(nest, 1):
                        if not s0 and not s1:
                            continue
                        sc = scripts9({(0, "F"): script(s0), (1, "F"): script(s1)})
                        yield 2, sc, ["b%d.%d.0" % (ev, f0), "b%d.%d.1" % (ev, f1), em, em]
        # three bindings, the middle one scripted, third handler idle
        for f0 in (0, 1, 8):
            for f1 in (0, 2, 8, 10):
                for f2 in (0, 1, 2, 8):
                    for s1 in seqs(nest + ["u4"], 2):
                        if s1:
                            sc = scripts9({(1, "F"): script(s1)})
                            yield 2, sc, ["b%d.%d.0" % (ev, f0), "b%d.%d.1" % (ev, f1), "b%d.%d.2" % (ev, f2), em]
        # whilefalse claims: handler return values
        for r0 in (0, 1):
            for r1 in (0, 1):
                for s0 in seqs(nest, 1):
                    sc = scripts9({(0, "F"): script(s0, ret=r0), (1, "F"): script([], ret=r1)})
                    for f0 in (0, 8):
                        yield 2, sc, ["b%d.%d.0" % (ev, f0), "b%d.0.1" % ev, em, em]
    yield from count("E2_nested_fire", emit_variants(nested_fire))

    # ---- E3: scripts run from UNBIND and DESTROY notifications
    def nested_notify(ev, em):
        nest = ["u1", "u2", "u3", em, "b%d.0.2" % ev, "b%d.1.2" % ev, "b%d.6.2" % ev, "b0.0.2"]
        for f0 in (2, 3, 6, 10):
            for f1 in (0, 2, 4, 8, 1):
                for s in seqs(nest, 2):
                    if not s:
                        continue
                    scu = scripts9({(0, "U"): script(s)})
                    scx = scripts9({(0, "X"): script(s), (1, "X"): script(s[:1])})
                    b = ["b%d.%d.0" % (ev, f0), "b%d.%d.1" % (ev, f1)]
                    for last in (["u1"], ["u2", "u1"], [em, "u1", em]):
                        yield 3, scu, b + last
                    yield 3, scx, b + ["x"]
                    yield 3, scx, list(reversed(b)) + ["x", em]
                    # a FIRE handler unbinds a binding whose UNBIND notification is scripted
                    scfu = scripts9({(1, "F"): script(["u1"]), (0, "U"): script(s)})
                    yield 3, scfu, b + [em, em]
    yield from count("E3_nested_notify", emit_variants(nested_notify))
    info["exhaustive"] = True
    info["exhaustive_scope"] = (
        "E1: every history of <=%d top-level ops over {bind with each of the 16 flag combinations, unbind id 1..3, emit, destroy}"
        "%s; E2: 2 bindings x flag sets x FIRE scripts of <=2 (handler 0) and <=1 (handler 1) nested actions over "
        "{unbind 1..3, emit, 4 binds}, 3 bindings with the middle one scripted, whilefalse return values; E3: UNBIND- and "
        "DESTROY-notification scripts of <=2 nested actions; each for the run_event variant (direct, TickitTerm resize, TickitPen change) "
        "and the run_event_whilefalse variant (direct, TickitTerm key)") % (
            3 if quick else 4, " plus all length-4 histories over 6 flag combinations" if quick else "")

    # ---- random deeper histories
    rnd = random.Random(seed * 104729 + 16)
    nrand = 60000 if quick else 3000000
    kinds = {"D": 0, "T": 0, "P": 0, "odd_ids_events": 0}

    def rand_case():
        mode = rnd.choice("DDDTTP")
        odd = rnd.random() < 0.08
        if mode == "D":
            evs = rnd.choice([[1], [1, 2], [0, 1, 2]])
            emits = ["e%d" % e for e in evs] + ["w%d" % e for e in evs]
        elif mode == "T":
            evs = rnd.choice([[1], [1, 2], [0, 1, 2, 3]])
            emits = [x for x in ("e1", "w2", "w3") if int(x[1]) in evs]
        else:
            evs = rnd.choice([[1], [0, 1]])
            emits = ["e1"]
        flagsets = rnd.choice([list(range(16)), [0, 1, 2, 8], [8, 9, 10, 11], [2, 4, 6, 0], [0]])
        ids = [1, 2, 3, 4] + ([0, -1, 7, 99] if odd else [])
        if odd and mode == "D":
            evs = evs + [5]
            emits = emits + ["e5", "w5"]
            flagsets = flagsets + [16, 31, 255]

        def act(top):
            r = rnd.random()
            if r < 0.34:
                return "b%d.%d.%d" % (rnd.choice(evs), rnd.choice(flagsets), rnd.randrange(3))
            if r < 0.56:
                return "u%d" % rnd.choice(ids)
            if r < 0.93 or not top:
                return rnd.choice(emits)
            return "x"
        d = {}
        for h in range(3):
            for k in "FUX":
                if rnd.random() < (0.55 if k == "F" else 0.3):
                    n = rnd.choice([1, 1, 2, 2, 3])
                    acts = [act(False) for _ in range(n)]
                    # a script that binds runs once per case: otherwise a handler appended during an occurrence
                    # is visited in it, binds again, ... without end (in the C as in the model)
                    once = 1 if (rnd.random() < 0.3 or any(a[0] == "b" for a in acts)) else 0
                    d[(h, k)] = script(acts, ret=1 if (k == "F" and rnd.random() < 0.25) else 0, once=once)
                elif k == "F" and rnd.random() < 0.2:
                    d[(h, k)] = script([], ret=1)
        nops = rnd.choice([3, 4, 5, 6, 8, 10])
        ops = [act(True) for _ in range(nops)]
        # make sure something is bound early and something is emitted
        ops[0] = "b%d.%d.%d" % (rnd.choice(evs), rnd.choice(flagsets), rnd.randrange(3))
        if rnd.random() < 0.7:
            ops.append(rnd.choice(emits))
        if rnd.random() < 0.3:
            ops.append("x")
        kinds[mode] += 1
        if odd:
            kinds["odd_ids_events"] += 1
        # keep the number of invocations small (the harness caps them at 3000): one emit at depth d invokes at most
        # f(d) = nb handlers, each of which (while d < depth limit) emits at most em times at depth d+1
        sc = scripts9(d)
        toks = all_toks(sc, ops)
        nb = max(1, sum(1 for x in toks if x[0] == "b"))
        em = max([sum(1 for a in x.split("/")[2].split(",") if a[0] in "ew") for x in sc] + [0])
        ne = max(1, sum(1 for x in ops if x[0] in "ewux"))

        def f(dep, lim):
            return nb if dep >= lim else nb * (1 + em * f(dep + 1, lim))
        md = rnd.choice([1, 2, 2, 3, 3, 4])
        while md > 1 and ne * f(0, md) > 2000:
            md -= 1
        if ne * f(0, md) > 2000:
            kinds[mode] -= 1
            if odd:
                kinds["odd_ids_events"] -= 1
            return rand_case()
        return line(mode, md, sc, ops)
    for _ in range(nrand):
        yield rand_case()
    info["exhaustive_cases"] = dict(counts)
    info["random_cases"] = nrand
    info["random_kinds"] = kinds
    info["distribution"] = ("random: 50% direct / 33% TickitTerm / 17% TickitPen; 3-11 top-level ops; each of the 9 scripts present with "
                            "probability 0.55 (FIRE) / 0.3 (UNBIND, DESTROY notifications), 1-3 nested actions, depth limit 1-4, 30% "
                            "run-once scripts, 25% of FIRE scripts claim the event; 8% of cases use ids never handed out (0, -1, 7, 99), "
                            "an event nobody emits publicly and flag words with undefined bits")


def classify(case, obs):
    toks = obs.split()
    if not any(t.startswith("C:") for t in toks):
        return None
    shape = []
    for t in toks[:40]:
        if t[0] == "C":
            p = t.split(":")
            shape.append("C%s@%s" % (p[2], p[3]))
        elif t[0] in "BUuEWeXxc":
            shape.append(t[0])
    return (case[0], " ".join(shape))


def shrink(case):
    t = case.split()
    head, scripts, ops = t[:2], t[2:11], t[11:]
    for i in range(len(ops)):
        if len(ops) > 1:
            yield " ".join(head + scripts + ops[:i] + ops[i + 1:])
    for i, s in enumerate(scripts):
        if s != E:
            yield " ".join(head + scripts[:i] + [E] + scripts[i + 1:] + ops)
            r, o, a = s.split("/")
            acts = a.split(",") if a != "-" else []
            for j in range(len(acts)):
                rest = acts[:j] + acts[j + 1:]
                yield " ".join(head + scripts[:i] + ["%s/%s/%s" % (r, o, ",".join(rest) if rest else "-")] + scripts[i + 1:] + ops)
            if o != "0":
                yield " ".join(head + scripts[:i] + ["%s/0/%s" % (r, a)] + scripts[i + 1:] + ops)
    if int(head[1]) > 1:
        yield " ".join([head[0], str(int(head[1]) - 1)] + scripts + ops)
    if head[0] != "D" :
        pass
