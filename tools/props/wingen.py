"""wingen.py -- case generation shared by the window-layer properties C01, C02, C14, C15.

A case line is  W <M|G> <lines> <cols> <policy> {PR..|CL..|MU..} <ops>  (see harness/win_harness.h).
The generator keeps a small shadow of the window tree so that most operations name live
windows; a separate share of cases deliberately names closed or never-created windows.
"""
import random

# number of integer arguments after the mnemonic
ARITY = {"N": 7, "X": 1, "S": 1, "H": 1, "R": 1, "RF": 1, "L": 1, "LB": 1, "G": 6, "MV": 4, "RZ": 4,
         "E": 5, "EA": 1, "F": 0, "SC": 3, "SK": 3, "SR": 7, "TR": 2, "TF": 1, "CP": 3, "CV": 2, "CS": 2,
         "CB": 2, "FN": 2, "ST": 2, "K": 0, "MS": 4, "CL": 2, "MU": 4, "BR": 2}
RACT_ARITY = {"ea": 1, "ex": 5, "sh": 1, "hi": 1, "ra": 1, "rf": 1, "lo": 1, "lb": 1, "xc": 1, "xd": 1, "fl": 1, "rg": 5}
DOP_ARITY = {"p": 0, "k": 0, "c": 2, "r": 4, "t": 3, "e": 3, "s": 3, "h": 3, "v": 3}


def split_case(case):
    """-> (header tokens, list of items); an item is a list of tokens (one op or one PR block)."""
    t = case.split()
    hdr, i, items = t[:5], 5, []
    while i < len(t):
        o = t[i]
        if o == "PR":
            n = int(t[i + 2])
            j = i + 3
            for _ in range(n):
                j += 1 + DOP_ARITY[t[j]]
            items.append(t[i:j]); i = j
        elif o in ("RA", "FA", "GA", "FC"):
            n = int(t[i + 2])
            j = i + 3
            for _ in range(n):
                j += 1 + RACT_ARITY[t[j]]
            items.append(t[i:j]); i = j
        else:
            n = ARITY[o]
            items.append(t[i:i + 1 + n]); i += 1 + n
    return hdr, items


def join_case(hdr, items):
    return " ".join(hdr + [x for it in items for x in it])


def shrink(case):
    """Delta-debugging candidates: drop one item, drop a PR's drawing op, shrink the terminal,
    make numbers smaller."""
    hdr, items = split_case(case)
    for k in range(len(items)):
        if items[k][0] == "F" and k == len(items) - 1:
            continue
        yield join_case(hdr, items[:k] + items[k + 1:])
    for k, it in enumerate(items):
        if it[0] == "PR" and int(it[2]) > 1:
            # drop each drawing op in turn
            j, dops = 3, []
            while j < len(it):
                n = DOP_ARITY[it[j]]
                dops.append(it[j:j + 1 + n]); j += 1 + n
            for d in range(len(dops)):
                rest = dops[:d] + dops[d + 1:]
                yield join_case(hdr, items[:k] + [["PR", it[1], str(len(rest))] + [x for dd in rest for x in dd]] + items[k + 1:])
    for k, it in enumerate(items):
        if it[0] in ("N", "G", "MV", "RZ", "E", "SC", "SK", "SR", "CP", "MS"):
            for a in range(2, len(it)):
                v = int(it[a])
                for nv in (0, v // 2, v - 1 if v > 0 else v + 1):
                    if nv != v:
                        it2 = list(it); it2[a] = str(nv)
                        yield join_case(hdr, items[:k] + [it2] + items[k + 1:])


class Shadow:
    """the generator's idea of which windows exist"""

    def __init__(self):
        self.parent = {0: None}
        self.live = [0]
        self.next_id = 1
        self.depth = {0: 0}

    def kids(self, w):
        return [x for x in self.live if self.parent.get(x) == w]

    def close(self, w):
        for k in self.kids(w):
            self.close(k)
        self.live.remove(w)


def rnd_rect(rnd, nl, nc, inside=False):
    if inside or rnd.random() < 0.5:
        h = rnd.randint(1, max(1, nl - 1)); w = rnd.randint(1, max(1, nc - 1))
        t = rnd.randint(0, max(0, nl - h)); l = rnd.randint(0, max(0, nc - w))
    else:
        h = rnd.randint(1, nl + 1); w = rnd.randint(1, nc + 2)
        t = rnd.randint(-2, nl); l = rnd.randint(-3, nc)
    return t, l, h, w


def history(rnd, nl, nc, nops, profile):
    """profile: dict of op kind -> weight; returns list of op strings.  Kinds:
    new close show hide restack geom expose flush scroll scrollrect scrollkids tresize
    focus cursor notify steal key mouse dead"""
    sh = Shadow()
    ops = []
    kinds = [k for k, w in profile.items() if w > 0]
    weights = [profile[k] for k in kinds]
    dims = {0: (nl, nc)}
    cur = [nl, nc]
    maxw = profile.get("_maxw", 7)
    noex = profile.get("_noexpose", 0.0)
    while len(ops) < nops:
        k = rnd.choices(kinds, weights)[0]
        nonroot = [w for w in sh.live if w != 0]
        anyw = lambda: rnd.choice(sh.live)
        if k == "new":
            if sh.next_id > maxw:
                continue
            cand = [w for w in sh.live if sh.depth[w] < 3]
            p = rnd.choice(cand) if rnd.random() < 0.6 else 0
            pl, pc = dims.get(p, (nl, nc))
            t, l, h, w = rnd_rect(rnd, pl, pc)
            fl = (1 if rnd.random() < 0.15 else 0) | (2 if rnd.random() < 0.3 else 0) | \
                 (4 if rnd.random() < 0.1 else 0) | (8 if rnd.random() < profile.get("_steal", 0.0) else 0)
            i = sh.next_id; sh.next_id += 1
            rp = 0 if fl & 4 else p
            sh.parent[i] = rp; sh.live.append(i); sh.depth[i] = sh.depth[rp] + 1; dims[i] = (h, w)
            ops.append("N %d %d %d %d %d %d %d" % (i, p, t, l, h, w, fl))
        elif k == "close" and nonroot:
            w = rnd.choice(nonroot); sh.close(w); ops.append("X %d" % w)
        elif k == "show" and nonroot:
            ops.append("S %d" % rnd.choice(nonroot))
        elif k == "hide" and nonroot:
            ops.append("H %d" % rnd.choice(nonroot))
        elif k == "restack" and nonroot:
            ops.append("%s %d" % (rnd.choice(["R", "RF", "L", "LB"]), rnd.choice(nonroot)))
        elif k == "geom" and nonroot:
            w = rnd.choice(nonroot)
            p = sh.parent[w]
            pl, pc = dims.get(p, (nl, nc))
            ex = 0 if rnd.random() < noex else 1
            m = rnd.random()
            if m < 0.4:
                t, l, h, ww = rnd_rect(rnd, pl, pc); dims[w] = (h, ww)
                ops.append("G %d %d %d %d %d %d" % (w, t, l, h, ww, ex))
            elif m < 0.75:
                ops.append("MV %d %d %d %d" % (w, rnd.randint(-2, pl), rnd.randint(-3, pc), ex))
            else:
                h, ww = rnd.randint(1, pl + 1), rnd.randint(1, pc + 2); dims[w] = (h, ww)
                ops.append("RZ %d %d %d %d" % (w, h, ww, ex))
        elif k == "expose":
            w = anyw()
            if rnd.random() < 0.3:
                ops.append("EA %d" % w)
            else:
                h, ww = dims.get(w, (nl, nc))
                ops.append("E %d %d %d %d %d" % (w, rnd.randint(-1, h), rnd.randint(-1, ww), rnd.randint(1, h + 1), rnd.randint(1, ww + 1)))
        elif k == "flush":
            ops.append("F")
        elif k in ("scroll", "scrollkids"):
            w = anyw()
            d, r = rnd.choice([(1, 0), (-1, 0), (0, 1), (0, -1), (2, 0), (0, -2), (1, 1), (-1, 2), (0, 0), (3, 0), (0, 5)])
            ops.append("%s %d %d %d" % ("SC" if k == "scroll" else "SK", w, d, r))
        elif k == "scrollrect":
            w = anyw()
            h, ww = dims.get(w, (nl, nc))
            d, r = rnd.choice([(1, 0), (-1, 0), (0, 1), (0, -1), (2, 0), (1, -1)])
            ops.append("SR %d %d %d %d %d %d %d" % (w, rnd.randint(-1, h - 1), rnd.randint(-1, ww - 1),
                                                   rnd.randint(1, h + 1), rnd.randint(1, ww + 1), d, r))
        elif k == "tresize":
            cur = [max(1, cur[0] + rnd.randint(-2, 2)), max(1, cur[1] + rnd.randint(-2, 2))]
            dims[0] = tuple(cur)
            ops.append("TR %d %d" % (cur[0], cur[1]))
        elif k == "focus":
            ops.append("TF %d" % anyw())
        elif k == "cursor":
            w = anyw(); h, ww = dims.get(w, (nl, nc))
            m = rnd.random()
            if m < 0.55:
                ops.append("CP %d %d %d" % (w, rnd.randint(-1, h), rnd.randint(-1, ww)))
            elif m < 0.75:
                ops.append("CV %d %d" % (w, rnd.randint(0, 1)))
            elif m < 0.9:
                ops.append("CS %d %d" % (w, rnd.randint(1, 3)))
            else:
                ops.append("CB %d %d" % (w, rnd.randint(0, 1)))
        elif k == "notify":
            ops.append("FN %d %d" % (anyw(), rnd.randint(0, 1)))
        elif k == "steal" and nonroot:
            ops.append("ST %d %d" % (rnd.choice(nonroot), rnd.randint(0, 1)))
        elif k == "key":
            ops.append("K")
        elif k == "mouse":
            ops.append("MS %d %d %d %d" % (rnd.choice([1, 1, 2, 2, 3, 4]), rnd.randint(1, 3), rnd.randint(0, cur[0] - 1), rnd.randint(0, cur[1] - 1)))
        elif k == "dead":
            # an operation on a window that is closed or was never created
            w = rnd.choice([x for x in range(1, maxw + 2) if x not in sh.live] or [maxw + 1])
            ops.append(rnd.choice(["S %d", "H %d", "R %d", "EA %d", "TF %d", "SC %d 1 0", "X %d"]) % w)
    return ops, sh


def header(rnd, nl, nc):
    m = rnd.random()
    if m < 0.3:
        return "W M %d %d K" % (nl, nc)
    pol = rnd.choice(["A", "A", "R", "K", "F", "S" + "".join(rnd.choice("01") for _ in range(6))])
    return "W G %d %d %s" % (nl, nc, pol)


def op_kinds(case):
    _, items = split_case(case)
    return tuple(sorted(set(it[0] for it in items)))
