"""C13 -- copyrect / moverect / blit preserve content cell for cell (src/renderbuffer.c copyrect)."""
import random
from props import rbgen

ID = "C13"
ML = "mC13"
HARNESS = "harness/C13.c"
SRCS = None
EXCLUDE = ["renderbuffer.c", "mockterm.c"]   # both are #included by the harness
DRIVER_PARTS = ["rb_common.ml", "drv_C13.ml"]
LEVEL = "proof"
CASE_TIMEOUT = 0.3
RULE = ("case = buffer size + drawing program with copyrect (cp) / moverect (mv) / blit ops and dump points; observation as "
        "for C03 (auxiliary state incl. the saved-state stack, raw span grid, inspection-API view).  Exhaustive part: on a "
        "2x6 buffer (and a 4x5 buffer, 2 contents, for the vertical and diagonal overlaps), for each of 9 prepared contents (text runs split by later overwrites, double-width characters cut in "
        "half, erase / skip / line / char runs, a mask, a clip, line cells at the destination), EVERY source rectangle "
        "inside the buffer paired with EVERY destination position that keeps the rectangle inside the buffer, for cp and "
        "mv, nested in a caller `save' with a changed pen, dumped before and after the caller's `restore'.  Random part: "
        "C03 programs with cp/mv spliced in while no translation is in force (source inside the buffer, destination "
        "anywhere), and blits between two buffers of different sizes.  Non-trivial = the last dump holds a non-skip cell; "
        "distinct = distinct (op kinds, span-structure shape of the last dump).")
ASSUMPTIONS = ["no translation in force during copyrect/moverect/blit (as the property states); source rectangle inside the buffer",
               "no int overflow; texts / pens / line styles as for C03"]
TRUSTED = ["models coq/RBDefs.v, coq/RBCopyDefs.v hand-written after src/renderbuffer.c (+ the part of src/rectset.c moverect uses); "
           "specification coq/RBCopySpec.v (cell-wise copy, display equality)",
           "harness reads struct TickitRenderBuffer / RBCell / RBStack directly (renderbuffer.c is #included)"]

ARITY = dict(rbgen.ARITY, cp=8, mv=8, blit=0)

BACKGROUNDS = [
    ["txa 0 0 41.42.43.44.45.46", "cha 0 2 78", "era 1 1 4"],
    ["txa 0 0 ff21.ff22.63.64", "era 0 1 2", "txa 1 0 61.301.62.ff21"],
    ["hl 0 0 5 1 3", "vl 0 1 2 2 3", "cha 1 4 7a", "pen f1", "era 1 0 2"],
    ["pen f1b2", "txa 0 1 41.42.43", "pen B1", "txa 0 2 78", "ska 1 0 6", "era 1 2 3", "ska 1 3 1"],
    ["txa 0 0 41.42.43.44.45.46", "txa 1 0 61.62.63.64.65.66", "sv", "mk 0 2 2 1"],
    ["txa 0 0 41.42.43.44.45.46", "pen u1", "era 1 0 6", "sv", "cl 0 1 2 4"],
    ["hl 0 0 5 1 3", "hl 1 0 5 2 3", "vl 0 1 3 3 3", "txa 0 4 ff21"],
    ["txa 0 0 41.42.43.44.45.46", "txa 0 2 70.71", "txa 1 0 61.62.63.64", "era 1 1 1", "cha 1 2 63"],
    ["pen f2", "txa 0 0 61.ff21.62.63", "cha 0 2 78", "pen b1", "txa 1 1 ff22.ff01", "ska 1 3 1"],
]


def rect_pairs(L, C):
    for t in range(L):
        for h in range(1, L - t + 1):
            for l in range(C):
                for w in range(1, C - l + 1):
                    for dt in range(0, L - h + 1):
                        for dl in range(0, C - w + 1):
                            yield (dt, dl, h, w, t, l, h, w)


def gen(tier, seed, info):
    rnd = random.Random(seed * 1000003 + 13)
    n = 0
    L, C = 2, 6
    for bg in BACKGROUNDS:
        for pr in rect_pairs(L, C):
            for op in ("cp", "mv"):
                n += 1
                pen = ["-", "f5", "b3B1", "f1u2"][n % 4]
                # the destination rectangle's own size is ignored by the library (the source's size counts): vary it
                dh, dw = [(pr[2], pr[3]), (1, 1), (L, C), (pr[2] + 1, max(1, pr[3] - 1))][(n // 2) % 4]
                pr2 = (pr[0], pr[1], dh, dw) + pr[4:]
                yield rbgen.case_line(L, C, bg + ["sv", "pen " + pen, op + " %d %d %d %d %d %d %d %d" % pr2, "D", "rs", "D"])
    # taller buffer: every pair on 4x5 (all vertical / diagonal overlaps, upward and downward)
    tall = [["txa 0 0 41.42.43.44.45", "txa 1 0 61.62.63.64.65", "txa 2 0 ff21.78.79", "era 3 0 5", "cha 1 2 7a", "hl 3 1 3 1 3"],
            ["pen f1", "txa 0 1 70.71.72", "pen b2", "era 1 0 3", "vl 0 3 4 2 3", "txa 2 0 6b.6c", "txa 3 2 6d.6e.6f", "ska 1 1 1"]]
    m = 0
    for bg in tall:
        for pr in rect_pairs(4, 5):
            m += 1
            op = "mv" if m % 3 else "cp"
            yield rbgen.case_line(4, 5, bg + ["sv", "pen " + ["-", "f5", "b3B1"][m % 3], op + " %d %d %d %d %d %d %d %d" % pr, "D", "rs", "D"])
    n += m
    info["exhaustive"] = True
    info["exhaustive_scope"] = ("every (source rectangle, destination position) pair inside a 2x6 buffer x {cp, mv} x %d prepared contents, "
                                "and inside a 4x5 buffer x 2 contents, nested in a caller save" % len(BACKGROUNDS))
    info["exhaustive_cases"] = n
    nrand = 3000 if tier == "quick" else 150000
    kinds = {}
    nblit = 0
    for i in range(nrand):
        r = rnd.random()
        if r < 0.4:
            L, C = rnd.randint(1, 2), rnd.randint(3, 8)
        else:
            L, C = rnd.randint(1, 4), rnd.randint(4, 12)

        def extra(rnd, sh, L=L, C=C):
            if sh.xl or sh.xc or rnd.random() > 0.12:
                return None
            h = rnd.randint(1, L); t = rnd.randint(0, L - h)
            # edges from marks, inside the buffer
            ms = [m for m in sh.marks if 0 <= m <= C] or [0, C]
            l = min(C - 1, max(0, rnd.choice(ms) + rnd.choice([0, 0, 1, -1])))
            e = min(C, max(l + 1, rnd.choice(ms) + rnd.choice([0, 0, 1, -1])))
            w = e - l
            if rnd.random() < 0.85:
                dt = rnd.randint(0, L - h); dl = rnd.randint(0, C - w)
                if rnd.random() < 0.5:
                    dl = min(C - w, max(0, l + rnd.choice([-2, -1, 1, 2]))); dt = t if rnd.random() < 0.6 else dt
            else:
                dt = rnd.randint(-2, L + 1); dl = rnd.randint(-3, C + 2)
            if rnd.random() < 0.04:
                h, w = rnd.choice([(0, w), (h, 0), (0, 0)])
            dh, dw = (h, w) if rnd.random() < 0.5 else (rnd.randint(0, L + 1), rnd.randint(0, C + 1))
            return "%s %d %d %d %d %d %d %d %d" % (rnd.choice(["cp", "cp", "mv"]), dt, dl, dh, dw, t, l, h, w)
        nops = rnd.randint(4, 30)
        ops, k = rbgen.gen_program(rnd, L, C, nops, extra=extra, dump_prob=0.05,
                                   style="text-heavy" if rnd.random() < 0.4 else "mixed")
        for kk, v in k.items():
            kinds[kk] = kinds.get(kk, 0) + v
        if i % 5 == 0:
            # blit a second buffer (any size) onto this one
            L2, C2 = rnd.randint(1, L + 1), rnd.randint(1, C + 2)
            ops2, _ = rbgen.gen_program(rnd, L2, C2, rnd.randint(2, 12), dump_prob=0.0)
            nblit += 1
            pre = ["nb %d %d" % (L2, C2), "buf 1"] + ops2 + ["D", "buf 0"]
            where = rnd.randint(0, len(ops))
            ops = pre + ops[:where] + ["blit", "D"] + ops[where:]
        yield rbgen.case_line(L, C, ops + ["D"])
    info["random_cases"] = nrand
    info["blit_cases"] = nblit
    info["op_kinds"] = kinds


def classify(case, obs):
    return rbgen.classify_case(case, obs)


def shrink(case):
    for c in rbgen.shrink_case(case, ARITY):
        # keep source rectangles inside the buffer (outside, the C reads beyond its arrays: not the property's domain)
        t = c.split()
        try:
            L, C = int(t[0]), int(t[1])
            ok = L >= 1 and C >= 1
            for i, x in enumerate(t):
                if x in ("cp", "mv"):
                    st, sl, sh_, sw = map(int, t[i + 5:i + 9])
                    if st < 0 or sl < 0 or sh_ < 0 or sw < 0 or st + sh_ > L or sl + sw > C:
                        ok = False
            if ok:
                yield c
        except (ValueError, IndexError):
            pass
