"""XTI -- BEYOND THE GIVEN PROPERTIES: the terminfo driver src/termdriver-ti.c (not an anchor of C09/C10/C12).
Model of its decision logic over an abstract terminfo entry, tied to the unmodified driver source compiled
against a shim unibilium (this sandbox has no unibilium, so the driver is compiled out of the normal build)."""
import os
import random

ID = "XTI"
ML = "mXTI"
HARNESS = "harness/XTI.c"
SRCS = None
DRIVER_PARTS = ["xt_util.ml", "drv_XTI.ml"]
HAS_ORACLE = False
LEVEL = "proof"
CASE_TIMEOUT = 0.2
VERIF = os.path.dirname(os.path.dirname(os.path.dirname(os.path.abspath(__file__))))
EXTRA_CFLAGS = ["-DHAVE_UNIBILIUM", "-I" + os.path.join(VERIF, "harness", "ti_shim")]
RULE = ("case = abstract terminfo entry (size, colour count, bce, which of 12 optional capabilities exist, mouse key) "
        "and a sequence of public-API calls; the unmodified termdriver-ti.c, compiled against a shim unibilium whose "
        "capability strings are symbolic, must choose exactly the capabilities and arguments the model chooses "
        "(byte-exact on the symbolic rendering).  No oracle on the implementation's output: the semantic statement is the "
        "Coq theorem about the model.  Non-trivial = some call wrote bytes; distinct = (entry, first four call kinds).")
ASSUMPTIONS = [
    "beyond the given properties; terminfo capabilities mean what coq/TiSpec.v says (sgr resets everything it does not set)",
    "the theorems assume a colour count >= 0; the tie also runs entries without max_colors (-1)",
    "pen values in range as for C10",
]
TRUSTED = [
    "harness/ti_shim/unibilium.h: shim standing in for unibilium (abstract entry, symbolic capability strings)",
    "coq/TiSpec.v: assumed meaning of sgr / sgr0 / sitm / ritm / setaf / setab",
    "model coq/TiDefs.v hand-written after src/termdriver-ti.c",
]

PENS = ["-", "b=1", "fg=3", "fg=3,bg=200,u=1", "rv=1", "i=1", "i=0,b=1", "fg=12#aabbcc,i=1", "b=0", "fg=-1",
        "u=2,strike=1", "af=3,blink=1,sizepos=2", "fg=100", "bg=15,fg=8"]


def gen(tier, seed, info):
    rnd = random.Random(seed * 7919 + 77)
    quick = tier == "quick"
    n = 0
    # every optional capability missing on its own / all present / all missing, each call form
    masks = [0, 4095] + [1 << i for i in range(12)]
    for mask in masks:
        for colours, bce, km in ((8, 1, 1), (16, 0, 0), (256, 1, 2), (0, 0, 1), (-1, 1, 0)):
            head = "5 10 %d %d %d %d" % (colours, bce, mask, km)
            n += 1
            yield head + " G:2:3 G:1:-1 G:-1:0 G:-1:4 G:-1:-1 M:1:0 M:-1:0 M:2:0 M:-3:0 M:0:1 M:0:-1 M:0:4 M:0:-4 M:0:0"
            n += 1
            yield head + " S:0:3:5:7:0:1 S:0:3:5:7:0:-1 S:0:3:5:7:0:2 S:0:3:5:7:0:-3 S:1:0:3:10:1:0 S:1:0:3:10:-1:0 " \
                         "S:1:0:3:10:2:0 S:1:0:3:10:-2:0 S:1:1:2:2:1:0 S:0:0:5:10:0:0 S:0:0:5:10:1:1"
            n += 1
            yield head + " E:0:0 E:1:0 E:3:1 E:3:-1 c:rv=1 E:3:0 E:3:1 E:64:0 E:65:0 E:130:1 c:rv=0 E:70:1"
            n += 1
            yield head + " s:b=1,fg=3,i=1 c:u=2 c:i=0 s:fg=200,bg=9 c:fg=3#102030 s:- K A:1 V:0 U:1 U:2 g:A g:V g:U g:C Z R A:0 T"
    info["exhaustive"] = True
    info["exhaustive_scope"] = "each of the 12 optional capabilities absent alone, none, all x 4 (colours, bce, mouse) x the call forms"
    for _ in range(3000 if quick else 300000):
        lines, cols = rnd.choice([(5, 10), (3, 4), (24, 80), (2, 140)])
        head = "%d %d %d %d %d %d" % (lines, cols, rnd.choice([-1, 0, 8, 16, 88, 256]), rnd.randint(0, 1),
                                       rnd.choice([0, 4095, rnd.randrange(4096)]), rnd.randint(0, 2))
        ops = []
        for _ in range(rnd.randint(1, 10)):
            k = rnd.choice("GGMMPEEKSSSccsAVUgZRT")
            if k == "G": ops.append("G:%d:%d" % (rnd.randint(-1, lines - 1), rnd.randint(-1, cols - 1)))
            elif k == "M": ops.append("M:%d:%d" % (rnd.randint(-3, 3), rnd.randint(-3, 3)))
            elif k == "P": ops.append("P:" + "".join("%02x" % rnd.randint(33, 126) for _ in range(rnd.randint(1, 5))))
            elif k == "E": ops.append("E:%d:%d" % (rnd.choice([0, 1, 2, 5, 64, 65, 129]), rnd.choice([0, 1, -1])))
            elif k == "K": ops.append("K")
            elif k == "S":
                t = rnd.randrange(lines); l = rnd.choice([0, rnd.randrange(cols)])
                h = rnd.randint(1, lines - t); w = rnd.choice([cols - l, rnd.randint(1, cols - l)])
                ops.append("S:%d:%d:%d:%d:%d:%d" % (t, l, h, w, rnd.randint(-2, 2), rnd.randint(-2, 2)))
            elif k in "cs": ops.append(k + ":" + rnd.choice(PENS))
            elif k in "AVU": ops.append("%s:%d" % (k, rnd.choice([0, 1, 2])))
            elif k == "g": ops.append("g:" + rnd.choice("AVUC"))
            else: ops.append(k)
        n += 1
        yield head + " " + " ".join(ops)
    info["cases"] = n


def classify(case, obs):
    o = obs.split()
    if len(o) < 2 or all(x.endswith(":-") or x.startswith("=") for x in o[1:]):
        return None
    t = case.split()
    return (tuple(t[:6]), tuple(op.split(":")[0] for op in t[6:10]))


def shrink(case):
    t = case.split()
    head, ops = t[:6], t[6:]
    for i in range(len(ops)):
        yield " ".join(head + ops[:i] + ops[i + 1:])
