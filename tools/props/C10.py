"""C10 -- terminal rendering attributes always equal the logical pen after setpen/chpen
(src/term.c tickit_term_setpen/chpen + convert_colour, src/termdriver-xterm.c chpen)."""
import itertools
import random

ID = "C10"
ML = "mC10"
HARNESS = "harness/C10.c"
SRCS = None
DRIVER_PARTS = ["xt_util.ml", "drv_C10.ml"]
LEVEL = "proof"
CASE_TIMEOUT = 0.2
RULE = ("case = layer + capabilities + a history of set-pen / change-pen requests, each with a fresh pen object or with ONE pen object "
        "reused through the case (attributes set on it, removed with tickit_pen_clear_attr, the object handed to setpen / chpen in between).  Layer X: a real xterm TickitTerm "
        "(colon sub-parameters and RGB probed / forced); the bytes of every request are compared with the model's and "
        "run through the extracted VT, whose SGR state must equal the logical pen (projected through the capabilities) "
        "after every request, with no bytes when the logical pen did not change.  Layer D: term.c above a logging driver "
        "reporting 8/16/... colours; the delta and final pens it is handed are compared with the model's and checked "
        "against the palette-converted logical pen.  Non-trivial = at least one request present; distinct = distinct "
        "(layer, capabilities, per request: kind + set of attributes with a value class each), first four requests.")
ASSUMPTIONS = [
    "pen values in the range of their bit-fields and of what SGR can express: colour index -1..255, RGB components 0..255, "
    "underline 0..3, altfont -1..9, sizepos NORMAL/SUPERSCRIPT/SUBSCRIPT (SIZEPOS_SMALL and altfont 10 have no SGR and are "
    "outside the quantifier, as the header documents)",
    "the terminal starts with the default rendition",
    "without colon sub-parameters, underline styles other than single and double are approximated by a single underline",
]
TRUSTED = [
    "coq/VT.v SGR semantics (38/48 ;5;n ;2;r;g;b :5:n :2:r:g:b :2:cs:r:g:b, 4:n, 21, 22 resets bold and faint, 73/74/75, "
    "legacy reading of 4;2 as underline + faint)",
    "coq/TermPenSpec.v: logical pen (set = exactly the pen, change = overlay), projection enc/conv_val, checkers",
    "coq/Gen_Palette.v, coq/Gen_SgrOnOff.v: re-translated from src/xterm-palette.inc and termdriver-xterm.c on every run",
    "models coq/TermPenDefs.v hand-written after src/term.c, src/pen.c, src/termdriver-xterm.c",
]

ATTRS = ["fg", "bg", "b", "u", "i", "rv", "strike", "af", "blink", "sizepos"]
NONDEF = {"fg": "3", "bg": "200", "b": "1", "u": "1", "i": "1", "rv": "1", "strike": "1", "af": "4", "blink": "1", "sizepos": "2"}
RICH = {"fg": "12#aabbcc", "bg": "17#010203", "b": "1", "u": "3", "i": "1", "rv": "1", "strike": "1", "af": "9", "blink": "1", "sizepos": "3"}
VALUES = {
    "fg": ["-1", "0", "7", "8", "15", "16", "100", "255", "5#102030", "200#ffffff", "-1#000001"],
    "bg": ["-1", "0", "7", "8", "15", "16", "231", "255", "9#0a0b0c", "16#000000"],
    "b": ["0", "1"], "i": ["0", "1"], "rv": ["0", "1"], "strike": ["0", "1"], "blink": ["0", "1"],
    "u": ["0", "1", "2", "3"], "af": ["-1", "0", "1", "5", "9"], "sizepos": ["0", "2", "3"],
}
OUT_OF_RANGE = {"sizepos": ["1"], "af": ["10", "15", "-2"]}


def pen_str(d):
    return ",".join("%s=%s" % (a, d[a]) for a in ATTRS if a in d) or "-"


def rand_pen(rnd, malformed=False):
    d = {}
    k = rnd.choice([0, 1, 1, 2, 3, 5, 10])
    for a in rnd.sample(ATTRS, k):
        if malformed and a in OUT_OF_RANGE and rnd.random() < 0.5:
            d[a] = rnd.choice(OUT_OF_RANGE[a])
        elif a in ("fg", "bg") and rnd.random() < 0.4:
            i = rnd.randint(-1, 255)
            d[a] = str(i) + ("#%02x%02x%02x" % (rnd.randrange(256), rnd.randrange(256), rnd.randrange(256)) if rnd.random() < 0.4 else "")
        else:
            d[a] = rnd.choice(VALUES[a])
    return pen_str(d)


def gen(tier, seed, info):
    rnd = random.Random(seed * 7919 + 10)
    quick = tier == "quick"
    counts = {}

    def emit(kind, line):
        counts[kind] = counts.get(kind, 0) + 1
        return line
    caps = [(0, 0), (0, 1), (1, 0), (1, 1)]
    # 1. every subset of the ten attributes, set twice (second must be silent), then reset; and as change-pen
    for colon, rgb in caps:
        for mask in range(1024):
            sub = {a: (RICH if (mask * 7 + colon) % 3 == 0 else NONDEF)[a] for j, a in enumerate(ATTRS) if mask >> j & 1}
            p = pen_str(sub)
            yield emit("subsets", "X %d %d s:%s s:%s s:-" % (colon, rgb, p, p))
            if mask % 4 == colon * 2 + rgb:
                yield emit("subsets", "X %d %d c:%s c:%s s:%s c:b=0" % (colon, rgb, p, p, p))
    # 2. each attribute through its values, from empty and from a rich pen, by set and by change
    for colon, rgb in caps:
        for a in ATTRS:
            for v in VALUES[a]:
                for w in VALUES[a]:
                    yield emit("value_pairs", "X %d %d c:%s=%s c:%s=%s c:%s=%s s:%s=%s" % (colon, rgb, a, v, a, w, a, w, a, v))
                yield emit("value_pairs", "X %d %d s:%s c:%s=%s s:%s" % (colon, rgb, pen_str(RICH), a, v, pen_str(RICH)))
    # 3. the fullest pen (19 parameters) and its neighbours
    full = dict(RICH)
    for colon, rgb in caps:
        yield emit("full", "X %d %d s:%s" % (colon, rgb, pen_str(full)))
        yield emit("full", "X %d %d c:%s c:%s" % (colon, rgb, pen_str(full), pen_str(full)))
        for a in ATTRS:
            d = dict(full); del d[a]
            yield emit("full", "X %d %d s:%s s:%s" % (colon, rgb, pen_str(d), pen_str(full)))
    # 4. palette layer: every index at 8 and 16 colours, twice by set, then by change, then an in-palette colour
    for colors in (8, 16):
        for i in range(256):
            yield emit("palette_sweep", "D %d s:fg=%d s:fg=%d c:fg=%d c:bg=%d c:bg=%d s:fg=%d" % (colors, i, i, i, i, i, i % colors))
    for colors in (-1, 0, 2, 8, 16, 88, 256, 16777216):
        for p in ("fg=100#102030", "fg=3#102030,bg=9#040506", "fg=-1,bg=-1", pen_str(RICH)):
            yield emit("palette_misc", "D %d s:%s s:%s c:%s s:-" % (colors, p, p, p))
    # 4b. ONE pen object reused through the case: attributes set on it (p), removed with tickit_pen_clear_attr (k),
    #     the object handed to setpen / chpen (S / C) in between -- for every attribute and sample value
    for colon, rgb in ((0, 0), (1, 1)):
        for a in ATTRS:
            for v in VALUES[a]:
                yield emit("reused_pen", "X %d %d p:%s=%s S:- k:%s=0 S:- C:- p:%s=%s C:- k:%s=0 S:-" % (colon, rgb, a, v, a, a, v, a))
                yield emit("reused_pen", "X %d %d p:%s,%s=%s S:- k:%s=0 S:- s:-" % (colon, rgb, pen_str(NONDEF), a, v, a))
            yield emit("reused_pen", "X %d %d p:%s S:- k:%s=0 S:- p:%s S:- k:%s=0 C:- S:-" % (colon, rgb, pen_str(RICH), a, pen_str(NONDEF), a))
    for colors in (8, 16, 256):
        for a in ATTRS:
            yield emit("reused_pen", "D %d p:%s S:- k:%s=0 S:- C:- S:-" % (colors, pen_str(RICH), a))
    info["exhaustive"] = True
    info["exhaustive_scope"] = ("xterm layer: all 1024 subsets of the ten attributes x 4 capability combinations (set twice, "
                                "reset); every ordered pair of sample values per attribute; palette layer: all 256 indices "
                                "at 8 and 16 colours for fg and bg, set and change, repeated")
    # 5. random histories
    n = 5000 if quick else 800000
    for _ in range(n):
        malformed = rnd.random() < 0.05
        if rnd.random() < 0.25:
            # histories over the reused pen object
            words = []
            for _ in range(rnd.randint(2, 10)):
                r = rnd.random()
                if r < 0.3:
                    words.append("p:" + rand_pen(rnd, malformed))
                elif r < 0.5:
                    words.append("k:" + ",".join("%s=0" % a for a in rnd.sample(ATTRS, rnd.choice([1, 1, 2, 4]))))
                elif r < 0.85:
                    words.append(rnd.choice("SSC") + ":-")
                else:
                    words.append("%s:%s" % (rnd.choice("sc"), rand_pen(rnd, malformed)))
            ops = " ".join(words)
        else:
            ops = " ".join("%s:%s" % (rnd.choice("sc"), rand_pen(rnd, malformed)) for _ in range(rnd.randint(1, 8)))
        if rnd.random() < 0.6:
            colon, rgb = rnd.choice(caps)
            yield emit("malformed" if malformed else "random_X", "X %d %d %s" % (colon, rgb, ops))
        else:
            yield emit("malformed" if malformed else "random_D", "D %d %s" % (rnd.choice([8, 8, 16, 16, 88, 256, -1, 0]), ops))
    info["cases_by_kind"] = counts
    info["random_ops"] = "1..8 requests per case; pens with 0..10 random attributes, colours with 40% random index and RGB"


def _vclass(a, v):
    if a in ("fg", "bg"):
        i = int(v.split("#")[0])
        c = "def" if i < 0 else "lo" if i < 8 else "hi" if i < 16 else "256"
        return c + ("+rgb" if "#" in v else "")
    return v


def classify(case, obs):
    t = case.split()
    first = 3 if t[0] == "X" else 2
    ops = t[first:]
    if not ops:
        return None
    tags = []
    for op in ops[:4]:
        k, p = op.split(":", 1)
        items = () if p == "-" else tuple(sorted((x.split("=")[0], _vclass(*x.split("="))) for x in p.split(",")))
        tags.append((k, items))
    return (tuple(t[:first]), tuple(tags))


def shrink(case):
    t = case.split()
    first = 3 if t[0] == "X" else 2
    head, ops = t[:first], t[first:]
    for i in range(len(ops)):
        yield " ".join(head + ops[:i] + ops[i + 1:])
    for i, op in enumerate(ops):
        k, p = op.split(":", 1)
        items = [] if p == "-" else p.split(",")
        for j in range(len(items)):
            rest = items[:j] + items[j + 1:]
            yield " ".join(head + ops[:i] + [k + ":" + (",".join(rest) or "-")] + ops[i + 1:])
