#!/usr/bin/env python3
"""Writes seeded/README.md: one row per seeded breaking change with the outcome of the
registered quick check (from seeded/RESULTS.json, written by tools/seeded.py)."""
import json, os
V = os.path.dirname(os.path.dirname(os.path.abspath(__file__)))
sd = os.path.join(V, "seeded")
res = json.load(open(os.path.join(sd, "RESULTS.json")))
rows = []
for n in sorted(d for d in os.listdir(sd) if os.path.isdir(os.path.join(sd, d))):
    m = json.load(open(os.path.join(sd, n, "meta.json")))
    r = res.get(n, {})
    if m.get("superseded"):
        out = "superseded by a fix: commit (cannot be expressed on the repaired tree)"
    elif not r.get("applies", False):
        out = "patch does not apply to the current tree (needs porting)"
    elif r.get("caught"):
        out = "CAUGHT, failing input reported" if r.get("with_failing_input") else "CAUGHT, no-failing-input-found"
    else:
        out = "MISSED"
    summ = " ".join(str(m.get("summary", "")).split())
    if len(summ) > 230: summ = summ[:227] + "..."
    rows.append("| %s | %s | %s | %s%s |" % (n, m["property"], summ.replace("|", "/"), out, " (ported to the repaired tree)" if m.get("ported") else ""))
txt = ("# Seeded breaking changes\n\nEach directory holds `patch.diff` (against /repo's current tree; `patch.pinned-tree.diff` is the original when it had to be "
       "re-expressed after `fix:` commits), `demo.c` (fails with the change, passes without) and `meta.json`.  Every change was written by an independent "
       "sub-agent that saw only the property text, compiles, passes the 43 tests, and was confirmed in a scratch worktree.  `python3 tools/seeded.py [names]` "
       "applies each to /repo, runs the registered quick check, and undoes it.\n\n| change | property | what it does | registered check |\n|---|---|---|---|\n" + "\n".join(rows) + "\n")
open(os.path.join(sd, "README.md"), "w").write(txt)
print(sum(1 for r in rows if "CAUGHT" in r), "caught of", len(rows))
