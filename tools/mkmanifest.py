#!/usr/bin/env python3
"""Writes MANIFEST.json from the table below (kept in one place so it stays valid)."""
import json, os
VERIF = os.path.dirname(os.path.dirname(os.path.abspath(__file__)))
ALL = ["C%02d" % i for i in range(1, 21)]

CLAIMED = {
 "C06": dict(
   text="Machine-checked proof (Coq 8.16) that the model of src/rect.c satisfies the property for ALL pairs of non-empty "
        "rectangles over Z (every edge ordering, any translation): intersect exact, add <=3 / subtract <=4 pairwise-disjoint "
        "non-empty pieces covering exactly union / difference, contains/intersects equal to their cell-wise definitions. The model "
        "is tied to /repo's current rect.c on every run by a correspondence check that is exhaustive over all 169 Allen ordering "
        "classes (36x36 rectangle pairs x 3 translations x 5 ops) plus random wide pairs, under ASan/UBSan with exact-size output arrays.",
   note="Trusted: Coq kernel; hand-written model RectDefs.v (tied by differential testing, not proof); extraction with ExtrOcamlBasic; "
        "no int overflow. No axioms (Print Assumptions: closed under the global context).",
   design="6/C06", technique="Coq proof (case analysis + lia) over an executable Gallina model; extracted-model vs C differential check; extracted boolean spec as oracle"),
}

NA_REASON = "not yet built in this revision: model/proof/correspondence for this property are scheduled (DESIGN.md section 10)"

def main():
    checks = []
    for pid in ALL:
        if pid not in CLAIMED: continue
        c = CLAIMED[pid]
        checks.append({
          "property_id": pid,
          "quick_cmd": "./check %s --tier quick" % pid,
          "thorough_cmd": "./check %s --tier thorough" % pid,
          "evidence_file": "/verif/evidence/%s.json" % pid,
          "replay_cmd_template": "./check %s --replay {path}" % pid,
          "engine": "coq-proof+correspondence",
          "level_claimed": {"category": c.get("category", "proof"), "text": c["text"], "design_ref": "DESIGN.md section " + c["design"]},
          "level_note": c["note"],
          "technique": c["technique"],
        })
    m = {
      "version": 1,
      "setup_cmd": "./setup.sh",
      "hooks": {"guard": "LIBTICKIT_VERIF",
                "enable": "harnesses compile /repo's src/*.c with -DLIBTICKIT_VERIF (no source hooks exist; statics are reached by #include of the .c file)",
                "baseline_off_cmd": "make -C /repo -k -j8 test",
                "source_commits": [], "add_only": True},
      "engines": [{"name": "coq-proof+correspondence", "path": "tools/core.py",
                   "serves_properties": sorted(CLAIMED),
                   "kind_free_text": "Coq 8.16 theorems over hand-written executable Gallina models (coq/), models extracted to OCaml and run against the C built from /repo's working tree with ASan/UBSan; extracted boolean specifications as oracle; data tables re-translated from source on every run"}],
      "checks": checks,
      "not_applicable": [{"property_id": p, "reason": NA.get(p, NA_REASON)} for p in ALL if p not in CLAIMED],
      "notes": "See DESIGN.md. ./check <id> prints VIOLATION/KNOWN-FINDING lines per the interface; known_findings.json lists recorded and fixed defects.",
    }
    json.dump(m, open(os.path.join(VERIF, "MANIFEST.json"), "w"), indent=1)

NA = {}
if __name__ == "__main__":
    main()
